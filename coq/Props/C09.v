(* Props/C09.v — property C09: reversed / split / cropped trace the same curve
   under the documented parameter map.
   Models: Model/Crop.v (crop_bezier, Line.cropped/split, reversed, Path.reversed,
   Path.cropped), Model/CropArc.v (Arc.cropped/reversed/split), Model/Bezier.v
   (split_bezier), Model/Arc.v.  Only statements, `exact`, Print Assumptions and
   non-vacuity / refutation Examples live here.

   Naming: _partial = proved under the stated extra hypothesis
           _refuted = the faithful model of the current code violates the
                      property's statement (closed witness, vm_compute). *)
From Coq Require Import ZArith QArith Qcanon List Bool Reals.
From SVP Require Import Base.Num Base.Cplx Model.Bezier Model.Arc Model.Crop Model.CropArc
     Proofs.DeCasteljau Proofs.CropBezier Proofs.CropPath Proofs.CropRefute Proofs.ArcR Proofs.ArcDeriv Proofs.CropArc.
Import ListNotations.

(* ================================================================== *)
(* Bezier segments — any field of characteristic 0, ALL degrees         *)
(* ================================================================== *)
Section C09_bezier.
  Context {K : Type} (N : Num K) (OK : NumFieldOK N).
  (* a `true` answer of == means equality (holds for R and Q, below) *)
  Hypothesis Heq : eqb_sound N.
  Local Notation om t := (sub N (one N) t).

  (* reversed(): control points in opposite order; point(t) of the result = point(1-t) *)
  Theorem C09_reversed_bezier : forall p t, bern N (bez_reversed p) t = bern N p (om t).
  Proof. exact (reversed_bezier N OK). Qed.
  Theorem C09_reversed_bpoints : forall s c c1 c2 e : Cplx K,
    (let '(a, b) := line_reversed s e in [a; b]) = bez_reversed [s; e] /\
    (let '(a, b, d) := quad_reversed s c e in [a; b; d]) = bez_reversed [s; c; e] /\
    (let '(a, b, d, f) := cubic_reversed s c1 c2 e in [a; b; d; f]) = bez_reversed [s; c1; c2; e].
  Proof. intros. repeat split. Qed.
  (* ... also for the segment classes' own point() formulas *)
  Theorem C09_reversed_line : forall s e t, line_point N e s t = line_point N s e (om t).
  Proof. exact (line_reversed_point N OK). Qed.
  Theorem C09_reversed_quad : forall s c e t, quad_point N e c s t = quad_point N s c e (om t).
  Proof. exact (quad_reversed_point N OK). Qed.
  Theorem C09_reversed_cubic : forall s c1 c2 e t,
    cubic_point N e c2 c1 s t = cubic_point N s c1 c2 e (om t).
  Proof. exact (cubic_reversed_point N OK). Qed.

  (* split(t): the pieces are point(u*t) and point(t + u*(1-t)); they meet at point(t);
     outer end points and degree preserved *)
  Theorem C09_split : forall p t, p <> [] ->
    (forall u, bern N (fst (bez_split N p t)) u = bern N p (mul N u t)) /\
    (forall u, bern N (snd (bez_split N p t)) u = bern N p (add N t (mul N u (om t)))) /\
    last (fst (bez_split N p t)) (c0 N) = bern N p t /\
    hd (c0 N) (snd (bez_split N p t)) = bern N p t /\
    hd (c0 N) (fst (bez_split N p t)) = hd (c0 N) p /\
    last (snd (bez_split N p t)) (c0 N) = last p (c0 N) /\
    length (fst (bez_split N p t)) = length p /\
    length (snd (bez_split N p t)) = length p.
  Proof. exact (split_pieces N OK). Qed.

  (* cropped(t0,t1) = crop_bezier: all three branches.  The oracle premise
     (radialrange relocates t1 on the trimmed piece exactly) is explicit; it is
     what the correspondence check samples. *)
  Theorem C09_crop : forall p t0 t1 t1adj u, p <> [] ->
    t0 <> one N -> t1adj = div N (sub N t1 t0) (om t0) ->
    bern N (crop_bezier N p t0 t1 t1adj) u = bern N p (add N t0 (mul N u (sub N t1 t0))).
  Proof. exact (crop_bern N OK Heq). Qed.
  Theorem C09_crop_ends : forall p t0 t1 t1adj, p <> [] ->
    t0 <> one N -> t1adj = div N (sub N t1 t0) (om t0) ->
    crop_bezier N p t0 t1 t1adj <> [] /\
    length (crop_bezier N p t0 t1 t1adj) = length p /\
    hd (c0 N) (crop_bezier N p t0 t1 t1adj) = bern N p t0 /\
    last (crop_bezier N p t0 t1 t1adj) (c0 N) = bern N p t1.
  Proof. exact (crop_ends N OK Heq). Qed.
  (* what the code returns for an ARBITRARY oracle answer: the piece from t0 to
     t0 + t1adj*(1-t0) — so a relocation onto another branch of a
     self-intersecting curve yields a different curve with the same end point *)
  Theorem C09_crop_any_oracle_answer : forall p t0 t1 t1adj u, p <> [] ->
    eqb N t0 (zero N) = false -> eqb N t1 (one N) = false ->
    bern N (crop_bezier N p t0 t1 t1adj) u
    = bern N p (add N t0 (mul N (mul N u t1adj) (om t0))).
  Proof. exact (crop_bern_any_adj N OK). Qed.

  (* the REPAIRED relocation t1_adj = (t1 - t0)/(1 - t0) (variant flag an = true of
     crop_bezier_v; an = false is the pinned code above): no oracle, no premise *)
  Theorem C09_crop_analytic : forall p t0 t1 o u, p <> [] -> t0 <> one N ->
    bern N (crop_bezier_v N true p t0 t1 o) u = bern N p (add N t0 (mul N u (sub N t1 t0))).
  Proof. exact (crop_bern_analytic N OK Heq). Qed.
  Theorem C09_crop_analytic_ends : forall p t0 t1 o, p <> [] -> t0 <> one N ->
    crop_bezier_v N true p t0 t1 o <> [] /\
    length (crop_bezier_v N true p t0 t1 o) = length p /\
    hd (c0 N) (crop_bezier_v N true p t0 t1 o) = bern N p t0 /\
    last (crop_bezier_v N true p t0 t1 o) (c0 N) = bern N p t1.
  Proof. exact (crop_ends_analytic N OK Heq). Qed.
  Theorem C09_crop_pinned_is_oracle_version : forall p t0 t1 o,
    crop_bezier_v N false p t0 t1 o = crop_bezier N p t0 t1 o.
  Proof. exact (crop_bezier_v_pinned N). Qed.

  (* Line.cropped / Line.split *)
  Theorem C09_line_cropped : forall s e t0 t1 u,
    (let '(a, b) := line_cropped N s e t0 t1 in line_point N a b u)
    = line_point N s e (add N t0 (mul N u (sub N t1 t0))).
  Proof. exact (line_cropped_point N OK). Qed.
  Theorem C09_line_cropped_ends : forall s e t0 t1,
    fst (line_cropped N s e t0 t1) = line_point N s e t0 /\
    snd (line_cropped N s e t0 t1) = line_point N s e t1.
  Proof. exact (line_cropped_ends N). Qed.
  Theorem C09_line_split : forall s e t u,
    (let '((a, b), (c, d)) := line_split N s e t in
     line_point N a b u = line_point N s e (mul N u t) /\
     line_point N c d u = line_point N s e (add N t (mul N u (om t))) /\
     b = line_point N s e t /\ c = line_point N s e t /\ a = s /\ d = e).
  Proof. exact (line_split_points N OK). Qed.
End C09_bezier.

(* over the reals, on the documented domain 0 <= t0 < t1 <= 1, any degree: the repaired
   crop_bezier returns (all its asserts hold) and cropped(t0,t1).point(u) = point(t0 + u (t1 - t0)) *)
Theorem C09_crop_analytic_R : forall (p : list (Cplx R)) (t0 t1 o u : R),
  p <> [] -> (0 <= t0 < t1)%R -> (t1 <= 1)%R ->
  crop_bezier_res_v NumR true p t0 t1 o = Ok (crop_bezier_v NumR true p t0 t1 o) /\
  bern NumR (crop_bezier_v NumR true p t0 t1 o) u = bern NumR p (t0 + u * (t1 - t0))%R.
Proof. exact crop_analytic_R. Qed.

(* the comparison premise holds in the two instances used *)
Example C09_eqb_sound_R : eqb_sound NumR.
Proof. exact eqb_sound_R. Qed.
Example C09_eqb_sound_Q : eqb_sound NumQ.
Proof. exact eqb_sound_Q. Qed.

(* ================================================================== *)
(* Arcs — over R, with Model/Arc.v's _parameterize                      *)
(* ================================================================== *)
Local Open Scope R_scope.

(* re-parameterisation (uniqueness) lemma for Arc._parameterize: an arc built
   from two points of an ellipse at eccentric angles A0 and A0+D (degrees), the
   ellipse's radii and rotation, sweep = (D > 0) and large_arc = (|D| > 180)
   recovers that ellipse (no radius rescaling), delta = D and theta = A0 mod 360.
   _partial: away from the np.isclose snap of the radicand (snap_inactive) *)
Theorem C09_arc_reparam_partial : forall C rx ry rotation A0 D large' sweep',
  0 < rx -> 0 < ry -> 0 < Rabs D < 360 -> (sweep' = true <-> 0 < D) ->
  (180 < Rabs D -> large' = true) /\ (Rabs D < 180 -> large' = false) ->
  let s := ell_pt C rx ry rotation A0 in
  let e := ell_pt C rx ry rotation (A0 + D) in
  snap_inactive s (rx, ry) e rotation false ->
  let Q := arc_init NumR NumTR s (rx, ry) rotation large' sweep' e in
  s <> e /\ a_radius Q = (rx, ry) /\ a_center Q = C /\ a_delta Q = D /\
  (cos (a_theta Q * PI / 180) = cos (A0 * PI / 180) /\
   sin (a_theta Q * PI / 180) = sin (A0 * PI / 180)) /\
  (exists j : Z, a_theta Q = A0 + 360 * IZR j) /\
  (forall u, arc_point NumR NumTR Q u = ell_pt C rx ry rotation (A0 + u * D)).
Proof. exact arc_reinit. Qed.

(* Arc.cropped(t0,t1).point(u) = point(t0 + u (t1 - t0)); theta' = theta + t0 delta
   (mod 360), delta' = (t1 - t0) delta, same centre and radii *)
Theorem C09_arc_cropped_partial : forall (P : ArcP R) t0 t1,
  arc_wf P -> t0 < t1 -> Rabs ((t1 - t0) * a_delta P) < 360 ->
  snap_inactive (arc_point NumR NumTR P t0) (a_radius P) (arc_point NumR NumTR P t1) (a_rotation P) false ->
  let Q := arc_of_args NumR NumTR false (arc_cropped_args NumR NumTR P t0 t1) in
  arc_cropped NumR NumTR false P t0 t1 = Ok Q /\
  a_center Q = a_center P /\ a_radius Q = a_radius P /\
  a_delta Q = (t1 - t0) * a_delta P /\
  (cos (a_theta Q * PI / 180) = cos ((a_theta P + t0 * a_delta P) * PI / 180) /\
   sin (a_theta Q * PI / 180) = sin ((a_theta P + t0 * a_delta P) * PI / 180)) /\
  (exists j : Z, a_theta Q = a_theta P + t0 * a_delta P + 360 * IZR j) /\
  (forall u, arc_point NumR NumTR Q u = arc_point NumR NumTR P (t0 + u * (t1 - t0))).
Proof. exact arc_cropped_reparam. Qed.

(* Arc.reversed().point(u) = point(1 - u); theta' = theta + delta, delta' = -delta *)
Theorem C09_arc_reversed_partial : forall (P : ArcP R),
  arc_wf P -> a_start P = arc_point NumR NumTR P 0 -> a_end P = arc_point NumR NumTR P 1 ->
  Rabs (a_delta P) < 360 ->
  (180 < Rabs (a_delta P) -> a_large P = true) -> (Rabs (a_delta P) < 180 -> a_large P = false) ->
  snap_inactive (a_end P) (a_radius P) (a_start P) (a_rotation P) false ->
  let Q := arc_of_args NumR NumTR false (arc_reversed_args P) in
  arc_reversed NumR NumTR false P = Ok Q /\
  a_center Q = a_center P /\ a_radius Q = a_radius P /\ a_delta Q = - a_delta P /\
  (cos (a_theta Q * PI / 180) = cos ((a_theta P + a_delta P) * PI / 180) /\
   sin (a_theta Q * PI / 180) = sin ((a_theta P + a_delta P) * PI / 180)) /\
  (exists j : Z, a_theta Q = a_theta P + a_delta P + 360 * IZR j) /\
  (forall u, arc_point NumR NumTR Q u = arc_point NumR NumTR P (1 - u)).
Proof. exact arc_reversed_reparam. Qed.
(* ... for every constructed arc (all admissible constructor arguments) *)
Theorem C09_arc_reversed_constructed_partial : forall start radius rotation large sweep end_,
  start <> end_ -> fst radius <> 0 -> snd radius <> 0 ->
  snap_inactive start radius end_ rotation false ->
  let P := arc_init NumR NumTR start radius rotation large sweep end_ in
  snap_inactive (a_end P) (a_radius P) (a_start P) (a_rotation P) false ->
  let Q := arc_of_args NumR NumTR false (arc_reversed_args P) in
  arc_reversed NumR NumTR false P = Ok Q /\
  a_center Q = a_center P /\ a_radius Q = a_radius P /\ a_delta Q = - a_delta P /\
  (forall u, arc_point NumR NumTR Q u = arc_point NumR NumTR P (1 - u)).
Proof. exact arc_init_reversed_reparam. Qed.

(* Arc.split(t) = (cropped(0,t), cropped(t,1)) *)
Theorem C09_arc_split_partial : forall (P : ArcP R) t,
  arc_wf P -> 0 < t < 1 -> Rabs (a_delta P) < 360 ->
  snap_inactive (arc_point NumR NumTR P 0) (a_radius P) (arc_point NumR NumTR P t) (a_rotation P) false ->
  snap_inactive (arc_point NumR NumTR P t) (a_radius P) (arc_point NumR NumTR P 1) (a_rotation P) false ->
  let A := arc_of_args NumR NumTR false (arc_cropped_args NumR NumTR P 0 t) in
  let B := arc_of_args NumR NumTR false (arc_cropped_args NumR NumTR P t 1) in
  arc_split NumR NumTR false P t = Ok (A, B) /\
  (a_center A = a_center P /\ a_radius A = a_radius P /\ a_delta A = t * a_delta P) /\
  (a_center B = a_center P /\ a_radius B = a_radius P /\ a_delta B = (1 - t) * a_delta P) /\
  (forall u, arc_point NumR NumTR A u = arc_point NumR NumTR P (u * t)) /\
  (forall u, arc_point NumR NumTR B u = arc_point NumR NumTR P (t + u * (1 - t))) /\
  arc_point NumR NumTR A 1 = arc_point NumR NumTR P t /\
  arc_point NumR NumTR B 0 = arc_point NumR NumTR P t.
Proof. exact arc_split_reparam. Qed.

(* every constructed arc is well formed, so the three theorems apply to it *)
Theorem C09_arc_constructed_wf : forall start radius rotation large sweep end_,
  start <> end_ -> fst radius <> 0 -> snd radius <> 0 ->
  arc_wf (arc_init NumR NumTR start radius rotation large sweep end_).
Proof. exact arc_init_wf. Qed.
(* when the snap hypothesis holds: the cropped extent D = (t1-t0)*delta is exactly a
   half turn, or cot^2(D/2) > 1e-8, i.e. D is not within ~1e-4 rad of +-180 degrees *)
Theorem C09_arc_crop_snap_criterion : forall (P : ArcP R) t0 t1,
  arc_wf P -> t0 < t1 -> Rabs ((t1 - t0) * a_delta P) < 360 ->
  (cos ((t1 - t0) * a_delta P * PI / 180) = -1 \/
   atol8 NumR < (1 + cos ((t1 - t0) * a_delta P * PI / 180)) / (1 - cos ((t1 - t0) * a_delta P * PI / 180))) ->
  snap_inactive (arc_point NumR NumTR P t0) (a_radius P) (arc_point NumR NumTR P t1) (a_rotation P) false.
Proof. exact arc_crop_snap_ok. Qed.
(* non-vacuity: the upper unit half circle cropped to its first half *)
Example C09_arc_cropped_nonvacuous :
  let Q := arc_of_args NumR NumTR false (arc_cropped_args NumR NumTR W 0 (1 / 2)) in
  arc_cropped NumR NumTR false W 0 (1 / 2) = Ok Q /\ a_center Q = a_center W /\ a_radius Q = (1, 1) /\
  a_delta Q = 90 /\ forall u, arc_point NumR NumTR Q u = arc_point NumR NumTR W (u / 2).
Proof. exact crop_W. Qed.
Local Close Scope R_scope.

(* ================================================================== *)
(* Paths — any number of segments, abstract segment type, ANY carrier  *)
(* ================================================================== *)
Section C09_path_reversed.
  Context {S P K L : Type}.
  Variable reversed : S -> S.
  Variable pt : S -> K -> P.
  Variable flip : K -> K.                                 (* t |-> 1 - t *)
  Hypothesis rev_pt : forall s t, pt (reversed s) t = pt s (flip t).
  (* same points in the opposite order: segment i of the result is the reversed
     segment n-1-i *)
  Theorem C09_path_reversed : forall (segs : list S) i d t, (i < length segs)%nat ->
    length (path_reversed reversed segs) = length segs /\
    nth i (path_reversed reversed segs) (reversed d) = reversed (nth (length segs - 1 - i) segs d) /\
    pt (nth i (path_reversed reversed segs) (reversed d)) t
    = pt (nth (length segs - 1 - i) segs d) (flip t).
  Proof.
    intros segs i d t H. destruct (path_reversed_nth reversed segs i d H) as [A B].
    split; [exact A|]. split; [exact B|]. exact (path_reversed_points reversed pt flip rev_pt segs i d t H).
  Qed.
  (* equal length, given per-segment invariance and a commutative exact addition *)
  Variables (ladd : L -> L -> L) (lzero : L) (len : S -> L).
  Hypothesis ladd_comm : forall a b, ladd a b = ladd b a.
  Hypothesis ladd_assoc : forall a b c, ladd a (ladd b c) = ladd (ladd a b) c.
  Hypothesis ladd_0 : forall a, ladd lzero a = a.
  Hypothesis rev_len : forall s, len (reversed s) = len s.
  (* the segment lengths of the reversed path are the reversed list of the segment lengths
     (what a length cache carried over to the reversed path has to respect) *)
  Theorem C09_path_reversed_lengths : forall segs : list S,
    map len (path_reversed reversed segs) = path_reversed (fun x => x) (map len segs).
  Proof. exact (path_reversed_lens reversed len rev_len). Qed.
  Theorem C09_path_reversed_length : forall segs : list S,
    lsum ladd lzero (map len (path_reversed reversed segs)) = lsum ladd lzero (map len segs).
  Proof. exact (path_reversed_length reversed ladd lzero ladd_comm ladd_assoc ladd_0 len rev_len). Qed.
End C09_path_reversed.

Section C09_path_cropped.
  Context {K : Type} (N : Num K) {S P : Type}.
  Variable crop : S -> K -> K -> res S.        (* seg.cropped(a, b) *)
  Variable seq : S -> S -> bool.               (* == on segments *)
  Variables atol rtol : K.                     (* np.isclose tolerances *)
  Variable pt : S -> K -> P.                   (* seg.point(t) *)
  (* contract of the segment operation (C09_crop_ends / C09_line_cropped_ends /
     C09_arc_cropped_partial): the cropped piece starts at point(a), ends at point(b) *)
  Hypothesis crop_ends : forall s a b s', crop s a b = Ok s' ->
    pt s' (zero N) = pt s a /\ pt s' (one N) = pt s b.
  Local Notation sp := (fun s => pt s (zero N)).
  Local Notation ep := (fun s => pt s (one N)).
  Local Notation main := (path_cropped_main N crop seq atol rtol).

  (* the asserts and the `T0 == 1 on a closed path` redirect reduce cropped() to
     its main part with an effective start parameter *)
  Theorem C09_path_cropped_redirect : forall segs T0 T1 r0 r1 closed ps,
    path_cropped N crop seq atol rtol segs T0 T1 r0 r1 closed = Ok ps ->
    main segs (eff_T0 N T0 T1 closed) T1 (eff_r0 N T0 T1 closed r0) r1 closed = Ok ps.
  Proof. exact (cropped_main N crop seq atol rtol). Qed.

  (* starts at seg0(t0), ends at seg1(t1): (i0, t0, j0), (i1, t1, j1) are the start / end
     locations computed from the T2t answers — i = the index used for the ranges
     (= self.index(seg)), j = the position of the object seg whose cropped() is called *)
  Theorem C09_path_cropped_ends : forall segs T0 T1 r0 r1 closed ps i0 t0 j0 i1 t1 j1 s0 s1 d,
    main segs T0 T1 r0 r1 closed = Ok ps ->
    loc0 N seq atol rtol segs T0 r0 = Ok (i0, t0, j0) -> loc1 N seq atol rtol segs T1 r1 = Ok (i1, t1, j1) ->
    nth_error segs j0 = Some s0 -> nth_error segs j1 = Some s1 ->
    neqb N t1 (zero N) = true ->
    (ltb N T0 T1 = true -> i0 = i1 -> pt s0 t1 = pt s1 t1) ->   (* single piece: seg0, seg1 the same / equal *)
    ps <> [] /\ pt (hd d (piece_segs ps)) (zero N) = pt s0 t0 /\
    pt (last (piece_segs ps) d) (one N) = pt s1 t1.
  Proof. exact (cropped_ends N crop seq atol rtol pt crop_ends). Qed.
  (* ... and these are point(T0), point(T1) = the T2t segment at the T2t parameter,
     when an np.isclose hand-over, if any, is exact and crosses a joint *)
  Theorem C09_path_cropped_start_is_point_T0 : forall segs T0 k t i0 t0 j0 sk s0,
    loc0 N seq atol rtol segs T0 (Ok (k, t)) = Ok (i0, t0, j0) -> eqb N T0 (zero N) = false ->
    nth_error segs (Z.to_nat k) = Some sk -> nth_error segs j0 = Some s0 ->
    (isclose N atol rtol t (one N) = true -> t = one N /\ joined sp ep sk s0) ->
    pt s0 t0 = pt sk t.
  Proof. exact (loc0_point N seq atol rtol pt). Qed.
  Theorem C09_path_cropped_end_is_point_T1 : forall segs T1 k t i1 t1 j1 sk s1,
    loc1 N seq atol rtol segs T1 (Ok (k, t)) = Ok (i1, t1, j1) -> eqb N T1 (one N) = false ->
    nth_error segs (Z.to_nat k) = Some sk -> nth_error segs j1 = Some s1 ->
    (isclose N atol rtol t (zero N) = true -> t = zero N /\ joined sp ep s1 sk) ->
    pt s1 t1 = pt sk t.
  Proof. exact (loc1_point N seq atol rtol pt). Qed.
  (* index() is the identity (j = i) when no EARLIER segment compares equal to the T2t segment *)
  Theorem C09_path_cropped_index_identity : forall segs T0 T1 k t i t' j,
    (loc0 N seq atol rtol segs T0 (Ok (k, t)) = Ok (i, t', j) \/
     loc1 N seq atol rtol segs T1 (Ok (k, t)) = Ok (i, t', j)) ->
    py_index seq segs (Z.to_nat k) = Some (Z.to_nat k) -> j = i.
  Proof.
    intros segs T0 T1 k t i t' j [H|H] Hi.
    - exact (loc0_same_object N seq atol rtol segs T0 k t i t' j H Hi).
    - exact (loc1_same_object N seq atol rtol segs T1 k t i t' j H Hi).
  Qed.

  (* consecutive pieces are joined when the input path is continuous — incl. the
     wrap-around case, where closedness gives the joint between last and first.
     Hypotheses on the locations: the cropped objects are the ones at the indices
     (no earlier equal segment, C09_path_cropped_index_identity) and in the forward
     case the start segment precedes the end segment (violated by the hand-over
     anomalies refuted below) *)
  Theorem C09_path_cropped_joined : forall segs T0 T1 r0 r1 closed ps i0 t0 i1 t1 d,
    chained sp ep segs ->
    (closed = Ok true -> joined sp ep (last segs d) (hd d segs)) ->
    main segs T0 T1 r0 r1 closed = Ok ps ->
    loc0 N seq atol rtol segs T0 r0 = Ok (i0, t0, i0) -> loc1 N seq atol rtol segs T1 r1 = Ok (i1, t1, i1) ->
    (ltb N T1 T0 = false -> (i0 < i1)%nat \/ (ltb N T0 T1 = true /\ i0 = i1)) ->
    chained sp ep (piece_segs ps).
  Proof. exact (cropped_joined N crop seq atol rtol pt crop_ends). Qed.

  (* every piece other than the first and the last is an un-cropped original *)
  Theorem C09_path_cropped_middle_originals : forall segs T0 T1 r0 r1 closed ps,
    main segs T0 T1 r0 r1 closed = Ok ps ->
    forall j p, nth_error ps j = Some p -> (0 < j)%nat -> (Datatypes.S j < length ps)%nat ->
    p_orig p = true /\ nth_error segs (p_idx p) = Some (p_seg p).
  Proof. exact (cropped_middle_originals N crop seq atol rtol). Qed.

  (* ---------- every variant of the code (ix, hw, tz = the three repairs; all false =
     the pinned code): the result is the assembly of the crop plan = effective (T0, T1)
     and the two locations; the theorems on the pieces hold for the assembly of ANY plan *)
  Theorem C09_path_cropped_v_plan : forall ix hw tz segs T0 T1 r0 r1 closed ps,
    path_cropped_v N crop seq atol rtol ix hw tz segs T0 T1 r0 r1 closed = Ok ps <->
    exists T0' T1' l0 l1, crop_plan N seq atol rtol ix hw tz segs T0 T1 r0 r1 closed = Ok (T0', T1', l0, l1)
                          /\ assemble N crop segs T0' T1' closed l0 l1 = Ok ps.
  Proof. exact (cropped_v_plan N crop seq atol rtol). Qed.
  Theorem C09_assemble_ends : forall segs T0 T1 closed ps i0 t0 j0 i1 t1 j1 s0 s1 d,
    assemble N crop segs T0 T1 closed (i0, t0, j0) (i1, t1, j1) = Ok ps ->
    nth_error segs j0 = Some s0 -> nth_error segs j1 = Some s1 ->
    neqb N t1 (zero N) = true ->
    (ltb N T0 T1 = true -> i0 = i1 -> pt s0 t1 = pt s1 t1) ->
    ps <> [] /\ pt (hd d (piece_segs ps)) (zero N) = pt s0 t0 /\
    pt (last (piece_segs ps) d) (one N) = pt s1 t1.
  Proof. exact (cropped_ends_asm N crop pt crop_ends). Qed.
  Theorem C09_assemble_joined : forall segs T0 T1 closed ps i0 t0 i1 t1 d,
    chained sp ep segs ->
    (closed = Ok true -> joined sp ep (last segs d) (hd d segs)) ->
    assemble N crop segs T0 T1 closed (i0, t0, i0) (i1, t1, i1) = Ok ps ->
    (ltb N T1 T0 = false -> (i0 < i1)%nat \/ (ltb N T0 T1 = true /\ i0 = i1)) ->
    chained sp ep (piece_segs ps).
  Proof. exact (cropped_joined_asm N crop pt crop_ends). Qed.
  Theorem C09_assemble_middle_originals : forall segs T0 T1 closed i0 t0 j0 i1 t1 j1 ps,
    assemble N crop segs T0 T1 closed (i0, t0, j0) (i1, t1, j1) = Ok ps ->
    forall j p, nth_error ps j = Some p -> (0 < j)%nat -> (Datatypes.S j < length ps)%nat ->
    p_orig p = true /\ nth_error segs (p_idx p) = Some (p_seg p).
  Proof. exact (cropped_middle_originals_asm N crop). Qed.

  (* ---------- the repaired variants ---------- *)
  (* ix (indices from T2t): the object cropped is the one at the index used for the ranges,
     whatever segments compare equal *)
  Theorem C09_repaired_index_identity : forall hw segs T0 T1 r0 r1 closed T0' T1' i0 t0 j0 i1 t1 j1,
    plan_main N seq atol rtol true hw segs T0 T1 r0 r1 closed = Ok (T0', T1', (i0, t0, j0), (i1, t1, j1)) ->
    j0 = i0 /\ j1 = i1.
  Proof. intros. exact (plan_index_identity N seq atol rtol hw segs T0 T1 r0 r1 closed T0' T1' _ _ H). Qed.
  (* hw (no hand-over around an end / past the other end): in the forward case the start
     location is never beyond the end location, given T2t monotone (C05) *)
  Theorem C09_repaired_forward_order : forall ix segs T0 T1 r0 r1 closed T0' T1' l0 l1,
    t2t_mono N T0 T1 r0 r1 ->
    plan_main N seq atol rtol ix true segs T0 T1 r0 r1 closed = Ok (T0', T1', l0, l1) ->
    ltb N T0' T1' = true -> (fst (fst l0) <= fst (fst l1))%nat.
  Proof. exact (plan_forward_order N seq atol rtol). Qed.
  (* tz: on a closed path cropped(T0, 0) is cropped(T0, 1) *)
  Theorem C09_repaired_T1_zero : forall ix hw segs T0 r0 r1,
    in01 N T0 = true -> in01 N (zero N) = true -> eqb N T0 (zero N) = false -> eqb N T0 (one N) = false ->
    eqb N (zero N) (zero N) = true -> ltb N (zero N) T0 = true -> ltb N T0 (one N) = true ->
    crop_plan N seq atol rtol ix hw true segs T0 (zero N) r0 r1 (Ok true)
    = plan_main N seq atol rtol ix hw segs T0 (one N) r0 (Ok ((Z.of_nat (length segs) - 1)%Z, one N)) (Ok true).
  Proof. exact (plan_T1_zero N seq atol rtol). Qed.
  (* every plan is a plan of the main part (so the two theorems above apply to cropped()) *)
  Theorem C09_crop_plan_is_main_plan : forall ix hw tz segs T0 T1 r0 r1 closed p,
    crop_plan N seq atol rtol ix hw tz segs T0 T1 r0 r1 closed = Ok p ->
    exists T0a T1a r0a r1a, plan_main N seq atol rtol ix hw segs T0a T1a r0a r1a closed = Ok p.
  Proof. exact (crop_plan_main N seq atol rtol). Qed.
  (* ix + hw: consecutive pieces are joined for EVERY crop of a continuous path, duplicates
     and parameters next to joints included (no hypothesis on the locations left) *)
  Theorem C09_path_cropped_joined_repaired : forall tz segs T0 T1 r0 r1 closed ps d,
    chained sp ep segs ->
    (closed = Ok true -> joined sp ep (last segs d) (hd d segs)) ->
    (forall T0a T1a r0a r1a, t2t_mono N T0a T1a r0a r1a) ->
    (forall a b : K, ltb N b a = false -> eqb N a b = false -> ltb N a b = true) ->
    (forall p, crop_plan N seq atol rtol true true tz segs T0 T1 r0 r1 closed = Ok p ->
               eqb N (fst (fst (fst p))) (snd (fst (fst p))) = false) ->
    path_cropped_v N crop seq atol rtol true true tz segs T0 T1 r0 r1 closed = Ok ps ->
    chained sp ep (piece_segs ps).
  Proof. exact (cropped_joined_repaired N crop seq atol rtol pt crop_ends). Qed.

  (* length: sum of the piece lengths = what Path.length(T0,T1) computes from the
     same locations; wrap-around: length(T0,1) + length(0,T1) *)
  Context {L : Type}.
  Variables (ladd : L -> L -> L) (lzero : L).
  Hypothesis ladd_comm : forall a b, ladd a b = ladd b a.
  Hypothesis ladd_assoc : forall a b c, ladd a (ladd b c) = ladd (ladd a b) c.
  Hypothesis ladd_0 : forall a, ladd lzero a = a.
  Variable len : S -> L.
  Variable plen : S -> K -> K -> L.
  Hypothesis crop_len : forall s a b s', crop s a b = Ok s' -> len s' = plen s a b.
  Hypothesis plen_full : forall s, plen s (zero N) (one N) = len s.
  Theorem C09_path_cropped_length : forall segs T0 T1 r0 r1 closed ps i0 t0 i1 t1 s0 s1,
    main segs T0 T1 r0 r1 closed = Ok ps ->
    loc0 N seq atol rtol segs T0 r0 = Ok (i0, t0, i0) -> loc1 N seq atol rtol segs T1 r1 = Ok (i1, t1, i1) ->
    nth_error segs i0 = Some s0 -> nth_error segs i1 = Some s1 ->
    neqb N t1 (zero N) = true -> ltb N T1 T0 = false ->
    ((i0 < i1)%nat \/ (ltb N T0 T1 = true /\ i0 = i1)) ->
    lsum ladd lzero (map len (piece_segs ps))
    = path_length_loc N ladd lzero len plen segs i0 t0 i1 t1 s0 s1.
  Proof. exact (cropped_length_forward N crop seq atol rtol ladd lzero ladd_comm ladd_assoc ladd_0
                                       len plen crop_len). Qed.
  Theorem C09_path_cropped_length_wrap : forall segs T0 T1 r0 r1 closed ps i0 t0 i1 t1 s0 s1 sf sl,
    main segs T0 T1 r0 r1 closed = Ok ps ->
    loc0 N seq atol rtol segs T0 r0 = Ok (i0, t0, i0) -> loc1 N seq atol rtol segs T1 r1 = Ok (i1, t1, i1) ->
    nth_error segs i0 = Some s0 -> nth_error segs i1 = Some s1 ->
    nth_error segs 0 = Some sf -> nth_error segs (length segs - 1) = Some sl ->
    neqb N t1 (zero N) = true -> ltb N T1 T0 = true -> ltb N T0 T1 && (i0 =? i1)%nat = false ->
    lsum ladd lzero (map len (piece_segs ps))
    = ladd (path_length_loc N ladd lzero len plen segs i0 t0 (length segs - 1) (one N) s0 sl)
           (path_length_loc N ladd lzero len plen segs 0 (zero N) i1 t1 sf s1).
  Proof. exact (cropped_length_wrap N crop seq atol rtol ladd lzero ladd_comm ladd_assoc ladd_0
                                    len plen crop_len plen_full). Qed.
End C09_path_cropped.

(* ================================================================== *)
(* the model executed on exact rationals: non-vacuity and refutations   *)
(* ================================================================== *)
(* the crop contract holds for Lines over Q *)
Example C09_contract_nonvacuous : forall s a b s', lq_crop s a b = Ok s' ->
  lq_pt s' (zero NumQ) = lq_pt s a /\ lq_pt s' (one NumQ) = lq_pt s b.
Proof. exact lq_crop_ends. Qed.
(* unit square cropped(1/8, 7/8): half of segment 0, segments 1 and 2 as they are,
   half of segment 3; total length 3 *)
Example C09_path_cropped_forward_example :
  res_map shape_of (lq_cropped square (qc 1 8) (qc 7 8) (Ok (0%Z, qc 1 2)) (Ok (3%Z, qc 1 2)) (Ok true))
  = Ok [(false, 0%nat, 1 # 2, 1 # 1); (true, 1%nat, 0 # 1, 1 # 1); (true, 2%nat, 0 # 1, 1 # 1);
        (false, 3%nat, 0 # 1, 1 # 2)]
  /\ res_map total_len (lq_cropped square (qc 1 8) (qc 7 8) (Ok (0%Z, qc 1 2)) (Ok (3%Z, qc 1 2)) (Ok true))
     = Ok (3 # 1).
Proof. exact crop_square_forward. Qed.
(* wrap-around crop of the closed square *)
Example C09_path_cropped_wrap_example :
  res_map shape_of (lq_cropped square (qc 7 8) (qc 1 8) (Ok (3%Z, qc 1 2)) (Ok (0%Z, qc 1 2)) (Ok true))
  = Ok [(false, 3%nat, 1 # 2, 1 # 1); (false, 0%nat, 0 # 1, 1 # 2)]
  /\ res_map total_len (lq_cropped square (qc 7 8) (qc 1 8) (Ok (3%Z, qc 1 2)) (Ok (0%Z, qc 1 2)) (Ok true))
     = Ok (1 # 1).
Proof. exact crop_square_wrap. Qed.
Example C09_path_cropped_open_wrap_raises :
  lq_cropped stairs (qc 5 6) (qc 1 6) (Ok (2%Z, qc 1 2)) (Ok (0%Z, qc 1 2)) (Ok false) = Err EValue.
Proof. exact crop_stairs_wrap_raises. Qed.
Example C09_path_cropped_redirect_example :
  res_map shape_of (lq_cropped square (qc 1 1) (qc 1 8) (Ok (3%Z, qc 1 1)) (Ok (0%Z, qc 1 2)) (Ok true))
  = Ok [(false, 0%nat, 0 # 1, 1 # 2)].
Proof. exact crop_square_redirect. Qed.

(* REFUTED (1): index() finds the FIRST EQUAL segment.  On the closed path
   0->1->1+i->i->0->1->0 (Line(0,1) occurs twice) cropped(2/15, 43/60) should run
   from segment 0 (t=4/5) to segment 4 (t=3/10), length 7/2; the code returns the
   single backwards piece Line(4/5, 3/10) of length 1/2 *)
Example C09_path_cropped_index_duplicate_segment_refuted :
  res_map shape_of (lq_cropped twice (qc 2 15) (qc 43 60) (Ok (0%Z, qc 4 5)) (Ok (4%Z, qc 3 10)) (Ok true))
  = Ok [(false, 0%nat, 4 # 5, 3 # 10)]
  /\ res_map total_len (lq_cropped twice (qc 2 15) (qc 43 60) (Ok (0%Z, qc 4 5)) (Ok (4%Z, qc 3 10)) (Ok true))
     = Ok (1 # 2)
  /\ ~ (1 # 2 == 7 # 2)%Q.
Proof. exact crop_duplicate_segment. Qed.
(* REFUTED (2): np.isclose(t_seg0, 1) hands over to segment (i+1) % len even on an
   OPEN path: cropped(1 - 2^-22, 1) of a 3-segment open path is the WHOLE path and
   starts at point(0), not at point(T0) *)
Example C09_path_cropped_handover_wraps_refuted :
  res_map shape_of (lq_cropped stairs T_near1 (qc 1 1) (Ok (2%Z, t_near1)) (Ok (2%Z, qc 1 1)) (Ok false))
  = Ok [(false, 0%nat, 0 # 1, 1 # 1); (true, 1%nat, 0 # 1, 1 # 1); (false, 2%nat, 0 # 1, 1 # 1)]
  /\ res_map (fun ps => cq2 (lq_pt (hd (lq 0 0 0 0) (piece_segs ps)) (Q2Qc 0)))
       (lq_cropped stairs T_near1 (qc 1 1) (Ok (2%Z, t_near1)) (Ok (2%Z, qc 1 1)) (Ok false))
     = Ok (0 # 1, 0 # 1)
  /\ cq2 (lq_pt (lq 1 1 2 1) t_near1) = (8388605 # 4194304, 1 # 1).
Proof. exact crop_handover_wraps. Qed.
(* REFUTED (3): both hand-overs at one joint: cropped(1/3 - 2^-40, 1/3 + 2^-40) is
   [segment 1 whole; segment 0 whole] — wrong order, not joined *)
Example C09_path_cropped_across_joint_refuted :
  let r := lq_cropped stairs (qc 1 3 - eps40)%Qc (qc 1 3 + eps40)%Qc
                      (Ok (0%Z, (Q2Qc 1 - Q2Qc 3 * eps40)%Qc)) (Ok (1%Z, (Q2Qc 3 * eps40)%Qc)) (Ok false) in
  res_map shape_of r = Ok [(false, 1%nat, 0 # 1, 1 # 1); (false, 0%nat, 0 # 1, 1 # 1)]
  /\ res_map (fun ps => match piece_segs ps with
                        | [a; b] => ceqb NumQ (lq_pt a (Q2Qc 1)) (lq_pt b (Q2Qc 0))
                        | _ => true end) r = Ok false.
Proof. exact crop_across_joint. Qed.
(* REFUTED (5): T1 == 0 on a closed path: cropped(7/8, 0) of the unit square is the last
   half of segment 3 FOLLOWED BY ONE MORE FULL ROUND (length 9/2 instead of 1/2) *)
Example C09_path_cropped_to_zero_extra_loop_refuted :
  res_map shape_of (lq_cropped square (qc 7 8) (qc 0 1) (Ok (3%Z, qc 1 2)) (Ok (0%Z, qc 0 1)) (Ok true))
  = Ok [(false, 3%nat, 1 # 2, 1 # 1); (true, 0%nat, 0 # 1, 1 # 1); (true, 1%nat, 0 # 1, 1 # 1);
        (true, 2%nat, 0 # 1, 1 # 1); (false, 3%nat, 0 # 1, 1 # 1)]
  /\ res_map total_len (lq_cropped square (qc 7 8) (qc 0 1) (Ok (3%Z, qc 1 2)) (Ok (0%Z, qc 0 1)) (Ok true))
     = Ok (9 # 2).
Proof. exact crop_to_zero_extra_loop. Qed.
(* REFUTED (4): np.isclose(t_seg1, 0): cropped(0, 2^-40) is the whole path *)
Example C09_path_cropped_tiny_prefix_refuted :
  res_map shape_of (lq_cropped stairs (qc 0 1) eps40 (Ok (0%Z, qc 0 1)) (Ok (0%Z, (Q2Qc 3 * eps40)%Qc)) (Ok false))
  = Ok [(false, 0%nat, 0 # 1, 1 # 1); (true, 1%nat, 0 # 1, 1 # 1); (false, 2%nat, 0 # 1, 1 # 1)].
Proof. exact crop_tiny_prefix_is_whole_path. Qed.

(* the repaired variants on the refuted inputs *)
Example C09_repaired_duplicate_segment_example :
  res_map shape_of (lq_cropped_v true false false twice (qc 2 15) (qc 43 60) (Ok (0%Z, qc 4 5)) (Ok (4%Z, qc 3 10)) (Ok true))
  = Ok [(false, 0%nat, 4 # 5, 1 # 1); (true, 1%nat, 0 # 1, 1 # 1); (true, 2%nat, 0 # 1, 1 # 1);
        (true, 3%nat, 0 # 1, 1 # 1); (false, 4%nat, 0 # 1, 3 # 10)]
  /\ res_map total_len (lq_cropped_v true false false twice (qc 2 15) (qc 43 60) (Ok (0%Z, qc 4 5)) (Ok (4%Z, qc 3 10)) (Ok true))
     = Ok (7 # 2).
Proof. exact fixed_duplicate_segment. Qed.
Example C09_repaired_handover_wraps_example :
  res_map shape_of (lq_cropped_v false true false stairs T_near1 (qc 1 1) (Ok (2%Z, t_near1)) (Ok (2%Z, qc 1 1)) (Ok false))
  = Ok [(false, 2%nat, 4194301 # 4194304, 1 # 1)]
  /\ res_map total_len (lq_cropped_v false true false stairs T_near1 (qc 1 1) (Ok (2%Z, t_near1)) (Ok (2%Z, qc 1 1)) (Ok false))
     = Ok (3 # 4194304).
Proof. exact fixed_handover_wraps. Qed.
Example C09_repaired_across_joint_example :
  let r := lq_cropped_v false true false stairs (qc 1 3 - eps40)%Qc (qc 1 3 + eps40)%Qc
                        (Ok (0%Z, (Q2Qc 1 - Q2Qc 3 * eps40)%Qc)) (Ok (1%Z, (Q2Qc 3 * eps40)%Qc)) (Ok false) in
  res_map shape_of r = Ok [(false, 0%nat, 1099511627773 # 1099511627776, 1 # 1);
                           (false, 1%nat, 0 # 1, 3 # 1099511627776)]
  /\ res_map (fun ps => match piece_segs ps with
                        | [a; b] => ceqb NumQ (lq_pt a (Q2Qc 1)) (lq_pt b (Q2Qc 0))
                        | _ => false end) r = Ok true.
Proof. exact fixed_across_joint. Qed.
Example C09_repaired_tiny_prefix_example :
  res_map shape_of (lq_cropped_v false true false stairs (qc 0 1) eps40 (Ok (0%Z, qc 0 1)) (Ok (0%Z, (Q2Qc 3 * eps40)%Qc)) (Ok false))
  = Ok [(false, 0%nat, 0 # 1, 3 # 1099511627776)].
Proof. exact fixed_tiny_prefix. Qed.
Example C09_repaired_to_zero_example :
  res_map shape_of (lq_cropped_v false false true square (qc 7 8) (qc 0 1) (Ok (3%Z, qc 1 2)) (Ok (0%Z, qc 0 1)) (Ok true))
  = Ok [(false, 3%nat, 1 # 2, 1 # 1)]
  /\ res_map total_len (lq_cropped_v false false true square (qc 7 8) (qc 0 1) (Ok (3%Z, qc 1 2)) (Ok (0%Z, qc 0 1)) (Ok true))
     = Ok (1 # 2)
  /\ res_map shape_of (lq_cropped_v false true false square (qc 7 8) (qc 0 1) (Ok (3%Z, qc 1 2)) (Ok (0%Z, qc 0 1)) (Ok true))
     = Ok [(false, 3%nat, 1 # 2, 1 # 1)].
Proof. exact fixed_to_zero. Qed.
Example C09_repaired_ordinary_unchanged_example :
  lq_cropped_v true true true square (qc 1 8) (qc 7 8) (Ok (0%Z, qc 1 2)) (Ok (3%Z, qc 1 2)) (Ok true)
  = lq_cropped square (qc 1 8) (qc 7 8) (Ok (0%Z, qc 1 2)) (Ok (3%Z, qc 1 2)) (Ok true)
  /\ lq_cropped_v true true true square (qc 7 8) (qc 1 8) (Ok (3%Z, qc 1 2)) (Ok (0%Z, qc 1 2)) (Ok true)
     = lq_cropped square (qc 7 8) (qc 1 8) (Ok (3%Z, qc 1 2)) (Ok (0%Z, qc 1 2)) (Ok true).
Proof. exact fixed_ordinary_unchanged. Qed.

Print Assumptions C09_reversed_bezier.
Print Assumptions C09_reversed_bpoints.
Print Assumptions C09_reversed_line.
Print Assumptions C09_reversed_quad.
Print Assumptions C09_reversed_cubic.
Print Assumptions C09_split.
Print Assumptions C09_crop.
Print Assumptions C09_crop_ends.
Print Assumptions C09_crop_any_oracle_answer.
Print Assumptions C09_line_cropped.
Print Assumptions C09_line_cropped_ends.
Print Assumptions C09_line_split.
Print Assumptions C09_arc_reparam_partial.
Print Assumptions C09_arc_cropped_partial.
Print Assumptions C09_arc_reversed_partial.
Print Assumptions C09_arc_reversed_constructed_partial.
Print Assumptions C09_arc_split_partial.
Print Assumptions C09_arc_constructed_wf.
Print Assumptions C09_arc_crop_snap_criterion.
Print Assumptions C09_arc_cropped_nonvacuous.
Print Assumptions C09_path_reversed.
Print Assumptions C09_path_reversed_length.
Print Assumptions C09_path_cropped_redirect.
Print Assumptions C09_path_cropped_ends.
Print Assumptions C09_path_cropped_start_is_point_T0.
Print Assumptions C09_path_cropped_end_is_point_T1.
Print Assumptions C09_path_cropped_index_identity.
Print Assumptions C09_path_cropped_joined.
Print Assumptions C09_path_cropped_middle_originals.
Print Assumptions C09_path_cropped_length.
Print Assumptions C09_path_cropped_length_wrap.
Print Assumptions C09_path_cropped_index_duplicate_segment_refuted.
Print Assumptions C09_path_cropped_handover_wraps_refuted.
Print Assumptions C09_path_cropped_across_joint_refuted.
Print Assumptions C09_path_cropped_tiny_prefix_refuted.
Print Assumptions C09_path_cropped_to_zero_extra_loop_refuted.
Print Assumptions C09_path_reversed_lengths.
Print Assumptions C09_path_cropped_v_plan.
Print Assumptions C09_assemble_ends.
Print Assumptions C09_assemble_joined.
Print Assumptions C09_assemble_middle_originals.
Print Assumptions C09_repaired_index_identity.
Print Assumptions C09_repaired_forward_order.
Print Assumptions C09_repaired_T1_zero.
Print Assumptions C09_crop_plan_is_main_plan.
Print Assumptions C09_path_cropped_joined_repaired.
Print Assumptions C09_repaired_duplicate_segment_example.
Print Assumptions C09_repaired_handover_wraps_example.
Print Assumptions C09_repaired_across_joint_example.
Print Assumptions C09_repaired_tiny_prefix_example.
Print Assumptions C09_repaired_to_zero_example.
Print Assumptions C09_crop_analytic.
Print Assumptions C09_crop_analytic_ends.
Print Assumptions C09_crop_pinned_is_oracle_version.
Print Assumptions C09_crop_analytic_R.
