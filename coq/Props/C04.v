(* Props/C04.v — property C04: Arc realises the SVG endpoint parameterisation
   (implementation notes F.6.5) for all admissible parameters.
   Model: Model/Arc.v (arc_init = __init__ + _parameterize, arc_point,
   arc_deriv, arc_as_cubic_curves, arc_as_quad_curves).  Only statements,
   `exact`, Print Assumptions and non-vacuity examples live here.

   The model carries two variant flags; the harness detects which variant the
   implementation under test runs and executes the model with those flags:
     fx  (arc_init)  : false = pinned code, radical = 0 if np.isclose(radicand, 0)
                       true  = repaired,    radical = 0 if (scaled or radicand <= 0)
     dfx (arc_deriv) : false = pinned code, the n % 4 == 0 branch lacks the factor k
                       true  = repaired,    every branch multiplies by k

   Naming: no suffix = the property's statement at full strength
           _partial  = proved under the stated extra hypothesis
           _refuted  = the faithful model of the PINNED code violates the
                       property's statement (witness given). *)
From Coq Require Import ZArith List Bool Reals Lra.
Set Warnings "-ambiguous-paths".
From Coquelicot Require Import Coquelicot.
From SVP Require Import Base.Num Base.Cplx Model.Arc
     Proofs.ArcR Proofs.ArcDeriv Proofs.ArcApprox.
Import ListNotations.
Local Open Scope R_scope.

Section C04.
  (* every admissible constructor call: start != end, rx != 0, ry != 0, any
     rotation (degrees), any flags; either variant of the radical rule *)
  Variables start radius end_ : Cplx R.
  Variable rotation : R.
  Variables large sweep : bool.
  Variable fx : bool.
  Hypothesis Hse : start <> end_.
  Hypothesis Hrx : fst radius <> 0.
  Hypothesis Hry : snd radius <> 0.

  Let P := arc_init_v NumR NumTR fx start radius rotation large sweep end_.
  Let u1 := arc_u1_of NumR NumTR fx start radius rotation large sweep end_.
  Let u2 := arc_u2_of NumR NumTR fx start radius rotation large sweep end_.
  Let rc := arc_rc_of NumR NumTR start radius rotation end_.       (* radius_check *)
  Let radicand := arc_radicand_of NumR NumTR start radius rotation end_.
  (* "the rule that sets the radical to 0 does not change the value":
     fx = false: isclose0 radicand = true -> radicand = 0 (radicand = 0 or > 1e-8)
     fx = true : True *)
  Let snap_ok := snap_inactive start radius end_ rotation fx.
  (* the radical is 0 iff radicand <= thr: 1e-8 for the pinned code, 0 for the repaired *)
  Let thr := snap_thr_of fx.

  (* u1, u2 (after np.clip, which provably never acts over R) are unit vectors *)
  Theorem C04_unit_partial : snap_ok ->
    fst u1 * fst u1 + snd u1 * snd u1 = 1 /\ fst u2 * fst u2 + snd u2 * snd u2 = 1.
  Proof. exact (arc_unit start radius end_ rotation large sweep fx Hse Hrx Hry). Qed.

  Theorem C04_point0_partial : snap_ok -> arc_point NumR NumTR P 0 = start.
  Proof. exact (arc_point0 start radius end_ rotation large sweep fx Hse Hrx Hry). Qed.
  Theorem C04_point1_partial : snap_ok -> arc_point NumR NumTR P 1 = end_.
  Proof. exact (arc_point1 start radius end_ rotation large sweep fx Hse Hrx Hry). Qed.
  (* ... and the hypothesis is necessary *)
  Theorem C04_point0_only_if_snap_inactive : arc_point NumR NumTR P 0 = start -> snap_ok.
  Proof. exact (arc_point0_only_if start radius end_ rotation large sweep fx Hse Hrx Hry). Qed.

  (* every point(t) lies on the ellipse with the STORED centre, radii, rotation
     (u1transform maps that ellipse to the unit circle) — unconditional *)
  Theorem C04_on_ellipse : forall t,
    cnorm2 NumR (arc_u1transform NumR P (arc_point NumR NumTR P t)) = 1.
  Proof. intros t. exact (on_ellipse_init fx start radius rotation large sweep end_ t Hse Hrx Hry). Qed.

  (* radii: enlarged by exactly sqrt(radius_check) when no ellipse fits, and
     then the ellipse just fits (radicand = 0); otherwise |rx|, |ry| unchanged *)
  Theorem C04_scale_minimal :
    (1 < rc -> a_radius P = (Rabs (fst radius) * sqrt rc, Rabs (snd radius) * sqrt rc)
               /\ radicand = 0) /\
    (rc <= 1 -> a_radius P = (Rabs (fst radius), Rabs (snd radius))).
  Proof.
    split.
    - exact (arc_scaled start radius end_ rotation large sweep fx Hse Hrx Hry).
    - exact (arc_unscaled start radius end_ rotation large sweep fx).
  Qed.
  (* no smaller common factor admits an ellipse through both end points *)
  Theorem C04_scale_necessary : forall (Q : ArcP R) lam,
    a_rot Q = arc_rotm_of NumTR rotation -> 0 < lam ->
    a_radius Q = (lam * Rabs (fst radius), lam * Rabs (snd radius)) ->
    cnorm2 NumR (arc_u1transform NumR Q start) = 1 ->
    cnorm2 NumR (arc_u1transform NumR Q end_) = 1 ->
    rc <= lam * lam.
  Proof. exact (scale_necessary start radius end_ rotation Hrx Hry). Qed.

  (* flags: unconditional, both variants *)
  Theorem C04_sweep_sign : a_delta P <> 0 /\ (0 < a_delta P <-> sweep = true).
  Proof. exact (arc_sweep_sign start radius end_ rotation large sweep fx Hse Hrx Hry). Qed.
  Theorem C04_large : Rabs (a_delta P) <> 180 -> (180 < Rabs (a_delta P) <-> large = true).
  Proof. exact (arc_large_flag start radius end_ rotation large sweep fx Hse Hrx Hry). Qed.
  (* |delta| = 180 exactly when radicand <= thr *)
  Theorem C04_large_strict : thr < radicand -> (180 < Rabs (a_delta P) <-> large = true).
  Proof. exact (arc_large_strict start radius end_ rotation large sweep fx Hse Hrx Hry). Qed.
  Theorem C04_half_when_radicand_small : radicand <= thr -> Rabs (a_delta P) = 180.
  Proof. exact (arc_half_when_snapped start radius end_ rotation large sweep fx Hse Hrx Hry). Qed.
  Theorem C04_delta_range : Rabs (a_delta P) <= 360.
  Proof. exact (arc_delta_range start radius end_ rotation large sweep fx Hse Hrx Hry). Qed.
  Theorem C04_angle_monotone : forall t1 t2, t1 < t2 ->
    if sweep then a_theta P + t1 * a_delta P < a_theta P + t2 * a_delta P
    else a_theta P + t2 * a_delta P < a_theta P + t1 * a_delta P.
  Proof. exact (arc_angle_monotone start radius end_ rotation large sweep fx Hse Hrx Hry). Qed.
  Theorem C04_delta_cases :
    let radical := arc_radical_of NumR NumTR fx start radius rotation end_ in
    (radical = 0 /\ a_delta P = if sweep then 180 else -180) \/
    (0 < radical /\
     ((large = true /\ sweep = true /\ 180 < a_delta P < 360) \/
      (large = false /\ sweep = false /\ -180 < a_delta P < 0) \/
      (large = false /\ sweep = true /\ 0 < a_delta P < 180) \/
      (large = true /\ sweep = false /\ -360 < a_delta P < -180))).
  Proof. exact (arc_delta_cases start radius end_ rotation large sweep fx Hse Hrx Hry). Qed.

  (* derivative(t, n) is the n-th t-derivative of point(t), every n >= 1:
     FULL for the repaired derivative (dfx = true) *)
  Theorem C04_deriv : forall t n, (1 <= n)%Z ->
    exists d, arc_deriv NumR NumTR true P t n = Some d /\
      is_derive_n (fun u => fst (arc_point NumR NumTR P u)) (Z.to_nat n) t (fst d) /\
      is_derive_n (fun u => snd (arc_point NumR NumTR P u)) (Z.to_nat n) t (snd d).
  Proof. exact (arc_deriv_full P (arc_init_rot _ _ _ _ _ _ _)). Qed.
  (* pinned derivative (dfx = false): true for n mod 4 <> 0 ... *)
  Theorem C04_deriv_partial : forall t n, (1 <= n)%Z -> (n mod 4 <> 0)%Z ->
    exists d, arc_deriv NumR NumTR false P t n = Some d /\
      is_derive_n (fun u => fst (arc_point NumR NumTR P u)) (Z.to_nat n) t (fst d) /\
      is_derive_n (fun u => snd (arc_point NumR NumTR P u)) (Z.to_nat n) t (snd d).
  Proof. exact (arc_deriv_correct P (arc_init_rot _ _ _ _ _ _ _) false). Qed.
  (* ... for n mod 4 = 0 it omits the chain-rule factor (delta*pi/180)^n *)
  Theorem C04_deriv_mod4_is_0 : forall t n, (1 <= n)%Z -> (n mod 4 = 0)%Z ->
    exists d, arc_deriv NumR NumTR false P t n = Some d /\
      is_derive_n (fun u => fst (arc_point NumR NumTR P u)) (Z.to_nat n) t
                  ((a_delta P * PI / 180) ^ Z.to_nat n * fst d) /\
      is_derive_n (fun u => snd (arc_point NumR NumTR P u)) (Z.to_nat n) t
                  ((a_delta P * PI / 180) ^ Z.to_nat n * snd d).
  Proof. exact (arc_deriv_mod4_0 P (arc_init_rot _ _ _ _ _ _ _)). Qed.
End C04.

(* ---- repaired radical rule (fx = true): FULL strength, no side hypothesis ---- *)
Section C04_repaired.
  Variables start radius end_ : Cplx R.
  Variable rotation : R.
  Variables large sweep : bool.
  Hypothesis Hse : start <> end_.
  Hypothesis Hrx : fst radius <> 0.
  Hypothesis Hry : snd radius <> 0.
  Let P := arc_init_v NumR NumTR true start radius rotation large sweep end_.
  Let u1 := arc_u1_of NumR NumTR true start radius rotation large sweep end_.
  Let u2 := arc_u2_of NumR NumTR true start radius rotation large sweep end_.

  Theorem C04_unit :
    fst u1 * fst u1 + snd u1 * snd u1 = 1 /\ fst u2 * fst u2 + snd u2 * snd u2 = 1.
  Proof. exact (arc_unit start radius end_ rotation large sweep true Hse Hrx Hry I). Qed.
  Theorem C04_point0 : arc_point NumR NumTR P 0 = start.
  Proof. exact (arc_point0 start radius end_ rotation large sweep true Hse Hrx Hry I). Qed.
  Theorem C04_point1 : arc_point NumR NumTR P 1 = end_.
  Proof. exact (arc_point1 start radius end_ rotation large sweep true Hse Hrx Hry I). Qed.
End C04_repaired.

(* ---- pinned radical rule (fx = false): the snapped region ---- *)
Section C04_pinned.
  Variables start radius end_ : Cplx R.
  Variable rotation : R.
  Variables large sweep : bool.
  Hypothesis Hse : start <> end_.
  Hypothesis Hrx : fst radius <> 0.
  Hypothesis Hry : snd radius <> 0.
  Let P := arc_init_v NumR NumTR false start radius rotation large sweep end_.
  Let radicand := arc_radicand_of NumR NumTR start radius rotation end_.
  (* for 0 < radicand <= 1e-8 the arc neither starts at start nor ends at end *)
  Theorem C04_point0_snapped_refuted :
    0 < radicand <= atol8 NumR -> arc_point NumR NumTR P 0 <> start.
  Proof. exact (arc_point0_snapped start radius end_ rotation large sweep false Hse Hrx Hry eq_refl). Qed.
  Theorem C04_point1_snapped_refuted :
    0 < radicand <= atol8 NumR -> arc_point NumR NumTR P 1 <> end_.
  Proof. exact (arc_point1_snapped start radius end_ rotation large sweep false Hse Hrx Hry eq_refl). Qed.
End C04_pinned.

(* pinned derivative(t, 4) is NOT the 4th derivative: witness the unit half circle
   W = Arc(start=1, radius=1+1j, rotation=0, large_arc=0, sweep=1, end=-1) *)
Theorem C04_deriv4_refuted :
  exists t d, arc_deriv NumR NumTR false W t 4 = Some d /\
    ~ is_derive_n (fun u => fst (arc_point NumR NumTR W u)) 4 t (fst d).
Proof. exact arc_deriv4_refuted. Qed.

(* pinned radical rule: point(0) = start and point(1) = end fail on a concrete admissible
   arc inside the snapped region: Arc(start=0, radius=(1+2^-30)+1j, rotation=0, any flags, end=2) *)
Theorem C04_point0_refuted : forall large sweep,
  arc_point NumR NumTR (arc_init_v NumR NumTR false Sstart Srad 0 large sweep Send) 0 <> Sstart.
Proof. exact S_point0_ne. Qed.
Theorem C04_point1_refuted : forall large sweep,
  arc_point NumR NumTR (arc_init_v NumR NumTR false Sstart Srad 0 large sweep Send) 1 <> Send.
Proof. exact S_point1_ne. Qed.

(* the cubic / quadratic approximations: curves >= 1 pieces, chained from
   self.start to self.end.  Holds for ANY carrier (no algebraic law used),
   hence for binary64 verbatim. *)
Section C04_approx.
  Context {K : Type} (N : Num K) (T : NumT K).
  Theorem C04_approx_ends_cubic : forall (P : ArcP K) curves d, (1 <= curves)%nat ->
    let l := arc_as_cubic_curves N T P curves in
    length l = curves /\ cchained (a_start P) l /\ cubic_end (last l d) = a_end P.
  Proof. intros P curves d. exact (cubic_approx_ends N T P curves d). Qed.
  Theorem C04_approx_ends_quad : forall (P : ArcP K) curves d, (1 <= curves)%nat ->
    let l := arc_as_quad_curves N T P curves in
    length l = curves /\ qchained (a_start P) l /\ quad_end (last l d) = a_end P.
  Proof. intros P curves d. exact (quad_approx_ends N T P curves d). Qed.
  (* chain = first piece starts at s, piece i ends where piece i+1 starts *)
  Theorem C04_chain_index_form : forall l (s : Cplx K) d, cchained s l ->
    (forall c r, l = c :: r -> cubic_start c = s) /\
    (forall i, (S i < length l)%nat -> cubic_end (nth i l d) = cubic_start (nth (S i) l d)).
  Proof. exact (@cchained_nth K). Qed.
End C04_approx.

(* non-vacuity: the hypotheses are satisfiable, both regimes occur *)
Example C04_nonvacuous_admissible : Wstart <> Wend /\ fst Wrad <> 0 /\ snd Wrad <> 0.
Proof. exact W_adm. Qed.
Example C04_nonvacuous_snap_ok : snap_inactive Wstart Wrad Wend 0 false.
Proof.
  intros _. destruct W_adm as [A [B C]].
  apply (radicand_scaled Wstart Wrad Wend 0 A B C). rewrite W_rc. lra.
Qed.
Example C04_nonvacuous_snapped :
  0 < arc_radicand_of NumR NumTR Sstart Srad 0 Send <= atol8 NumR.
Proof. exact S_snapped. Qed.
Example C04_W_delta : a_delta W = 180.
Proof. exact W_delta. Qed.

Print Assumptions C04_unit_partial.
Print Assumptions C04_point0_partial.
Print Assumptions C04_point1_partial.
Print Assumptions C04_point0_only_if_snap_inactive.
Print Assumptions C04_on_ellipse.
Print Assumptions C04_scale_minimal.
Print Assumptions C04_scale_necessary.
Print Assumptions C04_sweep_sign.
Print Assumptions C04_large.
Print Assumptions C04_large_strict.
Print Assumptions C04_half_when_radicand_small.
Print Assumptions C04_delta_range.
Print Assumptions C04_angle_monotone.
Print Assumptions C04_delta_cases.
Print Assumptions C04_deriv.
Print Assumptions C04_deriv_partial.
Print Assumptions C04_deriv_mod4_is_0.
Print Assumptions C04_unit.
Print Assumptions C04_point0.
Print Assumptions C04_point1.
Print Assumptions C04_point0_snapped_refuted.
Print Assumptions C04_point1_snapped_refuted.
Print Assumptions C04_deriv4_refuted.
Print Assumptions C04_point0_refuted.
Print Assumptions C04_point1_refuted.
Print Assumptions C04_approx_ends_cubic.
Print Assumptions C04_approx_ends_quad.
Print Assumptions C04_chain_index_form.
