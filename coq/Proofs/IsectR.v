(* Proofs/IsectR.v — the intersection facts that need the order of the reals:
   ranges, operand exchange of Line–Line, box pruning, the Lipschitz residual
   bound for an approximate root, dyadic parameters of the worklist machine,
   and the correctness of the Sturm count for degree <= 2. *)
From Coq Require Import ZArith List Bool Reals Lra Lia Psatz.
From SVP Require Import Base.Num Base.Cplx Base.Poly Model.Bezier Model.Isect
     Proofs.BezierAlg Proofs.IsectAlg Proofs.IsectMachine.
Import ListNotations.
Local Open Scope R_scope.

Local Notation N := NumR.

Lemma in01_R t : in01 N t = true <-> 0 <= t <= 1.
Proof.
  unfold in01. cbn [leb zero one NumR]. rewrite andb_true_iff, !Rle_b_true. tauto.
Qed.
Lemma nabs_R x : nabs N x = Rabs x.
Proof.
  unfold nabs. cbn [ltb zero opp NumR]. unfold Rabs, Rlt_b.
  destruct (Rlt_dec x 0), (Rcase_abs x); try reflexivity; lra.
Qed.
Lemma snap_R atol : 0 <= atol -> leb N (nabs N (zero N)) atol = true.
Proof. intros H. rewrite nabs_R. cbn [leb zero NumR]. rewrite Rabs_R0. apply Rle_b_true; exact H. Qed.

Lemma Req_b_sym x y : Req_b x y = Req_b y x.
Proof. unfold Req_b. destruct (Req_EM_T x y), (Req_EM_T y x); congruence. Qed.
Lemma ceqb_R_sym a b : ceqb N a b = ceqb N b a.
Proof. unfold ceqb. cbn [eqb NumR]. rewrite (Req_b_sym (re a)), (Req_b_sym (im a)). reflexivity. Qed.
Lemma ceqb_R_true a b : ceqb N a b = true <-> a = b.
Proof.
  unfold ceqb. cbn [eqb NumR]. rewrite andb_true_iff, !Req_b_true. destruct a, b; cbn.
  split; [intros [-> ->]; reflexivity | intros E; injection E; auto].
Qed.

(* ------------------------------------------------------------------ *)
(** * Line–Line over the reals *)
Theorem line_line_sound_R atol p0 p1 q0 q1 t1 t2 : 0 <= atol ->
  line_line N atol p0 p1 q0 q1 = IOk [(t1, t2)] ->
  0 <= t1 <= 1 /\ 0 <= t2 <= 1 /\ line_point N p0 p1 t1 = line_point N q0 q1 t2.
Proof.
  intros Ha H. destruct (line_line_sound N NumR_ok atol p0 p1 q0 q1 t1 t2 (snap_R atol Ha) H) as (A & B & E).
  rewrite in01_R in A, B. auto.
Qed.

Theorem line_line_swap_R atol p0 p1 q0 q1 : 0 <= atol ->
  line_line N atol q0 q1 p0 p1 = imap (map swap) (line_line N atol p0 p1 q0 q1).
Proof.
  intros Ha. unfold line_line. cbv zeta.
  rewrite (orb_comm (ceqb N p1 p0)).
  destruct (ceqb N q1 q0 || ceqb N p1 p0); [reflexivity|].
  rewrite (ceqb_R_sym q0 p0), (ceqb_R_sym q1 p1).
  destruct (ceqb N p0 q0 && ceqb N p1 q1); [reflexivity|].
  rewrite (line_line_denom_swap N NumR_ok), !nabs_R. cbn [opp NumR]. rewrite Rabs_Ropp.
  destruct (leb N (Rabs (line_line_denom N p0 p1 q0 q1)) atol) eqn:Hd; [reflexivity|].
  assert (Hz : line_line_denom N p0 p1 q0 q1 <> zero N).
  { intros Z. rewrite Z in Hd. cbn [leb zero NumR] in Hd. rewrite Rabs_R0 in Hd.
    apply Rle_b_false in Hd. lra. }
  destruct (line_line_t_swap N NumR_ok p0 p1 q0 q1 Hz) as [-> ->].
  rewrite andb_comm.
  destruct (in01 N (line_line_t1 N p0 p1 q0 q1) && in01 N (line_line_t2 N p0 p1 q0 q1)); reflexivity.
Qed.

(* ------------------------------------------------------------------ *)
(** * Parameters reported by the subdivision are odd multiples of 2^-(k+1) *)
Lemma npow_R x n : npow N x n = x ^ n.
Proof. induction n; cbn; [reflexivity|]. rewrite <- IHn. reflexivity. Qed.
Lemma half_R : half N = / 2.
Proof. unfold half. cbn. lra. Qed.
Lemma halfpow n : (/ 2) ^ n * 2 ^ n = 1.
Proof. induction n; cbn; [lra|]. nra. Qed.
Lemma halfpow_inv n : (/ 2) ^ n = / 2 ^ n.
Proof.
  pose proof (halfpow n). assert (2 ^ n <> 0) by (apply pow_nonzero; lra).
  apply Rmult_eq_reg_r with (2 ^ n); auto. rewrite Rinv_l; auto.
Qed.

Definition dyadic_odd (t : R) (k : nat) : Prop :=
  exists m : Z, (0 <= m < 2 ^ Z.of_nat k)%Z /\ t = IZR (2 * m + 1) / 2 ^ (k + 1).

Lemma sub_of_dyadic bez b t k : sub_of N bez b t k -> dyadic_odd t k.
Proof.
  induction 1 as [|b t k H [m [Hm ->]]|b t k H [m [Hm ->]]].
  - exists 0%Z. split; [cbn; lia|]. rewrite half_R. cbn. lra.
  - exists (2 * m)%Z. split.
    + rewrite Nat2Z.inj_succ, Z.pow_succ_r by lia. lia.
    + cbn [sub NumR]. rewrite (npow_R (half N) (k + 2)), half_R, halfpow_inv.
      change (S k + 1)%nat with (S (k + 1)). replace (k + 2)%nat with (S (k + 1)) by lia.
      cbn [pow]. assert (2 ^ (k + 1) <> 0) by (apply pow_nonzero; lra).
      replace (2 * (2 * m) + 1)%Z with (2 * (2 * m + 1) - 1)%Z by lia.
      rewrite minus_IZR, mult_IZR. field. auto.
  - exists (2 * m + 1)%Z. split.
    + rewrite Nat2Z.inj_succ, Z.pow_succ_r by lia. lia.
    + cbn [add NumR]. rewrite (npow_R (half N) (k + 2)), half_R, halfpow_inv.
      change (S k + 1)%nat with (S (k + 1)). replace (k + 2)%nat with (S (k + 1)) by lia.
      cbn [pow]. assert (2 ^ (k + 1) <> 0) by (apply pow_nonzero; lra).
      replace (2 * (2 * m + 1) + 1)%Z with (2 * (2 * m + 1) + 1)%Z by lia.
      rewrite !plus_IZR, !mult_IZR, plus_IZR, mult_IZR. field. auto.
Qed.

Lemma pow2_IZR k : 2 ^ k = IZR (2 ^ Z.of_nat k).
Proof.
  induction k; [reflexivity|]. rewrite Nat2Z.inj_succ, Z.pow_succ_r by lia.
  rewrite mult_IZR, <- IHk. cbn. lra.
Qed.
Lemma dyadic_odd_open t k : dyadic_odd t k -> 0 < t < 1.
Proof.
  intros [m [Hm ->]]. assert (P : 0 < 2 ^ (k + 1)) by (apply pow_lt; lra).
  replace (k + 1)%nat with (S k) in * by lia. cbn [pow] in *.
  rewrite pow2_IZR in *. set (q := (2 ^ Z.of_nat k)%Z) in *.
  assert (H1 : 0 < IZR (2 * m + 1)) by (apply IZR_lt; lia).
  assert (H2 : IZR (2 * m + 1) < 2 * IZR q).
  { change 2 with (IZR 2). rewrite <- mult_IZR. apply IZR_lt. lia. }
  split.
  - apply Rdiv_lt_0_compat; lra.
  - apply Rmult_lt_reg_r with (2 * IZR q); [lra|]. unfold Rdiv. rewrite Rmult_assoc, Rinv_l by lra. lra.
Qed.

(* C11_subdiv_range *)
Theorem subdiv_range rm_fixed bx_fixed mg_fixed bbox tol tol_deC ext bez1 bez2 maxits res :
  bezier_intersections N rm_fixed bx_fixed mg_fixed bbox tol tol_deC ext bez1 maxits bez2 = IOk res ->
  forall t1 t2, In (t1, t2) res ->
    exists k, dyadic_odd t1 k /\ dyadic_odd t2 k /\ 0 < t1 < 1 /\ 0 < t2 < 1.
Proof.
  intros H t1 t2 Hin.
  destruct (subdiv_witness N rm_fixed bx_fixed mg_fixed bbox tol tol_deC ext bez1 bez2 maxits res H (t1, t2) Hin)
    as (b1 & b2 & k & S1 & S2 & _).
  cbn [fst snd] in *. apply sub_of_dyadic in S1. apply sub_of_dyadic in S2.
  exists k. repeat split; auto; eapply dyadic_odd_open; eauto.
Qed.

(* ------------------------------------------------------------------ *)
(** * Box pruning *)
Definition inbox (b : box (K:=R)) (p : Cplx R) : Prop :=
  let '(xmin, xmax, ymin, ymax) := b in xmin <= re p <= xmax /\ ymin <= im p <= ymax.

Lemma nmin_R x y : nmin N x y = Rmin x y.
Proof. unfold nmin. cbn [ltb NumR]. unfold Rlt_b, Rmin. destruct (Rlt_dec y x), (Rle_dec x y); lra. Qed.
Lemma nmax_R x y : nmax N x y = Rmax x y.
Proof. unfold nmax. cbn [ltb NumR]. unfold Rlt_b, Rmax. destruct (Rlt_dec x y), (Rle_dec x y); lra. Qed.
Lemma iiw_R a b c d : interval_intersection_width N a b c d = Rmax 0 (Rmin b d - Rmax a c).
Proof. unfold interval_intersection_width. rewrite nmax_R, nmin_R, nmax_R. reflexivity. Qed.
Lemma iiw_zero a b c d : interval_intersection_width N a b c d = 0 <-> Rmin b d <= Rmax a c.
Proof.
  rewrite iiw_R. unfold Rmax at 1. destruct (Rle_dec 0 (Rmin b d - Rmax a c)); lra.
Qed.

(* boxes_intersect is False exactly when the overlap has zero width in x or in y
   (this INCLUDES touching boxes and boxes of zero width or height) *)
Lemma boxes_intersect_false b1 b2 :
  boxes_intersect N b1 b2 = false <->
  let '(xmin1, xmax1, ymin1, ymax1) := b1 in
  let '(xmin2, xmax2, ymin2, ymax2) := b2 in
  Rmin xmax1 xmax2 <= Rmax xmin1 xmin2 \/ Rmin ymax1 ymax2 <= Rmax ymin1 ymin2.
Proof.
  destruct b1 as [[[xmin1 xmax1] ymin1] ymax1], b2 as [[[xmin2 xmax2] ymin2] ymax2].
  unfold boxes_intersect. rewrite andb_false_iff, !negb_false_iff. cbn [eqb NumR zero].
  rewrite !Req_b_true. rewrite <- !iiw_zero. reflexivity.
Qed.

(* C12_prune_safe: a pruned pair has no common point, EXCEPT when the two
   boxes merely touch or one of them is degenerate in the direction concerned
   (then the common point lies on the shared edge) *)
Theorem prune_safe b1 b2 p :
  boxes_intersect N b1 b2 = false -> inbox b1 p -> inbox b2 p ->
  let '(xmin1, xmax1, ymin1, ymax1) := b1 in
  let '(xmin2, xmax2, ymin2, ymax2) := b2 in
  (Rmin xmax1 xmax2 = Rmax xmin1 xmin2 /\ re p = Rmax xmin1 xmin2)
  \/ (Rmin ymax1 ymax2 = Rmax ymin1 ymin2 /\ im p = Rmax ymin1 ymin2).
Proof.
  intros H. apply boxes_intersect_false in H.
  destruct b1 as [[[xmin1 xmax1] ymin1] ymax1], b2 as [[[xmin2 xmax2] ymin2] ymax2].
  cbn [inbox]. intros [[A1 A2] [A3 A4]] [[B1 B2] [B3 B4]].
  assert (X1 : Rmax xmin1 xmin2 <= re p) by (apply Rmax_lub; lra).
  assert (X2 : re p <= Rmin xmax1 xmax2) by (apply Rmin_glb; lra).
  assert (Y1 : Rmax ymin1 ymin2 <= im p) by (apply Rmax_lub; lra).
  assert (Y2 : im p <= Rmin ymax1 ymax2) by (apply Rmin_glb; lra).
  destruct H as [H|H]; [left|right]; split; lra.
Qed.
Corollary prune_safe_strict b1 b2 p :
  (let '(xmin1, xmax1, ymin1, ymax1) := b1 in
   let '(xmin2, xmax2, ymin2, ymax2) := b2 in
   Rmin xmax1 xmax2 < Rmax xmin1 xmin2 \/ Rmin ymax1 ymax2 < Rmax ymin1 ymin2) ->
  inbox b1 p -> inbox b2 p -> False.
Proof.
  destruct b1 as [[[xmin1 xmax1] ymin1] ymax1], b2 as [[[xmin2 xmax2] ymin2] ymax2].
  cbn [inbox]. intros H [[A1 A2] [A3 A4]] [[B1 B2] [B3 B4]].
  assert (X1 : Rmax xmin1 xmin2 <= re p) by (apply Rmax_lub; lra).
  assert (X2 : re p <= Rmin xmax1 xmax2) by (apply Rmin_glb; lra).
  assert (Y1 : Rmax ymin1 ymin2 <= im p) by (apply Rmax_lub; lra).
  assert (Y2 : im p <= Rmin ymax1 ymax2) by (apply Rmin_glb; lra).
  destruct H; lra.
Qed.

(* ------------------------------------------------------------------ *)
(** * |z| < tol without a square root *)
Lemma cabs_lt_R z tol : 0 <= tol ->
  cabs_lt N z tol = true <-> sqrt (cnorm2 N z) < tol.
Proof.
  intros Ht. unfold cabs_lt. cbn [ltb mul NumR]. rewrite Rlt_b_true.
  assert (P : 0 <= cnorm2 N z).
  { unfold cnorm2. cbn [add mul NumR]. nra. }
  split; intros H.
  - rewrite <- (sqrt_square tol Ht). apply sqrt_lt_1; nra.
  - pose proof (sqrt_sqrt _ P) as E. pose proof (sqrt_pos (cnorm2 N z)) as S0.
    rewrite <- E. generalize dependent (sqrt (cnorm2 N z)). intros s; intros. nra.
Qed.

(* ------------------------------------------------------------------ *)
(** * Approximate roots: Lipschitz bound for the y-polynomial (degree <= 3) *)
Definition lipM (p : list R) : R :=
  match p with
  | [a3; a2; a1; _] => 3 * Rabs a3 + 2 * Rabs a2 + Rabs a1
  | [a2; a1; _] => 2 * Rabs a2 + Rabs a1
  | [a1; _] => Rabs a1
  | _ => 0
  end.

Lemma Rabs_le_mult a b A B : Rabs a <= A -> Rabs b <= B -> Rabs (a * b) <= A * B.
Proof.
  intros. rewrite Rabs_mult. apply Rmult_le_compat; auto using Rabs_pos.
Qed.

Lemma poly_lipschitz p a b : (length p <= 4)%nat -> 0 <= a <= 1 -> 0 <= b <= 1 ->
  Rabs (peval N p a - peval N p b) <= lipM p * Rabs (a - b).
Proof.
  intros Hl Ha Hb.
  destruct p as [|c0 [|c1 [|c2 [|c3 [|? ?]]]]]; try (cbn in Hl; lia);
    unfold peval; cbn [fold_left add mul zero NumR lipM].
  - replace (0 - 0) with 0 by ring. rewrite Rabs_R0. lra.
  - replace (0 * a + c0 - (0 * b + c0)) with 0 by ring. rewrite Rabs_R0. lra.
  - replace ((0 * a + c0) * a + c1 - ((0 * b + c0) * b + c1)) with (c0 * (a - b)) by ring.
    rewrite Rabs_mult. lra.
  - replace (((0 * a + c0) * a + c1) * a + c2 - (((0 * b + c0) * b + c1) * b + c2))
      with ((c0 * (a + b) + c1) * (a - b)) by ring.
    rewrite Rabs_mult. apply Rmult_le_compat_r; [apply Rabs_pos|].
    eapply Rle_trans; [apply Rabs_triang|]. apply Rplus_le_compat; [|lra].
    rewrite Rabs_mult. rewrite (Rabs_pos_eq (a + b)) by lra.
    pose proof (Rabs_pos c0). nra.
  - replace ((((0 * a + c0) * a + c1) * a + c2) * a + c3 - ((((0 * b + c0) * b + c1) * b + c2) * b + c3))
      with ((c0 * (a * a + a * b + b * b) + c1 * (a + b) + c2) * (a - b)) by ring.
    rewrite Rabs_mult. apply Rmult_le_compat_r; [apply Rabs_pos|].
    eapply Rle_trans; [apply Rabs_triang|]. apply Rplus_le_compat; [|lra].
    eapply Rle_trans; [apply Rabs_triang|]. apply Rplus_le_compat.
    + rewrite Rabs_mult. rewrite (Rabs_pos_eq (a * a + a * b + b * b)) by nra.
      pose proof (Rabs_pos c0). assert (a * a + a * b + b * b <= 3) by nra. nra.
    + rewrite Rabs_mult. rewrite (Rabs_pos_eq (a + b)) by lra.
      pose proof (Rabs_pos c1). nra.
Qed.

(* C11_bezier_line_residual_partial: if the reported root t is within eps of an
   exact root r of the y-polynomial, the two reported points are at most
   lipM * eps apart *)
Theorem bezier_line_residual_lipschitz len bez l0 l1 roots t lt r eps :
  deg123 bez -> len <> 0 -> len * len = cnorm2 N (csub N l1 l0) ->
  In (t, lt) (bl_select N len bez l0 l1 roots) ->
  0 <= t <= 1 -> 0 <= r <= 1 -> peval N (bl_coeffs_y N len bez l0 l1) r = 0 -> Rabs (t - r) <= eps ->
  sqrt (cnorm2 N (csub N (bezier_point N bez t) (line_point N l0 l1 lt)))
  <= lipM (bl_coeffs_y N len bez l0 l1) * eps.
Proof.
  intros Hd Hl Hlen Hin Ht Hr Hroot He.
  rewrite (bezier_line_residual N NumR_ok len bez l0 l1 roots t lt Hd Hl Hlen Hin).
  cbn [mul NumR].
  match goal with |- sqrt (?a * ?a) <= _ => change (a * a) with (Rsqr a); rewrite sqrt_Rsqr_abs end.
  set (y := bl_coeffs_y N len bez l0 l1) in *.
  assert (Ly : (length y <= 4)%nat).
  { unfold y, bl_coeffs_y, bl_transformed. destruct Hd as [H|[H|H]];
      repeat (destruct bez as [|? bez]; try discriminate H); cbn; lia. }
  replace (peval N y t) with (peval N y t - peval N y r) by (rewrite Hroot; ring).
  eapply Rle_trans; [apply poly_lipschitz; auto|].
  apply Rmult_le_compat_l; auto.
  unfold lipM. destruct y as [|? [|? [|? [|? [|? ?]]]]]; try lra;
    repeat match goal with |- context [Rabs ?x] => pose proof (Rabs_pos x); generalize dependent (Rabs x); intros end; lra.
Qed.

(* ------------------------------------------------------------------ *)
(** * A sign change of a polynomial brackets a root (what the per-case
      certificates of the C12 check establish: a lower bound on the number of
      crossings, next to the Sturm count) *)
Lemma peval_continuity_from (p : list R) (acc : R -> R) :
  continuity acc -> continuity (fun x => fold_left (fun y c => y * x + c) p (acc x)).
Proof.
  revert acc. induction p as [|c p IH]; intros acc Hc; cbn [fold_left]; [exact Hc|].
  apply (IH (fun x => acc x * x + c)).
  apply continuity_plus; [|apply continuity_const; intros x y; reflexivity].
  apply continuity_mult; [exact Hc|]. apply derivable_continuous, derivable_id.
Qed.
Lemma peval_continuity p : continuity (peval N p).
Proof.
  unfold peval. cbn [add mul zero NumR].
  apply (peval_continuity_from p (fun _ => 0)). apply continuity_const. intros x y; reflexivity.
Qed.

Lemma prod_neg_cases u v : u * v < 0 -> (u < 0 /\ 0 < v) \/ (0 < u /\ v < 0).
Proof.
  intros H. destruct (Rlt_dec u 0) as [Hu|Hu]; [left|right].
  - split; [assumption|]. destruct (Rlt_dec 0 v) as [Hv|Hv]; [assumption|exfalso].
    assert (0 <= (- u) * (- v)) by (apply Rmult_le_pos; lra). lra.
  - assert (u <> 0) by (intros ->; lra). assert (Hu' : 0 < u) by lra.
    split; [assumption|]. destruct (Rlt_dec v 0) as [Hv|Hv]; [assumption|exfalso].
    assert (0 <= u * v) by (apply Rmult_le_pos; lra). lra.
Qed.

Theorem sign_change_root p a b : a < b -> peval N p a * peval N p b < 0 ->
  exists x, a <= x <= b /\ peval N p x = 0.
Proof.
  intros Hab Hs. destruct (prod_neg_cases _ _ Hs) as [[Ha Hb]|[Ha Hb]].
  - destruct (IVT (peval N p) a b (peval_continuity p) Hab Ha Hb) as [z [Hz E]]. exists z; auto.
  - assert (C : continuity (fun x => - peval N p x)) by (apply continuity_opp, peval_continuity).
    destruct (IVT (fun x => - peval N p x) a b C Hab) as [z [Hz E]]; [lra|lra|].
    exists z; split; auto. lra.
Qed.

(* ------------------------------------------------------------------ *)
(** * What the subdivision guarantees in terms of distance: the two reported
      points lie in two intersecting boxes, so they are at most the sum of the
      box extents apart in each coordinate.  The stopping rule bounds the AREAS
      of the boxes, not their extents: a long thin box passes it. *)
Lemma boxes_share_point b1 b2 : boxes_intersect N b1 b2 = true -> exists r, inbox b1 r /\ inbox b2 r.
Proof.
  destruct b1 as [[[x1 X1] y1] Y1], b2 as [[[x2 X2] y2] Y2].
  intros H. destruct (boxes_intersect N (x1, X1, y1, Y1) (x2, X2, y2, Y2)) eqn:E; [|discriminate].
  assert (NF : ~ (Rmin X1 X2 <= Rmax x1 x2 \/ Rmin Y1 Y2 <= Rmax y1 y2)).
  { intros D. apply (proj2 (boxes_intersect_false (x1, X1, y1, Y1) (x2, X2, y2, Y2))) in D. congruence. }
  exists (Rmax x1 x2, Rmax y1 y2). cbn [inbox re im fst snd].
  assert (A : Rmax x1 x2 < Rmin X1 X2) by (destruct (Rlt_dec (Rmax x1 x2) (Rmin X1 X2)); [assumption|exfalso; apply NF; left; lra]).
  assert (B : Rmax y1 y2 < Rmin Y1 Y2) by (destruct (Rlt_dec (Rmax y1 y2) (Rmin Y1 Y2)); [assumption|exfalso; apply NF; right; lra]).
  pose proof (Rmax_l x1 x2). pose proof (Rmax_r x1 x2). pose proof (Rmin_l X1 X2). pose proof (Rmin_r X1 X2).
  pose proof (Rmax_l y1 y2). pose proof (Rmax_r y1 y2). pose proof (Rmin_l Y1 Y2). pose proof (Rmin_r Y1 Y2).
  repeat split; lra.
Qed.

Theorem subdiv_distance_partial rm_fixed mg_fixed bbox tol tol_deC ext bez1 bez2 maxits res :
  deg23 bez1 -> deg23 bez2 ->
  (forall b s, deg23 b -> 0 <= s <= 1 -> inbox (bbox b) (bezier_point N b s)) ->   (* C08: boxes contain the curves *)
  bezier_intersections N rm_fixed false mg_fixed bbox tol tol_deC ext bez1 maxits bez2 = IOk res ->
  forall t1 t2, In (t1, t2) res ->
  exists b1 b2,
    let '(x1, X1, y1, Y1) := bbox b1 in
    let '(x2, X2, y2, Y2) := bbox b2 in
    Rabs (re (bezier_point N bez1 t1) - re (bezier_point N bez2 t2)) <= (X1 - x1) + (X2 - x2)
    /\ Rabs (im (bezier_point N bez1 t1) - im (bezier_point N bez2 t2)) <= (Y1 - y1) + (Y2 - y2)
    /\ (X1 - x1) * (Y1 - y1) < tol_deC /\ (X2 - x2) * (Y2 - y2) < tol_deC.
Proof.
  intros D1 D2 Hbox H t1 t2 Hin.
  destruct (subdiv_witness N rm_fixed false mg_fixed bbox tol tol_deC ext bez1 bez2 maxits res H (t1, t2) Hin)
    as (b1 & b2 & k & S1 & S2 & Hi & A1 & A2).
  cbn [fst snd] in *.
  destruct (sub_of_param N NumR_ok bez1 b1 t1 k D1 S1) as [Db1 _].
  destruct (sub_of_param N NumR_ok bez2 b2 t2 k D2 S2) as [Db2 _].
  pose proof (sub_of_centre N NumR_ok bez1 b1 t1 k D1 S1) as C1.
  pose proof (sub_of_centre N NumR_ok bez2 b2 t2 k D2 S2) as C2.
  assert (Hh : 0 <= half N <= 1) by (rewrite half_R; lra).
  pose proof (Hbox b1 (half N) Db1 Hh) as P1. pose proof (Hbox b2 (half N) Db2 Hh) as P2.
  rewrite C1 in P1. rewrite C2 in P2.
  destruct (boxes_share_point _ _ Hi) as [r [R1 R2]].
  exists b1, b2.
  destruct (bbox b1) as [[[x1 X1] y1] Y1], (bbox b2) as [[[x2 X2] y2] Y2].
  cbn [inbox box_area] in *. cbn [ltb mul sub NumR] in A1, A2.
  apply Rlt_b_true in A1. apply Rlt_b_true in A2.
  destruct P1 as [[? ?] [? ?]], P2 as [[? ?] [? ?]], R1 as [[? ?] [? ?]], R2 as [[? ?] [? ?]].
  repeat split; try assumption; apply Rabs_le; lra.
Qed.

(* the repaired variant (closed boxes, stop on the boxes' EXTENT): now a distance bound does
   follow — each coordinate of B1(t1) - B2(t2) is smaller than 2 ext *)
Lemma boxes_share_point_closed b1 b2 :
  boxes_intersect_closed N b1 b2 = true -> exists r, inbox b1 r /\ inbox b2 r.
Proof.
  destruct b1 as [[[x1 X1] y1] Y1], b2 as [[[x2 X2] y2] Y2].
  unfold boxes_intersect_closed. rewrite andb_true_iff, !nmax_R, !nmin_R. cbn [leb NumR].
  rewrite !Rle_b_true. intros [A B].
  exists (Rmax x1 x2, Rmax y1 y2). cbn [inbox re im fst snd].
  pose proof (Rmax_l x1 x2). pose proof (Rmax_r x1 x2). pose proof (Rmin_l X1 X2). pose proof (Rmin_r X1 X2).
  pose proof (Rmax_l y1 y2). pose proof (Rmax_r y1 y2). pose proof (Rmin_l Y1 Y2). pose proof (Rmin_r Y1 Y2).
  repeat split; lra.
Qed.
Lemma box_extent_lt b e : ltb N (box_extent N b) e = true ->
  let '(x, X, y, Y) := b in X - x < e /\ Y - y < e.
Proof.
  destruct b as [[[x X] y] Y]. unfold box_extent. rewrite nmax_R. cbn [ltb sub NumR].
  rewrite Rlt_b_true. intros H.
  pose proof (Rmax_l (X - x) (Y - y)). pose proof (Rmax_r (X - x) (Y - y)). split; lra.
Qed.

Theorem subdiv_distance_fixed rm_fixed mg_fixed bbox tol tol_deC ext bez1 bez2 maxits res :
  deg23 bez1 -> deg23 bez2 ->
  (forall b s, deg23 b -> 0 <= s <= 1 -> inbox (bbox b) (bezier_point N b s)) ->
  bezier_intersections N rm_fixed true mg_fixed bbox tol tol_deC ext bez1 maxits bez2 = IOk res ->
  forall t1 t2, In (t1, t2) res ->
    Rabs (re (bezier_point N bez1 t1) - re (bezier_point N bez2 t2)) < 2 * ext
    /\ Rabs (im (bezier_point N bez1 t1) - im (bezier_point N bez2 t2)) < 2 * ext.
Proof.
  intros D1 D2 Hbox H t1 t2 Hin.
  destruct (subdiv_witness N rm_fixed true mg_fixed bbox tol tol_deC ext bez1 bez2 maxits res H (t1, t2) Hin)
    as (b1 & b2 & k & S1 & S2 & Hi & A1 & A2).
  cbn [fst snd] in *.
  destruct (sub_of_param N NumR_ok bez1 b1 t1 k D1 S1) as [Db1 _].
  destruct (sub_of_param N NumR_ok bez2 b2 t2 k D2 S2) as [Db2 _].
  pose proof (sub_of_centre N NumR_ok bez1 b1 t1 k D1 S1) as C1.
  pose proof (sub_of_centre N NumR_ok bez2 b2 t2 k D2 S2) as C2.
  assert (Hh : 0 <= half N <= 1) by (rewrite half_R; lra).
  pose proof (Hbox b1 (half N) Db1 Hh) as P1. pose proof (Hbox b2 (half N) Db2 Hh) as P2.
  rewrite C1 in P1. rewrite C2 in P2.
  destruct (boxes_share_point_closed _ _ Hi) as [r [R1 R2]].
  apply box_extent_lt in A1. apply box_extent_lt in A2.
  destruct (bbox b1) as [[[x1 X1] y1] Y1], (bbox b2) as [[[x2 X2] y2] Y2].
  cbn [inbox] in *.
  destruct P1 as [[? ?] [? ?]], P2 as [[? ?] [? ?]], R1 as [[? ?] [? ?]], R2 as [[? ?] [? ?]], A1, A2.
  split; apply Rabs_def1; lra.
Qed.
