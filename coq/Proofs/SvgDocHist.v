(* Proofs/SvgDocHist.v — C18, histories on a Document.

   [history_invisible]: whatever sequence of add_path / add_group (by
   position or by nested group names) is applied to whatever document,
   Document.paths() afterwards returns exactly what it returned before: the
   elements add_path creates carry no namespace and are never found by the
   'svg:path' query.  Saving and re-loading does not change that
   ([et_roundtrip]).  [saved_svg2paths]: in a file saved by Document,
   svg2paths finds exactly the path elements WITHOUT namespace (the added
   ones), and none of the elements of the SVG namespace (written svg:path).
   [history_visible_fixed]: with the element created in the SVG namespace
   the added path is visible (repair). *)
From Coq Require Import String List Bool Ascii Lia PeanoNat.
From SVP Require Import Model.SvgIO.
Import ListNotations.
Open Scope string_scope.
Open Scope list_scope.

(* induction on elements *)
Section XelInd.
  Variable P : xel -> Prop.
  Hypothesis H : forall ns l a kids, Forall P kids -> P (XE ns l a kids).
  Fixpoint xel_ind' (e : xel) : P e :=
    match e with
    | XE ns l a kids =>
        H ns l a kids ((fix go (ks : list xel) : Forall P ks :=
                          match ks with
                          | [] => Forall_nil P
                          | c :: r => Forall_cons c (xel_ind' c) (go r)
                          end) kids)
    end.
End XelInd.

(* ---- save / reload is the identity on ElementTree trees ---- *)
Theorem et_roundtrip : forall e, et_parse (et_write e) = e.
Proof.
  induction e as [ns l a kids IH] using xel_ind'.
  cbn [et_write et_parse]. f_equal. rewrite map_map.
  induction kids as [|c r IHr]; [reflexivity|].
  inversion IH; subst. cbn [map]. f_equal; auto.
Qed.

(* ---- what Document.paths() sees ---- *)
Fixpoint go_vis (l : list xel) : list dict :=
  match l with
  | [] => []
  | c :: r => go_vis r ++ (if is_svg_g c then doc_visible c else [])
  end.

Lemma doc_visible_unfold ns l a kids :
  doc_visible (XE ns l a kids) = map x_attrs (filter is_svg_path kids) ++ go_vis kids.
Proof.
  reflexivity.
Qed.

Lemma go_vis_app a b : go_vis (a ++ b) = go_vis b ++ go_vis a.
Proof.
  induction a as [|c r IH]; cbn [app go_vis]; [rewrite app_nil_r; reflexivity|].
  rewrite IH, app_assoc. reflexivity.
Qed.

(* two elements Document.paths() cannot tell apart, whatever their parent *)
Definition same_face (e e' : xel) : Prop :=
  x_ns e = x_ns e' /\ x_local e = x_local e' /\ x_attrs e = x_attrs e'
  /\ doc_visible e = doc_visible e'.

Lemma same_face_refl e : same_face e e.
Proof. repeat split. Qed.

Lemma kids_face kids kids' :
  Forall2 same_face kids kids' ->
  map x_attrs (filter is_svg_path kids) = map x_attrs (filter is_svg_path kids')
  /\ go_vis kids = go_vis kids'.
Proof.
  intros HF. induction HF as [|c c' r r' (Hn & Hl & Ha & Hv) HF IH]; [auto|].
  cbn [filter go_vis].
  assert (Ep : is_svg_path c = is_svg_path c') by (unfold is_svg_path, is_tag; rewrite Hn, Hl; reflexivity).
  assert (Eg : is_svg_g c = is_svg_g c') by (unfold is_svg_g, is_tag; rewrite Hn, Hl; reflexivity).
  destruct IH as [I1 I2]. rewrite <- Ep, <- Eg, <- Hv, I2. split; [|reflexivity].
  destruct (is_svg_path c); cbn [map]; rewrite ?Ha, I1; reflexivity.
Qed.

Lemma same_face_kids ns l a kids kids' :
  Forall2 same_face kids kids' -> same_face (XE ns l a kids) (XE ns l a kids').
Proof.
  intros HF. repeat split. rewrite !doc_visible_unfold.
  destruct (kids_face kids kids' HF) as [I1 I2]. rewrite I1, I2. reflexivity.
Qed.

(* an element nobody sees: not an SVG path, and if it is an SVG group it
   shows nothing *)
Definition invisible (c : xel) : Prop :=
  is_svg_path c = false /\ (if is_svg_g c then doc_visible c else []) = [].

Lemma append_invisible c e : invisible c -> same_face (append_child c e) e.
Proof.
  intros [Hp Hg]. destruct e as [ns l a kids]. cbn [append_child].
  repeat split. rewrite !doc_visible_unfold, filter_app, go_vis_app.
  cbn [filter go_vis]. rewrite Hp, Hg. cbn [app]. rewrite app_nil_r. reflexivity.
Qed.

Lemma invisible_new_path d a : invisible (new_path_element d a).
Proof. split; reflexivity. Qed.
Lemma invisible_new_group a : invisible (new_group_element a []).
Proof. split; reflexivity. Qed.
Lemma invisible_chain names leaf : invisible leaf -> invisible (chain names leaf).
Proof.
  intros Hl. induction names as [|nm r IH]; [exact Hl|].
  destruct IH as [_ Hg]. split; [reflexivity|].
  cbn [chain]. unfold new_group_element.
  replace (is_svg_g (XE SVGNS "g" [("id", nm)] [chain r leaf])) with true by reflexivity.
  rewrite doc_visible_unfold. cbn [go_vis filter].
  destruct Hl as [Hp _].
  assert (Hcp : is_svg_path (chain r leaf) = false).
  { destruct r; [exact Hp|reflexivity]. }
  rewrite Hcp. cbn [map app]. exact Hg.
Qed.

Lemma same_face_trans a b c : same_face a b -> same_face b c -> same_face a c.
Proof. intros (A1 & A2 & A3 & A4) (B1 & B2 & B3 & B4). repeat split; congruence. Qed.

Lemma update_at_face p f :
  (forall e, same_face (f e) e) -> forall e, same_face (update_at p f e) e.
Proof.
  intros Hf. induction p as [|i r IH]; intros e; [apply Hf|].
  destruct e as [ns l a kids]. cbn [update_at].
  apply same_face_kids. generalize O.
  induction kids as [|c cr IHk]; intros j; constructor.
  - destruct (Nat.eqb j i); [apply IH|apply same_face_refl].
  - apply IHk.
Qed.

Lemma add_named_face leaf : invisible leaf ->
  forall names e, same_face (add_named names leaf e) e.
Proof.
  intros Hl names. induction names as [|nm rest IH]; intros e.
  - cbn [add_named]. apply append_invisible, Hl.
  - destruct e as [ns l a kids]. cbn [add_named].
    destruct (existsb (names_match nm) kids).
    + apply same_face_kids.
      induction kids as [|c cr IHk]; [constructor|].
      destruct (names_match nm c).
      * constructor; [apply IH|].
        clear. induction cr; constructor; auto using same_face_refl.
      * constructor; [apply same_face_refl|exact IHk].
    + apply (append_invisible (chain (nm :: rest) leaf) (XE ns l a kids)).
      apply invisible_chain, Hl.
Qed.

Lemma step_face o root : same_face (step o root) root.
Proof.
  destruct o as [d a p|d a names|a p]; cbn [step].
  - apply update_at_face. intros e. apply append_invisible, invisible_new_path.
  - apply add_named_face, invisible_new_path.
  - apply update_at_face. intros e. apply append_invisible, invisible_new_group.
Qed.

Theorem history_invisible : forall ops root, doc_visible (run ops root) = doc_visible root.
Proof.
  unfold run. induction ops as [|o ops IH]; intros root; [reflexivity|].
  cbn [fold_left]. rewrite IH. apply step_face.
Qed.

(* ... and after save + reload *)
Corollary history_invisible_reload ops root :
  doc_visible (et_parse (et_write (run ops root))) = doc_visible root.
Proof. rewrite et_roundtrip. apply history_invisible. Qed.

(* ---- repair: created in the SVG namespace, a path added to the root is seen ---- *)
Theorem history_visible_fixed d a root :
  In (update a [("d", d)]) (doc_visible (append_child (new_path_element_fixed d a) root)).
Proof.
  destruct root as [ns l at0 kids]. cbn [append_child]. rewrite doc_visible_unfold.
  apply in_or_app. left. rewrite filter_app, map_app. apply in_or_app. right.
  cbn. left. reflexivity.
Qed.

(* ---- svg2paths on a file saved by Document ---- *)
Fixpoint x_preorder (e : xel) : list xel :=
  match e with XE _ _ _ kids => e :: flat_map x_preorder kids end.

Lemma f_preorder_write : forall e, f_preorder (et_write e) = map et_write (x_preorder e).
Proof.
  induction e as [ns l a kids IH] using xel_ind'.
  cbn [et_write f_preorder x_preorder map]. f_equal.
  induction kids as [|c r IHr]; [reflexivity|].
  inversion IH; subst. cbn [map flat_map]. rewrite map_app. f_equal; auto.
Qed.

Definition bare_path (e : xel) : bool := String.eqb (x_ns e) "" && String.eqb (x_local e) "path".

Lemma tag_name_write e : String.eqb (tag_name (et_write e)) "path" = bare_path e.
Proof.
  destruct e as [ns l a kids]. unfold bare_path. cbn [et_write tag_name x_ns x_local].
  destruct (String.eqb ns SVGNS) eqn:E1.
  - apply String.eqb_eq in E1. subst ns. reflexivity.
  - destruct (String.eqb ns "") eqn:E2; reflexivity.
Qed.

Lemma filter_map_comm {A B} (f : A -> B) (p : B -> bool) (q : A -> bool) l :
  (forall x, p (f x) = q x) -> filter p (map f l) = map f (filter q l).
Proof.
  intros H. induction l as [|x r IH]; [reflexivity|].
  cbn [map filter]. rewrite H. destruct (q x); cbn [map]; rewrite IH; reflexivity.
Qed.

Theorem saved_svg2paths e :
  elements_by_tag "path" (et_write e) = map et_write (filter bare_path (x_preorder e)).
Proof.
  unfold elements_by_tag. rewrite f_preorder_write.
  apply filter_map_comm. apply tag_name_write.
Qed.
