(* Proofs/SvgDocHist.v — C18, histories on a Document.

   [history_invisible]: whatever sequence of add_path / add_group (by
   position or by nested group names) is applied to whatever document,
   Document.paths() afterwards returns exactly what it returned before: the
   elements add_path creates carry no namespace and are never found by the
   'svg:path' query.  Saving and re-loading does not change that
   ([et_roundtrip]).  [saved_svg2paths]: in a file saved by Document,
   svg2paths finds exactly the path elements WITHOUT namespace (the added
   ones), and none of the elements of the SVG namespace (written svg:path).
   All of this for the pinned variant (Model/SvgIO.v cfg, flags false).
   Repaired variants: [history_visible_at], [history_visible_named] (f_add_ns:
   every path added to a group that paths() reaches, or through nested group
   names, is returned by paths() after every continuation of the history);
   [et_roundtrip_pure], [saved_svg2paths_default] (f_default_ns: svg2paths
   finds every path element of a saved document). *)
From Coq Require Import String List Bool Ascii Lia PeanoNat.
From SVP Require Import Model.SvgIO Proofs.SvgIO.
Import ListNotations.
Open Scope string_scope.
Open Scope list_scope.

(* induction on elements *)
Section XelInd.
  Variable P : xel -> Prop.
  Hypothesis H : forall ns l a kids, Forall P kids -> P (XE ns l a kids).
  Fixpoint xel_ind' (e : xel) : P e :=
    match e with
    | XE ns l a kids =>
        H ns l a kids ((fix go (ks : list xel) : Forall P ks :=
                          match ks with
                          | [] => Forall_nil P
                          | c :: r => Forall_cons c (xel_ind' c) (go r)
                          end) kids)
    end.
End XelInd.

(* ---- save / reload is the identity on ElementTree trees ---- *)
Fixpoint pure (e : xel) : bool :=
  match e with XE ns _ _ kids => String.eqb ns SVGNS && forallb pure kids end.

Lemma parse_write_in c dflt : forall e,
    dflt = false \/ pure e = true -> et_parse (et_write_in c dflt e) = e.
Proof.
  induction e as [ns l a kids IH] using xel_ind'. intros H.
  cbn [et_write_in].
  assert (Hk : map et_parse (map (et_write_in c dflt) kids) = kids).
  { rewrite map_map.
    assert (Hp : dflt = false \/ forallb pure kids = true).
    { destruct H as [H|H]; [left; exact H|right].
      cbn [pure] in H. apply andb_true_iff in H. apply H. }
    clear H. induction kids as [|ch r IHr]; [reflexivity|].
    inversion IH as [|? ? Hch Hr]; subst. cbn [map]. f_equal.
    - apply Hch. destruct Hp as [Hp|Hp]; [left; exact Hp|right].
      cbn [forallb] in Hp. apply andb_true_iff in Hp. apply Hp.
    - apply IHr; [exact Hr|]. destruct Hp as [Hp|Hp]; [left; exact Hp|right].
      cbn [forallb] in Hp. apply andb_true_iff in Hp. apply Hp. }
  destruct (String.eqb ns SVGNS) eqn:E1.
  - apply String.eqb_eq in E1. subst ns. cbn [et_parse]. rewrite Hk. reflexivity.
  - destruct (String.eqb ns "") eqn:E2.
    + apply String.eqb_eq in E2. subst ns. cbn [et_parse]. rewrite Hk.
      destruct H as [->|H]; [reflexivity|].
      cbn [pure] in H. rewrite E1 in H. discriminate.
    + cbn [et_parse]. rewrite Hk. reflexivity.
Qed.

(* pinned serialisation (svg: prefix): identity on every tree *)
Theorem et_roundtrip c : f_default_ns c = false -> forall e, et_parse (et_write c e) = e.
Proof.
  intros Hc e. unfold et_write. rewrite Hc. cbn [andb]. apply parse_write_in. left; reflexivity.
Qed.
(* default-namespace serialisation: identity on trees that are entirely in the
   SVG namespace (what the repaired Document builds from such files) *)
Theorem et_roundtrip_pure c : forall e, pure e = true -> et_parse (et_write c e) = e.
Proof. intros e H. unfold et_write. apply parse_write_in. right; exact H. Qed.

(* ---- what Document.paths() sees ---- *)
Fixpoint go_vis (l : list xel) : list dict :=
  match l with
  | [] => []
  | c :: r => go_vis r ++ (if is_svg_g c then doc_visible c else [])
  end.

Lemma doc_visible_unfold ns l a kids :
  doc_visible (XE ns l a kids) = map x_attrs (filter is_svg_path kids) ++ go_vis kids.
Proof.
  reflexivity.
Qed.

Lemma go_vis_app a b : go_vis (a ++ b) = go_vis b ++ go_vis a.
Proof.
  induction a as [|c r IH]; cbn [app go_vis]; [rewrite app_nil_r; reflexivity|].
  rewrite IH, app_assoc. reflexivity.
Qed.

(* two elements Document.paths() cannot tell apart, whatever their parent *)
Definition same_face (e e' : xel) : Prop :=
  x_ns e = x_ns e' /\ x_local e = x_local e' /\ x_attrs e = x_attrs e'
  /\ doc_visible e = doc_visible e'.

Lemma same_face_refl e : same_face e e.
Proof. repeat split. Qed.

Lemma kids_face kids kids' :
  Forall2 same_face kids kids' ->
  map x_attrs (filter is_svg_path kids) = map x_attrs (filter is_svg_path kids')
  /\ go_vis kids = go_vis kids'.
Proof.
  intros HF. induction HF as [|c c' r r' (Hn & Hl & Ha & Hv) HF IH]; [auto|].
  cbn [filter go_vis].
  assert (Ep : is_svg_path c = is_svg_path c') by (unfold is_svg_path, is_tag; rewrite Hn, Hl; reflexivity).
  assert (Eg : is_svg_g c = is_svg_g c') by (unfold is_svg_g, is_tag; rewrite Hn, Hl; reflexivity).
  destruct IH as [I1 I2]. rewrite <- Ep, <- Eg, <- Hv, I2. split; [|reflexivity].
  destruct (is_svg_path c); cbn [map]; rewrite ?Ha, I1; reflexivity.
Qed.

Lemma same_face_kids ns l a kids kids' :
  Forall2 same_face kids kids' -> same_face (XE ns l a kids) (XE ns l a kids').
Proof.
  intros HF. repeat split. rewrite !doc_visible_unfold.
  destruct (kids_face kids kids' HF) as [I1 I2]. rewrite I1, I2. reflexivity.
Qed.

(* an element nobody sees: not an SVG path, and if it is an SVG group it
   shows nothing *)
Definition invisible (c : xel) : Prop :=
  is_svg_path c = false /\ (if is_svg_g c then doc_visible c else []) = [].

Lemma append_invisible c e : invisible c -> same_face (append_child c e) e.
Proof.
  intros [Hp Hg]. destruct e as [ns l a kids]. cbn [append_child].
  repeat split. rewrite !doc_visible_unfold, filter_app, go_vis_app.
  cbn [filter go_vis]. rewrite Hp, Hg. cbn [app]. rewrite app_nil_r. reflexivity.
Qed.

Lemma invisible_new_path c d a : f_add_ns c = false -> invisible (new_path_element c d a).
Proof. intros H. unfold new_path_element, created_ns. rewrite H. split; reflexivity. Qed.
Lemma invisible_new_group a : invisible (new_group_element a []).
Proof. split; reflexivity. Qed.
Lemma invisible_chain names leaf : invisible leaf -> invisible (chain names leaf).
Proof.
  intros Hl. induction names as [|nm r IH]; [exact Hl|].
  destruct IH as [_ Hg]. split; [reflexivity|].
  cbn [chain]. unfold new_group_element.
  replace (is_svg_g (XE SVGNS "g" [("id", nm)] [chain r leaf])) with true by reflexivity.
  rewrite doc_visible_unfold. cbn [go_vis filter].
  destruct Hl as [Hp _].
  assert (Hcp : is_svg_path (chain r leaf) = false).
  { destruct r; [exact Hp|reflexivity]. }
  rewrite Hcp. cbn [map app]. exact Hg.
Qed.

Lemma same_face_trans a b c : same_face a b -> same_face b c -> same_face a c.
Proof. intros (A1 & A2 & A3 & A4) (B1 & B2 & B3 & B4). repeat split; congruence. Qed.

Lemma update_at_face p f :
  (forall e, same_face (f e) e) -> forall e, same_face (update_at p f e) e.
Proof.
  intros Hf. induction p as [|i r IH]; intros e; [apply Hf|].
  destruct e as [ns l a kids]. cbn [update_at].
  apply same_face_kids. generalize O.
  induction kids as [|c cr IHk]; intros j; constructor.
  - destruct (Nat.eqb j i); [apply IH|apply same_face_refl].
  - apply IHk.
Qed.

Lemma add_named_face leaf : invisible leaf ->
  forall names e, same_face (add_named names leaf e) e.
Proof.
  intros Hl names. induction names as [|nm rest IH]; intros e.
  - cbn [add_named]. apply append_invisible, Hl.
  - destruct e as [ns l a kids]. cbn [add_named].
    destruct (existsb (names_match nm) kids).
    + apply same_face_kids.
      induction kids as [|c cr IHk]; [constructor|].
      destruct (names_match nm c).
      * constructor; [apply IH|].
        clear. induction cr; constructor; auto using same_face_refl.
      * constructor; [apply same_face_refl|exact IHk].
    + apply (append_invisible (chain (nm :: rest) leaf) (XE ns l a kids)).
      apply invisible_chain, Hl.
Qed.

Lemma step_face c o root : f_add_ns c = false -> same_face (step c o root) root.
Proof.
  intros Hc. destruct o as [d a p|d a names|a p]; cbn [step].
  - apply update_at_face. intros e. apply append_invisible, invisible_new_path, Hc.
  - apply add_named_face, invisible_new_path, Hc.
  - apply update_at_face. intros e. apply append_invisible, invisible_new_group.
Qed.

Theorem history_invisible c : f_add_ns c = false ->
  forall ops root, doc_visible (run c ops root) = doc_visible root.
Proof.
  intros Hc. unfold run. induction ops as [|o ops IH]; intros root; [reflexivity|].
  cbn [fold_left]. rewrite IH. apply step_face, Hc.
Qed.

(* ... and after save + reload *)
Corollary history_invisible_reload c ops root :
  f_add_ns c = false -> f_default_ns c = false ->
  doc_visible (et_parse (et_write c (run c ops root))) = doc_visible root.
Proof. intros H1 H2. rewrite (et_roundtrip c H2). apply history_invisible, H1. Qed.

(* ------------------------------------------------------------------ *)
(* repaired add_path (f_add_ns): what is added is seen, and stays seen   *)

(* paths() sees at least as much in e' as in e *)
Definition vis_le (e e' : xel) : Prop :=
  x_ns e = x_ns e' /\ x_local e = x_local e' /\ x_attrs e = x_attrs e'
  /\ incl (doc_visible e) (doc_visible e').

Lemma vis_le_refl e : vis_le e e.
Proof. repeat split. apply incl_refl. Qed.
Lemma vis_le_trans a b c : vis_le a b -> vis_le b c -> vis_le a c.
Proof.
  intros (A1 & A2 & A3 & A4) (B1 & B2 & B3 & B4). repeat split; try congruence.
  eapply incl_tran; eauto.
Qed.

Lemma kids_le kids kids' :
  Forall2 vis_le kids kids' ->
  map x_attrs (filter is_svg_path kids) = map x_attrs (filter is_svg_path kids')
  /\ incl (go_vis kids) (go_vis kids').
Proof.
  intros HF. induction HF as [|c c' r r' (Hn & Hl & Ha & Hv) HF IH].
  - split; [reflexivity|apply incl_refl].
  - cbn [filter go_vis].
    assert (Ep : is_svg_path c = is_svg_path c') by (unfold is_svg_path, is_tag; rewrite Hn, Hl; reflexivity).
    assert (Eg : is_svg_g c = is_svg_g c') by (unfold is_svg_g, is_tag; rewrite Hn, Hl; reflexivity).
    destruct IH as [I1 I2]. rewrite <- Ep, <- Eg. split.
    + destruct (is_svg_path c); cbn [map]; rewrite ?Ha, I1; reflexivity.
    + apply incl_app; [apply incl_appl; exact I2|apply incl_appr].
      destruct (is_svg_g c); [exact Hv|apply incl_refl].
Qed.

Lemma vis_le_kids ns l a kids kids' :
  Forall2 vis_le kids kids' -> vis_le (XE ns l a kids) (XE ns l a kids').
Proof.
  intros HF. repeat split. rewrite !doc_visible_unfold.
  destruct (kids_le kids kids' HF) as [I1 I2]. rewrite I1.
  apply incl_app; [apply incl_appl, incl_refl|apply incl_appr, I2].
Qed.

Lemma append_le c e : vis_le e (append_child c e).
Proof.
  destruct e as [ns l a kids]. cbn [append_child]. repeat split.
  rewrite !doc_visible_unfold, filter_app, map_app, go_vis_app.
  apply incl_app.
  - apply incl_appl, incl_appl, incl_refl.
  - apply incl_appr, incl_appr, incl_refl.
Qed.

Fixpoint upd_kids (i : nat) (g : xel -> xel) (j : nat) (ks : list xel) : list xel :=
  match ks with
  | [] => []
  | c :: cr => (if Nat.eqb j i then g c else c) :: upd_kids i g (S j) cr
  end.
Lemma update_at_cons i r f ns l a kids :
  update_at (i :: r) f (XE ns l a kids) = XE ns l a (upd_kids i (update_at r f) O kids).
Proof.
  cbn [update_at]. f_equal. generalize O.
  induction kids as [|c cr IH]; intros j; [reflexivity|].
  cbn [upd_kids]. rewrite <- IH. reflexivity.
Qed.

Lemma update_at_le p f : (forall e, vis_le e (f e)) -> forall e, vis_le e (update_at p f e).
Proof.
  intros Hf. induction p as [|i r IH]; intros e; [apply Hf|].
  destruct e as [ns l a kids]. rewrite update_at_cons.
  apply vis_le_kids. generalize O.
  induction kids as [|c cr IHk]; intros j; constructor.
  - destruct (Nat.eqb j i); [apply IH|apply vis_le_refl].
  - apply IHk.
Qed.

Lemma Forall2_le_refl l : Forall2 vis_le l l.
Proof. induction l; constructor; auto using vis_le_refl. Qed.

Lemma add_named_le leaf : forall names e, vis_le e (add_named names leaf e).
Proof.
  intros names. induction names as [|nm rest IH]; intros e.
  - cbn [add_named]. apply append_le.
  - destruct e as [ns l a kids]. cbn [add_named].
    destruct (existsb (names_match nm) kids).
    + apply vis_le_kids.
      induction kids as [|c cr IHk]; [constructor|].
      destruct (names_match nm c).
      * constructor; [apply IH|apply Forall2_le_refl].
      * constructor; [apply vis_le_refl|exact IHk].
    + apply (append_le (chain (nm :: rest) leaf) (XE ns l a kids)).
Qed.

Lemma step_le c o root : vis_le root (step c o root).
Proof.
  destruct o as [d a p|d a names|a p]; cbn [step].
  - apply update_at_le. intros e. apply append_le.
  - apply add_named_le.
  - apply update_at_le. intros e. apply append_le.
Qed.

(* nothing that paths() returns is ever lost by a continuation of the history *)
Theorem history_monotone c : forall ops root, incl (doc_visible root) (doc_visible (run c ops root)).
Proof.
  unfold run. induction ops as [|o ops IH]; intros root; [apply incl_refl|].
  cbn [fold_left]. eapply incl_tran; [|apply IH]. apply step_le.
Qed.

(* the positions paths() reaches: through (SVGNS, g) children only *)
Fixpoint reach (e : xel) (p : position) : bool :=
  match p with
  | [] => true
  | i :: r => match nth_error (x_kids e) i with
              | Some ch => is_svg_g ch && reach ch r
              | None => false
              end
  end.

Lemma append_visible c e : is_svg_path c = true -> In (x_attrs c) (doc_visible (append_child c e)).
Proof.
  intros Hp. destruct e as [ns l a kids]. cbn [append_child].
  rewrite doc_visible_unfold, filter_app, map_app. apply in_or_app. left. apply in_or_app. right.
  cbn [filter]. rewrite Hp. left. reflexivity.
Qed.

Lemma go_vis_in kids ch v :
  In ch kids -> is_svg_g ch = true -> In v (doc_visible ch) -> In v (go_vis kids).
Proof.
  induction kids as [|c r IH]; intros Hin Hg Hv; [contradiction|].
  cbn [go_vis]. apply in_or_app. destruct Hin as [->|Hin].
  - right. rewrite Hg. exact Hv.
  - left. apply IH; assumption.
Qed.

Lemma upd_kids_in i g : forall kids j k ch,
    nth_error kids k = Some ch -> (j + k)%nat = i -> In (g ch) (upd_kids i g j kids).
Proof.
  induction kids as [|c cr IH]; intros j k ch Hn Hjk; [destruct k; discriminate|].
  cbn [upd_kids]. destruct k as [|k'].
  - cbn in Hn. inversion Hn; subst c. replace (Nat.eqb j i) with true; [left; reflexivity|].
    symmetry. apply Nat.eqb_eq. lia.
  - right. apply (IH (S j) k' ch Hn). lia.
Qed.

Lemma update_at_visible v f : (forall e, vis_le e (f e)) -> (forall e, In v (doc_visible (f e))) ->
  forall p e, reach e p = true -> In v (doc_visible (update_at p f e)).
Proof.
  intros Hle Hf. induction p as [|i r IH]; intros e Hr; [apply Hf|].
  destruct e as [ns l a kids]. rewrite update_at_cons. cbn [reach x_kids] in Hr.
  destruct (nth_error kids i) as [ch|] eqn:En; [|discriminate].
  apply andb_true_iff in Hr. destruct Hr as [Hg Hr].
  rewrite doc_visible_unfold. apply in_or_app. right.
  apply (go_vis_in _ (update_at r f ch)).
  - apply (upd_kids_in i (update_at r f) kids O i ch En). reflexivity.
  - destruct (update_at_le r f Hle ch) as (Hn & Hl & _). unfold is_svg_g, is_tag in *.
    rewrite <- Hn, <- Hl. exact Hg.
  - apply IH, Hr.
Qed.

Lemma chain_visible names leaf :
  is_svg_path leaf = true -> names <> [] ->
  is_svg_g (chain names leaf) = true /\ In (x_attrs leaf) (doc_visible (chain names leaf)).
Proof.
  intros Hp. induction names as [|nm r IH]; intros Hne; [contradiction|].
  split; [reflexivity|].
  cbn [chain]. unfold new_group_element. rewrite doc_visible_unfold. cbn [filter go_vis map].
  destruct r as [|nm' r'].
  - cbn [chain]. rewrite Hp. cbn [map app]. left. reflexivity.
  - destruct (IH ltac:(discriminate)) as [Hg Hv].
    apply in_or_app. right. cbn [app]. rewrite Hg. exact Hv.
Qed.

Lemma add_named_visible leaf : is_svg_path leaf = true ->
  forall names e, In (x_attrs leaf) (doc_visible (add_named names leaf e)).
Proof.
  intros Hp names. induction names as [|nm rest IH]; intros e.
  - cbn [add_named]. apply append_visible, Hp.
  - destruct e as [ns l a kids]. cbn [add_named].
    destruct (existsb (names_match nm) kids) eqn:Ex.
    + rewrite doc_visible_unfold. apply in_or_app. right.
      induction kids as [|c cr IHk]; [discriminate|].
      cbn [existsb] in Ex. destruct (names_match nm c) eqn:Em.
      * cbn [go_vis]. apply in_or_app. right.
        assert (Hg : is_svg_g (add_named rest leaf c) = true).
        { destruct (add_named_le leaf rest c) as (Hn & Hl & _).
          unfold names_match in Em. apply andb_true_iff in Em. destruct Em as [Em _].
          unfold is_svg_g, is_tag in *. rewrite <- Hn, <- Hl. exact Em. }
        rewrite Hg. apply IH.
      * cbn [go_vis]. apply in_or_app. left. apply IHk. exact Ex.
    + change (In (x_attrs leaf) (doc_visible (append_child (chain (nm :: rest) leaf) (XE ns l a kids)))).
      destruct (chain_visible (nm :: rest) leaf Hp ltac:(discriminate)) as [Hg Hv].
      cbn [append_child]. rewrite doc_visible_unfold, go_vis_app. apply in_or_app. right.
      apply in_or_app. left. cbn [go_vis app]. rewrite Hg. exact Hv.
Qed.

(* attribs = attribs.copy(); attribs['d'] = path_svg: the path that is added
   supersedes a 'd' entry of the supplied attribute dict (e.g. dicts loaded
   with svg2paths carry the old d); every other supplied attribute is kept *)
Lemma new_path_d c d a : lookup "d" (x_attrs (new_path_element c d a)) = Some d.
Proof. unfold new_path_element. cbn [x_attrs]. apply lookup_update_other. reflexivity. Qed.
Lemma new_path_keeps c d a k :
  k <> "d" -> lookup k (x_attrs (new_path_element c d a)) = lookup k a.
Proof.
  intros Hk. unfold new_path_element. cbn [x_attrs]. apply lookup_update_miss.
  cbn [lookup]. apply String.eqb_neq in Hk. rewrite Hk. reflexivity.
Qed.

Lemma new_path_is_svg c d a : f_add_ns c = true -> is_svg_path (new_path_element c d a) = true.
Proof. intros H. unfold new_path_element, created_ns. rewrite H. reflexivity. Qed.

Lemma run_app c o1 o2 root : run c (o1 ++ o2) root = run c o2 (run c o1 root).
Proof. unfold run. apply fold_left_app. Qed.

(* every path added to an element that paths() reaches (the root, or a group
   below it through groups) is returned by paths() after the step and after
   every continuation of the history *)
Theorem history_visible_at c : f_add_ns c = true ->
  forall ops1 ops2 root d a p,
    reach (run c ops1 root) p = true ->
    In (update a [("d", d)]) (doc_visible (run c (ops1 ++ OpAddPath d a p :: ops2) root)).
Proof.
  intros Hc ops1 ops2 root d a p Hr.
  rewrite run_app. change (OpAddPath d a p :: ops2) with ([OpAddPath d a p] ++ ops2).
  rewrite run_app. apply (history_monotone c ops2).
  cbn [run fold_left step].
  apply (update_at_visible (update a [("d", d)]) (append_child (new_path_element c d a))).
  - intros e. apply append_le.
  - intros e. apply (append_visible (new_path_element c d a) e), new_path_is_svg, Hc.
  - exact Hr.
Qed.

(* ... and every path added through nested group names (get_or_add_group) *)
Theorem history_visible_named c : f_add_ns c = true ->
  forall ops1 ops2 root d a names,
    In (update a [("d", d)]) (doc_visible (run c (ops1 ++ OpAddPathNamed d a names :: ops2) root)).
Proof.
  intros Hc ops1 ops2 root d a names.
  rewrite run_app. change (OpAddPathNamed d a names :: ops2) with ([OpAddPathNamed d a names] ++ ops2).
  rewrite run_app. apply (history_monotone c ops2).
  cbn [run fold_left step].
  apply (add_named_visible (new_path_element c d a) (new_path_is_svg c d a Hc)).
Qed.

(* ---- svg2paths on a file saved by Document ---- *)
Fixpoint x_preorder (e : xel) : list xel :=
  match e with XE _ _ _ kids => e :: flat_map x_preorder kids end.

Lemma f_preorder_write c dflt : forall e,
    f_preorder (et_write_in c dflt e) = map (et_write_in c dflt) (x_preorder e).
Proof.
  induction e as [ns l a kids IH] using xel_ind'.
  assert (Hk : flat_map f_preorder (map (et_write_in c dflt) kids)
               = map (et_write_in c dflt) (flat_map x_preorder kids)).
  { induction kids as [|ch r IHr]; [reflexivity|].
    inversion IH; subst. cbn [map flat_map]. rewrite map_app. f_equal; auto. }
  cbn [et_write_in x_preorder map].
  destruct (String.eqb ns SVGNS); [|destruct (String.eqb ns "")];
    cbn [f_preorder]; rewrite Hk; reflexivity.
Qed.

Definition bare_path (e : xel) : bool := String.eqb (x_ns e) "" && String.eqb (x_local e) "path".

Lemma tag_name_write c dflt e :
  f_default_ns c = false ->
  String.eqb (tag_name (et_write_in c dflt e)) "path" = bare_path e.
Proof.
  intros Hc. destruct e as [ns l a kids]. unfold bare_path. cbn [et_write_in x_ns x_local].
  destruct (String.eqb ns SVGNS) eqn:E1.
  - apply String.eqb_eq in E1. subst ns. rewrite Hc. reflexivity.
  - destruct (String.eqb ns "") eqn:E2; reflexivity.
Qed.

(* default-namespace serialisation of a tree in the SVG namespace: every
   element is written bare *)
Lemma tag_name_write_default c dflt e :
  f_default_ns c = true -> String.eqb (x_ns e) SVGNS = true ->
  String.eqb (tag_name (et_write_in c dflt e)) "path" = String.eqb (x_local e) "path".
Proof.
  intros Hc Hn. destruct e as [ns l a kids]. cbn [x_ns x_local] in *. cbn [et_write_in].
  rewrite Hn, Hc. reflexivity.
Qed.

Lemma filter_map_comm {A B} (f : A -> B) (p : B -> bool) (q : A -> bool) l :
  (forall x, p (f x) = q x) -> filter p (map f l) = map f (filter q l).
Proof.
  intros H. induction l as [|x r IH]; [reflexivity|].
  cbn [map filter]. rewrite H. destruct (q x); cbn [map]; rewrite IH; reflexivity.
Qed.

Theorem saved_svg2paths c e :
  f_default_ns c = false ->
  elements_by_tag "path" (et_write c e)
  = map (et_write_in c false) (filter bare_path (x_preorder e)).
Proof.
  intros Hc. unfold elements_by_tag, et_write. rewrite Hc. cbn [andb]. rewrite f_preorder_write.
  apply filter_map_comm. intros x. apply tag_name_write, Hc.
Qed.

Lemma filter_map_comm_in {A B} (f : A -> B) (p : B -> bool) (q : A -> bool) l :
  (forall x, In x l -> p (f x) = q x) -> filter p (map f l) = map f (filter q l).
Proof.
  induction l as [|x r IH]; intros H; [reflexivity|].
  cbn [map filter]. rewrite (H x (or_introl eq_refl)).
  rewrite IH by (intros y Hy; apply H; right; exact Hy).
  destruct (q x); reflexivity.
Qed.

Lemma pure_preorder : forall e, pure e = true ->
  forall x, In x (x_preorder e) -> String.eqb (x_ns x) SVGNS = true.
Proof.
  induction e as [ns l a kids IH] using xel_ind'. intros Hp x Hin.
  cbn [pure] in Hp. apply andb_true_iff in Hp. destruct Hp as [Hn Hk].
  cbn [x_preorder] in Hin. destruct Hin as [<-|Hin]; [exact Hn|].
  apply in_flat_map in Hin. destruct Hin as (ch & Hch & Hx).
  rewrite Forall_forall in IH. apply (IH ch Hch); [|exact Hx].
  rewrite forallb_forall in Hk. apply Hk, Hch.
Qed.

(* repaired: in a saved document that is entirely in the SVG namespace,
   svg2paths finds every path element, in document order *)
Theorem saved_svg2paths_default c e :
  f_default_ns c = true -> pure e = true ->
  elements_by_tag "path" (et_write c e)
  = map (et_write_in c (has_svgns e))
        (filter (fun x => String.eqb (x_local x) "path") (x_preorder e)).
Proof.
  intros Hc Hp. unfold elements_by_tag, et_write. rewrite Hc. cbn [andb]. rewrite f_preorder_write.
  apply filter_map_comm_in. intros x Hx.
  apply tag_name_write_default; [exact Hc|]. apply (pure_preorder e Hp x Hx).
Qed.
