(* Proofs/PathCacheSeg.v — segment-level statements of C16:
   * Line / QuadraticBezier: length(error, min_depth) never consults a cache;
   * CubicBezier: fresh-equivalent whenever the reuse test is sound (it is not:
     Proofs/PathCacheRefute.v), because the key is compared by value — so
     reassigned control points are always noticed;
   * Arc: fresh-equivalent only under a single tolerance;
   * reversed(): keeps both objects coherent only if the shared entry was
     current and length is reversal-invariant bit for bit;
   * __eq__ / __hash__: every hashed field is compared by __eq__ for the four
     segment classes; for Path the hashed `_closed` is not compared. *)
From Coq Require Import ZArith List Bool Lia.
From SVP Require Import Model.PathCache Proofs.PathCache.
Import ListNotations.

Section Seg.
  Context {pt pay tol V : Type}.
  Variable fx : fixes.
  Variable pt_eqb : pt -> pt -> bool.
  Variable pay_eqb : pay -> pay -> bool.
  Variable tol_reuse : tol -> tol -> bool.
  Variable tol_eqb : tol -> tol -> bool.
  Variable len_of : @sdata pt pay -> tol -> V.
  Hypothesis pt_eqb_eq : forall a b, pt_eqb a b = true -> a = b.
  Hypothesis pay_eqb_eq : forall a b, pay_eqb a b = true -> a = b.
  Hypothesis tol_eqb_eq : forall a b, tol_eqb a b = true -> a = b.
  Notation seg := (@seg pt pay tol V).
  Notation seg_length := (seg_length fx pt_eqb pay_eqb tol_reuse tol_eqb len_of).
  Notation sdata_eqb := (sdata_eqb pt_eqb pay_eqb).

  (* any reassignment of control points / parameters that keeps the class *)
  Definition reassign (f : @sdata pt pay -> @sdata pt pay) (g : seg) : seg := mkSeg (f (sd g)) (scache g).

  (* the cached value is the value of its own key at its own tolerance *)
  Definition SegOwn (g : seg) : Prop :=
    match scache g with
    | None => True
    | Some c => cval c = len_of (ckey c) (ctol c)
    end.
  Lemma SegOwn_fresh : forall d, SegOwn (fresh_seg d).
  Proof. intros; exact I. Qed.
  Lemma SegOwn_reassign : forall f g, SegOwn g -> SegOwn (reassign f g).
  Proof. intros f g H; exact H. Qed.

  Lemma line_quad_fresh : forall g t, skind (sd g) = KLine \/ skind (sd g) = KQuad ->
      seg_length g t = (g, len_of (sd g) t).
  Proof. intros g t [H|H]; unfold PathCache.seg_length; rewrite H; reflexivity. Qed.

  Lemma SegOwn_step : forall g t, SegOwn g -> SegOwn (fst (seg_length g t)).
  Proof.
    intros g t H. unfold PathCache.seg_length, compute.
    destruct (skind (sd g)); simpl; auto.
    - destruct (scache g) as [c|] eqn:E; simpl.
      + destruct (sdata_eqb (ckey c) (sd g) && tol_reuse (ctol c) t); simpl; auto.
        unfold SegOwn; simpl; auto.
      + unfold SegOwn; simpl; auto.
    - destruct (scache g) as [c|] eqn:E; simpl.
      + destruct (sdata_eqb (ckey c) (sd g) && (negb (fx_arc fx) || tol_eqb (ctol c) t)); simpl; auto.
        unfold SegOwn; simpl; auto.
      + unfold SegOwn; simpl; auto.
  Qed.

  (* what a cubic answers: the fresh value, or the value cached for the same
     control data under a tolerance that passes the reuse test *)
  Lemma cubic_answer : forall g t, SegOwn g -> skind (sd g) = KCubic ->
      snd (seg_length g t) = len_of (sd g) t
      \/ exists c, scache g = Some c /\ tol_reuse (ctol c) t = true
                   /\ snd (seg_length g t) = len_of (sd g) (ctol c).
  Proof.
    intros g t H K. unfold PathCache.seg_length, compute. rewrite K.
    unfold SegOwn in H. destruct (scache g) as [c|] eqn:E; simpl; auto.
    destruct (sdata_eqb (ckey c) (sd g)) eqn:D; simpl; auto.
    destruct (tol_reuse (ctol c) t) eqn:R; simpl; auto.
    right. exists c. repeat split; auto.
    apply (sdata_eqb_eq pt_eqb pay_eqb pt_eqb_eq pay_eqb_eq) in D. rewrite H, D. reflexivity.
  Qed.
  (* hence: correct as soon as reuse only happens between tolerances that give
     the same value — e.g. if the test were `cached == requested` *)
  Theorem cubic_fresh_if_reuse_sound :
      (forall c t d, tol_reuse c t = true -> len_of d c = len_of d t) ->
      forall f g t, SegOwn g -> skind (f (sd g)) = KCubic ->
      snd (seg_length (reassign f g) t) = snd (seg_length (fresh_seg (f (sd g))) t).
  Proof.
    intros S f g t H K.
    assert (F : snd (seg_length (fresh_seg (f (sd g))) t) = len_of (f (sd g)) t).
    { unfold PathCache.seg_length; simpl. rewrite K. reflexivity. }
    rewrite F. destruct (cubic_answer (reassign f g) t (SegOwn_reassign f g H) K) as [A|[c [_ [R A]]]]; auto.
    rewrite A. apply S. exact R.
  Qed.
  (* for an arc: correct under one tolerance (Proofs.PathCache.segment_fresh);
     reassigned parameters are noticed because the key is compared by value *)
  Lemma arc_answer : forall g t, SegOwn g -> skind (sd g) = KArc ->
      snd (seg_length g t) = len_of (sd g) t
      \/ exists c, scache g = Some c /\ snd (seg_length g t) = len_of (sd g) (ctol c).
  Proof.
    intros g t H K. unfold PathCache.seg_length, compute. rewrite K.
    unfold SegOwn in H. destruct (scache g) as [c|] eqn:E; simpl; auto.
    destruct (sdata_eqb (ckey c) (sd g)) eqn:D; simpl; auto.
    destruct (negb (fx_arc fx) || tol_eqb (ctol c) t); simpl; auto.
    right. exists c. split; auto.
    apply (sdata_eqb_eq pt_eqb pay_eqb pt_eqb_eq pay_eqb_eq) in D. rewrite H, D. reflexivity.
  Qed.
  (* repaired arc cache: the tolerance is part of the key, so the answer is
     always the fresh one, whatever was asked before *)
  Theorem arc_fresh_repaired : fx_arc fx = true ->
      forall f g t, SegOwn g -> skind (f (sd g)) = KArc ->
      snd (seg_length (reassign f g) t) = snd (seg_length (fresh_seg (f (sd g))) t).
  Proof.
    intros F f g t H K.
    assert (Fr : snd (seg_length (fresh_seg (f (sd g))) t) = len_of (f (sd g)) t).
    { unfold PathCache.seg_length; simpl. rewrite K. reflexivity. }
    rewrite Fr. unfold PathCache.seg_length, compute. simpl. rewrite K, F. simpl.
    unfold SegOwn in H. destruct (scache g) as [c|] eqn:E; simpl; auto.
    destruct (sdata_eqb (ckey c) (f (sd g))) eqn:D; simpl; auto.
    destruct (tol_eqb (ctol c) t) eqn:Q; simpl; auto.
    apply (sdata_eqb_eq pt_eqb pay_eqb pt_eqb_eq pay_eqb_eq) in D. apply tol_eqb_eq in Q.
    rewrite H, D, Q. reflexivity.
  Qed.

  (* reversed() *)
  Variable rev_data : @sdata pt pay -> @sdata pt pay.
  Variable v_truthy : V -> bool.
  Notation seg_reversed := (seg_reversed fx pt_eqb pay_eqb rev_data v_truthy).
  Theorem reversed_coherent_partial :
      (forall d t, len_of (rev_data d) t = len_of d t) ->
      forall g, SegOwn g -> (forall c, scache g = Some c -> ckey c = sd g) ->
      SegOwn (fst (seg_reversed g)) /\ SegOwn (snd (seg_reversed g)).
  Proof.
    intros R g H K. unfold PathCache.seg_reversed. unfold SegOwn in H.
    destruct (scache g) as [c|] eqn:E; simpl.
    - destruct (v_truthy (cval c)); simpl.
      + destruct (fx_rev fx).
        * destruct (sdata_eqb (ckey c) (sd g)); simpl.
          -- unfold SegOwn; simpl. rewrite E, R, H, (K c eq_refl). auto.
          -- unfold SegOwn; simpl. rewrite E. auto.
        * unfold SegOwn; simpl. rewrite R, H, (K c eq_refl). auto.
      + unfold SegOwn; simpl. rewrite E. auto.
    - unfold SegOwn; simpl. rewrite E. auto.
  Qed.
  (* repaired reversed(): the entry is copied only when it is current, so no
     side condition on the cache is left (what remains is that a reversed curve
     has the same length bit for bit, the ulp-level finding) *)
  Theorem reversed_coherent_repaired : fx_rev fx = true ->
      (forall d t, len_of (rev_data d) t = len_of d t) ->
      forall g, SegOwn g -> fst (seg_reversed g) = g /\ SegOwn (snd (seg_reversed g)).
  Proof.
    intros F R g H. unfold PathCache.seg_reversed. rewrite F. unfold SegOwn in H.
    destruct (scache g) as [c|] eqn:E; simpl; [|split; [reflexivity|exact I]].
    destruct (v_truthy (cval c)); simpl; [|split; [reflexivity|exact I]].
    destruct (sdata_eqb (ckey c) (sd g)) eqn:D; simpl; [|split; [reflexivity|exact I]].
    split; auto. unfold SegOwn; simpl.
    apply (sdata_eqb_eq pt_eqb pay_eqb pt_eqb_eq pay_eqb_eq) in D. rewrite R, H, D. reflexivity.
  Qed.
End Seg.

(* ------------------------------------------------------------ eq / hash *)
Section EqHash.
  (* F: the Python values stored in the fields (complex, float, bool);
     H: hash codes.  Python's data model guarantees a == b -> hash(a) == hash(b)
     for these builtin types; a tuple's hash is a function of its items' hashes. *)
  Context {F H : Type}.
  Variable feq : F -> F -> bool.
  Variable fhash : F -> H.
  Variable thash : list H -> H.
  Hypothesis hash_respects_eq : forall a b, feq a b = true -> fhash a = fhash b.

  Record line := mkLine { l_start : F; l_end : F }.
  Definition line_eq (a b : line) := feq (l_start a) (l_start b) && feq (l_end a) (l_end b).
  Definition line_hash (a : line) := thash [fhash (l_start a); fhash (l_end a)].

  Record quadb := mkQuad { q_start : F; q_control : F; q_end : F }.
  Definition quad_eq (a b : quadb) :=
    feq (q_start a) (q_start b) && feq (q_end a) (q_end b) && feq (q_control a) (q_control b).
  Definition quad_hash (a : quadb) := thash [fhash (q_start a); fhash (q_control a); fhash (q_end a)].

  Record cubicb := mkCubic { c_start : F; c_control1 : F; c_control2 : F; c_end : F }.
  Definition cubic_eq (a b : cubicb) :=
    feq (c_start a) (c_start b) && feq (c_end a) (c_end b)
    && feq (c_control1 a) (c_control1 b) && feq (c_control2 a) (c_control2 b).
  Definition cubic_hash (a : cubicb) :=
    thash [fhash (c_start a); fhash (c_control1 a); fhash (c_control2 a); fhash (c_end a)].

  Record arcs := mkArc { a_start : F; a_radius : F; a_rotation : F; a_large : F; a_sweep : F; a_end : F }.
  Definition arc_eq (a b : arcs) :=
    feq (a_start a) (a_start b) && feq (a_end a) (a_end b) && feq (a_radius a) (a_radius b)
    && feq (a_rotation a) (a_rotation b) && feq (a_large a) (a_large b) && feq (a_sweep a) (a_sweep b).
  Definition arc_hash (a : arcs) :=
    thash [fhash (a_start a); fhash (a_radius a); fhash (a_rotation a); fhash (a_large a);
           fhash (a_sweep a); fhash (a_end a)].

  Ltac crush :=
    repeat match goal with
           | E : _ && _ = true |- _ => apply andb_true_iff in E; destruct E
           | E : feq _ _ = true |- _ => apply hash_respects_eq in E; rewrite E; clear E
           end; reflexivity.
  Theorem line_eq_hash : forall a b, line_eq a b = true -> line_hash a = line_hash b.
  Proof. intros a b E; unfold line_eq, line_hash in *. crush. Qed.
  Theorem quad_eq_hash : forall a b, quad_eq a b = true -> quad_hash a = quad_hash b.
  Proof. intros a b E; unfold quad_eq, quad_hash in *. crush. Qed.
  Theorem cubic_eq_hash : forall a b, cubic_eq a b = true -> cubic_hash a = cubic_hash b.
  Proof. intros a b E; unfold cubic_eq, cubic_hash in *. crush. Qed.
  Theorem arc_eq_hash : forall a b, arc_eq a b = true -> arc_hash a = arc_hash b.
  Proof. intros a b E; unfold arc_eq, arc_hash in *. crush. Qed.

  (* Path over any segment type whose eq/hash are consistent *)
  Context {S : Type}.
  Variable seg_eq : S -> S -> bool.
  Variable seg_hash : S -> H.
  Hypothesis seg_eq_hash : forall a b, seg_eq a b = true -> seg_hash a = seg_hash b.
  Variable bhash : bool -> H.
  Record pathr := mkPath { p_segs : list S; p_closed : bool }.
  Fixpoint segs_eq (l1 l2 : list S) : bool :=
    match l1, l2 with
    | [], [] => true
    | a :: r1, b :: r2 => seg_eq a b && segs_eq r1 r2
    | _, _ => false
    end.
  Definition path_eq (a b : pathr) := segs_eq (p_segs a) (p_segs b).      (* _closed is not looked at *)
  Definition path_hash (a : pathr) := thash [thash (map seg_hash (p_segs a)); bhash (p_closed a)].
  Lemma segs_eq_hash : forall l1 l2, segs_eq l1 l2 = true -> map seg_hash l1 = map seg_hash l2.
  Proof.
    induction l1; destruct l2; simpl; intros E; try discriminate; auto.
    apply andb_true_iff in E. destruct E as [E1 E2]. f_equal; auto.
  Qed.
  (* repaired __hash__: hash((tuple(segments), False)) *)
  Definition path_hash_repaired (a : pathr) := thash [thash (map seg_hash (p_segs a)); bhash false].
  Theorem path_eq_hash_repaired : forall a b, path_eq a b = true -> path_hash_repaired a = path_hash_repaired b.
  Proof. intros a b E. unfold path_eq, path_hash_repaired in *. rewrite (segs_eq_hash _ _ E). reflexivity. Qed.
  Theorem path_eq_hash_partial : forall a b,
      path_eq a b = true -> p_closed a = p_closed b -> path_hash a = path_hash b.
  Proof.
    intros a b E C. unfold path_eq, path_hash in *. rewrite (segs_eq_hash _ _ E), C. reflexivity.
  Qed.
End EqHash.

(* the Path statement without the side condition is false as soon as the two
   booleans hash differently (hash(True) = 1, hash(False) = 0) *)
Definition zt (l : list Z) : Z := fold_left (fun a h => (a * 1000003 + h)%Z) l 0%Z.
Definition zb (b : bool) : Z := if b then 1%Z else 0%Z.
Lemma path_eq_hash_refuted :
  exists a b : @pathr (@line Z), path_eq (line_eq Z.eqb) a b = true
                   /\ path_hash zt (line_hash (fun z => z) zt) zb a
                      <> path_hash zt (line_hash (fun z => z) zt) zb b.
Proof.
  exists (mkPath [mkLine 0%Z 1%Z; mkLine 1%Z 0%Z] false), (mkPath [mkLine 0%Z 1%Z; mkLine 1%Z 0%Z] true).
  split; [reflexivity|vm_compute; intro E; discriminate E].
Qed.
