(* Proofs/ExtremaBbox.v — C08 over R: Line / Quadratic / Cubic bounding boxes
   contain the curve and are tight; the closed-form roots of the cubic
   derivative; the polyroots model under its oracle contract; Path.bbox. *)
From Coq Require Import ZArith List Bool Reals Lra Lia Classical.
From Coquelicot Require Import Coquelicot.
From SVP Require Import Base.Num Base.Cplx Base.Poly Model.Bezier Model.Extrema Proofs.ExtremaLemmas.
From SVP Require Model.BezierN Proofs.Roots.    (* property C19: dedup_fixed and its theorems *)
Import ListNotations.
Local Open Scope R_scope.

Ltac numR :=
  cbn [add sub mul div opp inv zero one eqb ltb leb NumR lit of_pos
       sqrt_ cos_ sin_ tan_ atan_ pi_ hypot_ NumTR re im fst snd] in *.

(* ================= polyroots model ================= *)
(* the model of this file is the model of property C19 (Model/BezierN.v), for
   both variants, over any carrier *)
Section SameAsC19.
  Context {K : Type} (N : Num K) (atol rtol : K).
  Lemma pairs_combinations2 (l : list K) : pairs l = BezierN.combinations2 l.
  Proof.
    induction l as [|x r IH]; [reflexivity|]. cbn [pairs BezierN.combinations2]. rewrite IH. f_equal.
    clear IH. induction r as [|y r IH]; [reflexivity|]. cbn [map BezierN.pairs_from]. now rewrite IH.
  Qed.
  Lemma dup_idx_close_pair_indices ps : forall i,
      dup_idx N atol rtol i ps = BezierN.close_pair_indices N rtol atol i ps.
  Proof.
    induction ps as [|[a b] ps IH]; intros i; [reflexivity|].
    cbn [dup_idx BezierN.close_pair_indices]. rewrite !IH. reflexivity.
  Qed.
  Lemma drop_idx_drop_indices d (l : list K) : forall i, drop_idx i d l = BezierN.drop_indices i d l.
  Proof.
    induction l as [|x l IH]; intros i; [reflexivity|]. cbn [drop_idx BezierN.drop_indices]. now rewrite !IH.
  Qed.
  Theorem dedup_same_as_C19 fixed l :
    dedup N atol rtol fixed l = if fixed then BezierN.dedup_fixed N rtol atol l else BezierN.dedup_coded N rtol atol l.
  Proof.
    destruct fixed; [reflexivity|]. unfold dedup, dedup_coded, BezierN.dedup_coded.
    now rewrite pairs_combinations2, dup_idx_close_pair_indices, drop_idx_drop_indices.
  Qed.
  Theorem polyroots_real_same_as_C19 fixed cond roots :
    polyroots_real N atol rtol fixed cond roots = BezierN.polyroots N rtol atol fixed roots true cond.
  Proof.
    unfold polyroots_real, BezierN.polyroots. rewrite dedup_same_as_C19. destruct fixed; reflexivity.
  Qed.
End SameAsC19.

Section RootsR.
  Variables (atol rtol : R).
  Notation isclose := (isclose NumR atol rtol).
  (* premise that existed because of the index bug (fixed = false): NO two
     surviving list positions are isclose, not even two copies of a double root *)
  Definition no_close_pairs (l : list R) : Prop :=
    forall a b, In (a, b) (pairs l) -> isclose a b = false.
  (* genuine separation premise (fixed = true): surviving roots with DIFFERENT
     values are not isclose; a root listed several times is harmless *)
  Definition distinct_separated (l : list R) : Prop :=
    forall a b, In (a, b) (pairs l) -> a <> b -> isclose a b = false.
  Definition sep_ok (fixed : bool) (l : list R) : Prop :=
    if fixed then distinct_separated l else no_close_pairs l.
  Lemma no_close_pairs_sep_ok fixed l : no_close_pairs l -> sep_ok fixed l.
  Proof. destruct fixed; cbn; auto. intros H a b Hin _. now apply H. Qed.

  Lemma dup_idx_nil ps : (forall a b, In (a, b) ps -> isclose a b = false) ->
    forall i, dup_idx NumR atol rtol i ps = [].
  Proof.
    induction ps as [|[a b] ps IH]; intros H i; cbn [dup_idx]; [reflexivity|].
    rewrite (H a b) by now left. apply IH. intros; apply H; now right.
  Qed.
  Lemma drop_idx_nil (l : list R) : forall i, drop_idx i [] l = l.
  Proof. induction l as [|x l IH]; intros i; cbn; [reflexivity|]. now rewrite IH. Qed.
  Lemma dedup_id l : no_close_pairs l -> dedup NumR atol rtol false l = l.
  Proof. intros H. unfold dedup, dedup_coded. rewrite dup_idx_nil by exact H. apply drop_idx_nil. Qed.
  Lemma drop_idx_sub d (l : list R) : forall i x, In x (drop_idx i d l) -> In x l.
  Proof.
    induction l as [|y l IH]; intros i x; cbn [drop_idx]; [auto|].
    destruct (existsb (Nat.eqb i) d); cbn [In]; intros H.
    - right; eapply IH; eauto.
    - destruct H; [now left | right; eapply IH; eauto].
  Qed.
  Lemma dedup_sub fixed l x : In x (dedup NumR atol rtol fixed l) -> In x l.
  Proof.
    destruct fixed; cbn [dedup].
    - apply Roots.dedup_fixed_incl.
    - apply drop_idx_sub.
  Qed.

  (* soundness: whatever is returned is the real part of an oracle root and
     satisfies the condition (no premise, either variant) *)
  Lemma polyroots_sound fixed cond roots t :
    In t (polyroots_real NumR atol rtol fixed cond roots) ->
    cond t = true /\ exists r, In r roots /\ re r = t.
  Proof.
    unfold polyroots_real. intros H. apply dedup_sub in H.
    apply filter_In in H. destruct H as [H Hc]. split; [exact Hc|].
    unfold real_roots in H. apply in_map_iff in H. destruct H as (r & E & Hr).
    apply filter_In in Hr. exists r. tauto.
  Qed.

  Lemma first_occurrence (x : R) l : In x l -> exists l1 l2, l = l1 ++ x :: l2 /\ ~ In x l1.
  Proof.
    induction l as [|a l IH]; [intros []|]. intros H.
    destruct (Req_EM_T a x) as [->|n].
    - exists [], l. split; [reflexivity|intros []].
    - destruct H as [H|H]; [contradiction|]. destruct (IH H) as (l1 & l2 & -> & Hn).
      exists (a :: l1), l2. split; [reflexivity|]. intros [E|E]; auto.
  Qed.
  Lemma pairs_before (l1 : list R) x l2 y : In y l1 -> In (y, x) (pairs (l1 ++ x :: l2)).
  Proof.
    induction l1 as [|a l1 IH]; [intros []|]. intros [->|H]; cbn [app pairs]; apply in_or_app.
    - left. apply in_map. apply in_or_app. right. now left.
    - right. auto.
  Qed.
  Lemma isclose_refl t : 0 < atol -> 0 <= rtol -> isclose t t = true.
  Proof.
    intros Ha Hr. unfold Extrema.isclose. numR. apply Rlt_b_true.
    replace (t - t) with 0 by ring. unfold nabs at 1. numR.
    destruct (Rlt_b 0 0) eqn:E; [apply Rlt_b_true in E; lra|].
    assert (0 <= nabs NumR t).
    { unfold nabs. numR. destruct (Rlt_b t 0) eqn:E'; [apply Rlt_b_true in E'|apply Rlt_b_false in E']; lra. }
    assert (0 <= rtol * nabs NumR t) by (apply Rmult_le_pos; auto). lra.
  Qed.

  (* completeness under the contract: the oracle lists the root (as an exactly
     real number) and the separation premise of the variant holds *)
  Lemma polyroots_complete fixed cond roots t : 0 < atol -> 0 <= rtol ->
    In (t, 0) roots -> cond t = true ->
    sep_ok fixed (filter cond (real_roots NumR atol rtol roots)) ->
    In t (polyroots_real NumR atol rtol fixed cond roots).
  Proof.
    intros Ha Hr Hin Hc Hsep.
    assert (HL : In t (filter cond (real_roots NumR atol rtol roots))).
    { apply filter_In. split; [|exact Hc]. unfold real_roots.
      apply in_map_iff. exists (t, 0). split; [reflexivity|]. apply filter_In. split; [exact Hin|].
      cbn [im snd]. change (zero NumR) with 0. apply isclose_refl; auto. }
    unfold polyroots_real. destruct fixed; cbn [sep_ok] in Hsep.
    - destruct (first_occurrence _ _ HL) as (l1 & l2 & E & Hn). rewrite E in *. cbn [dedup].
      destruct (Roots.dedup_fixed_keeps_isolated NumR rtol atol l1 t l2) as (o1 & o2 & Eo & _).
      + intros y Hy. apply (Hsep y t); [now apply pairs_before|]. intros ->. contradiction.
      + apply isclose_refl; auto.
      + rewrite Eo. apply in_or_app. right. now left.
    - rewrite dedup_id by exact Hsep. exact HL.
  Qed.
End RootsR.

(* the contract on np.roots used by the theorems: if the polynomial is not
   identically zero, every real root in [0,1] is listed, as an exactly real
   complex number *)
Definition oracle_ok (p : list R) (roots : list (Cplx R)) : Prop :=
  (exists s, peval NumR p s <> 0) ->
  forall t, 0 <= t <= 1 -> peval NumR p t = 0 -> In (t, 0) roots.
Definition separated (fixed : bool) (atol rtol : R) (cond : R -> bool) (roots : list (Cplx R)) : Prop :=
  sep_ok atol rtol fixed (filter cond (real_roots NumR atol rtol roots)).

(* ================= Line ================= *)
Lemma nminR a b : nmin NumR a b = Rmin a b.
Proof. unfold nmin, Rmin. numR. unfold Rlt_b. destruct (Rlt_dec b a), (Rle_dec a b); lra. Qed.
Lemma nmaxR a b : nmax NumR a b = Rmax a b.
Proof. unfold nmax, Rmax. numR. unfold Rlt_b. destruct (Rlt_dec a b), (Rle_dec a b); lra. Qed.

Lemma line_contains s e t : 0 <= t <= 1 ->
  let '(xmin, xmax, ymin, ymax) := line_bbox NumR s e in
  xmin <= re (line_point NumR s e t) <= xmax /\ ymin <= im (line_point NumR s e t) <= ymax.
Proof.
  intros Ht. destruct s as [sx sy], e as [ex ey]. unfold line_bbox, line_point. cunfold. numR.
  rewrite !nminR, !nmaxR. unfold Rmin, Rmax.
  destruct (Rle_dec sx ex), (Rle_dec sy ey); repeat split; nra.
Qed.
Lemma line_tight s e :
  let '(xmin, xmax, ymin, ymax) := line_bbox NumR s e in
  (exists t, (t = 0 \/ t = 1) /\ xmin = re (line_point NumR s e t)) /\
  (exists t, (t = 0 \/ t = 1) /\ xmax = re (line_point NumR s e t)) /\
  (exists t, (t = 0 \/ t = 1) /\ ymin = im (line_point NumR s e t)) /\
  (exists t, (t = 0 \/ t = 1) /\ ymax = im (line_point NumR s e t)).
Proof.
  destruct s as [sx sy], e as [ex ey]. unfold line_bbox, line_point. cunfold. numR.
  rewrite !nminR, !nmaxR. unfold Rmin, Rmax.
  destruct (Rle_dec sx ex), (Rle_dec sy ey); repeat split;
    solve [ exists 0; split; [now left | ring] | exists 1; split; [now right | ring] ].
Qed.

(* ================= cubic: closed-form roots of x'(t) ================= *)
Section Cubic.
  Variables (a0 a1 a2 a3 : R).
  Notation denom := (brm_denom NumR a0 a1 a2 a3).
  Notation delta := (brm_delta NumR a0 a1 a2 a3).
  Notation tau := (brm_tau NumR a0 a1 a2).
  Notation r1 := (brm_r1 NumR NumTR a0 a1 a2 a3).
  Notation r2 := (brm_r2 NumR NumTR a0 a1 a2 a3).
  Notation X := (bpoint4 NumR a0 a1 a2 a3).
  (* x'(t) *)
  Definition dX (t : R) : R := 3 * ((a1 - a0) + 2 * tau * t - denom * (t * t)).

  Lemma bpoint4_derivable t : derivable_pt_lim X t (dX t).
  Proof.
    apply is_derive_Reals. unfold bpoint4, dX, brm_tau, brm_denom. numR.
    auto_derive; [exact I|]. ring.
  Qed.

  Lemma delta_identity : delta = tau * tau + denom * (a1 - a0).
  Proof. unfold brm_delta, brm_tau, brm_denom. numR. ring. Qed.

  Lemma dX_factor t : dX t * denom = -3 * ((denom * t - tau) * (denom * t - tau) - delta).
  Proof. rewrite delta_identity. unfold dX. ring. Qed.

  Lemma cubic_roots_iff : denom <> 0 -> 0 <= delta ->
    forall t, dX t = 0 <-> (t = r1 \/ t = r2).
  Proof.
    intros Hd Hdl t. pose proof (sqrt_sqrt delta Hdl) as Hs.
    set (s := sqrt delta) in *.
    assert (F : dX t * denom = -3 * ((denom * t - tau - s) * (denom * t - tau + s))).
    { rewrite dX_factor. rewrite <- Hs. ring. }
    unfold brm_r1, brm_r2. numR. fold s. split.
    - intros H0. rewrite H0 in F.
      assert (P : (denom * t - tau - s) * (denom * t - tau + s) = 0) by lra.
      apply Rmult_integral in P. destruct P as [P|P]; [left|right]; field_simplify_eq; auto; lra.
    - assert (dX t * denom = 0 -> dX t = 0).
      { intros Q. apply Rmult_integral in Q. tauto. }
      intros [->| ->]; apply H; rewrite F; field_simplify_eq; auto; ring.
  Qed.

  Lemma cubic_no_root : delta < 0 -> forall t, dX t <> 0.
  Proof.
    intros Hdl t H0. pose proof (dX_factor t) as F. rewrite H0 in F.
    pose proof (Rle_0_sqr (denom * t - tau)) as Q. unfold Rsqr in Q. lra.
  Qed.

  (* the repaired (cancellation-free) closed form computes the same two roots,
     possibly in the other order *)
  Lemma stable_roots_perm : denom <> 0 -> 0 <= delta ->
    brm_roots NumR NumTR true a0 a1 a2 a3 = (r1, r2) \/ brm_roots NumR NumTR true a0 a1 a2 a3 = (r2, r1).
  Proof.
    intros Hd Hdl. pose proof (sqrt_sqrt delta Hdl) as Hs. pose proof (sqrt_pos delta) as Hp.
    pose proof delta_identity as DI.
    unfold brm_roots, brm_q, brm_r1, brm_r2, neqb. numR. set (s := sqrt delta) in *.
    assert (ID : (tau - s) * (tau + s) = denom * (a0 - a1)) by (rewrite <- Hs in DI; lra).
    destruct (Rle_b 0 tau) eqn:Et; [apply Rle_b_true in Et | apply Rle_b_false in Et].
    - destruct (Req_b (tau + s) 0) eqn:Eq; cbn [negb].
      + apply Req_b_true in Eq. assert (tau = 0) by lra. assert (s = 0) by lra.
        left. f_equal; field_simplify_eq; auto; lra.
      + assert (Hq : tau + s <> 0) by (intros Q; apply Req_b_true in Q; congruence).
        left. f_equal. field_simplify_eq; [lra | split; auto].
    - assert (Hq : tau - s <> 0) by lra.
      destruct (Req_b (tau - s) 0) eqn:Eq; cbn [negb]; [apply Req_b_true in Eq; contradiction|].
      right. f_equal. field_simplify_eq; [lra | split; auto].
  Qed.
  Lemma cubic_roots_gen stable : denom <> 0 -> 0 <= delta ->
    forall t, dX t = 0 <-> (t = fst (brm_roots NumR NumTR stable a0 a1 a2 a3)
                            \/ t = snd (brm_roots NumR NumTR stable a0 a1 a2 a3)).
  Proof.
    intros Hd Hdl t. rewrite (cubic_roots_iff Hd Hdl t). destruct stable.
    - destruct (stable_roots_perm Hd Hdl) as [E|E]; rewrite E; cbn [fst snd]; tauto.
    - cbn [brm_roots fst snd]. tauto.
  Qed.

  (* candidates of the closed form contain every interior critical point *)
  Lemma closed_cands_complete stable : denom <> 0 ->
    forall t, 0 < t < 1 -> dX t = 0 -> In t (tl (tl (brm_closed_cands NumR NumTR stable a0 a1 a2 a3))).
  Proof.
    intros Hd t Ht H0. unfold brm_closed_cands. cbn [app tl].
    destruct (leb NumR (zero NumR) delta) eqn:E; cbn [leb NumR zero] in E.
    - apply Rle_b_true in E. apply (cubic_roots_gen stable Hd E) in H0.
      destruct H0 as [E1|E2].
      + rewrite <- E1. rewrite (proj2 (lt01_R t) Ht). apply in_or_app; left; now left.
      + rewrite <- E2. rewrite (proj2 (lt01_R t) Ht). apply in_or_app; right; now left.
    - apply Rle_b_false in E. exfalso. exact (cubic_no_root E t H0).
  Qed.
  Lemma closed_cands_01 stable :
    forall c, In c (brm_closed_cands NumR NumTR stable a0 a1 a2 a3) -> 0 <= c <= 1.
  Proof.
    intros c. unfold brm_closed_cands. cbn [app In]. change (zero NumR) with 0. change (one NumR) with 1.
    intros [<-|[<-|H]]; try lra.
    destruct (leb NumR 0 delta); [|destruct H].
    apply in_app_or in H. destruct H as [H|H].
    - destruct (lt01 NumR (fst (brm_roots NumR NumTR stable a0 a1 a2 a3))) eqn:E; [|destruct H].
      destruct H as [<-|[]]. apply lt01_R in E. lra.
    - destruct (lt01 NumR (snd (brm_roots NumR NumTR stable a0 a1 a2 a3))) eqn:E; [|destruct H].
      destruct H as [<-|[]]. apply lt01_R in E. lra.
  Qed.

  (* coefficients of the polynomial handed to np.roots when denom = 0
     (bezier2polynomial(a).deriv(); poly1d strips leading zeros, which does
     not change the function) *)
  Definition cubic_coeffs : list R :=
    [(- a0 + 3 * (a1 - a2)) + a3; 3 * ((a0 - 2 * a1) + a2); 3 * (a1 - a0); a0].
  Lemma cubic_coeffs_eval t : peval NumR cubic_coeffs t = X t.
  Proof. unfold cubic_coeffs, peval, bpoint4. cbn [fold_left]. numR. ring. Qed.
  Lemma cubic_dcoeffs_eval t : peval NumR (pderiv NumR cubic_coeffs) t = dX t.
  Proof. unfold cubic_coeffs, peval, dX, brm_tau, brm_denom. cbn. ring. Qed.

  Variables (stable fixed : bool) (atol rtol : R) (roots : list (Cplx R)).
  Hypothesis Hatol : 0 < atol.
  Hypothesis Hrtol : 0 <= rtol.
  Definition coord_ok : Prop :=
    denom <> 0 \/ (oracle_ok (pderiv NumR cubic_coeffs) roots /\ separated fixed atol rtol (le01 NumR) roots).

  Lemma brm_cands_shape :
    exists cs, brm_cands NumR NumTR stable fixed atol rtol a0 a1 a2 a3 roots = 0 :: 1 :: cs.
  Proof.
    unfold brm_cands. destruct (neqb NumR denom (zero NumR)).
    - unfold brm_closed_cands. cbn [app]. eexists; reflexivity.
    - cbn [app]. eexists; reflexivity.
  Qed.

  Lemma brm_cands_complete : coord_ok ->
    (exists s, dX s <> 0) -> forall t, 0 < t < 1 -> dX t = 0 ->
    In t (tl (tl (brm_cands NumR NumTR stable fixed atol rtol a0 a1 a2 a3 roots))).
  Proof.
    intros Hok Hnz t Ht H0. unfold brm_cands, neqb. numR.
    destruct (Req_b denom 0) eqn:E; cbn [negb].
    - apply Req_b_true in E. destruct Hok as [Hd|[Hor Hsep]]; [contradiction|].
      cbn [app tl]. apply polyroots_complete; auto.
      + apply Hor; [| lra | now rewrite cubic_dcoeffs_eval].
        destruct Hnz as (s & Hs). exists s. now rewrite cubic_dcoeffs_eval.
      + apply le01_R. lra.
    - assert (Hd : denom <> 0) by (intros Q; apply Req_b_true in Q; congruence).
      apply closed_cands_complete; auto.
  Qed.
  Lemma brm_cands_01 : forall c, In c (brm_cands NumR NumTR stable fixed atol rtol a0 a1 a2 a3 roots) -> 0 <= c <= 1.
  Proof.
    intros c. unfold brm_cands. destruct (neqb NumR denom (zero NumR)).
    - apply closed_cands_01.
    - cbn [app In]. numR. intros [<-|[<-|H]]; try lra.
      apply polyroots_sound in H. destruct H as [H _]. apply le01_R in H. exact H.
  Qed.

  Lemma brm_contains : coord_ok -> forall t, 0 <= t <= 1 ->
    let '(mn, mx) := bezier_real_minmax4 NumR NumTR stable fixed atol rtol a0 a1 a2 a3 roots in mn <= X t <= mx.
  Proof.
    intros Hok t Ht. unfold bezier_real_minmax4.
    destruct brm_cands_shape as (cs & E). pose proof (brm_cands_complete Hok) as Hc.
    rewrite E in *. cbn [tl map] in *.
    apply (@extreme_at_candidates_nz X dX bpoint4_derivable cs); auto.
  Qed.
  Lemma brm_tight :
    let '(mn, mx) := bezier_real_minmax4 NumR NumTR stable fixed atol rtol a0 a1 a2 a3 roots in
    (exists t, 0 <= t <= 1 /\ mn = X t) /\ (exists t, 0 <= t <= 1 /\ mx = X t).
  Proof.
    unfold bezier_real_minmax4. pose proof brm_cands_01 as H01.
    destruct brm_cands_shape as (cs & E). rewrite E in *.
    assert (Hne : 0 :: 1 :: cs <> []) by congruence. split.
    - destruct (lmin_map_attained X Hne) as (c & Hc & Ec). exists c; split; auto.
    - destruct (lmax_map_attained X Hne) as (c & Hc & Ec). exists c; split; auto.
  Qed.
End Cubic.

(* ================= generic polynomial path (quadratics, as coded) ================= *)
Section PolyPath.
  Variables (fixed : bool) (atol rtol : R) (p : list R) (roots : list (Cplx R)).
  Hypothesis Hatol : 0 < atol.
  Hypothesis Hrtol : 0 <= rtol.
  Definition poly_ok : Prop :=
    oracle_ok (pderiv NumR p) roots /\ separated fixed atol rtol (lt01 NumR) roots.

  Lemma poly_contains : poly_ok -> forall t, 0 <= t <= 1 ->
    let '(mn, mx) := poly_minmax NumR fixed atol rtol p roots in mn <= peval NumR p t <= mx.
  Proof.
    intros [Hor Hsep] t Ht. unfold poly_minmax. cbn [app map].
    apply (@extreme_at_candidates_nz (peval NumR p) (peval NumR (pderiv NumR p)) (peval_derivable p)); auto.
    intros Hnz u Hu H0. apply polyroots_complete; auto.
    - apply Hor; auto. lra.
    - now apply lt01_R.
  Qed.
  Lemma poly_tight :
    let '(mn, mx) := poly_minmax NumR fixed atol rtol p roots in
    (exists t, 0 <= t <= 1 /\ mn = peval NumR p t) /\ (exists t, 0 <= t <= 1 /\ mx = peval NumR p t).
  Proof.
    unfold poly_minmax. cbn [app].
    set (cs := polyroots_open01 NumR atol rtol fixed roots).
    assert (H01 : forall c, In c (zero NumR :: one NumR :: cs) -> 0 <= c <= 1).
    { intros c [<-|[<-|H]]; numR; try lra. apply polyroots_sound in H. destruct H as [H _].
      apply lt01_R in H. lra. }
    assert (Hne : zero NumR :: one NumR :: cs <> []) by congruence. split.
    - destruct (lmin_map_attained (peval NumR p) Hne) as (c & Hc & Ec). exists c; split; auto.
    - destruct (lmax_map_attained (peval NumR p) Hne) as (c & Hc & Ec). exists c; split; auto.
  Qed.
End PolyPath.

(* ================= the segment classes ================= *)
Lemma cubic_point_re s c1 c2 e t :
  re (cubic_point NumR s c1 c2 e t) = bpoint4 NumR (re s) (re c1) (re c2) (re e) t.
Proof. destruct s, c1, c2, e. unfold cubic_point, bpoint4. cunfold. numR. ring. Qed.
Lemma cubic_point_im s c1 c2 e t :
  im (cubic_point NumR s c1 c2 e t) = bpoint4 NumR (im s) (im c1) (im c2) (im e) t.
Proof. destruct s, c1, c2, e. unfold cubic_point, bpoint4. cunfold. numR. ring. Qed.
Lemma quad_point_re s c e t :
  re (quad_point NumR s c e t) = peval NumR (quad_coeffs NumR (re s) (re c) (re e)) t.
Proof. destruct s, c, e. unfold quad_point, quad_coeffs, peval. cbn [fold_left]. cunfold. numR. ring. Qed.
Lemma quad_point_im s c e t :
  im (quad_point NumR s c e t) = peval NumR (quad_coeffs NumR (im s) (im c) (im e)) t.
Proof. destruct s, c, e. unfold quad_point, quad_coeffs, peval. cbn [fold_left]. cunfold. numR. ring. Qed.

Section Segments.
  Variables (stable fixed : bool) (atol rtol : R).
  Hypothesis Hatol : 0 < atol.
  Hypothesis Hrtol : 0 <= rtol.

  Theorem cubic_bbox_contains p0 p1 p2 p3 rx ry :
    coord_ok (re p0) (re p1) (re p2) (re p3) fixed atol rtol rx ->
    coord_ok (im p0) (im p1) (im p2) (im p3) fixed atol rtol ry ->
    forall t, 0 <= t <= 1 ->
    let '(xmin, xmax, ymin, ymax) := cubic_bbox NumR NumTR stable fixed atol rtol p0 p1 p2 p3 rx ry in
    xmin <= re (cubic_point NumR p0 p1 p2 p3 t) <= xmax /\
    ymin <= im (cubic_point NumR p0 p1 p2 p3 t) <= ymax.
  Proof.
    intros Hx Hy t Ht. unfold cubic_bbox.
    pose proof (brm_contains _ _ _ _ stable _ _ _ _ Hatol Hrtol Hx t Ht) as Bx.
    pose proof (brm_contains _ _ _ _ stable _ _ _ _ Hatol Hrtol Hy t Ht) as By.
    destruct (bezier_real_minmax4 NumR NumTR stable fixed atol rtol (re p0) (re p1) (re p2) (re p3) rx) as [xmin xmax].
    destruct (bezier_real_minmax4 NumR NumTR stable fixed atol rtol (im p0) (im p1) (im p2) (im p3) ry) as [ymin ymax].
    rewrite cubic_point_re, cubic_point_im. tauto.
  Qed.
  Theorem cubic_bbox_tight p0 p1 p2 p3 rx ry :
    let '(xmin, xmax, ymin, ymax) := cubic_bbox NumR NumTR stable fixed atol rtol p0 p1 p2 p3 rx ry in
    (exists t, 0 <= t <= 1 /\ xmin = re (cubic_point NumR p0 p1 p2 p3 t)) /\
    (exists t, 0 <= t <= 1 /\ xmax = re (cubic_point NumR p0 p1 p2 p3 t)) /\
    (exists t, 0 <= t <= 1 /\ ymin = im (cubic_point NumR p0 p1 p2 p3 t)) /\
    (exists t, 0 <= t <= 1 /\ ymax = im (cubic_point NumR p0 p1 p2 p3 t)).
  Proof.
    unfold cubic_bbox.
    pose proof (brm_tight (re p0) (re p1) (re p2) (re p3) stable fixed atol rtol rx) as Bx.
    pose proof (brm_tight (im p0) (im p1) (im p2) (im p3) stable fixed atol rtol ry) as By.
    destruct (bezier_real_minmax4 NumR NumTR stable fixed atol rtol (re p0) (re p1) (re p2) (re p3) rx) as [xmin xmax].
    destruct (bezier_real_minmax4 NumR NumTR stable fixed atol rtol (im p0) (im p1) (im p2) (im p3) ry) as [ymin ymax].
    destruct Bx as [(t1 & H1 & E1) (t2 & H2 & E2)]. destruct By as [(t3 & H3 & E3) (t4 & H4 & E4)].
    repeat split; [exists t1|exists t2|exists t3|exists t4]; rewrite ?cubic_point_re, ?cubic_point_im; auto.
  Qed.

  Theorem quad_bbox_contains p0 p1 p2 rx ry :
    poly_ok fixed atol rtol (quad_coeffs NumR (re p0) (re p1) (re p2)) rx ->
    poly_ok fixed atol rtol (quad_coeffs NumR (im p0) (im p1) (im p2)) ry ->
    forall t, 0 <= t <= 1 ->
    let '(xmin, xmax, ymin, ymax) := quad_bbox NumR fixed atol rtol p0 p1 p2 rx ry in
    xmin <= re (quad_point NumR p0 p1 p2 t) <= xmax /\
    ymin <= im (quad_point NumR p0 p1 p2 t) <= ymax.
  Proof.
    intros Hx Hy t Ht. unfold quad_bbox, poly_bbox.
    pose proof (poly_contains _ _ _ _ _ Hatol Hrtol Hx t Ht) as Bx.
    pose proof (poly_contains _ _ _ _ _ Hatol Hrtol Hy t Ht) as By.
    destruct (poly_minmax NumR fixed atol rtol (quad_coeffs NumR (re p0) (re p1) (re p2)) rx) as [xmin xmax].
    destruct (poly_minmax NumR fixed atol rtol (quad_coeffs NumR (im p0) (im p1) (im p2)) ry) as [ymin ymax].
    rewrite quad_point_re, quad_point_im. tauto.
  Qed.
  Theorem quad_bbox_tight p0 p1 p2 rx ry :
    let '(xmin, xmax, ymin, ymax) := quad_bbox NumR fixed atol rtol p0 p1 p2 rx ry in
    (exists t, 0 <= t <= 1 /\ xmin = re (quad_point NumR p0 p1 p2 t)) /\
    (exists t, 0 <= t <= 1 /\ xmax = re (quad_point NumR p0 p1 p2 t)) /\
    (exists t, 0 <= t <= 1 /\ ymin = im (quad_point NumR p0 p1 p2 t)) /\
    (exists t, 0 <= t <= 1 /\ ymax = im (quad_point NumR p0 p1 p2 t)).
  Proof.
    unfold quad_bbox, poly_bbox.
    pose proof (poly_tight fixed atol rtol (quad_coeffs NumR (re p0) (re p1) (re p2)) rx) as Bx.
    pose proof (poly_tight fixed atol rtol (quad_coeffs NumR (im p0) (im p1) (im p2)) ry) as By.
    destruct (poly_minmax NumR fixed atol rtol (quad_coeffs NumR (re p0) (re p1) (re p2)) rx) as [xmin xmax].
    destruct (poly_minmax NumR fixed atol rtol (quad_coeffs NumR (im p0) (im p1) (im p2)) ry) as [ymin ymax].
    destruct Bx as [(t1 & H1 & E1) (t2 & H2 & E2)]. destruct By as [(t3 & H3 & E3) (t4 & H4 & E4)].
    repeat split; [exists t1|exists t2|exists t3|exists t4]; rewrite ?quad_point_re, ?quad_point_im; auto.
  Qed.
End Segments.

(* ================= Path.bbox: any carrier with a sane order ================= *)
Section PathBox.
  Context {K : Type} (N : Num K) (OK : OrdOK N).
  Notation bx := (K * K * K * K)%type.
  Definition b_xmin (b : bx) := fst (fst (fst b)).
  Definition b_xmax (b : bx) := snd (fst (fst b)).
  Definition b_ymin (b : bx) := snd (fst b).
  Definition b_ymax (b : bx) := snd b.

  (* the path box contains every segment box ... *)
  Theorem path_bbox_union bbs b : In b bbs ->
    nle N (b_xmin (path_bbox N bbs)) (b_xmin b) /\ nle N (b_xmax b) (b_xmax (path_bbox N bbs)) /\
    nle N (b_ymin (path_bbox N bbs)) (b_ymin b) /\ nle N (b_ymax b) (b_ymax (path_bbox N bbs)).
  Proof.
    intros Hb. unfold path_bbox, b_xmin, b_xmax, b_ymin, b_ymax. cbn [fst snd]. repeat split.
    - apply (lmin_le OK). apply (in_map (fun b => fst (fst (fst b)))); exact Hb.
    - apply (lmax_ge OK). apply (in_map (fun b => snd (fst (fst b)))); exact Hb.
    - apply (lmin_le OK). apply (in_map (fun b => snd (fst b))); exact Hb.
    - apply (lmax_ge OK). apply (in_map (fun b => snd b)); exact Hb.
  Qed.
  (* ... and each of its sides is that side of some segment box *)
  Theorem path_bbox_sides bbs : bbs <> [] ->
    (exists b, In b bbs /\ b_xmin (path_bbox N bbs) = b_xmin b) /\
    (exists b, In b bbs /\ b_xmax (path_bbox N bbs) = b_xmax b) /\
    (exists b, In b bbs /\ b_ymin (path_bbox N bbs) = b_ymin b) /\
    (exists b, In b bbs /\ b_ymax (path_bbox N bbs) = b_ymax b).
  Proof.
    intros Hne. unfold path_bbox, b_xmin, b_xmax, b_ymin, b_ymax. cbn [fst snd].
    assert (M : forall (g : bx -> K), map g bbs <> []) by (intros g; destruct bbs; cbn; congruence).
    repeat split.
    - pose proof (lmin_in OK (M (fun b => fst (fst (fst b))))) as H. apply in_map_iff in H.
      destruct H as (b & E & Hb). exists b; split; auto.
    - pose proof (lmax_in OK (M (fun b => snd (fst (fst b))))) as H. apply in_map_iff in H.
      destruct H as (b & E & Hb). exists b; split; auto.
    - pose proof (lmin_in OK (M (fun b => snd (fst b)))) as H. apply in_map_iff in H.
      destruct H as (b & E & Hb). exists b; split; auto.
    - pose proof (lmax_in OK (M (fun b => snd b))) as H. apply in_map_iff in H.
      destruct H as (b & E & Hb). exists b; split; auto.
  Qed.
End PathBox.

(* over R: if every segment box contains its curve and is tight, so is the path box *)
Definition box_contains (b : R * R * R * R) (z : Cplx R) : Prop :=
  b_xmin b <= re z <= b_xmax b /\ b_ymin b <= im z <= b_ymax b.
Definition box_tight (b : R * R * R * R) (curve : R -> Cplx R) : Prop :=
  (exists t, 0 <= t <= 1 /\ b_xmin b = re (curve t)) /\ (exists t, 0 <= t <= 1 /\ b_xmax b = re (curve t)) /\
  (exists t, 0 <= t <= 1 /\ b_ymin b = im (curve t)) /\ (exists t, 0 <= t <= 1 /\ b_ymax b = im (curve t)).

Theorem path_bbox_contains_tight (segs : list ((R -> Cplx R) * (R * R * R * R))) :
  segs <> [] ->
  (forall c b, In (c, b) segs -> (forall t, 0 <= t <= 1 -> box_contains b (c t)) /\ box_tight b c) ->
  let pb := path_bbox NumR (map snd segs) in
  (forall c b t, In (c, b) segs -> 0 <= t <= 1 -> box_contains pb (c t)) /\
  (exists c b t, In (c, b) segs /\ 0 <= t <= 1 /\ b_xmin pb = re (c t)) /\
  (exists c b t, In (c, b) segs /\ 0 <= t <= 1 /\ b_xmax pb = re (c t)) /\
  (exists c b t, In (c, b) segs /\ 0 <= t <= 1 /\ b_ymin pb = im (c t)) /\
  (exists c b t, In (c, b) segs /\ 0 <= t <= 1 /\ b_ymax pb = im (c t)).
Proof.
  intros Hne H pb.
  assert (Hne' : map snd segs <> []) by (destruct segs; cbn; congruence).
  split.
  - intros c b t Hin Ht. destruct (H c b Hin) as [Hc _]. specialize (Hc t Ht).
    destruct (path_bbox_union NumR OrdOK_R (map snd segs) b) as (U1 & U2 & U3 & U4).
    { apply in_map_iff. exists (c, b). auto. }
    apply nle_R in U1, U2, U3, U4. unfold box_contains in *. fold pb in U1, U2, U3, U4. lra.
  - destruct (path_bbox_sides NumR OrdOK_R _ Hne') as (S1 & S2 & S3 & S4). fold pb in S1, S2, S3, S4.
    repeat split.
    + destruct S1 as (b & Hb & E). apply in_map_iff in Hb. destruct Hb as ([c b'] & <- & Hin).
      destruct (H c b' Hin) as [_ ((t & Ht & Et) & _)]. exists c, b', t. cbn [snd] in *. rewrite E. auto.
    + destruct S2 as (b & Hb & E). apply in_map_iff in Hb. destruct Hb as ([c b'] & <- & Hin).
      destruct (H c b' Hin) as [_ (_ & (t & Ht & Et) & _)]. exists c, b', t. cbn [snd] in *. rewrite E. auto.
    + destruct S3 as (b & Hb & E). apply in_map_iff in Hb. destruct Hb as ([c b'] & <- & Hin).
      destruct (H c b' Hin) as [_ (_ & _ & (t & Ht & Et) & _)]. exists c, b', t. cbn [snd] in *. rewrite E. auto.
    + destruct S4 as (b & Hb & E). apply in_map_iff in Hb. destruct Hb as ([c b'] & <- & Hin).
      destruct (H c b' Hin) as [_ (_ & _ & _ & (t & Ht & Et))]. exists c, b', t. cbn [snd] in *. rewrite E. auto.
Qed.
