(* Proofs/XformArcR.v — arcs over the reals (NumR / NumTR): translate, rotate and
   uniform scale of an Arc commute with point(t); non-uniform scale is refused.

   The kernels of the code pass the STORED radius (curve.radius, already made
   positive and possibly enlarged by the constructor) to a new constructor call;
   arc_reinit shows that re-running the constructor on its own stored radius
   reproduces the arc.  Translation and rotation then follow from the generic
   equivariance of XformArcAlg.v (the addition formulas give rot_matrix' =
   rot_matrix * exp(i degs)).  Uniform scaling by sx <> 0 (negative included) is
   proved on the formulas of _parameterize: zp1, c' scale by sx, the radii by
   |sx|, radius check / radicand / radical are unchanged, u1 and u2 are multiplied
   by sign(sx) — so delta is unchanged and theta moves by 180 degrees when sx < 0,
   which the factor |sx| = -sx of the radii compensates in point(t). *)
From Coq Require Import Reals Lra Lia ZArith List Bool.
From Coquelicot Require Import Coquelicot.
From SVP Require Import Base.Num Base.Cplx Base.FieldTac Model.Bezier Model.Arc Model.Xform
     Proofs.ArcR Proofs.XformArcAlg.
Import ListNotations.
Local Open Scope R_scope.

Local Notation C := (Cplx R).

(* ------------------------------------------------------------------ *)
(* rot_matrix of rotation + degs                                          *)
(* ------------------------------------------------------------------ *)
Lemma rotm_add rot degs :
  arc_rotm_of NumTR (add NumR rot degs) = cmul NumR (arc_rotm_of NumTR rot) (cs_of_degs NumTR degs).
Proof.
  unfold arc_rotm_of, arc_rotm, arc_phi, cs_of_degs. rsimp.
  replace ((rot + degs) * PI / 180) with (rot * PI / 180 + degs * PI / 180) by field.
  rewrite cos_plus, sin_plus. apply cplx_eq; cbn [fst snd]; ring.
Qed.
Lemma cs_unit degs : cnorm2 NumR (cs_of_degs NumTR degs) = 1.
Proof.
  unfold cs_of_degs. rsimp. pose proof (sin2_cos2 (degs * PI / 180)) as H. unfold Rsqr in H. lra.
Qed.
Lemma rotm_unit' rot : cnorm2 NumR (arc_rotm_of NumTR rot) = 1.
Proof.
  unfold arc_rotm_of, arc_rotm, arc_phi. rsimp.
  pose proof (sin2_cos2 (rot * PI / 180)) as H. unfold Rsqr in H. lra.
Qed.

(* ------------------------------------------------------------------ *)
(* re-running the constructor on the stored radius                       *)
(* ------------------------------------------------------------------ *)
Section Reinit.
  Variables start radius end_ : C.
  Variable rotation : R.
  Variables large sweep : bool.
  Hypothesis Hse : start <> end_.
  Hypothesis Hrx0 : fst radius <> 0.
  Hypothesis Hry0 : snd radius <> 0.
  Let rS := arc_radius_of NumR NumTR start radius rotation end_.

  Lemma rS_nz : fst rS <> 0 /\ snd rS <> 0.
  Proof. destruct (rS_pos start radius end_ rotation Hrx0 Hry0) as [A B]. fold rS in A, B. split; lra. Qed.

  Lemma radius_of_stored : arc_radius_of NumR NumTR start rS rotation end_ = rS.
  Proof.
    destruct (rS_pos start radius end_ rotation Hrx0 Hry0) as [A B]. fold rS in A, B.
    pose proof (rcS_le1 start radius end_ rotation Hse Hrx0 Hry0) as Hle. fold rS in Hle.
    unfold arc_radius_of at 1, arc_rc_of.
    assert (Ha : abs_radius NumR rS = rS).
    { unfold abs_radius. rsimp. rewrite !nabs_R, !Rabs_right by lra. now destruct rS. }
    rewrite Ha. unfold arc_rc in *. unfold arc_scaled_radius.
    cbn [re im fst snd] in *. cbn [ltb one NumR].
    rewrite Rlt_b_f; [reflexivity|]. rsimp. lra.
  Qed.

  Theorem arc_reinit :
    arc_init NumR NumTR start rS rotation large sweep end_
    = arc_init NumR NumTR start radius rotation large sweep end_.
  Proof.
    assert (Hd : arc_radicand_of NumR NumTR start rS rotation end_
                 = arc_radicand_of NumR NumTR start radius rotation end_).
    { unfold arc_radicand_of. now rewrite radius_of_stored. }
    assert (Hk : arc_radical_of NumR NumTR false start rS rotation end_
                 = arc_radical_of NumR NumTR false start radius rotation end_).
    { unfold arc_radical_of, arc_radical. now rewrite Hd. }
    assert (Hc : arc_cp_of NumR NumTR false start rS rotation large sweep end_
                 = arc_cp_of NumR NumTR false start radius rotation large sweep end_).
    { unfold arc_cp_of. now rewrite Hk, radius_of_stored. }
    unfold arc_init, arc_init_v, arc_u1_of, arc_u2_of.
    now rewrite Hc, radius_of_stored.
  Qed.
End Reinit.

(* ------------------------------------------------------------------ *)
(* translate and rotate                                                  *)
(* ------------------------------------------------------------------ *)
Section TR.
  Variables start radius end_ : C.
  Variable rotation : R.
  Variables large sweep : bool.
  Hypothesis Hse : start <> end_.
  Hypothesis Hrx0 : fst radius <> 0.
  Hypothesis Hry0 : snd radius <> 0.
  Let P := arc_init NumR NumTR start radius rotation large sweep end_.

  Theorem arc_translate_point z0 t :
    arc_point NumR NumTR (arc_translate NumR NumTR z0 P) t = cadd NumR (arc_point NumR NumTR P t) z0.
  Proof.
    unfold arc_translate. change (a_start P) with start. change (a_end P) with end_.
    change (a_rotation P) with rotation. change (a_large P) with large. change (a_sweep P) with sweep.
    change (a_radius P) with (arc_radius_of NumR NumTR start radius rotation end_).
    rewrite (arc_init_translate NumR NumR_ok NumTR).
    now rewrite (arc_reinit start radius end_ rotation large sweep Hse Hrx0 Hry0).
  Qed.

  Theorem arc_rotate_point degs origin t :
    arc_point NumR NumTR (arc_rotate NumR NumTR degs (cs_of_degs NumTR degs) origin P) t
    = rotate_point NumR (cs_of_degs NumTR degs) origin (arc_point NumR NumTR P t).
  Proof.
    unfold arc_rotate. change (a_start P) with start. change (a_end P) with end_.
    change (a_rotation P) with rotation. change (a_large P) with large. change (a_sweep P) with sweep.
    change (a_radius P) with (arc_radius_of NumR NumTR start radius rotation end_).
    rewrite (arc_init_rotate NumR NumR_ok NumTR rotation degs (cs_of_degs NumTR degs)).
    - now rewrite (arc_reinit start radius end_ rotation large sweep Hse Hrx0 Hry0).
    - apply rotm_add.
    - rewrite cs_unit. cbn. lra.
    - rewrite rotm_unit'. cbn. lra.
  Qed.
End TR.

(* ------------------------------------------------------------------ *)
(* uniform scale                                                         *)
(* ------------------------------------------------------------------ *)
(* angle of the opposite vector *)
Lemma ang_opp x y : (x <> 0 \/ y <> 0) ->
  cos (ang (- x) (- y)) = - cos (ang x y) /\ sin (ang (- x) (- y)) = - sin (ang x y).
Proof.
  intros Hnz. unfold ang, Rlt_b.
  destruct (Rlt_dec 0 y) as [Hy|Hy].
  { destruct (Rlt_dec 0 (- y)); [lra|]. destruct (Rlt_dec (- y) 0); [|lra].
    rewrite acos_opp. replace (- (PI - acos x)) with (acos x - PI) by ring.
    rewrite cos_minus, sin_minus, cos_PI, sin_PI. split; ring. }
  destruct (Rlt_dec y 0) as [Hy'|Hy'].
  { destruct (Rlt_dec 0 (- y)); [|lra].
    rewrite acos_opp. rewrite cos_minus, sin_minus, cos_PI, sin_PI, cos_neg, sin_neg. split; ring. }
  assert (y = 0) by lra. subst y. rewrite Ropp_0.
  destruct (Rlt_dec 0 0); [lra|].
  assert (Hx : x <> 0) by (destruct Hnz; [assumption|contradiction]).
  destruct (Rlt_dec 0 x); destruct (Rlt_dec 0 (- x)); try lra;
    rewrite ?cos_0, ?sin_0, ?cos_PI, ?sin_PI; split; ring.
Qed.

(* point(t) from the derived attributes when radii scale by a > 0 and the start
   angle's cosine / sine are multiplied by sg (sg * a = sx) *)
Lemma arc_point_scaled (P P' : ArcP R) (a sg : R) (o : C) t :
  a_radius P' = cscale NumR a (a_radius P) -> a_rot P' = a_rot P -> a_delta P' = a_delta P ->
  cos (a_theta P' * PI / 180) = sg * cos (a_theta P * PI / 180) ->
  sin (a_theta P' * PI / 180) = sg * sin (a_theta P * PI / 180) ->
  a_center P' = cadd NumR (cscale NumR (sg * a) (csub NumR (a_center P) o)) o ->
  arc_point NumR NumTR P' t
  = cadd NumR (cscale NumR (sg * a) (csub NumR (arc_point NumR NumTR P t) o)) o.
Proof.
  intros Hr Hm Hd Hc Hs Hctr. unfold arc_point. rewrite Hr, Hm, Hd, Hctr. rsimp.
  replace ((a_theta P' + t * a_delta P) * PI / 180)
    with (a_theta P' * PI / 180 + t * a_delta P * PI / 180) by field.
  replace ((a_theta P + t * a_delta P) * PI / 180)
    with (a_theta P * PI / 180 + t * a_delta P * PI / 180) by field.
  rewrite !cos_plus, !sin_plus, Hc, Hs.
  apply cplx_eq; cbn [fst snd]; ring.
Qed.

Section Scale.
  Variables start radius end_ : C.
  Variable rotation : R.
  Variables large sweep : bool.
  Hypothesis Hse : start <> end_.
  Hypothesis Hrx0 : fst radius <> 0.
  Hypothesis Hry0 : snd radius <> 0.
  Variables (sx : R) (o : C).
  Hypothesis Hsx : sx <> 0.

  Let Sc (z : C) : C := cadd NumR (cscale NumR sx (csub NumR z o)) o.
  Let start' := Sc start.
  Let end' := Sc end_.
  Let radius' := cscale NumR sx radius.

  (* a = |sx|, sg = sign sx *)
  Let a := Rabs sx.
  Let sg := sx / Rabs sx.
  Lemma a_pos : 0 < a.  Proof. apply Rabs_pos_lt, Hsx. Qed.
  Lemma sg_cases : (sg = 1 /\ a = sx) \/ (sg = -1 /\ a = - sx).
  Proof.
    unfold sg, a. destruct (Rlt_dec 0 sx).
    - left. rewrite Rabs_right by lra. split; [field; lra|reflexivity].
    - right. rewrite Rabs_left by lra. split; [field; lra|reflexivity].
  Qed.
  Lemma sg_a : sg * a = sx.
  Proof. destruct sg_cases as [[-> ->]|[-> ->]]; ring. Qed.

  Lemma Hse' : start' <> end'.
  Proof.
    intros E. apply Hse. unfold start', end', Sc in E. destruct start, end_, o.
    revert E. rsimp. intros E. injection E as E1 E2.
    apply cplx_eq; cbn [fst snd]; nra.
  Qed.
  Lemma Hrx0' : fst radius' <> 0.
  Proof. unfold radius'. rsimp. nra. Qed.
  Lemma Hry0' : snd radius' <> 0.
  Proof. unfold radius'. rsimp. nra. Qed.

  Let z := arc_zp1_of NumR NumTR start rotation end_.
  Let z' := arc_zp1_of NumR NumTR start' rotation end'.
  Let rS := arc_radius_of NumR NumTR start radius rotation end_.
  Let rS' := arc_radius_of NumR NumTR start' radius' rotation end'.
  Let cp := arc_cp_of NumR NumTR false start radius rotation large sweep end_.
  Let cp' := arc_cp_of NumR NumTR false start' radius' rotation large sweep end'.
  Let u1 := arc_u1_of NumR NumTR false start radius rotation large sweep end_.
  Let u2 := arc_u2_of NumR NumTR false start radius rotation large sweep end_.
  Let u1' := arc_u1_of NumR NumTR false start' radius' rotation large sweep end'.
  Let u2' := arc_u2_of NumR NumTR false start' radius' rotation large sweep end'.
  Let P := arc_init NumR NumTR start radius rotation large sweep end_.
  Let P' := arc_init NumR NumTR start' radius' rotation large sweep end'.

  Lemma z_scale : z' = cscale NumR sx z.
  Proof.
    unfold z', z, arc_zp1_of, arc_zp1, start', end', Sc.
    pose proof (rotm_unit' rotation) as Hu. revert Hu.
    generalize (arc_rotm_of NumTR rotation). intros m Hu.
    destruct start, end_, o, m. revert Hu. rsimp. intros Hu.
    apply cplx_eq; cbn [fst snd]; field; lra.
  Qed.

  Lemma z_pos : 0 < fst z * fst z + snd z * snd z.
  Proof. apply (z_nonzero start end_ rotation Hse). Qed.

  Lemma r0_scale : abs_radius NumR radius' = cscale NumR a (abs_radius NumR radius).
  Proof. unfold abs_radius, radius', a. rsimp. now rewrite !nabs_R, !Rabs_mult. Qed.
  Lemma r0_pos' : 0 < fst (abs_radius NumR radius) /\ 0 < snd (abs_radius NumR radius).
  Proof. unfold abs_radius. rsimp. rewrite !nabs_R. split; apply Rabs_pos_lt; assumption. Qed.

  Lemma rc_scale_eq : arc_rc_of NumR NumTR start' radius' rotation end'
                      = arc_rc_of NumR NumTR start radius rotation end_.
  Proof.
    unfold arc_rc_of. fold z z'. rewrite z_scale, r0_scale.
    destruct r0_pos' as [A B]. pose proof a_pos as Ha.
    unfold arc_rc. rsimp.
    destruct sg_cases as [[_ E]|[_ E]]; rewrite E in *; field; lra.
  Qed.

  Lemma rS_scale : rS' = cscale NumR a rS.
  Proof.
    unfold rS', rS, arc_radius_of. rewrite rc_scale_eq, r0_scale.
    unfold arc_scaled_radius. rsimp.
    destruct (Rlt_b 1 _); apply cplx_eq; cbn [fst snd]; ring.
  Qed.

  Lemma rS_pos2 : 0 < fst rS /\ 0 < snd rS.
  Proof. apply (rS_pos start radius end_ rotation Hrx0 Hry0). Qed.

  Lemma radicand_scale : arc_radicand_of NumR NumTR start' radius' rotation end'
                         = arc_radicand_of NumR NumTR start radius rotation end_.
  Proof.
    unfold arc_radicand_of. fold z z' rS rS'. rewrite z_scale, rS_scale.
    destruct rS_pos2 as [A B]. pose proof a_pos as Ha. pose proof z_pos as Hz.
    pose proof (tmpR_pos (fst rS) (snd rS) (fst z) (snd z) A B Hz) as Ht. unfold tmpR in Ht.
    unfold arc_radicand. rsimp.
    pose proof (sq_pos_nz sx Hsx) as Hs2.
    assert (Hs4 : 0 < sx * sx * (sx * sx)) by nra.
    destruct sg_cases as [[_ E]|[_ E]]; rewrite E in *; field; (split; [lra|]).
    all: match goal with |- ?e <> 0 =>
           replace e with (sx * sx * (sx * sx) *
             (fst rS * fst rS * (snd z * snd z) + snd rS * snd rS * (fst z * fst z))) by ring end.
    all: apply Rgt_not_eq, Rlt_gt, Rmult_lt_0_compat; assumption.
  Qed.

  Lemma radical_scale : arc_radical_of NumR NumTR false start' radius' rotation end'
                        = arc_radical_of NumR NumTR false start radius rotation end_.
  Proof. unfold arc_radical_of, arc_radical. now rewrite radicand_scale. Qed.

  Lemma cp_scale : cp' = cscale NumR sx cp.
  Proof.
    unfold cp', cp, arc_cp_of. rewrite radical_scale. fold z z' rS rS'. rewrite z_scale, rS_scale.
    destruct rS_pos2 as [A B]. pose proof a_pos as Ha.
    unfold arc_cp. destruct (Bool.eqb large sweep); rsimp;
      destruct sg_cases as [[_ E]|[_ E]]; rewrite E in *;
      apply cplx_eq; cbn [fst snd]; field; lra.
  Qed.

  Lemma center_scale :
    a_center P' = Sc (a_center P).
  Proof.
    unfold P', P, arc_init, arc_init_v. cbn [a_center]. fold cp cp'. rewrite cp_scale.
    unfold arc_center, start', end', Sc.
    generalize (arc_rotm NumTR (arc_phi NumTR rotation)). intros m.
    destruct start, end_, o, m, cp. rsimp. apply cplx_eq; cbn [fst snd]; field.
  Qed.

  Lemma u1_eq : u1 = arc_u1_raw NumR (fst rS, snd rS) (fst z, snd z) cp.
  Proof. apply (u1_noclip start radius end_ rotation large sweep false Hse Hrx0 Hry0). Qed.
  Lemma u2_eq : u2 = arc_u2_raw NumR (fst rS, snd rS) (fst z, snd z) cp.
  Proof. apply (u2_noclip start radius end_ rotation large sweep false Hse Hrx0 Hry0). Qed.
  Lemma u1_eq' : u1' = arc_u1_raw NumR (fst rS', snd rS') (fst z', snd z') cp'.
  Proof. apply (u1_noclip start' radius' end' rotation large sweep false Hse' Hrx0' Hry0'). Qed.
  Lemma u2_eq' : u2' = arc_u2_raw NumR (fst rS', snd rS') (fst z', snd z') cp'.
  Proof. apply (u2_noclip start' radius' end' rotation large sweep false Hse' Hrx0' Hry0'). Qed.

  Lemma u1_scale : u1' = cscale NumR sg u1.
  Proof.
    rewrite u1_eq', u1_eq, z_scale, rS_scale, cp_scale.
    destruct rS_pos2 as [A B]. pose proof a_pos as Ha.
    unfold arc_u1_raw. rsimp.
    destruct sg_cases as [[-> E]|[-> E]]; rewrite E in *;
      apply cplx_eq; cbn [fst snd]; field; lra.
  Qed.
  Lemma u2_scale : u2' = cscale NumR sg u2.
  Proof.
    rewrite u2_eq', u2_eq, z_scale, rS_scale, cp_scale.
    destruct rS_pos2 as [A B]. pose proof a_pos as Ha.
    unfold arc_u2_raw. rsimp.
    destruct sg_cases as [[-> E]|[-> E]]; rewrite E in *;
      apply cplx_eq; cbn [fst snd]; field; lra.
  Qed.

  Lemma u1_nonzero : fst u1 <> 0 \/ snd u1 <> 0.
  Proof.
    destruct rS_pos2 as [A B]. pose proof z_pos as Hz.
    pose proof (cp_eq start radius end_ rotation large sweep false) as Hcp. fold cp rS z in Hcp.
    pose proof (u1_norm (fst rS) (snd rS) (fst z) (snd z) A B
                        (arc_radical_of NumR NumTR false start radius rotation end_) large sweep) as Hn.
    rewrite <- Hcp, <- u1_eq in Hn.
    pose proof (rc_pos (fst rS) (snd rS) (fst z) (snd z) A B Hz) as Hrc.
    revert Hn. unfold cnorm2. rsimp. intros Hn.
    destruct (Req_dec (fst u1) 0) as [E1|E1]; [|left; exact E1].
    destruct (Req_dec (snd u1) 0) as [E2|E2]; [|right; exact E2].
    exfalso. rewrite E1, E2 in Hn.
    set (k := arc_radical_of NumR NumTR false start radius rotation end_) in *.
    assert (0 < (1 + k * k) * arc_rc NumR (fst rS, snd rS) (fst z, snd z)).
    { apply Rmult_lt_0_compat; [nra|exact Hrc]. }
    lra.
  Qed.

  Lemma theta_scale :
    cos (a_theta P' * PI / 180) = sg * cos (a_theta P * PI / 180)
    /\ sin (a_theta P' * PI / 180) = sg * sin (a_theta P * PI / 180).
  Proof.
    change (a_theta P') with (arc_theta NumR NumTR u1').
    change (a_theta P) with (arc_theta NumR NumTR u1).
    rewrite !theta_ang, u1_scale.
    destruct sg_cases as [[-> _]|[-> _]]; rsimp.
    - rewrite !Rmult_1_l. split; reflexivity.
    - replace (-1 * fst u1) with (- fst u1) by ring. replace (-1 * snd u1) with (- snd u1) by ring.
      destruct (ang_opp (fst u1) (snd u1) u1_nonzero) as [-> ->]. split; ring.
  Qed.

  Lemma delta_scale : a_delta P' = a_delta P.
  Proof.
    change (a_delta P') with (arc_adjust NumR large sweep (arc_delta0 NumR NumTR u1' u2')).
    change (a_delta P) with (arc_adjust NumR large sweep (arc_delta0 NumR NumTR u1 u2)).
    f_equal. rewrite u1_scale, u2_scale.
    assert (Hdet : arc_det NumR (cscale NumR sg u1) (cscale NumR sg u2) = arc_det NumR u1 u2).
    { unfold arc_det. rsimp. destruct sg_cases as [[-> _]|[-> _]]; ring. }
    assert (Hdot : arc_dot NumR (cscale NumR sg u1) (cscale NumR sg u2) = arc_dot NumR u1 u2).
    { unfold arc_dot. rsimp. destruct sg_cases as [[-> _]|[-> _]]; ring. }
    unfold arc_delta0. now rewrite Hdet, Hdot.
  Qed.

  Theorem arc_init_scale t :
    arc_point NumR NumTR P' t = Sc (arc_point NumR NumTR P t).
  Proof.
    unfold Sc. rewrite <- sg_a.
    destruct theta_scale as [Hc Hs].
    apply arc_point_scaled; auto.
    - change (a_radius P') with rS'. change (a_radius P) with rS. apply rS_scale.
    - apply delta_scale.
    - rewrite center_scale. unfold Sc. now rewrite sg_a.
  Qed.
End Scale.

(* the kernel of the code: scale(arc, sx[, sy == sx], origin) *)
Section ScaleKernel.
  Variables start radius end_ : C.
  Variable rotation : R.
  Variables large sweep : bool.
  Hypothesis Hse : start <> end_.
  Hypothesis Hrx0 : fst radius <> 0.
  Hypothesis Hry0 : snd radius <> 0.
  Let P := arc_init NumR NumTR start radius rotation large sweep end_.

  Theorem arc_scale_uniform_point sx sy origin t : sx <> 0 ->
    (sy = None \/ sy = Some sx) ->
    exists P', arc_scale NumR NumTR sx sy origin P = XOk P' /\
      arc_point NumR NumTR P' t
      = cadd NumR (cscale NumR sx (csub NumR (arc_point NumR NumTR P t) origin)) origin.
  Proof.
    intros Hsx Hsy.
    destruct (rS_nz start radius end_ rotation Hrx0 Hry0) as [A B].
    eexists. split.
    - unfold arc_scale. destruct Hsy as [->| ->]; [reflexivity|].
      cbn [eqb NumR]. assert (E : Req_b sx sx = true) by now apply Req_b_true. now rewrite E.
    - change (a_start P) with start. change (a_end P) with end_.
      change (a_rotation P) with rotation. change (a_large P) with large. change (a_sweep P) with sweep.
      change (a_radius P) with (arc_radius_of NumR NumTR start radius rotation end_).
      rewrite (arc_init_scale start _ end_ rotation large sweep Hse A B sx origin Hsx t).
      now rewrite (arc_reinit start radius end_ rotation large sweep Hse Hrx0 Hry0).
  Qed.

  (* non-uniform: refused, for every arc *)
  Theorem arc_scale_nonuniform_refused sx sy origin (Q : ArcP R) : sy <> sx ->
    arc_scale NumR NumTR sx (Some sy) origin Q = XRefused.
  Proof.
    intros H. unfold arc_scale. cbn [eqb NumR].
    destruct (Req_b sy sx) eqn:E; [|reflexivity]. apply Req_b_true in E. contradiction.
  Qed.
End ScaleKernel.
