(* Proofs/XformArcR.v — arcs over the reals (NumR / NumTR): translate, rotate and
   uniform scale of an Arc commute with point(t); non-uniform scale is refused.

   The kernels of the code pass the STORED radius (curve.radius, already made
   positive and possibly enlarged by the constructor) to a new constructor call;
   arc_reinit shows that re-running the constructor on its own stored radius
   reproduces the arc.  Translation and rotation then follow from the generic
   equivariance of XformArcAlg.v (the addition formulas give rot_matrix' =
   rot_matrix * exp(i degs)).  Uniform scaling by sx <> 0 (negative included) is
   proved on the formulas of _parameterize: zp1, c' scale by sx, the radii by
   |sx|, radius check / radicand / radical are unchanged, u1 and u2 are multiplied
   by sign(sx) — so delta is unchanged and theta moves by 180 degrees when sx < 0,
   which the factor |sx| = -sx of the radii compensates in point(t). *)
From Coq Require Import Reals Lra Lia ZArith List Bool.
From Coquelicot Require Import Coquelicot.
From SVP Require Import Base.Num Base.Cplx Base.FieldTac Model.Bezier Model.Arc Model.Xform
     Proofs.ArcR Proofs.ArcDeriv Proofs.XformArcAlg.
Import ListNotations.
Local Open Scope R_scope.

Local Notation C := (Cplx R).

(* ------------------------------------------------------------------ *)
(* rot_matrix of rotation + degs                                          *)
(* ------------------------------------------------------------------ *)
Lemma rotm_add rot degs :
  arc_rotm_of NumTR (add NumR rot degs) = cmul NumR (arc_rotm_of NumTR rot) (cs_of_degs NumTR degs).
Proof.
  unfold arc_rotm_of, arc_rotm, arc_phi, cs_of_degs. rsimp.
  replace ((rot + degs) * PI / 180) with (rot * PI / 180 + degs * PI / 180) by field.
  rewrite cos_plus, sin_plus. apply cplx_eq; cbn [fst snd]; ring.
Qed.
Lemma cs_unit degs : cnorm2 NumR (cs_of_degs NumTR degs) = 1.
Proof.
  unfold cs_of_degs. rsimp. pose proof (sin2_cos2 (degs * PI / 180)) as H. unfold Rsqr in H. lra.
Qed.
Lemma rotm_unit' rot : cnorm2 NumR (arc_rotm_of NumTR rot) = 1.
Proof.
  unfold arc_rotm_of, arc_rotm, arc_phi. rsimp.
  pose proof (sin2_cos2 (rot * PI / 180)) as H. unfold Rsqr in H. lra.
Qed.

(* ------------------------------------------------------------------ *)
(* re-running the constructor on the stored radius                       *)
(* ------------------------------------------------------------------ *)
Section Reinit.
  Variables start radius end_ : C.
  Variable rotation : R.
  Variables large sweep : bool.
  Hypothesis Hse : start <> end_.
  Hypothesis Hrx0 : fst radius <> 0.
  Hypothesis Hry0 : snd radius <> 0.
  Let rS := arc_radius_of NumR NumTR start radius rotation end_.

  Lemma rS_nz : fst rS <> 0 /\ snd rS <> 0.
  Proof. destruct (rS_pos start radius end_ rotation Hrx0 Hry0) as [A B]. fold rS in A, B. split; lra. Qed.

  Lemma radius_of_stored : arc_radius_of NumR NumTR start rS rotation end_ = rS.
  Proof.
    destruct (rS_pos start radius end_ rotation Hrx0 Hry0) as [A B]. fold rS in A, B.
    pose proof (rcS_le1 start radius end_ rotation Hse Hrx0 Hry0) as Hle. fold rS in Hle.
    unfold arc_radius_of at 1, arc_rc_of.
    assert (Ha : abs_radius NumR rS = rS).
    { unfold abs_radius. rsimp. rewrite !nabs_R, !Rabs_right by lra. now destruct rS. }
    rewrite Ha. unfold arc_rc in *. unfold arc_scaled_radius.
    cbn [re im fst snd] in *. cbn [ltb one NumR].
    rewrite Rlt_b_f; [reflexivity|]. rsimp. lra.
  Qed.

  Theorem arc_reinit :
    arc_init NumR NumTR start rS rotation large sweep end_
    = arc_init NumR NumTR start radius rotation large sweep end_.
  Proof.
    assert (Hd : arc_radicand_of NumR NumTR start rS rotation end_
                 = arc_radicand_of NumR NumTR start radius rotation end_).
    { unfold arc_radicand_of. now rewrite radius_of_stored. }
    assert (Hk : arc_radical_of NumR NumTR false start rS rotation end_
                 = arc_radical_of NumR NumTR false start radius rotation end_).
    { unfold arc_radical_of, arc_radical. now rewrite Hd. }
    assert (Hc : arc_cp_of NumR NumTR false start rS rotation large sweep end_
                 = arc_cp_of NumR NumTR false start radius rotation large sweep end_).
    { unfold arc_cp_of. now rewrite Hk, radius_of_stored. }
    unfold arc_init, arc_init_v, arc_u1_of, arc_u2_of.
    now rewrite Hc, radius_of_stored.
  Qed.
End Reinit.

(* ------------------------------------------------------------------ *)
(* translate and rotate                                                  *)
(* ------------------------------------------------------------------ *)
Section TR.
  Variables start radius end_ : C.
  Variable rotation : R.
  Variables large sweep : bool.
  Hypothesis Hse : start <> end_.
  Hypothesis Hrx0 : fst radius <> 0.
  Hypothesis Hry0 : snd radius <> 0.
  Let P := arc_init NumR NumTR start radius rotation large sweep end_.

  Theorem arc_translate_point z0 t :
    arc_point NumR NumTR (arc_translate NumR NumTR z0 P) t = cadd NumR (arc_point NumR NumTR P t) z0.
  Proof.
    unfold arc_translate. change (a_start P) with start. change (a_end P) with end_.
    change (a_rotation P) with rotation. change (a_large P) with large. change (a_sweep P) with sweep.
    change (a_radius P) with (arc_radius_of NumR NumTR start radius rotation end_).
    rewrite (arc_init_translate NumR NumR_ok NumTR).
    now rewrite (arc_reinit start radius end_ rotation large sweep Hse Hrx0 Hry0).
  Qed.

  Theorem arc_rotate_point degs origin t :
    arc_point NumR NumTR (arc_rotate NumR NumTR degs (cs_of_degs NumTR degs) origin P) t
    = rotate_point NumR (cs_of_degs NumTR degs) origin (arc_point NumR NumTR P t).
  Proof.
    unfold arc_rotate. change (a_start P) with start. change (a_end P) with end_.
    change (a_rotation P) with rotation. change (a_large P) with large. change (a_sweep P) with sweep.
    change (a_radius P) with (arc_radius_of NumR NumTR start radius rotation end_).
    rewrite (arc_init_rotate NumR NumR_ok NumTR rotation degs (cs_of_degs NumTR degs)).
    - now rewrite (arc_reinit start radius end_ rotation large sweep Hse Hrx0 Hry0).
    - apply rotm_add.
    - rewrite cs_unit. cbn. lra.
    - rewrite rotm_unit'. cbn. lra.
  Qed.
End TR.

(* ------------------------------------------------------------------ *)
(* uniform scale                                                         *)
(* ------------------------------------------------------------------ *)
(* angle of the opposite vector *)
Lemma ang_opp x y : (x <> 0 \/ y <> 0) ->
  cos (ang (- x) (- y)) = - cos (ang x y) /\ sin (ang (- x) (- y)) = - sin (ang x y).
Proof.
  intros Hnz. unfold ang, Rlt_b.
  destruct (Rlt_dec 0 y) as [Hy|Hy].
  { destruct (Rlt_dec 0 (- y)); [lra|]. destruct (Rlt_dec (- y) 0); [|lra].
    rewrite acos_opp. replace (- (PI - acos x)) with (acos x - PI) by ring.
    rewrite cos_minus, sin_minus, cos_PI, sin_PI. split; ring. }
  destruct (Rlt_dec y 0) as [Hy'|Hy'].
  { destruct (Rlt_dec 0 (- y)); [|lra].
    rewrite acos_opp. rewrite cos_minus, sin_minus, cos_PI, sin_PI, cos_neg, sin_neg. split; ring. }
  assert (y = 0) by lra. subst y. rewrite Ropp_0.
  destruct (Rlt_dec 0 0); [lra|].
  assert (Hx : x <> 0) by (destruct Hnz; [assumption|contradiction]).
  destruct (Rlt_dec 0 x); destruct (Rlt_dec 0 (- x)); try lra;
    rewrite ?cos_0, ?sin_0, ?cos_PI, ?sin_PI; split; ring.
Qed.

(* point(t) from the derived attributes when radii scale by a > 0 and the start
   angle's cosine / sine are multiplied by sg (sg * a = sx) *)
Lemma arc_point_scaled (P P' : ArcP R) (a sg : R) (o : C) t :
  a_radius P' = cscale NumR a (a_radius P) -> a_rot P' = a_rot P -> a_delta P' = a_delta P ->
  cos (a_theta P' * PI / 180) = sg * cos (a_theta P * PI / 180) ->
  sin (a_theta P' * PI / 180) = sg * sin (a_theta P * PI / 180) ->
  a_center P' = cadd NumR (cscale NumR (sg * a) (csub NumR (a_center P) o)) o ->
  arc_point NumR NumTR P' t
  = cadd NumR (cscale NumR (sg * a) (csub NumR (arc_point NumR NumTR P t) o)) o.
Proof.
  intros Hr Hm Hd Hc Hs Hctr. unfold arc_point. rewrite Hr, Hm, Hd, Hctr. rsimp.
  replace ((a_theta P' + t * a_delta P) * PI / 180)
    with (a_theta P' * PI / 180 + t * a_delta P * PI / 180) by field.
  replace ((a_theta P + t * a_delta P) * PI / 180)
    with (a_theta P * PI / 180 + t * a_delta P * PI / 180) by field.
  rewrite !cos_plus, !sin_plus, Hc, Hs.
  apply cplx_eq; cbn [fst snd]; ring.
Qed.

Section Scale.
  Variables start radius end_ : C.
  Variable rotation : R.
  Variables large sweep : bool.
  Hypothesis Hse : start <> end_.
  Hypothesis Hrx0 : fst radius <> 0.
  Hypothesis Hry0 : snd radius <> 0.
  Variables (sx : R) (o : C).
  Hypothesis Hsx : sx <> 0.

  Let Sc (z : C) : C := cadd NumR (cscale NumR sx (csub NumR z o)) o.
  Let start' := Sc start.
  Let end' := Sc end_.
  Let radius' := cscale NumR sx radius.

  (* a = |sx|, sg = sign sx *)
  Let a := Rabs sx.
  Let sg := sx / Rabs sx.
  Lemma a_pos : 0 < a.  Proof. apply Rabs_pos_lt, Hsx. Qed.
  Lemma sg_cases : (sg = 1 /\ a = sx) \/ (sg = -1 /\ a = - sx).
  Proof.
    unfold sg, a. destruct (Rlt_dec 0 sx).
    - left. rewrite Rabs_right by lra. split; [field; lra|reflexivity].
    - right. rewrite Rabs_left by lra. split; [field; lra|reflexivity].
  Qed.
  Lemma sg_a : sg * a = sx.
  Proof. destruct sg_cases as [[-> ->]|[-> ->]]; ring. Qed.

  Lemma Hse' : start' <> end'.
  Proof.
    intros E. apply Hse. unfold start', end', Sc in E. destruct start, end_, o.
    revert E. rsimp. intros E. injection E as E1 E2.
    apply cplx_eq; cbn [fst snd]; nra.
  Qed.
  Lemma Hrx0' : fst radius' <> 0.
  Proof. unfold radius'. rsimp. nra. Qed.
  Lemma Hry0' : snd radius' <> 0.
  Proof. unfold radius'. rsimp. nra. Qed.

  Let z := arc_zp1_of NumR NumTR start rotation end_.
  Let z' := arc_zp1_of NumR NumTR start' rotation end'.
  Let rS := arc_radius_of NumR NumTR start radius rotation end_.
  Let rS' := arc_radius_of NumR NumTR start' radius' rotation end'.
  Let cp := arc_cp_of NumR NumTR false start radius rotation large sweep end_.
  Let cp' := arc_cp_of NumR NumTR false start' radius' rotation large sweep end'.
  Let u1 := arc_u1_of NumR NumTR false start radius rotation large sweep end_.
  Let u2 := arc_u2_of NumR NumTR false start radius rotation large sweep end_.
  Let u1' := arc_u1_of NumR NumTR false start' radius' rotation large sweep end'.
  Let u2' := arc_u2_of NumR NumTR false start' radius' rotation large sweep end'.
  Let P := arc_init NumR NumTR start radius rotation large sweep end_.
  Let P' := arc_init NumR NumTR start' radius' rotation large sweep end'.

  Lemma z_scale : z' = cscale NumR sx z.
  Proof.
    unfold z', z, arc_zp1_of, arc_zp1, start', end', Sc.
    pose proof (rotm_unit' rotation) as Hu. revert Hu.
    generalize (arc_rotm_of NumTR rotation). intros m Hu.
    destruct start, end_, o, m. revert Hu. rsimp. intros Hu.
    apply cplx_eq; cbn [fst snd]; field; lra.
  Qed.

  Lemma z_pos : 0 < fst z * fst z + snd z * snd z.
  Proof. apply (z_nonzero start end_ rotation Hse). Qed.

  Lemma r0_scale : abs_radius NumR radius' = cscale NumR a (abs_radius NumR radius).
  Proof. unfold abs_radius, radius', a. rsimp. now rewrite !nabs_R, !Rabs_mult. Qed.
  Lemma r0_pos' : 0 < fst (abs_radius NumR radius) /\ 0 < snd (abs_radius NumR radius).
  Proof. unfold abs_radius. rsimp. rewrite !nabs_R. split; apply Rabs_pos_lt; assumption. Qed.

  Lemma rc_scale_eq : arc_rc_of NumR NumTR start' radius' rotation end'
                      = arc_rc_of NumR NumTR start radius rotation end_.
  Proof.
    unfold arc_rc_of. fold z z'. rewrite z_scale, r0_scale.
    destruct r0_pos' as [A B]. pose proof a_pos as Ha.
    unfold arc_rc. rsimp.
    destruct sg_cases as [[_ E]|[_ E]]; rewrite E in *; field; lra.
  Qed.

  Lemma rS_scale : rS' = cscale NumR a rS.
  Proof.
    unfold rS', rS, arc_radius_of. rewrite rc_scale_eq, r0_scale.
    unfold arc_scaled_radius. rsimp.
    destruct (Rlt_b 1 _); apply cplx_eq; cbn [fst snd]; ring.
  Qed.

  Lemma rS_pos2 : 0 < fst rS /\ 0 < snd rS.
  Proof. apply (rS_pos start radius end_ rotation Hrx0 Hry0). Qed.

  Lemma radicand_scale : arc_radicand_of NumR NumTR start' radius' rotation end'
                         = arc_radicand_of NumR NumTR start radius rotation end_.
  Proof.
    unfold arc_radicand_of. fold z z' rS rS'. rewrite z_scale, rS_scale.
    destruct rS_pos2 as [A B]. pose proof a_pos as Ha. pose proof z_pos as Hz.
    pose proof (tmpR_pos (fst rS) (snd rS) (fst z) (snd z) A B Hz) as Ht. unfold tmpR in Ht.
    unfold arc_radicand. rsimp.
    pose proof (sq_pos_nz sx Hsx) as Hs2.
    assert (Hs4 : 0 < sx * sx * (sx * sx)) by nra.
    destruct sg_cases as [[_ E]|[_ E]]; rewrite E in *; field; (split; [lra|]).
    all: match goal with |- ?e <> 0 =>
           replace e with (sx * sx * (sx * sx) *
             (fst rS * fst rS * (snd z * snd z) + snd rS * snd rS * (fst z * fst z))) by ring end.
    all: apply Rgt_not_eq, Rlt_gt, Rmult_lt_0_compat; assumption.
  Qed.

  Lemma radical_scale : arc_radical_of NumR NumTR false start' radius' rotation end'
                        = arc_radical_of NumR NumTR false start radius rotation end_.
  Proof. unfold arc_radical_of, arc_radical. now rewrite radicand_scale. Qed.

  Lemma cp_scale : cp' = cscale NumR sx cp.
  Proof.
    unfold cp', cp, arc_cp_of. rewrite radical_scale. fold z z' rS rS'. rewrite z_scale, rS_scale.
    destruct rS_pos2 as [A B]. pose proof a_pos as Ha.
    unfold arc_cp. destruct (Bool.eqb large sweep); rsimp;
      destruct sg_cases as [[_ E]|[_ E]]; rewrite E in *;
      apply cplx_eq; cbn [fst snd]; field; lra.
  Qed.

  Lemma center_scale :
    a_center P' = Sc (a_center P).
  Proof.
    unfold P', P, arc_init, arc_init_v. cbn [a_center]. fold cp cp'. rewrite cp_scale.
    unfold arc_center, start', end', Sc.
    generalize (arc_rotm NumTR (arc_phi NumTR rotation)). intros m.
    destruct start, end_, o, m, cp. rsimp. apply cplx_eq; cbn [fst snd]; field.
  Qed.

  Lemma u1_eq : u1 = arc_u1_raw NumR (fst rS, snd rS) (fst z, snd z) cp.
  Proof. apply (u1_noclip start radius end_ rotation large sweep false Hse Hrx0 Hry0). Qed.
  Lemma u2_eq : u2 = arc_u2_raw NumR (fst rS, snd rS) (fst z, snd z) cp.
  Proof. apply (u2_noclip start radius end_ rotation large sweep false Hse Hrx0 Hry0). Qed.
  Lemma u1_eq' : u1' = arc_u1_raw NumR (fst rS', snd rS') (fst z', snd z') cp'.
  Proof. apply (u1_noclip start' radius' end' rotation large sweep false Hse' Hrx0' Hry0'). Qed.
  Lemma u2_eq' : u2' = arc_u2_raw NumR (fst rS', snd rS') (fst z', snd z') cp'.
  Proof. apply (u2_noclip start' radius' end' rotation large sweep false Hse' Hrx0' Hry0'). Qed.

  Lemma u1_scale : u1' = cscale NumR sg u1.
  Proof.
    rewrite u1_eq', u1_eq, z_scale, rS_scale, cp_scale.
    destruct rS_pos2 as [A B]. pose proof a_pos as Ha.
    unfold arc_u1_raw. rsimp.
    destruct sg_cases as [[-> E]|[-> E]]; rewrite E in *;
      apply cplx_eq; cbn [fst snd]; field; lra.
  Qed.
  Lemma u2_scale : u2' = cscale NumR sg u2.
  Proof.
    rewrite u2_eq', u2_eq, z_scale, rS_scale, cp_scale.
    destruct rS_pos2 as [A B]. pose proof a_pos as Ha.
    unfold arc_u2_raw. rsimp.
    destruct sg_cases as [[-> E]|[-> E]]; rewrite E in *;
      apply cplx_eq; cbn [fst snd]; field; lra.
  Qed.

  Lemma u1_nonzero : fst u1 <> 0 \/ snd u1 <> 0.
  Proof.
    destruct rS_pos2 as [A B]. pose proof z_pos as Hz.
    pose proof (cp_eq start radius end_ rotation large sweep false) as Hcp. fold cp rS z in Hcp.
    pose proof (u1_norm (fst rS) (snd rS) (fst z) (snd z) A B
                        (arc_radical_of NumR NumTR false start radius rotation end_) large sweep) as Hn.
    rewrite <- Hcp, <- u1_eq in Hn.
    pose proof (rc_pos (fst rS) (snd rS) (fst z) (snd z) A B Hz) as Hrc.
    revert Hn. unfold cnorm2. rsimp. intros Hn.
    destruct (Req_dec (fst u1) 0) as [E1|E1]; [|left; exact E1].
    destruct (Req_dec (snd u1) 0) as [E2|E2]; [|right; exact E2].
    exfalso. rewrite E1, E2 in Hn.
    set (k := arc_radical_of NumR NumTR false start radius rotation end_) in *.
    assert (0 < (1 + k * k) * arc_rc NumR (fst rS, snd rS) (fst z, snd z)).
    { apply Rmult_lt_0_compat; [nra|exact Hrc]. }
    lra.
  Qed.

  Lemma theta_scale :
    cos (a_theta P' * PI / 180) = sg * cos (a_theta P * PI / 180)
    /\ sin (a_theta P' * PI / 180) = sg * sin (a_theta P * PI / 180).
  Proof.
    change (a_theta P') with (arc_theta NumR NumTR u1').
    change (a_theta P) with (arc_theta NumR NumTR u1).
    rewrite !theta_ang, u1_scale.
    destruct sg_cases as [[-> _]|[-> _]]; rsimp.
    - rewrite !Rmult_1_l. split; reflexivity.
    - replace (-1 * fst u1) with (- fst u1) by ring. replace (-1 * snd u1) with (- snd u1) by ring.
      destruct (ang_opp (fst u1) (snd u1) u1_nonzero) as [-> ->]. split; ring.
  Qed.

  Lemma delta_scale : a_delta P' = a_delta P.
  Proof.
    change (a_delta P') with (arc_adjust NumR large sweep (arc_delta0 NumR NumTR u1' u2')).
    change (a_delta P) with (arc_adjust NumR large sweep (arc_delta0 NumR NumTR u1 u2)).
    f_equal. rewrite u1_scale, u2_scale.
    assert (Hdet : arc_det NumR (cscale NumR sg u1) (cscale NumR sg u2) = arc_det NumR u1 u2).
    { unfold arc_det. rsimp. destruct sg_cases as [[-> _]|[-> _]]; ring. }
    assert (Hdot : arc_dot NumR (cscale NumR sg u1) (cscale NumR sg u2) = arc_dot NumR u1 u2).
    { unfold arc_dot. rsimp. destruct sg_cases as [[-> _]|[-> _]]; ring. }
    unfold arc_delta0. now rewrite Hdet, Hdot.
  Qed.

  Theorem arc_init_scale t :
    arc_point NumR NumTR P' t = Sc (arc_point NumR NumTR P t).
  Proof.
    unfold Sc. rewrite <- sg_a.
    destruct theta_scale as [Hc Hs].
    apply arc_point_scaled; auto.
    - change (a_radius P') with rS'. change (a_radius P) with rS. apply rS_scale.
    - apply delta_scale.
    - rewrite center_scale. unfold Sc. now rewrite sg_a.
  Qed.
End Scale.

(* the kernel of the code: scale(arc, sx[, sy == sx], origin) *)
Section ScaleKernel.
  Variables start radius end_ : C.
  Variable rotation : R.
  Variables large sweep : bool.
  Hypothesis Hse : start <> end_.
  Hypothesis Hrx0 : fst radius <> 0.
  Hypothesis Hry0 : snd radius <> 0.
  Let P := arc_init NumR NumTR start radius rotation large sweep end_.

  Theorem arc_scale_uniform_point sx sy origin t : sx <> 0 ->
    (sy = None \/ sy = Some sx) ->
    exists P', arc_scale NumR NumTR sx sy origin P = XOk P' /\
      arc_point NumR NumTR P' t
      = cadd NumR (cscale NumR sx (csub NumR (arc_point NumR NumTR P t) origin)) origin.
  Proof.
    intros Hsx Hsy.
    destruct (rS_nz start radius end_ rotation Hrx0 Hry0) as [A B].
    eexists. split.
    - unfold arc_scale. destruct Hsy as [->| ->]; [reflexivity|].
      cbn [eqb NumR]. assert (E : Req_b sx sx = true) by now apply Req_b_true. now rewrite E.
    - change (a_start P) with start. change (a_end P) with end_.
      change (a_rotation P) with rotation. change (a_large P) with large. change (a_sweep P) with sweep.
      change (a_radius P) with (arc_radius_of NumR NumTR start radius rotation end_).
      rewrite (arc_init_scale start _ end_ rotation large sweep Hse A B sx origin Hsx t).
      now rewrite (arc_reinit start radius end_ rotation large sweep Hse Hrx0 Hry0).
  Qed.

  (* non-uniform: refused, for every arc *)
  Theorem arc_scale_nonuniform_refused sx sy origin (Q : ArcP R) : sy <> sx ->
    arc_scale NumR NumTR sx (Some sy) origin Q = XRefused.
  Proof.
    intros H. unfold arc_scale. cbn [eqb NumR].
    destruct (Req_b sy sx) eqn:E; [|reflexivity]. apply Req_b_true in E. contradiction.
  Qed.
End ScaleKernel.


(* ####################################################################### *)
(* Second part — the REPAIRED Arc branch of transform()
   (Model/Xform.v, arc_transform_fixed) maps the arc point-wise, over the reals.

   Part 0  atan2 (built from atan and the quadrant, as np.arctan2) gives the polar
           angle: rho*cos = x, rho*sin = y;  angles with equal cos and sin that are
           less than a turn apart are equal.
   Part A  linear algebra of the image ellipse.  M = A.R(phi).diag(rx,ry); with
           (p,q,r) = M.M^T, lam = (p+r)/2 + hypot((p-r)/2, q), rx' = sqrt lam,
           ry' = |det M|/rx', phi' = atan2(q,(p-r)/2)/2:
              M.u(theta) = R(phi').diag(rx',ry').u(s*theta + alpha),  s = sign det A.
   Part B  round trip of the constructor: the endpoint parameterisation of the arc
           c + R(phi).diag(rx,ry).u(a + t*delta) (flags from delta) is turned back
           by arc_init into the same centre, radii, start angle and delta.
   Part C  composition: transform(arc, tf).point(t) = tf.(arc.point(t)), the
           large_arc flag is kept and sweep flips iff det < 0. *)
(* ================================================================== *)
(* Part 0                                                               *)
(* ================================================================== *)
Lemma cos_eq_1_small d : cos d = 1 -> -2 * PI < d < 2 * PI -> d = 0.
Proof.
  intros Hc Hd. pose proof PI_RGT_0 as Hpi.
  assert (Hs : sin (d / 2) = 0).
  { replace d with (2 * (d / 2)) in Hc by field. rewrite cos_2a_sin in Hc.
    assert (sin (d / 2) * sin (d / 2) = 0) by lra.
    destruct (Rmult_integral _ _ H); assumption. }
  destruct (Rle_lt_dec 0 d) as [Hp|Hn].
  - destruct (sin_eq_O_2PI_0 (d / 2)) as [E|[E|E]]; try lra.
  - assert (Hs' : sin (- d / 2) = 0).
    { replace (- d / 2) with (- (d / 2)) by field. rewrite sin_neg. lra. }
    destruct (sin_eq_O_2PI_0 (- d / 2)) as [E|[E|E]]; try lra.
Qed.

Lemma angle_unique x y : cos x = cos y -> sin x = sin y -> -2 * PI < x - y < 2 * PI -> x = y.
Proof.
  intros Hc Hs Hd. assert (x - y = 0); [|lra].
  apply cos_eq_1_small; [|exact Hd].
  rewrite cos_minus, Hc, Hs. pose proof (sin2_cos2 y) as H. unfold Rsqr in H. lra.
Qed.

(* np.arctan2 over the reals *)
Definition atan2R (y x : R) : R := atan2_ NumR NumTR y x.

Lemma sqrt_sq_pos_factor x y : 0 < x -> sqrt (x * x + y * y) = x * sqrt (1 + (y / x)²).
Proof.
  intros Hx. replace (x * x + y * y) with ((x * x) * (1 + (y / x)²)) by (unfold Rsqr; field; lra).
  rewrite sqrt_mult; [|nra|unfold Rsqr; pose proof (Rle_0_sqr (y / x)) as H; unfold Rsqr in H; lra].
  rewrite sqrt_square by lra. reflexivity.
Qed.

Lemma sqrt_1z_pos z : 0 < sqrt (1 + z²).
Proof. apply sqrt_lt_R0. pose proof (Rle_0_sqr z). lra. Qed.

Lemma atan2_polar x y :
  sqrt (x * x + y * y) * cos (atan2R y x) = x /\ sqrt (x * x + y * y) * sin (atan2R y x) = y.
Proof.
  pose proof PI_RGT_0 as Hpi.
  unfold atan2R, atan2_. rewrite two_R. cbn [ltb leb NumR zero atan_ pi_ NumTR add sub div opp].
  unfold Rlt_b, Rle_b.
  destruct (Rlt_dec 0 x) as [Hx|Hx].
  { rewrite (sqrt_sq_pos_factor x y Hx), cos_atan, sin_atan.
    pose proof (sqrt_1z_pos (y / x)) as Hs. split; field; lra. }
  destruct (Rlt_dec x 0) as [Hx'|Hx'].
  { assert (Hm : 0 < - x) by lra.
    assert (Hq : sqrt (x * x + y * y) = - x * sqrt (1 + (y / x)²)).
    { replace (x * x + y * y) with ((- x) * (- x) + y * y) by ring.
      rewrite (sqrt_sq_pos_factor (- x) y Hm). f_equal. f_equal. f_equal. unfold Rsqr. field. lra. }
    pose proof (sqrt_1z_pos (y / x)) as Hs.
    destruct (Rle_dec 0 y).
    - rewrite Hq, cos_plus, sin_plus, cos_PI, sin_PI, cos_atan, sin_atan. split; field; lra.
    - rewrite Hq, cos_minus, sin_minus, cos_PI, sin_PI, cos_atan, sin_atan. split; field; lra. }
  assert (x = 0) by lra. subst x.
  replace (0 * 0 + y * y) with (y * y) by ring.
  destruct (Rlt_dec 0 y) as [Hy|Hy].
  { rewrite sqrt_square by lra. rewrite cos_PI2, sin_PI2. split; ring. }
  destruct (Rlt_dec y 0) as [Hy'|Hy'].
  { replace (y * y) with ((- y) * (- y)) by ring. rewrite sqrt_square by lra.
    rewrite cos_neg, sin_neg, cos_PI2, sin_PI2. split; ring. }
  assert (y = 0) by lra. subst y. rewrite Rmult_0_l, sqrt_0. split; ring.
Qed.

(* ================================================================== *)
(* Part A: the image ellipse                                            *)
(* ================================================================== *)
(* rows orthonormal and determinant s: the second row is s * (first row rotated) *)
Lemma orth2_second_row n11 n12 n21 n22 s :
  n11 * n11 + n12 * n12 = 1 -> n11 * n21 + n12 * n22 = 0 -> n11 * n22 - n12 * n21 = s ->
  n21 = - s * n12 /\ n22 = s * n11.
Proof.
  intros H1 H2 H3. split.
  - transitivity (n21 * (n11 * n11 + n12 * n12)); [rewrite H1; ring|].
    transitivity (n11 * (n11 * n21 + n12 * n22) - n12 * (n11 * n22 - n12 * n21)); [ring|].
    rewrite H2, H3. ring.
  - transitivity (n22 * (n11 * n11 + n12 * n12)); [rewrite H1; ring|].
    transitivity (n12 * (n11 * n21 + n12 * n22) + n11 * (n11 * n22 - n12 * n21)); [ring|].
    rewrite H2, H3. ring.
Qed.

Section ImageEllipse.
  (* M = ((m00, m01), (m10, m11)) with non-zero determinant dM *)
  Variables m00 m01 m10 m11 : R.
  Let dM := m00 * m11 - m01 * m10.
  Hypothesis HdM : dM <> 0.
  Let p := m00 * m00 + m01 * m01.
  Let q := m00 * m10 + m01 * m11.
  Let r := m10 * m10 + m11 * m11.
  Let hd := (p - r) / 2.
  Let rad := sqrt (hd * hd + q * q).
  Let lam := (p + r) / 2 + rad.
  Let lam2 := (p + r) / 2 - rad.
  Let psi := atan2R q hd / 2.          (* phi' in radians *)
  Let Cp := cos psi.
  Let Sp := sin psi.
  Let nrx := sqrt lam.
  Let nry := Rabs dM / nrx.

  Lemma rad_ge0 : 0 <= rad.  Proof. apply sqrt_pos. Qed.
  Lemma rad_sq : rad * rad = hd * hd + q * q.
  Proof. apply sqrt_sqrt. nra. Qed.
  Lemma pr_pos : 0 < p + r.
  Proof.
    unfold p, r. destruct (Req_dec m00 0) as [E0|E0]; destruct (Req_dec m01 0) as [E1|E1].
    - exfalso. apply HdM. unfold dM. rewrite E0, E1. ring.
    - pose proof (sq_pos_nz _ E1). nra.
    - pose proof (sq_pos_nz _ E0). nra.
    - pose proof (sq_pos_nz _ E0). nra.
  Qed.
  Lemma lam_pos : 0 < lam.
  Proof. unfold lam. pose proof pr_pos. pose proof rad_ge0. lra. Qed.
  Lemma lam_lam2 : lam * lam2 = dM * dM.
  Proof.
    unfold lam, lam2. transitivity ((p + r) / 2 * ((p + r) / 2) - rad * rad); [ring|].
    rewrite rad_sq. unfold hd, p, q, r, dM. field.
  Qed.
  Lemma lam2_pos : 0 < lam2.
  Proof.
    pose proof lam_pos as H. pose proof lam_lam2 as E. pose proof (sq_pos_nz _ HdM) as Hd.
    rewrite <- E in Hd. destruct (Rle_lt_dec lam2 0) as [Hn|Hp]; [|exact Hp]. nra.
  Qed.
  Lemma nrx_pos : 0 < nrx.  Proof. apply sqrt_lt_R0, lam_pos. Qed.
  Lemma nrx_sq : nrx * nrx = lam.  Proof. apply sqrt_sqrt. pose proof lam_pos. lra. Qed.
  Lemma nry_pos : 0 < nry.
  Proof. unfold nry. apply Rdiv_lt_0_compat; [apply Rabs_pos_lt, HdM|apply nrx_pos]. Qed.
  Lemma nrx_nry : nrx * nry = Rabs dM.
  Proof. unfold nry. pose proof nrx_pos. field. lra. Qed.
  Lemma nry_sq : nry * nry = lam2.
  Proof.
    pose proof nrx_pos as H. pose proof lam_pos as Hl.
    assert (E : nrx * nrx * (nry * nry) = lam * lam2).
    { transitivity ((nrx * nry) * (nrx * nry)); [ring|].
      rewrite nrx_nry, lam_lam2. rewrite <- Rabs_mult. apply Rabs_right. nra. }
    rewrite nrx_sq in E. apply Rmult_eq_reg_l with lam; [exact E|lra].
  Qed.

  (* double angle: (hd, q) = rad * (cos 2psi, sin 2psi) *)
  Lemma double_angle : rad * (Cp * Cp - Sp * Sp) = hd /\ rad * (2 * Sp * Cp) = q.
  Proof.
    destruct (atan2_polar hd q) as [A B]. fold rad in A, B.
    unfold Cp, Sp. rewrite <- cos_2a, <- sin_2a.
    replace (2 * psi) with (atan2R q hd) by (unfold psi; field). split; assumption.
  Qed.
  Lemma CS_unit : Cp * Cp + Sp * Sp = 1.
  Proof. unfold Cp, Sp. pose proof (sin2_cos2 psi) as H. unfold Rsqr in H. lra. Qed.

  (* the rows of  R(psi)^T . M *)
  Let w11 := Cp * m00 + Sp * m10.
  Let w12 := Cp * m01 + Sp * m11.
  Let w21 := - Sp * m00 + Cp * m10.
  Let w22 := - Sp * m01 + Cp * m11.

  Lemma XY_unit : (Cp * Cp - Sp * Sp) * (Cp * Cp - Sp * Sp) + (2 * Sp * Cp) * (2 * Sp * Cp) = 1.
  Proof.
    pose proof CS_unit as U.
    transitivity ((Cp * Cp + Sp * Sp) * (Cp * Cp + Sp * Sp)); [ring|]. rewrite U. ring.
  Qed.
  Lemma row1_norm : w11 * w11 + w12 * w12 = lam.
  Proof.
    destruct double_angle as [A B]. pose proof CS_unit as U. pose proof XY_unit as V.
    transitivity ((p + r) / 2 * (Cp * Cp + Sp * Sp) + hd * (Cp * Cp - Sp * Sp) + q * (2 * Sp * Cp)).
    { unfold hd, w11, w12, p, q, r. field. }
    rewrite U, <- A, <- B.
    transitivity ((p + r) / 2 + rad * ((Cp * Cp - Sp * Sp) * (Cp * Cp - Sp * Sp)
                                        + (2 * Sp * Cp) * (2 * Sp * Cp))); [ring|].
    rewrite V. unfold lam. ring.
  Qed.
  Lemma row2_norm : w21 * w21 + w22 * w22 = lam2.
  Proof.
    destruct double_angle as [A B]. pose proof CS_unit as U. pose proof XY_unit as V.
    transitivity ((p + r) / 2 * (Cp * Cp + Sp * Sp) - hd * (Cp * Cp - Sp * Sp) - q * (2 * Sp * Cp)).
    { unfold hd, w21, w22, p, q, r. field. }
    rewrite U, <- A, <- B.
    transitivity ((p + r) / 2 - rad * ((Cp * Cp - Sp * Sp) * (Cp * Cp - Sp * Sp)
                                        + (2 * Sp * Cp) * (2 * Sp * Cp))); [ring|].
    rewrite V. unfold lam2. ring.
  Qed.
  Lemma rows_orth : w11 * w21 + w12 * w22 = 0.
  Proof.
    destruct double_angle as [A B].
    transitivity (- Sp * Cp * (p - r) + (Cp * Cp - Sp * Sp) * q); [unfold w11, w12, w21, w22, p, q, r; ring|].
    replace (p - r) with (2 * hd) by (unfold hd; field).
    rewrite <- A, <- B. ring.
  Qed.
  Lemma rows_det : w11 * w22 - w12 * w21 = dM.
  Proof.
    pose proof CS_unit as U.
    transitivity ((Cp * Cp + Sp * Sp) * dM); [unfold w11, w12, w21, w22, dM; ring|]. rewrite U. ring.
  Qed.

  (* N = diag(1/rx', 1/ry') . R(psi)^T . M is orthogonal with determinant sign dM *)
  Let sgn := dM / Rabs dM.
  Let n11 := w11 / nrx.
  Let n12 := w12 / nrx.
  Lemma sgn_cases : (sgn = 1 /\ 0 < dM) \/ (sgn = -1 /\ dM < 0).
  Proof.
    unfold sgn. destruct (Rlt_dec 0 dM).
    - left. rewrite Rabs_right by lra. split; [field; lra|lra].
    - right. assert (dM < 0) by lra. rewrite Rabs_left by lra. split; [field; lra|lra].
  Qed.
  Lemma n1_unit : n11 * n11 + n12 * n12 = 1.
  Proof.
    pose proof nrx_pos as H. unfold n11, n12.
    transitivity ((w11 * w11 + w12 * w12) / (nrx * nrx)); [field; lra|].
    rewrite row1_norm, nrx_sq. pose proof lam_pos. field. lra.
  Qed.
  Lemma second_row : w21 / nry = - sgn * n12 /\ w22 / nry = sgn * n11.
  Proof.
    pose proof nrx_pos as H1. pose proof nry_pos as H2. pose proof lam_pos as Hl.
    apply orth2_second_row.
    - apply n1_unit.
    - unfold n11, n12. transitivity ((w11 * w21 + w12 * w22) / (nrx * nry)); [field; lra|].
      rewrite rows_orth. field. lra.
    - unfold n11, n12. transitivity ((w11 * w22 - w12 * w21) / (nrx * nry)); [field; lra|].
      rewrite rows_det, nrx_nry. reflexivity.
  Qed.

  (* the alpha of the statement: (cos alpha, sin alpha) = N e1 *)
  Definition img_alpha : R := ang n11 (- sgn * n12).
  Lemma alpha_cos_sin : cos img_alpha = n11 /\ sin img_alpha = - sgn * n12.
  Proof.
    apply ang_cos_sin. pose proof n1_unit as U.
    destruct sgn_cases as [[-> _]|[-> _]]; nra.
  Qed.

  (* M.u(theta) = R(psi).diag(rx', ry').u(s*theta + alpha) *)
  Theorem image_param theta :
    m00 * cos theta + m01 * sin theta
      = nrx * Cp * cos (sgn * theta + img_alpha) - nry * Sp * sin (sgn * theta + img_alpha)
    /\ m10 * cos theta + m11 * sin theta
      = nrx * Sp * cos (sgn * theta + img_alpha) + nry * Cp * sin (sgn * theta + img_alpha).
  Proof.
    destruct alpha_cos_sin as [Ac As]. destruct second_row as [R1 R2].
    pose proof nrx_pos as H1. pose proof nry_pos as H2. pose proof CS_unit as U.
    assert (Hc : cos (sgn * theta) = cos theta /\ sin (sgn * theta) = sgn * sin theta).
    { destruct sgn_cases as [[-> _]|[-> _]].
      - rewrite Rmult_1_l. split; ring.
      - replace (-1 * theta) with (- theta) by ring. rewrite cos_neg, sin_neg. split; ring. }
    destruct Hc as [Hc Hs].
    assert (Hss : sgn * sgn = 1) by (destruct sgn_cases as [[-> _]|[-> _]]; ring).
    rewrite cos_plus, sin_plus, Hc, Hs, Ac, As.
    (* nrx*n11 = w11, nrx*n12 = w12, nry*(-sgn n12) = w21, nry*(sgn n11) = w22 *)
    assert (E11 : nrx * n11 = w11) by (unfold n11; field; lra).
    assert (E12 : nrx * n12 = w12) by (unfold n12; field; lra).
    assert (E21 : nry * (- sgn * n12) = w21) by (rewrite <- R1; field; lra).
    assert (E22 : nry * (sgn * n11) = w22) by (rewrite <- R2; field; lra).
    split.
    - transitivity (Cp * (nrx * n11 * cos theta + sgn * sgn * (nrx * n12) * sin theta)
                    - Sp * (nry * (sgn * n11) * sin theta + nry * (- sgn * n12) * cos theta)); [|ring].
      rewrite Hss, E11, E12, E21, E22. unfold w11, w12, w21, w22.
      transitivity ((Cp * Cp + Sp * Sp) * (m00 * cos theta + m01 * sin theta)); [rewrite U; ring|ring].
    - transitivity (Sp * (nrx * n11 * cos theta + sgn * sgn * (nrx * n12) * sin theta)
                    + Cp * (nry * (sgn * n11) * sin theta + nry * (- sgn * n12) * cos theta)); [|ring].
      rewrite Hss, E11, E12, E21, E22. unfold w11, w12, w21, w22.
      transitivity ((Cp * Cp + Sp * Sp) * (m10 * cos theta + m11 * sin theta)); [rewrite U; ring|ring].
  Qed.

  (* the quantities of the statement, under names that survive the section *)
  Definition ie_dM := dM.
  Definition ie_lam := lam.
  Definition ie_psi := psi.
  Definition ie_nrx := nrx.
  Definition ie_nry := nry.
  Definition ie_sgn := sgn.
  Lemma ie_lam_pos : 0 < ie_lam.  Proof. exact lam_pos. Qed.
  Lemma ie_nrx_pos : 0 < ie_nrx.  Proof. exact nrx_pos. Qed.
  Lemma ie_nry_pos : 0 < ie_nry.  Proof. exact nry_pos. Qed.
  Lemma ie_sgn_cases : (ie_sgn = 1 /\ 0 < ie_dM) \/ (ie_sgn = -1 /\ ie_dM < 0).
  Proof. exact sgn_cases. Qed.
  Theorem ie_image_param theta :
    m00 * cos theta + m01 * sin theta
      = ie_nrx * cos ie_psi * cos (ie_sgn * theta + img_alpha)
        - ie_nry * sin ie_psi * sin (ie_sgn * theta + img_alpha)
    /\ m10 * cos theta + m11 * sin theta
      = ie_nrx * sin ie_psi * cos (ie_sgn * theta + img_alpha)
        + ie_nry * cos ie_psi * sin (ie_sgn * theta + img_alpha).
  Proof. exact (image_param theta). Qed.
End ImageEllipse.

(* ================================================================== *)
(* Part B: the constructor recovers the centre parameterisation         *)
(* ================================================================== *)
Lemma same_sign_sq x y : x * x = y * y -> 0 <= x * y -> x = y.
Proof.
  intros H1 H2. assert (E : (x - y) * (x + y) = 0) by nra.
  destruct (Rmult_integral _ _ E) as [E1|E1]; [lra|].
  assert (x = - y) by lra. subst x. assert (y * y <= 0) by nra.
  assert (y = 0) by nra. lra.
Qed.

Section Roundtrip.
  Variable c : C.
  Variables rot rx ry a delta : R.
  Variables large sweep : bool.
  Hypothesis Hrx : 0 < rx.
  Hypothesis Hry : 0 < ry.
  Hypothesis Hd0 : delta <> 0.
  Hypothesis Hd : -360 < delta < 360.
  Hypothesis Hsw : sweep = true <-> 0 < delta.
  Hypothesis Hl1 : 180 < Rabs delta -> large = true.
  Hypothesis Hl2 : Rabs delta < 180 -> large = false.

  Let phi := arc_phi NumTR rot.
  Let h := delta * PI / 360.
  Let m := a + h.
  (* c + R(phi).diag(rx,ry).u(theta) *)
  Definition ell (cphi sphi : R) (theta : R) : C :=
    (rx * cphi * cos theta - ry * sphi * sin theta + fst c,
     rx * sphi * cos theta + ry * cphi * sin theta + snd c).
  Let start := ell (cos phi) (sin phi) (m - h).
  Let end_ := ell (cos phi) (sin phi) (m + h).
  Let radius : C := (rx, ry).
  Hypothesis Hsnap : snap_inactive start radius end_ rot false.

  Let z := arc_zp1_of NumR NumTR start rot end_.
  Let rS := arc_radius_of NumR NumTR start radius rot end_.
  Let radicand := arc_radicand_of NumR NumTR start radius rot end_.
  Let radical := arc_radical_of NumR NumTR false start radius rot end_.
  Let cp := arc_cp_of NumR NumTR false start radius rot large sweep end_.
  Let u1 := arc_u1_of NumR NumTR false start radius rot large sweep end_.
  Let u2 := arc_u2_of NumR NumTR false start radius rot large sweep end_.
  Let Q := arc_init NumR NumTR start radius rot large sweep end_.

  Lemma phi_unit : cos phi * cos phi + sin phi * sin phi = 1.
  Proof. pose proof (sin2_cos2 phi) as H. unfold Rsqr in H. lra. Qed.
  Lemma m_unit : cos m * cos m + sin m * sin m = 1.
  Proof. pose proof (sin2_cos2 m) as H. unfold Rsqr in H. lra. Qed.
  Lemma h_unit : cos h * cos h + sin h * sin h = 1.
  Proof. pose proof (sin2_cos2 h) as H. unfold Rsqr in H. lra. Qed.

  Lemma h_range : - PI < h < PI /\ h <> 0.
  Proof.
    pose proof PI_RGT_0 as Hpi. unfold h. split; [split|].
    - apply Rmult_lt_reg_r with (360 / PI); [apply Rdiv_lt_0_compat; lra|].
      replace (delta * PI / 360 * (360 / PI)) with delta by (field; lra).
      replace (- PI * (360 / PI)) with (-360) by (field; lra). lra.
    - apply Rmult_lt_reg_r with (360 / PI); [apply Rdiv_lt_0_compat; lra|].
      replace (delta * PI / 360 * (360 / PI)) with delta by (field; lra).
      replace (PI * (360 / PI)) with 360 by (field; lra). lra.
    - intros E. apply Hd0. apply Rmult_eq_reg_r with (PI / 360); [|apply Rgt_not_eq, Rdiv_lt_0_compat; lra].
      transitivity (delta * PI / 360); [field|]. rewrite E. ring.
  Qed.
  Lemma sinh_ne0 : sin h <> 0.
  Proof.
    destruct h_range as [[A B] Hn]. destruct (Rlt_dec 0 h).
    - apply Rgt_not_eq, sin_gt_0; lra.
    - apply Rlt_not_eq, sin_lt_0_var; lra.
  Qed.

  (* start - end and start + end *)
  Lemma chord :
    fst start - fst end_ = 2 * sin h * (rx * cos phi * sin m + ry * sin phi * cos m) /\
    snd start - snd end_ = 2 * sin h * (rx * sin phi * sin m - ry * cos phi * cos m).
  Proof.
    unfold start, end_, ell. cbn [fst snd].
    rewrite cos_minus, cos_plus, sin_minus, sin_plus. split; ring.
  Qed.
  Lemma midsum :
    (fst start + fst end_) / 2 = cos h * (rx * cos phi * cos m - ry * sin phi * sin m) + fst c /\
    (snd start + snd end_) / 2 = cos h * (rx * sin phi * cos m + ry * cos phi * sin m) + snd c.
  Proof.
    unfold start, end_, ell. cbn [fst snd].
    rewrite cos_minus, cos_plus, sin_minus, sin_plus. split; field.
  Qed.

  Lemma z_val : z = (rx * sin h * sin m, - ry * sin h * cos m).
  Proof.
    unfold z. rewrite (z_eq start end_ rot). fold phi.
    destruct chord as [-> ->]. pose proof phi_unit as U.
    apply cplx_eq; cbn [fst snd].
    - transitivity (rx * sin h * sin m * (cos phi * cos phi + sin phi * sin phi)); [field|]. rewrite U. ring.
    - transitivity (- ry * sin h * cos m * (cos phi * cos phi + sin phi * sin phi)); [field|]. rewrite U. ring.
  Qed.

  Lemma Hse : start <> end_.
  Proof.
    intros E. destruct chord as [A B]. rewrite E in A, B.
    pose proof sinh_ne0 as Hs. pose proof m_unit as Um. pose proof phi_unit as U.
    assert (X : rx * cos phi * sin m + ry * sin phi * cos m = 0).
    { apply Rmult_eq_reg_l with (2 * sin h); [|lra]. rewrite <- A. ring. }
    assert (Y : rx * sin phi * sin m - ry * cos phi * cos m = 0).
    { apply Rmult_eq_reg_l with (2 * sin h); [|lra]. rewrite <- B. ring. }
    assert (S0 : rx * sin m = 0).
    { transitivity (rx * sin m * (cos phi * cos phi + sin phi * sin phi)); [rewrite U; ring|].
      transitivity (cos phi * (rx * cos phi * sin m + ry * sin phi * cos m)
                    + sin phi * (rx * sin phi * sin m - ry * cos phi * cos m)); [ring|].
      rewrite X, Y. ring. }
    assert (C0 : ry * cos m = 0).
    { transitivity (ry * cos m * (cos phi * cos phi + sin phi * sin phi)); [rewrite U; ring|].
      transitivity (sin phi * (rx * cos phi * sin m + ry * sin phi * cos m)
                    - cos phi * (rx * sin phi * sin m - ry * cos phi * cos m)); [ring|].
      rewrite X, Y. ring. }
    assert (sin m = 0) by (destruct (Rmult_integral _ _ S0); lra).
    assert (cos m = 0) by (destruct (Rmult_integral _ _ C0); lra).
    nra.
  Qed.
  Lemma absr : abs_radius NumR radius = (rx, ry).
  Proof. rewrite r0_eq. unfold radius. cbn [fst snd]. now rewrite !Rabs_right by lra. Qed.

  Lemma rc_val : arc_rc_of NumR NumTR start radius rot end_ = sin h * sin h.
  Proof.
    unfold arc_rc_of. rewrite absr. fold z. rewrite z_val. unfold arc_rc. rsimp.
    pose proof m_unit as Um.
    transitivity (sin h * sin h * (cos m * cos m + sin m * sin m)); [field; lra|]. rewrite Um. ring.
  Qed.

  Lemma rS_val : rS = (rx, ry).
  Proof.
    unfold rS, arc_radius_of. rewrite rc_val, absr. unfold arc_scaled_radius.
    cbn [ltb one NumR]. rewrite Rlt_b_f; [reflexivity|]. pose proof h_unit. nra.
  Qed.

  Lemma radicand_val : radicand * (sin h * sin h) = cos h * cos h.
  Proof.
    unfold radicand, arc_radicand_of. fold rS z. rewrite rS_val, z_val.
    unfold arc_radicand. rsimp. pose proof m_unit as Um. pose proof h_unit as Uh.
    pose proof sinh_ne0 as Hs.
    assert (E : rx * rx * (- ry * sin h * cos m * (- ry * sin h * cos m))
                + ry * ry * (rx * sin h * sin m * (rx * sin h * sin m))
                = rx * rx * (ry * ry) * (sin h * sin h)).
    { transitivity (rx * rx * (ry * ry) * (sin h * sin h) * (cos m * cos m + sin m * sin m)); [ring|].
      rewrite Um. ring. }
    rewrite E.
    transitivity (1 - sin h * sin h); [field; repeat split; lra|lra].
  Qed.

  Lemma Hr0x : fst radius <> 0.  Proof. unfold radius. cbn. lra. Qed.
  Lemma Hr0y : snd radius <> 0.  Proof. unfold radius. cbn. lra. Qed.

  Lemma radical_facts : 0 <= radical /\ radical * radical * (sin h * sin h) = cos h * cos h.
  Proof.
    split.
    - apply (radical_ge0 start radius end_ rot false Hse Hr0x Hr0y).
    - pose proof (radical_sq start radius end_ rot false Hse Hr0x Hr0y Hsnap) as H.
      fold radical radicand in H. rewrite H. apply radicand_val.
  Qed.

  (* the sign of c' relative to (rx*y/ry, -ry*x/rx) *)
  Let sg : R := if Bool.eqb large sweep then -1 else 1.

  Lemma delta_h : delta = h * 360 / PI.
  Proof. unfold h. pose proof PI_RGT_0. field. lra. Qed.

  Lemma key_sign : sg * radical * sin h = cos h.
  Proof.
    destruct radical_facts as [Hk Hk2]. destruct h_range as [[A B] Hn]. pose proof PI_RGT_0 as Hpi.
    assert (Hsg2 : sg * sg = 1) by (unfold sg; destruct (Bool.eqb large sweep); ring).
    assert (Hfin : 0 <= sg * sin h * cos h -> 0 <= sg * radical * sin h * cos h).
    { intros Hx. replace (sg * radical * sin h * cos h) with (radical * (sg * sin h * cos h)) by ring.
      apply Rmult_le_pos; assumption. }
    apply same_sign_sq.
    { transitivity (sg * sg * (radical * radical * (sin h * sin h))); [ring|]. rewrite Hsg2, Hk2. ring. }
    (* sign analysis on the four quadrants of h *)
    assert (Hdh : delta = h * 360 / PI) by apply delta_h.
    destruct (Rlt_dec 0 h) as [Hp|Hp].
    - assert (Hs : 0 < sin h) by (apply sin_gt_0; lra).
      assert (Hswt : sweep = true).
      { apply Hsw. rewrite Hdh. apply Rdiv_lt_0_compat; nra. }
      destruct (Rle_lt_dec h (PI / 2)) as [Hq|Hq].
      + (* 0 < delta <= 180 *)
        assert (Hc : 0 <= cos h).
        { destruct (Req_dec h (PI / 2)) as [->|Hne]; [rewrite cos_PI2; lra|].
          apply Rlt_le, cos_gt_0; lra. }
        destruct (Req_dec (cos h) 0) as [E0|E0]; [rewrite E0, Rmult_0_r; lra|].
        assert (Hlt : h < PI / 2).
        { destruct (Req_dec h (PI / 2)) as [E|E]; [|lra]. exfalso. apply E0. rewrite E. apply cos_PI2. }
        assert (HL : large = false).
        { apply Hl2. rewrite Hdh. rewrite Rabs_right; [|apply Rle_ge, Rlt_le, Rdiv_lt_0_compat; nra].
          apply Rmult_lt_reg_r with PI; [lra|]. unfold Rdiv. rewrite Rmult_assoc, Rinv_l by lra. nra. }
        apply Hfin. unfold sg. rewrite HL, Hswt. cbn [Bool.eqb]. nra.
      + (* 180 < delta < 360 *)
        assert (Hc : cos h < 0) by (apply cos_lt_0; lra).
        assert (HL : large = true).
        { apply Hl1. rewrite Hdh. rewrite Rabs_right; [|apply Rle_ge, Rlt_le, Rdiv_lt_0_compat; nra].
          apply Rmult_lt_reg_r with PI; [lra|]. unfold Rdiv. rewrite Rmult_assoc, Rinv_l by lra. nra. }
        apply Hfin. unfold sg. rewrite HL, Hswt. cbn [Bool.eqb]. nra.
    - assert (Hneg : h < 0) by lra.
      assert (Hs : sin h < 0) by (apply sin_lt_0_var; lra).
      assert (Hswf : sweep = false).
      { destruct sweep; [|reflexivity]. exfalso.
        assert (0 < delta) by (apply Hsw; reflexivity).
        assert (delta < 0); [|lra]. rewrite Hdh.
        apply Ropp_lt_cancel. rewrite Ropp_0.
        replace (- (h * 360 / PI)) with ((- h) * 360 / PI) by (field; lra).
        apply Rdiv_lt_0_compat; nra. }
      assert (Habs : Rabs delta = (- h) * 360 / PI).
      { rewrite Hdh. rewrite Rabs_left.
        - field; lra.
        - apply Ropp_lt_cancel. rewrite Ropp_0.
          replace (- (h * 360 / PI)) with ((- h) * 360 / PI) by (field; lra).
          apply Rdiv_lt_0_compat; nra. }
      destruct (Rle_lt_dec (- (PI / 2)) h) as [Hq|Hq].
      + (* -180 <= delta < 0 *)
        assert (Hc : 0 <= cos h).
        { destruct (Req_dec h (- (PI / 2))) as [->|Hne]; [rewrite cos_neg, cos_PI2; lra|].
          apply Rlt_le, cos_gt_0; lra. }
        destruct (Req_dec (cos h) 0) as [E0|E0]; [rewrite E0, Rmult_0_r; lra|].
        assert (Hlt : - (PI / 2) < h).
        { destruct (Req_dec h (- (PI / 2))) as [E|E]; [|lra]. exfalso. apply E0. rewrite E, cos_neg. apply cos_PI2. }
        assert (HL : large = false).
        { apply Hl2. rewrite Habs.
          apply Rmult_lt_reg_r with PI; [lra|]. unfold Rdiv. rewrite Rmult_assoc, Rinv_l by lra. nra. }
        apply Hfin. unfold sg. rewrite HL, Hswf. cbn [Bool.eqb]. nra.
      + (* -360 < delta < -180 *)
        assert (Hc : cos h < 0).
        { rewrite <- cos_neg. apply cos_lt_0; lra. }
        assert (HL : large = true).
        { apply Hl1. rewrite Habs.
          apply Rmult_lt_reg_r with PI; [lra|]. unfold Rdiv. rewrite Rmult_assoc, Rinv_l by lra. nra. }
        apply Hfin. unfold sg. rewrite HL, Hswf. cbn [Bool.eqb]. nra.
  Qed.
  Lemma cp_val : cp = (- rx * cos h * cos m, - ry * cos h * sin m).
  Proof.
    unfold cp. rewrite (cp_eq start radius end_ rot large sweep false). fold rS z radical.
    rewrite rS_val, z_val. pose proof key_sign as K. unfold sg in K.
    unfold arc_cp. cbn [fst snd re im]. destruct (Bool.eqb large sweep); rsimp;
      apply cplx_eq; cbn [fst snd].
    - transitivity (- rx * cos m * (-1 * radical * sin h)); [field; lra|]. rewrite K. ring.
    - transitivity (- ry * sin m * (-1 * radical * sin h)); [field; lra|]. rewrite K. ring.
    - transitivity (- rx * cos m * (1 * radical * sin h)); [field; lra|]. rewrite K. ring.
    - transitivity (- ry * sin m * (1 * radical * sin h)); [field; lra|]. rewrite K. ring.
  Qed.

  Lemma u1_val : u1 = (cos (m - h), sin (m - h)).
  Proof.
    unfold u1. rewrite (u1_noclip start radius end_ rot large sweep false Hse Hr0x Hr0y).
    fold rS z cp. rewrite rS_val, z_val, cp_val. unfold arc_u1_raw. rsimp.
    rewrite cos_minus, sin_minus. apply cplx_eq; cbn [fst snd]; field; lra.
  Qed.
  Lemma u2_val : u2 = (cos (m + h), sin (m + h)).
  Proof.
    unfold u2. rewrite (u2_noclip start radius end_ rot large sweep false Hse Hr0x Hr0y).
    fold rS z cp. rewrite rS_val, z_val, cp_val. unfold arc_u2_raw. rsimp.
    rewrite cos_plus, sin_plus. apply cplx_eq; cbn [fst snd]; field; lra.
  Qed.

  Lemma center_val : a_center Q = c.
  Proof.
    destruct (P_fields start radius end_ rot large sweep false) as (_ & Hc & _).
    unfold Q, arc_init. rewrite Hc.
    rewrite (center_eq start radius end_ rot large sweep false). fold phi cp.
    destruct midsum as [-> ->]. rewrite cp_val. cbn [fst snd].
    pose proof phi_unit as U. destruct c as [cx cy]. cbn [fst snd].
    apply cplx_eq; cbn [fst snd].
    - transitivity (cx + ry * cos h * sin m * 0); [|ring]. ring.
    - ring.
  Qed.
  Lemma theta_val :
    cos (a_theta Q * PI / 180) = cos (m - h) /\ sin (a_theta Q * PI / 180) = sin (m - h).
  Proof.
    change (a_theta Q) with (arc_theta NumR NumTR u1). rewrite theta_ang, u1_val. cbn [fst snd].
    apply ang_cos_sin. pose proof (sin2_cos2 (m - h)) as H. unfold Rsqr in H. lra.
  Qed.

  Lemma dot_det_val : arc_dot NumR u1 u2 = cos (2 * h) /\ arc_det NumR u1 u2 = sin (2 * h).
  Proof.
    rewrite u1_val, u2_val. unfold arc_dot, arc_det. rsimp.
    replace (2 * h) with ((m + h) - (m - h)) by ring. rewrite (cos_minus (m + h) (m - h)), (sin_minus (m + h) (m - h)). split; ring.
  Qed.

  Lemma delta_bounds : (0 < a_delta Q < 360 /\ sweep = true) \/ (-360 < a_delta Q < 0 /\ sweep = false).
  Proof.
    destruct (arc_delta_cases start radius end_ rot large sweep false Hse Hr0x Hr0y)
      as [[_ H]|[_ [H|[H|[H|H]]]]];
      change (arc_init_v NumR NumTR false start radius rot large sweep end_) with Q in H.
    - destruct (bool_cases sweep) as [E|E]; rewrite E in H at 1; [left|right]; rewrite H; split; try exact E; lra.
    - destruct H as (_ & E & H). left. split; [lra|exact E].
    - destruct H as (_ & E & H). right. split; [lra|exact E].
    - destruct H as (_ & E & H). left. split; [lra|exact E].
    - destruct H as (_ & E & H). right. split; [lra|exact E].
  Qed.

  Lemma delta_val : a_delta Q = delta.
  Proof.
    pose proof PI_RGT_0 as Hpi.
    destruct dot_det_val as [Hdot Hdet].
    assert (Hrange : -1 <= arc_dot NumR u1 u2 <= 1).
    { rewrite Hdot. pose proof (COS_bound (2 * h)). lra. }
    pose proof (delta0_ang u1 u2 Hrange) as Hang. rewrite Hdot, Hdet in Hang.
    assert (Hu : cos (2 * h) * cos (2 * h) + sin (2 * h) * sin (2 * h) = 1).
    { pose proof (sin2_cos2 (2 * h)) as H. unfold Rsqr in H. lra. }
    destruct (ang_cos_sin _ _ Hu) as [Hc Hs]. rewrite <- Hang in Hc, Hs.
    set (D0 := arc_delta0 NumR NumTR u1 u2) in *.
    assert (HQ : a_delta Q = arc_adjust NumR large sweep D0) by reflexivity.
    assert (Hcs : cos (a_delta Q * PI / 180) = cos (2 * h) /\ sin (a_delta Q * PI / 180) = sin (2 * h)).
    { rewrite HQ. destruct (adjust_cases large sweep D0) as [->|[->| ->]].
      - split; assumption.
      - replace ((D0 - 360) * PI / 180) with (D0 * PI / 180 - 2 * PI) by field.
        rewrite cos_minus, sin_minus, cos_2PI, sin_2PI, Hc, Hs. split; ring.
      - replace ((D0 + 360) * PI / 180) with (D0 * PI / 180 + 2 * PI) by field.
        rewrite cos_plus, sin_plus, cos_2PI, sin_2PI, Hc, Hs. split; ring. }
    destruct Hcs as [Hc' Hs'].
    assert (E : a_delta Q * PI / 180 = 2 * h).
    { apply angle_unique; [exact Hc'|exact Hs'|].
      replace (a_delta Q * PI / 180 - 2 * h) with ((a_delta Q - delta) * (PI / 180)) by (unfold h; field).
      assert (Hb : -360 < a_delta Q - delta < 360).
      { destruct delta_bounds as [[B E]|[B E]].
        - assert (0 < delta) by (apply Hsw; exact E). lra.
        - assert (~ 0 < delta) by (intros X; apply Hsw in X; congruence). lra. }
      assert (Hk : 0 < PI / 180) by (apply Rdiv_lt_0_compat; lra).
      replace (-2 * PI) with (-360 * (PI / 180)) by field.
      replace (2 * PI) with (360 * (PI / 180)) by field.
      split; apply Rmult_lt_compat_r; lra. }
    unfold h in E. apply Rmult_eq_reg_r with (PI / 180); [|apply Rgt_not_eq, Rdiv_lt_0_compat; lra].
    transitivity (a_delta Q * PI / 180); [field|]. rewrite E. field.
  Qed.

  (* the constructor gives back the centre parameterisation *)
  Theorem arc_init_roundtrip :
    a_radius Q = (rx, ry) /\ a_center Q = c /\ a_delta Q = delta /\
    cos (a_theta Q * PI / 180) = cos (m - h) /\ sin (a_theta Q * PI / 180) = sin (m - h) /\
    a_rot Q = (cos phi, sin phi).
  Proof.
    destruct theta_val as [A B].
    repeat split; [apply rS_val|apply center_val|apply delta_val|exact A|exact B].
  Qed.

  Theorem arc_init_roundtrip_point t :
    arc_point NumR NumTR Q t = ell (cos phi) (sin phi) (m - h + t * (delta * PI / 180)).
  Proof.
    destruct arc_init_roundtrip as (Hr & Hc & Hdl & Hct & Hst & Hm).
    unfold arc_point. rewrite Hr, Hc, Hdl, Hm. rsimp.
    replace ((a_theta Q + t * delta) * PI / 180)
      with (a_theta Q * PI / 180 + t * (delta * PI / 180)) by field.
    unfold ell. rewrite !(cos_plus (a_theta Q * PI / 180)), !(sin_plus (a_theta Q * PI / 180)), Hct, Hst.
    rewrite (cos_plus (m - h)), (sin_plus (m - h)).
    apply cplx_eq; cbn [fst snd]; ring.
  Qed.
End Roundtrip.

(* the round trip with start angle a and end angle a + delta (radians: delta*PI/180) *)
Lemma arc_init_roundtrip' (c : C) (rot rx ry a delta : R) (large sweep : bool) :
  0 < rx -> 0 < ry -> delta <> 0 -> -360 < delta < 360 ->
  (sweep = true <-> 0 < delta) ->
  (180 < Rabs delta -> large = true) -> (Rabs delta < 180 -> large = false) ->
  let cphi := cos (arc_phi NumTR rot) in let sphi := sin (arc_phi NumTR rot) in
  let st := ell c rx ry cphi sphi a in
  let en := ell c rx ry cphi sphi (a + delta * PI / 180) in
  snap_inactive st (rx, ry) en rot false ->
  forall t, arc_point NumR NumTR (arc_init NumR NumTR st (rx, ry) rot large sweep en) t
            = ell c rx ry cphi sphi (a + t * (delta * PI / 180)).
Proof.
  intros Hrx Hry Hd0 Hd Hsw Hl1 Hl2 cphi sphi st en Hsn t.
  pose proof (arc_init_roundtrip_point c rot rx ry a delta large sweep Hrx Hry Hd0 Hd Hsw Hl1 Hl2) as H.
  replace (a + delta * PI / 360 - delta * PI / 360) with a in H by field.
  replace (a + delta * PI / 360 + delta * PI / 360) with (a + delta * PI / 180) in H by field.
  exact (H Hsn t).
Qed.

(* the radicand of _parameterize in terms of the arc's angular extent: cot^2(delta/2) *)
Lemma radicand_center_form (c : C) (rot rx ry a delta : R) :
  0 < rx -> 0 < ry -> delta <> 0 -> -360 < delta < 360 ->
  let cphi := cos (arc_phi NumTR rot) in let sphi := sin (arc_phi NumTR rot) in
  arc_radicand_of NumR NumTR (ell c rx ry cphi sphi a) (rx, ry) rot
                  (ell c rx ry cphi sphi (a + delta * PI / 180))
  * (sin (delta * PI / 360) * sin (delta * PI / 360))
  = cos (delta * PI / 360) * cos (delta * PI / 360).
Proof.
  intros Hrx Hry Hd0 Hd cphi sphi.
  pose proof (radicand_val c rot rx ry a delta Hrx Hry Hd0 Hd) as H.
  replace (a + delta * PI / 360 - delta * PI / 360) with a in H by field.
  replace (a + delta * PI / 360 + delta * PI / 360) with (a + delta * PI / 180) in H by field.
  exact H.
Qed.

(* ================================================================== *)
(* Part C: the repaired Arc branch of transform()                        *)
(* ================================================================== *)
Lemma deg_rad' x : arc_phi NumTR (degrees_ NumTR x) = x.
Proof. unfold arc_phi. cbn [radians_ degrees_ NumTR]. apply deg_rad. Qed.

Section Compose.
  Variables start radius end_ : C.
  Variable rotation : R.
  Variables large sweep : bool.
  Hypothesis Hse : start <> end_.
  Hypothesis Hrx0 : fst radius <> 0.
  Hypothesis Hry0 : snd radius <> 0.
  Hypothesis Hsn : snap_inactive start radius end_ rotation false.
  Variables a00 a01 a02 a10 a11 a12 r20 r21 r22 : R.
  Let M : Mat3 R := ((a00, a01, a02), (a10, a11, a12), (r20, r21, r22)).
  Let det := a00 * a11 - a01 * a10.
  Hypothesis Hdet : det <> 0.

  Let P := arc_init NumR NumTR start radius rotation large sweep end_.
  Let phi := arc_phi NumTR rotation.
  Let Rx := fst (a_radius P).
  Let Ry := snd (a_radius P).
  Let cP := a_center P.
  Let th0 := a_theta P * PI / 180.
  Let dl := a_delta P.

  Lemma Rxy_pos : 0 < Rx /\ 0 < Ry.
  Proof. apply (rS_pos start radius end_ rotation Hrx0 Hry0). Qed.

  (* M2 = A.R(phi).diag(Rx, Ry) *)
  Let m00 := (a00 * cos phi + a01 * sin phi) * Rx.
  Let m01 := (a01 * cos phi - a00 * sin phi) * Ry.
  Let m10 := (a10 * cos phi + a11 * sin phi) * Rx.
  Let m11 := (a11 * cos phi - a10 * sin phi) * Ry.

  Lemma tfM_val : arc_tf_M NumR M P = ((m00, m01), (m10, m11)).
  Proof. reflexivity. Qed.

  Lemma dM_val : m00 * m11 - m01 * m10 = det * Rx * Ry.
  Proof.
    pose proof (sin2_cos2 phi) as U. unfold Rsqr in U.
    transitivity (det * Rx * Ry * (cos phi * cos phi + sin phi * sin phi)); [unfold m00, m01, m10, m11, det; ring|].
    replace (cos phi * cos phi + sin phi * sin phi) with 1 by lra. ring.
  Qed.
  Lemma HdM : m00 * m11 - m01 * m10 <> 0.
  Proof.
    rewrite dM_val. destruct Rxy_pos. intros E.
    destruct (Rmult_integral _ _ E) as [E1|E1]; [|lra].
    destruct (Rmult_integral _ _ E1); [contradiction|lra].
  Qed.

  Let nrx := ie_nrx m00 m01 m10 m11.
  Let nry := ie_nry m00 m01 m10 m11.
  Let psi := ie_psi m00 m01 m10 m11.
  Let sgn := ie_sgn m00 m01 m10 m11.
  Let alpha := img_alpha m00 m01 m10 m11.
  Let c' := tf_point NumR M cP.

  Lemma sgn_det : (sgn = 1 /\ 0 < det) \/ (sgn = -1 /\ det < 0).
  Proof.
    destruct Rxy_pos as [A B].
    destruct (ie_sgn_cases m00 m01 m10 m11 HdM) as [[E H]|[E H]]; unfold ie_dM in H; rewrite dM_val in H.
    - left. split; [exact E|]. assert (0 < Rx * Ry) by nra. nra.
    - right. split; [exact E|]. assert (0 < Rx * Ry) by nra. nra.
  Qed.

  (* the old arc in centre form *)
  Lemma P_point t : arc_point NumR NumTR P t = ell cP Rx Ry (cos phi) (sin phi) (th0 + t * (dl * PI / 180)).
  Proof.
    unfold arc_point, ell, th0, dl, Rx, Ry, cP. rsimp.
    replace ((a_theta P + t * a_delta P) * PI / 180) with (a_theta P * PI / 180 + t * (a_delta P * PI / 180)) by field.
    reflexivity.
  Qed.

  (* the image of a point of the ellipse of P *)
  Lemma image_point theta :
    tf_point NumR M (ell cP Rx Ry (cos phi) (sin phi) theta)
    = ell c' nrx nry (cos psi) (sin psi) (sgn * theta + alpha).
  Proof.
    destruct (ie_image_param m00 m01 m10 m11 HdM theta) as [E1 E2].
    fold nrx nry psi sgn alpha in E1, E2.
    unfold ell, c', tf_point, M. destruct cP as [cx cy]. rsimp.
    apply cplx_eq; cbn [fst snd].
    - transitivity (m00 * cos theta + m01 * sin theta + (a00 * cx + a01 * cy + a02 * 1));
        [unfold m00, m01; ring|]. rewrite E1. ring.
    - transitivity (m10 * cos theta + m11 * sin theta + (a10 * cx + a11 * cy + a12 * 1));
        [unfold m10, m11; ring|]. rewrite E2. ring.
  Qed.
  Lemma dl_facts : dl <> 0 /\ -360 < dl < 360 /\ (sweep = true <-> 0 < dl)
                   /\ (180 < Rabs dl -> large = true) /\ (Rabs dl < 180 -> large = false).
  Proof.
    unfold dl, P, arc_init.
    destruct (arc_delta_cases start radius end_ rotation large sweep false Hse Hrx0 Hry0)
      as [[_ H]|[_ [H|[H|[H|H]]]]].
    - rewrite H. destruct sweep.
      + rewrite (Rabs_right 180) by lra. repeat split; try lra; intros; try reflexivity; lra.
      + rewrite (Rabs_left (-180)) by lra. repeat split; try lra; intros; try discriminate; lra.
    - destruct H as (-> & -> & H). rewrite Rabs_right by lra.
      repeat split; try lra; intros; try reflexivity; lra.
    - destruct H as (-> & -> & H). rewrite Rabs_left by lra.
      repeat split; try lra; intros; try discriminate; try reflexivity; lra.
    - destruct H as (-> & -> & H). rewrite Rabs_right by lra.
      repeat split; try lra; intros; try reflexivity; lra.
    - destruct H as (-> & -> & H). rewrite Rabs_left by lra.
      repeat split; try lra; intros; try discriminate; try reflexivity; lra.
  Qed.

  (* the model's new radii and rotation are those of Part A *)
  Lemma new_rx_val : arc_tf_new_rx NumR NumTR M P = nrx.
  Proof.
    unfold arc_tf_new_rx. rewrite tfM_val.
    unfold arc_tf_lam, arc_tf_half_diff, arc_tf_pqr, nrx, ie_nrx. rsimp. reflexivity.
  Qed.
  Lemma new_ry_val : arc_tf_new_ry NumR NumTR M P = nry.
  Proof.
    unfold arc_tf_new_ry. rewrite new_rx_val. destruct Rxy_pos as [A B].
    unfold nry, ie_nry. fold nrx. cbv zeta. rewrite dM_val.
    unfold tf_det, M. rsimp. rewrite nabs_R. fold det. fold Rx Ry.
    rewrite !Rabs_mult, (Rabs_right Rx), (Rabs_right Ry) by lra.
    change (ie_nrx m00 m01 m10 m11) with nrx. reflexivity.
  Qed.
  Lemma new_rot_phi : arc_phi NumTR (arc_tf_new_rot NumR NumTR M P) = psi.
  Proof.
    unfold arc_tf_new_rot. rewrite tfM_val.
    unfold arc_tf_pqr, arc_tf_half_diff. rewrite deg_rad'. rsimp. reflexivity.
  Qed.
  Lemma lam_val : arc_tf_lam NumR NumTR (arc_tf_pqr NumR (arc_tf_M NumR M P)) = ie_lam m00 m01 m10 m11.
  Proof.
    rewrite tfM_val. unfold arc_tf_lam, arc_tf_half_diff, arc_tf_pqr, ie_lam. rsimp. reflexivity.
  Qed.
  Let new_sweep : bool := if Rlt_b 0 det then sweep else negb sweep.
  Let new_start := tf_point NumR M start.
  Let new_end := tf_point NumR M end_.
  Let new_rot := arc_tf_new_rot NumR NumTR M P.
  Let Q := arc_init NumR NumTR new_start (nrx, nry) new_rot large new_sweep new_end.

  Lemma start_img : new_start = ell c' nrx nry (cos psi) (sin psi) (sgn * th0 + alpha).
  Proof.
    unfold new_start. rewrite <- (arc_point0 start radius end_ rotation large sweep false Hse Hrx0 Hry0 Hsn) at 1.
    change (arc_init_v NumR NumTR false start radius rotation large sweep end_) with P.
    rewrite P_point, image_point. f_equal. ring.
  Qed.
  Lemma end_img : new_end = ell c' nrx nry (cos psi) (sin psi) (sgn * th0 + alpha + (sgn * dl) * PI / 180).
  Proof.
    unfold new_end. rewrite <- (arc_point1 start radius end_ rotation large sweep false Hse Hrx0 Hry0 Hsn) at 1.
    change (arc_init_v NumR NumTR false start radius rotation large sweep end_) with P.
    rewrite P_point, image_point. f_equal. field.
  Qed.

  (* the branch taken: an Arc, with these constructor arguments *)
  Lemma fixed_branch : mat_is_identity NumR M = false ->
    arc_transform_fixed NumR NumTR M P = SArc Q.
  Proof.
    intros Hid. unfold arc_transform_fixed. rewrite Hid.
    rewrite lam_val, new_ry_val, new_rx_val.
    pose proof (ie_lam_pos m00 m01 m10 m11 HdM) as Hl. pose proof (ie_nry_pos m00 m01 m10 m11 HdM) as Hn.
    fold nry in Hn.
    assert (E1 : eqb NumR (tf_det NumR M) (zero NumR) = false).
    { unfold tf_det, M. rsimp. fold det. destruct (Req_b det 0) eqn:E; [|reflexivity].
      apply Req_b_true in E. contradiction. }
    rewrite E1. cbn [orb ltb NumR zero]. rewrite Rlt_b_t by exact Hl. cbn [negb].
    assert (E2 : eqb NumR nry 0 = false).
    { cbn [eqb NumR]. destruct (Req_b nry 0) eqn:E; [|reflexivity]. apply Req_b_true in E. lra. }
    rewrite E2. reflexivity.
  Qed.

  Lemma new_flags :
    sgn * dl <> 0 /\ -360 < sgn * dl < 360 /\ (new_sweep = true <-> 0 < sgn * dl)
    /\ (180 < Rabs (sgn * dl) -> large = true) /\ (Rabs (sgn * dl) < 180 -> large = false).
  Proof.
    destruct dl_facts as (D0 & Dr & Ds & Dl1 & Dl2). unfold new_sweep.
    destruct sgn_det as [[-> Hp]|[-> Hn]].
    - rewrite Rlt_b_t by exact Hp. rewrite !Rmult_1_l.
      split; [exact D0|split; [exact Dr|split; [exact Ds|split; assumption]]].
    - rewrite Rlt_b_f by lra.
      replace (-1 * dl) with (- dl) by ring. rewrite Rabs_Ropp.
      split; [lra|split; [lra|split; [|split; assumption]]].
      split.
      + intros E. destruct sweep; cbn in E; try discriminate.
        assert (~ 0 < dl) by (intros X; apply Ds in X; discriminate). lra.
      + intros Hx. destruct sweep; cbn; [|reflexivity]. exfalso.
        assert (0 < dl) by (apply Ds; reflexivity). lra.
  Qed.

  (* transform(arc, tf).point(t) = tf.(arc.point(t)) *)
  Theorem fixed_point_commutes :
    snap_inactive new_start (nrx, nry) new_end new_rot false ->
    forall t, arc_point NumR NumTR Q t = tf_point NumR M (arc_point NumR NumTR P t).
  Proof.
    intros Hsn' t.
    destruct new_flags as (F0 & Fr & Fs & Fl1 & Fl2).
    pose proof (ie_nrx_pos m00 m01 m10 m11 HdM) as Hx. pose proof (ie_nry_pos m00 m01 m10 m11 HdM) as Hy.
    fold nrx in Hx. fold nry in Hy.
    pose proof (arc_init_roundtrip' c' new_rot nrx nry (sgn * th0 + alpha) (sgn * dl) large new_sweep
                                    Hx Hy F0 Fr Fs Fl1 Fl2) as H.
    cbv zeta in H. pose proof new_rot_phi as Ephi. fold new_rot in Ephi. rewrite !Ephi in H.
    rewrite <- start_img, <- end_img in H. fold Q in H.
    rewrite (H Hsn' t), P_point, image_point. f_equal. field.
  Qed.
  (* the snap decision of the new arc is that of the old one: both radicands are cot^2(delta/2) *)
  Lemma radicand_same :
    arc_radicand_of NumR NumTR new_start (nrx, nry) new_rot new_end
    = arc_radicand_of NumR NumTR start radius rotation end_.
  Proof.
    destruct dl_facts as (D0 & Dr & _). destruct new_flags as (F0 & Fr & _).
    destruct Rxy_pos as [HRx HRy].
    pose proof (ie_nrx_pos m00 m01 m10 m11 HdM) as Hx. pose proof (ie_nry_pos m00 m01 m10 m11 HdM) as Hy.
    fold nrx in Hx. fold nry in Hy.
    (* old arc, through its stored radius *)
    pose proof (radicand_center_form cP rotation Rx Ry th0 dl HRx HRy D0 Dr) as Ho. cbv zeta in Ho.
    fold phi in Ho.
    assert (Es : ell cP Rx Ry (cos phi) (sin phi) th0 = start).
    { rewrite <- (arc_point0 start radius end_ rotation large sweep false Hse Hrx0 Hry0 Hsn).
      change (arc_init_v NumR NumTR false start radius rotation large sweep end_) with P.
      rewrite P_point. f_equal. ring. }
    assert (Ee : ell cP Rx Ry (cos phi) (sin phi) (th0 + dl * PI / 180) = end_).
    { rewrite <- (arc_point1 start radius end_ rotation large sweep false Hse Hrx0 Hry0 Hsn).
      change (arc_init_v NumR NumTR false start radius rotation large sweep end_) with P.
      rewrite P_point. f_equal. field. }
    rewrite Es, Ee in Ho.
    assert (Er : arc_radicand_of NumR NumTR start (Rx, Ry) rotation end_
                 = arc_radicand_of NumR NumTR start radius rotation end_).
    { unfold Rx, Ry, P, arc_init, arc_init_v. cbn [a_radius]. rewrite <- surjective_pairing.
      unfold arc_radicand_of at 1.
      now rewrite (radius_of_stored start radius end_ rotation Hse Hrx0 Hry0). }
    rewrite Er in Ho.
    (* new arc *)
    pose proof (radicand_center_form c' new_rot nrx nry (sgn * th0 + alpha) (sgn * dl) Hx Hy F0 Fr) as Hn.
    cbv zeta in Hn. pose proof new_rot_phi as Ephi. fold new_rot in Ephi. rewrite !Ephi in Hn.
    rewrite <- start_img, <- end_img in Hn.
    assert (Hsq : sin (sgn * dl * PI / 360) * sin (sgn * dl * PI / 360) = sin (dl * PI / 360) * sin (dl * PI / 360)
               /\ cos (sgn * dl * PI / 360) * cos (sgn * dl * PI / 360) = cos (dl * PI / 360) * cos (dl * PI / 360)).
    { destruct sgn_det as [[-> _]|[-> _]].
      - rewrite !Rmult_1_l. split; reflexivity.
      - replace (-1 * dl * PI / 360) with (- (dl * PI / 360)) by field.
        rewrite sin_neg, cos_neg. split; ring. }
    destruct Hsq as [Hs1 Hs2]. rewrite Hs1, Hs2 in Hn.
    pose proof (sinh_ne0 dl D0 Dr) as Hne.
    apply Rmult_eq_reg_r with (sin (dl * PI / 360) * sin (dl * PI / 360)).
    - rewrite Hn, Ho. reflexivity.
    - intros E. destruct (Rmult_integral _ _ E); contradiction.
  Qed.

  Lemma new_snap : snap_inactive new_start (nrx, nry) new_end new_rot false.
  Proof.
    unfold snap_inactive in *. rewrite radicand_same. exact Hsn.
  Qed.

  (* C10_arc_transform: transform(arc, tf) is an Arc with the same large_arc flag, sweep flipped
     iff det < 0, and transform(arc, tf).point(t) = tf.(arc.point(t)) for every t *)
  Theorem arc_transform_fixed_commutes : mat_is_identity NumR M = false ->
    exists Q', arc_transform_fixed NumR NumTR M P = SArc Q' /\
      a_large Q' = large /\ a_sweep Q' = (if Rlt_b 0 det then sweep else negb sweep) /\
      forall t, arc_point NumR NumTR Q' t = tf_point NumR M (arc_point NumR NumTR P t).
  Proof.
    intros Hid. exists Q. split; [exact (fixed_branch Hid)|]. split; [reflexivity|]. split; [reflexivity|].
    exact (fixed_point_commutes new_snap).
  Qed.
End Compose.

(* the other two branches *)
Lemma arc_transform_fixed_identity (M : Mat3 R) (P : ArcP R) :
  mat_is_identity NumR M = true ->
  arc_transform_fixed NumR NumTR M P = SArc P /\ forall z, tf_point NumR M z = z.
Proof.
  intros H. split; [unfold arc_transform_fixed; now rewrite H|].
  destruct M as [[[[m00 m01] m02] [[m10 m11] m12]] [[m20 m21] m22]].
  unfold mat_is_identity in H. cbn [eqb NumR one zero] in H.
  repeat (apply andb_prop in H; destruct H as [H ?]).
  repeat match goal with E : Req_b _ _ = true |- _ => apply Req_b_true in E end. subst.
  intros [x y]. unfold tf_point. rsimp. apply cplx_eq; cbn [fst snd]; ring.
Qed.

(* singular tf: the image is flat and the branch returns Line(new_start, new_end) *)
Lemma arc_transform_fixed_singular a00 a01 a02 a10 a11 a12 r20 r21 r22 (P : ArcP R) :
  let M : Mat3 R := ((a00, a01, a02), (a10, a11, a12), (r20, r21, r22)) in
  a00 * a11 - a01 * a10 = 0 ->
  arc_transform_fixed NumR NumTR M P = SBez [tf_point NumR M (a_start P); tf_point NumR M (a_end P)].
Proof.
  intros M H. unfold arc_transform_fixed.
  assert (Hid : mat_is_identity NumR M = false).
  { destruct (mat_is_identity NumR M) eqn:E; [|reflexivity]. exfalso.
    unfold mat_is_identity, M in E. cbn [eqb NumR one zero] in E.
    repeat (apply andb_prop in E; destruct E as [E ?]).
    repeat match goal with E : Req_b _ _ = true |- _ => apply Req_b_true in E end. subst. lra. }
  rewrite Hid.
  assert (E : eqb NumR (tf_det NumR M) (zero NumR) = true).
  { unfold tf_det, M. rsimp. apply Req_b_true. exact H. }
  rewrite E. reflexivity.
Qed.

(* non-vacuity: the upper unit half circle under tf = [[1,2,3],[1,1,-1],[0,0,1]] (det = -1) *)
Lemma arc_transform_fixed_nonvacuous :
  exists Q, arc_transform_fixed NumR NumTR ((1, 2, 3), (1, 1, -1), (0, 0, 1))
                                (arc_init NumR NumTR Wstart Wrad 0 false true Wend) = SArc Q
            /\ a_large Q = false /\ a_sweep Q = false.
Proof.
  destruct W_adm as [A [B C0]].
  assert (Hs : snap_inactive Wstart Wrad Wend 0 false).
  { intros _. apply (radicand_scaled Wstart Wrad Wend 0 A B C0). rewrite W_rc. lra. }
  assert (Hdet : 1 * 1 - 2 * 1 <> 0) by lra.
  assert (Hid : mat_is_identity NumR ((1, 2, 3), (1, 1, -1), (0, 0, 1)) = false).
  { unfold mat_is_identity. cbn [eqb NumR one zero].
    assert (E : Req_b 2 0 = false) by (destruct (Req_b 2 0) eqn:E; [apply Req_b_true in E; lra|reflexivity]).
    rewrite E. now rewrite andb_false_r. }
  destruct (arc_transform_fixed_commutes Wstart Wrad Wend 0 false true A B C0 Hs
              1 2 3 1 1 (-1) 0 0 1 Hdet Hid) as (Q & E & HL & HS & _).
  exists Q. split; [exact E|]. split; [exact HL|]. rewrite HS.
  rewrite Rlt_b_f by lra. reflexivity.
Qed.
