(* Proofs/DstrFloat.v — binary64 satisfies the two laws the absolute-form
   theorems of C01 ask of the carrier (Proofs/DstrLaws.v): IEEE `==` is
   symmetric and transitive (NaN is related to nothing, -0.0 == 0.0), and
   a - b == x, b == b' give a - b' == x.  Proved from the specification of
   Coq's primitive floats (Floats.FloatAxioms: eqb_spec, sub_spec — the link
   between the primitive operations and SpecFloat; they appear in
   Print Assumptions). *)
From Coq Require Import ZArith Bool Floats.
From SVP Require Import Base.Num Base.FloatK Proofs.DstrLaws.

Definition sfrel (a b : spec_float) : Prop :=
  match a, b with
  | S754_zero _, S754_zero _ => True
  | S754_nan, _ | _, S754_nan => False
  | _, _ => a = b
  end.

Lemma CompOpp_Eq c : CompOpp c = Eq -> c = Eq.
Proof. destruct c; cbn; congruence. Qed.

Lemma finite_cmp (s : bool) ma ea mb eb :
  match (if s
         then match (ea ?= eb)%Z with
              | Eq => CompOpp (Pos.compare_cont Eq ma mb) | Lt => Gt | Gt => Lt end
         else match (ea ?= eb)%Z with
              | Eq => Pos.compare_cont Eq ma mb | Lt => Lt | Gt => Gt end)
  with Eq => true | _ => false end = true
  <-> S754_finite s ma ea = S754_finite s mb eb.
Proof.
  split.
  - intros H. destruct (ea ?= eb)%Z eqn:Ce; [|destruct s; discriminate H|destruct s; discriminate H].
    apply Z.compare_eq in Ce. subst.
    destruct (Pos.compare_cont Eq ma mb) eqn:Cm; [|destruct s; discriminate H|destruct s; discriminate H].
    apply Pos.compare_eq in Cm. subst. reflexivity.
  - intros H. inversion H; subst. rewrite Z.compare_refl, Pos.compare_cont_refl. destruct s; reflexivity.
Qed.

Lemma SFeqb_rel a b : SFeqb a b = true <-> sfrel a b.
Proof.
  unfold SFeqb, sfrel.
  destruct a as [sa|sa| |sa ma ea], b as [sb|sb| |sb mb eb]; cbn [SFcompare].
  - tauto.
  - destruct sb; split; discriminate.
  - split; [discriminate|contradiction].
  - destruct sb; split; discriminate.
  - destruct sa; split; discriminate.
  - destruct sa, sb; split; try discriminate; reflexivity.
  - split; [discriminate|contradiction].
  - destruct sa; split; discriminate.
  - split; [discriminate|contradiction].
  - split; [discriminate|contradiction].
  - split; [discriminate|contradiction].
  - split; [discriminate|contradiction].
  - destruct sa; split; discriminate.
  - destruct sb; split; discriminate.
  - split; [discriminate|contradiction].
  - destruct sa, sb.
    + apply (finite_cmp true).
    + split; discriminate.
    + split; discriminate.
    + apply (finite_cmp false).
Qed.

Lemma sfrel_sym a b : sfrel a b -> sfrel b a.
Proof. unfold sfrel. destruct a, b; intros H; try exact H; try (symmetry; exact H); try discriminate H. Qed.
Lemma sfrel_trans a b c : sfrel a b -> sfrel b c -> sfrel a c.
Proof.
  unfold sfrel.
  destruct a as [sa|sa| |sa ma ea], b as [sb|sb| |sb mb eb]; intros H;
    try contradiction; try discriminate H;
    destruct c as [sc|sc| |sc mc ec]; intros G;
    try contradiction; try discriminate G; try exact I; congruence.
Qed.

Lemma sfrel_sub a b b' x :
  sfrel b b' -> sfrel (SF64sub a b) x -> sfrel (SF64sub a b') x.
Proof.
  intros H. destruct b as [sb|sb| |sb mb eb], b' as [sb'|sb'| |sb' mb' eb']; cbn in H;
    try contradiction; try discriminate H; try (inversion H; subst; exact (fun G => G)).
  unfold SF64sub, SFsub. destruct a as [sa|sa| |sa ma ea]; try exact (fun G => G).
  destruct (Bool.eqb sa (negb sb)), (Bool.eqb sa (negb sb')); destruct x; cbn; auto;
    intros G; discriminate G.
Qed.

Lemma NumF_eqb_ok : EqbOK NumF.
Proof.
  split; cbn [NumF Num.eqb Num.one Num.zero].
  - intros a b. rewrite !eqb_spec, !SFeqb_rel. apply sfrel_sym.
  - intros a b c. rewrite !eqb_spec, !SFeqb_rel. apply sfrel_trans.
  - reflexivity.
  - reflexivity.
Qed.

Lemma NumF_subcong : SubCongOK NumF.
Proof.
  intros a b b' x. cbn [NumF Num.eqb Num.sub].
  rewrite !eqb_spec, !SFeqb_rel, !sub_spec. apply sfrel_sub.
Qed.
