(* Proofs/BezierAnalytic.v — over the reals, derivative(t, n) of a Line /
   QuadraticBezier / CubicBezier is the n-th derivative (Coquelicot's
   is_derive_n) of t |-> point(t), component by component, for every n >= 1. *)
From Coq Require Import ZArith List Bool Reals Lia Lra.
From Coquelicot Require Import Coquelicot.
From SVP Require Import Base.Num Base.Cplx Base.Poly Model.Bezier Model.BezierN
     Proofs.BezierAlg Proofs.BezierDeriv Proofs.RatLimit.
Import ListNotations.

Local Notation pev := (peval NumR).
Local Notation pd := (pderiv NumR).

Lemma iter_S_comm {A} (f : A -> A) n x : Poly.iter f (S n) x = f (Poly.iter f n x).
Proof. revert x; induction n as [|n IH]; intros x; [reflexivity|]. cbn [Poly.iter] in *. rewrite <- IH. reflexivity. Qed.

Lemma Derive_n_peval n : forall p x, Derive_n (pev p) n x = pev (Poly.iter pd n p) x.
Proof.
  induction n as [|n IH]; intros p x; [reflexivity|].
  rewrite iter_S_comm. cbn [Derive_n].
  rewrite (Derive_ext _ (pev (Poly.iter pd n p))) by (intros y; apply IH).
  apply is_derive_unique. apply rl_peval_is_derive.
Qed.

Lemma peval_is_derive_n p n x : is_derive_n (pev p) n x (pev (Poly.iter pd n p) x).
Proof.
  destruct n as [|n]; [reflexivity|].
  cbn [is_derive_n]. rewrite iter_S_comm.
  apply (is_derive_ext (pev (Poly.iter pd n p))).
  - intros y. symmetry. apply Derive_n_peval.
  - apply rl_peval_is_derive.
Qed.

(* components of complex-coefficient polynomials *)
Lemma cpeval_fold_fst (p : list (Cplx R)) x : forall acc,
  fst (fold_left (fun y c => cadd NumR (cscale NumR x y) c) p acc)
  = fold_left (fun y c => (y * x + c)%R) (map fst p) (fst acc).
Proof.
  induction p as [|c p IH]; intros acc; [reflexivity|].
  cbn [fold_left map]. rewrite IH. f_equal. destruct acc, c; cbn. ring.
Qed.
Lemma cpeval_fold_snd (p : list (Cplx R)) x : forall acc,
  snd (fold_left (fun y c => cadd NumR (cscale NumR x y) c) p acc)
  = fold_left (fun y c => (y * x + c)%R) (map snd p) (snd acc).
Proof.
  induction p as [|c p IH]; intros acc; [reflexivity|].
  cbn [fold_left map]. rewrite IH. f_equal. destruct acc, c; cbn. ring.
Qed.
Lemma cpeval_fst p x : fst (cpeval NumR p x) = pev (map fst p) x.
Proof. unfold cpeval, peval. rewrite cpeval_fold_fst. reflexivity. Qed.
Lemma cpeval_snd p x : snd (cpeval NumR p x) = pev (map snd p) x.
Proof. unfold cpeval, peval. rewrite cpeval_fold_snd. reflexivity. Qed.

Lemma cpderiv_fst p : map fst (cpderiv NumR p) = pd (map fst p).
Proof.
  induction p as [|c p IH]; [reflexivity|].
  destruct p as [|d q]; [reflexivity|].
  change (map fst (cpderiv NumR (c :: d :: q)))
    with (fst (cscale NumR (lit NumR (Z.of_nat (length (d :: q)))) c) :: map fst (cpderiv NumR (d :: q))).
  rewrite IH.
  change (pd (map fst (c :: d :: q)))
    with (mul NumR (lit NumR (Z.of_nat (length (map fst (d :: q))))) (fst c) :: pd (map fst (d :: q))).
  rewrite map_length. destruct c; reflexivity.
Qed.
Lemma cpderiv_snd p : map snd (cpderiv NumR p) = pd (map snd p).
Proof.
  induction p as [|c p IH]; [reflexivity|].
  destruct p as [|d q]; [reflexivity|].
  change (map snd (cpderiv NumR (c :: d :: q)))
    with (snd (cscale NumR (lit NumR (Z.of_nat (length (d :: q)))) c) :: map snd (cpderiv NumR (d :: q))).
  rewrite IH.
  change (pd (map snd (c :: d :: q)))
    with (mul NumR (lit NumR (Z.of_nat (length (map snd (d :: q))))) (snd c) :: pd (map snd (d :: q))).
  rewrite map_length. destruct c; reflexivity.
Qed.
Lemma iter_cpderiv_fst n : forall p, map fst (Poly.iter (cpderiv NumR) n p) = Poly.iter pd n (map fst p).
Proof. induction n as [|n IH]; intros p; [reflexivity|]. cbn [Poly.iter]. rewrite IH, cpderiv_fst. reflexivity. Qed.
Lemma iter_cpderiv_snd n : forall p, map snd (Poly.iter (cpderiv NumR) n p) = Poly.iter pd n (map snd p).
Proof. induction n as [|n IH]; intros p; [reflexivity|]. cbn [Poly.iter]. rewrite IH, cpderiv_snd. reflexivity. Qed.

(* the n-th derivative of t |-> cpeval p t is cpeval of the n-th formal derivative *)
Lemma cpeval_is_derive_n p n x :
  is_derive_n (fun t => fst (cpeval NumR p t)) n x (fst (cpeval NumR (Poly.iter (cpderiv NumR) n p) x))
  /\ is_derive_n (fun t => snd (cpeval NumR p t)) n x (snd (cpeval NumR (Poly.iter (cpderiv NumR) n p) x)).
Proof.
  split.
  - rewrite cpeval_fst, iter_cpderiv_fst.
    apply (is_derive_n_ext (pev (map fst p))); [intros t; symmetry; apply cpeval_fst|].
    apply peval_is_derive_n.
  - rewrite cpeval_snd, iter_cpderiv_snd.
    apply (is_derive_n_ext (pev (map snd p))); [intros t; symmetry; apply cpeval_snd|].
    apply peval_is_derive_n.
Qed.

Theorem cubic_deriv_analytic s c1 c2 e t n d : (1 <= n)%Z ->
  cubic_deriv NumR s c1 c2 e t n = Some d ->
  is_derive_n (fun u => fst (cubic_point NumR s c1 c2 e u)) (Z.to_nat n) t (fst d)
  /\ is_derive_n (fun u => snd (cubic_point NumR s c1 c2 e u)) (Z.to_nat n) t (snd d).
Proof.
  intros Hn Hd. rewrite (cubic_deriv_formal NumR NumR_ok) in Hd by assumption.
  injection Hd as <-.
  destruct (cpeval_is_derive_n (cubic_poly NumR s c1 c2 e) (Z.to_nat n) t) as [H1 H2].
  split; [eapply is_derive_n_ext; [|exact H1]|eapply is_derive_n_ext; [|exact H2]];
    intros u; cbv beta; rewrite (cubic_poly_eval NumR NumR_ok); reflexivity.
Qed.

Theorem quad_deriv_analytic s c e t n d : (1 <= n)%Z ->
  quad_deriv NumR s c e t n = Some d ->
  is_derive_n (fun u => fst (quad_point NumR s c e u)) (Z.to_nat n) t (fst d)
  /\ is_derive_n (fun u => snd (quad_point NumR s c e u)) (Z.to_nat n) t (snd d).
Proof.
  intros Hn Hd. rewrite (quad_deriv_formal NumR NumR_ok) in Hd by assumption.
  injection Hd as <-.
  destruct (cpeval_is_derive_n (quad_poly NumR s c e) (Z.to_nat n) t) as [H1 H2].
  split; [eapply is_derive_n_ext; [|exact H1]|eapply is_derive_n_ext; [|exact H2]];
    intros u; cbv beta; rewrite (quad_poly_eval NumR NumR_ok); reflexivity.
Qed.

Theorem line_deriv_analytic s e t n d : (1 <= n)%Z ->
  line_deriv NumR s e t n = Some d ->
  is_derive_n (fun u => fst (line_point NumR s e u)) (Z.to_nat n) t (fst d)
  /\ is_derive_n (fun u => snd (line_point NumR s e u)) (Z.to_nat n) t (snd d).
Proof.
  intros Hn Hd. rewrite (line_deriv_formal NumR NumR_ok) in Hd by assumption.
  injection Hd as <-.
  destruct (cpeval_is_derive_n (line_poly NumR s e) (Z.to_nat n) t) as [H1 H2].
  split; [eapply is_derive_n_ext; [|exact H1]|eapply is_derive_n_ext; [|exact H2]];
    intros u; cbv beta; rewrite (line_poly_eval NumR NumR_ok); reflexivity.
Qed.
