(* Proofs/SmoothElbow.v — the elbow cubics and trimmed lines of
   smoothed_joint (Model/Smooth.v): algebraic identities over an arbitrary
   field of characteristic 0, and the metric facts (hull bound, trimmed
   lines, size of a) over R. *)
From Coq Require Import ZArith List Bool Reals Lra Lia Psatz Field.
From SVP Require Import Base.Num Base.Cplx Base.Poly Base.FieldTac Model.Bezier Model.Smooth
     Proofs.BezierAlg.
Import ListNotations.
Set Implicit Arguments.

(* ================= algebra: any field of characteristic 0 ================= *)
Section Alg.
  Context {K : Type} (N : Num K) (OK : NumFieldOK N).
  Add Field KF : (Fth OK).

  Ltac efield :=
    intros; destruct_cplx; unfold sreversed, elbow_ll, elbow_lc, spoint, sderiv1, cubic_d1, cubic_point, line_point, sstart, send;
    cunfold; cbn [lit of_pos npow fst snd];
    apply cplx_eq; cbn [fst snd]; field; numnz OK.

  (* line-line elbow: c(0) = q - a v, c(1) = q + a w, c'(0) = b v, c'(1) = b w *)
  Lemma elbow_ll_p0 q v w a b :
    spoint N (elbow_ll N q v w a b) (zero N) = csub N q (cscale N a v).
  Proof. efield. Qed.
  Lemma elbow_ll_p1 q v w a b :
    spoint N (elbow_ll N q v w a b) (one N) = cadd N q (cscale N a w).
  Proof. efield. Qed.
  Lemma elbow_ll_d0 q v w a b :
    sderiv1 N (elbow_ll N q v w a b) (zero N) = cscale N b v.
  Proof. efield. Qed.
  Lemma elbow_ll_d1 q v w a b :
    sderiv1 N (elbow_ll N q v w a b) (one N) = cscale N b w.
  Proof. efield. Qed.

  (* line-curve elbow: c(0) = q - a v, c(1) = q, c'(0) = b v, c'(1) = b w *)
  Lemma elbow_lc_p0 q v w a b :
    spoint N (elbow_lc N q v w a b) (zero N) = csub N q (cscale N a v).
  Proof. efield. Qed.
  Lemma elbow_lc_p1 q v w a b :
    spoint N (elbow_lc N q v w a b) (one N) = q.
  Proof. efield. Qed.
  Lemma elbow_lc_d0 q v w a b :
    sderiv1 N (elbow_lc N q v w a b) (zero N) = cscale N b v.
  Proof. efield. Qed.
  Lemma elbow_lc_d1 q v w a b :
    sderiv1 N (elbow_lc N q v w a b) (one N) = cscale N b w.
  Proof. efield. Qed.

  (* the control points: start/end of the elbows are the points the trimmed
     lines are built from (continuity is by construction) *)
  Lemma elbow_ll_ends q v w a b :
    sstart (elbow_ll N q v w a b) = csub N q (cscale N a v) /\
    send (elbow_ll N q v w a b) = cadd N q (cscale N a w).
  Proof. split; reflexivity. Qed.
  Lemma elbow_lc_ends q v w a b :
    sstart (elbow_lc N q v w a b) = csub N q (cscale N a v) /\
    send (elbow_lc N q v w a b) = q.
  Proof. split; reflexivity. Qed.

  (* reversing a cubic reverses the parameter and negates the end derivatives *)
  Lemma sreversed_d0 g : sderiv1 N (sreversed g) (zero N) = copp N (sderiv1 N g (one N)).
  Proof. destruct g; efield. Qed.
  Lemma sreversed_d1 g : sderiv1 N (sreversed g) (one N) = copp N (sderiv1 N g (zero N)).
  Proof. destruct g; efield. Qed.
  Lemma sreversed_point g t : spoint N (sreversed g) t = spoint N g (sub N (one N) t).
  Proof. destruct g; efield. Qed.
End Alg.

(* ================================ reals ================================ *)
Open Scope R_scope.

Definition cabsR (z : Cplx R) : R := cabs NumTR z.
Lemma cabsR_eq z : cabsR z = sqrt (fst z * fst z + snd z * snd z).
Proof. destruct z; reflexivity. Qed.

Lemma sumsq_nonneg x y : 0 <= x * x + y * y.
Proof. nra. Qed.

Lemma cabsR_nonneg z : 0 <= cabsR z.
Proof. rewrite cabsR_eq. apply sqrt_pos. Qed.

Lemma cabsR_sq z : cabsR z * cabsR z = fst z * fst z + snd z * snd z.
Proof. rewrite cabsR_eq. apply sqrt_sqrt, sumsq_nonneg. Qed.

Lemma cabsR_pos z : z <> (0, 0) -> 0 < cabsR z.
Proof.
  intros H. rewrite cabsR_eq. apply sqrt_lt_R0. destruct z as [x y]; simpl.
  assert (x <> 0 \/ y <> 0).
  { destruct (Req_dec x 0) as [->|]; [|auto]. destruct (Req_dec y 0) as [->|]; [|auto].
    exfalso; apply H; reflexivity. }
  destruct H0; nra.
Qed.

Lemma cabsR_zero z : cabsR z = 0 -> z = (0, 0).
Proof.
  intros H. destruct z as [x y]. pose proof (cabsR_sq (x, y)) as E. rewrite H in E. simpl in E.
  assert (x = 0) by nra. assert (y = 0) by nra. subst; reflexivity.
Qed.

Lemma cabsR_scale k z : 0 <= k -> cabsR (cscale NumR k z) = k * cabsR z.
Proof.
  intros Hk. destruct z as [x y]. rewrite !cabsR_eq. unfold cscale; simpl.
  replace (k * x * (k * x) + k * y * (k * y)) with (k * k * (x * x + y * y)) by ring.
  rewrite sqrt_mult; [|nra|apply sumsq_nonneg]. rewrite sqrt_square; auto.
Qed.

Definition cunitR (z : Cplx R) : Cplx R := cunit NumR NumTR z.
Lemma cunitR_eq z : cunitR z = (fst z / cabsR z, snd z / cabsR z).
Proof. destruct z; reflexivity. Qed.

Lemma cunitR_norm z : z <> (0, 0) -> cabsR (cunitR z) = 1.
Proof.
  intros H. pose proof (cabsR_pos H) as Hp. pose proof (cabsR_sq z) as Hs.
  rewrite cunitR_eq. rewrite cabsR_eq. simpl.
  replace (fst z / cabsR z * (fst z / cabsR z) + snd z / cabsR z * (snd z / cabsR z))
    with ((fst z * fst z + snd z * snd z) / (cabsR z * cabsR z)) by (field; lra).
  rewrite <- Hs. replace (cabsR z * cabsR z / (cabsR z * cabsR z)) with 1 by (field; lra).
  apply sqrt_1.
Qed.

Lemma cunitR_scale k z : 0 < k -> z <> (0, 0) -> cunitR (cscale NumR k z) = cunitR z.
Proof.
  intros Hk Hz. pose proof (cabsR_pos Hz) as Hp.
  rewrite !cunitR_eq. rewrite cabsR_scale by lra. destruct z as [x y]; unfold cscale; simpl fst; simpl snd.
  simpl. f_equal; field; lra.
Qed.

Lemma cunitR_unit v : cabsR v = 1 -> cunitR v = v.
Proof. intros H. rewrite cunitR_eq, H. destruct v; simpl. f_equal; field. Qed.

Lemma unit_sq v : cabsR v = 1 -> fst v * fst v + snd v * snd v = 1.
Proof. intros H. rewrite <- cabsR_sq, H. ring. Qed.

(* z = |z| * unit(z) *)
Lemma cunitR_decomp z : z <> (0, 0) -> z = cscale NumR (cabsR z) (cunitR z).
Proof.
  intros Hz. pose proof (cabsR_pos Hz). rewrite cunitR_eq. destruct z as [x y].
  unfold cscale; simpl. f_equal; field; lra.
Qed.

(* |alpha v + beta w| <= A + B  for unit v, w and |alpha| <= A, |beta| <= B *)
Lemma comb2_bound vx vy wx wy al be A B :
  vx * vx + vy * vy = 1 -> wx * wx + wy * wy = 1 ->
  - A <= al <= A -> - B <= be <= B ->
  sqrt ((al * vx + be * wx) * (al * vx + be * wx) + (al * vy + be * wy) * (al * vy + be * wy))
  <= A + B.
Proof.
  intros Hv Hw Ha Hb.
  assert (HA : 0 <= A) by lra. assert (HB : 0 <= B) by lra.
  set (d := vx * wx + vy * wy).
  assert (Hd : -1 <= d <= 1).
  { assert (Hc : 0 <= (vx * wy - vy * wx) * (vx * wy - vy * wx)) by apply Rle_0_sqr.
    assert (Hi : d * d + (vx * wy - vy * wx) * (vx * wy - vy * wx)
                 = (vx * vx + vy * vy) * (wx * wx + wy * wy)) by (unfold d; ring).
    rewrite Hv, Hw in Hi. assert (d * d <= 1) by lra. nra. }
  set (e := al * be).
  assert (He : - (A * B) <= e <= A * B) by (unfold e; nra).
  assert (Hed : e * d <= A * B) by nra.
  assert (Ha2 : al * al <= A * A) by nra.
  assert (Hb2 : be * be <= B * B) by nra.
  rewrite <- (sqrt_square (A + B)) by lra.
  apply sqrt_le_1_alt.
  replace ((al * vx + be * wx) * (al * vx + be * wx) + (al * vy + be * wy) * (al * vy + be * wy))
    with (al * al * (vx * vx + vy * vy) + be * be * (wx * wx + wy * wy) + 2 * (e * d))
    by (unfold e, d; ring).
  rewrite Hv, Hw. nra.
Qed.

(* convex-hull bound: a cubic whose control points are q + k0 v, q + k1 v,
   q + k2 w, q + k3 w with unit v, w and |ki| <= M stays within M of q *)
Lemma hull4 q v w k0 k1 k2 k3 M t :
  cabsR v = 1 -> cabsR w = 1 -> 0 <= t <= 1 ->
  - M <= k0 <= M -> - M <= k1 <= M -> - M <= k2 <= M -> - M <= k3 <= M ->
  cabsR (csub NumR (cubic_point NumR (cadd NumR q (cscale NumR k0 v)) (cadd NumR q (cscale NumR k1 v))
                                     (cadd NumR q (cscale NumR k2 w)) (cadd NumR q (cscale NumR k3 w)) t) q)
  <= M.
Proof.
  intros Hv Hw Ht H0 H1 H2 H3.
  apply unit_sq in Hv. apply unit_sq in Hw.
  destruct q as [qx qy], v as [vx vy], w as [wx wy]. simpl in Hv, Hw.
  set (u := 1 - t).
  set (B0 := u * u * u). set (B1 := 3 * u * u * t). set (B2 := 3 * u * t * t). set (B3 := t * t * t).
  assert (Hu : 0 <= u <= 1) by (unfold u; lra).
  assert (P0 : 0 <= B0) by (unfold B0; assert (0 <= u * u) by nra; nra).
  assert (P1 : 0 <= B1) by (unfold B1; assert (0 <= u * u) by nra; nra).
  assert (P2 : 0 <= B2) by (unfold B2; assert (0 <= t * t) by nra; nra).
  assert (P3 : 0 <= B3) by (unfold B3; assert (0 <= t * t) by nra; nra).
  assert (Psum : B0 + B1 + B2 + B3 = 1) by (unfold B0, B1, B2, B3, u; ring).
  set (al := B0 * k0 + B1 * k1). set (be := B2 * k2 + B3 * k3).
  rewrite cabsR_eq. unfold cubic_point. cunfold. simpl.
  match goal with |- sqrt (?X * ?X + ?Y * ?Y) <= _ =>
    replace X with (al * vx + be * wx) by (unfold al, be, B0, B1, B2, B3, u; ring);
    replace Y with (al * vy + be * wy) by (unfold al, be, B0, B1, B2, B3, u; ring)
  end.
  assert (EM : M = (B0 + B1) * M + (B2 + B3) * M).
  { transitivity ((B0 + B1 + B2 + B3) * M); [rewrite Psum; ring|ring]. }
  rewrite EM.
  apply comb2_bound; auto; unfold al, be; nra.
Qed.

(* ---------- a = min(maxjointsize/2, min(l1, l0)/20) ---------- *)
Lemma joint_a_props mj l0 l1 :
  0 < mj -> 0 < l0 -> 0 < l1 ->
  let a := joint_a NumR mj l0 l1 in
  0 < a /\ a <= mj / 2 /\ a <= l0 / 20 /\ a <= l1 / 20.
Proof.
  intros Hm H0 H1. unfold joint_a, nmin. simpl.
  replace (1 + (1 + 1 + (1 + 1)) + (1 + (1 + 1 + (1 + 1))) +
           (1 + (1 + 1 + (1 + 1)) + (1 + (1 + 1 + (1 + 1))))) with 20 by ring.
  replace (1 + 1) with 2 by ring.
  destruct (Rlt_b l0 l1) eqn:E1;
    [apply Rlt_b_true in E1|apply Rlt_b_false in E1];
    match goal with |- context [Rlt_b ?x ?y] => destruct (Rlt_b x y) eqn:E2 end;
    [apply Rlt_b_true in E2|apply Rlt_b_false in E2|apply Rlt_b_true in E2|apply Rlt_b_false in E2];
    repeat split; lra.
Qed.

Lemma b_ll_R tight a : b_ll NumR tight a = (2 - tight) * a.
Proof. unfold b_ll. simpl. ring. Qed.
Lemma b_lc_R tight a : b_lc NumR tight a = (4 - tight) * a.
Proof. unfold b_lc. simpl. ring. Qed.

(* ---------- hull bounds for the two elbows ---------- *)
Lemma elbow_ll_hull q v w a tight t :
  cabsR v = 1 -> cabsR w = 1 -> 0 < a -> 0 < tight < 2 -> 0 <= t <= 1 ->
  cabsR (csub NumR (spoint NumR (elbow_ll NumR q v w a (b_ll NumR tight a)) t) q) <= a.
Proof.
  intros Hv Hw Ha Ht Htt. rewrite b_ll_R.
  set (b := (2 - tight) * a). assert (Hb : 0 < b < 2 * a) by (unfold b; nra).
  pose proof (@hull4 q v w (- a) (- (a - b / 3)) (a - b / 3) a a t Hv Hw Htt) as H.
  assert (E : elbow_ll NumR q v w a b =
              SCubic (cadd NumR q (cscale NumR (- a) v)) (cadd NumR q (cscale NumR (- (a - b / 3)) v))
                     (cadd NumR q (cscale NumR (a - b / 3) w)) (cadd NumR q (cscale NumR a w))).
  { destruct q, v, w. unfold elbow_ll. cunfold. simpl. f_equal; f_equal; field. }
  rewrite E. simpl spoint. apply H; lra.
Qed.

Lemma elbow_lc_hull q v w a tight t :
  cabsR v = 1 -> cabsR w = 1 -> 0 < a -> 0 < tight < 2 -> 0 <= t <= 1 ->
  cabsR (csub NumR (spoint NumR (elbow_lc NumR q v w a (b_lc NumR tight a)) t) q) <= 4 / 3 * a.
Proof.
  intros Hv Hw Ha Ht Htt. rewrite b_lc_R.
  set (b := (4 - tight) * a). assert (Hb : 2 * a < b < 4 * a) by (unfold b; nra).
  pose proof (@hull4 q v w (- a) (b / 3 - a) (- (b / 3)) 0 (4 / 3 * a) t Hv Hw Htt) as H.
  assert (E : elbow_lc NumR q v w a b =
              SCubic (cadd NumR q (cscale NumR (- a) v)) (cadd NumR q (cscale NumR (b / 3 - a) v))
                     (cadd NumR q (cscale NumR (- (b / 3)) w)) (cadd NumR q (cscale NumR 0 w))).
  { destruct q, v, w. unfold elbow_lc. cunfold. simpl. f_equal; f_equal; field. }
  rewrite E. simpl spoint. apply H; lra.
Qed.

(* ---------- trimmed lines ---------- *)
(* Line(s, q - a v) with v the unit tangent of Line(s, q), 0 <= a < |q - s| *)
Lemma trim0_vec s q a :
  s <> q -> let L := cabsR (csub NumR q s) in let v := cunitR (csub NumR q s) in
  csub NumR (csub NumR q (cscale NumR a v)) s = cscale NumR (1 - a / L) (csub NumR q s).
Proof.
  intros Hsq L v.
  assert (Hz : csub NumR q s <> (0, 0)).
  { intros E. apply Hsq. destruct q, s. unfold csub in E; simpl in E. injection E as E1 E2.
    f_equal; lra. }
  pose proof (cabsR_pos Hz) as HL. fold L in HL.
  unfold v. rewrite cunitR_eq. fold L. destruct q as [qx qy], s as [sx sy]. cunfold. simpl.
  f_equal; field; lra.
Qed.
(* Line(q + a w, e) with w the unit tangent of Line(q, e) *)
Lemma trim1_vec q e a :
  q <> e -> let L := cabsR (csub NumR e q) in let w := cunitR (csub NumR e q) in
  csub NumR e (cadd NumR q (cscale NumR a w)) = cscale NumR (1 - a / L) (csub NumR e q).
Proof.
  intros Hqe L w.
  assert (Hz : csub NumR e q <> (0, 0)).
  { intros E. apply Hqe. destruct q, e. unfold csub in E; simpl in E. injection E as E1 E2.
    f_equal; lra. }
  pose proof (cabsR_pos Hz) as HL. fold L in HL.
  unfold w. rewrite cunitR_eq. fold L. destruct q as [qx qy], e as [ex ey]. cunfold. simpl.
  f_equal; field; lra.
Qed.

Lemma csub_nz (a b : Cplx R) : a <> b -> csub NumR b a <> (0, 0).
Proof.
  intros H E. apply H. destruct a, b. unfold csub in E; simpl in E. injection E as E1 E2.
  f_equal; lra.
Qed.
Lemma cscale_nz k (z : Cplx R) : k <> 0 -> z <> (0, 0) -> cscale NumR k z <> (0, 0).
Proof.
  intros Hk Hz E. apply Hz. destruct z as [x y]. unfold cscale in E; simpl in E.
  injection E as E1 E2. f_equal; nra.
Qed.
Lemma csub_zero_eq (a b : Cplx R) : csub NumR b a = (0, 0) -> a = b.
Proof.
  intros E. destruct a, b. unfold csub in E; simpl in E. injection E as E1 E2. f_equal; lra.
Qed.

(* C20_trim_ok: a <= len/20 -> the trimmed lines keep their direction, are
   non-degenerate, and are sub-segments of the original lines *)
Lemma trim0_ok s q a :
  s <> q -> let L := cabsR (csub NumR q s) in let v := cunitR (csub NumR q s) in
  0 <= a <= L / 20 ->
  let P := csub NumR q (cscale NumR a v) in
  P <> s /\ cunitR (csub NumR P s) = v /\
  cabsR (csub NumR P s) = L - a /\
  forall t, 0 <= t <= 1 ->
    0 <= t * (1 - a / L) <= 1 /\ line_point NumR s P t = line_point NumR s q (t * (1 - a / L)).
Proof.
  intros Hsq L v Ha P.
  pose proof (csub_nz Hsq) as Hz. pose proof (cabsR_pos Hz) as HL. fold L in HL.
  assert (Hk : 19 / 20 <= 1 - a / L <= 1).
  { assert (0 <= a / L <= 1 / 20).
    { split; [apply Rmult_le_pos; [lra|left; apply Rinv_0_lt_compat; lra]|].
      apply Rmult_le_reg_r with L; [lra|]. unfold Rdiv at 1. rewrite Rmult_assoc, Rinv_l by lra. lra. }
    lra. }
  pose proof (trim0_vec a Hsq) as E. cbv zeta in E. fold L v P in E.
  repeat split.
  - intros EP. assert (Z : csub NumR P s = (0, 0)) by (rewrite EP; destruct s; cunfold; simpl; f_equal; ring).
    rewrite E in Z. revert Z. apply cscale_nz; [lra|assumption].
  - rewrite E. unfold v. apply cunitR_scale; [lra|assumption].
  - rewrite E, cabsR_scale by lra. fold L. field. lra.
  - nra.
  - nra.
  - unfold line_point. rewrite E. destruct s, q. cunfold. simpl. f_equal; ring.
Qed.

Lemma trim1_ok q e a :
  q <> e -> let L := cabsR (csub NumR e q) in let w := cunitR (csub NumR e q) in
  0 <= a <= L / 20 ->
  let P := cadd NumR q (cscale NumR a w) in
  P <> e /\ cunitR (csub NumR e P) = w /\
  cabsR (csub NumR e P) = L - a /\
  forall t, 0 <= t <= 1 ->
    0 <= a / L + t * (1 - a / L) <= 1 /\
    line_point NumR P e t = line_point NumR q e (a / L + t * (1 - a / L)).
Proof.
  intros Hqe L w Ha P.
  pose proof (csub_nz Hqe) as Hz. pose proof (cabsR_pos Hz) as HL. fold L in HL.
  assert (Hr : 0 <= a / L <= 1 / 20).
  { split; [apply Rmult_le_pos; [lra|left; apply Rinv_0_lt_compat; lra]|].
    apply Rmult_le_reg_r with L; [lra|]. unfold Rdiv at 1. rewrite Rmult_assoc, Rinv_l by lra. lra. }
  assert (Hk : 19 / 20 <= 1 - a / L <= 1) by lra.
  pose proof (trim1_vec a Hqe) as E. cbv zeta in E. fold L w P in E.
  repeat split.
  - intros EP. assert (Z : csub NumR e P = (0, 0)) by (rewrite EP; destruct e; cunfold; simpl; f_equal; ring).
    rewrite E in Z. revert Z. apply cscale_nz; [lra|assumption].
  - rewrite E. unfold w. apply cunitR_scale; [lra|assumption].
  - rewrite E, cabsR_scale by lra. fold L. field. lra.
  - nra.
  - nra.
  - unfold line_point. rewrite E.
    assert (EP : P = cadd NumR q (cscale NumR (a / L) (csub NumR e q))).
    { unfold P, w. rewrite cunitR_eq. fold L. destruct q, e. cunfold. simpl. f_equal; field; lra. }
    rewrite EP. destruct q, e. cunfold. simpl. f_equal; ring.
Qed.
