(* Proofs/Roots.v — de-duplication in polytools.polyroots: the index-correct
   variant keeps every isolated root exactly once; the variant AS CODED (index
   of a close pair used as index of a root) loses simple roots. *)
From Coq Require Import ZArith QArith Qcanon List Bool Lia.
From SVP Require Import Base.Num Base.Cplx Base.Poly Model.Bezier Model.BezierN.
Import ListNotations.

Section Dedup.
  Context {K : Type} (N : Num K) (rtol atol : K).
  Local Notation close := (isclose N rtol atol).
  Local Notation aux := (dedup_fixed_aux N rtol atol).

  Lemma aux_incl seen l x : In x (aux seen l) -> In x l.
  Proof.
    revert seen; induction l as [|y r IH]; intros seen H; cbn [dedup_fixed_aux] in H; [easy|].
    destruct (existsb (fun z => close z y) seen).
    - right; eauto.
    - destruct H as [->|H]; [left; reflexivity|right; eauto].
  Qed.

  (* a dropped root is close to an EARLIER root *)
  Lemma aux_dropped seen l1 x l2 :
    ~ In x (aux seen (l1 ++ x :: l2)) ->
    exists y, In y (seen ++ l1) /\ close y x = true.
  Proof.
    revert seen; induction l1 as [|a l1 IH]; intros seen H; cbn [app dedup_fixed_aux] in H.
    - destruct (existsb (fun z => close z x) seen) eqn:E.
      + apply existsb_exists in E. destruct E as [y [Hy Hc]]. exists y. rewrite app_nil_r. auto.
      + exfalso. apply H. left; reflexivity.
    - destruct (existsb (fun z => close z a) seen).
      + destruct (IH (seen ++ [a]) H) as [y [Hy Hc]]. exists y. split; auto.
        rewrite <- app_assoc in Hy. exact Hy.
      + assert (H' : ~ In x (aux (seen ++ [a]) (l1 ++ x :: l2))) by (intro; apply H; right; auto).
        destruct (IH (seen ++ [a]) H') as [y [Hy Hc]]. exists y. split; auto.
        rewrite <- app_assoc in Hy. exact Hy.
  Qed.

  (* an element that is close to itself and sits after x in [seen] is dropped wherever it re-occurs *)
  Lemma aux_no_repeat seen l x :
    In x seen -> close x x = true -> ~ In x (aux seen l).
  Proof.
    revert seen; induction l as [|a r IH]; intros seen Hs Hc; cbn [dedup_fixed_aux]; [easy|].
    destruct (existsb (fun z => close z a) seen) eqn:E.
    - apply IH; auto. apply in_or_app; auto.
    - intros [->|H].
      + assert (existsb (fun z => close z x) seen = true) by (apply existsb_exists; eauto).
        congruence.
      + revert H. apply IH; auto. apply in_or_app; auto.
  Qed.

  (* MAIN: a root that is not close to any earlier root survives, exactly once *)
  Theorem dedup_fixed_keeps_isolated l1 x l2 :
    (forall y, In y l1 -> close y x = false) ->
    close x x = true ->
    exists o1 o2, dedup_fixed N rtol atol (l1 ++ x :: l2) = o1 ++ x :: o2
                  /\ ~ In x o1 /\ ~ In x o2.
  Proof.
    intros Hiso Hrefl. unfold dedup_fixed.
    assert (G : forall seen, (forall y, In y seen -> close y x = false) -> ~ In x seen ->
              exists o1 o2, aux seen (l1 ++ x :: l2) = o1 ++ x :: o2 /\ ~ In x o1 /\ ~ In x o2).
    { clear - Hiso Hrefl. induction l1 as [|a l1 IH]; intros seen Hs Hn; cbn [app dedup_fixed_aux].
      - assert (E : existsb (fun z => close z x) seen = false).
        { apply not_true_is_false. intro E. apply existsb_exists in E.
          destruct E as [y [Hy Hc]]. rewrite (Hs y Hy) in Hc. discriminate. }
        rewrite E. exists [], (aux (seen ++ [x]) l2). split; [reflexivity|]. split; [easy|].
        apply aux_no_repeat; auto. apply in_or_app; right; left; reflexivity.
      - assert (Hax : a <> x).
        { intros ->. rewrite (Hiso x) in Hrefl by (left; reflexivity). discriminate. }
        assert (Hs' : forall y, In y (seen ++ [a]) -> close y x = false).
        { intros y Hy. apply in_app_or in Hy. destruct Hy as [Hy|[<-|[]]]; auto.
          apply Hiso; left; reflexivity. }
        assert (Hn' : ~ In x (seen ++ [a])).
        { intro Hy. apply in_app_or in Hy. destruct Hy as [Hy|[Hy|[]]]; auto. }
        destruct (IH (fun y Hy => Hiso y (or_intror Hy)) (seen ++ [a]) Hs' Hn')
          as [o1 [o2 [Ho [H1 H2]]]].
        destruct (existsb (fun z => close z a) seen).
        + exists o1, o2. auto.
        + exists (a :: o1), o2. rewrite Ho. split; [reflexivity|]. split; auto.
          intros [E|E]; auto. }
    apply G; [intros y []|intros []].
  Qed.

  Theorem dedup_fixed_incl l x : In x (dedup_fixed N rtol atol l) -> In x l.
  Proof. apply aux_incl. Qed.

  Theorem dedup_fixed_dropped l1 x l2 :
    ~ In x (dedup_fixed N rtol atol (l1 ++ x :: l2)) -> exists y, In y l1 /\ close y x = true.
  Proof. intros H. destruct (aux_dropped [] l1 x l2 H) as [y [Hy Hc]]. eauto. Qed.
End Dedup.

(* The de-duplication AS CODED loses the simple, well separated root 1/10 of
   [9/10; 1/2; 1/2 + 1e-9; 1/10] and keeps both members of the close pair. *)
Definition q_rtol : Qc := Q2Qc (1 # 100000).
Definition q_atol : Qc := Q2Qc (1 # 100000000).
Definition q_roots : list Qc :=
  [Q2Qc (9 # 10); Q2Qc (1 # 2); Q2Qc (500000001 # 1000000000); Q2Qc (1 # 10)].
Example dedup_coded_loses_root :
  dedup_coded NumQ q_rtol q_atol q_roots
  = [Q2Qc (9 # 10); Q2Qc (1 # 2); Q2Qc (500000001 # 1000000000)].
Proof. vm_compute. reflexivity. Qed.
Example dedup_fixed_keeps_root :
  dedup_fixed NumQ q_rtol q_atol q_roots = [Q2Qc (9 # 10); Q2Qc (1 # 2); Q2Qc (1 # 10)].
Proof. vm_compute. reflexivity. Qed.
