(* Proofs/ParseRefine.v — the model of _parse_path (impl_parse) refines the
   reference interpreter of SVG 1.1 §8.3 (spec_run) on every grammatical
   program, of any length: induction over the program, generalised over the
   machine state, with an inner induction over the implicitly repeated
   argument groups of each command.

   The theorem is proved once for all four variants of the model:
     refines_general none_ok coinc_ok :
       grammatical prog ->
       (none_ok  = true \/ no S/T directly after a closepath in prog) ->
       (coinc_ok = true \/ no arc ending on the current point in prog) ->
       impl_parse none_ok coinc_ok (flatten prog) pos0 = Ok (spec_run pos0 prog)
   so that the side conditions disappear exactly when the corresponding
   behaviour of the code is repaired.

   Algebra needed of the carrier: [ParseLawsOK] (commutativity of +, x+0 = x,
   (a+a)-b = a+(a-b), eqb decides equality, 1 <> 0) — implied by NumFieldOK
   plus a correct eqb; holds for NumQ and NumR. *)
From Coq Require Import List Bool Arith Lia Field.
From SVP Require Import Base.Num Base.Cplx Model.Parse.
Import ListNotations.

Record ParseLawsOK {K} (N : Num K) : Prop := {
  pl_add_comm : forall a b, add N a b = add N b a;
  pl_add_0_r : forall a, add N a (zero N) = a;
  pl_reflect : forall a b, sub N (add N a a) b = add N a (sub N a b);
  pl_eqb : forall a b, eqb N a b = true <-> a = b;
  pl_one_zero : one N <> zero N }.
Arguments pl_add_comm {K N} _. Arguments pl_add_0_r {K N} _. Arguments pl_reflect {K N} _.
Arguments pl_eqb {K N} _. Arguments pl_one_zero {K N} _.

Lemma field_parse_laws {K} (N : Num K) :
  NumFieldOK N -> (forall a b, eqb N a b = true <-> a = b) -> ParseLawsOK N.
Proof.
  intros OK E. pose proof (Fth OK) as F.
  assert (R := F_R F).
  split; intros.
  - apply (Radd_comm R).
  - rewrite (Radd_comm R). apply (Radd_0_l R).
  - rewrite !(Rsub_def R). symmetry. apply (Radd_assoc R).
  - apply E.
  - exact (F_1_neq_0 F).
Qed.

Lemma parse_laws_Q : ParseLawsOK NumQ.
Proof.
  apply field_parse_laws. exact NumQ_ok.
  intros a b. cbn. split; intros H.
  - apply Qcanon.Qc_eq_bool_correct; exact H.
  - subst. unfold Qcanon.Qc_eq_bool. destruct (Qcanon.Qc_eq_dec b b); congruence.
Qed.
Lemma parse_laws_R : ParseLawsOK NumR.
Proof. apply field_parse_laws. exact NumR_ok. intros; apply Req_b_true. Qed.

Section Refine.
  Context {K : Type} (N : Num K) (L : ParseLawsOK N).
  Variables none_ok coinc_ok : bool.
  Notation pt := (Cplx K).
  Notation sstate := (@sstate K).
  Notation pstate := (@pstate K).
  Notation exec := (exec N none_ok coinc_ok).
  Notation step := (step N none_ok coinc_ok).
  Notation run := (run N none_ok coinc_ok).

  (* -------------------------------------------------------------- *)
  (* algebra on points                                               *)

  Lemma cadd_comm (a b : pt) : cadd N a b = cadd N b a.
  Proof. unfold cadd. f_equal; apply (pl_add_comm L). Qed.
  Lemma rel_to_abs (abs : bool) (cur z : pt) :
    (if abs then z else cadd N z cur) = to_abs N abs cur z.
  Proof. unfold to_abs. destruct abs; [reflexivity|apply cadd_comm]. Qed.
  Lemma reflect_impl (cur c : pt) : csub N (cadd N cur cur) c = reflect N cur c.
  Proof. unfold reflect, csub, cadd, re, im; cbn [fst snd]. f_equal; apply (pl_reflect L). Qed.
  Lemma h_rel (x : K) (cur : pt) :
    cadd N (mkc x (im cur)) (cofr N (re cur)) = mkc (add N (re cur) x) (im cur).
  Proof.
    unfold cadd, mkc, cofr, re, im; cbn [fst snd]. f_equal.
    - apply (pl_add_comm L). - apply (pl_add_0_r L).
  Qed.
  Lemma v_rel (y : K) (cur : pt) :
    cadd N (mkc (re cur) y) (mkc (zero N) (im cur)) = mkc (re cur) (add N (im cur) y).
  Proof.
    unfold cadd, mkc, re, im; cbn [fst snd]. f_equal.
    - apply (pl_add_0_r L). - apply (pl_add_comm L).
  Qed.
  Lemma mkc_eta (p : pt) : mkc (re p) (im p) = p.
  Proof. destruct p; reflexivity. Qed.
  Lemma eqb_refl (a : K) : eqb N a a = true.
  Proof. apply (pl_eqb L); reflexivity. Qed.
  Lemma flag_of_fflag (b : bool) : flag_of N (if b then one N else zero N) = b.
  Proof.
    unfold flag_of. destruct b.
    - destruct (eqb N (one N) (zero N)) eqn:E; [|reflexivity].
      apply (pl_eqb L) in E. destruct (pl_one_zero L E).
    - rewrite eqb_refl. reflexivity.
  Qed.
  Lemma ceqb_true (a b : pt) : ceqb N a b = true <-> a = b.
  Proof.
    unfold ceqb, re, im. destruct a as [a1 a2], b as [b1 b2]; cbn [fst snd].
    rewrite andb_true_iff, !(pl_eqb L). split; [intros [-> ->]; reflexivity|intros H; inversion H; auto].
  Qed.

  (* -------------------------------------------------------------- *)
  (* the loop, with enough fuel                                      *)

  Definition reaches (stk : list (tok K)) (st : pstate) (stk' : list (tok K)) (st' : pstate) : Prop :=
    forall fuel, length stk <= fuel ->
      exists fuel', length stk' <= fuel' /\ run fuel stk st = run fuel' stk' st'.

  Lemma reaches_refl stk st : reaches stk st stk st.
  Proof. intros fuel H. exists fuel. split; [exact H|reflexivity]. Qed.
  Lemma reaches_trans s1 t1 s2 t2 s3 t3 :
    reaches s1 t1 s2 t2 -> reaches s2 t2 s3 t3 -> reaches s1 t1 s3 t3.
  Proof.
    intros A B fuel H. destruct (A fuel H) as (f1 & H1 & E1).
    destruct (B f1 H1) as (f2 & H2 & E2). exists f2. split; [exact H2|congruence].
  Qed.
  Lemma reaches_step stk st stk' st' :
    stk <> [] -> step stk st = Ok (stk', st') -> length stk' < length stk ->
    reaches stk st stk' st'.
  Proof.
    intros NE S Lt fuel H. destruct stk as [|t r]; [congruence|].
    destruct fuel as [|f]; [cbn in H; lia|].
    exists f. split; [lia|]. cbn [Parse.run]. rewrite S. reflexivity.
  Qed.
  Lemma step_implicit stk st c v r :
    stk = TNum v :: r -> p_cmd st = Some c ->
    step stk st = exec c (Some c) (p_abs st) stk st.
  Proof. intros -> H. unfold Parse.step. rewrite H. reflexivity. Qed.
  Lemma reaches_done stk st st' :
    reaches stk st [] st' -> run (length stk) stk st = Ok (rev (p_segs st')).
  Proof.
    intros R. destruct (R (length stk) (le_n _)) as (f & _ & E). rewrite E.
    destruct f; reflexivity.
  Qed.

  (* -------------------------------------------------------------- *)
  (* reading argument groups off the stack                           *)

  Lemma popc_fpt (p : pt) (r : list (tok K)) : popc (fpt p ++ r) = Ok (p, r).
  Proof. destruct p; reflexivity. Qed.
  Lemma pop2_fpt (p : pt) (r : list (tok K)) : pop2 (fpt p ++ r) = Ok (p, r).
  Proof. destruct p; reflexivity. Qed.
  Lemma popf_num (x : K) (r : list (tok K)) : popf (TNum x :: r) = Ok (x, r).
  Proof. reflexivity. Qed.

  (* -------------------------------------------------------------- *)
  (* the invariant linking the two states                            *)

  Definition ctrl_rel (cmd : option cmdletter) (segs : list (seg K)) (ctrl : lastctrl) : Prop :=
    match ctrl with
    | CubicCtrl c => (cmd = Some cC \/ cmd = Some cS)
                     /\ exists s c1 e r, segs = Cubic s c1 c e :: r
    | QuadCtrl c => (cmd = Some cQ \/ cmd = Some cT)
                    /\ exists s e r, segs = Quad s c e :: r
    | NoCtrl => cmd <> Some cC /\ cmd <> Some cS /\ cmd <> Some cQ /\ cmd <> Some cT
    end.

  Record Inv (st : pstate) (ss : sstate) : Prop := {
    inv_cur : p_cur st = s_cur ss;
    inv_start : p_start st = Some (s_start ss);
    inv_ctrl : ctrl_rel (p_cmd st) (p_segs st) (s_ctrl ss) }.

  (* what one argument group of command letter c does: the implementation's
     pass through the loop body against the specification's step *)
  Definition group_ok {A : Type} (smooth : bool) (c : cmdletter) (ftoks : A -> list (tok K))
             (sstep : bool -> sstate -> A -> sstate * list (seg K))
             (pre : bool -> sstate -> A -> Prop) : Prop :=
    forall abs st ss a stk',
      Inv st ss -> pre abs ss a -> (smooth = false \/ none_ok = true \/ p_cmd st <> None) ->
      exists st',
        exec c (p_cmd st) abs (ftoks a ++ stk') st = Ok (stk', st')
        /\ Inv st' (fst (sstep abs ss a))
        /\ p_cmd st' = Some c /\ p_abs st' = abs
        /\ p_segs st' = rev (snd (sstep abs ss a)) ++ p_segs st.

  Definition no_pre {A : Type} : bool -> sstate -> A -> Prop := fun _ _ _ => True.

  Ltac inv_simpl :=
    match goal with
    | H : Inv ?st ?ss |- _ =>
        let Hc := fresh "Hcur" in let Hs := fresh "Hstart" in let Ht := fresh "Hctrl" in
        destruct H as [Hc Hs Ht]
    end.

  Ltac noctrl := cbn; repeat split; discriminate.

  Lemma group_line : group_ok false cL fpt (sp_line N) no_pre.
  Proof.
    intros abs st ss p stk' I _ _. inv_simpl.
    unfold Parse.exec. rewrite pop2_fpt. cbn [bind fst snd].
    rewrite rel_to_abs, Hcur. eexists. split; [reflexivity|].
    unfold sp_line; cbn [fst snd p_cmd p_abs p_segs rev app].
    repeat split; cbn; try assumption; try discriminate.
  Qed.

  Lemma group_h : group_ok false cH fnum (sp_h N) no_pre.
  Proof.
    intros abs st ss x stk' I _ _. inv_simpl.
    unfold Parse.exec, fnum. cbn [app]. rewrite popf_num. cbn [bind fst snd].
    eexists. split; [reflexivity|].
    unfold sp_h; cbn [fst snd p_cmd p_abs p_segs rev app p_cur p_start].
    rewrite Hcur. destruct abs.
    - repeat split; cbn; try assumption; try discriminate.
    - rewrite h_rel. repeat split; cbn; try assumption; try discriminate.
  Qed.

  Lemma group_v : group_ok false cV fnum (sp_v N) no_pre.
  Proof.
    intros abs st ss y stk' I _ _. inv_simpl.
    unfold Parse.exec, fnum. cbn [app]. rewrite popf_num. cbn [bind fst snd].
    eexists. split; [reflexivity|].
    unfold sp_v; cbn [fst snd p_cmd p_abs p_segs rev app p_cur p_start].
    rewrite Hcur. destruct abs.
    - repeat split; cbn; try assumption; try discriminate.
    - rewrite v_rel. repeat split; cbn; try assumption; try discriminate.
  Qed.

  Lemma group_curve : group_ok false cC fcurve (sp_curve N) no_pre.
  Proof.
    intros abs st ss [[c1 c2] e] stk' I _ _. inv_simpl.
    unfold Parse.exec, fcurve. cbn [fst snd]. rewrite <- !app_assoc.
    rewrite popc_fpt. cbn [bind fst snd]. rewrite popc_fpt. cbn [bind fst snd].
    rewrite popc_fpt. cbn [bind fst snd].
    rewrite !rel_to_abs, Hcur. eexists. split; [reflexivity|].
    unfold sp_curve; cbn [fst snd p_cmd p_abs p_segs rev app p_cur p_start].
    repeat split; cbn; try assumption; try discriminate; eauto 8.
  Qed.

  Lemma group_quad : group_ok false cQ fpair (sp_quad N) no_pre.
  Proof.
    intros abs st ss [c e] stk' I _ _. inv_simpl.
    unfold Parse.exec, fpair. cbn [fst snd]. rewrite <- !app_assoc.
    rewrite popc_fpt. cbn [bind fst snd]. rewrite popc_fpt. cbn [bind fst snd].
    rewrite !rel_to_abs, Hcur. eexists. split; [reflexivity|].
    unfold sp_quad; cbn [fst snd p_cmd p_abs p_segs rev app p_cur p_start].
    repeat split; cbn; try assumption; try discriminate; eauto 8.
  Qed.

  (* the first control point of S: `last_command not in 'CS'` against the
     specification's "previous command was C or S" *)
  Lemma smooth_c1 st ss :
    Inv st ss -> (none_ok = true \/ p_cmd st <> None) ->
    bind (last_in none_ok cC cS (p_cmd st)) (fun isin =>
      if isin then bind (last_control2 (p_segs st))
                        (fun pc2 => Ok (csub N (cadd N (p_cur st) (p_cur st)) pc2))
      else Ok (p_cur st))
    = Ok (match s_ctrl ss with CubicCtrl c => reflect N (s_cur ss) c | _ => s_cur ss end).
  Proof.
    intros I Hn. inv_simpl. rewrite Hcur. unfold ctrl_rel in Hctrl.
    destruct (s_ctrl ss) as [|c|c].
    - destruct Hctrl as (H1 & H2 & _ & _).
      destruct (p_cmd st) as [l|] eqn:E.
      + cbn. destruct l; cbn; try reflexivity; congruence.
      + destruct Hn as [->|Hn]; [reflexivity|congruence].
    - destruct Hctrl as ([E|E] & s & c1 & e & r & Es); rewrite E, Es; cbn;
        rewrite reflect_impl; reflexivity.
    - destruct Hctrl as ([E|E] & _); rewrite E; reflexivity.
  Qed.
  Lemma t_ctrl st ss :
    Inv st ss -> (none_ok = true \/ p_cmd st <> None) ->
    bind (last_in none_ok cQ cT (p_cmd st)) (fun isin =>
      if isin then bind (last_control (p_segs st))
                        (fun pc => Ok (csub N (cadd N (p_cur st) (p_cur st)) pc))
      else Ok (p_cur st))
    = Ok (match s_ctrl ss with QuadCtrl c => reflect N (s_cur ss) c | _ => s_cur ss end).
  Proof.
    intros I Hn. inv_simpl. rewrite Hcur. unfold ctrl_rel in Hctrl.
    destruct (s_ctrl ss) as [|c|c].
    - destruct Hctrl as (_ & _ & H1 & H2).
      destruct (p_cmd st) as [l|] eqn:E.
      + cbn. destruct l; cbn; try reflexivity; congruence.
      + destruct Hn as [->|Hn]; [reflexivity|congruence].
    - destruct Hctrl as ([E|E] & _); rewrite E; reflexivity.
    - destruct Hctrl as ([E|E] & s & e & r & Es); rewrite E, Es; cbn;
        rewrite reflect_impl; reflexivity.
  Qed.

  Lemma group_smooth : group_ok true cS fpair (sp_smooth N) no_pre.
  Proof.
    intros abs st ss [c2 e] stk' I _ [Hn|Hn]; [discriminate|].
    pose proof (smooth_c1 st ss I Hn) as C1. inv_simpl.
    unfold Parse.exec, fpair. cbn [fst snd]. rewrite <- !app_assoc.
    destruct (last_in none_ok cC cS (p_cmd st)) as [isin|err]; [|discriminate C1].
    cbn [bind] in C1 |- *. rewrite C1. cbn [bind].
    rewrite popc_fpt. cbn [bind fst snd]. rewrite popc_fpt. cbn [bind fst snd].
    rewrite !rel_to_abs, Hcur. eexists. split; [reflexivity|].
    unfold sp_smooth; cbn [fst snd p_cmd p_abs p_segs rev app p_cur p_start].
    repeat split; cbn; try assumption; try discriminate; eauto 8.
  Qed.

  Lemma group_t : group_ok true cT fpt (sp_t N) no_pre.
  Proof.
    intros abs st ss e stk' I _ [Hn|Hn]; [discriminate|].
    pose proof (t_ctrl st ss I Hn) as C1. inv_simpl.
    unfold Parse.exec.
    destruct (last_in none_ok cQ cT (p_cmd st)) as [isin|err]; [|discriminate C1].
    cbn [bind] in C1 |- *. rewrite C1. cbn [bind].
    rewrite popc_fpt. cbn [bind fst snd].
    rewrite !rel_to_abs, Hcur. eexists. split; [reflexivity|].
    unfold sp_t; cbn [fst snd p_cmd p_abs p_segs rev app p_cur p_start].
    repeat split; cbn; try assumption; try discriminate; eauto 8.
  Qed.

  Definition arc_pre (abs : bool) (ss : sstate) (a : arcargs K) : Prop :=
    coinc_ok = true \/ arc_not_coincident N abs ss a = true.

  Lemma group_arc : group_ok false cA (farc N) (sp_arc N) arc_pre.
  Proof.
    intros abs st ss [r rot la sw e] stk' I P _. inv_simpl.
    unfold Parse.exec, farc. cbn [aa_r aa_rot aa_large aa_sweep aa_end].
    rewrite <- !app_assoc. rewrite popc_fpt. cbn [bind fst snd app].
    unfold fflag. repeat (rewrite popf_num; cbn [bind fst snd]).
    rewrite popc_fpt. cbn [bind fst snd].
    rewrite !rel_to_abs, Hcur.
    unfold sp_arc, arc_end. cbn [aa_r aa_rot aa_large aa_sweep aa_end fst snd].
    set (e' := to_abs N abs (s_cur ss) e).
    assert (A : arc_or_line N coinc_ok (s_cur ss) r rot (if la then one N else zero N)
                            (if sw then one N else zero N) e'
                = Ok (if ceqb N (s_cur ss) e' then []
                      else if eqb N (re r) (zero N) || eqb N (im r) (zero N) then [Line (s_cur ss) e']
                      else [Arc (s_cur ss) (mkc (nabs N (re r)) (nabs N (im r))) rot la sw e'])).
    { unfold arc_or_line. rewrite !flag_of_fflag. destruct coinc_ok eqn:Ec.
      - destruct (ceqb N (s_cur ss) e'); [reflexivity|].
        destruct (eqb N (re r) (zero N) || eqb N (im r) (zero N)); reflexivity.
      - destruct P as [P|P]; [congruence|].
        unfold arc_not_coincident, arc_end in P. cbn [aa_end] in P. fold e' in P.
        apply negb_true_iff in P. rewrite P.
        destruct (eqb N (re r) (zero N) || eqb N (im r) (zero N)); reflexivity. }
    rewrite A. cbn [bind]. eexists. split; [reflexivity|].
    cbn [p_cmd p_abs p_segs p_cur p_start].
    assert (R1 : forall l : list (seg K),
               (length l <= 1)%nat -> rev l = l).
    { intros [|x [|y l]] Hl; try reflexivity. cbn in Hl; lia. }
    rewrite R1.
    2:{ destruct (ceqb N (s_cur ss) e'); [cbn; lia|].
        destruct (eqb N (re r) (zero N) || eqb N (im r) (zero N)); cbn; lia. }
    repeat split; cbn; try assumption; try discriminate.
  Qed.

  (* M: the first pair (does not need the full invariant) *)
  Lemma step_move abs st ss p stk' last :
    p_cur st = s_cur ss ->
    exists st',
      exec cM last abs (fpt p ++ stk') st = Ok (stk', st')
      /\ Inv st' (sp_move N abs ss p)
      /\ p_cmd st' = Some cL /\ p_abs st' = abs /\ p_segs st' = p_segs st.
  Proof.
    intros Hcur. unfold Parse.exec. rewrite pop2_fpt. cbn [bind fst snd].
    eexists. split; [reflexivity|].
    unfold sp_move, to_abs. rewrite Hcur.
    repeat split; cbn; try discriminate; destruct abs; reflexivity.
  Qed.

  (* Z *)
  Lemma step_close last abs st ss stk :
    Inv st ss ->
    exists st',
      exec cZ last abs stk st = Ok (stk, st')
      /\ Inv st' (fst (sp_close N ss))
      /\ p_cmd st' = None
      /\ p_segs st' = rev (snd (sp_close N ss)) ++ p_segs st.
  Proof.
    intros I. inv_simpl. unfold Parse.exec. rewrite Hstart, Hcur.
    eexists. split; [reflexivity|].
    unfold sp_close; cbn [fst snd p_cmd p_segs p_cur p_start].
    repeat split; cbn; try discriminate.
    destruct (ceqb N (s_cur ss) (s_start ss)); reflexivity.
  Qed.

  (* -------------------------------------------------------------- *)
  (* implicit repetition                                             *)

  Lemma spec_args_cons {A} (f : sstate -> A -> sstate * list (seg K)) ss a r :
    spec_args f ss (a :: r)
    = (fst (spec_args f (fst (f ss a)) r), snd (f ss a) ++ snd (spec_args f (fst (f ss a)) r)).
  Proof. cbn. destruct (f ss a) as [s1 o1]. cbn. destruct (spec_args f s1 r). reflexivity. Qed.
  Lemma spec_from_cons ss c r :
    spec_from N ss (c :: r)
    = (fst (spec_from N (fst (spec_cmd N ss c)) r),
       snd (spec_cmd N ss c) ++ snd (spec_from N (fst (spec_cmd N ss c)) r)).
  Proof. cbn. destruct (spec_cmd N ss c) as [s1 o1]. cbn. destruct (spec_from N s1 r). reflexivity. Qed.

  Fixpoint pre_all {A} (sstep : sstate -> A -> sstate * list (seg K))
           (pre : sstate -> A -> Prop) (ss : sstate) (args : list A) : Prop :=
    match args with
    | [] => True
    | a :: r => pre ss a /\ pre_all sstep pre (fst (sstep ss a)) r
    end.

  Section Groups.
    Context {A : Type} (smooth : bool) (c : cmdletter) (ftoks : A -> list (tok K))
            (sstep : bool -> sstate -> A -> sstate * list (seg K))
            (pre : bool -> sstate -> A -> Prop).
    Hypothesis G : group_ok smooth c ftoks sstep pre.
    Hypothesis ftoks_num : forall a, exists v r, ftoks a = TNum v :: r.

    (* further groups: the stack starts with a number, command stays c *)
    Lemma implicit_groups abs : forall args st ss rest,
      Inv st ss -> p_cmd st = Some c -> p_abs st = abs ->
      pre_all (sstep abs) (pre abs) ss args ->
      exists st',
        reaches (flat_map ftoks args ++ rest) st rest st'
        /\ Inv st' (fst (spec_args (sstep abs) ss args))
        /\ p_cmd st' = Some c /\ p_abs st' = abs
        /\ p_segs st' = rev (snd (spec_args (sstep abs) ss args)) ++ p_segs st.
    Proof.
      induction args as [|a more IH]; intros st ss rest I Hc Ha P.
      - exists st. cbn. split; [apply reaches_refl|]. split; [exact I|]. split; [exact Hc|].
        split; [exact Ha|reflexivity].
      - destruct P as [P1 P2].
        destruct (G abs st ss a (flat_map ftoks more ++ rest) I P1) as (st1 & E & I1 & C1 & A1 & S1).
        { right. right. congruence. }
        destruct (IH st1 _ rest I1 C1 A1 P2) as (st2 & R2 & I2 & C2 & A2 & S2).
        exists st2. rewrite spec_args_cons. cbn [fst snd].
        split; [|split; [exact I2|split; [exact C2|split; [exact A2|]]]].
        + eapply reaches_trans; [|exact R2].
          cbn [flat_map]. rewrite <- app_assoc.
          destruct (ftoks_num a) as (v & r & Ef).
          apply reaches_step.
          * rewrite Ef. discriminate.
          * rewrite (step_implicit _ st c v (r ++ flat_map ftoks more ++ rest));
              [|rewrite Ef; reflexivity|exact Hc].
            rewrite Ha, <- Hc. exact E.
          * rewrite Ef. cbn. rewrite !app_length. lia.
        + rewrite S2, S1, rev_app_distr, app_assoc. reflexivity.
    Qed.

    (* the command letter followed by its groups *)
    Lemma explicit_groups abs : forall a more st ss rest,
      Inv st ss -> (smooth = false \/ none_ok = true \/ p_cmd st <> None) ->
      pre_all (sstep abs) (pre abs) ss (a :: more) ->
      exists st',
        reaches (TCmd c abs :: flat_map ftoks (a :: more) ++ rest) st rest st'
        /\ Inv st' (fst (spec_args (sstep abs) ss (a :: more)))
        /\ p_cmd st' = Some c
        /\ p_segs st' = rev (snd (spec_args (sstep abs) ss (a :: more))) ++ p_segs st.
    Proof.
      intros a more st ss rest I Hn [P1 P2].
      destruct (G abs st ss a (flat_map ftoks more ++ rest) I P1 Hn) as (st1 & E & I1 & C1 & A1 & S1).
      destruct (implicit_groups abs more st1 _ rest I1 C1 A1 P2) as (st2 & R2 & I2 & C2 & A2 & S2).
      exists st2. rewrite spec_args_cons. cbn [fst snd].
      split; [|split; [exact I2|split; [exact C2|]]].
      - eapply reaches_trans; [|exact R2].
        cbn [flat_map]. rewrite <- app_assoc.
        apply reaches_step.
        + discriminate.
        + exact E.
        + cbn. rewrite !app_length. lia.
      - rewrite S2, S1, rev_app_distr, app_assoc. reflexivity.
    Qed.
  End Groups.

  Lemma fpt_num (p : pt) : exists v r, fpt p = TNum v :: r.
  Proof. unfold fpt. eauto. Qed.
  Lemma fnum_num (x : K) : exists v r, fnum x = TNum v :: r.
  Proof. unfold fnum. eauto. Qed.
  Lemma fcurve_num (a : pt * pt * pt) : exists v r, fcurve a = TNum v :: r.
  Proof. unfold fcurve, fpt. cbn. eauto. Qed.
  Lemma fpair_num (a : pt * pt) : exists v r, fpair a = TNum v :: r.
  Proof. unfold fpair, fpt. cbn. eauto. Qed.
  Lemma farc_num (a : arcargs K) : exists v r, farc N a = TNum v :: r.
  Proof. unfold farc, fpt. cbn. eauto. Qed.

  Lemma pre_all_no_pre {A} (f : sstate -> A -> sstate * list (seg K)) abs ss args :
    pre_all f (@no_pre A abs) ss args.
  Proof. revert ss. induction args; cbn; intros; [exact I|split; [exact I|apply IHargs]]. Qed.

  Lemma args_ok_pre_all abs ss l :
    coinc_ok = true \/ args_ok (sp_arc N abs) (arc_not_coincident N abs) ss l = true ->
    pre_all (sp_arc N abs) (arc_pre abs) ss l.
  Proof.
    revert ss. induction l as [|a r IH]; cbn; intros ss H; [exact I|].
    split.
    - destruct H as [H|H]; [left; exact H|right]. apply andb_true_iff in H. apply H.
    - apply IH. destruct H as [H|H]; [left; exact H|right]. apply andb_true_iff in H. apply H.
  Qed.

  (* -------------------------------------------------------------- *)
  (* one command                                                     *)

  Lemma cmd_moveto abs ps st ss rest :
    p_cur st = s_cur ss -> cmd_wf (MoveTo abs ps) = true ->
    exists st',
      reaches (flatten_cmd N (MoveTo abs ps) ++ rest) st rest st'
      /\ Inv st' (fst (spec_cmd N ss (MoveTo abs ps)))
      /\ p_cmd st' = Some cL
      /\ p_segs st' = rev (snd (spec_cmd N ss (MoveTo abs ps))) ++ p_segs st.
  Proof.
    intros Hcur W. destruct ps as [|p more]; [discriminate|].
    cbn [flatten_cmd flat_map spec_cmd app]. rewrite <- app_assoc.
    destruct (step_move abs st ss p (flat_map fpt more ++ rest) (p_cmd st) Hcur)
      as (st1 & E & I1 & C1 & A1 & S1).
    destruct (implicit_groups _ _ _ _ _ group_line fpt_num abs more st1 _ rest I1 C1 A1
                (pre_all_no_pre _ _ _ _)) as (st2 & R2 & I2 & C2 & A2 & S2).
    exists st2. split; [|split; [exact I2|split; [exact C2|]]].
    - eapply reaches_trans; [|exact R2]. apply reaches_step.
      + discriminate.
      + exact E.
      + cbn. rewrite !app_length. lia.
    - rewrite S2, S1. reflexivity.
  Qed.

  Lemma cmd_groups {A} smooth c (ftoks : A -> list (tok K)) sstep pre
        (G : group_ok smooth c ftoks sstep pre)
        (Fn : forall a, exists v r, ftoks a = TNum v :: r) abs (args : list A) st ss rest :
    nonempty args = true -> Inv st ss ->
    (smooth = false \/ none_ok = true \/ p_cmd st <> None) ->
    pre_all (sstep abs) (pre abs) ss args ->
    exists st',
      reaches ((TCmd c abs :: flat_map ftoks args) ++ rest) st rest st'
      /\ Inv st' (fst (spec_args (sstep abs) ss args))
      /\ p_cmd st' = Some c
      /\ p_segs st' = rev (snd (spec_args (sstep abs) ss args)) ++ p_segs st.
  Proof.
    intros NE I Hn P. destruct args as [|a more]; [discriminate|].
    rewrite <- app_comm_cons.
    exact (explicit_groups _ _ _ _ _ G Fn abs a more st ss rest I Hn P).
  Qed.

  Definition cmd_pre (ss : sstate) (c : command K) : Prop :=
    coinc_ok = true \/ cmd_no_coincident_arc N ss c = true.

  Lemma cmd_any c st ss rest :
    Inv st ss -> cmd_wf c = true ->
    (none_ok = true \/ p_cmd st <> None \/ is_smooth c = false) ->
    cmd_pre ss c ->
    exists st',
      reaches (flatten_cmd N c ++ rest) st rest st'
      /\ Inv st' (fst (spec_cmd N ss c))
      /\ (p_cmd st' = None -> is_close c = true)
      /\ p_segs st' = rev (snd (spec_cmd N ss c)) ++ p_segs st.
  Proof.
    intros I W Hn P.
    assert (Hs : is_smooth c = true -> true = false \/ none_ok = true \/ p_cmd st <> None).
    { intros S. destruct Hn as [H|[H|H]]; [right; left; exact H|right; right; exact H|congruence]. }
    assert (Hf : false = false \/ none_ok = true \/ p_cmd st <> None) by (left; reflexivity).
    destruct c as [abs ps|abs ps|abs xs|abs ys|abs cs|abs cs|abs qs|abs ps|abs l|up];
      cbn [flatten_cmd spec_cmd].
    - destruct (cmd_moveto abs ps st ss rest (inv_cur _ _ I) W) as (st' & R & I' & C' & S').
      exists st'. split; [exact R|split; [exact I'|split; [|exact S']]].
      rewrite C'. discriminate.
    - destruct (cmd_groups _ _ _ _ _ group_line fpt_num abs ps st ss rest W I Hf
                  (pre_all_no_pre _ _ _ _)) as (st' & R & I' & C' & S').
      exists st'. split; [exact R|split; [exact I'|split; [|exact S']]].
      rewrite C'. discriminate.
    - destruct (cmd_groups _ _ _ _ _ group_h fnum_num abs xs st ss rest W I Hf
                  (pre_all_no_pre _ _ _ _)) as (st' & R & I' & C' & S').
      exists st'. split; [exact R|split; [exact I'|split; [|exact S']]].
      rewrite C'. discriminate.
    - destruct (cmd_groups _ _ _ _ _ group_v fnum_num abs ys st ss rest W I Hf
                  (pre_all_no_pre _ _ _ _)) as (st' & R & I' & C' & S').
      exists st'. split; [exact R|split; [exact I'|split; [|exact S']]].
      rewrite C'. discriminate.
    - destruct (cmd_groups _ _ _ _ _ group_curve fcurve_num abs cs st ss rest W I Hf
                  (pre_all_no_pre _ _ _ _)) as (st' & R & I' & C' & S').
      exists st'. split; [exact R|split; [exact I'|split; [|exact S']]].
      rewrite C'. discriminate.
    - destruct (cmd_groups _ _ _ _ _ group_smooth fpair_num abs cs st ss rest W I (Hs eq_refl)
                  (pre_all_no_pre _ _ _ _)) as (st' & R & I' & C' & S').
      exists st'. split; [exact R|split; [exact I'|split; [|exact S']]].
      rewrite C'. discriminate.
    - destruct (cmd_groups _ _ _ _ _ group_quad fpair_num abs qs st ss rest W I Hf
                  (pre_all_no_pre _ _ _ _)) as (st' & R & I' & C' & S').
      exists st'. split; [exact R|split; [exact I'|split; [|exact S']]].
      rewrite C'. discriminate.
    - destruct (cmd_groups _ _ _ _ _ group_t fpt_num abs ps st ss rest W I (Hs eq_refl)
                  (pre_all_no_pre _ _ _ _)) as (st' & R & I' & C' & S').
      exists st'. split; [exact R|split; [exact I'|split; [|exact S']]].
      rewrite C'. discriminate.
    - destruct (cmd_groups _ _ _ _ _ group_arc farc_num abs l st ss rest W I Hf
                  (args_ok_pre_all abs ss l P)) as (st' & R & I' & C' & S').
      exists st'. split; [exact R|split; [exact I'|split; [|exact S']]].
      rewrite C'. discriminate.
    - destruct (step_close (p_cmd st) up st ss rest I) as (st' & E & I' & C' & S').
      exists st'. split; [|split; [exact I'|split; [reflexivity|exact S']]].
      apply reaches_step; [discriminate|exact E|cbn; lia].
  Qed.

  (* -------------------------------------------------------------- *)
  (* every program                                                   *)

  Definition head_not_smooth (prog : list (command K)) : bool :=
    match prog with c :: _ => negb (is_smooth c) | [] => true end.

  Lemma refine_from : forall prog st ss,
    forallb (@cmd_wf K) prog = true -> Inv st ss ->
    (none_ok = true \/
     (no_smooth_after_close prog = true /\ (p_cmd st = None -> head_not_smooth prog = true))) ->
    (coinc_ok = true \/ no_coincident_arc_from N ss prog = true) ->
    exists st',
      reaches (flatten N prog) st [] st'
      /\ p_segs st' = rev (snd (spec_from N ss prog)) ++ p_segs st.
  Proof.
    induction prog as [|c r IH]; intros st ss W I Hn Hc.
    - exists st. split; [apply reaches_refl|reflexivity].
    - cbn [forallb] in W. apply andb_true_iff in W. destruct W as [Wc Wr].
      assert (Hn1 : none_ok = true \/ p_cmd st <> None \/ is_smooth c = false).
      { destruct Hn as [H|[_ H]]; [left; exact H|right].
        destruct (p_cmd st); [left; discriminate|right].
        specialize (H eq_refl). cbn in H. apply negb_true_iff in H. exact H. }
      assert (Hc1 : cmd_pre ss c).
      { destruct Hc as [H|H]; [left; exact H|right].
        cbn [no_coincident_arc_from] in H. apply andb_true_iff in H. apply H. }
      destruct (cmd_any c st ss (flatten N r) I Wc Hn1 Hc1) as (st1 & R1 & I1 & C1 & S1).
      destruct (IH st1 _ Wr I1) as (st2 & R2 & S2).
      + destruct Hn as [H|[H _]]; [left; exact H|right].
        cbn [no_smooth_after_close] in H. apply andb_true_iff in H. destruct H as [H1 H2].
        split; [exact H2|]. intros E. specialize (C1 E).
        destruct r as [|d r']; [reflexivity|]. cbn. rewrite C1 in H1. cbn in H1. exact H1.
      + destruct Hc as [H|H]; [left; exact H|right].
        cbn [no_coincident_arc_from] in H. apply andb_true_iff in H. apply H.
      + exists st2. split.
        * cbn [flatten flat_map]. eapply reaches_trans; [exact R1|exact R2].
        * rewrite S2, S1, spec_from_cons. cbn [snd]. rewrite rev_app_distr, app_assoc. reflexivity.
  Qed.

  Theorem refines_general pos0 prog :
    grammatical prog = true ->
    (none_ok = true \/ no_smooth_after_close prog = true) ->
    (coinc_ok = true \/ no_coincident_arc N pos0 prog = true) ->
    impl_parse N none_ok coinc_ok (flatten N prog) pos0 = Ok (spec_run N pos0 prog).
  Proof.
    intros G Hn Hc. unfold grammatical in G. apply andb_true_iff in G. destruct G as [G1 W].
    destruct prog as [|c r]; [discriminate|].
    destruct c as [abs ps| | | | | | | | |]; try discriminate. clear G1.
    cbn [forallb] in W. apply andb_true_iff in W. destruct W as [Wc Wr].
    unfold impl_parse, spec_run.
    destruct (cmd_moveto abs ps (init_state pos0) (spec_init pos0) (flatten N r) eq_refl Wc)
      as (st1 & R1 & I1 & C1 & S1).
    destruct (refine_from r st1 _ Wr I1) as (st2 & R2 & S2).
    - destruct Hn as [H|H]; [left; exact H|right].
      cbn [no_smooth_after_close] in H. apply andb_true_iff in H. destruct H as [_ H].
      split; [exact H|]. rewrite C1. discriminate.
    - destruct Hc as [H|H]; [left; exact H|right].
      unfold no_coincident_arc in H. cbn [no_coincident_arc_from] in H.
      apply andb_true_iff in H. apply H.
    - change (flatten N (MoveTo abs ps :: r)) with (flatten_cmd N (MoveTo abs ps) ++ flatten N r).
      rewrite (reaches_done _ _ st2 (reaches_trans _ _ _ _ _ _ R1 R2)).
      rewrite S2, S1, spec_from_cons. cbn [snd init_state p_segs].
      rewrite app_nil_r, <- rev_app_distr, rev_involutive. reflexivity.
  Qed.
End Refine.
