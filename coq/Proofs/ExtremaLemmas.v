(* Proofs/ExtremaLemmas.v — reusable lemmas for C08 / C13:
   * Python min/max (first extremal element) over any carrier whose ltb is
     asymmetric with a transitive complement;
   * the instance R;
   * extreme_at_candidates: a differentiable function on [0,1] takes its
     extreme values at 0, at 1, or at a zero of its derivative in (0,1)
     (extreme value theorem + Fermat's interior-extremum theorem);
   * Horner evaluation over R: peval of pderiv / padd / pmul. *)
From Coq Require Import ZArith List Bool Reals Lra Lia Classical.
From SVP Require Import Base.Num Base.Cplx Base.Poly Model.Extrema.
Import ListNotations.
Set Implicit Arguments.

(* ------------------------------------------------------------------ *)
Section Ord.
  Context {K : Type} (N : Num K).
  Definition nle (x y : K) : Prop := ltb N y x = false.
  Record OrdOK : Prop := {
    lt_asym : forall x y, ltb N x y = true -> ltb N y x = false;
    nle_trans : forall x y z, nle x y -> nle y z -> nle x z }.
  Hypothesis OK : OrdOK.

  Lemma nle_refl x : nle x x.
  Proof. unfold nle. destruct (ltb N x x) eqn:E; auto. pose proof (lt_asym OK _ _ E). congruence. Qed.

  Section KeyFold.
    Context {A : Type} (key : A -> K).
    Definition minstep (m y : A) : A := if ltb N (key y) (key m) then y else m.
    Definition maxstep (m y : A) : A := if ltb N (key m) (key y) then y else m.

    Lemma fold_minstep r : forall x,
        let m := fold_left minstep r x in
        nle (key m) (key x) /\ (forall y, In y r -> nle (key m) (key y)) /\ In m (x :: r).
    Proof.
      induction r as [|a r IH]; intros x; cbn [fold_left].
      - repeat split; [apply nle_refl | intros y [] | now left].
      - destruct (IH (minstep x a)) as (H1 & H2 & H3). unfold minstep in *.
        destruct (ltb N (key a) (key x)) eqn:E.
        + repeat split.
          * eapply (nle_trans OK); [exact H1|]. unfold nle. apply (lt_asym OK); exact E.
          * intros y [<-|Hy]; auto.
          * destruct H3 as [H3|H3]; [right; left; auto | right; right; auto].
        + repeat split.
          * exact H1.
          * intros y [<-|Hy]; auto. eapply (nle_trans OK); [exact H1| exact E].
          * destruct H3 as [H3|H3]; [left; auto | right; right; auto].
    Qed.

    Lemma fold_maxstep r : forall x,
        let m := fold_left maxstep r x in
        nle (key x) (key m) /\ (forall y, In y r -> nle (key y) (key m)) /\ In m (x :: r).
    Proof.
      induction r as [|a r IH]; intros x; cbn [fold_left].
      - repeat split; [apply nle_refl | intros y [] | now left].
      - destruct (IH (maxstep x a)) as (H1 & H2 & H3). unfold maxstep in *.
        destruct (ltb N (key x) (key a)) eqn:E.
        + repeat split.
          * eapply (nle_trans OK); [|exact H1]. unfold nle. apply (lt_asym OK); exact E.
          * intros y [<-|Hy]; auto.
          * destruct H3 as [H3|H3]; [right; left; auto | right; right; auto].
        + repeat split.
          * exact H1.
          * intros y [<-|Hy]; auto. eapply (nle_trans OK); [exact E|exact H1].
          * destruct H3 as [H3|H3]; [left; auto | right; right; auto].
    Qed.
  End KeyFold.

  (* Python min(l) / max(l) *)
  Lemma lmin_le l y : In y l -> nle (lmin N l) y.
  Proof.
    destruct l as [|x r]; [intros []|]. intros Hy. unfold lmin.
    destruct (fold_minstep (fun a => a) r x) as (H1 & H2 & _).
    change (minstep (fun a : K => a)) with (nmin N) in *.
    destruct Hy as [<-|Hy]; auto.
  Qed.
  Lemma lmin_in l : l <> [] -> In (lmin N l) l.
  Proof.
    destruct l as [|x r]; [congruence|]. intros _. unfold lmin.
    destruct (fold_minstep (fun a => a) r x) as (_ & _ & H3). exact H3.
  Qed.
  Lemma lmax_ge l y : In y l -> nle y (lmax N l).
  Proof.
    destruct l as [|x r]; [intros []|]. intros Hy. unfold lmax.
    destruct (fold_maxstep (fun a => a) r x) as (H1 & H2 & _).
    change (maxstep (fun a : K => a)) with (nmax N) in *.
    destruct Hy as [<-|Hy]; auto.
  Qed.
  Lemma lmax_in l : l <> [] -> In (lmax N l) l.
  Proof.
    destruct l as [|x r]; [congruence|]. intros _. unfold lmax.
    destruct (fold_maxstep (fun a => a) r x) as (_ & _ & H3). exact H3.
  Qed.
  (* min / max by key on (d, t) pairs *)
  Lemma kmin_le l y : In y l -> nle (fst (kmin N l)) (fst y).
  Proof.
    destruct l as [|x r]; [intros []|]. intros Hy. unfold kmin.
    destruct (fold_minstep (@fst K K) r x) as (H1 & H2 & _).
    change (minstep (@fst K K)) with (kmin_step N) in *.
    destruct Hy as [<-|Hy]; auto.
  Qed.
  Lemma kmin_in l : l <> [] -> In (kmin N l) l.
  Proof.
    destruct l as [|x r]; [congruence|]. intros _. unfold kmin.
    destruct (fold_minstep (@fst K K) r x) as (_ & _ & H3). exact H3.
  Qed.
  Lemma kmax_ge l y : In y l -> nle (fst y) (fst (kmax N l)).
  Proof.
    destruct l as [|x r]; [intros []|]. intros Hy. unfold kmax.
    destruct (fold_maxstep (@fst K K) r x) as (H1 & H2 & _).
    change (maxstep (@fst K K)) with (kmax_step N) in *.
    destruct Hy as [<-|Hy]; auto.
  Qed.
  Lemma kmax_in l : l <> [] -> In (kmax N l) l.
  Proof.
    destruct l as [|x r]; [congruence|]. intros _. unfold kmax.
    destruct (fold_maxstep (@fst K K) r x) as (_ & _ & H3). exact H3.
  Qed.
End Ord.

(* ------------------------------------------------------------------ *)
(* the reals *)
Lemma nle_R x y : nle NumR x y <-> (x <= y)%R.
Proof. unfold nle. cbn [ltb NumR]. apply Rlt_b_false. Qed.
Lemma OrdOK_R : OrdOK NumR.
Proof. split.
  - intros x y H. cbn [ltb NumR] in *. apply Rlt_b_true in H. apply Rlt_b_false. lra.
  - intros x y z H1 H2. apply nle_R in H1, H2. apply nle_R. lra.
Qed.

Local Open Scope R_scope.

Lemma lminR_le l y : In y l -> lmin NumR l <= y.
Proof. intros H. apply nle_R. apply (lmin_le OrdOK_R _ _ H). Qed.
Lemma lmaxR_ge l y : In y l -> y <= lmax NumR l.
Proof. intros H. apply nle_R. apply (lmax_ge OrdOK_R _ _ H). Qed.
Definition lminR_in := @lmin_in R NumR OrdOK_R.
Definition lmaxR_in := @lmax_in R NumR OrdOK_R.
Lemma kminR_le l y : In y l -> fst (kmin NumR l) <= fst y.
Proof. intros H. apply nle_R. apply (kmin_le OrdOK_R _ _ H). Qed.
Lemma kmaxR_ge l y : In y l -> fst y <= fst (kmax NumR l).
Proof. intros H. apply nle_R. apply (kmax_ge OrdOK_R _ _ H). Qed.
Definition kminR_in := @kmin_in R NumR OrdOK_R.
Definition kmaxR_in := @kmax_in R NumR OrdOK_R.

Lemma lt01_R t : lt01 NumR t = true <-> 0 < t < 1.
Proof. unfold lt01. cbn [ltb NumR zero one]. rewrite andb_true_iff, !Rlt_b_true. tauto. Qed.
Lemma le01_R t : le01 NumR t = true <-> 0 <= t <= 1.
Proof. unfold le01. cbn [leb NumR zero one]. rewrite andb_true_iff, !Rle_b_true. tauto. Qed.

(* ------------------------------------------------------------------ *)
(* extreme_at_candidates *)
Section Candidates.
  Variables (f f' : R -> R).
  Hypothesis Hd : forall t, derivable_pt_lim f t (f' t).

  Lemma f_cont t : continuity_pt f t.
  Proof. apply derivable_continuous_pt. exists (f' t). apply Hd. Qed.

  (* the maximum over [0,1] is taken at 0, at 1, or at an interior zero of f' *)
  Lemma max_at_candidate :
    exists c, 0 <= c <= 1 /\ (forall t, 0 <= t <= 1 -> f t <= f c) /\
              (c = 0 \/ c = 1 \/ (0 < c < 1 /\ f' c = 0)).
  Proof.
    destruct (continuity_ab_maj f 0 1) as (M & HM & HM01); [lra | intros; apply f_cont |].
    exists M. split; [exact HM01|]. split; [exact HM|].
    destruct (Req_dec M 0) as [->|n0]; [now left|].
    destruct (Req_dec M 1) as [->|n1]; [now right; left|].
    right; right. split; [lra|].
    assert (pr : derivable_pt f M) by (exists (f' M); apply Hd).
    rewrite <- (proj2 (derive_pt_eq f M (f' M) pr) (Hd M)).
    apply (deriv_maximum f 0 1 M pr); try lra.
    intros x Hx1 Hx2. apply HM. lra.
  Qed.
  Lemma min_at_candidate :
    exists c, 0 <= c <= 1 /\ (forall t, 0 <= t <= 1 -> f c <= f t) /\
              (c = 0 \/ c = 1 \/ (0 < c < 1 /\ f' c = 0)).
  Proof.
    destruct (continuity_ab_min f 0 1) as (M & HM & HM01); [lra | intros; apply f_cont |].
    exists M. split; [exact HM01|]. split; [exact HM|].
    destruct (Req_dec M 0) as [->|n0]; [now left|].
    destruct (Req_dec M 1) as [->|n1]; [now right; left|].
    right; right. split; [lra|].
    assert (pr : derivable_pt f M) by (exists (f' M); apply Hd).
    rewrite <- (proj2 (derive_pt_eq f M (f' M) pr) (Hd M)).
    apply (deriv_minimum f 0 1 M pr); try lra.
    intros x Hx1 Hx2. apply HM. lra.
  Qed.

  Variable cs : list R.
  Hypothesis Hcs : forall t, 0 < t < 1 -> f' t = 0 -> In t cs.

  Lemma extreme_at_candidates_ex t : 0 <= t <= 1 ->
    (exists c, In c (0 :: 1 :: cs) /\ f c <= f t) /\ (exists c, In c (0 :: 1 :: cs) /\ f t <= f c).
  Proof.
    intros Ht. split.
    - destruct min_at_candidate as (c & _ & Hc & Hw). exists c. split; [|apply Hc; exact Ht].
      destruct Hw as [->|[->|[H1 H2]]]; [now left | now right; left | right; right; auto].
    - destruct max_at_candidate as (c & _ & Hc & Hw). exists c. split; [|apply Hc; exact Ht].
      destruct Hw as [->|[->|[H1 H2]]]; [now left | now right; left | right; right; auto].
  Qed.

  Theorem extreme_at_candidates t : 0 <= t <= 1 ->
    lmin NumR (f 0 :: f 1 :: map f cs) <= f t <= lmax NumR (f 0 :: f 1 :: map f cs).
  Proof.
    intros Ht. destruct (extreme_at_candidates_ex Ht) as [(c & Hc & Hle) (c' & Hc' & Hge)].
    change (f 0 :: f 1 :: map f cs) with (map f (0 :: 1 :: cs)). split.
    - eapply Rle_trans; [|exact Hle]. apply lminR_le. apply in_map. exact Hc.
    - eapply Rle_trans; [exact Hge|]. apply lmaxR_ge. apply in_map. exact Hc'.
  Qed.
End Candidates.

(* a candidate list that is a superset works as well, and the extreme values
   of any list of candidates inside [0,1] are values of f on [0,1] *)
Lemma lmin_map_attained (f : R -> R) (l : list R) : l <> [] ->
  exists c, In c l /\ lmin NumR (map f l) = f c.
Proof.
  intros Hl. assert (Hm : map f l <> []) by (destruct l; cbn; congruence).
  pose proof (lminR_in Hm) as H. apply in_map_iff in H. destruct H as (c & E & Hc). exists c; auto.
Qed.
Lemma lmax_map_attained (f : R -> R) (l : list R) : l <> [] ->
  exists c, In c l /\ lmax NumR (map f l) = f c.
Proof.
  intros Hl. assert (Hm : map f l <> []) by (destruct l; cbn; congruence).
  pose proof (lmaxR_in Hm) as H. apply in_map_iff in H. destruct H as (c & E & Hc). exists c; auto.
Qed.

(* ------------------------------------------------------------------ *)
(* Horner evaluation over R *)
Section PolyR.
  Notation pev := (peval NumR).
  Lemma fold_horner p : forall acc x,
      fold_left (fun y c => add NumR (mul NumR y x) c) p acc = acc * x ^ length p + pev p x.
  Proof.
    unfold peval. induction p as [|c p IH]; intros acc x; cbn [fold_left length].
    - cbn. lra.
    - rewrite IH. rewrite (IH (add NumR (mul NumR (zero NumR) x) c)). cbn. ring.
  Qed.
  Lemma peval_cons c p x : pev (c :: p) x = c * x ^ length p + pev p x.
  Proof. unfold peval at 1. cbn [fold_left]. rewrite fold_horner. cbn. ring. Qed.
  Lemma peval_nil x : pev [] x = 0.
  Proof. reflexivity. Qed.

  Lemma pderiv_length p : length (pderiv NumR p) = (length p - 1)%nat.
  Proof.
    induction p as [|c p IH]; [reflexivity|]. cbn [pderiv].
    destruct p as [|d q]; [reflexivity|]. cbn [length] in *. rewrite IH. lia.
  Qed.

  Lemma peval_derivable p x : derivable_pt_lim (pev p) x (pev (pderiv NumR p) x).
  Proof.
    induction p as [|c p IH].
    - cbn. apply (derivable_pt_lim_const 0).
    - destruct p as [|d q].
      + cbn [pderiv]. rewrite peval_nil.
        eapply derivable_pt_lim_ext with (f := fun _ => c).
        * intros y. rewrite peval_cons. cbn. lra.
        * apply derivable_pt_lim_const.
      + set (p := d :: q) in *.
        assert (E : pderiv NumR (c :: p) = mul NumR (lit NumR (Z.of_nat (length p))) c :: pderiv NumR p)
          by reflexivity.
        rewrite E, peval_cons, pderiv_length. rewrite lit_R.
        eapply derivable_pt_lim_ext with (f := fun y => c * y ^ length p + pev p y).
        * intros y. rewrite peval_cons. reflexivity.
        * replace (mul NumR (IZR (Z.of_nat (length p))) c * x ^ (length p - 1) + pev (pderiv NumR p) x)
            with (c * (INR (length p) * x ^ pred (length p)) + pev (pderiv NumR p) x).
          -- apply derivable_pt_lim_plus; [|exact IH].
             apply derivable_pt_lim_scal. apply derivable_pt_lim_pow.
          -- rewrite <- INR_IZR_INZ. cbn [mul NumR]. replace (pred (length p)) with (length p - 1)%nat by lia. ring.
  Qed.

  Lemma peval_zeros k p x : pev (repeat 0 k ++ p) x = pev p x.
  Proof. induction k; cbn [repeat app]; [reflexivity|]. rewrite peval_cons, IHk. ring. Qed.
  Lemma peval_app_zeros p k x : pev (p ++ repeat 0 k) x = pev p x * x ^ k.
  Proof.
    induction p as [|c p IH]; cbn [app].
    - rewrite <- (app_nil_r (repeat 0 k)), peval_zeros. cbn. ring.
    - rewrite !peval_cons, IH, app_length, repeat_length, pow_add. ring.
  Qed.
  Lemma peval_map2 (p q : list R) x : length p = length q ->
    pev (map (fun ab => add NumR (fst ab) (snd ab)) (combine p q)) x = pev p x + pev q x.
  Proof.
    revert q; induction p as [|a p IH]; intros [|b q] H; cbn in H; try discriminate.
    - cbn. lra.
    - cbn [combine map fst snd]. rewrite !peval_cons, IH by lia.
      rewrite map_length, combine_length. replace (Nat.min (length p) (length q)) with (length p) by lia.
      replace (length q) with (length p) by lia. cbn. ring.
  Qed.
  Lemma peval_padd p q x : pev (padd NumR p q) x = pev p x + pev q x.
  Proof.
    unfold padd. rewrite peval_map2.
    - change (zero NumR) with 0. rewrite !peval_zeros. reflexivity.
    - rewrite !app_length, !repeat_length. lia.
  Qed.
  Lemma peval_pscale c p x : pev (pscale NumR c p) x = c * pev p x.
  Proof.
    induction p as [|a p IH]; cbn [pscale map]; [cbn; lra|].
    fold (pscale NumR c p). rewrite !peval_cons, IH. unfold pscale. rewrite map_length. cbn. ring.
  Qed.
  Lemma peval_pmul p q x : pev (pmul NumR p q) x = pev p x * pev q x.
  Proof.
    induction p as [|c p IH]; cbn [pmul]; [cbn; lra|].
    rewrite peval_padd, IH. change (zero NumR) with 0. rewrite peval_app_zeros, peval_pscale, peval_cons. ring.
  Qed.
End PolyR.

(* ------------------------------------------------------------------ *)
(* candidates under an oracle contract that is void for the zero polynomial:
   when f' vanishes identically f is constant (mean value theorem) *)
Section CandidatesNz.
  Variables (f f' : R -> R).
  Hypothesis Hd : forall t, derivable_pt_lim f t (f' t).
  Variable cs : list R.
  Hypothesis Hcs : (exists s, f' s <> 0) -> forall t, 0 < t < 1 -> f' t = 0 -> In t cs.

  Lemma const_if_null t : (forall s, f' s = 0) -> 0 <= t <= 1 -> f t = f 0.
  Proof.
    intros Hz Ht. destruct (Req_dec t 0) as [->|n]; [reflexivity|].
    destruct (MVT_cor2 f f' 0 t) as (c & E & _); [lra | intros; apply Hd |].
    rewrite Hz in E. lra.
  Qed.

  Lemma extreme_at_candidates_nz_ex t : 0 <= t <= 1 ->
    (exists c, In c (0 :: 1 :: cs) /\ f c <= f t) /\ (exists c, In c (0 :: 1 :: cs) /\ f t <= f c).
  Proof.
    intros Ht. destruct (classic (exists s, f' s <> 0)) as [Hnz|Hz].
    - eapply extreme_at_candidates_ex; eauto.
    - assert (Hz' : forall s, f' s = 0).
      { intros s. destruct (Req_dec (f' s) 0); auto. exfalso; apply Hz; exists s; auto. }
      rewrite (const_if_null Hz' Ht). split; exists 0; (split; [now left | lra]).
  Qed.

  Theorem extreme_at_candidates_nz t : 0 <= t <= 1 ->
    lmin NumR (f 0 :: f 1 :: map f cs) <= f t <= lmax NumR (f 0 :: f 1 :: map f cs).
  Proof.
    intros Ht. destruct (classic (exists s, f' s <> 0)) as [Hnz|Hz].
    - eapply extreme_at_candidates; eauto.
    - assert (Hz' : forall s, f' s = 0).
      { intros s. destruct (Req_dec (f' s) 0); auto. exfalso; apply Hz; exists s; auto. }
      rewrite (const_if_null Hz' Ht). split; [apply lminR_le | apply lmaxR_ge]; now left.
  Qed.
End CandidatesNz.
