(* Proofs/TangentAlg.v — the regular branch of unit_tangent / normal /
   curvature over the reals: modulus 1, rotation by -90 degrees, curvature
   formula, lines, circles, covariance under similarity transforms and
   reversal, reparameterisation by Path.derivative. *)
From Coq Require Import ZArith List Bool Reals Lra Lia Field.
From Coquelicot Require Import Coquelicot.
From SVP Require Import Base.Num Base.Cplx Base.Poly Base.FieldTac Model.Bezier
     Proofs.BezierAlg Proofs.BezierDeriv Model.Tangent.
Import ListNotations.
Local Open Scope R_scope.
Set Implicit Arguments.

Notation NR := NumR.
Notation TR := NumTR.

(* ---------------- small facts about NumR ---------------- *)
Lemma nabs_R x : nabs NR x = Rabs x.
Proof.
  unfold nabs; cbn [ltb NumR zero opp]. unfold Rlt_b. destruct (Rlt_dec x 0).
  - rewrite Rabs_left; auto.
  - rewrite Rabs_right; auto; lra.
Qed.
Lemma eqb_R_false x y : x <> y -> eqb NR x y = false.
Proof. intros H. cbn. unfold Req_b. destruct (Req_EM_T x y); congruence. Qed.
Lemma eqb_R_true x : eqb NR x x = true.
Proof. cbn. apply Req_b_true; reflexivity. Qed.

Lemma sqrt_sq_abs x : sqrt (x * x) = Rabs x.
Proof. exact (sqrt_Rsqr_abs x). Qed.

Definition nrm (z : Cplx R) : R := sqrt (fst z * fst z + snd z * snd z).
Lemma cabs_R z : cabs TR z = nrm z.
Proof. reflexivity. Qed.

Lemma sumsq_pos x y : (x, y) <> (0, 0) -> 0 < x * x + y * y.
Proof.
  intros H. destruct (Req_dec x 0) as [->|Hx].
  - destruct (Req_dec y 0) as [->|Hy]; [congruence|]. nra.
  - nra.
Qed.
Lemma nrm_pos z : z <> (0, 0) -> 0 < nrm z.
Proof. destruct z as [x y]. intros H. unfold nrm; cbn. apply sqrt_lt_R0, sumsq_pos, H. Qed.
Lemma nrm_sq z : nrm z * nrm z = fst z * fst z + snd z * snd z.
Proof. unfold nrm. apply sqrt_sqrt. nra. Qed.
Lemma nrm_zero_iff z : nrm z = 0 <-> z = (0, 0).
Proof.
  split.
  - intros H. destruct z as [x y]. destruct (Req_dec x 0) as [->|Hx].
    + destruct (Req_dec y 0) as [->|Hy]; [reflexivity|].
      assert (Q : (0, y) <> (0, 0)) by congruence. pose proof (nrm_pos Q). lra.
    + assert (Q : (x, y) <> (0, 0)) by congruence. pose proof (nrm_pos Q). lra.
  - intros ->. unfold nrm; cbn. rewrite Rmult_0_l, Rplus_0_r. apply sqrt_0.
Qed.
Lemma nrm_cmul w z : nrm (cmul NR w z) = nrm w * nrm z.
Proof.
  destruct w as [a b], z as [x y]. unfold nrm, cmul; cbn.
  rewrite <- sqrt_mult by nra. f_equal. ring.
Qed.
Lemma nrm_copp z : nrm (copp NR z) = nrm z.
Proof. destruct z as [x y]. unfold nrm, copp; cbn. f_equal. ring. Qed.

(* ---------------- unit tangent: regular branch ---------------- *)
Lemma unit_of_R d : unit_of NR TR d = (fst d / nrm d, snd d / nrm d).
Proof. reflexivity. Qed.

Lemma unit_of_norm d : d <> (0, 0) -> nrm (unit_of NR TR d) = 1.
Proof.
  intros H. pose proof (nrm_pos H) as P. pose proof (nrm_sq d) as S.
  rewrite unit_of_R. unfold nrm at 1; cbn [fst snd].
  replace (fst d / nrm d * (fst d / nrm d) + snd d / nrm d * (snd d / nrm d))
    with ((fst d * fst d + snd d * snd d) / (nrm d * nrm d)) by (field; lra).
  rewrite <- S. unfold Rdiv. rewrite Rinv_r by nra. apply sqrt_1.
Qed.

(* unit_of d is the positive multiple of d of modulus one: d = |d| * unit_of d *)
Lemma unit_of_dir d : d <> (0, 0) -> cscale NR (nrm d) (unit_of NR TR d) = d.
Proof.
  intros H. pose proof (nrm_pos H). destruct d as [x y]. rewrite unit_of_R.
  unfold cscale; cbn. f_equal; field; lra.
Qed.

Lemma bezier_unit_tangent_regular rp poly d hi t :
  d <> (0, 0) -> bezier_unit_tangent NR TR rp poly d hi t = Val (unit_of NR TR d).
Proof.
  intros H. unfold bezier_unit_tangent. rewrite cabs_R.
  rewrite eqb_R_false; [reflexivity|]. pose proof (nrm_pos H). cbn; lra.
Qed.

(* ---------------- normal ---------------- *)
Lemma mul_neg_i_rot z : mul_neg_i NR z = rot_m90 NR z.
Proof. destruct z as [x y]. unfold mul_neg_i, rot_m90; cbn. f_equal; ring. Qed.
(* rotation by -90 degrees = multiplication by -i = (cos(-90) + i sin(-90)) *)
Lemma rot_m90_cmul z : rot_m90 NR z = cmul NR (0, -1) z.
Proof. destruct z as [x y]. unfold rot_m90, cmul; cbn. f_equal; ring. Qed.
Lemma rot_m90_norm z : nrm (rot_m90 NR z) = nrm z.
Proof. destruct z as [x y]. unfold nrm, rot_m90; cbn. f_equal; ring. Qed.
(* n is perpendicular to T and (T, n) is negatively oriented: n is to the right of T *)
Lemma rot_m90_perp z : fst z * fst (rot_m90 NR z) + snd z * snd (rot_m90 NR z) = 0.
Proof. destruct z as [x y]. unfold rot_m90; cbn. ring. Qed.
Lemma rot_m90_cross z :
  fst z * snd (rot_m90 NR z) - snd z * fst (rot_m90 NR z) = - (nrm z * nrm z).
Proof. rewrite nrm_sq. destruct z as [x y]. unfold rot_m90; cbn. ring. Qed.

(* ---------------- curvature: regular branch ---------------- *)
Definition cross (a b : Cplx R) : R := fst a * snd b - snd a * fst b.
Lemma curv_formula_R dz ddz : curv_formula NR TR dz ddz = Rabs (cross dz ddz) / (nrm dz) ^ 3.
Proof.
  unfold curv_formula, curv_num, curv_den. rewrite nabs_R. cbn [div NumR].
  reflexivity.
Qed.
Lemma curv_den_R dz : curv_den NR TR dz = (nrm dz) ^ 3.
Proof. reflexivity. Qed.

Lemma segment_curvature_regular poly dz ddz t :
  dz <> (0, 0) -> segment_curvature NR TR poly dz ddz t = Val (curv_formula NR TR dz ddz).
Proof.
  intros H. unfold segment_curvature. rewrite curv_den_R.
  rewrite eqb_R_false; [reflexivity|]. pose proof (nrm_pos H).
  change (zero NR) with 0. apply pow_nonzero. lra.
Qed.

(* a vanishing second derivative (a line) has curvature 0 *)
Lemma curv_formula_line dz : curv_formula NR TR dz (0, 0) = 0.
Proof.
  rewrite curv_formula_R.
  assert (E : cross dz (0, 0) = 0) by (destruct dz; unfold cross; cbn; ring).
  rewrite E, Rabs_R0. unfold Rdiv; ring.
Qed.
(* ... and so has any parameterisation of a straight line: dd parallel to d *)
Lemma curv_formula_parallel dz (c : R) : curv_formula NR TR dz (cscale NR c dz) = 0.
Proof.
  rewrite curv_formula_R.
  assert (E : cross dz (cscale NR c dz) = 0) by (destruct dz; unfold cross, cscale; cbn; ring).
  rewrite E, Rabs_R0. unfold Rdiv; ring.
Qed.

(* ---------------- similarity covariance at the level of derivative vectors -------- *)
Lemma cmul_nz w d : w <> (0, 0) -> d <> (0, 0) -> cmul NR w d <> (0, 0).
Proof.
  intros Hw Hd E. apply nrm_zero_iff in E. rewrite nrm_cmul in E.
  pose proof (nrm_pos Hw). pose proof (nrm_pos Hd). nra.
Qed.

Lemma unit_of_cmul w d : w <> (0, 0) -> d <> (0, 0) ->
  unit_of NR TR (cmul NR w d) = cmul NR (unit_of NR TR w) (unit_of NR TR d).
Proof.
  intros Hw Hd. pose proof (nrm_pos Hw). pose proof (nrm_pos Hd).
  rewrite !unit_of_R, nrm_cmul. destruct w as [a b], d as [x y]. unfold cmul; cbn [fst snd re im NumR sub add mul].
  f_equal; field; lra.
Qed.
(* positive real scale factor: same direction *)
Lemma unit_of_cscale (l : R) d : 0 < l -> d <> (0, 0) ->
  unit_of NR TR (cscale NR l d) = unit_of NR TR d.
Proof.
  intros Hl Hd. pose proof (nrm_pos Hd).
  assert (E : nrm (cscale NR l d) = l * nrm d).
  { destruct d as [x y]. unfold nrm, cscale; cbn.
    replace (l * x * (l * x) + l * y * (l * y)) with ((l * l) * (x * x + y * y)) by ring.
    rewrite sqrt_mult by nra. rewrite sqrt_square by lra. reflexivity. }
  rewrite !unit_of_R, E. destruct d as [x y]. unfold cscale; cbn [fst snd NumR mul].
  apply cplx_eq; unfold re, im; cbn [fst snd]; field; lra.
Qed.
Lemma unit_of_copp d : unit_of NR TR (copp NR d) = copp NR (unit_of NR TR d).
Proof.
  rewrite !unit_of_R, nrm_copp. destruct d as [x y]. unfold copp; cbn. f_equal; unfold Rdiv; ring.
Qed.

Lemma cross_cmul w d dd :
  cross (cmul NR w d) (cmul NR w dd) = (nrm w * nrm w) * cross d dd.
Proof.
  rewrite nrm_sq. destruct w as [a b], d as [x y], dd as [u v]. unfold cross, cmul; cbn. ring.
Qed.

Lemma curv_formula_similarity w d dd : w <> (0, 0) -> d <> (0, 0) ->
  curv_formula NR TR (cmul NR w d) (cmul NR w dd) = curv_formula NR TR d dd / nrm w.
Proof.
  intros Hw Hd. pose proof (nrm_pos Hw). pose proof (nrm_pos Hd).
  rewrite !curv_formula_R, cross_cmul, nrm_cmul, Rabs_mult.
  rewrite (Rabs_right (nrm w * nrm w)) by nra.
  field. split; lra.
Qed.
(* mirror image (conjugation): curvature is unchanged *)
Lemma curv_formula_conj d dd :
  curv_formula NR TR (cconj NR d) (cconj NR dd) = curv_formula NR TR d dd.
Proof.
  rewrite !curv_formula_R.
  assert (E1 : cross (cconj NR d) (cconj NR dd) = - cross d dd)
    by (destruct d, dd; unfold cross, cconj; cbn; ring).
  assert (E2 : nrm (cconj NR d) = nrm d)
    by (destruct d; unfold nrm, cconj; cbn; f_equal; ring).
  rewrite E1, E2, Rabs_Ropp. reflexivity.
Qed.
(* reversal: d |-> -d, dd |-> dd *)
Lemma curv_formula_reversed d dd :
  curv_formula NR TR (copp NR d) dd = curv_formula NR TR d dd.
Proof.
  rewrite !curv_formula_R, nrm_copp.
  assert (E1 : cross (copp NR d) dd = - cross d dd)
    by (destruct d, dd; unfold cross, copp; cbn; ring).
  rewrite E1, Rabs_Ropp. reflexivity.
Qed.

(* Path.curvature computes with seg.derivative(t,n)/seg.length()**n and **1.5 *)
Lemma path_curvature_core_eq d dd (len : R) : 0 < len -> d <> (0, 0) ->
  path_curvature_core NR TR d dd len = curv_formula NR TR d dd.
Proof.
  intros HL Hd. pose proof (nrm_pos Hd) as P. pose proof (nrm_sq d) as S.
  unfold path_curvature_core. rewrite curv_formula_R.
  unfold curv_num. rewrite nabs_R. destruct d as [x y], dd as [u v].
  cbn [cdivr fst snd re im NumR NumTR div mul add sub sqrt_ npow one] in *.
  set (q := x / len * (x / len) + y / len * (y / len)).
  assert (Eq : q = (nrm (x, y) / len) * (nrm (x, y) / len)).
  { unfold q. cbn [fst snd] in S.
    replace (nrm (x, y) / len * (nrm (x, y) / len)) with ((nrm (x, y) * nrm (x, y)) / (len * len))
      by (field; lra). rewrite S. field; lra. }
  assert (Hs : sqrt q = nrm (x, y) / len).
  { rewrite Eq. apply sqrt_square. apply Rlt_le, Rdiv_lt_0_compat; lra. }
  rewrite Hs, Eq.
  replace (x / len * (v / (len * (len * 1))) - y / len * (u / (len * (len * 1))))
    with (cross (x, y) (u, v) / (len * len * len)) by (unfold cross; cbn; field; lra).
  unfold Rdiv at 2. rewrite Rabs_mult. rewrite (Rabs_right (/ _)).
  2:{ apply Rle_ge, Rlt_le, Rinv_0_lt_compat. repeat apply Rmult_lt_0_compat; lra. }
  field. split; lra.
Qed.

(* ---------------- control-point level: how the derivatives transform -------------- *)
Definition aff (w z p : Cplx R) : Cplx R := cadd NR (cmul NR w p) z.

Ltac cp_ring :=
  intros; unfold aff, cubic_d, quad_d, cubic_deriv, quad_deriv, oget; cbn [Z.eqb Pos.eqb];
  destruct_cplx; cunfold; cbn [lit of_pos]; cbn [NumR add sub mul opp one zero];
  apply cplx_eq; cbn [fst snd]; ring.

Lemma cubic_d1_affine w z s c1 c2 e t :
  cubic_d NR (aff w z s) (aff w z c1) (aff w z c2) (aff w z e) t 1 = cmul NR w (cubic_d NR s c1 c2 e t 1).
Proof. cp_ring. Qed.
Lemma cubic_d2_affine w z s c1 c2 e t :
  cubic_d NR (aff w z s) (aff w z c1) (aff w z c2) (aff w z e) t 2 = cmul NR w (cubic_d NR s c1 c2 e t 2).
Proof. cp_ring. Qed.
Lemma quad_d1_affine w z s c e t :
  quad_d NR (aff w z s) (aff w z c) (aff w z e) t 1 = cmul NR w (quad_d NR s c e t 1).
Proof. cp_ring. Qed.
Lemma quad_d2_affine w z s c e t :
  quad_d NR (aff w z s) (aff w z c) (aff w z e) t 2 = cmul NR w (quad_d NR s c e t 2).
Proof. cp_ring. Qed.
Lemma line_d_affine w z s e : csub NR (aff w z e) (aff w z s) = cmul NR w (csub NR e s).
Proof. cp_ring. Qed.

Lemma cubic_d1_reversed s c1 c2 e t :
  cubic_d NR e c2 c1 s (1 - t) 1 = copp NR (cubic_d NR s c1 c2 e t 1).
Proof. cp_ring. Qed.
Lemma cubic_d2_reversed s c1 c2 e t :
  cubic_d NR e c2 c1 s (1 - t) 2 = cubic_d NR s c1 c2 e t 2.
Proof. cp_ring. Qed.
Lemma quad_d1_reversed s c e t :
  quad_d NR e c s (1 - t) 1 = copp NR (quad_d NR s c e t 1).
Proof. cp_ring. Qed.
Lemma quad_d2_reversed s c e t :
  quad_d NR e c s (1 - t) 2 = quad_d NR s c e t 2.
Proof. cp_ring. Qed.
Lemma line_d_reversed (s e : Cplx R) : csub NR s e = copp NR (csub NR e s).
Proof. cp_ring. Qed.

Lemma copp_nz d : d <> (0, 0) -> copp NR d <> (0, 0).
Proof.
  intros H E. apply H. destruct d as [x y]. unfold copp in E; cbn in E.
  inversion E. f_equal; lra.
Qed.

(* ---------------- the derivatives of the model are the true derivatives ------------- *)
Lemma cubic_point_is_derive s c1 c2 e t :
  is_derive (fun u => fst (cubic_point NR s c1 c2 e u)) t (fst (cubic_d NR s c1 c2 e t 1)) /\
  is_derive (fun u => snd (cubic_point NR s c1 c2 e u)) t (snd (cubic_d NR s c1 c2 e t 1)) /\
  is_derive (fun u => fst (cubic_d NR s c1 c2 e u 1)) t (fst (cubic_d NR s c1 c2 e t 2)) /\
  is_derive (fun u => snd (cubic_d NR s c1 c2 e u 1)) t (snd (cubic_d NR s c1 c2 e t 2)).
Proof.
  destruct s, c1, c2, e. unfold cubic_point, cubic_d, cubic_deriv, oget; cbn [Z.eqb Pos.eqb].
  cunfold. cbn [lit of_pos NumR add sub mul opp one zero fst snd].
  split; [|split; [|split]]; auto_derive; auto; ring.
Qed.
Lemma quad_point_is_derive s c e t :
  is_derive (fun u => fst (quad_point NR s c e u)) t (fst (quad_d NR s c e t 1)) /\
  is_derive (fun u => snd (quad_point NR s c e u)) t (snd (quad_d NR s c e t 1)) /\
  is_derive (fun u => fst (quad_d NR s c e u 1)) t (fst (quad_d NR s c e t 2)) /\
  is_derive (fun u => snd (quad_d NR s c e u 1)) t (snd (quad_d NR s c e t 2)).
Proof.
  destruct s, c, e. unfold quad_point, quad_d, quad_deriv, oget; cbn [Z.eqb Pos.eqb].
  cunfold. cbn [lit of_pos NumR add sub mul opp one zero fst snd].
  split; [|split; [|split]]; auto_derive; auto; ring.
Qed.

(* ---------------- circular arcs ---------------- *)
Lemma arc_circle_curvature (r rotation theta delta t : R) :
  0 < r -> delta <> 0 -> arc_curvature NR TR r r rotation theta delta t = 1 / r.
Proof.
  intros Hr Hd. unfold arc_curvature. rewrite curv_formula_R.
  unfold arc_d1, arc_d2.
  set (a := radians_ TR (add NR theta (mul NR t delta))). set (p := radians_ TR rotation).
  set (k := div NR (mul NR delta (pi_ TR)) (lit NR 180)).
  assert (Hk : k <> 0).
  { unfold k. rewrite lit_R. cbn [NumR NumTR div mul pi_]. pose proof PI_RGT_0.
    unfold Rdiv. apply Rmult_integral_contrapositive_currified.
    - apply Rmult_integral_contrapositive_currified; lra.
    - apply Rinv_neq_0_compat. lra. }
  clearbody k a p. cbn [NumR NumTR cos_ sin_ mul add sub opp npow one].
  pose proof (sin2_cos2 a) as Ha. pose proof (sin2_cos2 p) as Hp. unfold Rsqr in Ha, Hp.
  assert (Habs : 0 < Rabs k) by (apply Rabs_pos_lt; exact Hk).
  assert (Hn : nrm (k * (- r * cos p * sin a - r * sin p * cos a),
                    k * (- r * sin p * sin a + r * cos p * cos a)) = Rabs k * r).
  { unfold nrm; cbn [fst snd].
    replace (k * (- r * cos p * sin a - r * sin p * cos a) * (k * (- r * cos p * sin a - r * sin p * cos a)) +
             k * (- r * sin p * sin a + r * cos p * cos a) * (k * (- r * sin p * sin a + r * cos p * cos a)))
      with ((k * r) * (k * r) * ((sin p * sin p + cos p * cos p) * (sin a * sin a + cos a * cos a))) by ring.
    rewrite Ha, Hp, !Rmult_1_r. rewrite sqrt_sq_abs. rewrite Rabs_mult, (Rabs_right r); lra. }
  rewrite Hn. unfold cross; cbn [fst snd].
  replace (k * (- r * cos p * sin a - r * sin p * cos a) * (k * (k * 1) * (- r * sin p * cos a - r * cos p * sin a)) -
           k * (- r * sin p * sin a + r * cos p * cos a) * (k * (k * 1) * (- r * cos p * cos a + r * sin p * sin a)))
    with ((k * k * k) * (r * r) * ((sin p * sin p + cos p * cos p) * (sin a * sin a + cos a * cos a))) by ring.
  rewrite Ha, Hp, !Rmult_1_r. rewrite !Rabs_mult, (Rabs_right r) by lra.
  field. split; lra.
Qed.
