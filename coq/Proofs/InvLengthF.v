(* Proofs/InvLengthF.v — binary64 witnesses for the bisection stall of
   inv_arclength (PrimFloat only; closed terms decided by vm_compute). *)
From Coq Require Import ZArith List Bool PrimFloat.
From SVP Require Import Base.Num Base.FloatK Base.Cplx Model.Length Proofs.InvLength.
Import ListNotations.

Definition F_tol : float := 0x1.19799812dea11p-40%float.        (* 1e-12 *)
Definition F_lo : float := 0x1.2492492492492p-3%float.          (* 0.14285714285714285 *)
Definition F_hi : float := 0x1.2492492492493p-3%float.          (* its successor *)
Definition F_s : float := 0x1.be6db6db6db6ep+14%float.          (* 28571.428571428572 *)
Definition F_len (t : float) : float := PrimFloat.mul 0x1.86ap+17%float t.   (* 2e5 * t *)

(* adjacent floats: the midpoint rounds onto one of them *)
Lemma F_adjacent : fnext F_lo = F_hi.
Proof. vm_compute. reflexivity. Qed.
Lemma F_mid : midpt NumF F_lo F_hi = F_lo.
Proof. vm_compute. reflexivity. Qed.
(* ... and this happens all over [0,1]: midpoints of 6 adjacent pairs *)
Definition adj_mid_ok (x : float) : bool :=
  let m := midpt NumF x (fnext x) in PrimFloat.eqb m x || PrimFloat.eqb m (fnext x).
Lemma F_adjacent_mid_samples :
  forallb adj_mid_ok [0x1p-1; 0x1.5555555555555p-2; 0x1.999999999999ap-4; 0x1.fffffffffffffp-1;
                      0x1p-1022; 0x1.2492492492492p-3]%float = true.
Proof. vm_compute. reflexivity. Qed.

(* the structural hypothesis of stall_maxits holds at this state *)
Lemma F_stalled : stalled NumF F_len F_s F_tol F_lo F_hi.
Proof.
  unfold stalled. rewrite F_mid. split; [|split].
  - vm_compute. reflexivity.
  - vm_compute. reflexivity.
  - left. split; [reflexivity|]. vm_compute. reflexivity.
Qed.
(* hence the code as it is raises for every maxits ... *)
Lemma F_stall_maxits fuel : bisect NumF false F_s F_tol F_len fuel F_lo F_hi = EMaxIts.
Proof. apply stall_maxits. exact F_stalled. Qed.
(* end to end from (0,1), the default maxits = 10000: the state above is
   reached after 55 steps, and the call ends in "Maximum iterations" *)
Lemma F_run_maxits :
  inv_arclength_seg NumF false false F_len 0x1.86ap+17%float F_s F_tol 10000 = EMaxIts.
Proof. vm_compute. reflexivity. Qed.
Lemma F_run_repaired :
  inv_arclength_seg NumF true false F_len 0x1.86ap+17%float F_s F_tol 10000 = IStall F_lo.
Proof. vm_compute. reflexivity. Qed.
(* the property's requirement |len t - s| <= max(s_tol, 4 ulp(L)) does hold at
   the value the repaired loop returns *)
Lemma F_repaired_value_ok :
  PrimFloat.leb (fabs (PrimFloat.sub (F_len F_lo) F_s))
                (PrimFloat.mul 4 (ulp_of 0x1.86ap+17%float)) = true.
Proof. vm_compute. reflexivity. Qed.

(* Path branch: s on a segment boundary.  Path(Line(0,0.1), Line(0.1,0.1+0.2j),
   Line(0.1+0.2j,1+0.2j)), lengths 0.1, 0.2, 0.9, L = 1.2, s = 0.1 + 0.2 =
   0.30000000000000004: the search accepts segment 1 (0.1 <= s <= 0.1 + 0.2)
   and calls the segment with s - 0.1 = 0.20000000000000004 > 0.2 *)
Definition P_segs : list (@pseg float) :=
  [(true, (fun t => t), 0x1.999999999999ap-4); (true, (fun t => t), 0x1.999999999999ap-3);
   (true, (fun t => t), 0x1.ccccccccccccdp-1)]%float.
Definition P_s : float := 0x1.3333333333334p-2%float.
Definition P_L : float := 0x1.3333333333333p+0%float.
Lemma P_s_inside : PrimFloat.leb 0 P_s && PrimFloat.leb P_s P_L = true.
Proof. vm_compute. reflexivity. Qed.
Lemma P_path_valueerror rep t2T :
  inv_arclength_path NumF rep false t2T P_segs P_L P_s F_tol 10000 = EValueError.
Proof. vm_compute. reflexivity. Qed.
(* with the clamp (prep = true) the same call returns the end of segment 1 *)
Lemma P_path_repaired rep t2T :
  inv_arclength_path NumF rep true t2T P_segs P_L P_s F_tol 10000 = IRet (t2T 1%nat 1%float).
Proof. destruct rep; vm_compute; reflexivity. Qed.
