(* Proofs/AreaAlg.v — algebra of the area model over an arbitrary field of
   characteristic 0 (axiom-free): per-segment identities (closed forms,
   reversal, affine maps), sums over paths, telescoping over closed continuous
   paths, shoelace and fan formulas for polygons. *)
From Coq Require Import ZArith List Bool Field Lia.
From SVP Require Import Base.Num Base.Cplx Base.Poly Base.FieldTac Model.Bezier
     Proofs.BezierAlg Model.Area.
Import ListNotations.

(* reduce a model expression on explicit control points to the carrier's operations *)
Ltac area_norm :=
  cbv -[add sub mul div opp inv zero one eqb ltb leb].

Section Alg.
  Context {K : Type} (N : Num K) (OK : NumFieldOK N).
  Add Field KF : (Fth OK).

  Local Notation zr := (zero N).
  Local Notation un := (one N).
  Local Infix "+" := (add N).
  Local Infix "-" := (sub N).
  Local Infix "*" := (mul N).
  Local Infix "/" := (div N).
  Local Notation "- x" := (opp N x).
  Local Notation two := (add N (one N) (one N)).

  (* side conditions of [field]: closed numerals, possibly re-factored (2*2, 1+2*2, 2*3 ...) *)
  Ltac nz1 p :=
    fold (add N) (mul N) (one N) (sub N) (opp N);
    match goal with |- ?x <> _ =>
      let H := fresh in
      assert (H : x = of_pos N p) by (cbn [of_pos]; ring); rewrite H; exact (char0 OK p) end.
  Ltac numnz2 :=
    repeat split;
    first [ nz1 1%positive | nz1 2%positive | nz1 3%positive | nz1 4%positive | nz1 5%positive
          | nz1 6%positive | nz1 8%positive | nz1 10%positive | nz1 12%positive | nz1 15%positive
          | nz1 20%positive | nz1 30%positive | nz1 60%positive | assumption ].
  Ltac seg_field :=
    intros; destruct_cplx; area_norm; field; numnz2.

  (* ---------------- sums: fold_left from zero ---------------- *)
  Definition ksum {A} (f : A -> K) (l : list A) : K := fold_left (fun a s => a + f s) l zr.

  Lemma fold_add_shift {A} (f : A -> K) l a0 :
    fold_left (fun a s => a + f s) l a0 = a0 + ksum f l.
  Proof.
    unfold ksum. revert a0. induction l as [|x l IH]; intros a0; cbn [fold_left].
    - ring.
    - rewrite IH. rewrite (IH (zr + f x)). ring.
  Qed.
  Lemma ksum_nil {A} (f : A -> K) : ksum f [] = zr.
  Proof. reflexivity. Qed.
  Lemma ksum_cons {A} (f : A -> K) x l : ksum f (x :: l) = f x + ksum f l.
  Proof. unfold ksum at 1. cbn [fold_left]. rewrite fold_add_shift. ring. Qed.
  Lemma ksum_app {A} (f : A -> K) l1 l2 : ksum f (l1 ++ l2) = ksum f l1 + ksum f l2.
  Proof.
    induction l1 as [|x l1 IH]; cbn [app].
    - rewrite ksum_nil. ring.
    - rewrite !ksum_cons, IH. ring.
  Qed.
  Lemma ksum_rev {A} (f : A -> K) l : ksum f (rev l) = ksum f l.
  Proof.
    induction l as [|x l IH]; cbn [rev]; [reflexivity|].
    rewrite ksum_app, !ksum_cons, ksum_nil, IH. ring.
  Qed.
  Lemma ksum_map {A B} (g : A -> B) (f : B -> K) l : ksum f (map g l) = ksum (fun x => f (g x)) l.
  Proof. induction l as [|x l IH]; cbn [map]; [reflexivity|]. rewrite !ksum_cons, IH. reflexivity. Qed.
  Lemma ksum_ext {A} (f g : A -> K) l : (forall x, f x = g x) -> ksum f l = ksum g l.
  Proof. intros E. induction l as [|x l IH]; [reflexivity|]. rewrite !ksum_cons, IH, E. reflexivity. Qed.
  Lemma ksum_lin {A} (c : K) (f g : A -> K) l :
    ksum (fun x => c * f x + g x) l = c * ksum f l + ksum g l.
  Proof. induction l as [|x l IH]; [rewrite !ksum_nil; ring|]. rewrite !ksum_cons, IH. ring. Qed.
  Lemma ksum_flat_map {A B} (g : A -> list B) (f : B -> K) l :
    ksum f (flat_map g l) = ksum (fun x => ksum f (g x)) l.
  Proof.
    induction l as [|x l IH]; cbn [flat_map]; [reflexivity|].
    rewrite ksum_app, ksum_cons, IH. reflexivity.
  Qed.

  Lemma area_is_ksum p : area_without_arcs N p = ksum (seg_area N) p.
  Proof. reflexivity. Qed.
  Lemma area_cons s p : area_without_arcs N (s :: p) = seg_area N s + area_without_arcs N p.
  Proof. rewrite !area_is_ksum. apply ksum_cons. Qed.
  Lemma area_app p q : area_without_arcs N (p ++ q) = area_without_arcs N p + area_without_arcs N q.
  Proof. rewrite !area_is_ksum. apply ksum_app. Qed.

  (* ---------------- closed forms of seg_area ---------------- *)
  Lemma seg_area_line s e :
    seg_area N (BLine s e) = (im e - im s) * (re s + re e) / two.
  Proof. seg_field. Qed.
  Lemma seg_area_line_cross s e :
    two * seg_area N (BLine s e) = cross2 N s e + (re e * im e - re s * im s).
  Proof. seg_field. Qed.

  (* ---------------- reversal: exact negation, segment by segment ---------------- *)
  Lemma seg_area_rev s : seg_area N (seg_rev s) = - seg_area N s.
  Proof. destruct s; cbn [seg_rev]; seg_field. Qed.

  Lemma area_rev p : area_without_arcs N (path_rev p) = - area_without_arcs N p.
  Proof.
    unfold path_rev. rewrite !area_is_ksum, ksum_rev, ksum_map.
    rewrite (ksum_ext _ (fun x => (- un) * seg_area N x + zr)).
    - rewrite ksum_lin. replace (ksum (fun _ : bseg K => zr) p) with zr.
      + ring.
      + induction p as [|x p IH]; [reflexivity|]. rewrite ksum_cons, <- IH. ring.
    - intros x. rewrite seg_area_rev. ring.
  Qed.

  (* ---------------- affine maps of the control points ---------------- *)
  (* boundary potential: seg_area (A s) = det A * seg_area s + [bnd]_start^end *)
  Definition aff_bnd (m11 m12 m21 m22 : K) (w z : Cplx K) : K :=
    m11 * m21 / two * (re z * re z) + m12 * m22 / two * (im z * im z)
    + m12 * m21 * (re z * im z) + re w * (m21 * re z + m22 * im z).

  Lemma seg_area_affine m11 m12 m21 m22 w s :
    seg_area N (seg_map (affine N m11 m12 m21 m22 w) s) =
    det2 N m11 m12 m21 m22 * seg_area N s
    + (aff_bnd m11 m12 m21 m22 w (seg_end s) - aff_bnd m11 m12 m21 m22 w (seg_start s)).
  Proof. destruct s; cbn [seg_map seg_end seg_start]; unfold aff_bnd; seg_field. Qed.

  (* ---------------- telescoping over continuous paths ---------------- *)
  Lemma path_end_cons s b r : path_end N (s :: b :: r) = path_end N (b :: r).
  Proof. reflexivity. Qed.

  Lemma telescope (g : Cplx K -> K) p : p <> [] -> continuous p ->
    ksum (fun s => g (seg_end s) - g (seg_start s)) p = g (path_end N p) - g (path_start N p).
  Proof.
    induction p as [|a p IH]; intros NE C; [congruence|].
    destruct p as [|b r].
    - rewrite ksum_cons, ksum_nil. unfold path_end, path_start. cbn [last]. ring.
    - rewrite ksum_cons. destruct C as [J C]. rewrite IH; [|discriminate|exact C].
      rewrite path_end_cons. cbn [path_start]. rewrite J. ring.
  Qed.

  Lemma telescope_closed (g : Cplx K -> K) p : closed N p ->
    ksum (fun s => g (seg_end s) - g (seg_start s)) p = zr.
  Proof.
    intros (NE & C & E). rewrite telescope; auto. rewrite E. ring.
  Qed.

  Theorem area_affine m11 m12 m21 m22 w p : closed N p ->
    area_without_arcs N (path_map (affine N m11 m12 m21 m22 w) p) =
    det2 N m11 m12 m21 m22 * area_without_arcs N p.
  Proof.
    intros Cl. unfold path_map. rewrite !area_is_ksum, ksum_map.
    rewrite (ksum_ext _ (fun s => det2 N m11 m12 m21 m22 * seg_area N s +
             (aff_bnd m11 m12 m21 m22 w (seg_end s) - aff_bnd m11 m12 m21 m22 w (seg_start s)))).
    - rewrite ksum_lin, (telescope_closed (aff_bnd m11 m12 m21 m22 w) p Cl). ring.
    - intros s. apply seg_area_affine.
  Qed.

  (* translation p + z *)
  Lemma affine_id_is_translate w z : affine N un zr zr un w z = cadd N z w.
  Proof. destruct z, w. unfold affine, cadd; cbn [re im fst snd]. apply cplx_eq; cbn [fst snd]; ring. Qed.

  Lemma seg_map_ext (f g : Cplx K -> Cplx K) s : (forall z, f z = g z) -> seg_map f s = seg_map g s.
  Proof. intros E. destruct s; cbn [seg_map]; rewrite ?E; reflexivity. Qed.

  Theorem area_translate w p : closed N p ->
    area_without_arcs N (path_map (fun z => cadd N z w) p) = area_without_arcs N p.
  Proof.
    intros Cl.
    replace (path_map (fun z => cadd N z w) p) with (path_map (affine N un zr zr un w) p).
    - rewrite (area_affine un zr zr un w p Cl). unfold det2. ring.
    - unfold path_map. apply map_ext. intros s. apply seg_map_ext. apply affine_id_is_translate.
  Qed.

  (* scale(sx, sy) about the origin of coordinates and then translation: det = sx*sy;
     rotation by (c, s) with c^2 + s^2 = un: det = un *)
  Corollary area_scale sx sy w p : closed N p ->
    area_without_arcs N (path_map (affine N sx zr zr sy w) p) = sx * sy * area_without_arcs N p.
  Proof. intros Cl. rewrite (area_affine sx zr zr sy w p Cl). unfold det2. ring. Qed.
  Corollary area_rotate c s w p : closed N p -> c * c + s * s = un ->
    area_without_arcs N (path_map (affine N c (- s) s c w) p) = area_without_arcs N p.
  Proof.
    intros Cl H. rewrite (area_affine c (- s) s c w p Cl). unfold det2.
    replace (c * c - - s * s) with (c * c + s * s) by ring. rewrite H. ring.
  Qed.
  (* reflection in the x axis flips the sign *)
  Corollary area_reflect p : closed N p ->
    area_without_arcs N (path_map (affine N un zr zr (- un) (c0 N)) p) = - area_without_arcs N p.
  Proof. intros Cl. rewrite (area_affine un zr zr (- un) (c0 N) p Cl). unfold det2. ring. Qed.

  (* closedness is preserved by reversal and by maps of the control points *)
  Lemma seg_map_start f (s : bseg K) : seg_start (seg_map f s) = f (seg_start s).
  Proof. destruct s; reflexivity. Qed.
  Lemma seg_map_end f (s : bseg K) : seg_end (seg_map f s) = f (seg_end s).
  Proof. destruct s; reflexivity. Qed.
  Lemma continuous_map f (p : list (bseg K)) : continuous p -> continuous (path_map f p).
  Proof.
    induction p as [|a p IH]; [auto|]. destruct p as [|b r]; [cbn; auto|].
    intros [J C]. cbn [path_map map continuous]. split.
    - rewrite seg_map_end, seg_map_start, J. reflexivity.
    - apply IH. exact C.
  Qed.
  Lemma path_end_map f p : p <> [] -> path_end N (path_map f p) = f (path_end N p).
  Proof.
    induction p as [|a p IH]; [congruence|]. intros _. destruct p as [|b r].
    - cbn. apply seg_map_end.
    - change (path_map f (a :: b :: r)) with (seg_map f a :: seg_map f b :: path_map f r).
      rewrite !path_end_cons. rewrite <- IH by discriminate. reflexivity.
  Qed.
  Lemma closed_map f p : closed N p -> closed N (path_map f p).
  Proof.
    intros (NE & C & E). split; [|split].
    - destruct p; [congruence|discriminate].
    - apply continuous_map; exact C.
    - rewrite path_end_map by exact NE. rewrite E. destruct p; [congruence|]. cbn. rewrite seg_map_start. reflexivity.
  Qed.

  (* ---------------- polygons: chords, shoelace, fan ---------------- *)
  Lemma chords_cons2 (a b : Cplx K) r : chords (a :: b :: r) = BLine a b :: chords (b :: r).
  Proof. reflexivity. Qed.

  Lemma cross_sum_cons2 a b r : cross_sum N (a :: b :: r) = cross2 N a b + cross_sum N (b :: r).
  Proof. reflexivity. Qed.
  Lemma fan_sum_cons2 v a b r : fan_sum N v (a :: b :: r) = orient N v a b + fan_sum N v (b :: r).
  Proof. reflexivity. Qed.
  Lemma last_indep {A} (l : list A) (a b : A) : l <> [] -> last l a = last l b.
  Proof.
    induction l as [|x l IH]; [congruence|]. intros _. destruct l as [|y l]; [reflexivity|].
    change (last (x :: y :: l) a) with (last (y :: l) a).
    change (last (x :: y :: l) b) with (last (y :: l) b). apply IH. discriminate.
  Qed.
  Lemma last_cons_default {A} (r : list A) (a b : A) : last (b :: r) a = last r b.
  Proof.
    destruct r as [|c r]; [reflexivity|].
    change (last (b :: c :: r) a) with (last (c :: r) a). apply last_indep. discriminate.
  Qed.

  (* open polyline: twice the sum of the chord areas = cross sum + boundary term *)
  Lemma chords_area_open a pts :
    two * area_without_arcs N (chords (a :: pts)) =
    cross_sum N (a :: pts)
    + (re (last pts a) * im (last pts a) - re a * im a).
  Proof.
    revert a. induction pts as [|b r IH]; intros a.
    - cbn [chords cross_sum last]. rewrite area_is_ksum, ksum_nil. ring.
    - rewrite chords_cons2, area_cons, cross_sum_cons2, last_cons_default.
      replace (two * (seg_area N (BLine a b) + area_without_arcs N (chords (b :: r))))
        with (two * seg_area N (BLine a b) + two * area_without_arcs N (chords (b :: r))) by ring.
      rewrite IH, seg_area_line_cross. ring.
  Qed.

  Lemma last_app_single {A} (l : list A) (x d : A) : last (l ++ [x]) d = x.
  Proof. induction l as [|y l IH]; [reflexivity|]. cbn [app last]. destruct (l ++ [x]) eqn:E.
    - destruct l; discriminate. - exact IH. Qed.

  (* shoelace formula, any number of vertices *)
  Theorem shoelace v0 vs :
    area_without_arcs N (polygon v0 vs) = cross_sum N (v0 :: vs ++ [v0]) / two.
  Proof.
    unfold polygon.
    assert (H := chords_area_open v0 (vs ++ [v0])).
    rewrite last_app_single in H.
    assert (two <> zr) by (apply (char0 OK 2%positive)).
    replace (cross_sum N (v0 :: vs ++ [v0])) with (two * area_without_arcs N (chords (v0 :: vs ++ [v0]))).
    - field. assumption.
    - rewrite H. ring.
  Qed.

  (* fan decomposition from v0 *)
  Lemma cross2_fan v0 a b :
    orient N v0 a b = cross2 N a b + cross2 N v0 a - cross2 N v0 b.
  Proof. destruct v0, a, b. unfold orient, cross2. cbn [re im fst snd]. ring. Qed.

  Lemma fan_open v0 a pts :
    fan_sum N v0 (a :: pts) = cross_sum N (a :: pts) + cross2 N v0 a - cross2 N v0 (last pts a).
  Proof.
    revert a. induction pts as [|b r IH]; intros a.
    - cbn [fan_sum cross_sum last]. ring.
    - rewrite fan_sum_cons2, cross_sum_cons2, last_cons_default, IH, cross2_fan. ring.
  Qed.

  Lemma cross2_self z : cross2 N z z = zr.
  Proof. destruct z. unfold cross2; cbn [re im fst snd]. ring. Qed.
  Lemma orient_self_l v a : orient N v v a = zr.
  Proof. destruct v, a. unfold orient; cbn [re im fst snd]. ring. Qed.
  Lemma orient_self_r v a : orient N v a v = zr.
  Proof. destruct v, a. unfold orient; cbn [re im fst snd]. ring. Qed.

  (* cross sum of the closed vertex list = sum of the fan triangles over the
     vertices after v0 *)
  Lemma cross_sum_closed_fan v0 vs :
    cross_sum N (v0 :: vs ++ [v0]) = fan_sum N v0 vs.
  Proof.
    destruct vs as [|a r].
    - cbn [app cross_sum fan_sum]. rewrite cross2_self. ring.
    - assert (H := fan_open v0 a (r ++ [v0])). rewrite last_app_single in H.
      rewrite cross2_self in H.
      assert (E : fan_sum N v0 (a :: r ++ [v0]) = fan_sum N v0 (a :: r)).
      { clear H. revert a. induction r as [|b r IH]; intros a.
        - cbn [app fan_sum]. rewrite orient_self_r. ring.
        - change ((b :: r) ++ [v0]) with (b :: r ++ [v0]).
          rewrite !fan_sum_cons2, IH. reflexivity. }
      change (v0 :: (a :: r) ++ [v0]) with (v0 :: a :: r ++ [v0]).
      rewrite cross_sum_cons2, <- E, H. ring.
  Qed.

  Theorem polygon_area_fan v0 vs :
    area_without_arcs N (polygon v0 vs) = fan_sum N v0 vs / two.
  Proof. rewrite shoelace, cross_sum_closed_fan. reflexivity. Qed.

  Lemma triangle_area a b c :
    area_without_arcs N (polygon a [b; c]) = orient N a b c / two.
  Proof. rewrite polygon_area_fan. cbn [fan_sum]. f_equal. ring. Qed.

  (* a polygon is closed *)
  Lemma chords_continuous (pts : list (Cplx K)) : continuous (chords pts).
  Proof.
    induction pts as [|a r IH]; [exact I|]. destruct r as [|b r]; [exact I|].
    rewrite chords_cons2. destruct r as [|c r].
    - cbn. exact I.
    - rewrite chords_cons2 in *. split; [reflexivity|exact IH].
  Qed.
  Lemma chords_end a b r : path_end N (chords (a :: b :: r)) = last r b.
  Proof.
    revert a b. induction r as [|c r IH]; intros a b; [reflexivity|].
    rewrite chords_cons2, (chords_cons2 b c r), path_end_cons, <- chords_cons2, IH.
    symmetry. apply last_cons_default.
  Qed.
  Lemma polygon_closed v0 vs : closed N (polygon v0 vs).
  Proof.
    unfold polygon. split; [|split].
    - destruct vs; discriminate.
    - apply chords_continuous.
    - destruct vs as [|a r].
      + reflexivity.
      + cbn [app]. rewrite chords_end. rewrite last_app_single. reflexivity.
  Qed.
End Alg.

(* ---------------- Green's formula, formal (generic field) part; seg2lines ---------------- *)
Section Green.
  Context {K : Type} (N : Num K) (OK : NumFieldOK N).
  Add Field KF2 : (Fth OK).

  Lemma pinteg_length (q : list K) : length (pinteg N q) = S (length q).
  Proof. induction q as [|c q IH]; cbn [pinteg length]; [reflexivity|]. rewrite IH. reflexivity. Qed.

  Lemma pderiv_cons2 (c x : K) r :
    pderiv N (c :: x :: r) = mul N (lit N (Z.of_nat (length (x :: r)))) c :: pderiv N (x :: r).
  Proof. reflexivity. Qed.

  (* integ() is an antiderivative: (p.integ()).deriv() = p, coefficient by coefficient *)
  Lemma pderiv_pinteg (q : list K) : pderiv N (pinteg N q) = q.
  Proof.
    induction q as [|c q IH]; [reflexivity|].
    cbn [pinteg]. remember (pinteg N q) as r eqn:E.
    destruct r as [|x r].
    - pose proof (pinteg_length q) as L. rewrite <- E in L. discriminate.
    - rewrite pderiv_cons2, IH, E, pinteg_length. f_equal.
      assert (NZ : lit N (Z.of_nat (S (length q))) <> zero N).
      { rewrite Nat2Z.inj_succ. rewrite <- Z.add_1_r.
        destruct (Z.of_nat (length q)) eqn:Z0; try (exfalso; lia);
          cbn [Z.add]; apply (lit_pos_nz OK). }
      field. exact NZ.
  Qed.

  Lemma area_integral_antiderivative (p : list (Cplx K)) :
    pderiv N (area_integral N p) = area_integrand N p.
  Proof. apply pderiv_pinteg. Qed.

  (* the integrand is x(t) * y'(t), with x = Re point(t) and y' = Im derivative(t)
     of the segment models of C03 *)
  Lemma green_integrand (s : bseg K) (t : K) :
    peval N (area_integrand N (seg_poly N s)) t =
    mul N (re (seg_point N s t)) (im (seg_deriv1 N s t)).
  Proof. destruct s; destruct_cplx; area_norm; ring. Qed.

  Theorem green_formal (s : bseg K) :
    seg_area N s = sub N (peval N (area_integral N (seg_poly N s)) (one N))
                         (peval N (area_integral N (seg_poly N s)) (zero N))
    /\ pderiv N (area_integral N (seg_poly N s)) = area_integrand N (seg_poly N s)
    /\ forall t, peval N (area_integrand N (seg_poly N s)) t =
                 mul N (re (seg_point N s t)) (im (seg_deriv1 N s t)).
  Proof. split; [reflexivity|split]; [apply area_integral_antiderivative|apply green_integrand]. Qed.

  (* ---- seg2lines: the polygon through the N+1 equally spaced parameter values ---- *)
  Lemma chords_length (pts : list (Cplx K)) : length (chords pts) = (length pts - 1)%nat.
  Proof.
    induction pts as [|a r IH]; [reflexivity|]. destruct r as [|b r]; [reflexivity|].
    rewrite chords_cons2. cbn [length] in *. rewrite IH. lia.
  Qed.
  Lemma linspace01_length n : length (linspace01 N n) = S n.
  Proof. unfold linspace01. rewrite map_length, seq_length. reflexivity. Qed.
  Lemma linspace01_nth n i d : (i <= n)%nat ->
    nth i (linspace01 N n) d = div N (lit N (Z.of_nat i)) (lit N (Z.of_nat n)).
  Proof.
    intros H. unfold linspace01.
    rewrite (nth_indep _ d (div N (lit N (Z.of_nat 0)) (lit N (Z.of_nat n)))) by (rewrite map_length, seq_length; lia).
    rewrite (map_nth (fun i => div N (lit N (Z.of_nat i)) (lit N (Z.of_nat n)))).
    rewrite seq_nth by lia. reflexivity.
  Qed.
  Lemma seg2lines_length pt n : length (seg2lines N pt n) = n.
  Proof. unfold seg2lines. rewrite chords_length, map_length, linspace01_length. lia. Qed.

  Lemma approx_cons_arc pt n r : approx N (SA pt n :: r) = seg2lines N pt n ++ approx N r.
  Proof. reflexivity. Qed.
  Lemma approx_cons_bez b r : approx N (SB b :: r) = b :: approx N r.
  Proof. reflexivity. Qed.

  (* contribution of an arc to area(): the chord polygon, by the open shoelace formula *)
  Theorem arc_chords pt n :
    seg2lines N pt n = chords (map pt (linspace01 N n))
    /\ length (seg2lines N pt n) = n
    /\ (forall i d, (i <= n)%nat ->
          nth i (linspace01 N n) d = div N (lit N (Z.of_nat i)) (lit N (Z.of_nat n)))
    /\ mul N (add N (one N) (one N)) (area_without_arcs N (seg2lines N pt n)) =
       let pts := map pt (linspace01 N n) in
       let a := hd (c0 N) pts in let b := last pts a in
       add N (cross_sum N pts) (sub N (mul N (re b) (im b)) (mul N (re a) (im a))).
  Proof.
    split; [reflexivity|split]; [apply seg2lines_length|split].
    - intros i d H. apply linspace01_nth. exact H.
    - unfold seg2lines. cbv zeta.
      destruct (map pt (linspace01 N n)) as [|a pts] eqn:E.
      + pose proof (linspace01_length n) as L. apply (f_equal (@length _)) in E.
        rewrite map_length, L in E. discriminate.
      + cbn [hd]. rewrite (chords_area_open N OK a pts).
        rewrite (last_cons_default pts a a). reflexivity.
  Qed.

  Lemma area_arc_split pt n r :
    area N (SA pt n :: r) = add N (area_without_arcs N (seg2lines N pt n)) (area N r).
  Proof. unfold area. rewrite approx_cons_arc. apply (area_app N OK). Qed.
  Lemma area_bez_split b r : area N (SB b :: r) = add N (seg_area N b) (area N r).
  Proof. unfold area. rewrite approx_cons_bez. apply (area_cons N OK). Qed.
End Green.

(* ---------------- is_contained_by: decision structure (no algebra needed) ---------------- *)
Section Contained.
  Context {K : Type} (N : Num K).
  Lemma contained_def (intersects : bool) bb pt encl :
    is_contained_by N intersects bb pt encl =
    negb intersects && in_bbox N bb pt && encl pt (probe_target N bb).
  Proof. unfold is_contained_by. destruct intersects, (in_bbox N bb pt); reflexivity. Qed.
  Lemma contained_true_iff (intersects : bool) bb pt encl :
    is_contained_by N intersects bb pt encl = true <->
    intersects = false /\ in_bbox N bb pt = true /\ encl pt (probe_target N bb) = true.
  Proof.
    rewrite contained_def, !andb_true_iff, negb_true_iff. tauto.
  Qed.
  (* the probe's far end is (xmin - 1, ymin - 1) *)
  Lemma probe_target_def xmin xmax ymin ymax :
    probe_target N (xmin, xmax, ymin, ymax) = (sub N xmin (one N), sub N ymin (one N)).
  Proof. reflexivity. Qed.
End Contained.

(* ---------------- reversed() of a closed path is closed ---------------- *)
Section Rev.
  Context {K : Type} (N : Num K).
  Lemma seg_rev_start (s : bseg K) : seg_start (seg_rev s) = seg_end s.
  Proof. destruct s; reflexivity. Qed.
  Lemma seg_rev_end (s : bseg K) : seg_end (seg_rev s) = seg_start s.
  Proof. destruct s; reflexivity. Qed.
  Lemma continuous_snoc (l : list (bseg K)) x d :
    continuous l -> (l = [] \/ seg_end (last l d) = seg_start x) -> continuous (l ++ [x]).
  Proof.
    induction l as [|a l IH]; intros C H; [exact I|].
    destruct l as [|b r].
    - cbn [app]. destruct H as [H|H]; [discriminate|]. cbn in H. split; [exact H|exact I].
    - destruct C as [J C]. change ((a :: b :: r) ++ [x]) with (a :: b :: (r ++ [x])).
      split; [exact J|]. change (b :: r ++ [x]) with ((b :: r) ++ [x]). apply IH; [exact C|].
      right. destruct H as [H|H]; [discriminate|]. exact H.
  Qed.
  Lemma path_rev_cons (a : bseg K) p : path_rev (a :: p) = path_rev p ++ [seg_rev a].
  Proof. reflexivity. Qed.
  Lemma path_rev_last (a : bseg K) p d : last (path_rev (a :: p)) d = seg_rev a.
  Proof. rewrite path_rev_cons. apply last_app_single. Qed.
  Lemma continuous_rev (p : list (bseg K)) : continuous p -> continuous (path_rev p).
  Proof.
    induction p as [|a p IH]; intros C; [exact I|].
    rewrite path_rev_cons. destruct p as [|b r].
    - exact I.
    - destruct C as [J C]. apply (continuous_snoc _ _ (BLine (c0 N) (c0 N))); [apply IH; exact C|].
      right. rewrite path_rev_last, seg_rev_end, seg_rev_start. symmetry. exact J.
  Qed.
  Lemma path_start_app (l : list (bseg K)) x : l <> [] -> path_start N (l ++ [x]) = path_start N l.
  Proof. destruct l; [congruence|reflexivity]. Qed.
  Lemma path_rev_nonnil (a : bseg K) p : path_rev (a :: p) <> [].
  Proof. rewrite path_rev_cons. destruct (path_rev p); discriminate. Qed.
  Lemma path_rev_start (p : list (bseg K)) : p <> [] -> path_start N (path_rev p) = path_end N p.
  Proof.
    induction p as [|a p IH]; [congruence|]. intros _. rewrite path_rev_cons.
    destruct p as [|b r].
    - cbn. apply seg_rev_start.
    - rewrite path_start_app by apply path_rev_nonnil. rewrite IH by discriminate. reflexivity.
  Qed.
  Lemma closed_rev (p : list (bseg K)) : closed N p -> closed N (path_rev p).
  Proof.
    intros (NE & C & E). split; [|split].
    - destruct p; [congruence|apply path_rev_nonnil].
    - apply continuous_rev. exact C.
    - rewrite path_rev_start by exact NE. rewrite E.
      destruct p as [|a p]; [congruence|]. unfold path_end. rewrite path_rev_last. apply seg_rev_end.
  Qed.
End Rev.
