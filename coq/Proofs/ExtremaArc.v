(* Proofs/ExtremaArc.v — C08 over R for Arc.bbox: the critical angles of
   x(t) and y(t) are atan_x + k*pi / atan_y + k*pi (all three branches of the
   code), every critical t in [0,1] has k in -4..4, hence the box contains the
   arc and each side is attained. *)
From Coq Require Import ZArith List Bool Reals Lra Lia Classical.
From Coquelicot Require Import Coquelicot.
From SVP Require Import Base.Num Base.Cplx Base.Poly Model.Extrema Proofs.ExtremaLemmas Proofs.ExtremaBbox.
Import ListNotations.
Local Open Scope R_scope.
Ltac numR' := cbn [add sub mul div opp inv zero one eqb ltb leb NumR
       sqrt_ cos_ sin_ tan_ atan_ pi_ hypot_ NumTR re im fst snd] in *.

(* ---------- critical angles of  g(a) = P cos a - Q sin a + C ---------- *)
Section Trig.
  Variables (P Q ang : R).
  Definition gd (a : R) : R := - P * sin a - Q * cos a.
  (* the three branches of the code *)
  Definition ang_spec : Prop :=
    (P = 0 /\ Q <> 0 /\ ang = PI / 2) \/ (Q = 0 /\ P <> 0 /\ ang = 0) \/
    (P <> 0 /\ Q <> 0 /\ ang = atan (- Q / P)).

  Lemma ang_range : ang_spec -> - PI / 2 <= ang <= PI / 2.
  Proof.
    pose proof PI_RGT_0. intros [(_ & _ & ->)|[(_ & _ & ->)|(_ & _ & ->)]]; try lra.
    pose proof (atan_bound (- Q / P)). lra.
  Qed.

  Lemma crit_iff : ang_spec -> forall a, gd a = 0 <-> exists k : Z, a = ang + IZR k * PI.
  Proof.
    intros [(HP & HQ & ->)|[(HQ & HP & ->)|(HP & HQ & ->)]] a; unfold gd.
    - subst P. split.
      + intros H. assert (Hc : cos a = 0).
        { assert (Q * cos a = 0) by lra. apply Rmult_integral in H0. tauto. }
        apply cos_eq_0_0 in Hc. destruct Hc as (k & ->). exists k. lra.
      + intros (k & ->). rewrite (cos_eq_0_1 (PI / 2 + IZR k * PI)); [lra|]. exists k. lra.
    - subst Q. split.
      + intros H. assert (Hs : sin a = 0).
        { assert (P * sin a = 0) by lra. apply Rmult_integral in H0. tauto. }
        apply sin_eq_0_0 in Hs. destruct Hs as (k & ->). exists k. lra.
      + intros (k & ->). rewrite (sin_eq_0_1 (0 + IZR k * PI)); [lra|]. exists k. lra.
    - set (m := - Q / P). set (b := atan m).
      assert (Hcb : 0 < cos b).
      { apply cos_gt_0; pose proof (atan_bound m); unfold b; lra. }
      assert (Hsb : sin b = m * cos b).
      { pose proof (atan_right_inv m) as H. fold b in H. unfold tan in H.
        rewrite <- H. field. lra. }
      assert (Key : P * sin (a - b) = - cos b * (- P * sin a - Q * cos a)).
      { rewrite sin_minus, Hsb. unfold m. field. exact HP. }
      split.
      + intros H. rewrite H in Key.
        assert (Hs : sin (a - b) = 0).
        { assert (P * sin (a - b) = 0) by lra. apply Rmult_integral in H0. tauto. }
        apply sin_eq_0_0 in Hs. destruct Hs as (k & Hk). exists k. lra.
      + intros (k & ->). replace (b + IZR k * PI - b) with (IZR k * PI) in Key by ring.
        rewrite (sin_eq_0_1 (IZR k * PI)) in Key by (exists k; reflexivity).
        assert (cos b * (- P * sin (b + IZR k * PI) - Q * cos (b + IZR k * PI)) = 0) by lra.
        apply Rmult_integral in H. destruct H; [lra|exact H].
  Qed.
End Trig.

(* ---------- k range ---------- *)
Lemma k_range theta delta ang t (k : Z) :
  Rabs theta <= 180 -> Rabs delta <= 360 -> - PI / 2 <= ang <= PI / 2 -> 0 <= t <= 1 ->
  (theta + t * delta) * PI / 180 = ang + IZR k * PI -> (-4 <= k <= 4)%Z.
Proof.
  intros Hth Hde Hang Ht E. pose proof PI_RGT_0 as Hpi.
  assert (Hth' : -180 <= theta <= 180) by (unfold Rabs in Hth; destruct (Rcase_abs theta); lra).
  assert (Hde' : -360 <= delta <= 360) by (unfold Rabs in Hde; destruct (Rcase_abs delta); lra).
  assert (Htd : -360 <= t * delta <= 360) by nra.
  assert (B : -3 * PI <= (theta + t * delta) * PI / 180 <= 3 * PI).
  { split.
    - replace (-3 * PI) with ((-540) * PI / 180) by field.
      apply Rmult_le_compat_r; [lra|]. apply Rmult_le_compat_r; lra.
    - replace (3 * PI) with (540 * PI / 180) by field.
      apply Rmult_le_compat_r; [lra|]. apply Rmult_le_compat_r; lra. }
  rewrite E in B.
  assert (K1 : IZR k * PI < 4 * PI) by lra.
  assert (K2 : -4 * PI < IZR k * PI) by lra.
  assert (IZR k < 4) by (apply Rmult_lt_reg_r with PI; lra).
  assert (-4 < IZR k) by (apply Rmult_lt_reg_r with PI; lra).
  split.
  - apply Z.lt_le_incl. apply lt_IZR. lra.
  - apply Z.lt_le_incl. apply lt_IZR. lra.
Qed.

(* ---------- one coordinate of the arc ---------- *)
Section ArcCoord.
  Variables (A : @arcp R) (P Q C ang : R).
  Notation angle := (arc_angle NumR NumTR A).
  Notation theta := (a_theta A).
  Notation delta := (a_delta A).
  Hypothesis Hspec : ang_spec P Q ang.
  Hypothesis Hdelta : delta <> 0.
  Hypothesis Hth : Rabs theta <= 180.
  Hypothesis Hde : Rabs delta <= 360.

  Definition g (t : R) : R := P * cos (angle t) - Q * sin (angle t) + C.
  Definition g' (t : R) : R := gd P Q (angle t) * (delta * PI / 180).

  Lemma angle_R t : angle t = (theta + t * delta) * PI / 180.
  Proof. unfold arc_angle. numR'. rewrite lit_R. reflexivity. Qed.

  Lemma g_derivable t : derivable_pt_lim g t (g' t).
  Proof.
    apply is_derive_Reals. unfold g, g', gd.
    eapply is_derive_ext with (f := fun t => P * cos ((theta + t * delta) * PI / 180)
                                         - Q * sin ((theta + t * delta) * PI / 180) + C).
    - intros u. now rewrite angle_R.
    - rewrite angle_R. auto_derive; [exact I|]. unfold Rdiv. ring.
  Qed.

  Lemma angle_inv_R k : angle_inv NumR NumTR A ang k = ((ang + PI * IZR k) * (360 / (2 * PI)) - theta) / delta.
  Proof. unfold angle_inv. numR'. rewrite !lit_R. reflexivity. Qed.

  Lemma angle_inv_eq t k : angle t = ang + IZR k * PI -> t = angle_inv NumR NumTR A ang k.
  Proof.
    pose proof PI_RGT_0. rewrite angle_R, angle_inv_R. intros E.
    replace (ang + PI * IZR k) with ((theta + t * delta) * PI / 180) by lra. field. split; lra.
  Qed.

  Lemma arc_ts_complete t : 0 < t < 1 -> g' t = 0 -> In t (arc_ts NumR NumTR A ang).
  Proof.
    intros Ht H0. pose proof PI_RGT_0 as Hpi. unfold g' in H0.
    apply Rmult_integral in H0. destruct H0 as [H0|H0].
    2:{ exfalso. assert (delta * PI = 0) by lra. apply Rmult_integral in H. lra. }
    apply (crit_iff P Q ang Hspec) in H0. destruct H0 as (k & Ek).
    assert (Hk : (-4 <= k <= 4)%Z).
    { apply (k_range theta delta ang t k); auto.
      - apply (ang_range P Q ang Hspec).
      - lra.
      - rewrite <- angle_R. exact Ek. }
    unfold arc_ts. apply filter_In. split.
    - rewrite (angle_inv_eq t k Ek). apply in_map. unfold arc_ks.
      assert (k = -4 \/ k = -3 \/ k = -2 \/ k = -1 \/ k = 0 \/ k = 1 \/ k = 2 \/ k = 3 \/ k = 4)%Z by lia.
      cbn [In]. intuition.
    - apply le01_R. lra.
  Qed.
  Lemma arc_ts_01 t : In t (arc_ts NumR NumTR A ang) -> 0 <= t <= 1.
  Proof. unfold arc_ts. intros H. apply filter_In in H. destruct H as [_ H]. now apply le01_R. Qed.

  Theorem coord_contains t : 0 <= t <= 1 ->
    lmin NumR ([g 0; g 1] ++ map g (arc_ts NumR NumTR A ang)) <= g t
    <= lmax NumR ([g 0; g 1] ++ map g (arc_ts NumR NumTR A ang)).
  Proof.
    intros Ht. cbn [app].
    apply (@extreme_at_candidates g g' g_derivable (arc_ts NumR NumTR A ang)); auto.
    intros u Hu H0. apply arc_ts_complete; auto.
  Qed.
  Theorem coord_tight :
    (exists t, 0 <= t <= 1 /\ lmin NumR ([g 0; g 1] ++ map g (arc_ts NumR NumTR A ang)) = g t) /\
    (exists t, 0 <= t <= 1 /\ lmax NumR ([g 0; g 1] ++ map g (arc_ts NumR NumTR A ang)) = g t).
  Proof.
    change ([g 0; g 1] ++ map g (arc_ts NumR NumTR A ang))
      with (map g (0 :: 1 :: arc_ts NumR NumTR A ang)).
    assert (H01 : forall c, In c (0 :: 1 :: arc_ts NumR NumTR A ang) -> 0 <= c <= 1).
    { intros c [<-|[<-|H]]; try lra. now apply arc_ts_01. }
    assert (Hne : 0 :: 1 :: arc_ts NumR NumTR A ang <> []) by congruence. split.
    - destruct (lmin_map_attained g Hne) as (c & Hc & Ec). exists c; split; auto.
    - destruct (lmax_map_attained g Hne) as (c & Hc & Ec). exists c; split; auto.
  Qed.
End ArcCoord.

(* ---------- Arc.bbox ---------- *)
Section ArcBox.
  Variable A : @arcp R.
  Notation rx := (a_rx A). Notation ry := (a_ry A). Notation phi := (a_phi A).
  Hypothesis Hrx : 0 < rx.
  Hypothesis Hry : 0 < ry.
  Hypothesis Hdelta : a_delta A <> 0.
  Hypothesis Hth : Rabs (a_theta A) <= 180.
  Hypothesis Hde : Rabs (a_delta A) <= 360.
  (* C04: the stored end points are the end points of the parameterisation *)
  Hypothesis Hstart : a_start A = arc_point NumR NumTR A 0.
  Hypothesis Hend : a_end A = arc_point NumR NumTR A 1.

  Definition Px := rx * cos phi.   Definition Qx := ry * sin phi.
  Definition Py := rx * sin phi.   Definition Qy := - (ry * cos phi).

  Lemma arc_re t : re (arc_point NumR NumTR A t) = g A Px Qx (re (a_center A)) t.
  Proof. unfold arc_point, arc_xy, g, Px, Qx. numR. ring. Qed.
  Lemma arc_im t : im (arc_point NumR NumTR A t) = g A Py Qy (im (a_center A)) t.
  Proof. unfold arc_point, arc_xy, g, Py, Qy. numR. ring. Qed.

  Lemma sincos_not_both : ~ (cos phi = 0 /\ sin phi = 0).
  Proof. intros [Hc Hs]. pose proof (sin2_cos2 phi) as H. unfold Rsqr in H. rewrite Hc, Hs in H. lra. Qed.

  Lemma atans_spec :
    ang_spec Px Qx (fst (arc_atans NumR NumTR A)) /\ ang_spec Py Qy (snd (arc_atans NumR NumTR A)).
  Proof.
    unfold arc_atans, Px, Qx, Py, Qy. numR'. rewrite !lit_R.
    destruct (Req_b (cos phi) 0) eqn:Ec.
    - apply Req_b_true in Ec. cbn [fst snd].
      assert (Hs : sin phi <> 0) by (intros Hs; apply sincos_not_both; auto).
      split.
      + left. rewrite Ec. repeat split; try lra. apply Rmult_integral_contrapositive_currified; lra.
      + right; left. rewrite Ec. repeat split; try lra. apply Rmult_integral_contrapositive_currified; lra.
    - assert (Hc : cos phi <> 0) by (intros Q; apply Req_b_true in Q; congruence).
      destruct (Req_b (sin phi) 0) eqn:Es.
      + apply Req_b_true in Es. cbn [fst snd]. split.
        * right; left. rewrite Es. repeat split; try lra. apply Rmult_integral_contrapositive_currified; lra.
        * left. rewrite Es. repeat split; try lra.
          assert (ry * cos phi <> 0) by (apply Rmult_integral_contrapositive_currified; lra). lra.
      + assert (Hs : sin phi <> 0) by (intros Q; apply Req_b_true in Q; congruence).
        cbn [fst snd]. split.
        * right; right. repeat split; try (apply Rmult_integral_contrapositive_currified; lra).
          f_equal. unfold tan. field. split; lra.
        * right; right. repeat split; try (apply Rmult_integral_contrapositive_currified; lra).
          -- assert (ry * cos phi <> 0) by (apply Rmult_integral_contrapositive_currified; lra). lra.
          -- f_equal. unfold tan. field. repeat split; lra.
  Qed.

  Theorem arc_bbox_contains t : 0 <= t <= 1 ->
    let '(xmin, xmax, ymin, ymax) := arc_bbox NumR NumTR A in
    xmin <= re (arc_point NumR NumTR A t) <= xmax /\ ymin <= im (arc_point NumR NumTR A t) <= ymax.
  Proof.
    intros Ht. unfold arc_bbox. destruct atans_spec as [Sx Sy].
    destruct (arc_atans NumR NumTR A) as [atx aty]. cbn [fst snd] in Sx, Sy.
    rewrite Hstart, Hend.
    rewrite (map_ext _ _ (fun u => arc_re u)), (map_ext _ _ (fun u => arc_im u)).
    rewrite !arc_re, !arc_im. split.
    - apply coord_contains; auto.
    - apply coord_contains; auto.
  Qed.
  Theorem arc_bbox_tight :
    let '(xmin, xmax, ymin, ymax) := arc_bbox NumR NumTR A in
    (exists t, 0 <= t <= 1 /\ xmin = re (arc_point NumR NumTR A t)) /\
    (exists t, 0 <= t <= 1 /\ xmax = re (arc_point NumR NumTR A t)) /\
    (exists t, 0 <= t <= 1 /\ ymin = im (arc_point NumR NumTR A t)) /\
    (exists t, 0 <= t <= 1 /\ ymax = im (arc_point NumR NumTR A t)).
  Proof.
    unfold arc_bbox. destruct (arc_atans NumR NumTR A) as [atx aty].
    rewrite Hstart, Hend.
    rewrite (map_ext _ _ (fun u => arc_re u)), (map_ext _ _ (fun u => arc_im u)).
    rewrite !arc_re, !arc_im.
    destruct (coord_tight A Px Qx (re (a_center A)) atx) as [(t1 & H1 & E1) (t2 & H2 & E2)].
    destruct (coord_tight A Py Qy (im (a_center A)) aty) as [(t3 & H3 & E3) (t4 & H4 & E4)].
    repeat split; [exists t1|exists t2|exists t3|exists t4]; rewrite ?arc_re, ?arc_im; auto.
  Qed.
End ArcBox.
