(* Proofs/PathIdxR.v — the T <-> (k,t) search of Model/PathIdx.v over the real
   numbers: any number of segments (induction over the list of lengths with
   the loop generalised over its accumulator). *)
From Coq Require Import ZArith List Bool Arith Reals Lra Lia.
From SVP Require Import Base.Num Model.PathIdx.
Import ListNotations.
Open Scope R_scope.

Definition Rsum (l : list R) : R := fold_right Rplus 0 l.
Definition vals (fs : list (bool * R)) : list R := map snd fs.
Definition nonneg (l : list R) : Prop := Forall (fun x => 0 <= x) l.

Lemma Req_b_false x y : Req_b x y = false <-> x <> y.
Proof. unfold Req_b; destruct (Req_EM_T x y); split; intros; congruence. Qed.

(* ---------- builtin sum over R is the plain sum, whatever the tags ---------- *)
Lemma sum_plain_R l acc : sum_plain NumR l acc = acc + Rsum (vals l).
Proof.
  revert acc; induction l as [|[b x] r IH]; intros acc; simpl.
  - lra.
  - rewrite IH. unfold vals, Rsum. lra.
Qed.

Lemma flush_R0 f : flush NumR f 0 = f.
Proof.
  unfold flush, neqb. simpl.
  replace (Req_b 0 0) with true by (symmetry; apply Req_b_true; reflexivity).
  reflexivity.
Qed.

Lemma sum_neu_R l f : sum_neu NumR l f 0 = f + Rsum (vals l).
Proof.
  revert f; induction l as [|[b x] r IH]; intros f.
  - cbn [sum_neu]. rewrite flush_R0. simpl. lra.
  - destruct b; cbn [sum_neu].
    + match goal with |- sum_neu NumR r ?t ?c = _ =>
        replace c with 0 by (destruct (leb NumR (nabs NumR x) (nabs NumR f)); simpl; lra) end.
      rewrite IH. simpl. unfold vals, Rsum. lra.
    + rewrite flush_R0, sum_plain_R. simpl. unfold vals, Rsum. lra.
Qed.

Lemma pysum_R comp l : pysum NumR comp l = Rsum (vals l).
Proof.
  destruct comp; unfold pysum.
  - destruct l as [|[[|] x] r]; [reflexivity| |].
    + rewrite sum_neu_R. simpl. unfold vals, Rsum. lra.
    + rewrite sum_plain_R. simpl. unfold vals, Rsum. lra.
  - rewrite sum_plain_R. simpl. lra.
Qed.

Lemma cum_R comp fs k : cum NumR comp fs k = Rsum (firstn k (vals fs)).
Proof. unfold cum. rewrite pysum_R. unfold vals. now rewrite firstn_map. Qed.

(* ---------- sums ---------- *)
Lemma Rsum_firstn_nonneg l j : nonneg l -> 0 <= Rsum (firstn j l).
Proof.
  intros H; revert j; induction H as [|x l Hx Hl IH]; intros [|j]; simpl; try lra.
  specialize (IH j). lra.
Qed.
Lemma Rsum_nonneg l : nonneg l -> 0 <= Rsum l.
Proof. induction 1; simpl; lra. Qed.

Lemma Rsum_firstn_S l j : (j < length l)%nat ->
  Rsum (firstn (S j) l) = Rsum (firstn j l) + nth j l 0.
Proof.
  revert j; induction l as [|x l IH]; intros j Hj; simpl in Hj; [lia|].
  destruct j as [|j].
  - simpl. destruct l; simpl; lra.
  - change (firstn (S (S j)) (x :: l)) with (x :: firstn (S j) l).
    change (firstn (S j) (x :: l)) with (x :: firstn j l).
    change (nth (S j) (x :: l) 0) with (nth j l 0).
    cbn [Rsum fold_right]. fold (Rsum (firstn (S j) l)). fold (Rsum (firstn j l)).
    rewrite IH by lia. lra.
Qed.
Lemma Rsum_firstn_le l j : nonneg l -> Rsum (firstn j l) <= Rsum l.
Proof.
  intros H; revert j; induction H as [|x l Hx Hl IH]; intros [|j]; simpl; try lra.
  - pose proof (Rsum_nonneg l Hl). unfold Rsum in *. lra.
  - specialize (IH j). unfold Rsum in *. lra.
Qed.
Lemma Rsum_firstn_all l j : (length l <= j)%nat -> Rsum (firstn j l) = Rsum l.
Proof. intros. now rewrite firstn_all2. Qed.
Lemma Rsum_map_div l d : Rsum (map (fun x => x / d) l) = Rsum l / d.
Proof. induction l; simpl; [|rewrite IHl]; unfold Rdiv; lra. Qed.
Lemma nonneg_nth l j : nonneg l -> 0 <= nth j l 0.
Proof.
  intros H; revert j; induction H; intros [|j]; simpl; try lra. apply IHForall.
Qed.

Lemma div_unit a f : 0 < f -> 0 < a <= f -> 0 < a / f <= 1.
Proof.
  intros Hf Ha. pose proof (Rinv_0_lt_compat f Hf) as Hi. unfold Rdiv. split.
  - apply Rmult_lt_0_compat; lra.
  - replace 1 with (f * / f) by (field; lra). apply Rmult_le_compat_r; lra.
Qed.

Lemma clamp1_R cl q : q <= 1 -> clamp1 NumR cl q = q.
Proof.
  intros H. destruct cl; [|reflexivity]. unfold clamp1, nmin. simpl.
  replace (Rlt_b 1 q) with false by (symmetry; apply Rlt_b_false; lra). reflexivity.
Qed.

(* ---------- the search loop ---------- *)
Lemma T2t_loop_hit : forall cl fs j k T0 T, nonneg (vals fs) -> (j < length fs)%nat ->
  T0 + Rsum (firstn j (vals fs)) < T <= T0 + Rsum (firstn (S j) (vals fs)) ->
  T2t_loop NumR cl fs k T0 T
  = Found (k + Z.of_nat j)%Z ((T - (T0 + Rsum (firstn j (vals fs)))) / nth j (vals fs) 0).
Proof.
  intros cl. induction fs as [|[ex l] r IH]; intros j k T0 T Hnn Hj HT.
  - simpl in Hj; lia.
  - unfold vals in Hnn; cbn [map snd] in Hnn. inversion Hnn as [|? ? Hl Hr]; subst.
    fold (vals r) in Hr.
    destruct j as [|j].
    + cbn [vals map snd firstn Rsum fold_right nth] in HT |- *.
      cbn [T2t_loop]. simpl (add NumR _ _). simpl (leb NumR _ _). simpl (eqb NumR _ _).
      simpl (sub NumR _ _). simpl (div NumR _ _). simpl (zero NumR).
      replace (Rle_b T (T0 + l)) with true by (symmetry; apply Rle_b_true; lra).
      replace (Req_b l 0) with false by (symmetry; apply Req_b_false; lra).
      rewrite andb_false_r. rewrite clamp1_R by (apply div_unit; lra).
      f_equal; [lia|]. f_equal. lra.
    + assert (Hc := Rsum_firstn_nonneg (vals r) j Hr).
      assert (E1 : Rsum (firstn (S j) (vals ((ex, l) :: r))) = l + Rsum (firstn j (vals r)))
        by reflexivity.
      assert (E2 : Rsum (firstn (S (S j)) (vals ((ex, l) :: r))) = l + Rsum (firstn (S j) (vals r)))
        by reflexivity.
      rewrite E1, E2 in HT. rewrite E1.
      change (nth (S j) (vals ((ex, l) :: r)) 0) with (nth j (vals r) 0).
      cbn [T2t_loop]. simpl (add NumR _ _). simpl (leb NumR _ _).
      replace (Rle_b T (T0 + l)) with false by (symmetry; apply Rle_b_false; lra).
      rewrite (IH j (k + 1)%Z (T0 + l) T Hr) by (simpl in Hj; lia || lra).
      f_equal; [lia|]. f_equal. lra.
Qed.

Lemma interval_exists : forall l a T, nonneg l -> a < T <= a + Rsum l ->
  exists j, (j < length l)%nat /\ a + Rsum (firstn j l) < T <= a + Rsum (firstn (S j) l).
Proof.
  induction l as [|x r IH]; intros a T Hnn HT.
  - simpl in HT. lra.
  - inversion Hnn as [|? ? Hx Hr]; subst.
    destruct (Rle_dec T (a + x)) as [Hle|Hgt].
    + exists 0%nat. simpl. split; [lia|]. destruct r; simpl; lra.
    + destruct (IH (a + x) T Hr) as [j [Hj Hjt]].
      { cbn [Rsum fold_right] in HT. fold (Rsum r) in HT. lra. }
      exists (S j). split; [simpl; lia|].
      change (firstn (S (S j)) (x :: r)) with (x :: firstn (S j) r).
      change (firstn (S j) (x :: r)) with (x :: firstn j r).
      cbn [Rsum fold_right]. fold (Rsum (firstn j r)). fold (Rsum (firstn (S j) r)). lra.
Qed.

(* point's loop is T2t's loop: over R, (s + l) - s = l, and the quotient of a
   selected segment is <= 1, so the clamp of the repaired T2t changes nothing *)
Lemma point_loop_T2t_loop : forall cl fs k s T, nonneg (vals fs) -> s < T ->
  point_loop NumR fs k s T = T2t_loop NumR cl fs k s T.
Proof.
  intros cl. induction fs as [|[ex l] r IH]; intros k s T Hnn HsT; [reflexivity|].
  unfold vals in Hnn; cbn [map snd] in Hnn. inversion Hnn as [|? ? Hl Hr]; subst.
  fold (vals r) in Hr.
  cbn [point_loop T2t_loop]. simpl (add NumR _ _). simpl (leb NumR _ _).
  destruct (Rle_b T (s + l)) eqn:E.
  - apply Rle_b_true in E. simpl. replace (s + l - s) with l by ring.
    destruct (Req_dec l 0) as [Z|NZ].
    + exfalso. lra.
    + replace (Req_b l 0) with false by (symmetry; now apply Req_b_false).
      rewrite andb_false_r. rewrite clamp1_R; [reflexivity|]. apply div_unit; lra.
  - apply Rle_b_false in E. apply IH; [assumption|lra].
Qed.

(* no division by zero once the accumulator is below T *)
Lemma T2t_loop_no_zerodiv : forall cl fs k T0 T, nonneg (vals fs) -> T0 < T ->
  T2t_loop NumR cl fs k T0 T <> ZeroDiv.
Proof.
  intros cl. induction fs as [|[ex l] r IH]; intros k T0 T Hnn HT; [discriminate|].
  unfold vals in Hnn; cbn [map snd] in Hnn. inversion Hnn as [|? ? Hl Hr]; subst.
  fold (vals r) in Hr.
  cbn [T2t_loop]. simpl (add NumR _ _). simpl (leb NumR _ _).
  destruct (Rle_b T (T0 + l)) eqn:E.
  - apply Rle_b_true in E. simpl (eqb NumR _ _).
    replace (Req_b l 0) with false by (symmetry; apply Req_b_false; lra).
    rewrite andb_false_r. discriminate.
  - apply Rle_b_false in E. apply IH; [assumption|lra].
Qed.

(* ---------- fractions ---------- *)
Section Fractions.
  Variables (comp : bool) (tl : list (bool * R)).
  Hypothesis Hnn : nonneg (vals tl).
  Hypothesis Htot : 0 < total NumR comp tl.

  Let fs := fractions NumR comp tl.

  Lemma total_R : total NumR comp tl = Rsum (vals tl).
  Proof. apply pysum_R. Qed.

  Lemma fractions_vals : vals fs = map (fun x => x / total NumR comp tl) (vals tl).
  Proof.
    unfold fs, fractions. simpl (eqb NumR _ _).
    replace (Req_b (total NumR comp tl) 0) with false by (symmetry; apply Req_b_false; lra).
    unfold vals. rewrite !map_map. reflexivity.
  Qed.
  Lemma fractions_length : length fs = length tl.
  Proof.
    unfold fs, fractions. destruct (eqb NumR _ _); [reflexivity|]. now rewrite map_length.
  Qed.
  Lemma fractions_nonneg : nonneg (vals fs).
  Proof.
    rewrite fractions_vals. unfold nonneg in *. rewrite Forall_forall in *.
    intros y Hy. apply in_map_iff in Hy. destruct Hy as [x [<- Hx]].
    apply Hnn in Hx. unfold Rdiv. apply Rmult_le_pos; [lra|].
    left. now apply Rinv_0_lt_compat.
  Qed.
  Lemma fractions_sum : Rsum (vals fs) = 1.
  Proof. rewrite fractions_vals, Rsum_map_div, <- total_R. field. lra. Qed.
  Lemma fractions_nth k : nth k (vals fs) 0 = nth k (vals tl) 0 / total NumR comp tl.
  Proof.
    rewrite fractions_vals.
    pose proof (map_nth (fun x => x / total NumR comp tl) (vals tl) 0 k) as H.
    cbv beta in H. rewrite <- H. f_equal. unfold Rdiv; lra.
  Qed.
  Lemma fractions_cum k :
    cum NumR comp fs k = pysum NumR comp (firstn k tl) / total NumR comp tl.
  Proof.
    rewrite cum_R, pysum_R, fractions_vals. unfold vals.
    rewrite !firstn_map. apply Rsum_map_div.
  Qed.
End Fractions.

(* ---------- theorems on a list of fractions: non-negative, summing to 1 ---------- *)
Section OnFractions.
  Variables (comp cl : bool) (fs : list (bool * R)).
  Hypothesis Hfn : nonneg (vals fs).
  Hypothesis Hs : Rsum (vals fs) = 1.

  Let c (k : nat) := cum NumR comp fs k.
  Let f (k : nat) := nth k (vals fs) 0.

  Lemma vals_length : length (vals fs) = length fs.
  Proof. unfold vals. apply map_length. Qed.

  Lemma cum_S k : (k < length fs)%nat -> c (S k) = c k + f k.
  Proof. intros Hk. unfold c, f. rewrite !cum_R. apply Rsum_firstn_S. now rewrite vals_length. Qed.
  Lemma cum_0 : c 0 = 0.
  Proof. unfold c. rewrite cum_R. reflexivity. Qed.
  Lemma cum_range k : 0 <= c k <= 1.
  Proof.
    unfold c. rewrite cum_R. split; [now apply Rsum_firstn_nonneg|].
    rewrite <- Hs. now apply Rsum_firstn_le.
  Qed.
  Lemma cum_last k : (length fs <= k)%nat -> c k = 1.
  Proof. intros. unfold c. rewrite cum_R, Rsum_firstn_all; [exact Hs|now rewrite vals_length]. Qed.

  (* the loop selects exactly the segment whose T-interval (c k, c (k+1)] contains T *)
  Lemma T2t_fr_hit fb k T : (k < length fs)%nat -> T <> 1 -> c k < T <= c (S k) ->
    T2t_fr NumR cl fb fs T = Ok (Z.of_nat k, (T - c k) / f k).
  Proof.
    intros Hk H1 HT. pose proof (cum_range k) as Hr.
    unfold T2t_fr. simpl (eqb NumR _ _).
    replace (Req_b T 1) with false by (symmetry; apply Req_b_false; lra).
    replace (Req_b T 0) with false by (symmetry; apply Req_b_false; lra).
    change (zero NumR) with 0.
    rewrite (T2t_loop_hit cl fs k 0 0 T Hfn Hk).
    - unfold c, f. rewrite cum_R. do 2 f_equal. f_equal. lra.
    - unfold c in HT. rewrite !cum_R in HT. lra.
  Qed.

  Theorem T2t_fr_spec fb T : 0 < T < 1 ->
    exists k t, T2t_fr NumR cl fb fs T = Ok (Z.of_nat k, t) /\ (k < length fs)%nat
      /\ 0 < f k /\ 0 < t <= 1 /\ c k < T <= c (S k) /\ t = (T - c k) / f k.
  Proof.
    intros HT.
    destruct (interval_exists (vals fs) 0 T Hfn) as [j [Hj HjT]]; [rewrite Hs; lra|].
    rewrite vals_length in Hj. rewrite !Rplus_0_l in HjT.
    assert (HjT' : c j < T <= c (S j)) by (unfold c; now rewrite !cum_R).
    pose proof (cum_S j Hj) as HS.
    assert (Hf : 0 < f j) by lra.
    exists j, ((T - c j) / f j). repeat split; try lra; try assumption.
    - apply T2t_fr_hit; [assumption|lra|assumption].
    - apply div_unit; lra.
    - apply div_unit; lra.
  Qed.

  (* t2T inverts T2t *)
  Theorem t2T_T2t_fr fb T k t : 0 < T < 1 -> T2t_fr NumR cl fb fs T = Ok (Z.of_nat k, t) ->
    t2T_fr NumR comp fs k t = Ok T.
  Proof.
    intros HT E. destruct (T2t_fr_spec fb T HT) as [k' [t' [E' [Hk [Hf [Ht [Hc Et]]]]]]].
    rewrite E in E'. injection E' as Ek Et'. apply Nat2Z.inj in Ek. subst k' t'.
    unfold t2T_fr. destruct (nth_error fs k) as [[ex l]|] eqn:En.
    - assert (El : l = f k).
      { unfold f, vals. erewrite (nth_error_nth (map snd fs)); [reflexivity|].
        rewrite nth_error_map, En. reflexivity. }
      fold (c k). simpl. f_equal. rewrite Et, El. field. lra.
    - apply nth_error_None in En. lia.
  Qed.

  (* segment k occupies [c k, c (k+1)] *)
  Theorem t2T_interval_fr k t : (k < length fs)%nat -> 0 <= t <= 1 ->
    exists T, t2T_fr NumR comp fs k t = Ok T /\ c k <= T <= c (S k) /\ T = c k + f k * t.
  Proof.
    intros Hk Ht. unfold t2T_fr. destruct (nth_error fs k) as [[ex l]|] eqn:En.
    - assert (El : l = f k).
      { unfold f, vals. erewrite (nth_error_nth (map snd fs)); [reflexivity|].
        rewrite nth_error_map, En. reflexivity. }
      fold (c k). subst l. eexists; split; [reflexivity|].
      rewrite (cum_S k Hk). pose proof (nonneg_nth (vals fs) k Hfn) as Hf. fold (f k) in Hf.
      simpl. split; [nra|ring].
    - apply nth_error_None in En. lia.
  Qed.

  (* T2t inverts t2T on 0 < t <= 1 of a segment of positive length *)
  Theorem T2t_t2T_fr fb k t : (k < length fs)%nat -> 0 < f k -> 0 < t <= 1 ->
    exists T, t2T_fr NumR comp fs k t = Ok T /\ 0 < T <= 1
      /\ (T < 1 -> T2t_fr NumR cl fb fs T = Ok (Z.of_nat k, t))
      /\ (T = 1 -> t = 1 /\ c (S k) = 1
                   /\ T2t_fr NumR cl fb fs T = Ok (last_idx (length fs), 1)).
  Proof.
    intros Hk Hf Ht.
    destruct (t2T_interval_fr k t Hk) as [T [E [HT ET]]]; [lra|].
    pose proof (cum_range k) as Hr. pose proof (cum_range (S k)) as Hr'.
    pose proof (cum_S k Hk) as HS.
    exists T. split; [exact E|]. split; [nra|]. split.
    - intros H1. rewrite (T2t_fr_hit fb k T Hk); [|lra|nra].
      do 2 f_equal. rewrite ET. field. lra.
    - intros H1. assert (t = 1) by nra. repeat split; try assumption; try nra.
      unfold T2t_fr. simpl (eqb NumR _ _).
      replace (Req_b T 1) with true by (symmetry; apply Req_b_true; lra). reflexivity.
  Qed.

End OnFractions.

(* point selects the same segment and parameter as T2t, at every T >= 0
   (for T < 0 the clamp of the repaired T2t could differ from point's raw quotient) *)
Theorem point_fr_T2t_fr (fs : list (bool * R)) cl fb T kt : fs <> [] -> nonneg (vals fs) -> 0 <= T ->
  T2t_fr NumR cl fb fs T = Ok kt -> point_fr NumR fb fs T = Ok kt.
Proof.
  intros Hne Hnn HT. unfold point_fr, T2t_fr.
  destruct fs as [|x r] eqn:Efs; [congruence|]. cbn [length Nat.eqb].
  simpl (eqb NumR _ _). simpl (one NumR). simpl (zero NumR).
  destruct (Req_b T 1) eqn:E1.
  - apply Req_b_true in E1. subst T.
    replace (Req_b 1 0) with false by (symmetry; apply Req_b_false; lra). auto.
  - destruct (Req_b T 0) eqn:E0.
    + apply Req_b_true in E0. subst T. auto.
    + apply Req_b_false in E0.
      rewrite (point_loop_T2t_loop cl (x :: r) 0 0 T Hnn) by lra.
      destruct (T2t_loop NumR cl (x :: r) 0 0 T); auto.
      destruct (in01 NumR T); [|discriminate]. destruct fb; [auto|discriminate].
Qed.

(* the repaired code is total on [0,1] over R for ANY non-negative lengths
   (no BugException, no ZeroDivisionError), also when the total length is 0 *)
Theorem T2t_fr_total_R (fs : list (bool * R)) cl T : nonneg (vals fs) -> 0 <= T <= 1 ->
  exists kt, T2t_fr NumR cl true fs T = Ok kt.
Proof.
  intros Hnn HT. unfold T2t_fr. simpl (eqb NumR _ _). simpl (zero NumR).
  destruct (Req_b T 1); [eauto|]. destruct (Req_b T 0) eqn:E0; [eauto|].
  apply Req_b_false in E0.
  pose proof (T2t_loop_no_zerodiv cl fs 0%Z 0 T Hnn ltac:(lra)) as NZ.
  destruct (T2t_loop NumR cl fs 0 0 T); [eauto|congruence|].
  unfold in01. simpl.
  replace (Rle_b 0 T) with true by (symmetry; apply Rle_b_true; lra).
  replace (Rle_b T 1) with true by (symmetry; apply Rle_b_true; lra). simpl. eauto.
Qed.
Theorem point_fr_total_R (fs : list (bool * R)) T : fs <> [] -> nonneg (vals fs) -> 0 <= T <= 1 ->
  exists kt, point_fr NumR true fs T = Ok kt.
Proof.
  intros Hne Hnn HT. destruct (T2t_fr_total_R fs false T Hnn HT) as [kt E].
  exists kt. apply (point_fr_T2t_fr fs false true T kt Hne Hnn); [lra|exact E].
Qed.

Lemma nth_error_last {A} (l : list A) d : l <> [] -> nth_error l (length l - 1) = Some (last l d).
Proof.
  induction l as [|a r IH]; [congruence|]. intros _. destruct r as [|b r']; [reflexivity|].
  replace (length (a :: b :: r') - 1)%nat with (S (length (b :: r') - 1)) by (simpl; lia).
  cbn [nth_error]. rewrite IH by congruence. reflexivity.
Qed.

(* ---------- theorems on the path's segment lengths ---------- *)
Lemma fractions_nonneg_any comp tl : nonneg (vals tl) -> nonneg (vals (fractions NumR comp tl)).
Proof.
  intros Hnn. destruct (Req_dec (total NumR comp tl) 0) as [Z|NZ].
  - unfold fractions. simpl (eqb NumR _ _).
    replace (Req_b (total NumR comp tl) 0) with true by (symmetry; now apply Req_b_true).
    exact Hnn.
  - apply fractions_nonneg; [exact Hnn|].
    pose proof (Rsum_nonneg (vals tl) Hnn). rewrite total_R in *. lra.
Qed.

(* for every list of non-negative lengths (total 0 included) and every T >= 0 *)
Theorem point_search_T2t comp cl tl fb T kt : tl <> [] -> nonneg (vals tl) -> 0 <= T ->
  T2t NumR comp cl fb tl T = Ok kt -> point_search NumR comp fb tl T = Ok kt.
Proof.
  intros Hne Hnn HT E.
  assert (Hfs : fractions NumR comp tl <> []).
  { intros E0. apply Hne. apply length_zero_iff_nil.
    rewrite <- (fractions_length comp tl), E0. reflexivity. }
  apply (point_fr_T2t_fr _ cl fb T kt Hfs (fractions_nonneg_any comp tl Hnn) HT E).
Qed.
Theorem T2t_total_R comp cl tl T : nonneg (vals tl) -> 0 <= T <= 1 ->
  exists kt, T2t NumR comp cl true tl T = Ok kt.
Proof. intros Hnn HT. apply T2t_fr_total_R; [now apply fractions_nonneg_any|exact HT]. Qed.
Theorem point_search_total_R comp tl T : tl <> [] -> nonneg (vals tl) -> 0 <= T <= 1 ->
  exists kt, point_search NumR comp true tl T = Ok kt.
Proof.
  intros Hne Hnn HT. apply point_fr_total_R; [|now apply fractions_nonneg_any|exact HT].
  intros E0. apply Hne. apply length_zero_iff_nil.
  rewrite <- (fractions_length comp tl), E0. reflexivity.
Qed.

Section OnLengths.
  Variables (comp cl : bool) (tl : list (bool * R)).
  Hypothesis Hnn : nonneg (vals tl).
  Hypothesis Htot : 0 < total NumR comp tl.

  Let fs := fractions NumR comp tl.
  Let Hfn : nonneg (vals fs) := fractions_nonneg comp tl Hnn Htot.
  Let Hs : Rsum (vals fs) = 1 := fractions_sum comp tl Htot.
  Let Hlen : length fs = length tl := fractions_length comp tl.

  Theorem T2t_spec fb T : 0 < T < 1 ->
    exists k t, T2t NumR comp cl fb tl T = Ok (Z.of_nat k, t) /\ (k < length tl)%nat
      /\ 0 < nth k (vals tl) 0 /\ 0 < t <= 1
      /\ cum NumR comp fs k < T <= cum NumR comp fs (S k)
      /\ t = (T - cum NumR comp fs k) / nth k (vals fs) 0.
  Proof.
    intros HT. destruct (T2t_fr_spec comp cl fs Hfn Hs fb T HT) as [k [t [E [Hk [Hf [Ht [Hc Et]]]]]]].
    exists k, t. repeat split; try assumption; try lra; try lia.
    unfold fs in Hf. rewrite (fractions_nth comp tl Htot) in Hf.
    assert (Hl := nonneg_nth (vals tl) k Hnn).
    destruct (Req_dec (nth k (vals tl) 0) 0) as [Z|NZ]; [|lra].
    rewrite Z in Hf. unfold Rdiv in Hf. lra.
  Qed.

  Theorem t2T_T2t fb T k t : 0 < T < 1 -> T2t NumR comp cl fb tl T = Ok (Z.of_nat k, t) ->
    t2T NumR comp tl k t = Ok T.
  Proof. exact (t2T_T2t_fr comp cl fs Hfn Hs fb T k t). Qed.

  Theorem T2t_t2T fb k t : (k < length tl)%nat -> 0 < nth k (vals tl) 0 -> 0 < t <= 1 ->
    exists T, t2T NumR comp tl k t = Ok T /\ 0 < T <= 1
      /\ (T < 1 -> T2t NumR comp cl fb tl T = Ok (Z.of_nat k, t))
      /\ (T = 1 -> t = 1 /\ cum NumR comp fs (S k) = 1
                   /\ T2t NumR comp cl fb tl T = Ok (last_idx (length tl), 1)).
  Proof.
    intros Hk Hl Ht. rewrite <- Hlen in *.
    apply (T2t_t2T_fr comp cl fs Hfn Hs fb k t Hk); [|exact Ht].
    unfold fs. rewrite (fractions_nth comp tl Htot). now apply Rdiv_lt_0_compat.
  Qed.

  Theorem t2T_interval k t : (k < length tl)%nat -> 0 <= t <= 1 ->
    exists T, t2T NumR comp tl k t = Ok T
      /\ cum NumR comp fs k <= T <= cum NumR comp fs (S k)
      /\ cum NumR comp fs k = pysum NumR comp (firstn k tl) / total NumR comp tl
      /\ cum NumR comp fs (S k) = pysum NumR comp (firstn (S k) tl) / total NumR comp tl.
  Proof.
    intros Hk Ht. rewrite <- Hlen in Hk.
    destruct (t2T_interval_fr comp fs Hfn k t Hk Ht) as [T [E [HT _]]].
    exists T. repeat split; try assumption; try lra; apply (fractions_cum comp tl Htot).
  Qed.

  Theorem T2t_ends fb : T2t NumR comp cl fb tl 0 = Ok (0%Z, 0)
                        /\ T2t NumR comp cl fb tl 1 = Ok (last_idx (length tl), 1).
  Proof.
    unfold T2t, T2t_fr. fold fs. rewrite Hlen. simpl (eqb NumR _ _).
    replace (Req_b 0 1) with false by (symmetry; apply Req_b_false; lra).
    replace (Req_b 0 0) with true by (symmetry; apply Req_b_true; lra).
    replace (Req_b 1 1) with true by (symmetry; apply Req_b_true; lra). split; reflexivity.
  Qed.

  (* Path.point(T) is the point of segment k at t, (k,t) = T2t(T); point(0), point(1) *)
  Theorem path_point_coherent {S P : Type} (spoint : S -> R -> P) (segs : list S) fb T :
    length segs = length tl -> 0 < T < 1 ->
    exists k t s, T2t NumR comp cl fb tl T = Ok (Z.of_nat k, t) /\ nth_error segs k = Some s
      /\ path_point NumR spoint comp fb segs tl T = Ok (spoint s t).
  Proof.
    intros Hl HT. destruct (T2t_spec fb T HT) as [k [t [E [Hk _]]]].
    destruct (nth_error segs k) as [s|] eqn:En; [|apply nth_error_None in En; lia].
    exists k, t, s. repeat split; try assumption.
    unfold path_point.
    rewrite (point_search_T2t comp cl tl fb T (Z.of_nat k, t)); [|destruct tl; simpl in *; [lia|congruence]|exact Hnn|lra|exact E].
    rewrite Nat2Z.id, En. reflexivity.
  Qed.

  Theorem path_point_ends {S P : Type} (spoint : S -> R -> P) (s0 : S) (segs : list S) fb :
    length (s0 :: segs) = length tl ->
    path_point NumR spoint comp fb (s0 :: segs) tl 0 = Ok (spoint s0 0)
    /\ path_point NumR spoint comp fb (s0 :: segs) tl 1 = Ok (spoint (last (s0 :: segs) s0) 1).
  Proof.
    intros Hl. assert (Hne : tl <> []) by (destruct tl; simpl in *; [lia|congruence]).
    destruct (T2t_ends fb) as [E0 E1].
    unfold path_point.
    rewrite (point_search_T2t comp cl tl fb 0 _ Hne Hnn ltac:(lra) E0),
            (point_search_T2t comp cl tl fb 1 _ Hne Hnn ltac:(lra) E1).
    split; [reflexivity|].
    unfold last_idx. rewrite <- Hl.
    replace (Z.to_nat (Z.of_nat (length (s0 :: segs)) - 1)) with (length (s0 :: segs) - 1)%nat by lia.
    rewrite (nth_error_last (s0 :: segs) s0) by congruence. reflexivity.
  Qed.
End OnLengths.
