(* Proofs/XformRefute.v — witnesses (closed terms, vm_compute) on the FAITHFUL
   model of the current code (Model/Xform.v):

   1. scaled() un-closes a closed Bezier path in binary64 (NumF, bit-exact):
      the closing joint is not in joints(), and scale_bezier computes the new
      end as c0+c1(+c2+c3) but the new start as c0 — two different roundings.
      With the closing pair in joints() the same path stays closed.

   2. transform() of an Arc is wrong even in exact arithmetic.  The eigen-
      decomposition is an oracle in the model; here it is instantiated with the
      closed-form decomposition of a symmetric 2x2 matrix, in every sign / order
      convention an eigen-solver may use, and evaluated in 120-bit floats
      (Base/BigF.v).  Each witness checks (a) that the oracle's answer IS an
      eigen-decomposition (residual <= 2^-100), (b) that the transformed arc
      still starts and ends at M(start), M(end) (<= 2^-90), and (c) that its
      point at t = 1/2 is farther than 1/2 from M(point(1/2)).
        W1  M = [[1,2],[1,1]]: det < 0 but tf00*tf11 > 0, sweep not flipped —
            wrong for all four conventions of the oracle;
        W2  M = R(-theta) diag(2,1): the eigenvector (c,-s) has its sign lost by
            arccos(xeigvec[0]); correct only if the solver happens to return (-c,s);
        W3  an arc with rotation 45 under diag(2,1): Q ignores the arc's own
            rotation. *)
From Coq Require Import ZArith List Bool PrimFloat.
From SVP Require Import Base.Num Base.Cplx Base.FloatK Base.BigF
     Model.Bezier Model.Arc Model.Xform.
Import ListNotations.

(* ------------------------------------------------------------------ *)
(* 1. scaled() and closed paths, binary64                                *)
(* ------------------------------------------------------------------ *)
Definition f0_1 : float := 0x1.999999999999ap-4%float.   (* 0.1 *)
Definition f1_3 : float := 0x1.4cccccccccccdp+0%float.   (* 1.3 *)
Definition f0_7 : float := 0x1.6666666666666p-1%float.   (* 0.7 *)
Definition f1_7 : float := 0x1.b333333333333p+0%float.   (* 1.7 *)
(* Path(Line(0.1, 1.3), Line(1.3, 0.7+1j), Line(0.7+1j, 0.1)) *)
Definition tri : list (Seg float) :=
  [SBez [(f0_1, 0%float); (f1_3, 0%float)];
   SBez [(f1_3, 0%float); (f0_7, 1%float)];
   SBez [(f0_7, 1%float); (f0_1, 0%float)]].
Definition fzero : Cplx float := (0%float, 0%float).

Definition closed_after {K} (N : Num K) (r : xres (list (Seg K))) : option bool :=
  match r with XOk p => Some (path_closed N p) | _ => None end.
Definition last_end_first_start {K} (N : Num K) (r : xres (list (Seg K))) : option (Cplx K * Cplx K) :=
  match r with
  | XOk (s0 :: _ as p) => Some (seg_end N (last p s0), seg_start N s0)
  | _ => None
  end.

(* the path is closed and every joint coincides *)
Lemma tri_closed : path_closed NumF tri = true.
Proof. vm_compute. reflexivity. Qed.

(* tri.scaled(1.7): as coded the result is NOT closed (T is irrelevant: no arc) *)
Lemma tri_scaled_unclosed (T : NumT float) :
  closed_after NumF (path_scale NumF T false f1_7 None fzero tri) = Some false.
Proof. vm_compute. reflexivity. Qed.
(* the two values: end of the last segment 0.16999999999999993, start of the first 0.17 *)
Lemma tri_scaled_values (T : NumT float) :
  last_end_first_start NumF (path_scale NumF T false f1_7 None fzero tri)
  = Some ((0x1.5c28f5c28f5c0p-3%float, 0%float), (0x1.5c28f5c28f5c3p-3%float, 0%float)).
Proof. vm_compute. reflexivity. Qed.
(* with the closing pair in joints() the same call keeps the path closed *)
Lemma tri_scaled_closed_with_closing_joint (T : NumT float) :
  closed_after NumF (path_scale NumF T true f1_7 None fzero tri) = Some true.
Proof. vm_compute. reflexivity. Qed.
(* translate / rotate (cs = the binary64 cos/sin of 33.3 degrees) keep it closed, as coded *)
Definition cs33 : Cplx float := (0x1.abeef145aa617p-1%float, 0x1.191984d01e95bp-1%float).
Lemma tri_translated_closed (T : NumT float) :
  closed_after NumF (path_translate NumF T false (f0_7, f1_3) tri) = Some true.
Proof. vm_compute. reflexivity. Qed.
Lemma tri_rotated_closed (T : NumT float) :
  closed_after NumF (path_rotate NumF T false f1_7 cs33 (f0_1, f0_7) tri) = Some true.
Proof. vm_compute. reflexivity. Qed.

(* ------------------------------------------------------------------ *)
(* 2. transform() of an Arc, 120-bit floats                              *)
(* ------------------------------------------------------------------ *)
Definition NB := NumB.
Definition TB := NumTB.
Definition bz (z : Z) : bf := lit NB z.
Definition bq (a b : Z) : bf := div NB (bz a) (bz b).
Definition babs1 (z : bf * bf) : bf := add NB (babs (fst z)) (babs (snd z)).
Definition bdist1 (a b : bf * bf) : bf := babs1 (csub NB a b).

(* closed-form eigen-decomposition of a symmetric 2x2 matrix; flip = sign of the
   eigenvectors, swap = order of the eigen-pairs (an eigen-solver may return any) *)
Definition bnormalize (v : bf * bf) : bf * bf :=
  let n := sqrt_ TB (add NB (mul NB (fst v) (fst v)) (mul NB (snd v) (snd v))) in
  (div NB (fst v) n, div NB (snd v) n).
Definition eig_sym (flip swap : bool) : EigOracle bf := fun D =>
  let '((a, b), (_, d)) := D in
  let sg := if flip then bz (-1) else bz 1 in
  let '(l0, l1, v0, v1) :=
    if bf_eqb b (zero NB) then (a, d, (sg, bz 0), (bz 0, sg))
    else
      let mean := div NB (add NB a d) (bz 2) in
      let diff := div NB (sub NB a d) (bz 2) in
      let rad := sqrt_ TB (add NB (mul NB diff diff) (mul NB b b)) in
      let l0 := sub NB mean rad in let l1 := add NB mean rad in
      (l0, l1, bnormalize (mul NB sg b, mul NB sg (sub NB l0 a)),
               bnormalize (mul NB sg b, mul NB sg (sub NB l1 a))) in
  if swap then ((l1, l0), ((fst v1, fst v0), (snd v1, snd v0)))
  else ((l0, l1), ((fst v0, fst v1), (snd v0, snd v1))).

(* the contract of np.linalg.eig, checked on the oracle's answer *)
Definition eig_valid (D : Mat2 bf) (out : (bf * bf) * Mat2 bf) : bool :=
  let '((a, b), (c, d)) := D in
  let '((l0, l1), ((v00, v01), (v10, v11))) := out in
  let tol := bf_of 1 (-100) in
  let res (l x y : bf) :=
    add NB (babs (sub NB (add NB (mul NB a x) (mul NB b y)) (mul NB l x)))
           (babs (sub NB (add NB (mul NB c x) (mul NB d y)) (mul NB l y))) in
  let unit (x y : bf) := babs (sub NB (add NB (mul NB x x) (mul NB y y)) (bz 1)) in
  bf_leb (res l0 v00 v10) tol && bf_leb (res l1 v01 v11) tol &&
  bf_leb (unit v00 v10) tol && bf_leb (unit v01 v11) tol.

Definition bmat (a b c d : bf) : Mat3 bf := ((a, b, bz 0), (c, d, bz 0), (bz 0, bz 0, bz 1)).

(* (oracle valid, end points mapped, midpoint WRONG by more than 1/2) *)
Definition arc_tf_check (eig : EigOracle bf) (M : Mat3 bf) (P : ArcP bf) : bool * bool * bool :=
  let Q := arc_transform NB TB eig M P in
  let d t := bdist1 (seg_point NB TB Q t) (tf_point NB M (arc_point NB TB P t)) in
  let D := arc_tf_D NB M (a_radius P) in
  (eig_valid D (eig D),
   bf_leb (d (bz 0)) (bf_of 1 (-90)) && bf_leb (d (bz 1)) (bf_of 1 (-90)),
   bf_ltb (bq 1 2) (d (bq 1 2))).
(* the opposite outcome: midpoint right to 2^-90 *)
Definition arc_tf_agrees (eig : EigOracle bf) (M : Mat3 bf) (P : ArcP bf) : bool :=
  let Q := arc_transform NB TB eig M P in
  let d t := bdist1 (seg_point NB TB Q t) (tf_point NB M (arc_point NB TB P t)) in
  bf_leb (d (bq 1 2)) (bf_of 1 (-90)) && bf_leb (d (bq 1 4)) (bf_of 1 (-90)).

(* quarter of the unit circle from 1 to i, counter-clockwise *)
Definition P_quarter : ArcP bf :=
  arc_init NB TB (bz 1, bz 0) (bz 1, bz 1) (bz 0) false true (bz 0, bz 1).

(* W1: det M = -1 < 0, tf00*tf11 = 1 >= 0 *)
Definition M_w1 : Mat3 bf := bmat (bz 1) (bz 2) (bz 1) (bz 1).
Lemma arc_transform_sweep_wrong :
  forallb (fun fs => let '(flip, swap) := fs in
             match arc_tf_check (eig_sym flip swap) M_w1 P_quarter with
             | (true, true, true) => true | _ => false end)
          [(false, false); (false, true); (true, false); (true, true)] = true.
Proof. vm_compute. reflexivity. Qed.

(* W2: M = R(-theta) diag(2,1) with cos theta = 3/5, sin theta = 4/5; det = 2 > 0 *)
Definition M_w2 : Mat3 bf := bmat (bq 6 5) (bq 4 5) (bq (-8) 5) (bq 3 5).
Lemma arc_transform_rotation_sign_lost :
  arc_tf_check (eig_sym false false) M_w2 P_quarter = (true, true, true)
  /\ arc_tf_agrees (eig_sym true false) M_w2 P_quarter = true.
Proof. split; vm_compute; reflexivity. Qed.

(* W3: Arc(0, 3+1j, 45, 0, 1, 2+3j) under diag(2, 1) *)
Definition P_rot45 : ArcP bf :=
  arc_init NB TB (bz 0, bz 0) (bz 3, bz 1) (bz 45) false true (bz 2, bz 3).
Definition M_w3 : Mat3 bf := bmat (bz 2) (bz 0) (bz 0) (bz 1).
Lemma arc_transform_ignores_rotation :
  forallb (fun fs => let '(flip, swap) := fs in
             match arc_tf_check (eig_sym flip swap) M_w3 P_rot45 with
             | (true, true, true) => true | _ => false end)
          [(false, false); (false, true); (true, false); (true, true)] = true.
Proof. vm_compute. reflexivity. Qed.

(* sanity of the witnesses' machinery: for a rotation-free arc under a uniform
   scale (where the coded formulas are right) the same check reports agreement *)
Lemma arc_transform_uniform_scale_ok :
  arc_tf_agrees (eig_sym false false) (bmat (bz 3) (bz 0) (bz 0) (bz 3)) P_quarter = true.
Proof. vm_compute. reflexivity. Qed.

(* ------------------------------------------------------------------ *)
(* 3. the REPAIRED Arc branch (arc_transform_fixed, no oracle) on the same
      witnesses: end points mapped and the points at t = 1/4, 1/2 right to 2^-50
      (W2's start sits at an axis extreme of the image ellipse, where theta = acos(1 - eps)
      keeps only half of the 120 bits) *)
(* ------------------------------------------------------------------ *)
Definition arc_tf_fixed_agrees (M : Mat3 bf) (P : ArcP bf) : bool :=
  let Q := arc_transform_fixed NB TB M P in
  let d t := bdist1 (seg_point NB TB Q t) (tf_point NB M (arc_point NB TB P t)) in
  bf_leb (d (bz 0)) (bf_of 1 (-50)) && bf_leb (d (bz 1)) (bf_of 1 (-50))
  && bf_leb (d (bq 1 2)) (bf_of 1 (-50)) && bf_leb (d (bq 1 4)) (bf_of 1 (-50)).
Lemma arc_transform_fixed_on_witnesses :
  arc_tf_fixed_agrees M_w1 P_quarter = true /\ arc_tf_fixed_agrees M_w2 P_quarter = true
  /\ arc_tf_fixed_agrees M_w3 P_rot45 = true.
Proof. repeat split; vm_compute; reflexivity. Qed.
(* a circle under a rotation (repeated eigenvalue: atan2(0,0) = 0) and a reflection *)
Lemma arc_transform_fixed_degenerate :
  arc_tf_fixed_agrees (bmat (bq 3 5) (bq (-4) 5) (bq 4 5) (bq 3 5)) P_quarter = true
  /\ arc_tf_fixed_agrees (bmat (bz 1) (bz 0) (bz 0) (bz (-1))) P_rot45 = true.
Proof. split; vm_compute; reflexivity. Qed.
