(* Proofs/DeCasteljau.v — de Casteljau / Bernstein identities for Bezier control
   polygons of ARBITRARY degree (any non-empty list of control points), over an
   arbitrary carrier satisfying NumFieldOK (only the ring laws are used).

   Main results (all for every non-empty list p, every t, u):
     dc_step_bern           bern p t = bern (dc_step p t) t        (length p >= 2)
     split_meet_all         the last level of the triangle is the curve point, ends, lengths
     split_left_all         bern (fst (split_bezier p t)) u = bern p (u*t)
     split_right_all        bern (snd (split_bezier p t)) u = bern p (t + u*(1-t))
     bern_rev_all           bern (rev p) t = bern p (1-t)
     bezier_point_bern_all  bezier_point p t = bern p t
     bern_ends_all          bern p 0 = hd p, bern p 1 = last p
   Proof architecture: Pascal's rule gives the de Casteljau recurrence
   (dc_step_bern); everything else follows from it by induction on the number
   of control points together with three list facts about dc_step:
   dc_step commutes with itself (dc_step_comm), dc_step of a reversed polygon
   (dc_step_rev), and dc_step of the left polygon is the left polygon of a
   dc_step (left_step). *)
From Coq Require Import ZArith List Bool Field Lia Arith.
From SVP Require Import Base.Num Base.Cplx Base.FieldTac Model.Bezier Proofs.Choose.
Import ListNotations.

Section DC.
  Context {K : Type} (N : Num K) (OK : NumFieldOK N).
  Add Field KF : (Fth OK).

  Local Notation "x + y" := (cadd N x y).
  Local Notation "r ** z" := (cscale N r z) (at level 40, left associativity).
  Local Notation om t := (sub N (one N) t).
  Local Notation C0 := (c0 N).

  Ltac cring := cunfold; apply cplx_eq; cbn [fst snd]; ring.

  (* ------------------------------------------------------------------ *)
  (* literals of natural numbers                                         *)
  (* ------------------------------------------------------------------ *)
  Lemma of_pos_succ p : of_pos N (Pos.succ p) = add N (one N) (of_pos N p).
  Proof.
    induction p as [q IH|q IH|]; cbn [Pos.succ of_pos]; cbv zeta; rewrite ?IH; ring.
  Qed.

  Lemma lit_nat_S n : lit N (Z.of_nat (S n)) = add N (one N) (lit N (Z.of_nat n)).
  Proof.
    destruct n as [|n].
    - cbn. ring.
    - cbn [Z.of_nat Pos.of_succ_nat lit]. apply of_pos_succ.
  Qed.

  Lemma lit_nat_add a b :
    lit N (Z.of_nat (a + b)) = add N (lit N (Z.of_nat a)) (lit N (Z.of_nat b)).
  Proof.
    induction a as [|a IH].
    - cbn [Nat.add Z.of_nat lit]. ring.
    - change (S a + b)%nat with (S (a + b)). rewrite !lit_nat_S, IH. ring.
  Qed.

  (* ------------------------------------------------------------------ *)
  (* Bernstein basis: Pascal's rule                                      *)
  (* ------------------------------------------------------------------ *)
  Lemma basis_pascal n i t : (S i <= n)%nat ->
    bern_basis N (S n) (S i) t =
    add N (mul N t (bern_basis N n i t)) (mul N (om t) (bern_basis N n (S i) t)).
  Proof.
    intros H. unfold bern_basis. cbn [binom]. rewrite lit_nat_add.
    change (S n - S i)%nat with (n - i)%nat.
    replace (n - i)%nat with (S (n - S i)) by lia.
    cbn [npow]. ring.
  Qed.

  Lemma basis_top n t : bern_basis N (S n) (S n) t = mul N t (bern_basis N n n t).
  Proof.
    unfold bern_basis. rewrite !binom_n_n, !Nat.sub_diag. cbn [npow]. ring.
  Qed.

  Lemma basis_zero n t : bern_basis N (S n) 0 t = mul N (om t) (bern_basis N n 0 t).
  Proof.
    unfold bern_basis. rewrite !binom_n_0, !Nat.sub_0_r. cbn [npow]. ring.
  Qed.

  Lemma basis_00 t : bern_basis N 0 0 t = one N.
  Proof. unfold bern_basis. cbn. ring. Qed.

  (* ------------------------------------------------------------------ *)
  (* unfolding equations                                                 *)
  (* ------------------------------------------------------------------ *)
  Lemma bern_from_cons n i q p t :
    bern_from N n i (q :: p) t = bern_basis N n i t ** q + bern_from N n (S i) p t.
  Proof. reflexivity. Qed.

  Lemma dc_step_cons2 a b r t :
    dc_step N (a :: b :: r) t = (om t ** a + t ** b) :: dc_step N (b :: r) t.
  Proof. reflexivity. Qed.

  Lemma dc_step_one a t : dc_step N [a] t = [].
  Proof. reflexivity. Qed.

  Lemma length_dc_step p t : length (dc_step N p t) = (length p - 1)%nat.
  Proof.
    induction p as [|a p IH]; [reflexivity|].
    destruct p as [|b r]; [reflexivity|].
    rewrite dc_step_cons2. cbn [length]. rewrite IH. cbn [length]. lia.
  Qed.

  Lemma bern_single a t : bern N [a] t = a.
  Proof.
    unfold bern. cbn [length Nat.sub]. rewrite bern_from_cons. cbn [bern_from].
    rewrite basis_00. cring.
  Qed.

  (* ------------------------------------------------------------------ *)
  (* D1: the de Casteljau recurrence                                     *)
  (* ------------------------------------------------------------------ *)
  Lemma bern_from_step n t : forall q a i, (i + length q = n)%nat ->
    bern_from N (S n) (S i) (a :: q) t =
    mul N t (bern_basis N n i t) ** a + bern_from N n (S i) (dc_step N (a :: q) t) t.
  Proof.
    induction q as [|b r IH]; intros a i H.
    - cbn [length] in H. assert (i = n) by lia. subst i.
      rewrite dc_step_one, bern_from_cons. cbn [bern_from].
      rewrite basis_top. cring.
    - cbn [length] in H.
      rewrite bern_from_cons, (IH b (S i)) by lia.
      rewrite dc_step_cons2, bern_from_cons.
      rewrite basis_pascal by lia.
      generalize (bern_from N n (S (S i)) (dc_step N (b :: r) t) t). intros X.
      cring.
  Qed.

  Theorem dc_step_bern p t : (2 <= length p)%nat ->
    bern N p t = bern N (dc_step N p t) t.
  Proof.
    destruct p as [|a [|b r]]; cbn [length]; try lia. intros _.
    unfold bern. rewrite length_dc_step. cbn [length Nat.sub].
    rewrite Nat.sub_0_r.
    rewrite bern_from_cons, (bern_from_step (length r) t r b 0) by lia.
    rewrite dc_step_cons2, bern_from_cons, basis_zero.
    generalize (bern_from N (length r) 1 (dc_step N (b :: r) t) t). intros X.
    cring.
  Qed.

  (* ------------------------------------------------------------------ *)
  (* D7: end points                                                      *)
  (* ------------------------------------------------------------------ *)
  Lemma bern_zero_n : forall n p, length p = S n -> bern N p (zero N) = hd C0 p.
  Proof.
    induction n as [|n IH]; intros p H.
    - destruct p as [|a [|b r]]; try discriminate. apply bern_single.
    - destruct p as [|a [|b r]]; try discriminate.
      rewrite dc_step_bern by (cbn [length]; lia).
      rewrite IH by (rewrite length_dc_step, H; cbn; lia).
      rewrite dc_step_cons2. cbn [hd]. cring.
  Qed.

  Lemma last_dc_step_one : forall p a b,
    last (dc_step N (a :: b :: p) (one N)) C0 = last (a :: b :: p) C0.
  Proof.
    induction p as [|c r IH]; intros a b.
    - rewrite dc_step_cons2, dc_step_one. cbn [last]. cring.
    - rewrite dc_step_cons2.
      change (last (a :: b :: c :: r) C0) with (last (b :: c :: r) C0).
      rewrite <- IH. rewrite (dc_step_cons2 b c r). reflexivity.
  Qed.

  Lemma bern_one_n : forall n p, length p = S n -> bern N p (one N) = last p C0.
  Proof.
    induction n as [|n IH]; intros p H.
    - destruct p as [|a [|b r]]; try discriminate. apply bern_single.
    - destruct p as [|a [|b r]]; try discriminate.
      rewrite dc_step_bern by (cbn [length]; lia).
      rewrite IH by (rewrite length_dc_step, H; cbn; lia).
      apply last_dc_step_one.
  Qed.

  Theorem bern_ends_all p : p <> [] ->
    bern N p (zero N) = hd C0 p /\ bern N p (one N) = last p C0.
  Proof.
    intros Hp. destruct p as [|a r]; [congruence|]. split.
    - apply (bern_zero_n (length r)). reflexivity.
    - apply (bern_one_n (length r)). reflexivity.
  Qed.

  (* ------------------------------------------------------------------ *)
  (* D6: bezier_point                                                    *)
  (* ------------------------------------------------------------------ *)
  Theorem bezier_point_bern_all p t : p <> [] -> bezier_point N p t = bern N p t.
  Proof.
    intros Hp.
    destruct p as [|p0 [|p1 [|p2 [|p3 [|p4 r]]]]]; [congruence| | | | |reflexivity];
      unfold bezier_point, bern, bern_from, bern_basis;
      cbn [length Nat.sub binom Nat.add Z.of_nat Pos.of_succ_nat Pos.succ lit of_pos npow];
      cbv zeta; cring.
  Qed.

  (* ------------------------------------------------------------------ *)
  (* list facts about dc_step                                            *)
  (* ------------------------------------------------------------------ *)
  Lemma dc_step_comm : forall p s t,
    dc_step N (dc_step N p s) t = dc_step N (dc_step N p t) s.
  Proof.
    induction p as [|a p IH]; intros s t; [reflexivity|].
    destruct p as [|b [|c r]]; [reflexivity|reflexivity|].
    rewrite (dc_step_cons2 a b (c :: r) s), (dc_step_cons2 a b (c :: r) t).
    specialize (IH s t).
    rewrite (dc_step_cons2 b c r s), (dc_step_cons2 b c r t) in *.
    rewrite !dc_step_cons2 in *. rewrite IH. f_equal. cring.
  Qed.

  Lemma dc_step_snoc : forall q x y t,
    dc_step N (q ++ [x; y]) t = dc_step N (q ++ [x]) t ++ [om t ** x + t ** y].
  Proof.
    induction q as [|c q IH]; intros x y t; [reflexivity|].
    destruct q as [|d q].
    - reflexivity.
    - change ((c :: d :: q) ++ [x; y]) with (c :: d :: (q ++ [x; y])).
      change ((c :: d :: q) ++ [x]) with (c :: d :: (q ++ [x])).
      rewrite !dc_step_cons2.
      change (d :: q ++ [x; y]) with ((d :: q) ++ [x; y]).
      change (d :: q ++ [x]) with ((d :: q) ++ [x]).
      rewrite IH. reflexivity.
  Qed.

  Lemma dc_step_rev : forall p t,
    dc_step N (rev p) t = rev (dc_step N p (om t)).
  Proof.
    induction p as [|a p IH]; intros t; [reflexivity|].
    destruct p as [|b r]; [reflexivity|].
    rewrite dc_step_cons2.
    change (rev (a :: b :: r)) with ((rev r ++ [b]) ++ [a]).
    rewrite <- app_assoc. change ([b] ++ [a]) with [b; a].
    rewrite dc_step_snoc.
    change (rev r ++ [b]) with (rev (b :: r)). rewrite IH.
    cbn [rev]. f_equal. f_equal. cring.
  Qed.

  Lemma dc_step_param p s t : s = t -> dc_step N p s = dc_step N p t.
  Proof. intros ->; reflexivity. Qed.

  Lemma omom t : om (om t) = t.
  Proof. ring. Qed.

  Lemma dc_step_rev' p t : dc_step N (rev p) (om t) = rev (dc_step N p t).
  Proof. rewrite dc_step_rev, omom. reflexivity. Qed.

  (* ------------------------------------------------------------------ *)
  (* D5: reversal                                                        *)
  (* ------------------------------------------------------------------ *)
  Lemma bern_rev_n : forall n p t, length p = S n ->
    bern N (rev p) t = bern N p (om t).
  Proof.
    induction n as [|n IH]; intros p t H.
    - destruct p as [|a [|b r]]; try discriminate. cbn [rev app].
      rewrite !bern_single. reflexivity.
    - rewrite (dc_step_bern (rev p)) by (rewrite rev_length; lia).
      rewrite dc_step_rev.
      rewrite IH by (rewrite length_dc_step, H; cbn; lia).
      symmetry. apply dc_step_bern. lia.
  Qed.

  Theorem bern_rev_all p t : bern N (rev p) t = bern N p (om t).
  Proof.
    destruct p as [|a r]; [reflexivity|].
    apply (bern_rev_n (length r)). reflexivity.
  Qed.

  (* ------------------------------------------------------------------ *)
  (* the de Casteljau triangle, by recursion on the degree               *)
  (* ------------------------------------------------------------------ *)
  Fixpoint levels (n : nat) (p : list (Cplx K)) (t : K) : list (list (Cplx K)) :=
    match n with
    | O => [p]
    | S m => p :: levels m (dc_step N p t) t
    end.

  Lemma dc_levels_levels : forall n p f t, length p = S n -> (S n <= f)%nat ->
    dc_levels N f p t = levels n p t.
  Proof.
    induction n as [|n IH]; intros p f t H Hf.
    - destruct p as [|a [|b r]]; try discriminate.
      destruct f; [lia|]. reflexivity.
    - destruct p as [|a [|b r]]; try discriminate.
      destruct f as [|f]; [lia|].
      cbn [dc_levels levels]. f_equal.
      apply IH; [|lia]. rewrite length_dc_step, H. cbn; lia.
  Qed.

  Definition left_poly (n : nat) p t := map (fun l => hd C0 l) (levels n p t).
  Definition right_poly (n : nat) p t := rev (map (fun l => last l C0) (levels n p t)).

  Lemma split_bezier_polys p t : p <> [] ->
    split_bezier N p t =
    (left_poly (length p - 1) p t, right_poly (length p - 1) p t).
  Proof.
    intros Hp. destruct p as [|a r]; [congruence|].
    unfold split_bezier, left_poly, right_poly.
    rewrite (dc_levels_levels (length r) (a :: r) (length (a :: r)) t)
      by (cbn [length]; lia).
    cbn [length Nat.sub]. rewrite Nat.sub_0_r. reflexivity.
  Qed.

  Lemma levels_length n : forall p t, length (levels n p t) = S n.
  Proof. induction n as [|n IH]; intros; cbn [levels length]; [|rewrite IH]; reflexivity. Qed.

  Lemma levels_S n p t : levels (S n) p t = p :: levels n (dc_step N p t) t.
  Proof. reflexivity. Qed.

  Lemma levels_cons n p t : exists l, levels n p t = p :: l.
  Proof. destruct n; eexists; reflexivity. Qed.

  Lemma left_poly_S n p t :
    left_poly (S n) p t = hd C0 p :: left_poly n (dc_step N p t) t.
  Proof. reflexivity. Qed.

  Lemma left_poly_cons n p t : exists l, left_poly n p t = hd C0 p :: l.
  Proof. destruct n; eexists; reflexivity. Qed.

  Lemma left_poly_length n p t : length (left_poly n p t) = S n.
  Proof. unfold left_poly. rewrite map_length. apply levels_length. Qed.

  Lemma right_poly_length n p t : length (right_poly n p t) = S n.
  Proof. unfold right_poly. rewrite rev_length, map_length. apply levels_length. Qed.

  (* levels of the reversed polygon *)
  Lemma levels_rev : forall n p t,
    levels n (rev p) (om t) = map (@rev _) (levels n p t).
  Proof.
    induction n as [|n IH]; intros p t; [reflexivity|].
    cbn [levels map]. rewrite dc_step_rev', IH. reflexivity.
  Qed.

  Lemma hd_rev_last {A} (l : list A) d : hd d (rev l) = last l d.
  Proof.
    induction l as [|a l IH]; [reflexivity|].
    cbn [rev]. destruct l as [|b l]; [reflexivity|].
    change (last (a :: b :: l) d) with (last (b :: l) d). rewrite <- IH.
    cbn [rev]. destruct (rev l); reflexivity.
  Qed.

  Lemma last_rev_hd {A} (l : list A) d : last (rev l) d = hd d l.
  Proof.
    rewrite <- (rev_involutive l) at 2. rewrite hd_rev_last. reflexivity.
  Qed.

  Lemma right_poly_left n p t :
    right_poly n p t = rev (left_poly n (rev p) (om t)).
  Proof.
    unfold right_poly, left_poly. rewrite levels_rev, map_map. f_equal.
    apply map_ext. intros l. symmetry. apply hd_rev_last.
  Qed.

  (* ------------------------------------------------------------------ *)
  (* D3: the left polygon                                                *)
  (* ------------------------------------------------------------------ *)
  Lemma left_step : forall n p t u, length p = S (S n) ->
    dc_step N (left_poly (S n) p t) u = left_poly n (dc_step N p (mul N u t)) t.
  Proof.
    induction n as [|n IH]; intros p t u H.
    - destruct p as [|a [|b [|c r]]]; try discriminate.
      unfold left_poly. cbn [levels map hd dc_step]. f_equal. cring.
    - destruct p as [|a [|b [|c r]]]; try discriminate.
      rewrite left_poly_S.
      assert (H1 : length (dc_step N (a :: b :: c :: r) t) = S (S n))
        by (rewrite length_dc_step, H; cbn; lia).
      specialize (IH _ t u H1).
      destruct (left_poly_cons (S n) (dc_step N (a :: b :: c :: r) t) t) as [l Hl].
      rewrite Hl in *. rewrite dc_step_cons2, IH.
      rewrite (left_poly_S n). rewrite dc_step_comm. f_equal.
      rewrite !dc_step_cons2. cbn [hd]. cring.
  Qed.

  Lemma left_bern_n : forall n p t u, length p = S n ->
    bern N (left_poly n p t) u = bern N p (mul N u t).
  Proof.
    induction n as [|n IH]; intros p t u H.
    - destruct p as [|a [|b r]]; try discriminate.
      unfold left_poly. cbn [levels map hd]. rewrite !bern_single. reflexivity.
    - rewrite dc_step_bern by (rewrite left_poly_length; lia).
      rewrite left_step by assumption.
      rewrite IH by (rewrite length_dc_step, H; cbn; lia).
      symmetry. apply dc_step_bern. lia.
  Qed.

  Theorem split_left_all p t u : p <> [] ->
    bern N (fst (split_bezier N p t)) u = bern N p (mul N u t).
  Proof.
    intros Hp. rewrite split_bezier_polys by assumption. cbn [fst].
    apply left_bern_n. destruct p; [congruence|]. cbn [length]. lia.
  Qed.

  (* ------------------------------------------------------------------ *)
  (* D4: the right polygon                                               *)
  (* ------------------------------------------------------------------ *)
  Lemma bern_param p s t : s = t -> bern N p s = bern N p t.
  Proof. intros ->; reflexivity. Qed.

  Theorem split_right_all p t u : p <> [] ->
    bern N (snd (split_bezier N p t)) u =
    bern N p (add N t (mul N u (om t))).
  Proof.
    intros Hp. rewrite split_bezier_polys by assumption. cbn [snd].
    rewrite right_poly_left, bern_rev_all.
    rewrite left_bern_n
      by (rewrite rev_length; destruct p; [congruence|]; cbn [length]; lia).
    rewrite bern_rev_all. apply bern_param. ring.
  Qed.

  (* ------------------------------------------------------------------ *)
  (* D2: the two halves meet at the curve point; ends; lengths           *)
  (* ------------------------------------------------------------------ *)
  Lemma left_last_n : forall n p t, length p = S n ->
    last (left_poly n p t) C0 = bern N p t.
  Proof.
    induction n as [|n IH]; intros p t H.
    - destruct p as [|a [|b r]]; try discriminate.
      unfold left_poly. cbn [levels map hd last]. symmetry. apply bern_single.
    - rewrite left_poly_S.
      destruct (left_poly_cons n (dc_step N p t) t) as [l Hl].
      assert (E : last (hd C0 p :: left_poly n (dc_step N p t) t) C0
                  = last (left_poly n (dc_step N p t) t) C0)
        by (rewrite Hl; reflexivity).
      rewrite E, IH by (rewrite length_dc_step, H; cbn; lia).
      symmetry. apply dc_step_bern. lia.
  Qed.

  Theorem split_meet_all p t : p <> [] ->
    last (fst (split_bezier N p t)) C0 = bern N p t /\
    hd C0 (snd (split_bezier N p t)) = bern N p t /\
    hd C0 (fst (split_bezier N p t)) = hd C0 p /\
    last (snd (split_bezier N p t)) C0 = last p C0 /\
    length (fst (split_bezier N p t)) = length p /\
    length (snd (split_bezier N p t)) = length p.
  Proof.
    intros Hp. rewrite split_bezier_polys by assumption. cbn [fst snd].
    assert (HL : length p = S (length p - 1))
      by (destruct p; [congruence|]; cbn [length]; lia).
    set (n := (length p - 1)%nat) in *.
    repeat split.
    - apply left_last_n. assumption.
    - rewrite right_poly_left, hd_rev_last.
      rewrite left_last_n by (rewrite rev_length; assumption).
      rewrite bern_rev_all. apply bern_param. apply omom.
    - destruct (left_poly_cons n p t) as [l Hl]. rewrite Hl. reflexivity.
    - rewrite right_poly_left, last_rev_hd.
      destruct (left_poly_cons n (rev p) (om t)) as [l Hl]. rewrite Hl. cbn [hd].
      apply hd_rev_last.
    - rewrite left_poly_length. symmetry. assumption.
    - rewrite right_poly_length. symmetry. assumption.
  Qed.

End DC.
