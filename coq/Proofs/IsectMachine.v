(* Proofs/IsectMachine.v — structural facts about the list/state-machine parts
   of the intersection code, for an ARBITRARY carrier (no algebraic law is
   used, so they hold verbatim for binary64):
     * the BPair worklist of bezier_intersections (any fuel, any bbox function),
     * the de-duplication of polyroots as coded,
     * Path.intersect (collection, index(), joint de-duplication). *)
From Coq Require Import ZArith List Bool Arith Lia Field.
From SVP Require Import Base.Num Base.Cplx Base.Poly Model.Bezier Model.BezierN Model.Isect
     Proofs.IsectAlg Proofs.Roots.
Import ListNotations.

Section Machine.
  Context {K : Type} (N : Num K).
  Local Notation C := (Cplx K).
  Variable rm_fixed : bool.        (* false: pinned remove-while-iterating; true: repaired loop *)
  Variable bx_fixed : bool.        (* false: open boxes + area stop; true: closed boxes + extent stop *)
  Variable mg_fixed : bool.        (* true: one solution per group of neighbouring cells *)
  Variable bbox : list C -> box (K:=K).
  Variables tol tol_deC ext : K.
  Variable bez1 : list C.

  Local Notation boxes_ok := (boxes_ok N bx_fixed bbox).
  Local Notation small := (small N bx_fixed bbox tol_deC ext).
  Local Notation level_loop := (level_loop N bx_fixed bbox tol tol_deC ext bez1).
  Local Notation level_loop_fixed := (level_loop_fixed N bx_fixed bbox tol tol_deC ext bez1).
  Local Notation level := (level N rm_fixed bx_fixed bbox tol tol_deC ext bez1).

  (* ---------------- list surgery ---------------- *)
  Lemma remove_nth_incl {A} n (l : list A) x : In x (remove_nth n l) -> In x l.
  Proof.
    revert n; induction l as [|a l IH]; intros [|n]; cbn; try tauto.
    intros [H|H]; [left; exact H|right; eapply IH; exact H].
  Qed.
  Lemma remove_nth_length {A} n (l : list A) : (length (remove_nth n l) <= length l)%nat.
  Proof. revert n; induction l as [|a l IH]; intros [|n]; cbn; auto. specialize (IH n). lia. Qed.

  Lemma inner_remove_incl f pr l j x : In x (inner_remove N f pr l j) -> In x l.
  Proof.
    revert l j; induction f as [|f IH]; intros l j; cbn; [tauto|].
    destruct (nth_error l j) as [o|]; [|tauto].
    destruct (related N pr o).
    - intros H. apply IH in H. eapply remove_nth_incl; eauto.
    - apply IH.
  Qed.

  (* ---------------- one level: an invariant principle ---------------- *)
  Section Inv.
    Variable Pcur Pnext : bpair (K:=K) -> Prop.
    Variable W : K * K -> Prop.
    Variable delta : K.
    Hypothesis Hchild : forall p q, Pcur p -> In q (children N delta p) -> Pnext q.
    Hypothesis Hrep : forall p, Pcur p -> boxes_ok p = true -> small p = true -> W (bt1 p, bt2 p).

    Definition inv (st : lstate (K:=K)) : Prop :=
      (forall q, In q (ls_new st) -> Pnext q) /\ (forall tt, In tt (ls_out st) -> W tt).

    Lemma level_loop_inv f l i st :
      (forall p, In p l -> Pcur p) -> inv st -> inv (level_loop f delta l i st).
    Proof.
      revert l i st. induction f as [|f IH]; intros l i st Hl Hst; cbn; auto.
      destruct (nth_error l i) as [pr|] eqn:Hn; auto.
      assert (Hpr : Pcur pr) by (apply Hl; eapply nth_error_In; eauto).
      destruct (boxes_ok pr) eqn:Hb.
      - destruct (small pr) eqn:Hs.
        + apply IH.
          * intros p Hp. apply Hl. eapply inner_remove_incl; eauto.
          * destruct (approx_mem N tol (bezier_point N bez1 (bt1 pr)) (ls_seen st)); auto.
            destruct Hst as [H1 H2]. split; cbn; auto.
            intros tt Ht. apply in_app_or in Ht. destruct Ht as [Ht|[<-|[]]]; auto.
        + apply IH; auto. destruct Hst as [H1 H2]. split; cbn; auto.
          intros q Hq. apply in_app_or in Hq. destruct Hq as [Hq|Hq]; auto.
          eapply Hchild; eauto.
      - apply IH; auto.
    Qed.

    Lemma level_loop_fixed_inv f l i red st :
      (forall p, In p l -> Pcur p) -> inv st -> inv (level_loop_fixed f delta l i red st).
    Proof.
      revert i red st. induction f as [|f IH]; intros i red st Hl Hst; cbn; auto.
      destruct (nth_error l i) as [pr|] eqn:Hn; auto.
      assert (Hpr : Pcur pr) by (apply Hl; eapply nth_error_In; eauto).
      destruct (existsb (Nat.eqb i) red); [apply IH; auto|].
      destruct (boxes_ok pr) eqn:Hb; [|apply IH; auto].
      destruct (small pr) eqn:Hs.
      - apply IH; auto.
        destruct (approx_mem N tol (bezier_point N bez1 (bt1 pr)) (ls_seen st)); auto.
        destruct Hst as [H1 H2]. split; cbn; auto.
        intros tt Ht. apply in_app_or in Ht. destruct Ht as [Ht|[<-|[]]]; auto.
      - apply IH; auto. destruct Hst as [H1 H2]. split; cbn; auto.
        intros q Hq. apply in_app_or in Hq. destruct Hq as [Hq|Hq]; auto.
        eapply Hchild; eauto.
    Qed.

    Lemma level_inv k l out seen : delta = npow N (half N) (k + 2) ->
      (forall p, In p l -> Pcur p) -> inv (mkLS [] out seen) -> inv (level k l out seen).
    Proof.
      intros E Hl H0. unfold Isect.level. rewrite <- E. destruct rm_fixed.
      - apply level_loop_fixed_inv; assumption.
      - apply level_loop_inv; assumption.
    Qed.
  End Inv.

  (* output and seen set only grow *)
  Lemma level_loop_mono f delta l i st :
    incl (ls_out st) (ls_out (level_loop f delta l i st))
    /\ incl (ls_seen st) (ls_seen (level_loop f delta l i st)).
  Proof.
    revert l i st. induction f as [|f IH]; intros l i st; cbn.
    { split; apply incl_refl. }
    destruct (nth_error l i) as [pr|]; [|split; apply incl_refl].
    destruct (boxes_ok pr); [|apply IH].
    destruct (small pr).
    - match goal with |- context [level_loop f delta ?l' ?i' ?st'] =>
        destruct (IH l' i' st') as [A B] end.
      destruct (approx_mem N tol (bezier_point N bez1 (bt1 pr)) (ls_seen st)); [split; assumption|].
      cbn in A, B. split; intros x Hx; [apply A|apply B]; apply in_or_app; auto.
    - match goal with |- context [level_loop f delta ?l' ?i' ?st'] =>
        destruct (IH l' i' st') as [A B] end. cbn in A, B. split; assumption.
  Qed.

  Lemma level_loop_fixed_mono f delta l i red st :
    incl (ls_new st) (ls_new (level_loop_fixed f delta l i red st))
    /\ incl (ls_out st) (ls_out (level_loop_fixed f delta l i red st))
    /\ incl (ls_seen st) (ls_seen (level_loop_fixed f delta l i red st)).
  Proof.
    revert i red st. induction f as [|f IH]; intros i red st; cbn.
    { repeat split; apply incl_refl. }
    destruct (nth_error l i) as [pr|]; [|repeat split; apply incl_refl].
    destruct (existsb (Nat.eqb i) red); [apply IH|].
    destruct (boxes_ok pr); [|apply IH].
    destruct (small pr).
    - match goal with |- context [level_loop_fixed f delta l ?i' ?r' ?st'] =>
        destruct (IH i' r' st') as (A & B & D) end.
      destruct (approx_mem N tol (bezier_point N bez1 (bt1 pr)) (ls_seen st)); [repeat split; assumption|].
      cbn in A, B, D. repeat split; [exact A|..]; intros x Hx; [apply B|apply D]; apply in_or_app; auto.
    - match goal with |- context [level_loop_fixed f delta l ?i' ?r' ?st'] =>
        destruct (IH i' r' st') as (A & B & D) end.
      cbn in A, B, D. repeat split; try assumption. intros x Hx. apply A. apply in_or_app; auto.
  Qed.

  (* the FIRST pair of a level is always examined: if its boxes intersect and
     are small, then its point is in the approximate solution set afterwards
     (reported now, or within tol of a point reported earlier); both variants *)
  Lemma level_head_reported k p r out seen :
    boxes_ok p = true -> small p = true ->
    let st := level k (p :: r) out seen in
    approx_mem N tol (bezier_point N bez1 (bt1 p)) seen = true
    \/ (In (bt1 p, bt2 p) (ls_out st) /\ In (bezier_point N bez1 (bt1 p)) (ls_seen st)).
  Proof.
    intros Hb Hs st. unfold st, Isect.level. destruct rm_fixed.
    - cbn [length Isect.level_loop_fixed nth_error existsb].
      rewrite Hb, Hs. cbn [ls_seen ls_out ls_new].
      destruct (approx_mem N tol (bezier_point N bez1 (bt1 p)) seen) eqn:Hm; [left; reflexivity|right].
      match goal with |- context [level_loop_fixed ?f ?d ?l' ?i' ?r' ?st'] =>
        destruct (level_loop_fixed_mono f d l' i' r' st') as (_ & A & B) end.
      cbn in A, B. split; [apply A|apply B]; apply in_or_app; right; left; reflexivity.
    - cbn [length Isect.level_loop nth_error].
      rewrite Hb, Hs. cbn [ls_seen ls_out ls_new].
      destruct (approx_mem N tol (bezier_point N bez1 (bt1 p)) seen) eqn:Hm; [left; reflexivity|right].
      match goal with |- context [level_loop ?f ?d ?l' ?i' ?st'] =>
        destruct (level_loop_mono f d l' i' st') as [A B] end.
      cbn in A, B. split; [apply A|apply B]; apply in_or_app; right; left; reflexivity.
  Qed.

  Lemma skipn_cons_nth {A} (l : list A) i x : nth_error l i = Some x -> skipn i l = x :: skipn (S i) l.
  Proof.
    revert i. induction l as [|a l IHl]; intros [|i] Hn; cbn in *; try discriminate.
    - injection Hn as ->. reflexivity.
    - apply IHl; assumption.
  Qed.

  (* a level on which no pair is reported: nothing is skipped, every pair with
     intersecting boxes is replaced by its four children, in order *)
  Lemma level_loop_quiet f delta l i st :
    (forall p, In p l -> boxes_ok p = true -> small p = false) ->
    (length l - i <= f)%nat ->
    level_loop f delta l i st
    = mkLS (ls_new st ++ flat_map (children N delta) (filter boxes_ok (skipn i l))) (ls_out st) (ls_seen st).
  Proof.
    revert i st. induction f as [|f IH]; intros i st Hq Hf.
    - cbn. assert (Hi : (length l <= i)%nat) by lia. rewrite (skipn_all2 _ Hi). cbn.
      rewrite app_nil_r. destruct st; reflexivity.
    - cbn. destruct (nth_error l i) as [pr|] eqn:Hn.
      + assert (Hin : In pr l) by (eapply nth_error_In; eauto).
        rewrite (skipn_cons_nth _ _ _ Hn). cbn [filter].
        destruct (boxes_ok pr) eqn:Hb.
        * rewrite (Hq pr Hin Hb). rewrite IH by (auto; lia). cbn [ls_new ls_out ls_seen flat_map].
          rewrite <- app_assoc. reflexivity.
        * rewrite IH by (auto; lia). reflexivity.
      + apply nth_error_None in Hn. rewrite (skipn_all2 _ Hn). cbn. rewrite app_nil_r.
        destruct st; reflexivity.
  Qed.
  Lemma level_loop_fixed_quiet f delta l i st :
    (forall p, In p l -> boxes_ok p = true -> small p = false) ->
    (length l - i <= f)%nat ->
    level_loop_fixed f delta l i [] st
    = mkLS (ls_new st ++ flat_map (children N delta) (filter boxes_ok (skipn i l))) (ls_out st) (ls_seen st).
  Proof.
    revert i st. induction f as [|f IH]; intros i st Hq Hf.
    - cbn. assert (Hi : (length l <= i)%nat) by lia. rewrite (skipn_all2 _ Hi). cbn.
      rewrite app_nil_r. destruct st; reflexivity.
    - cbn. destruct (nth_error l i) as [pr|] eqn:Hn.
      + assert (Hin : In pr l) by (eapply nth_error_In; eauto).
        rewrite (skipn_cons_nth _ _ _ Hn). cbn [filter].
        destruct (boxes_ok pr) eqn:Hb.
        * rewrite (Hq pr Hin Hb). rewrite IH by (auto; lia). cbn [ls_new ls_out ls_seen flat_map].
          rewrite <- app_assoc. reflexivity.
        * rewrite IH by (auto; lia). reflexivity.
      + apply nth_error_None in Hn. rewrite (skipn_all2 _ Hn). cbn. rewrite app_nil_r.
        destruct st; reflexivity.
  Qed.
  Corollary level_quiet k l out seen :
    (forall p, In p l -> boxes_ok p = true -> small p = false) ->
    level k l out seen
    = mkLS (flat_map (children N (npow N (half N) (k + 2))) (filter boxes_ok l)) out seen.
  Proof.
    intros Hq. unfold Isect.level. destruct rm_fixed.
    - rewrite level_loop_fixed_quiet by (auto; lia). reflexivity.
    - rewrite level_loop_quiet by (auto; lia). reflexivity.
  Qed.

  (* ---------------- the repaired loop skips nothing ---------------- *)
  Lemma related_idx_spec pr l j0 j : In j (related_idx N pr l j0) ->
    exists o, nth_error l (j - j0) = Some o /\ related N pr o = true /\ (j0 <= j)%nat.
  Proof.
    revert j0. induction l as [|a l IH]; intros j0; cbn; [intros []|].
    destruct (related N pr a) eqn:E.
    - intros [<-|H].
      + exists a. rewrite Nat.sub_diag. auto.
      + destruct (IH (S j0) H) as (o & Hn & Hr & Hle). exists o.
        replace (j - j0)%nat with (S (j - S j0)) by lia. cbn. repeat split; auto. lia.
    - intros H. destruct (IH (S j0) H) as (o & Hn & Hr & Hle). exists o.
      replace (j - j0)%nat with (S (j - S j0)) by lia. cbn. repeat split; auto. lia.
  Qed.

  (* every redundancy mark comes from an EXAMINED small pair with intersecting boxes *)
  Definition marks_ok (l : list (bpair (K:=K))) (i : nat) (red : list nat) : Prop :=
    forall j, In j red -> exists k q o, (k < i)%nat /\ nth_error l k = Some q /\ boxes_ok q = true
                                   /\ small q = true /\ nth_error l j = Some o /\ related N q o = true.

  (* a pair (position t) with intersecting boxes that is not yet small and is not
     related to any reportable pair of the level is subdivided: its four children
     are in the next pair list — whatever else happens on the level *)
  Lemma level_loop_fixed_children f delta l i red st t p :
    marks_ok l i red -> (i <= t)%nat -> (length l - i <= f)%nat ->
    nth_error l t = Some p -> boxes_ok p = true -> small p = false ->
    (forall k q, nth_error l k = Some q -> boxes_ok q = true -> small q = true -> related N q p = false) ->
    incl (children N delta p) (ls_new (level_loop_fixed f delta l i red st)).
  Proof.
    revert i red st. induction f as [|f IH]; intros i red st Hm Hit Hf Hn Hb Hs Hunrel.
    { exfalso. assert (nth_error l t <> None) by congruence. apply nth_error_Some in H. lia. }
    cbn. destruct (nth_error l i) as [pr|] eqn:Hi.
    2:{ exfalso. apply nth_error_None in Hi. assert (nth_error l t <> None) by congruence.
        apply nth_error_Some in H. lia. }
    assert (Hstep : forall red', marks_ok l (S i) red' -> forall st', (S i <= t)%nat ->
              incl (children N delta p) (ls_new (level_loop_fixed f delta l (S i) red' st'))).
    { intros red' Hm' st' Hlt. apply IH; auto. lia. }
    assert (Hm_S : marks_ok l (S i) red).
    { intros j Hj. destruct (Hm j Hj) as (k & q & o & Hk & R). exists k, q, o. split; [lia|exact R]. }
    destruct (Nat.eq_dec i t) as [->|Hne].
    - rewrite Hn in Hi. injection Hi as <-.
      destruct (existsb (Nat.eqb t) red) eqn:E.
      { exfalso. apply existsb_exists in E. destruct E as [j [Hj Ej]]. apply Nat.eqb_eq in Ej. subst j.
        destruct (Hm t Hj) as (k & q & o & Hk & Hq & Hbq & Hsq & Ho & Hr).
        rewrite Hn in Ho. injection Ho as <-. rewrite (Hunrel k q Hq Hbq Hsq) in Hr. discriminate. }
      rewrite Hb, Hs.
      match goal with |- context [level_loop_fixed f delta l ?i' ?r' ?st'] =>
        destruct (level_loop_fixed_mono f delta l i' r' st') as (A & _) end.
      cbn in A. intros x Hx. apply A. apply in_or_app; auto.
    - assert (Hlt : (S i <= t)%nat) by lia.
      destruct (existsb (Nat.eqb i) red); [apply Hstep; auto|].
      destruct (boxes_ok pr) eqn:Hbp; [|apply Hstep; auto].
      destruct (small pr) eqn:Hsp; [|apply Hstep; auto].
      apply Hstep; auto.
      intros j Hj. apply in_app_or in Hj. destruct Hj as [Hj|Hj].
      + destruct (Hm j Hj) as (k & q & o & Hk & R). exists k, q, o. split; [lia|exact R].
      + destruct (related_idx_spec _ _ _ _ Hj) as (o & Ho & Hr & _). rewrite Nat.sub_0_r in Ho.
        exists i, pr, o. repeat split; auto.
  Qed.

  Theorem level_fixed_no_skip k l out seen t p : rm_fixed = true ->
    nth_error l t = Some p -> boxes_ok p = true -> small p = false ->
    (forall j q, nth_error l j = Some q -> boxes_ok q = true -> small q = true -> related N q p = false) ->
    incl (children N (npow N (half N) (k + 2)) p) (ls_new (level k l out seen)).
  Proof.
    intros -> Hn Hb Hs Hu. unfold Isect.level.
    apply (level_loop_fixed_children (length l) _ l 0 [] _ t p); auto; try lia.
    intros j [].
  Qed.

  (* ---------------- all levels ---------------- *)
  Variable bez2 : list C.

  Definition pair_ok (k : nat) (p : bpair (K:=K)) : Prop :=
    sub_of N bez1 (bp1 p) (bt1 p) k /\ sub_of N bez2 (bp2 p) (bt2 p) k.

  (* what a reported pair is guaranteed to be: the centre pair of two sub-curves (k halvings)
     whose boxes intersect and are "small" in the sense of the variant *)
  Definition witnessed (tt : K * K) : Prop :=
    exists b1 b2 k,
      sub_of N bez1 b1 (fst tt) k /\ sub_of N bez2 b2 (snd tt) k
      /\ if bx_fixed
         then boxes_intersect_closed N (bbox b1) (bbox b2) = true
              /\ ltb N (box_extent N (bbox b1)) ext = true /\ ltb N (box_extent N (bbox b2)) ext = true
         else boxes_intersect N (bbox b1) (bbox b2) = true
              /\ ltb N (box_area N (bbox b1)) tol_deC = true /\ ltb N (box_area N (bbox b2)) tol_deC = true.

  Lemma children_ok k p q : pair_ok k p -> In q (children N (npow N (half N) (k + 2)) p) -> pair_ok (S k) q.
  Proof.
    intros [H1 H2]. unfold children.
    destruct (halve_bezier N (bp1 p)) as [c11 c12] eqn:E1.
    destruct (halve_bezier N (bp2 p)) as [c21 c22] eqn:E2.
    assert (A1 : c11 = fst (halve_bezier N (bp1 p))) by (rewrite E1; reflexivity).
    assert (A2 : c12 = snd (halve_bezier N (bp1 p))) by (rewrite E1; reflexivity).
    assert (B1 : c21 = fst (halve_bezier N (bp2 p))) by (rewrite E2; reflexivity).
    assert (B2 : c22 = snd (halve_bezier N (bp2 p))) by (rewrite E2; reflexivity).
    cbn [In]. intros [<-|[<-|[<-|[<-|[]]]]]; split; cbn [bp1 bp2 bt1 bt2]; subst;
      first [apply sub_left; assumption | apply sub_right; assumption].
  Qed.

  Lemma bi_levels_witness n k l out hs seen res hs' :
    (forall p, In p l -> pair_ok k p) -> (forall tt, In tt out -> witnessed tt) ->
    bi_levels N rm_fixed bx_fixed bbox tol tol_deC ext bez1 n k l out hs seen = IOk (res, hs') ->
    forall tt, In tt res -> witnessed tt.
  Proof.
    revert k l out hs seen. induction n as [|n IH]; intros k l out hs seen Hl Ho; cbn; [discriminate|].
    destruct l as [|p0 l0].
    { intros E; injection E as <- _. exact Ho. }
    set (l := p0 :: l0) in *.
    assert (Hrep : forall p, pair_ok k p -> boxes_ok p = true -> small p = true -> witnessed (bt1 p, bt2 p)).
    { intros p [H1 H2] Hb Hs. exists (bp1 p), (bp2 p), k. cbn [fst snd].
      unfold Isect.small in Hs. unfold Isect.boxes_ok in Hb. split; [exact H1|split; [exact H2|]].
      destruct bx_fixed; apply andb_prop in Hs; destruct Hs; repeat split; auto. }
    assert (I0 : inv (pair_ok (S k)) witnessed (mkLS [] out seen)).
    { split; cbn; auto. intros q []. }
    pose proof (@level_inv (pair_ok k) (pair_ok (S k)) witnessed (npow N (half N) (k + 2))
                  (children_ok k) Hrep k l out seen eq_refl Hl I0) as [L1 L2].
    intros E. eapply IH; [| |exact E]; assumption.
  Qed.

  (* merging returns members of what was found *)
  Local Notation merge_into := (merge_into N).
  Definition all_in (P : sol (K:=K) -> Prop) (groups : list (list (sol (K:=K)))) : Prop :=
    forall g, In g groups -> forall x, In x g -> P x.
  Lemma merge_into_all P f groups : all_in P groups -> P f -> all_in P (merge_into f groups).
  Proof.
    induction groups as [|g r IH]; intros Ha Hf; cbn.
    - intros g' [<-|[]] x [<-|[]]. exact Hf.
    - destruct (is_hit N f g).
      + intros g' [<-|Hg] x Hx.
        * apply in_app_or in Hx. destruct Hx as [Hx|Hx]; [apply (Ha g (or_introl eq_refl)); exact Hx|].
          cbn in Hx. destruct Hx as [<-|Hx]; [exact Hf|].
          apply in_concat in Hx. destruct Hx as [g2 [Hg2 Hx]]. apply filter_In in Hg2.
          apply (Ha g2 (or_intror (proj1 Hg2))); exact Hx.
        * apply filter_In in Hg. apply (Ha g' (or_intror (proj1 Hg))); exact Hx.
      + intros g' [<-|Hg] x Hx.
        * apply (Ha g (or_introl eq_refl)); exact Hx.
        * apply (IH (fun g0 H0 => Ha g0 (or_intror H0)) Hf g' Hg x Hx).
  Qed.
  Lemma best_of_in bz cur g : best_of N bez1 bz cur g = cur \/ In (best_of N bez1 bz cur g) g.
  Proof.
    revert cur. induction g as [|f r IH]; intros cur; cbn; [left; reflexivity|].
    destruct (ltb N (sol_resid2 N bez1 bz f) (sol_resid2 N bez1 bz cur)).
    - destruct (IH f) as [->|H]; [right; left; reflexivity|right; right; exact H].
    - destruct (IH cur) as [->|H]; [left; reflexivity|right; right; exact H].
  Qed.
  Lemma merge_solutions_incl found tt :
    In tt (merge_solutions N bez1 bez2 found) -> exists h, In (tt, h) found.
  Proof.
    unfold merge_solutions. intros H. apply in_flat_map in H. destruct H as [g [Hg Ht]].
    assert (A : all_in (fun x => In x found) (fold_left (fun gs f => merge_into f gs) found [])).
    { assert (G : forall l gs, all_in (fun x => In x found) gs -> incl l found ->
                  all_in (fun x => In x found) (fold_left (fun gs f => merge_into f gs) l gs)).
      { induction l as [|f l IHl]; intros gs Hgs Hi; cbn; [exact Hgs|].
        apply IHl; [apply merge_into_all; [exact Hgs|apply Hi; left; reflexivity]|].
        intros x Hx. apply Hi. right; exact Hx. }
      apply G; [intros g0 []|apply incl_refl]. }
    destruct g as [|f r]; [destruct Ht|]. destruct Ht as [<-|[]].
    destruct (best_of_in bez2 f r) as [E|E].
    - rewrite E. destruct f as [tt0 h]. exists h. apply (A _ Hg). left; reflexivity.
    - destruct (best_of N bez1 bez2 f r) as [tt0 h] eqn:Eb. exists h. apply (A _ Hg). right. exact E.
  Qed.

  (* C11_subdiv_witness *)
  Theorem subdiv_witness maxits res :
    bezier_intersections N rm_fixed bx_fixed mg_fixed bbox tol tol_deC ext bez1 maxits bez2 = IOk res ->
    forall tt, In tt res -> witnessed tt.
  Proof.
    unfold bezier_intersections.
    destruct (bi_levels N rm_fixed bx_fixed bbox tol tol_deC ext bez1 maxits 0
                [mkBP bez1 bez2 (half N) (half N)] [] [] []) as [[out hs]| | |] eqn:E; try discriminate.
    intros R; injection R as <-. intros tt Ht.
    assert (W : forall tt, In tt out -> witnessed tt).
    { eapply bi_levels_witness; [| |exact E].
      - intros p [<-|[]]. split; cbn; apply sub_root.
      - intros t0 []. }
    destruct mg_fixed; [|apply W; exact Ht].
    apply merge_solutions_incl in Ht. destruct Ht as [h Hh]. apply in_combine_l in Hh. apply W; exact Hh.
  Qed.
End Machine.

(* ------------------------------------------------------------------ *)
Section Roots.
  Context {K : Type} (N : Num K).

  Lemma drop_indices_nil (l : list K) i : drop_indices i [] l = l.
  Proof. revert i; induction l as [|a l IH]; intros i; cbn; auto. rewrite IH; reflexivity. Qed.

  Lemma close_pair_indices_none rtol atol ps i :
    (forall r1 r2, In (r1, r2) ps -> isclose N rtol atol r1 r2 = false) ->
    close_pair_indices N rtol atol i ps = [].
  Proof.
    revert i; induction ps as [|[r1 r2] ps IH]; intros i H; cbn; auto.
    rewrite (H r1 r2) by (left; reflexivity). apply IH. intros; apply H; right; assumption.
  Qed.

  (* when no two roots are close, the (mis-indexed) de-duplication is the identity *)
  Lemma dedup_noclose rtol atol roots :
    (forall r1 r2, In (r1, r2) (combinations2 roots) -> isclose N rtol atol r1 r2 = false) ->
    dedup_as_coded N rtol atol roots = roots.
  Proof.
    intros H. unfold dedup_as_coded, dedup_coded. rewrite close_pair_indices_none by exact H.
    apply drop_indices_nil.
  Qed.

  (* repaired variant: a root of the filtered list that is not close to an
     EARLIER one is returned by polyroots01 (exactly once) *)
  Lemma polyroots01_fixed_keeps rtol atol raw l1 t l2 :
    filter (in01 N) (map fst (filter (fun z => isclose N rtol atol (snd z) (zero N)) raw)) = l1 ++ t :: l2 ->
    (forall y, In y l1 -> isclose N rtol atol y t = false) -> isclose N rtol atol t t = true ->
    In t (polyroots01_of N true rtol atol raw).
  Proof.
    intros E Hiso Hrefl. unfold polyroots01_of, polyroots01, polyroots. cbv zeta.
    change (fun r : K => leb N (zero N) r && leb N r (one N)) with (in01 N). rewrite E.
    destruct (dedup_fixed_keeps_isolated N rtol atol l1 t l2 Hiso Hrefl) as (o1 & o2 & -> & _).
    apply in_or_app; right; left; reflexivity.
  Qed.

  Hypothesis Heqb : forall x y : K, eqb N x y = true <-> x = y.

  Lemma existsb_eqb_In x l : existsb (eqb N x) l = true <-> In x l.
  Proof.
    rewrite existsb_exists. split.
    - intros [y [Hy E]]. apply Heqb in E. subst; assumption.
    - intros H. exists x. split; auto. apply Heqb; reflexivity.
  Qed.
  Lemma nodupb_In x l : In x (nodupb N l) <-> In x l.
  Proof.
    induction l as [|a l IH]; cbn; [tauto|].
    destruct (existsb (eqb N a) l) eqn:E.
    - apply existsb_eqb_In in E. rewrite IH. split; auto. intros [<-|H]; auto.
    - cbn. rewrite IH. tauto.
  Qed.
  Lemma nodupb_NoDup l : NoDup (nodupb N l).
  Proof.
    induction l as [|a l IH]; cbn; [constructor|].
    destruct (existsb (eqb N a) l) eqn:E; auto.
    constructor; auto. rewrite nodupb_In. intros H. apply existsb_eqb_In in H. congruence.
  Qed.

  (* set(roots) + the x-range filter: each root is used at most once, and a
     root whose x-value passes the test is reported *)
  Lemma bl_select_complete len bez l0 l1 roots t :
    In t roots ->
    leb N (zero N) (bl_xval N len bez l0 l1 t) = true ->
    leb N (bl_xval N len bez l0 l1 t) len = true ->
    In (t, div N (bl_xval N len bez l0 l1 t) len) (bl_select N len bez l0 l1 roots).
  Proof.
    intros Hin H0 H1. unfold bl_select. apply in_flat_map. exists t. split.
    - apply nodupb_In; assumption.
    - cbv zeta. rewrite H0, H1. left; reflexivity.
  Qed.
  Lemma bl_select_once len bez l0 l1 roots : NoDup (map fst (bl_select N len bez l0 l1 roots)).
  Proof.
    unfold bl_select. pose proof (nodupb_NoDup roots) as ND.
    induction (nodupb N roots) as [|a l IH]; cbn; [constructor|].
    inversion ND as [|? ? Ha ND']; subst. specialize (IH ND').
    destruct (leb N (zero N) (bl_xval N len bez l0 l1 a) && leb N (bl_xval N len bez l0 l1 a) len);
      cbn; auto.
    constructor; auto. intros H. apply Ha.
    apply in_map_iff in H. destruct H as [[t lt] [E H]]. cbn in E; subst t.
    apply in_flat_map in H. destruct H as [r [Hr H]].
    destruct (leb N (zero N) (bl_xval N len bez l0 l1 r) && leb N (bl_xval N len bez l0 l1 r) len);
      cbn in H; [|contradiction].
    destruct H as [E|[]]. injection E as -> _. assumption.
  Qed.
End Roots.

(* ------------------------------------------------------------------ *)
Section PathFacts.
  Context {K : Type} (N : Num K).
  Local Notation C := (Cplx K).
  Variable seg_isect : seg K -> seg K -> ires (list (K * K)).
  Variable seg_point : seg K -> K -> C.
  Variable tol : K.
  Variable idx_fixed : bool.     (* false: T from list.index (pinned); true: from the position (repair) *)
  Variable jd_fixed : bool.      (* false: joint de-dup by point; true: by point and place on both paths *)
  Variables plen1 plen2 eps9 : K.
  Local Notation dedup_joint := (dedup_joint N tol jd_fixed plen1 plen2 eps9).
  Local Notation redundant := (redundant N tol jd_fixed plen1 plen2 eps9).
  Local Notation path_intersect := (path_intersect N seg_isect seg_point tol idx_fixed jd_fixed plen1 plen2 eps9).

  Local Notation collect := (collect N seg_isect idx_fixed).
  Local Notation pos_of := (pos_of N idx_fixed).

  Lemma enum_from_In {A} (l : list A) a i s : In (i, s) (combine (seq a (length l)) l) ->
    (a <= i)%nat /\ nth_error l (i - a) = Some s.
  Proof.
    revert a. induction l as [|x l IH]; intros a; cbn; [intros []|].
    intros [E|H].
    - injection E as <- <-. rewrite Nat.sub_diag. auto.
    - destruct (IH (S a) H) as [Hle Hn]. split; [lia|].
      replace (i - a)%nat with (S (i - S a)) by lia. exact Hn.
  Qed.
  Lemma enum_In {A} (l : list A) i s : In (i, s) (enum l) -> nth_error l i = Some s.
  Proof. intros H. destruct (enum_from_In l 0 i s H) as [_ Hn]. rewrite Nat.sub_0_r in Hn. exact Hn. Qed.
  Lemma In_enum {A} (l : list A) i s : nth_error l i = Some s -> In (i, s) (enum l).
  Proof.
    intros H.
    assert (G : forall a, In ((a + i)%nat, s) (combine (seq a (length l)) l)).
    { revert i H. induction l as [|x l IH]; intros [|i] Hn b; cbn in *; try discriminate.
      - injection Hn as ->. left. rewrite Nat.add_0_r. reflexivity.
      - right. replace (b + S i)%nat with (S b + i)%nat by lia. apply IH; assumption. }
    exact (G 0%nat).
  Qed.

  (* what an element of the raw list is: it comes from positions i, j of the two
     paths; the T values are computed from pos_of (the first EQUAL segment in the
     pinned variant, the position itself in the repaired one) *)
  Definition raw_entry (p1 : list (seg K)) (lens1 : list K) (p2 : list (seg K)) (lens2 : list K)
             (pairs : list ((nat * seg K) * (nat * seg K))) (e : pent (K:=K) * pent (K:=K)) : Prop :=
    exists i j s1 s2 t1 t2 l,
      In ((i, s1), (j, s2)) pairs /\ seg_isect s1 s2 = IOk l /\ In (t1, t2) l
      /\ e = ((t2T N lens1 (pos_of p1 i s1) t1, s1, t1), (t2T N lens2 (pos_of p2 j s2) t2, s2, t2)).

  Lemma collect_sound p1 lens1 p2 lens2 pairs res :
    collect p1 lens1 p2 lens2 pairs = IOk res ->
    forall e, In e res -> raw_entry p1 lens1 p2 lens2 pairs e.
  Proof.
    revert res. induction pairs as [|[[i s1] [j s2]] r IH]; intros res; cbn.
    { intros E; injection E as <-. intros e []. }
    destruct (seg_isect s1 s2) as [l| | |] eqn:E1; try discriminate.
    destruct (collect p1 lens1 p2 lens2 r) as [l'| | |] eqn:E2; try discriminate.
    intros E; injection E as <-. intros e He. apply in_app_or in He. destruct He as [He|He].
    - unfold Isect.entries in He. apply in_map_iff in He. destruct He as [[t1 t2] [<- Ht]].
      exists i, j, s1, s2, t1, t2, l. cbn [fst snd]. repeat split; auto. left; reflexivity.
    - destruct (IH l' eq_refl e He) as (i' & j' & a & b & t1 & t2 & l0 & H1 & H2 & H3 & H4).
      exists i', j', a, b, t1, t2, l0. repeat split; auto. right; assumption.
  Qed.

  (* conversely nothing is lost before the joint de-duplication *)
  Lemma collect_complete p1 lens1 p2 lens2 pairs res i j s1 s2 l t1 t2 :
    collect p1 lens1 p2 lens2 pairs = IOk res ->
    In ((i, s1), (j, s2)) pairs -> seg_isect s1 s2 = IOk l -> In (t1, t2) l ->
    In ((t2T N lens1 (pos_of p1 i s1) t1, s1, t1), (t2T N lens2 (pos_of p2 j s2) t2, s2, t2)) res.
  Proof.
    revert res. induction pairs as [|[[i' a] [j' b]] r IH]; intros res; cbn; [intros _ []|].
    destruct (seg_isect a b) as [la| | |] eqn:E1; try discriminate.
    destruct (collect p1 lens1 p2 lens2 r) as [l'| | |] eqn:E2; try discriminate.
    intros E; injection E as <-. intros [Ep|Hp] Hs Ht; apply in_or_app.
    - injection Ep as -> -> -> ->. left. rewrite E1 in Hs. injection Hs as ->.
      unfold Isect.entries. apply in_map_iff. exists (t1, t2). split; auto.
    - right. eapply IH; eauto.
  Qed.

  Lemma dedup_joint_incl {A} seen (l : list (jkey (K:=K) * A)) x :
    In x (dedup_joint seen l) -> In x (map snd l).
  Proof.
    revert seen; induction l as [|[p a] l IH]; intros seen; cbn; auto.
    destruct (existsb _ seen); cbn; intros H.
    - right. eapply IH; eauto.
    - destruct H as [H|H]; auto. right. eapply IH; eauto.
  Qed.

  (* an entry that is not redundant with any earlier one is kept; points at least tol apart
     are never redundant, in either variant *)
  Definition far (p q : C) : Prop := cabs_lt N (csub N q p) tol = false.
  Lemma far_not_redundant (q p : jkey (K:=K)) : far (fst (fst p)) (fst (fst q)) -> redundant q p = false.
  Proof. unfold far, Isect.redundant. intros ->. reflexivity. Qed.
  Lemma dedup_joint_keeps_all {A} seen (l : list (jkey (K:=K) * A)) :
    (forall q p, In q seen -> In p (map fst l) -> redundant q p = false) ->
    ForallOrdPairs (fun a b => redundant (fst a) (fst b) = false) l ->
    dedup_joint seen l = map snd l.
  Proof.
    revert seen; induction l as [|[p a] l IH]; intros seen Hs Hl; cbn; auto.
    assert (E : existsb (fun q => redundant q p) seen = false).
    { apply not_true_is_false. intros H. apply existsb_exists in H. destruct H as [q [Hq Hc]].
      specialize (Hs q p Hq (or_introl eq_refl)). congruence. }
    rewrite E. f_equal. inversion Hl as [|? ? Hh Ht]; subst. apply IH; auto.
    intros q p' Hq Hp'. apply in_app_or in Hq. destruct Hq as [Hq|[<-|[]]].
    - apply Hs; auto. right; assumption.
    - apply in_map_iff in Hp'. destruct Hp' as [[p'' a''] [<- Hin]].
      rewrite Forall_forall in Hh. exact (Hh _ Hin).
  Qed.

  (* C11_path_coherent (structure) *)
  Theorem path_intersect_sound p1 lens1 p2 lens2 res :
    path_intersect p1 lens1 p2 lens2 = IOk res ->
    forall e, In e res ->
    exists i j s1 s2 t1 t2 l,
      nth_error p1 i = Some s1 /\ nth_error p2 j = Some s2 /\ seg_isect s1 s2 = IOk l /\ In (t1, t2) l
      /\ e = ((t2T N lens1 (pos_of p1 i s1) t1, s1, t1), (t2T N lens2 (pos_of p2 j s2) t2, s2, t2)).
  Proof.
    unfold Isect.path_intersect. destruct (path_eqb N p1 p2); [discriminate|].
    destruct (collect p1 lens1 p2 lens2 (list_prod (enum p1) (enum p2))) as [l| | |] eqn:E; try discriminate.
    intros R; injection R as <-. intros e He.
    apply dedup_joint_incl in He. rewrite map_map in He. cbn in He. rewrite map_id in He.
    destruct (collect_sound _ _ _ _ _ _ E e He) as (i & j & s1 & s2 & t1 & t2 & l0 & H1 & H2 & H3 & H4).
    apply in_prod_iff in H1. destruct H1 as [A B]. apply enum_In in A. apply enum_In in B.
    exists i, j, s1, s2, t1, t2, l0. repeat split; auto.
  Qed.

  (* index() finds the position the loop variable came from when equal
     segments occur once *)
  Hypothesis Hseq : forall x y : seg K, seg_eqb N x y = true <-> x = y.
  Lemma index_of_nodup p k s : NoDup p -> nth_error p k = Some s -> index_of N p s = k.
  Proof.
    revert k; induction p as [|a p IH]; intros [|k] ND Hn; cbn in *; try discriminate.
    - injection Hn as ->. destruct (seg_eqb N s s) eqn:E; auto.
      assert (seg_eqb N s s = true) by (apply Hseq; reflexivity). congruence.
    - inversion ND as [|? ? Ha ND']; subst.
      destruct (seg_eqb N a s) eqn:E.
      + apply Hseq in E. subst. exfalso. apply Ha. eapply nth_error_In; eauto.
      + f_equal. apply IH; auto.
  Qed.
  (* so: pos_of is the position itself — always in the repaired variant, and under
     NoDup in the pinned one *)
  Lemma pos_of_position p k s : idx_fixed = true \/ NoDup p -> nth_error p k = Some s -> pos_of p k s = k.
  Proof.
    unfold Isect.pos_of. destruct idx_fixed; [reflexivity|].
    intros [H|H]; [discriminate|]. apply index_of_nodup; assumption.
  Qed.

  (* C12_path_once: if the reported points are pairwise at least tol apart,
     the joint de-duplication removes nothing, so every crossing found by a
     segment pair appears in the result, exactly as many times as in the raw list *)
  Theorem path_intersect_keeps p1 lens1 p2 lens2 raw :
    path_eqb N p1 p2 = false ->
    collect p1 lens1 p2 lens2 (list_prod (enum p1) (enum p2)) = IOk raw ->
    ForallOrdPairs (fun a b => far (seg_point (snd (fst (fst b))) (snd (fst b)))
                                   (seg_point (snd (fst (fst a))) (snd (fst a)))) raw ->
    path_intersect p1 lens1 p2 lens2 = IOk raw.
  Proof.
    intros Hne E Hfar. unfold Isect.path_intersect. rewrite Hne, E. f_equal.
    rewrite dedup_joint_keeps_all.
    - rewrite map_map. cbn. apply map_id.
    - intros q p [].
    - clear -Hfar. induction Hfar as [|a l Hh Ht IH]; cbn; constructor; auto.
      rewrite Forall_forall in *. intros x Hx. apply in_map_iff in Hx.
      destruct Hx as [b [<- Hb]]. cbn [fst]. apply far_not_redundant. unfold Isect.jkey_of. cbn [fst].
      apply Hh; assumption.
  Qed.
End PathFacts.

(* ------------------------------------------------------------------ *)
Section DispatchFacts.
  Context {K : Type} (N : Num K).
  Local Notation C := (Cplx K).
  Variable atol : K.
  Variable seg_len : C -> C -> K.
  Variable roots01 : list K -> list K.
  Variable bezbez : list C -> list C -> ires (list (K * K)).
  Variable arc_core : arc K -> seg K -> ires (list (K * K)).
  Local Notation intersect := (intersect N atol seg_len roots01 bezbez arc_core).

  Lemma prefilter_sym a b : prefilter_rejects N a b = prefilter_rejects N b a.
  Proof.
    unfold prefilter_rejects, gtb. cbv zeta.
    destruct (ltb N (lmax N (map fst a)) (lmin N (map fst b))),
             (ltb N (lmax N (map fst b)) (lmin N (map fst a))),
             (ltb N (lmax N (map snd a)) (lmin N (map snd b))),
             (ltb N (lmax N (map snd b)) (lmin N (map snd a))); reflexivity.
  Qed.
  Lemma swap_swap {A B} (l : list (A * B)) : map swap (map swap l) = l.
  Proof. induction l as [|[a b] l IH]; cbn; [|rewrite IH]; reflexivity. Qed.
  Lemma imap_swap_swap {A B} (r : ires (list (A * B))) : imap (map swap) (imap (map swap) r) = r.
  Proof. destruct r; cbn; [rewrite swap_swap|..]; reflexivity. Qed.

  (* the ordered kind pairs that share one core routine with exchanged result *)
  Definition swap_routed (k1 k2 : kind) : bool :=
    match k1, k2 with
    | KLine, KQuad | KLine, KCubic | KQuad, KLine | KCubic, KLine => true
    | KArc, KArc => false
    | KArc, _ | _, KArc => true
    | _, _ => false
    end.

  (* C11_swap_dispatch *)
  Theorem swap_dispatch s1 s2 : swap_routed (kind_of s1) (kind_of s2) = true ->
    intersect s1 s2 = imap (map swap) (intersect s2 s1).
  Proof.
    destruct s1, s2; cbn [kind_of swap_routed]; try discriminate; intros _;
      unfold Isect.intersect; cbn [dispatch kind_of r_core r_flip r_prefilter r_assert_ne andb];
      try match goal with |- (if prefilter_rejects N ?a ?b then _ else _) = _ =>
            rewrite (prefilter_sym a b); destruct (prefilter_rejects N b a) end;
      cbn [imap map]; try rewrite imap_swap_swap; try reflexivity.
  Qed.
End DispatchFacts.

(* ------------------------------------------------------------------ *)
Section BezLineComplete.
  Context {K : Type} (N : Num K) (OK : NumFieldOK N).
  Add Field KF3 : (Fth OK).
  Hypothesis Heqb : forall x y : K, eqb N x y = true <-> x = y.

  (* C12_bezier_line_complete: a common point B(t) = L(s) whose parameter t is in
     the root list handed to the selection loop, and whose x-value passes the
     closed range test, is reported as (t, s) *)
  Theorem bezier_line_complete len bez l0 l1 roots t s :
    deg123 bez -> len <> zero N -> cnorm2 N (csub N l1 l0) <> zero N ->
    In t roots ->
    bezier_point N bez t = line_point N l0 l1 s ->
    leb N (zero N) (mul N s len) = true -> leb N (mul N s len) len = true ->
    In (t, s) (bl_select N len bez l0 l1 roots).
  Proof.
    intros Hd Hl Hn Hin E H0 H1.
    destruct (crossing_is_root N OK len bez l0 l1 t s Hd Hl Hn E) as [_ Hx].
    pose proof (bl_select_complete N Heqb len bez l0 l1 roots t Hin) as B.
    rewrite Hx in B. specialize (B H0 H1).
    replace (div N (mul N s len) len) with s in B by (field; exact Hl). exact B.
  Qed.

  (* repaired polyroots: no hypothesis about what the de-duplication does is left —
     the crossing parameter only has to be among the real roots in [0,1] that the
     oracle returned and not be close to an earlier one of them *)
  Theorem bezier_line_complete_fixed rtol atol raw len bez l0 l1 l1' t l2' s :
    deg123 bez -> len <> zero N -> cnorm2 N (csub N l1 l0) <> zero N ->
    filter (in01 N) (map fst (filter (fun z => isclose N rtol atol (snd z) (zero N)) raw)) = l1' ++ t :: l2' ->
    (forall y, In y l1' -> isclose N rtol atol y t = false) -> isclose N rtol atol t t = true ->
    bezier_point N bez t = line_point N l0 l1 s ->
    leb N (zero N) (mul N s len) = true -> leb N (mul N s len) len = true ->
    In (t, s) (bl_select N len bez l0 l1 (polyroots01_of N true rtol atol raw)).
  Proof.
    intros Hd Hl Hn E Hiso Hrefl Hc H0 H1.
    apply bezier_line_complete; auto. eapply polyroots01_fixed_keeps; eauto.
  Qed.
End BezLineComplete.
