(* Proofs/CropPath.v — Path.reversed and Path.cropped (Model/Crop.v) for paths
   of ANY number of segments, over an abstract segment type.  No algebraic law
   of the carrier is used (so everything here holds for binary64 verbatim);
   the segment operations enter through explicit contracts. *)
From Coq Require Import ZArith List Bool Arith Lia.
From SVP Require Import Base.Num Model.Crop.
Import ListNotations.

(* ------------------------------------------------------------------ *)
(* generic list facts                                                  *)
(* ------------------------------------------------------------------ *)
Section Lists.
  Context {A : Type}.

  Lemma nth_error_skipn_cons (l : list A) i x :
    nth_error l i = Some x -> skipn i l = x :: skipn (S i) l.
  Proof.
    revert i. induction l as [|a l IH]; intros [|i] H; cbn in *; try discriminate.
    - inversion H. reflexivity.
    - apply IH. exact H.
  Qed.

  Lemma firstn_S_snoc (l : list A) i x :
    nth_error l i = Some x -> firstn (S i) l = firstn i l ++ [x].
  Proof.
    revert i. induction l as [|a l IH]; intros [|i] H; cbn in *; try discriminate.
    - inversion H. reflexivity.
    - f_equal. apply IH. exact H.
  Qed.

  Lemma nth_error_skipn' (l : list A) a k : nth_error (skipn a l) k = nth_error l (a + k).
  Proof.
    revert l. induction a as [|a IH]; intros l; [reflexivity|].
    destruct l as [|x l]; [destruct k; reflexivity|]. cbn [skipn plus nth_error]. apply IH.
  Qed.

  Lemma slice_full_tail (l : list A) a : slice l a (length l) = skipn a l.
  Proof.
    unfold slice. apply firstn_all2. rewrite skipn_length. lia.
  Qed.
  Lemma slice_0 (l : list A) b : slice l 0 b = firstn b l.
  Proof. unfold slice. rewrite Nat.sub_0_r. reflexivity. Qed.

  (* l[i..j] inclusive = l[i] :: l[i+1..j) ++ [l[j]] *)
  Lemma slice_incl (l : list A) i j x y : (i < j)%nat ->
    nth_error l i = Some x -> nth_error l j = Some y ->
    slice l i (S j) = x :: slice l (S i) j ++ [y].
  Proof.
    intros Hij Hx Hy. unfold slice.
    rewrite (nth_error_skipn_cons _ _ _ Hx).
    replace (S j - i)%nat with (S (S (j - S i))) by lia.
    cbn [firstn]. f_equal.
    apply firstn_S_snoc.
    rewrite nth_error_skipn'. replace (S i + (j - S i))%nat with j by lia. exact Hy.
  Qed.

  Lemma last_app_single (l : list A) x d : last (l ++ [x]) d = x.
  Proof. induction l as [|a l IH]; [reflexivity|]. cbn [app]. destruct (l ++ [x]) eqn:E.
    - destruct l; discriminate.
    - rewrite <- E at 1. cbn [last]. rewrite E in *. exact IH. Qed.

  Lemma last_skipn (l : list A) i d : (i < length l)%nat -> last (skipn i l) d = last l d.
  Proof.
    revert i. induction l as [|a l IH]; intros i H; [cbn in H; lia|].
    destruct i as [|i]; [reflexivity|].
    cbn [skipn]. cbn [length] in H. rewrite IH by lia.
    destruct l; [cbn in H; lia|reflexivity].
  Qed.
  Lemma hd_firstn (l : list A) n d : (0 < n)%nat -> hd d (firstn n l) = hd d l.
  Proof. destruct n; [lia|]. destruct l; reflexivity. Qed.
End Lists.

(* ================================================================== *)
(* Path.reversed                                                       *)
(* ================================================================== *)
Section Reversed.
  Context {S P K L : Type}.
  Variable reversed : S -> S.

  (* segment i of the result is the reversed segment n-1-i *)
  Theorem path_reversed_nth (segs : list S) i d : (i < length segs)%nat ->
    length (path_reversed reversed segs) = length segs /\
    nth i (path_reversed reversed segs) (reversed d)
    = reversed (nth (length segs - 1 - i) segs d).
  Proof.
    intros H. unfold path_reversed. split.
    - rewrite rev_length, map_length. reflexivity.
    - rewrite rev_nth by (rewrite map_length; exact H).
      rewrite map_length, map_nth. f_equal. f_equal. lia.
  Qed.

  (* same points in the opposite order *)
  Variable pt : S -> K -> P.
  Variable flip : K -> K.                          (* t |-> 1 - t *)
  Hypothesis rev_pt : forall s t, pt (reversed s) t = pt s (flip t).
  Theorem path_reversed_points (segs : list S) i d t : (i < length segs)%nat ->
    pt (nth i (path_reversed reversed segs) (reversed d)) t
    = pt (nth (length segs - 1 - i) segs d) (flip t).
  Proof.
    intros H. destruct (path_reversed_nth segs i d H) as [_ ->]. apply rev_pt.
  Qed.

  (* equal total length, for any commutative associative exact addition *)
  Variables (ladd : L -> L -> L) (lzero : L).
  Hypothesis ladd_comm : forall a b, ladd a b = ladd b a.
  Hypothesis ladd_assoc : forall a b c, ladd a (ladd b c) = ladd (ladd a b) c.
  Hypothesis ladd_0 : forall a, ladd lzero a = a.
  Definition lsum (l : list L) : L := fold_right ladd lzero l.
  Lemma lsum_app l1 l2 : lsum (l1 ++ l2) = ladd (lsum l1) (lsum l2).
  Proof.
    induction l1 as [|a l1 IH]; cbn [app lsum fold_right].
    - rewrite ladd_0. reflexivity.
    - fold (lsum (l1 ++ l2)). rewrite IH. fold (lsum l1). apply ladd_assoc.
  Qed.
  Lemma lsum_rev l : lsum (rev l) = lsum l.
  Proof.
    induction l as [|a l IH]; [reflexivity|].
    cbn [rev]. rewrite lsum_app, IH. cbn [lsum fold_right].
    rewrite (ladd_comm a lzero), ladd_0. apply ladd_comm.
  Qed.
  (* Python's sum(): left fold from 0 — the same value under the laws *)
  Lemma fold_left_lsum l a : fold_left ladd l a = ladd a (lsum l).
  Proof.
    revert a. induction l as [|x l IH]; intros a; cbn [fold_left lsum fold_right].
    - rewrite ladd_comm, ladd_0. reflexivity.
    - rewrite IH. fold (lsum l). symmetry. apply ladd_assoc.
  Qed.
  Variable len : S -> L.
  Hypothesis rev_len : forall s, len (reversed s) = len s.
  (* the list of segment lengths of the reversed path is the reversed list *)
  Theorem path_reversed_lens (segs : list S) :
    map len (path_reversed reversed segs) = path_reversed (fun x => x) (map len segs).
  Proof.
    unfold path_reversed. rewrite map_rev, !map_map. f_equal. apply map_ext. intros s. apply rev_len.
  Qed.
  Theorem path_reversed_length (segs : list S) :
    lsum (map len (path_reversed reversed segs)) = lsum (map len segs).
  Proof.
    unfold path_reversed. rewrite map_rev, lsum_rev, map_map. f_equal.
    apply map_ext. intros s. apply rev_len.
  Qed.
End Reversed.

(* ================================================================== *)
(* chains: consecutive pieces joined                                   *)
(* ================================================================== *)
Section Chain.
  Context {S P : Type}.
  Variables (sp ep : S -> P).             (* start point, end point of a piece *)
  Definition joined (a b : S) : Prop := ep a = sp b.
  Fixpoint chained (l : list S) : Prop :=
    match l with
    | [] => True
    | a :: r => match r with [] => True | b :: _ => joined a b /\ chained r end
    end.

  Lemma chained_cons a b r : chained (a :: b :: r) <-> joined a b /\ chained (b :: r).
  Proof. reflexivity. Qed.
  Lemma chained_tail a r : chained (a :: r) -> chained r.
  Proof. destruct r; [trivial|]. intros [_ H]. exact H. Qed.

  Lemma chained_app l1 l2 d : chained l1 -> chained l2 ->
    (l1 <> [] -> l2 <> [] -> joined (last l1 d) (hd d l2)) -> chained (l1 ++ l2).
  Proof.
    induction l1 as [|a l1 IH]; intros H1 H2 HJ; [exact H2|].
    destruct l1 as [|b l1].
    - cbn [app]. destruct l2 as [|c l2]; [exact I|]. split; [|exact H2].
      apply HJ; discriminate.
    - change ((a :: b :: l1) ++ l2) with (a :: (b :: l1) ++ l2).
      destruct H1 as [Hab H1]. cbn [app]. split; [exact Hab|].
      apply IH; [exact H1|exact H2|]. intros _ Hn. apply HJ; [discriminate|exact Hn].
  Qed.
  Lemma chained_skipn l i : chained l -> chained (skipn i l).
  Proof.
    revert l. induction i as [|i IH]; intros l H; [exact H|].
    destruct l as [|a l]; [exact I|]. cbn [skipn]. apply IH. eapply chained_tail; eauto.
  Qed.
  Lemma chained_firstn l i : chained l -> chained (firstn i l).
  Proof.
    revert l. induction i as [|i IH]; intros l H; [exact I|].
    destruct l as [|a l]; [exact I|]. cbn [firstn].
    destruct l as [|b l]; [destruct i; exact I|].
    destruct H as [Hab H]. specialize (IH _ H).
    destruct i as [|i]; [exact I|]. cbn [firstn] in *. split; assumption.
  Qed.
  Lemma chained_slice l a b : chained l -> chained (slice l a b).
  Proof. intros H. unfold slice. apply chained_firstn, chained_skipn, H. Qed.

  Lemma chained_app_l l1 l2 : chained (l1 ++ l2) -> chained l1.
  Proof.
    induction l1 as [|a l1 IH]; intros H; [exact I|].
    destruct l1 as [|b l1]; [exact I|].
    change ((a :: b :: l1) ++ l2) with (a :: b :: (l1 ++ l2)) in H. destruct H as [J H].
    split; [exact J|]. apply IH. exact H.
  Qed.
  (* the start of the first piece and the end of the last piece do not matter *)
  Lemma chained_replace_first a a' r : ep a = ep a' -> chained (a :: r) -> chained (a' :: r).
  Proof. intros E H. destruct r as [|b r]; [exact I|]. destruct H as [J H]. split; [|exact H].
    unfold joined in *. rewrite <- E. exact J. Qed.
  Lemma chained_replace_last l z z' : sp z = sp z' -> chained (l ++ [z]) -> chained (l ++ [z']).
  Proof.
    intros E. induction l as [|a l IH]; intros H; [exact I|].
    destruct l as [|b l].
    - cbn [app] in *. destruct H as [J _]. split; [|exact I]. unfold joined in *. rewrite <- E. exact J.
    - change ((a :: b :: l) ++ [z]) with (a :: b :: (l ++ [z])) in H.
      change ((a :: b :: l) ++ [z']) with (a :: b :: (l ++ [z'])).
      destruct H as [J H]. split; [exact J|]. apply IH. exact H.
  Qed.
End Chain.

(* ================================================================== *)
(* Path.cropped                                                        *)
(* ================================================================== *)
Section Cropped.
  Context {K : Type} (N : Num K) {S P : Type}.
  Variable crop : S -> K -> K -> res S.
  Variable seq : S -> S -> bool.
  Variables atol rtol : K.

  Local Notation main := (path_cropped_main N crop seq atol rtol).
  Local Notation ASM := (assemble N crop).
  Local Notation LOC0 := (loc0 N seq atol rtol).
  Local Notation LOC1 := (loc1 N seq atol rtol).
  Local Notation k0 := (zero N).
  Local Notation k1 := (one N).
  Local Notation PC := (mkPiece (S:=S) (K:=K)).

  (* ---------------- the un-cropped middle pieces ---------------- *)
  Lemma origs_seq segs : forall n a l, fold_right (fun i acc =>
        rbind (getseg segs i) (fun s =>
        rbind acc (fun l => Ok (PC true i k0 k1 s :: l)))) (Ok []) (List.seq a n) = Ok l ->
    piece_segs l = firstn n (skipn a segs) /\ length l = n /\
    (forall p : piece S K, In p l -> p_orig p = true /\ nth_error segs (p_idx p) = Some (p_seg p)) /\
    (n <> 0 -> a + n <= length segs)%nat.
  Proof.
    induction n as [|n IH]; intros a l H.
    - cbn in H. inversion H; subst.
      split; [reflexivity|]. split; [reflexivity|]. split; [intros p []|intros Hn; congruence].
    - cbn [List.seq fold_right] in H. unfold getseg at 1 in H.
      destruct (nth_error segs a) as [s|] eqn:Ea; cbn [rbind] in H; [|discriminate].
      match type of H with rbind ?X _ = _ => destruct X as [l'|e] eqn:E end;
        cbn [rbind] in H; [|discriminate].
      inversion H; subst l. clear H.
      destruct (IH (Datatypes.S a) l' E) as (A & B & C & D).
      split; [|split; [|split]].
      + cbn [piece_segs map p_seg]. fold (piece_segs l'). rewrite A.
        rewrite (nth_error_skipn_cons _ _ _ Ea). reflexivity.
      + cbn [length]. rewrite B. reflexivity.
      + intros p [<-|Hp]; [split; [reflexivity|exact Ea]|apply C, Hp].
      + intros _. destruct n as [|n'].
        * assert (a < length segs)%nat by (apply nth_error_Some; congruence). lia.
        * specialize (D ltac:(discriminate)). lia.
  Qed.

  Lemma origs_ok segs a b l : origs N segs a b = Ok l ->
    piece_segs l = slice segs a b /\ length l = (b - a)%nat /\
    (forall p : piece S K, In p l -> p_orig p = true /\ nth_error segs (p_idx p) = Some (p_seg p)).
  Proof.
    intros H. destruct (origs_seq segs (b - a) a l H) as (A & B & C & _).
    repeat split; try assumption; apply C; assumption.
  Qed.

  (* ---------------- shape of the result ---------------- *)
  (* if t_seg1 != 0: new_path.append(seg1.cropped(0, t_seg1)) *)
  Definition tail_of (i1 : nat) (t1 : K) (s1 : S) (tl : list (piece S K)) : Prop :=
    (neqb N t1 k0 = true /\ exists c1, crop s1 k0 t1 = Ok c1 /\ tl = [PC false i1 k0 t1 c1])
    \/ (neqb N t1 k0 = false /\ tl = []).
  Inductive shape (segs : list S) (T0 T1 : K) (closed : res bool)
            (i0 : nat) (t0 : K) (i1 : nat) (t1 : K) (j0 j1 : nat) (s0 s1 : S) (ps : list (piece S K)) : Prop :=
  | ShSingle c : ltb N T0 T1 = true -> i0 = i1 -> crop s0 t0 t1 = Ok c ->
      ps = [PC false j0 t0 t1 c] -> shape segs T0 T1 closed i0 t0 i1 t1 j0 j1 s0 s1 ps
  | ShForward c0 mid tl : (ltb N T0 T1 && (i0 =? i1)%nat = false) -> ltb N T1 T0 = false ->
      crop s0 t0 k1 = Ok c0 -> origs N segs (i0 + 1) i1 = Ok mid ->
      tail_of j1 t1 s1 tl -> ps = PC false j0 t0 k1 c0 :: mid ++ tl ->
      shape segs T0 T1 closed i0 t0 i1 t1 j0 j1 s0 s1 ps
  | ShWrap c0 m1 m2 tl : (ltb N T0 T1 && (i0 =? i1)%nat = false) -> ltb N T1 T0 = true ->
      closed = Ok true ->
      crop s0 t0 k1 = Ok c0 -> origs N segs (i0 + 1) (length segs) = Ok m1 ->
      origs N segs 0 i1 = Ok m2 ->
      tail_of j1 t1 s1 tl -> ps = PC false j0 t0 k1 c0 :: (m1 ++ m2) ++ tl ->
      shape segs T0 T1 closed i0 t0 i1 t1 j0 j1 s0 s1 ps.

  Lemma assemble_shape segs T0 T1 closed i0 t0 j0 i1 t1 j1 ps :
    ASM segs T0 T1 closed (i0, t0, j0) (i1, t1, j1) = Ok ps ->
    exists s0 s1,
      nth_error segs j0 = Some s0 /\ nth_error segs j1 = Some s1 /\
      shape segs T0 T1 closed i0 t0 i1 t1 j0 j1 s0 s1 ps.
  Proof.
    unfold assemble. cbn [fst snd]. intros H.
    unfold getseg at 1 in H.
    destruct (nth_error segs j1) as [s1|] eqn:Es1; cbn [rbind] in H; [|discriminate].
    unfold getseg at 1 in H.
    destruct (nth_error segs j0) as [s0|] eqn:Es0; cbn [rbind] in H; [|discriminate].
    exists s0, s1. repeat (split; [reflexivity || assumption|]).
    destruct (ltb N T0 T1 && (i0 =? i1)%nat) eqn:Eb.
    - apply andb_prop in Eb. destruct Eb as [Elt Eeq]. apply Nat.eqb_eq in Eeq.
      destruct (crop s0 t0 t1) as [c|] eqn:Ec; cbn [rbind] in H; [|discriminate].
      inversion H; subst ps. eapply ShSingle; eauto.
    - destruct (crop s0 t0 k1) as [c0|] eqn:Ec0; cbn [rbind] in H; [|discriminate].
      destruct (ltb N T1 T0) eqn:Ew.
      + destruct closed as [[|]|] eqn:Ecl; cbn [rbind] in H; try discriminate.
        destruct (origs N segs (i0 + 1) (length segs)) as [m1|] eqn:Em1; cbn [rbind] in H; [|discriminate].
        destruct (origs N segs 0 i1) as [m2|] eqn:Em2; cbn [rbind] in H; [|discriminate].
        destruct (neqb N t1 k0) eqn:En.
        * destruct (crop s1 k0 t1) as [c1|] eqn:Ec1; cbn [rbind] in H; [|discriminate].
          inversion H; subst ps.
          eapply ShWrap with (c0:=c0) (m1:=m1) (m2:=m2) (tl:=[PC false j1 k0 t1 c1]); eauto.
          left. split; [exact En|]. exists c1. split; [exact Ec1|reflexivity].
        * inversion H; subst ps.
          eapply ShWrap with (c0:=c0) (m1:=m1) (m2:=m2) (tl:=[]); eauto; [right; split; [exact En|reflexivity]|].
          rewrite app_nil_r. reflexivity.
      + destruct (origs N segs (i0 + 1) i1) as [mid|] eqn:Em; cbn [rbind] in H; [|discriminate].
        destruct (neqb N t1 k0) eqn:En.
        * destruct (crop s1 k0 t1) as [c1|] eqn:Ec1; cbn [rbind] in H; [|discriminate].
          inversion H; subst ps.
          eapply ShForward with (c0:=c0) (mid:=mid) (tl:=[PC false j1 k0 t1 c1]); eauto.
          left. split; [exact En|]. exists c1. split; [exact Ec1|reflexivity].
        * inversion H; subst ps.
          eapply ShForward with (c0:=c0) (mid:=mid) (tl:=[]); eauto; [right; split; [exact En|reflexivity]|].
          rewrite app_nil_r. reflexivity.
  Qed.

  (* the pinned code: locations by loc1, loc0, then the assembly *)
  Lemma main_pinned segs T0 T1 r0 r1 closed ps :
    main segs T0 T1 r0 r1 closed = Ok ps <->
    exists l0 l1, LOC1 segs T1 r1 = Ok l1 /\ LOC0 segs T0 r0 = Ok l0 /\
                  ASM segs T0 T1 closed l0 l1 = Ok ps.
  Proof.
    unfold path_cropped_main, plan_main, locs_v, loc0, loc1. split.
    - intros H.
      destruct (loc1_v N seq atol rtol false segs T1 r1) as [l1|]; cbn [rbind] in H; [|discriminate].
      destruct (loc0_v N seq atol rtol false segs T0 r0) as [l0|]; cbn [rbind] in H; [|discriminate].
      exists l0, l1. repeat split. exact H.
    - intros (l0 & l1 & -> & -> & H). cbn [rbind run_plan]. exact H.
  Qed.

  Lemma main_shape segs T0 T1 r0 r1 closed ps :
    main segs T0 T1 r0 r1 closed = Ok ps ->
    exists i0 t0 j0 i1 t1 j1 s0 s1,
      LOC0 segs T0 r0 = Ok (i0, t0, j0) /\ LOC1 segs T1 r1 = Ok (i1, t1, j1) /\
      nth_error segs j0 = Some s0 /\ nth_error segs j1 = Some s1 /\
      shape segs T0 T1 closed i0 t0 i1 t1 j0 j1 s0 s1 ps.
  Proof.
    intros H. apply main_pinned in H. destruct H as ([[i0 t0] j0] & [[i1 t1] j1] & L1 & L0 & H).
    destruct (assemble_shape _ _ _ _ _ _ _ _ _ _ _ H) as (s0 & s1 & A & B & Sh).
    exists i0, t0, j0, i1, t1, j1, s0, s1. repeat split; assumption.
  Qed.

  (* ---------------- the top-level redirect ---------------- *)
  (* effective start parameter: T0 == 1 on a closed path is replaced by 0 *)
  Definition redirect (T0 T1 : K) (closed : res bool) : bool :=
    eqb N T0 k1 && ltb N k0 T1 && ltb N T1 k1 &&
    match closed with Ok true => true | _ => false end.
  Definition eff_T0 (T0 T1 : K) (closed : res bool) : K :=
    if redirect T0 T1 closed then k0 else T0.
  Definition eff_r0 (T0 T1 : K) (closed : res bool) (r0 : res (Z * K)) : res (Z * K) :=
    if redirect T0 T1 closed then Ok (0%Z, k0) else r0.

  Lemma cropped_main segs T0 T1 r0 r1 closed ps :
    path_cropped N crop seq atol rtol segs T0 T1 r0 r1 closed = Ok ps ->
    main segs (eff_T0 T0 T1 closed) T1 (eff_r0 T0 T1 closed r0) r1 closed = Ok ps.
  Proof.
    unfold path_cropped, path_cropped_v, crop_plan, path_cropped_main, eff_T0, eff_r0, redirect. intros H.
    destruct (negb (in01 N T0 && in01 N T1)); [discriminate|].
    destruct (eqb N T0 T1); [discriminate|].
    destruct (eqb N T0 k1 && eqb N T1 k0); [discriminate|].
    cbn [andb] in H.
    destruct (eqb N T0 k1 && ltb N k0 T1 && ltb N T1 k1).
    - destruct closed as [[|]|]; cbn [rbind andb] in *; try discriminate; exact H.
    - cbn [andb]. exact H.
  Qed.

  (* every variant: the result is the assembly of the plan *)
  Lemma cropped_v_plan ix hw tz segs T0 T1 r0 r1 closed ps :
    path_cropped_v N crop seq atol rtol ix hw tz segs T0 T1 r0 r1 closed = Ok ps <->
    exists T0' T1' l0 l1, crop_plan N seq atol rtol ix hw tz segs T0 T1 r0 r1 closed = Ok (T0', T1', l0, l1)
                          /\ ASM segs T0' T1' closed l0 l1 = Ok ps.
  Proof.
    unfold path_cropped_v. split.
    - intros H. destruct (crop_plan _ _ _ _ _ _ _ _ _ _ _ _ _) as [[[[T0' T1'] l0] l1]|]; cbn [rbind] in H; [|discriminate].
      exists T0', T1', l0, l1. split; [reflexivity|exact H].
    - intros (T0' & T1' & l0 & l1 & -> & H). exact H.
  Qed.

  (* ---------------- contracts and theorems ---------------- *)
  Variable pt : S -> K -> P.
  Hypothesis crop_ends : forall s a b s', crop s a b = Ok s' ->
    pt s' k0 = pt s a /\ pt s' k1 = pt s b.

  Local Notation sp := (fun s => pt s k0).
  Local Notation ep := (fun s => pt s k1).

  Lemma tail_cases (t1 : K) (i1 : nat) (s1 : S) tl :
    tail_of i1 t1 s1 tl -> neqb N t1 k0 = true ->
    exists c1, crop s1 k0 t1 = Ok c1 /\ tl = [PC false i1 k0 t1 c1].
  Proof. intros [[_ H]|[E _]] En; [exact H|congruence]. Qed.

  (* starts at seg_i0(t0), ends at seg_i1(t1) *)
  Theorem cropped_ends_asm segs T0 T1 closed ps i0 t0 j0 i1 t1 j1 s0 s1 d :
    ASM segs T0 T1 closed (i0, t0, j0) (i1, t1, j1) = Ok ps ->
    nth_error segs j0 = Some s0 -> nth_error segs j1 = Some s1 ->
    neqb N t1 k0 = true ->
    (* single-piece case (T0 < T1, i0 = i1): the piece is seg0.cropped(t0, t1) with seg0 = self[j0];
       its end is seg1's point when seg0 and seg1 are the same object, or equal segments *)
    (ltb N T0 T1 = true -> i0 = i1 -> pt s0 t1 = pt s1 t1) ->
    ps <> [] /\ pt (hd d (piece_segs ps)) k0 = pt s0 t0 /\
    pt (last (piece_segs ps) d) k1 = pt s1 t1.
  Proof.
    intros H N0 N1 En HSS.
    assert (HS : forall c : S, ltb N T0 T1 = true -> i0 = i1 -> pt c k1 = pt s0 t1 -> pt c k1 = pt s1 t1)
      by (intros c A B E; rewrite E; apply HSS; assumption).
    destruct (assemble_shape _ _ _ _ _ _ _ _ _ _ _ H) as (s0' & s1' & C & D & Sh).
    rewrite N0 in C. rewrite N1 in D. inversion C; inversion D; subst s0' s1'.
    destruct Sh as [c Hlt Hi Hc ->|c0 mid tl _ _ Hc0 _ Ht ->|c0 m1 m2 tl _ _ _ Hc0 _ _ Ht ->].
    - (* single piece: cropped from seg0 = self[j0] with t_seg1; seg1 = self[j1] is an equal
         segment's parameter only if j0 = j1 — stated for the end of seg0 at t1 *)
      destruct (crop_ends _ _ _ _ Hc) as [E0 E1].
      split; [discriminate|]. cbn. split; [exact E0|]. exact (HS c Hlt Hi E1).
    - destruct (tail_cases _ _ _ _ Ht En) as (c1 & Hc1 & ->).
      destruct (crop_ends _ _ _ _ Hc0) as [E0 _]. destruct (crop_ends _ _ _ _ Hc1) as [_ E1].
      split; [discriminate|]. split; [exact E0|].
      cbn [piece_segs map p_seg]. rewrite map_app. cbn [map p_seg].
      change (c0 :: map (@p_seg S K) mid ++ [c1]) with ((c0 :: map (@p_seg S K) mid) ++ [c1]).
      rewrite last_app_single. exact E1.
    - destruct (tail_cases _ _ _ _ Ht En) as (c1 & Hc1 & ->).
      destruct (crop_ends _ _ _ _ Hc0) as [E0 _]. destruct (crop_ends _ _ _ _ Hc1) as [_ E1].
      split; [discriminate|]. split; [exact E0|].
      cbn [piece_segs map p_seg]. rewrite map_app. cbn [map p_seg].
      change (c0 :: map (@p_seg S K) (m1 ++ m2) ++ [c1])
        with ((c0 :: map (@p_seg S K) (m1 ++ m2)) ++ [c1]).
      rewrite last_app_single. exact E1.
  Qed.

  Theorem cropped_ends segs T0 T1 r0 r1 closed ps i0 t0 j0 i1 t1 j1 s0 s1 d :
    main segs T0 T1 r0 r1 closed = Ok ps ->
    LOC0 segs T0 r0 = Ok (i0, t0, j0) -> LOC1 segs T1 r1 = Ok (i1, t1, j1) ->
    nth_error segs j0 = Some s0 -> nth_error segs j1 = Some s1 ->
    neqb N t1 k0 = true ->
    (* single-piece case (T0 < T1, i0 = i1): the piece is seg0.cropped(t0, t1) with seg0 = self[j0];
       its end is seg1's point when seg0 and seg1 are the same object, or equal segments *)
    (ltb N T0 T1 = true -> i0 = i1 -> pt s0 t1 = pt s1 t1) ->
    ps <> [] /\ pt (hd d (piece_segs ps)) k0 = pt s0 t0 /\
    pt (last (piece_segs ps) d) k1 = pt s1 t1.
  Proof.
    intros H L0 L1. apply main_pinned in H. destruct H as (l0 & l1 & A & B & H).
    rewrite L0 in B. rewrite L1 in A. inversion A; inversion B; subst l0 l1.
    revert H. apply cropped_ends_asm.
  Qed.

  (* the start / end location is the T2t answer itself, or — when np.isclose
     hands over to the neighbouring segment — the same POINT provided the
     hand-over was exact (t = 1 resp. t = 0) and the two segments are joined;
     [py_index = identity] says no EARLIER segment compares equal *)
  Theorem loc0_point segs T0 k t i0 t0 j0 sk s0 :
    LOC0 segs T0 (Ok (k, t)) = Ok (i0, t0, j0) -> eqb N T0 k0 = false ->
    nth_error segs (Z.to_nat k) = Some sk ->
    nth_error segs j0 = Some s0 ->
    (isclose N atol rtol t k1 = true -> t = k1 /\ joined sp ep sk s0) ->
    pt s0 t0 = pt sk t.
  Proof.
    unfold loc0, loc0_v, py_index_v. intros H E0 Nk N0 Hh. rewrite E0 in H. cbn [rbind fst snd] in H.
    unfold zindex in H. destruct ((0 <=? k)%Z && (k <? Z.of_nat (length segs))%Z); cbn [rbind] in H;
      [|discriminate].
    destruct (py_index seq segs (Z.to_nat k)) as [j|]; [|discriminate].
    destruct (isclose N atol rtol t k1) eqn:Ec.
    - inversion H; subst i0 t0 j0. destruct (Hh eq_refl) as [-> J]. symmetry. exact J.
    - inversion H; subst i0 t0 j0. rewrite Nk in N0. inversion N0. reflexivity.
  Qed.
  Theorem loc1_point segs T1 k t i1 t1 j1 sk s1 :
    LOC1 segs T1 (Ok (k, t)) = Ok (i1, t1, j1) -> eqb N T1 k1 = false ->
    nth_error segs (Z.to_nat k) = Some sk ->
    nth_error segs j1 = Some s1 ->
    (isclose N atol rtol t k0 = true -> t = k0 /\ joined sp ep s1 sk) ->
    pt s1 t1 = pt sk t.
  Proof.
    unfold loc1, loc1_v, py_index_v. intros H E1 Nk N1 Hh. rewrite E1 in H. cbn [rbind fst snd] in H.
    unfold zindex in H. destruct ((0 <=? k)%Z && (k <? Z.of_nat (length segs))%Z); cbn [rbind] in H;
      [|discriminate].
    destruct (py_index seq segs (Z.to_nat k)) as [j|]; [|discriminate].
    destruct (isclose N atol rtol t k0) eqn:Ec.
    - inversion H; subst i1 t1 j1. destruct (Hh eq_refl) as [-> J]. exact J.
    - inversion H; subst i1 t1 j1. rewrite Nk in N1. inversion N1. reflexivity.
  Qed.
  (* index() is the identity (the object cropped is the one at the index used for the
     ranges) when no EARLIER segment compares equal *)
  Lemma loc0_same_object segs T0 k t i0 t0 j0 :
    LOC0 segs T0 (Ok (k, t)) = Ok (i0, t0, j0) ->
    py_index seq segs (Z.to_nat k) = Some (Z.to_nat k) -> j0 = i0.
  Proof.
    unfold loc0, loc0_v, py_index_v. intros H Hidx. destruct (eqb N T0 k0).
    - destruct (length segs =? 0)%nat; inversion H; reflexivity.
    - cbn [rbind fst snd] in H. unfold zindex in H.
      destruct ((0 <=? k)%Z && (k <? Z.of_nat (length segs))%Z); cbn [rbind] in H; [|discriminate].
      rewrite Hidx in H. destruct (isclose N atol rtol t k1); inversion H; reflexivity.
  Qed.
  Lemma loc1_same_object segs T1 k t i1 t1 j1 :
    LOC1 segs T1 (Ok (k, t)) = Ok (i1, t1, j1) ->
    py_index seq segs (Z.to_nat k) = Some (Z.to_nat k) -> j1 = i1.
  Proof.
    unfold loc1, loc1_v, py_index_v. intros H Hidx. destruct (eqb N T1 k1).
    - destruct (length segs =? 0)%nat; inversion H; reflexivity.
    - cbn [rbind fst snd] in H. unfold zindex in H.
      destruct ((0 <=? k)%Z && (k <? Z.of_nat (length segs))%Z); cbn [rbind] in H; [|discriminate].
      rewrite Hidx in H. destruct (isclose N atol rtol t k0); inversion H; reflexivity.
  Qed.
  (* the shortcuts T0 == 0 / T1 == 1 *)
  Lemma loc0_zero segs T0 r0 : eqb N T0 k0 = true -> segs <> [] -> LOC0 segs T0 r0 = Ok (0%nat, k0, 0%nat).
  Proof. unfold loc0, loc0_v. intros -> H. destruct segs; [congruence|reflexivity]. Qed.
  Lemma loc1_one segs T1 r1 : eqb N T1 k1 = true -> segs <> [] ->
    LOC1 segs T1 r1 = Ok ((length segs - 1)%nat, k1, (length segs - 1)%nat).
  Proof. unfold loc1, loc1_v. intros -> H. destruct segs; [congruence|reflexivity]. Qed.

  (* consecutive pieces joined *)
  Theorem cropped_joined_asm segs T0 T1 closed ps i0 t0 i1 t1 d :
    chained sp ep segs ->
    (closed = Ok true -> joined sp ep (last segs d) (hd d segs)) ->
    ASM segs T0 T1 closed (i0, t0, i0) (i1, t1, i1) = Ok ps ->
    (ltb N T1 T0 = false -> (i0 < i1)%nat \/ (ltb N T0 T1 = true /\ i0 = i1)) ->
    chained sp ep (piece_segs ps).
  Proof.
    intros Hch Hcl H Hord.
    destruct (assemble_shape _ _ _ _ _ _ _ _ _ _ _ H) as (s0 & s1 & N0 & N1 & Sh).
    destruct Sh as [c _ _ _ ->|c0 mid tl Hb Hw Hc0 Hm Ht ->|c0 m1 m2 tl _ _ Hc Hc0 Hm1 Hm2 Ht ->].
    - exact I.
    - destruct (Hord Hw) as [Hlt|[Hlt Heq]].
      2:{ subst i1. rewrite Hlt, Nat.eqb_refl in Hb. discriminate. }
      destruct (origs_ok _ _ _ _ Hm) as (Am & _ & _).
      destruct (crop_ends _ _ _ _ Hc0) as [_ E0].
      assert (Hs : chained sp ep ((s0 :: slice segs (i0 + 1) i1) ++ [s1])).
      { replace (i0 + 1)%nat with (Datatypes.S i0) by lia. cbn [app].
        rewrite <- (slice_incl segs i0 i1 s0 s1 Hlt N0 N1). apply chained_slice, Hch. }
      cbn [piece_segs map p_seg]. rewrite map_app. fold (piece_segs mid). rewrite Am.
      apply (chained_replace_first sp ep s0 c0); [symmetry; exact E0|].
      destruct Ht as [[_ (c1 & Hc1 & ->)]|[_ ->]].
      + destruct (crop_ends _ _ _ _ Hc1) as [E1 _]. cbn [map p_seg].
        change (s0 :: slice segs (i0 + 1) i1 ++ [c1]) with ((s0 :: slice segs (i0 + 1) i1) ++ [c1]).
        apply (chained_replace_last sp ep _ s1 c1); [symmetry; exact E1|]. exact Hs.
      + cbn [map]. rewrite app_nil_r. apply chained_app_l in Hs. exact Hs.
    - destruct (origs_ok _ _ _ _ Hm1) as (A1 & _ & _).
      destruct (origs_ok _ _ _ _ Hm2) as (A2 & _ & _).
      destruct (crop_ends _ _ _ _ Hc0) as [_ E0].
      cbn [piece_segs map p_seg]. rewrite !map_app.
      fold (piece_segs m1). fold (piece_segs m2). rewrite A1, A2.
      replace (i0 + 1)%nat with (Datatypes.S i0) by lia.
      rewrite slice_full_tail, slice_0.
      assert (Hs : chained sp ep ((s0 :: skipn (Datatypes.S i0) segs) ++ (firstn i1 segs ++ [s1]))).
      { rewrite <- (nth_error_skipn_cons _ _ _ N0), <- (firstn_S_snoc _ _ _ N1).
        assert (Hi0 : (i0 < length segs)%nat) by (apply nth_error_Some; congruence).
        assert (Hi1 : (i1 < length segs)%nat) by (apply nth_error_Some; congruence).
        apply (chained_app sp ep _ _ d).
        - apply chained_skipn, Hch.
        - apply chained_firstn, Hch.
        - intros _ _. rewrite last_skipn by exact Hi0. rewrite hd_firstn by lia.
          apply Hcl, Hc. }
      set (X := skipn (Datatypes.S i0) segs) in *. set (Y := firstn i1 segs) in *.
      assert (Hs' : chained sp ep (((s0 :: X) ++ Y) ++ [s1])) by (rewrite <- app_assoc; exact Hs).
      apply (chained_replace_first sp ep s0 c0); [symmetry; exact E0|].
      destruct Ht as [[_ (c1 & Hc1 & ->)]|[_ ->]].
      + destruct (crop_ends _ _ _ _ Hc1) as [E1 _]. cbn [map p_seg].
        apply (chained_replace_last sp ep _ s1 c1) in Hs'; [|symmetry; exact E1]. exact Hs'.
      + cbn [map]. rewrite app_nil_r. apply chained_app_l in Hs'. exact Hs'.
  Qed.

  Theorem cropped_joined segs T0 T1 r0 r1 closed ps i0 t0 i1 t1 d :
    chained sp ep segs ->
    (closed = Ok true -> joined sp ep (last segs d) (hd d segs)) ->
    main segs T0 T1 r0 r1 closed = Ok ps ->
    LOC0 segs T0 r0 = Ok (i0, t0, i0) -> LOC1 segs T1 r1 = Ok (i1, t1, i1) ->
    (ltb N T1 T0 = false -> (i0 < i1)%nat \/ (ltb N T0 T1 = true /\ i0 = i1)) ->
    chained sp ep (piece_segs ps).
  Proof.
    intros Hch Hcl H L0 L1. apply main_pinned in H. destruct H as (l0 & l1 & A & B & H).
    rewrite L0 in B. rewrite L1 in A. inversion A; inversion B; subst l0 l1.
    revert Hch Hcl H. apply cropped_joined_asm.
  Qed.

  (* which pieces are originals: everything except the first and the last *)
  Theorem cropped_middle_originals_asm segs T0 T1 closed i0 t0 j0 i1 t1 j1 ps :
    ASM segs T0 T1 closed (i0, t0, j0) (i1, t1, j1) = Ok ps ->
    forall j p, nth_error ps j = Some p -> (0 < j)%nat -> (Datatypes.S j < length ps)%nat ->
    p_orig p = true /\ nth_error segs (p_idx p) = Some (p_seg p).
  Proof.
    intros H j p Hj H0 Hlast.
    destruct (assemble_shape _ _ _ _ _ _ _ _ _ _ _ H) as (s0 & s1 & _ & _ & Sh).
    assert (Gen : forall (x : piece S K) mid tl, (length tl <= 1)%nat ->
              (forall q, In q mid -> p_orig q = true /\ nth_error segs (p_idx q) = Some (p_seg q)) ->
              nth_error (x :: mid ++ tl) j = Some p -> (Datatypes.S j < length (x :: mid ++ tl))%nat ->
              p_orig p = true /\ nth_error segs (p_idx p) = Some (p_seg p)).
    { intros x mid tl Htl Hmid Hn Hl. destruct j as [|j]; [lia|]. cbn [nth_error] in Hn.
      cbn [length] in Hl. rewrite app_length in Hl.
      assert (j < length mid)%nat by lia.
      rewrite nth_error_app1 in Hn by assumption. apply Hmid. eapply nth_error_In; eauto. }
    assert (TL : forall tl, tail_of j1 t1 s1 tl -> (length tl <= 1)%nat).
    { intros tl [[_ (c1 & _ & ->)]|[_ ->]]; cbn; lia. }
    destruct Sh as [c _ _ _ ->|c0 mid tl _ _ _ Hm Ht ->|c0 m1 m2 tl _ _ _ _ Hm1 Hm2 Ht ->].
    - cbn [length] in Hlast. lia.
    - destruct (origs_ok _ _ _ _ Hm) as (_ & _ & Cm).
      eapply Gen; eauto.
    - destruct (origs_ok _ _ _ _ Hm1) as (_ & _ & C1).
      destruct (origs_ok _ _ _ _ Hm2) as (_ & _ & C2).
      eapply (Gen _ (m1 ++ m2) tl); eauto.
      intros q Hq. apply in_app_or in Hq. destruct Hq; [apply C1|apply C2]; assumption.
  Qed.

  Theorem cropped_middle_originals segs T0 T1 r0 r1 closed ps :
    main segs T0 T1 r0 r1 closed = Ok ps ->
    forall j p, nth_error ps j = Some p -> (0 < j)%nat -> (Datatypes.S j < length ps)%nat ->
    p_orig p = true /\ nth_error segs (p_idx p) = Some (p_seg p).
  Proof.
    intros H. apply main_pinned in H. destruct H as ([[i0 t0] j0] & [[i1 t1] j1] & _ & _ & H).
    revert H. apply cropped_middle_originals_asm.
  Qed.

  (* ---------------- the repaired variants ---------------- *)
  Local Notation LOCt := (@loc K).
  Definition diag (l : LOCt) : Prop := snd l = fst (fst l).

  Lemma fix_hand_inv (Pl : LOCt -> Prop) (segs : list S) T0 T1 r0 r1 closed l0 l1 a b :
    Pl l0 -> Pl l1 -> (forall x, Pl (0%nat, x, 0%nat)) -> (forall kt, Pl (raw_loc kt)) ->
    fix_hand N atol rtol segs T0 T1 r0 r1 closed l0 l1 = Ok (Locs a b) -> Pl a /\ Pl b.
  Proof.
    intros P0 P1 Pz Pr H. unfold fix_hand in H.
    match type of H with rbind ?X _ = _ => set (X1 := X) in H end.
    assert (HX1 : forall l1', X1 = Ok l1' -> Pl l1').
    { unfold X1. destruct (eqb N T1 k1); [inversion 1; subst; auto|].
      destruct r1 as [kt|]; cbn [rbind]; [|discriminate].
      destruct ((fst kt =? 0)%Z && isclose N atol rtol (snd kt) k0); inversion 1; subst; auto. }
    destruct X1 as [l1'|]; cbn [rbind] in H; [|discriminate]. specialize (HX1 _ eq_refl).
    match type of H with rbind ?X _ = _ => set (X2 := X) in H end.
    assert (HX2 : forall x y, X2 = Ok (Locs x y) -> Pl x /\ Pl y).
    { unfold X2. destruct (eqb N T0 k0); [inversion 1; subst; auto|].
      destruct r0 as [kt|]; cbn [rbind]; [|discriminate].
      destruct ((fst kt =? Z.of_nat (length segs) - 1)%Z && isclose N atol rtol (snd kt) k1).
      - destruct (ltb N T0 T1 || eqb N (snd (fst l1')) k0); [inversion 1; subst; auto|].
        destruct closed as [[|]|]; cbn [rbind]; intros x y E; inversion E; subst; auto.
      - inversion 1; subst; auto. }
    destruct X2 as [[x y|]|]; cbn [rbind] in H; try discriminate.
    destruct (HX2 _ _ eq_refl) as [Px Py].
    destruct (ltb N T0 T1 && (fst (fst y) <? fst (fst x))%nat).
    - destruct r0 as [kt0|]; cbn [rbind] in H; [|discriminate].
      destruct r1 as [kt1|]; cbn [rbind] in H; [|discriminate].
      inversion H; subst; auto.
    - inversion H; subst; auto.
  Qed.

  Lemma loc0_v_diag segs T0 r0 l : loc0_v N seq atol rtol true segs T0 r0 = Ok l -> diag l.
  Proof.
    unfold loc0_v, py_index_v, diag. destruct (eqb N T0 k0).
    - destruct (length segs =? 0)%nat; inversion 1; reflexivity.
    - destruct r0 as [kt|]; cbn [rbind]; [|discriminate].
      destruct (zindex segs (fst kt)) as [k|]; cbn [rbind]; [|discriminate].
      destruct (isclose N atol rtol (snd kt) k1); inversion 1; reflexivity.
  Qed.
  Lemma loc1_v_diag segs T1 r1 l : loc1_v N seq atol rtol true segs T1 r1 = Ok l -> diag l.
  Proof.
    unfold loc1_v, py_index_v, diag. destruct (eqb N T1 k1).
    - destruct (length segs =? 0)%nat; inversion 1; reflexivity.
    - destruct r1 as [kt|]; cbn [rbind]; [|discriminate].
      destruct (zindex segs (fst kt)) as [k|]; cbn [rbind]; [|discriminate].
      destruct (isclose N atol rtol (snd kt) k0); inversion 1; reflexivity.
  Qed.

  Lemma locs_v_diag hw segs T0 T1 r0 r1 closed a b :
    locs_v N seq atol rtol true hw segs T0 T1 r0 r1 closed = Ok (Locs a b) -> diag a /\ diag b.
  Proof.
    unfold locs_v. intros H.
    destruct (loc1_v N seq atol rtol true segs T1 r1) as [l1|] eqn:E1; cbn [rbind] in H; [|discriminate].
    destruct (loc0_v N seq atol rtol true segs T0 r0) as [l0|] eqn:E0; cbn [rbind] in H; [|discriminate].
    apply loc1_v_diag in E1. apply loc0_v_diag in E0.
    destruct hw.
    - apply (fix_hand_inv diag segs T0 T1 r0 r1 closed l0 l1 a b E0 E1);
        [intros; reflexivity|intros; reflexivity|exact H].
    - inversion H; subst; auto.
  Qed.

  (* a crop plan is always the plan of the main part for some arguments *)
  Lemma crop_plan_main ix hw tz segs T0 T1 r0 r1 closed p :
    crop_plan N seq atol rtol ix hw tz segs T0 T1 r0 r1 closed = Ok p ->
    exists T0a T1a r0a r1a, plan_main N seq atol rtol ix hw segs T0a T1a r0a r1a closed = Ok p.
  Proof.
    unfold crop_plan. intros H.
    destruct (negb (in01 N T0 && in01 N T1)); [discriminate|].
    destruct (eqb N T0 T1); [discriminate|].
    destruct (eqb N T0 k1 && eqb N T1 k0); [discriminate|].
    assert (R : forall q, (if tz && eqb N T1 k0 && ltb N k0 T0 && ltb N T0 k1
             then rbind closed (fun cl : bool =>
                    if cl then plan_main N seq atol rtol ix hw segs T0 k1 r0
                                         (Ok ((Z.of_nat (length segs) - 1)%Z, k1)) closed
                    else plan_main N seq atol rtol ix hw segs T0 T1 r0 r1 closed)
             else plan_main N seq atol rtol ix hw segs T0 T1 r0 r1 closed) = Ok q ->
            exists T0a T1a r0a r1a, plan_main N seq atol rtol ix hw segs T0a T1a r0a r1a closed = Ok q).
    { intros q. destruct (tz && eqb N T1 k0 && ltb N k0 T0 && ltb N T0 k1).
      - destruct closed as [[|]|]; cbn [rbind]; intros E; try discriminate; eauto.
      - eauto. }
    destruct (eqb N T0 k1 && ltb N k0 T1 && ltb N T1 k1).
    - destruct closed as [[|]|]; cbn [rbind] in H; try discriminate.
      + do 4 eexists. exact H.
      + apply R. exact H.
    - apply R. exact H.
  Qed.

  (* ix: the object whose cropped() is called is the one at the index used for the ranges —
     the duplicate-segment hypothesis of the theorems above is discharged *)
  Theorem plan_index_identity hw segs T0 T1 r0 r1 closed T0' T1' l0 l1 :
    plan_main N seq atol rtol true hw segs T0 T1 r0 r1 closed = Ok (T0', T1', l0, l1) ->
    diag l0 /\ diag l1.
  Proof.
    unfold plan_main. intros H.
    destruct (locs_v N seq atol rtol true hw segs T0 T1 r0 r1 closed) as [[a b|]|] eqn:E;
      cbn [rbind] in H; try discriminate.
    - inversion H; subst. eapply locs_v_diag; eauto.
    - destruct (locs_v N seq atol rtol true hw segs k0 T1 (Ok (0%Z, k0)) r1 closed) as [[a b|]|] eqn:E';
        cbn [rbind] in H; try discriminate.
      inversion H; subst. eapply locs_v_diag; eauto.
  Qed.

  (* hw: in the forward case the start location never lies beyond the end location
     (given that T2t is monotone: T0 < T1 implies seg0_idx <= seg1_idx, C05) *)
  Definition t2t_mono (T0 T1 : K) (r0 r1 : res (Z * K)) : Prop :=
    forall kt0 kt1, r0 = Ok kt0 -> r1 = Ok kt1 -> ltb N T0 T1 = true ->
                    (Z.to_nat (fst kt0) <= Z.to_nat (fst kt1))%nat.
  Lemma fix_hand_order (segs : list S) T0 T1 r0 r1 closed l0 l1 a b :
    t2t_mono T0 T1 r0 r1 ->
    fix_hand N atol rtol segs T0 T1 r0 r1 closed l0 l1 = Ok (Locs a b) ->
    ltb N T0 T1 = true -> (fst (fst a) <= fst (fst b))%nat.
  Proof.
    intros Hm H Hlt. unfold fix_hand in H.
    match type of H with rbind ?X _ = _ => destruct X as [l1'|] end; cbn [rbind] in H; [|discriminate].
    match type of H with rbind ?X _ = _ => destruct X as [[x y|]|] end; cbn [rbind] in H; try discriminate.
    rewrite Hlt in H. cbn [andb] in H.
    destruct (fst (fst y) <? fst (fst x))%nat eqn:E.
    - destruct r0 as [kt0|]; cbn [rbind] in H; [|discriminate].
      destruct r1 as [kt1|]; cbn [rbind] in H; [|discriminate].
      inversion H; subst. unfold raw_loc. cbn [fst snd]. apply (Hm kt0 kt1); auto.
    - inversion H; subst. apply Nat.ltb_ge in E. exact E.
  Qed.
  Theorem plan_forward_order ix segs T0 T1 r0 r1 closed T0' T1' l0 l1 :
    t2t_mono T0 T1 r0 r1 ->
    plan_main N seq atol rtol ix true segs T0 T1 r0 r1 closed = Ok (T0', T1', l0, l1) ->
    ltb N T0' T1' = true -> (fst (fst l0) <= fst (fst l1))%nat.
  Proof.
    unfold plan_main, locs_v. intros Hm H Hlt.
    destruct (loc1_v N seq atol rtol ix segs T1 r1) as [m1|]; cbn [rbind] in H; [|discriminate].
    destruct (loc0_v N seq atol rtol ix segs T0 r0) as [m0|]; cbn [rbind] in H; [|discriminate].
    destruct (fix_hand N atol rtol segs T0 T1 r0 r1 closed m0 m1) as [[a b|]|] eqn:E;
      cbn [rbind] in H; try discriminate.
    - inversion H; subst. eapply fix_hand_order; eauto.
    - destruct (loc0_v N seq atol rtol ix segs k0 (Ok (0%Z, k0))) as [m0'|]; cbn [rbind] in H; [|discriminate].
      destruct (fix_hand N atol rtol segs k0 T1 (Ok (0%Z, k0)) r1 closed m0' m1) as [[a b|]|] eqn:E';
        cbn [rbind] in H; try discriminate.
      inversion H; subst.
      apply (fix_hand_order segs k0 T1' (Ok (0%Z, k0)) r1 closed m0' m1 l0 l1); [|exact E'|exact Hlt].
      intros kt0 kt1 E0 _ _. inversion E0; subst. cbn. apply Nat.le_0_l.
  Qed.

  (* tz: on a closed path cropped(T0, 0) IS cropped(T0, 1) *)
  Theorem plan_T1_zero ix hw segs T0 r0 r1 :
    in01 N T0 = true -> in01 N k0 = true -> eqb N T0 k0 = false -> eqb N T0 k1 = false ->
    eqb N k0 k0 = true -> ltb N k0 T0 = true -> ltb N T0 k1 = true ->
    crop_plan N seq atol rtol ix hw true segs T0 k0 r0 r1 (Ok true)
    = plan_main N seq atol rtol ix hw segs T0 k1 r0 (Ok ((Z.of_nat (length segs) - 1)%Z, k1)) (Ok true).
  Proof.
    intros A B C D E F G. unfold crop_plan. rewrite A, B, C, D, E, F, G. cbn. reflexivity.
  Qed.

  (* the repaired code (ix, hw): consecutive pieces are joined for EVERY crop of a continuous
     path — the duplicate-segment and hand-over hypotheses of cropped_joined are discharged
     (T2t monotone, C05; the order on K total on the two parameters) *)
  Theorem cropped_joined_repaired tz segs T0 T1 r0 r1 closed ps d :
    chained sp ep segs ->
    (closed = Ok true -> joined sp ep (last segs d) (hd d segs)) ->
    (forall T0a T1a r0a r1a, t2t_mono T0a T1a r0a r1a) ->
    (forall a b : K, ltb N b a = false -> eqb N a b = false -> ltb N a b = true) ->
    (forall p, crop_plan N seq atol rtol true true tz segs T0 T1 r0 r1 closed = Ok p ->
               eqb N (fst (fst (fst p))) (snd (fst (fst p))) = false) ->
    path_cropped_v N crop seq atol rtol true true tz segs T0 T1 r0 r1 closed = Ok ps ->
    chained sp ep (piece_segs ps).
  Proof.
    intros Hch Hcl Hm Htot Hne H. apply cropped_v_plan in H.
    destruct H as (T0' & T1' & [[i0 t0] j0] & [[i1 t1] j1] & Hp & H).
    specialize (Hne _ Hp). cbn [fst snd] in Hne.
    destruct (crop_plan_main _ _ _ _ _ _ _ _ _ _ Hp) as (T0a & T1a & r0a & r1a & Hpm).
    destruct (plan_index_identity _ _ _ _ _ _ _ _ _ _ _ Hpm) as [D0 D1].
    unfold diag in D0, D1. cbn [fst snd] in D0, D1. subst j0 j1.
    pose proof (plan_forward_order true _ _ _ _ _ _ _ _ _ _ (Hm _ _ _ _) Hpm) as Ho. cbn [fst snd] in Ho.
    apply (cropped_joined_asm segs T0' T1' closed ps i0 t0 i1 t1 d Hch Hcl H).
    intros Hw. specialize (Ho (Htot _ _ Hw Hne)).
    destruct (Nat.eq_dec i0 i1) as [E|E]; [right; split; [apply Htot; assumption|exact E]|left; lia].
  Qed.

  (* ---------------- length ---------------- *)
  Context {L : Type}.
  Variables (ladd : L -> L -> L) (lzero : L).
  Hypothesis ladd_comm : forall a b, ladd a b = ladd b a.
  Hypothesis ladd_assoc : forall a b c, ladd a (ladd b c) = ladd (ladd a b) c.
  Hypothesis ladd_0 : forall a, ladd lzero a = a.
  Variable len : S -> L.                      (* seg.length() *)
  Variable plen : S -> K -> K -> L.           (* seg.length(t0, t1) *)
  Hypothesis crop_len : forall s a b s', crop s a b = Ok s' -> len s' = plen s a b.
  Hypothesis plen_full : forall s, plen s k0 k1 = len s.
  Local Notation lsum := (lsum ladd lzero).

  (* Path.length(T0, T1) for T0 -> (i0,t0), T1 -> (i1,t1):
       if idx0 == idx1: return self[idx0].length(t0=t0, t1=t1)
       return (self[idx0].length(t0=t0) + sum(self[idx].length() for idx in range(idx0+1, idx1))
               + self[idx1].length(t1=t1)) *)
  Definition path_length_loc (segs : list S) (i0 : nat) (t0 : K) (i1 : nat) (t1 : K) (s0 s1 : S) : L :=
    if (i0 =? i1)%nat then plen s0 t0 t1
    else ladd (ladd (plen s0 t0 k1)
                    (fold_left ladd (map len (slice segs (i0 + 1) i1)) lzero))
              (plen s1 k0 t1).

  Lemma lsum_single x : lsum [x] = x.
  Proof. cbn. rewrite ladd_comm. apply ladd_0. Qed.

  Lemma lsum_cons x l : lsum (x :: l) = ladd x (lsum l).
  Proof. reflexivity. Qed.
  Lemma lsum_app' l1 l2 : lsum (l1 ++ l2) = ladd (lsum l1) (lsum l2).
  Proof. apply lsum_app; assumption. Qed.
  Lemma pysum_lsum l : fold_left ladd l lzero = lsum l.
  Proof. rewrite (fold_left_lsum ladd lzero ladd_comm ladd_assoc ladd_0). apply ladd_0. Qed.
  Lemma ladd_0_r a : ladd a lzero = a.
  Proof. rewrite ladd_comm. apply ladd_0. Qed.

  (* T0 < T1: one piece, or first piece + whole segments + last piece: the sum
     of the piece lengths is what Path.length(T0, T1) computes from the same
     (index, t) pairs *)
  Theorem cropped_length_forward_asm segs T0 T1 closed ps i0 t0 i1 t1 s0 s1 :
    ASM segs T0 T1 closed (i0, t0, i0) (i1, t1, i1) = Ok ps ->
    nth_error segs i0 = Some s0 -> nth_error segs i1 = Some s1 ->
    neqb N t1 k0 = true -> ltb N T1 T0 = false ->
    ((i0 < i1)%nat \/ (ltb N T0 T1 = true /\ i0 = i1)) ->
    lsum (map len (piece_segs ps)) = path_length_loc segs i0 t0 i1 t1 s0 s1.
  Proof.
    intros H N0 N1 En Hw Hord.
    destruct (assemble_shape _ _ _ _ _ _ _ _ _ _ _ H) as (s0' & s1' & C & D & Sh).
    rewrite N0 in C. rewrite N1 in D. inversion C; inversion D; subst s0' s1'.
    unfold path_length_loc.
    destruct Sh as [c Hlt Hi Hc ->|c0 mid tl Hb _ Hc0 Hm Ht ->|c0 m1 m2 tl _ Hw' _ _ _ _ _ _].
    - subst i1. rewrite Nat.eqb_refl. cbn [piece_segs map p_seg]. rewrite lsum_single.
      apply crop_len. exact Hc.
    - destruct (tail_cases _ _ _ _ Ht En) as (c1 & Hc1 & ->).
      destruct Hord as [Hlt|[Hlt Heq]].
      2:{ subst i1. rewrite Hlt, Nat.eqb_refl in Hb. discriminate. }
      replace (i0 =? i1)%nat with false by (symmetry; apply Nat.eqb_neq; lia).
      destruct (origs_ok _ _ _ _ Hm) as (Am & _ & _).
      cbn [piece_segs map p_seg]. rewrite !map_app. cbn [map p_seg]. fold (piece_segs mid).
      rewrite Am, lsum_cons, lsum_app', lsum_single, pysum_lsum.
      rewrite (crop_len _ _ _ _ Hc0), (crop_len _ _ _ _ Hc1). apply ladd_assoc.
    - congruence.
  Qed.

  Theorem cropped_length_forward segs T0 T1 r0 r1 closed ps i0 t0 i1 t1 s0 s1 :
    main segs T0 T1 r0 r1 closed = Ok ps ->
    LOC0 segs T0 r0 = Ok (i0, t0, i0) -> LOC1 segs T1 r1 = Ok (i1, t1, i1) ->
    nth_error segs i0 = Some s0 -> nth_error segs i1 = Some s1 ->
    neqb N t1 k0 = true -> ltb N T1 T0 = false ->
    ((i0 < i1)%nat \/ (ltb N T0 T1 = true /\ i0 = i1)) ->
    lsum (map len (piece_segs ps)) = path_length_loc segs i0 t0 i1 t1 s0 s1.
  Proof.
    intros H L0 L1. apply main_pinned in H. destruct H as (l0 & l1 & A & B & H).
    rewrite L0 in B. rewrite L1 in A. inversion A; inversion B; subst l0 l1.
    revert H. apply cropped_length_forward_asm.
  Qed.

  Lemma skipn_snoc_last (segs : list S) a sl : (a <= length segs - 1)%nat ->
    nth_error segs (length segs - 1) = Some sl ->
    skipn a segs = slice segs a (length segs - 1) ++ [sl].
  Proof.
    intros Ha Hl. unfold slice.
    assert (Hn : (length segs - 1 < length segs)%nat) by (apply nth_error_Some; congruence).
    rewrite <- (firstn_S_snoc (skipn a segs) (length segs - 1 - a) sl).
    - symmetry. apply firstn_all2. rewrite skipn_length. lia.
    - rewrite nth_error_skipn'. replace (a + (length segs - 1 - a))%nat with (length segs - 1)%nat by lia.
      exact Hl.
  Qed.

  (* T1 < T0 on a closed path: length(T0, 1) + length(0, T1) *)
  Theorem cropped_length_wrap_asm segs T0 T1 closed ps i0 t0 i1 t1 s0 s1 sf sl :
    ASM segs T0 T1 closed (i0, t0, i0) (i1, t1, i1) = Ok ps ->
    nth_error segs i0 = Some s0 -> nth_error segs i1 = Some s1 ->
    nth_error segs 0 = Some sf -> nth_error segs (length segs - 1) = Some sl ->
    neqb N t1 k0 = true -> ltb N T1 T0 = true -> ltb N T0 T1 && (i0 =? i1)%nat = false ->
    lsum (map len (piece_segs ps))
    = ladd (path_length_loc segs i0 t0 (length segs - 1) k1 s0 sl)
           (path_length_loc segs 0 k0 i1 t1 sf s1).
  Proof.
    intros H N0 N1 Nf Nl En Hw Hb.
    destruct (assemble_shape _ _ _ _ _ _ _ _ _ _ _ H) as (s0' & s1' & C & D & Sh).
    rewrite N0 in C. rewrite N1 in D. inversion C; inversion D; subst s0' s1'.
    destruct Sh as [c Hlt Hi _ _|c0 mid tl _ Hw' _ _ _ _|c0 m1 m2 tl _ _ _ Hc0 Hm1 Hm2 Ht ->].
    - subst i1. rewrite Hlt, Nat.eqb_refl in Hb. discriminate.
    - congruence.
    - destruct (tail_cases _ _ _ _ Ht En) as (c1 & Hc1 & ->).
      destruct (origs_ok _ _ _ _ Hm1) as (A1 & _ & _).
      destruct (origs_ok _ _ _ _ Hm2) as (A2 & _ & _).
      assert (Hi0 : (i0 < length segs)%nat) by (apply nth_error_Some; congruence).
      cbn [piece_segs map p_seg]. rewrite !map_app. cbn [map p_seg].
      fold (piece_segs m1). fold (piece_segs m2). rewrite A1, A2.
      rewrite slice_full_tail, slice_0.
      rewrite lsum_cons, !lsum_app', lsum_single.
      rewrite (crop_len _ _ _ _ Hc0), (crop_len _ _ _ _ Hc1).
      set (a0 := plen s0 t0 k1). set (b := plen s1 k0 t1).
      set (M1 := lsum (map len (skipn (i0 + 1) segs))).
      set (M2 := lsum (map len (firstn i1 segs))).
      assert (P1 : ladd a0 M1 = path_length_loc segs i0 t0 (length segs - 1) k1 s0 sl).
      { unfold path_length_loc, M1. destruct (Nat.eq_dec i0 (length segs - 1)) as [E|E].
        - rewrite E, Nat.eqb_refl. rewrite skipn_all2 by lia. cbn [map]. cbn. apply ladd_0_r.
        - replace (i0 =? length segs - 1)%nat with false by (symmetry; apply Nat.eqb_neq; exact E).
          rewrite (skipn_snoc_last segs (i0 + 1) sl) by (try exact Nl; lia).
          rewrite map_app, lsum_app'. cbn [map]. rewrite lsum_single, pysum_lsum, plen_full.
          apply ladd_assoc. }
      assert (P2 : ladd M2 b = path_length_loc segs 0 k0 i1 t1 sf s1).
      { unfold path_length_loc, M2, b. destruct i1 as [|i1'].
        - cbn [Nat.eqb firstn map]. rewrite Nf in N1. inversion N1; subst s1.
          cbn. apply ladd_0.
        - cbn [Nat.eqb]. rewrite (nth_error_skipn_cons segs 0 sf Nf) at 1.
          change (skipn 0 segs) with segs. cbn [firstn map].
          rewrite lsum_cons, pysum_lsum, plen_full.
          unfold slice. cbn [plus]. replace (Datatypes.S i1' - 1)%nat with i1' by lia.
          reflexivity. }
      rewrite <- P1, <- P2.
      rewrite <- (ladd_assoc a0 M1 (ladd M2 b)). f_equal.
      symmetry. apply ladd_assoc.
  Qed.

  Theorem cropped_length_wrap segs T0 T1 r0 r1 closed ps i0 t0 i1 t1 s0 s1 sf sl :
    main segs T0 T1 r0 r1 closed = Ok ps ->
    LOC0 segs T0 r0 = Ok (i0, t0, i0) -> LOC1 segs T1 r1 = Ok (i1, t1, i1) ->
    nth_error segs i0 = Some s0 -> nth_error segs i1 = Some s1 ->
    nth_error segs 0 = Some sf -> nth_error segs (length segs - 1) = Some sl ->
    neqb N t1 k0 = true -> ltb N T1 T0 = true -> ltb N T0 T1 && (i0 =? i1)%nat = false ->
    lsum (map len (piece_segs ps))
    = ladd (path_length_loc segs i0 t0 (length segs - 1) k1 s0 sl)
           (path_length_loc segs 0 k0 i1 t1 sf s1).
  Proof.
    intros H L0 L1. apply main_pinned in H. destruct H as (l0 & l1 & A & B & H).
    rewrite L0 in B. rewrite L1 in A. inversion A; inversion B; subst l0 l1.
    revert H. apply cropped_length_wrap_asm.
  Qed.
End Cropped.
