(* Proofs/LexerRender.v — lexing what was rendered gives back the tokens:
   for every list of tokens (command letters in either case, numerals of the
   full shape  [sign] digits [. digits] [e|E [sign] digits]  — exactly the
   language of FLOAT_RE), every choice of separators between them (any
   characters that are not digits, signs, '.', 'e', 'E' or command letters:
   commas, blanks, tabs, newlines, ...; possibly none at all before a command
   letter, after a command letter, before a numeral that starts with a sign,
   or before a numeral that starts with '.' when the previous numeral already
   contains a '.' or an exponent),
       tokenize (render items trail) = the tokens.
   Hence two renderings of the same token list under different separator
   policies lex to the same tokens (C02_spellings). *)
From Coq Require Import Ascii String List Bool Arith Lia QArith Qcanon.
From SVP Require Import Base.Num Base.Cplx Model.Parse Model.Lexer Proofs.LexerScan.
Import ListNotations.
Local Open Scope char_scope.
Local Open Scope list_scope.

(* ------------------------------------------------------------------ *)
(* numerals, syntactically                                             *)

Record numeral := mkNumeral {
  n_sign : option bool;                       (* Some true: "-", Some false: "+" *)
  n_int : list ascii;                         (* digits before the point *)
  n_frac : list ascii;                        (* digits after the point; [] = no point *)
  n_exp : option (ascii * option bool * list ascii) }.  (* e|E, sign, digits *)

Definition sign_text (o : option bool) : list ascii :=
  match o with None => [] | Some true => ["-"] | Some false => ["+"] end.
Definition frac_text (f : list ascii) : list ascii :=
  match f with [] => [] | _ :: _ => "." :: f end.
Definition exp_text (e : option (ascii * option bool * list ascii)) : list ascii :=
  match e with None => [] | Some (ch, sg, ds) => ch :: sign_text sg ++ ds end.
Definition ntext (n : numeral) : list ascii :=
  sign_text (n_sign n) ++ n_int n ++ frac_text (n_frac n) ++ exp_text (n_exp n).

Definition numeral_wf (n : numeral) : bool :=
  forallb is_digit (n_int n) && forallb is_digit (n_frac n)
  && nonempty (n_int n ++ n_frac n)
  && match n_exp n with
     | None => true
     | Some (ch, _, ds) => is_e ch && forallb is_digit ds && nonempty ds
     end.

Definition has_point_or_exp (n : numeral) : bool :=
  nonempty (n_frac n) || match n_exp n with Some _ => true | None => false end.

(* what may follow the text of n without being absorbed into it *)
Definition follow_ok (n : numeral) (rest : list ascii) : Prop :=
  match rest with
  | [] => True
  | c :: _ => is_digit c = false /\ is_e c = false
              /\ (is_dot c = true -> has_point_or_exp n = true)
  end.

Lemma nondigit_head (l rest : list ascii) :
  match l ++ rest with [] => True | c :: _ => is_digit c = false end ->
  match l with [] => match rest with [] => True | c :: _ => is_digit c = false end
          | c :: _ => is_digit c = false end.
Proof. destruct l; cbn; auto. Qed.

Lemma skip_sign_text sg (x : list ascii) :
  match sg with None => match x with [] => True | c :: _ => is_sign c = false end | Some _ => True end ->
  skip_sign (sign_text sg ++ x) = x.
Proof.
  destruct sg as [[|]|]; cbn; try reflexivity.
  intros H. destruct x as [|c r]; [reflexivity|]. cbn. rewrite H. reflexivity.
Qed.

Lemma scan_exp_text e rest :
  match e with None => true | Some (ch, _, ds) => is_e ch && forallb is_digit ds && nonempty ds end = true ->
  match rest with [] => True | c :: _ => is_digit c = false /\ is_e c = false end ->
  scan_exp (exp_text e ++ rest) = rest.
Proof.
  intros We Hr. destruct e as [[[ch sg] ds]|]; cbn [exp_text].
  - apply andb_true_iff in We. destruct We as [We Wn]. apply andb_true_iff in We. destruct We as [Wc Wd].
    cbn [app scan_exp]. rewrite Wc. rewrite <- app_assoc.
    rewrite skip_sign_text.
    2:{ destruct sg; [exact I|]. destruct ds as [|d ds']; [discriminate|].
        cbn in Wd. apply andb_true_iff in Wd. cbn. apply digit_not_sign, Wd. }
    rewrite (take_while_run is_digit ds rest Wd).
    2:{ destruct rest; [exact I|apply Hr]. }
    cbn [fst snd]. destruct ds; [discriminate|reflexivity].
  - cbn [app]. unfold scan_exp. destruct rest as [|c r]; [reflexivity|].
    destruct Hr as [_ He]. rewrite He. reflexivity.
Qed.

(* FLOAT_RE matches exactly the numeral at the head of  ntext n ++ rest *)
Theorem scan_numeral n rest :
  numeral_wf n = true -> follow_ok n rest -> scan_float (ntext n ++ rest) = Some rest.
Proof.
  intros W F. unfold numeral_wf in W.
  apply andb_true_iff in W. destruct W as [W We]. apply andb_true_iff in W. destruct W as [W Wne].
  apply andb_true_iff in W. destruct W as [Wi Wf].
  destruct n as [sg ip fp ex]. cbn [n_sign n_int n_frac n_exp] in *.
  unfold ntext. cbn [n_sign n_int n_frac n_exp]. rewrite <- !app_assoc.
  unfold scan_float.
  (* the rest has the properties needed after the exponent *)
  assert (Hr : match rest with [] => True | c :: _ => is_digit c = false /\ is_e c = false end).
  { destruct rest; [exact I|]. destruct F as (A & B & _). split; assumption. }
  (* the text after the mantissa starts with no digit *)
  assert (Hy : match exp_text ex ++ rest with [] => True | c :: _ => is_digit c = false end).
  { destruct ex as [[[ch s'] ds]|]; cbn [exp_text app].
    - apply andb_true_iff in We. destruct We as [We _]. apply andb_true_iff in We.
      apply e_not_digit, We.
    - destruct rest; [exact I|apply Hr]. }
  rewrite skip_sign_text.
  2:{ destruct sg; [exact I|]. destruct ip as [|d ip'].
      - destruct fp as [|f fp']; [discriminate|]. reflexivity.
      - cbn in Wi. apply andb_true_iff in Wi. cbn. apply digit_not_sign, Wi. }
  unfold scan_mant.
  destruct fp as [|f fp'].
  - (* no point *)
    cbn [frac_text app]. rewrite (take_while_run is_digit ip _ Wi Hy). cbn [fst snd].
    rewrite app_nil_r in Wne.
    assert (Hnd : match exp_text ex ++ rest with
                  | [] => True | c :: _ => is_dot c = false end).
    { destruct ex as [[[ch s'] ds]|]; cbn [exp_text app].
      - apply andb_true_iff in We. destruct We as [We _]. apply andb_true_iff in We. destruct We as [We _].
        destruct (is_dot ch) eqn:D; [|reflexivity]. apply dot_not_e in D. congruence.
      - destruct rest as [|c r]; [exact I|]. destruct F as (_ & _ & Fd).
        destruct (is_dot c); [|reflexivity]. specialize (Fd eq_refl). discriminate Fd. }
    destruct (exp_text ex ++ rest) as [|c r] eqn:Ey.
    + destruct ip; [discriminate|]. rewrite <- Ey. rewrite (scan_exp_text ex rest We Hr). reflexivity.
    + rewrite Hnd. destruct ip; [discriminate|]. rewrite <- Ey.
      rewrite (scan_exp_text ex rest We Hr). reflexivity.
  - (* point and digits *)
    cbn [frac_text].
    assert (Hx : match ("." :: (f :: fp') ++ exp_text ex ++ rest) with
                 | [] => True | c :: _ => is_digit c = false end) by reflexivity.
    change (ip ++ ("." :: f :: fp') ++ exp_text ex ++ rest)
      with (ip ++ "." :: (f :: fp') ++ exp_text ex ++ rest).
    rewrite (take_while_run is_digit ip ("." :: (f :: fp') ++ exp_text ex ++ rest) Wi Hx). cbn [fst snd].
    change (is_dot ".") with true. cbv iota.
    rewrite (take_while_run is_digit (f :: fp') _ Wf Hy). cbn [fst snd].
    rewrite (scan_exp_text ex rest We Hr). reflexivity.
Qed.

(* ------------------------------------------------------------------ *)
(* tokens, separators, rendering                                       *)

Inductive stok := SCmd (c : cmdletter) (up : bool) | SNum (n : numeral).

Definition cmd_char (c : cmdletter) (up : bool) : ascii :=
  match c, up with
  | cM, true => "M" | cM, false => "m" | cZ, true => "Z" | cZ, false => "z"
  | cL, true => "L" | cL, false => "l" | cH, true => "H" | cH, false => "h"
  | cV, true => "V" | cV, false => "v" | cC, true => "C" | cC, false => "c"
  | cS, true => "S" | cS, false => "s" | cQ, true => "Q" | cQ, false => "q"
  | cT, true => "T" | cT, false => "t" | cA, true => "A" | cA, false => "a"
  end.
Lemma cmd_char_roundtrip c up : cmd_of_ascii (cmd_char c up) = Some (c, up).
Proof. destruct c, up; reflexivity. Qed.
Lemma cmd_char_is_cmd c up : is_cmd (cmd_char c up) = true.
Proof. unfold is_cmd. rewrite cmd_char_roundtrip. reflexivity. Qed.

(* a separator character: anything the tokenizer neither keeps nor starts a number with *)
Definition is_sepchar (c : ascii) : bool :=
  negb (is_digit c || is_sign c || is_dot c || is_e c || is_cmd c).
Example sepchars : forallb is_sepchar [","; " "; "009"; "010"; "013"] = true.
Proof. reflexivity. Qed.

Lemma sepchar_props c : is_sepchar c = true ->
  is_digit c = false /\ is_sign c = false /\ is_dot c = false /\ is_e c = false /\ is_cmd c = false.
Proof.
  unfold is_sepchar. intros H. apply negb_true_iff in H.
  destruct (is_digit c), (is_sign c), (is_dot c), (is_e c), (is_cmd c); cbn in H; try discriminate.
  repeat split.
Qed.

Definition stext (t : stok) : list ascii :=
  match t with SCmd c up => [cmd_char c up] | SNum n => ntext n end.
Definition ltok_of (t : stok) : ltok :=
  match t with SCmd c up => LCmd (cmd_char c up) | SNum n => LNum (ntext n) end.

(* an item = the separator written before a token, and the token *)
Definition item : Type := (list ascii * stok)%type.
Definition render (items : list item) (trail : list ascii) : list ascii :=
  flat_map (fun it : item => fst it ++ stext (snd it)) items ++ trail.

(* n2 may follow n1 without separator *)
Definition glue_ok (n1 n2 : numeral) : bool :=
  match n_sign n2 with
  | Some _ => true
  | None => match n_int n2 with
            | [] => has_point_or_exp n1        (* n2 starts with '.' *)
            | _ :: _ => false
            end
  end.

Fixpoint items_ok (prev : option numeral) (items : list item) : bool :=
  match items with
  | [] => true
  | (s, t) :: more =>
      forallb is_sepchar s
      && match t with
         | SCmd _ _ => true
         | SNum n => numeral_wf n
                     && match prev, s with
                        | Some n1, [] => glue_ok n1 n
                        | _, _ => true
                        end
         end
      && items_ok (match t with SNum n => Some n | SCmd _ _ => None end) more
  end.

Definition last_prev (prev : option numeral) (items : list item) : option numeral :=
  match rev items with
  | [] => prev
  | (_, SNum n) :: _ => Some n
  | (_, SCmd _ _) :: _ => None
  end.

Lemma items_ok_app prev l1 l2 :
  items_ok prev (l1 ++ l2) = items_ok prev l1 && items_ok (last_prev prev l1) l2.
Proof.
  revert prev. induction l1 as [|[s t] l1 IH]; intros prev.
  - reflexivity.
  - cbn [app items_ok]. rewrite IH, !andb_assoc. f_equal. f_equal.
    unfold last_prev. cbn [rev]. destruct (rev l1) as [|[s' t'] r] eqn:E.
    + cbn. reflexivity.
    + cbn. reflexivity.
Qed.

(* ------------------------------------------------------------------ *)
(* no command letter inside separators and numerals                    *)

Definition nocmd (x : list ascii) : bool := forallb (fun c => negb (is_cmd c)) x.
Lemma nocmd_app x y : nocmd (x ++ y) = nocmd x && nocmd y.
Proof. apply forallb_app. Qed.
Lemma nocmd_digits ds : forallb is_digit ds = true -> nocmd ds = true.
Proof.
  induction ds as [|d ds IH]; [reflexivity|]. intros H. cbn in H. apply andb_true_iff in H.
  destruct H as [Hd Hs].
  change (nocmd (d :: ds)) with (negb (is_cmd d) && nocmd ds). rewrite (IH Hs), andb_true_r.
  destruct (is_cmd d) eqn:E; [|reflexivity]. apply cmd_not_digit in E. congruence.
Qed.
Lemma nocmd_seps s : forallb is_sepchar s = true -> nocmd s = true.
Proof.
  induction s as [|c s IH]; [reflexivity|]. intros H. cbn in H. apply andb_true_iff in H.
  destruct H as [Hc Hs].
  change (nocmd (c :: s)) with (negb (is_cmd c) && nocmd s). rewrite (IH Hs), andb_true_r.
  destruct (sepchar_props c Hc) as (_ & _ & _ & _ & E). rewrite E. reflexivity.
Qed.
Lemma nocmd_sign sg : nocmd (sign_text sg) = true.
Proof. destruct sg as [[|]|]; reflexivity. Qed.
Lemma nocmd_ntext n : numeral_wf n = true -> nocmd (ntext n) = true.
Proof.
  intros W. unfold numeral_wf in W.
  apply andb_true_iff in W. destruct W as [W We]. apply andb_true_iff in W. destruct W as [W _].
  apply andb_true_iff in W. destruct W as [Wi Wf].
  unfold ntext. rewrite !nocmd_app, nocmd_sign, (nocmd_digits _ Wi). cbn [andb].
  apply andb_true_iff. split.
  - destruct (n_frac n) as [|f fp]; [reflexivity|]. cbn [frac_text].
    change (nocmd ("." :: f :: fp)) with (nocmd (f :: fp)). apply nocmd_digits, Wf.
  - destruct (n_exp n) as [[[ch sg] ds]|]; [|reflexivity]. cbn [exp_text].
    apply andb_true_iff in We. destruct We as [We _]. apply andb_true_iff in We. destruct We as [Wc Wd].
    change (nocmd (ch :: sign_text sg ++ ds)) with (negb (is_cmd ch) && nocmd (sign_text sg ++ ds)).
    rewrite nocmd_app, nocmd_sign, (nocmd_digits _ Wd).
    destruct (is_cmd ch) eqn:E; [|reflexivity]. apply cmd_not_e in E. congruence.
Qed.

(* ------------------------------------------------------------------ *)
(* COMMAND_RE.split                                                     *)

Lemma split_cmds_nocmd x s acc :
  nocmd x = true -> split_cmds (x ++ s) acc = split_cmds s (rev x ++ acc).
Proof.
  revert acc. induction x as [|c x IH]; intros acc H; [reflexivity|].
  cbn in H. apply andb_true_iff in H. destruct H as [Hc Hx].
  cbn [app split_cmds]. apply negb_true_iff in Hc. rewrite Hc, (IH _ Hx).
  cbn [rev]. rewrite <- app_assoc. reflexivity.
Qed.

Lemma scan_float_nonstart c s :
  is_digit c = false -> is_sign c = false -> is_dot c = false -> scan_float (c :: s) = None.
Proof.
  intros Hd Hs Ht. unfold scan_float, skip_sign. rewrite Hs. unfold scan_mant.
  cbn [take_while]. rewrite Hd. cbn [fst snd]. rewrite Ht. reflexivity.
Qed.

Lemma piece_tokens_nocmd x : nocmd x = true -> piece_tokens x = map LNum (findall x).
Proof.
  intros H. unfold piece_tokens. destruct x as [|c [|d r]]; try reflexivity.
  cbn in H. rewrite andb_true_r in H. apply negb_true_iff in H. rewrite H. reflexivity.
Qed.
Lemma piece_tokens_cmd c : is_cmd c = true -> piece_tokens [c] = [LCmd c].
Proof.
  intros H. unfold piece_tokens. rewrite H.
  rewrite findall_skip, findall_nil; [reflexivity|].
  apply scan_float_nonstart; [apply cmd_not_digit|apply cmd_not_sign|apply cmd_not_dot]; exact H.
Qed.

(* text without command letters, then a command letter, then anything *)
Lemma tokenize_cmd x c s :
  nocmd x = true -> is_cmd c = true ->
  tokenize (x ++ c :: s) = map LNum (findall x) ++ LCmd c :: tokenize s.
Proof.
  intros Hx Hc. unfold tokenize. rewrite (split_cmds_nocmd x _ [] Hx).
  cbn [split_cmds]. rewrite Hc, app_nil_r, rev_involutive. cbn [flat_map].
  rewrite (piece_tokens_nocmd x Hx), (piece_tokens_cmd c Hc). reflexivity.
Qed.
Lemma tokenize_nocmd x : nocmd x = true -> tokenize x = map LNum (findall x).
Proof.
  intros Hx. unfold tokenize. rewrite <- (app_nil_r x) at 1.
  rewrite (split_cmds_nocmd x [] [] Hx). cbn. rewrite !app_nil_r, rev_involutive.
  apply piece_tokens_nocmd, Hx.
Qed.

(* ------------------------------------------------------------------ *)
(* a run of numerals                                                   *)

Definition nitem : Type := (list ascii * numeral)%type.
Definition as_items (l : list nitem) : list item := map (fun sn : nitem => (fst sn, SNum (snd sn))) l.
Definition render_nums (l : list nitem) (trail : list ascii) : list ascii :=
  flat_map (fun sn : nitem => fst sn ++ ntext (snd sn)) l ++ trail.

Lemma render_as_items l trail : render (as_items l) trail = render_nums l trail.
Proof.
  unfold render, render_nums, as_items. f_equal.
  induction l as [|[s n] l IH]; [reflexivity|]. cbn. rewrite IH. reflexivity.
Qed.

Lemma findall_seps s x : forallb is_sepchar s = true -> findall (s ++ x) = findall x.
Proof.
  induction s as [|c s IH]; [reflexivity|]. cbn [forallb app]. intros H.
  apply andb_true_iff in H. destruct H as [Hc Hs].
  destruct (sepchar_props c Hc) as (A & B & C & _).
  rewrite findall_skip; [apply IH, Hs|]. apply scan_float_nonstart; assumption.
Qed.

Lemma ntext_head n : numeral_wf n = true ->
  exists c r, ntext n = c :: r /\
    match n_sign n with
    | Some _ => is_sign c = true
    | None => match n_int n with
              | [] => is_dot c = true
              | _ :: _ => is_digit c = true
              end
    end.
Proof.
  intros W. unfold numeral_wf in W.
  apply andb_true_iff in W. destruct W as [W _]. apply andb_true_iff in W. destruct W as [W Wne].
  apply andb_true_iff in W. destruct W as [Wi _].
  unfold ntext. destruct (n_sign n) as [[|]|]; cbn [sign_text app].
  - eexists _, _. split; reflexivity.
  - eexists _, _. split; reflexivity.
  - destruct (n_int n) as [|d ip].
    + destruct (n_frac n) as [|f fp]; [discriminate|]. cbn. eexists _, _. split; reflexivity.
    + cbn in Wi. apply andb_true_iff in Wi. cbn. eexists _, _. split; [reflexivity|apply Wi].
Qed.

Lemma glue_follow n1 n2 x :
  numeral_wf n2 = true -> glue_ok n1 n2 = true -> follow_ok n1 (ntext n2 ++ x).
Proof.
  intros W G. destruct (ntext_head n2 W) as (c & r & E & H). rewrite E. cbn.
  unfold glue_ok in G. destruct (n_sign n2).
  - repeat split.
    + apply sign_not_digit, H.
    + destruct (is_e c) eqn:Ee; [|reflexivity]. all_ascii c.
    + intros D. apply sign_not_dot in H. congruence.
  - destruct (n_int n2); [|discriminate]. repeat split.
    + apply dot_not_digit, H. + apply dot_not_e, H. + intros _. exact G.
Qed.

Lemma sep_follow n c x : is_sepchar c = true -> follow_ok n (c :: x).
Proof.
  intros H. destruct (sepchar_props c H) as (A & _ & C & D & _). cbn. repeat split; try assumption.
  intros E. congruence.
Qed.

(* findall over a run of numerals gives their texts *)
Theorem findall_run : forall l prev trail,
  items_ok prev (as_items l) = true -> forallb is_sepchar trail = true ->
  findall (render_nums l trail) = map (fun sn : nitem => ntext (snd sn)) l.
Proof.
  induction l as [|[s n] more IH]; intros prev trail Ok Tr.
  - unfold render_nums. cbn [flat_map map app].
    pose proof (findall_seps trail [] Tr) as H. rewrite app_nil_r in H. exact H.
  - cbn [as_items map fst snd items_ok] in Ok.
    apply andb_true_iff in Ok. destruct Ok as [Ok Okm]. apply andb_true_iff in Ok. destruct Ok as [Os On].
    apply andb_true_iff in On. destruct On as [Wn _].
    unfold render_nums. cbn [flat_map fst snd map]. rewrite <- !app_assoc.
    rewrite (findall_seps s _ Os).
    fold (render_nums more trail).
    rewrite findall_match.
    + f_equal. exact (IH (Some n) trail Okm Tr).
    + destruct (ntext_head n Wn) as (c & r & E & _). rewrite E. discriminate.
    + apply scan_numeral; [exact Wn|].
      (* what follows n *)
      destruct more as [|[s2 n2] more'].
      * unfold render_nums. cbn. destruct trail as [|c t]; [exact I|].
        cbn in Tr. apply andb_true_iff in Tr. apply sep_follow, Tr.
      * cbn [as_items map fst snd items_ok] in Okm.
        apply andb_true_iff in Okm. destruct Okm as [Ok2 _].
        apply andb_true_iff in Ok2. destruct Ok2 as [Os2 On2].
        apply andb_true_iff in On2. destruct On2 as [Wn2 G].
        unfold render_nums. cbn [flat_map fst snd]. rewrite <- !app_assoc.
        destruct s2 as [|c s2'].
        -- cbn [app]. apply glue_follow; assumption.
        -- cbn in Os2. apply andb_true_iff in Os2. cbn [app]. apply sep_follow, Os2.
Qed.

Lemma nocmd_render_nums l prev trail :
  items_ok prev (as_items l) = true -> forallb is_sepchar trail = true ->
  nocmd (render_nums l trail) = true.
Proof.
  revert prev. induction l as [|[s n] more IH]; intros prev Ok Tr.
  - apply nocmd_seps, Tr.
  - cbn [as_items map fst snd items_ok] in Ok.
    apply andb_true_iff in Ok. destruct Ok as [Ok Okm]. apply andb_true_iff in Ok. destruct Ok as [Os On].
    apply andb_true_iff in On. destruct On as [Wn _].
    unfold render_nums. cbn [flat_map fst snd]. rewrite <- !app_assoc.
    fold (render_nums more trail).
    rewrite nocmd_app, (nocmd_seps _ Os), nocmd_app, (nocmd_ntext _ Wn). cbn [andb].
    exact (IH (Some n) Okm Tr).
Qed.

(* ------------------------------------------------------------------ *)
(* the rendering theorem                                               *)

Lemma render_app l1 l2 trail : render (l1 ++ l2) trail = render l1 [] ++ render l2 trail.
Proof. unfold render. rewrite flat_map_app, app_nil_r, app_assoc. reflexivity. Qed.

Lemma render_cons s t more trail :
  render ((s, t) :: more) trail = s ++ stext t ++ render more trail.
Proof. unfold render. cbn [flat_map fst snd]. rewrite <- !app_assoc. reflexivity. Qed.
Lemma render_nums_trail pre s x : render_nums pre [] ++ s ++ x = render_nums pre s ++ x.
Proof. unfold render_nums. rewrite app_nil_r, <- !app_assoc. reflexivity. Qed.

Lemma last_prev_as_items prev l :
  last_prev prev (as_items l) = match rev l with [] => prev | (_, n) :: _ => Some n end.
Proof.
  unfold last_prev, as_items. rewrite <- map_rev. destruct (rev l) as [|[s n] r]; reflexivity.
Qed.

Lemma tokenize_render_gen : forall items pre trail,
  items_ok None (as_items pre ++ items) = true -> forallb is_sepchar trail = true ->
  tokenize (render (as_items pre ++ items) trail)
  = map ltok_of (map snd (as_items pre ++ items)).
Proof.
  induction items as [|[s t] more IH]; intros pre trail Ok Tr.
  - rewrite app_nil_r in *. rewrite render_as_items.
    rewrite tokenize_nocmd by (eapply nocmd_render_nums; eassumption).
    rewrite (findall_run pre None trail Ok Tr).
    unfold as_items. rewrite !map_map. reflexivity.
  - destruct t as [c up|n].
    + (* a command letter closes the run of numerals *)
      rewrite items_ok_app in Ok. apply andb_true_iff in Ok. destruct Ok as [Okp Ok].
      cbn [items_ok] in Ok. apply andb_true_iff in Ok. destruct Ok as [Ok Okm].
      apply andb_true_iff in Ok. destruct Ok as [Os _].
      rewrite render_app, render_as_items, render_cons, render_nums_trail.
      cbn [stext app].
      rewrite tokenize_cmd;
        [|eapply nocmd_render_nums; eassumption|apply cmd_char_is_cmd].
      rewrite (findall_run pre None s Okp Os).
      specialize (IH [] trail). cbn [as_items map app] in IH. rewrite (IH Okm Tr).
      rewrite !map_app. cbn [map snd ltok_of]. unfold as_items. rewrite !map_map. reflexivity.
    + (* a numeral joins the run *)
      specialize (IH (pre ++ [(s, n)]) trail).
      assert (E : as_items (pre ++ [(s, n)]) ++ more = as_items pre ++ (s, SNum n) :: more).
      { unfold as_items. rewrite map_app, <- app_assoc. reflexivity. }
      rewrite E in IH. apply IH; assumption.
Qed.

Theorem tokenize_render items trail :
  items_ok None items = true -> forallb is_sepchar trail = true ->
  tokenize (render items trail) = map ltok_of (map snd items).
Proof. intros Ok Tr. exact (tokenize_render_gen items [] trail Ok Tr). Qed.

(* at the level of the parser's tokens: command letters and exact values *)
Definition tok_of_stok (t : stok) : tok Qc :=
  match t with SCmd c up => TCmd c up | SNum n => TNum (numval (ntext n)) end.

Theorem lex_render items trail :
  items_ok None items = true -> forallb is_sepchar trail = true ->
  lex (render items trail) = map tok_of_stok (map snd items).
Proof.
  intros Ok Tr. unfold lex. rewrite (tokenize_render items trail Ok Tr).
  induction (map snd items) as [|t l IH]; [reflexivity|].
  cbn [map flat_map]. rewrite IH. destruct t as [c up|n]; cbn [ltok_of tok_of_ltok tok_of_stok].
  - rewrite cmd_char_roundtrip. reflexivity.
  - reflexivity.
Qed.

(* two renderings — different separators, different but equal-valued numeral
   spellings — of the same token list lex to the same tokens *)
Theorem spellings_same_tokens items1 trail1 items2 trail2 :
  items_ok None items1 = true -> forallb is_sepchar trail1 = true ->
  items_ok None items2 = true -> forallb is_sepchar trail2 = true ->
  map tok_of_stok (map snd items1) = map tok_of_stok (map snd items2) ->
  lex (render items1 trail1) = lex (render items2 trail2).
Proof. intros O1 T1 O2 T2 E. rewrite !lex_render by assumption. exact E. Qed.

(* hence they parse to the same path, whatever the variant of the parser *)
Corollary spellings_same_path none_ok coinc_ok pos0 items1 trail1 items2 trail2 :
  items_ok None items1 = true -> forallb is_sepchar trail1 = true ->
  items_ok None items2 = true -> forallb is_sepchar trail2 = true ->
  map tok_of_stok (map snd items1) = map tok_of_stok (map snd items2) ->
  impl_parse NumQ none_ok coinc_ok (lex (render items1 trail1)) pos0
  = impl_parse NumQ none_ok coinc_ok (lex (render items2 trail2)) pos0.
Proof. intros. f_equal. apply spellings_same_tokens; assumption. Qed.
