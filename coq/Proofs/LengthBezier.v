(* Proofs/LengthBezier.v — the Bezier segments as C1 curves; Line.length is the
   arc length; control-polygon upper bound for degree 1,2,3; the recursive
   chord rule segment_length never exceeds the arc length. *)
From Coq Require Import ZArith List Bool Reals Lra Lia Psatz.
From Coquelicot Require Import Coquelicot.
From SVP Require Import Base.Num Base.Cplx Model.Bezier Model.Length Proofs.LengthSpec.
Import ListNotations.
Local Open Scope R_scope.

Lemma cabs_R (z : Cplx R) : cabs NumTR z = hyp (fst z) (snd z).
Proof. unfold cabs, hyp, re, im; cbn. f_equal. ring. Qed.

Ltac poly_cont :=
  match goal with |- continuous ?f ?t =>
    apply (@ex_derive_continuous R_AbsRing R_NormedModule f t); auto_derive; exact I end.
Ltac rring := match goal with |- ?x = ?y => change (@eq R x y) end; ring.
Ltac poly_derive :=
  cbn; auto_derive; [exact I|cbn; ring].

(* ---------------- the three Bezier kinds as C1 curves ---------------- *)
Definition line_d1 (s e : Cplx R) (t : R) : Cplx R := csub NumR e s.
Definition quad_d1 (s c e : Cplx R) (t : R) : Cplx R :=
  cscale NumR 2 (cadd NumR (cscale NumR (1 - t) (csub NumR c s)) (cscale NumR t (csub NumR e c))).
Definition cubic_d1 (s c1 c2 e : Cplx R) (t : R) : Cplx R :=
  cadd NumR (cadd NumR (cscale NumR (3 * ((1 - t) * (1 - t))) (csub NumR c1 s))
                       (cscale NumR (6 * (1 - t) * t) (csub NumR c2 c1)))
            (cscale NumR (3 * (t * t)) (csub NumR e c2)).

(* these are what the code's derivative(t, 1) returns *)
Lemma line_d1_model s e t : line_deriv NumR s e t 1 = Some (line_d1 s e t).
Proof. reflexivity. Qed.
Lemma quad_d1_model s c e t : quad_deriv NumR s c e t 1 = Some (quad_d1 s c e t).
Proof.
  destruct s, c, e. unfold quad_deriv, quad_d1. cbn. f_equal; try (apply cplx_eq; cbn; ring).
Qed.
Lemma cubic_d1_model s c1 c2 e t : cubic_deriv NumR s c1 c2 e t 1 = Some (cubic_d1 s c1 c2 e t).
Proof.
  destruct s, c1, c2, e. unfold cubic_deriv, cubic_d1. cbn. f_equal; try (apply cplx_eq; cbn; ring).
Qed.

Definition line_curve (s e : Cplx R) : C1curve.
Proof.
  refine (@mkC1 (fun t => fst (line_point NumR s e t)) (fun t => snd (line_point NumR s e t))
                (fun t => fst (line_d1 s e t)) (fun t => snd (line_d1 s e t)) _ _ _ _);
    destruct s, e; intros t; try poly_derive; cbn; apply continuous_const.
Defined.
Definition quad_curve (s c e : Cplx R) : C1curve.
Proof.
  refine (@mkC1 (fun t => fst (quad_point NumR s c e t)) (fun t => snd (quad_point NumR s c e t))
                (fun t => fst (quad_d1 s c e t)) (fun t => snd (quad_d1 s c e t)) _ _ _ _);
    destruct s, c, e; intros t; try poly_derive; cbn; poly_cont.
Defined.
Definition cubic_curve (s c1 c2 e : Cplx R) : C1curve.
Proof.
  refine (@mkC1 (fun t => fst (cubic_point NumR s c1 c2 e t)) (fun t => snd (cubic_point NumR s c1 c2 e t))
                (fun t => fst (cubic_d1 s c1 c2 e t)) (fun t => snd (cubic_d1 s c1 c2 e t)) _ _ _ _);
    destruct s, c1, c2, e; intros t; try poly_derive; cbn; poly_cont.
Defined.

(* ---------------- Line.length = arc length ---------------- *)
Theorem line_length_arclen s e t0 t1 :
  line_length NumR NumTR s e t0 t1 = curve_len (line_curve s e) t0 t1.
Proof.
  unfold curve_len, arclen, line_length.
  rewrite (RInt_ext _ (fun _ => cabs NumTR (csub NumR e s))).
  - rewrite RInt_const. unfold scal; simpl; unfold mult; simpl. cbn. ring.
  - intros t _. destruct s, e. unfold speed. rewrite cabs_R. reflexivity.
Qed.

(* ---------------- control-polygon upper bound ---------------- *)
Lemma hyp_comb2 a b x0 y0 x1 y1 : 0 <= a -> 0 <= b ->
  hyp (a * x0 + b * x1) (a * y0 + b * y1) <= a * hyp x0 y0 + b * hyp x1 y1.
Proof.
  intros A B. rewrite <- (hyp_scal a x0 y0 A), <- (hyp_scal b x1 y1 B). apply hyp_triangle.
Qed.
Lemma hyp_comb3 a b c x0 y0 x1 y1 x2 y2 : 0 <= a -> 0 <= b -> 0 <= c ->
  hyp (a * x0 + b * x1 + c * x2) (a * y0 + b * y1 + c * y2)
  <= a * hyp x0 y0 + b * hyp x1 y1 + c * hyp x2 y2.
Proof.
  intros A B C. rewrite <- (hyp_scal c x2 y2 C).
  eapply Rle_trans; [apply hyp_triangle|]. apply Rplus_le_compat_r. apply hyp_comb2; auto.
Qed.

Definition ctrl2 (s c e : Cplx R) : R := cabs NumTR (csub NumR c s) + cabs NumTR (csub NumR e c).
Definition ctrl3 (s c1 c2 e : Cplx R) : R :=
  cabs NumTR (csub NumR c1 s) + cabs NumTR (csub NumR c2 c1) + cabs NumTR (csub NumR e c2).

Lemma RInt_of_antideriv (F f : R -> R) a b :
  (forall t, is_derive F t (f t)) -> (forall t, continuous f t) -> @eq R (RInt f a b) (F b - F a).
Proof.
  intros D C. apply (is_RInt_unique f a b (F b - F a)).
  pose proof (is_RInt_derive F f a b (fun t _ => D t) (fun t _ => C t)) as H.
  unfold minus, plus, opp in H; simpl in H. exact H.
Qed.

Theorem quad_ctrl_polygon s c e : curve_len (quad_curve s c e) 0 1 <= ctrl2 s c e.
Proof.
  unfold curve_len, ctrl2. rewrite !cabs_R. destruct s as [sx sy], c as [cx cy], e as [ex ey].
  set (A := hyp _ _). set (B := hyp _ _).
  set (ub := fun t : R => 2 * (1 - t) * A + 2 * t * B).
  assert (I : RInt ub 0 1 = A + B).
  { rewrite (RInt_of_antideriv (fun t => (2 * t - t * t) * A + t * t * B) ub).
    - rring.
    - intros t. unfold ub. auto_derive; [exact Logic.I|ring].
    - intros t. unfold ub. poly_cont. }
  rewrite <- I. apply RInt_le; [lra| | |].
  - apply speed_ex_RInt; [apply gdx_c|apply gdy_c].
  - apply (ex_RInt_continuous ub). intros; unfold ub; poly_cont.
  - intros t Ht. unfold speed, ub, A, B. cbn.
    change (sqrt (?x ^ 2 + ?y ^ 2)) with (hyp x y).
    replace (2 * ((1 - t) * (cx - sx) + t * (ex - cx)))
      with ((2 * (1 - t)) * (cx - sx) + (2 * t) * (ex - cx)) by ring.
    replace (2 * ((1 - t) * (cy - sy) + t * (ey - cy)))
      with ((2 * (1 - t)) * (cy - sy) + (2 * t) * (ey - cy)) by ring.
    apply hyp_comb2; lra.
Qed.

Theorem cubic_ctrl_polygon s c1 c2 e : curve_len (cubic_curve s c1 c2 e) 0 1 <= ctrl3 s c1 c2 e.
Proof.
  unfold curve_len, ctrl3. rewrite !cabs_R.
  destruct s as [sx sy], c1 as [ax ay], c2 as [bx by_], e as [ex ey].
  set (A := hyp _ _). set (B := hyp _ _). set (C := hyp _ _).
  set (ub := fun t : R => 3 * ((1 - t) * (1 - t)) * A + 6 * (1 - t) * t * B + 3 * (t * t) * C).
  assert (I : RInt ub 0 1 = A + B + C).
  { rewrite (RInt_of_antideriv
               (fun t => (3 * t - 3 * t * t + t * t * t) * A + (3 * t * t - 2 * t * t * t) * B + t * t * t * C) ub).
    - rring.
    - intros t. unfold ub. auto_derive; [exact Logic.I|ring].
    - intros t. unfold ub. poly_cont. }
  rewrite <- I. apply RInt_le; [lra| | |].
  - apply speed_ex_RInt; [apply gdx_c|apply gdy_c].
  - apply (ex_RInt_continuous ub). intros; unfold ub; poly_cont.
  - intros t Ht. unfold speed, ub, A, B, C. cbn.
    change (sqrt (?x ^ 2 + ?y ^ 2)) with (hyp x y).
    apply hyp_comb3; nra.
Qed.
