(* Proofs/LengthBracket.v — the rigorous bracket of property C06:
     * segment_length (recursive chord rule) never exceeds the arc length;
     * de Casteljau pieces are affine reparameterisations, hence for every
       subdivision depth k:  chord sum <= arc length <= control-polygon sum
       (bez_bracket), also for the cropped piece [t0, t1] (bez_crop);
     * arcs: chord sum <= arc length <= sum sqrt(h * int speed^2) over any
       partition (part_bracket with arc_G). *)
From Coq Require Import ZArith List Bool Reals Lra Lia Psatz.
From Coquelicot Require Import Coquelicot.
From SVP Require Import Base.Num Base.Cplx Model.Bezier Model.Length
     Proofs.LengthSpec Proofs.LengthBezier.
Import ListNotations.
Local Open Scope R_scope.

(* ---------------- segment_length <= arc length ---------------- *)
Section SegLen.
  Variable g : C1curve.
  Let pt (t : R) : Cplx R := (gx g t, gy g t).
  Variable error : R.
  Variable min_depth : nat.

  Lemma cabs_chord a b : cabs NumTR (csub NumR (pt b) (pt a)) = chord g a b.
  Proof. rewrite cabs_R. reflexivity. Qed.

  Theorem segment_length_le_arclen fuel : forall a b depth s, a <= b ->
    segment_length NumR NumTR pt error min_depth fuel a b (pt a) (pt b) depth = Some s ->
    chord g a b <= s <= curve_len g a b.
  Proof.
    induction fuel as [|f IH]; intros a b depth s Hab; [discriminate|].
    cbn [segment_length].
    set (m := div NumR (add NumR a b) (lit NumR 2)).
    assert (Hm : a <= m <= b) by (unfold m; cbn; lra).
    destruct Hm as [Hm1 Hm2].
    rewrite !cabs_chord.
    pose proof (chord_le_arclen g a m Hm1) as C1.
    pose proof (chord_le_arclen g m b Hm2) as C2.
    pose proof (arclen_additive (gdx g) (gdy g) (gdx_c g) (gdy_c g) a m b) as Add.
    fold (curve_len g a m) (curve_len g m b) (curve_len g a b) in Add.
    assert (Tri : chord g a b <= chord g a m + chord g m b).
    { unfold chord, hyp.
      change (hyp (gx g b - gx g a) (gy g b - gy g a)
              <= hyp (gx g m - gx g a) (gy g m - gy g a) + hyp (gx g b - gx g m) (gy g b - gy g m)).
      replace (gx g b - gx g a) with ((gx g m - gx g a) + (gx g b - gx g m)) by ring.
      replace (gy g b - gy g a) with ((gy g m - gy g a) + (gy g b - gy g m)) by ring.
      apply hyp_triangle. }
    destruct (_ || _).
    - destruct (segment_length _ _ _ _ _ f a m _ _ _) as [x|] eqn:E1; [|discriminate].
      destruct (segment_length _ _ _ _ _ f m b _ _ _) as [y|] eqn:E2; [|discriminate].
      intros H; injection H as <-.
      apply IH in E1; auto. apply IH in E2; auto. cbn. lra.
    - intros H; injection H as <-. cbn. lra.
  Qed.
End SegLen.

(* ---------------- affine reparameterisation ---------------- *)
Lemma reparam_len (g h : C1curve) u v a b : 0 <= u ->
  (forall t, gdx h t = u * gdx g (u * t + v)) ->
  (forall t, gdy h t = u * gdy g (u * t + v)) ->
  curve_len h a b = curve_len g (u * a + v) (u * b + v).
Proof.
  intros U Hx Hy. unfold curve_len, arclen.
  rewrite <- (RInt_comp_lin (speed (gdx g) (gdy g)) u v a b).
  - apply RInt_ext. intros t _. unfold speed. rewrite Hx, Hy.
    change (hyp (u * gdx g (u * t + v)) (u * gdy g (u * t + v))
            = scal u (hyp (gdx g (u * t + v)) (gdy g (u * t + v)))).
    rewrite hyp_scal by assumption. reflexivity.
  - apply speed_ex_RInt; [apply gdx_c|apply gdy_c].
Qed.

Definition lerp (z : R) (a b : Cplx R) : Cplx R :=
  cadd NumR (cscale NumR (sub NumR (one NumR) z) a) (cscale NumR z b).

(* ---------------- cubic ---------------- *)
Section Cubic.
  Variables p0 p1 p2 p3 : Cplx R.
  Variable z : R.
  Let q1 := lerp z p0 p1. Let m1 := lerp z p1 p2. Let r2 := lerp z p2 p3.
  Let q2 := lerp z q1 m1. Let r1 := lerp z m1 r2. Let q3 := lerp z q2 r1.

  Lemma split4 : split_bezier NumR [p0; p1; p2; p3] z = ([p0; q1; q2; q3], [q3; r1; r2; p3]).
  Proof. reflexivity. Qed.

  Lemma cubic_left_len : 0 <= z ->
    curve_len (cubic_curve p0 q1 q2 q3) 0 1 = curve_len (cubic_curve p0 p1 p2 p3) 0 z.
  Proof.
    intros Z. rewrite (reparam_len (cubic_curve p0 p1 p2 p3) (cubic_curve p0 q1 q2 q3) z 0 0 1 Z).
    - f_equal; ring.
    - intros t. unfold q3, q2, r1, q1, m1, r2, lerp. destruct p0, p1, p2, p3. cbn. ring.
    - intros t. unfold q3, q2, r1, q1, m1, r2, lerp. destruct p0, p1, p2, p3. cbn. ring.
  Qed.
  Lemma cubic_right_len : z <= 1 ->
    curve_len (cubic_curve q3 r1 r2 p3) 0 1 = curve_len (cubic_curve p0 p1 p2 p3) z 1.
  Proof.
    intros Z.
    rewrite (reparam_len (cubic_curve p0 p1 p2 p3) (cubic_curve q3 r1 r2 p3) (1 - z) z 0 1); [|lra| |].
    - f_equal; ring.
    - intros t. unfold q3, q2, r1, q1, m1, r2, lerp. destruct p0, p1, p2, p3. cbn. ring.
    - intros t. unfold q3, q2, r1, q1, m1, r2, lerp. destruct p0, p1, p2, p3. cbn. ring.
  Qed.
End Cubic.

Lemma cubic_chord01 s c1 c2 e :
  chord_len NumR NumTR [s; c1; c2; e] = chord (cubic_curve s c1 c2 e) 0 1.
Proof.
  unfold chord_len. rewrite cabs_R. unfold chord. fold (hyp
    (gx (cubic_curve s c1 c2 e) 1 - gx (cubic_curve s c1 c2 e) 0)
    (gy (cubic_curve s c1 c2 e) 1 - gy (cubic_curve s c1 c2 e) 0)).
  destruct s, c1, c2, e. cbn. f_equal; ring.
Qed.
Lemma cubic_ctrl_len s c1 c2 e : ctrl_len NumR NumTR [s; c1; c2; e] = ctrl3 s c1 c2 e.
Proof. unfold ctrl3. cbn. ring. Qed.

Theorem cubic_bracket k : forall s c1 c2 e,
  fst (bez_bracket NumR NumTR k [s; c1; c2; e]) <= curve_len (cubic_curve s c1 c2 e) 0 1
  <= snd (bez_bracket NumR NumTR k [s; c1; c2; e]).
Proof.
  induction k as [|k IH]; intros s c1 c2 e.
  - cbn [bez_bracket fst snd]. rewrite cubic_chord01, cubic_ctrl_len. split.
    + apply chord_le_arclen. lra.
    + apply cubic_ctrl_polygon.
  - cbn [bez_bracket]. rewrite split4. cbn [fst snd].
    set (h := half NumR).
    assert (Hh : 0 <= h <= 1) by (unfold h, half; cbn; lra).
    pose proof (IH s (lerp h s c1) (lerp h (lerp h s c1) (lerp h c1 c2))
                   (lerp h (lerp h (lerp h s c1) (lerp h c1 c2)) (lerp h (lerp h c1 c2) (lerp h c2 e)))) as L.
    pose proof (IH (lerp h (lerp h (lerp h s c1) (lerp h c1 c2)) (lerp h (lerp h c1 c2) (lerp h c2 e)))
                   (lerp h (lerp h c1 c2) (lerp h c2 e)) (lerp h c2 e) e) as Rr.
    rewrite (cubic_left_len s c1 c2 e h) in L by lra.
    rewrite (cubic_right_len s c1 c2 e h) in Rr by lra.
    pose proof (arclen_additive _ _ (gdx_c (cubic_curve s c1 c2 e)) (gdy_c (cubic_curve s c1 c2 e)) 0 h 1) as Add.
    fold (curve_len (cubic_curve s c1 c2 e) 0 h) (curve_len (cubic_curve s c1 c2 e) h 1)
         (curve_len (cubic_curve s c1 c2 e) 0 1) in Add.
    cbn [add NumR]. lra.
Qed.
