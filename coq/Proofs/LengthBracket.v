(* Proofs/LengthBracket.v — the rigorous bracket of property C06:
     * segment_length (recursive chord rule) never exceeds the arc length;
     * de Casteljau pieces are affine reparameterisations, hence for every
       subdivision depth k:  chord sum <= arc length <= control-polygon sum
       (bez_bracket), also for the cropped piece [t0, t1] (bez_crop);
     * arcs: chord sum <= arc length <= sum sqrt(h * int speed^2) over any
       partition (part_bracket with arc_G). *)
From Coq Require Import ZArith List Bool Reals Lra Lia Psatz.
From Coquelicot Require Import Coquelicot.
From SVP Require Import Base.Num Base.Cplx Model.Bezier Model.Length
     Proofs.LengthSpec Proofs.LengthBezier.
Import ListNotations.
Local Open Scope R_scope.

Ltac rfield := match goal with |- ?x = ?y => change (@eq R x y) end; unfold Rdiv; ring.

(* ---------------- segment_length <= arc length ---------------- *)
Section SegLen.
  Variable g : C1curve.
  Let pt (t : R) : Cplx R := (gx g t, gy g t).
  Variable error : R.
  Variable min_depth : nat.

  Lemma cabs_chord a b : cabs NumTR (csub NumR (pt b) (pt a)) = chord g a b.
  Proof. rewrite cabs_R. reflexivity. Qed.

  Theorem segment_length_le_arclen fuel : forall a b depth s, a <= b ->
    segment_length NumR NumTR pt error min_depth fuel a b (pt a) (pt b) depth = Some s ->
    chord g a b <= s <= curve_len g a b.
  Proof.
    induction fuel as [|f IH]; intros a b depth s Hab; [discriminate|].
    cbn [segment_length].
    set (m := div NumR (add NumR a b) (lit NumR 2)).
    assert (Hm : a <= m <= b) by (unfold m; cbn; lra).
    destruct Hm as [Hm1 Hm2].
    rewrite !cabs_chord.
    pose proof (chord_le_arclen g a m Hm1) as C1.
    pose proof (chord_le_arclen g m b Hm2) as C2.
    pose proof (arclen_additive (gdx g) (gdy g) (gdx_c g) (gdy_c g) a m b) as Add.
    fold (curve_len g a m) (curve_len g m b) (curve_len g a b) in Add.
    assert (Tri : chord g a b <= chord g a m + chord g m b).
    { unfold chord, hyp.
      change (hyp (gx g b - gx g a) (gy g b - gy g a)
              <= hyp (gx g m - gx g a) (gy g m - gy g a) + hyp (gx g b - gx g m) (gy g b - gy g m)).
      replace (gx g b - gx g a) with ((gx g m - gx g a) + (gx g b - gx g m)) by ring.
      replace (gy g b - gy g a) with ((gy g m - gy g a) + (gy g b - gy g m)) by ring.
      apply hyp_triangle. }
    destruct (_ || _).
    - destruct (segment_length _ _ _ _ _ f a m _ _ _) as [x|] eqn:E1; [|discriminate].
      destruct (segment_length _ _ _ _ _ f m b _ _ _) as [y|] eqn:E2; [|discriminate].
      intros H; injection H as <-.
      apply IH in E1; auto. apply IH in E2; auto. cbn [add NumR]. lra.
    - intros H; injection H as <-. cbn [add NumR]. lra.
  Qed.
End SegLen.

(* ---------------- affine reparameterisation ---------------- *)
Lemma reparam_len (g h : C1curve) u v a b : 0 <= u ->
  (forall t, gdx h t = u * gdx g (u * t + v)) ->
  (forall t, gdy h t = u * gdy g (u * t + v)) ->
  curve_len h a b = curve_len g (u * a + v) (u * b + v).
Proof.
  intros U Hx Hy. unfold curve_len, arclen.
  rewrite <- (RInt_comp_lin (speed (gdx g) (gdy g)) u v a b).
  - apply RInt_ext. intros t _. unfold speed. rewrite Hx, Hy.
    change (hyp (u * gdx g (u * t + v)) (u * gdy g (u * t + v))
            = scal u (hyp (gdx g (u * t + v)) (gdy g (u * t + v)))).
    rewrite hyp_scal by assumption. reflexivity.
  - apply speed_ex_RInt; [apply gdx_c|apply gdy_c].
Qed.

Definition lerp (z : R) (a b : Cplx R) : Cplx R :=
  cadd NumR (cscale NumR (sub NumR (one NumR) z) a) (cscale NumR z b).

(* ---------------- cubic ---------------- *)
Section Cubic.
  Variables p0 p1 p2 p3 : Cplx R.
  Variable z : R.
  Let q1 := lerp z p0 p1. Let m1 := lerp z p1 p2. Let r2 := lerp z p2 p3.
  Let q2 := lerp z q1 m1. Let r1 := lerp z m1 r2. Let q3 := lerp z q2 r1.

  Lemma split4 : split_bezier NumR [p0; p1; p2; p3] z = ([p0; q1; q2; q3], [q3; r1; r2; p3]).
  Proof. reflexivity. Qed.

  Lemma cubic_left_len a b : 0 <= z ->
    curve_len (cubic_curve p0 q1 q2 q3) a b = curve_len (cubic_curve p0 p1 p2 p3) (z * a) (z * b).
  Proof.
    intros Z. rewrite (reparam_len (cubic_curve p0 p1 p2 p3) (cubic_curve p0 q1 q2 q3) z 0 a b Z).
    - f_equal; ring.
    - intros t. unfold q3, q2, r1, q1, m1, r2, lerp. destruct p0, p1, p2, p3. cbn. ring.
    - intros t. unfold q3, q2, r1, q1, m1, r2, lerp. destruct p0, p1, p2, p3. cbn. ring.
  Qed.
  Lemma cubic_right_len a b : z <= 1 ->
    curve_len (cubic_curve q3 r1 r2 p3) a b
    = curve_len (cubic_curve p0 p1 p2 p3) (z + (1 - z) * a) (z + (1 - z) * b).
  Proof.
    intros Z.
    rewrite (reparam_len (cubic_curve p0 p1 p2 p3) (cubic_curve q3 r1 r2 p3) (1 - z) z a b); [|lra| |].
    - f_equal; ring.
    - intros t. unfold q3, q2, r1, q1, m1, r2, lerp. destruct p0, p1, p2, p3. cbn. ring.
    - intros t. unfold q3, q2, r1, q1, m1, r2, lerp. destruct p0, p1, p2, p3. cbn. ring.
  Qed.
End Cubic.

Lemma cubic_chord01 s c1 c2 e :
  chord_len NumR NumTR [s; c1; c2; e] = chord (cubic_curve s c1 c2 e) 0 1.
Proof.
  unfold chord_len. rewrite cabs_R. unfold chord. fold (hyp
    (gx (cubic_curve s c1 c2 e) 1 - gx (cubic_curve s c1 c2 e) 0)
    (gy (cubic_curve s c1 c2 e) 1 - gy (cubic_curve s c1 c2 e) 0)).
  destruct s, c1, c2, e. cbn. f_equal; ring.
Qed.
Lemma cubic_ctrl_len s c1 c2 e : ctrl_len NumR NumTR [s; c1; c2; e] = ctrl3 s c1 c2 e.
Proof. unfold ctrl3. cbn. ring. Qed.

Theorem cubic_bracket k : forall s c1 c2 e,
  fst (bez_bracket NumR NumTR k [s; c1; c2; e]) <= curve_len (cubic_curve s c1 c2 e) 0 1
  <= snd (bez_bracket NumR NumTR k [s; c1; c2; e]).
Proof.
  induction k as [|k IH]; intros s c1 c2 e.
  - cbn [bez_bracket fst snd]. rewrite cubic_chord01, cubic_ctrl_len. split.
    + apply chord_le_arclen. lra.
    + apply cubic_ctrl_polygon.
  - cbn [bez_bracket]. rewrite split4. cbn [fst snd].
    set (h := half NumR).
    assert (Hh : 0 <= h <= 1) by (unfold h, half; cbn; lra).
    pose proof (IH s (lerp h s c1) (lerp h (lerp h s c1) (lerp h c1 c2))
                   (lerp h (lerp h (lerp h s c1) (lerp h c1 c2)) (lerp h (lerp h c1 c2) (lerp h c2 e)))) as L.
    pose proof (IH (lerp h (lerp h (lerp h s c1) (lerp h c1 c2)) (lerp h (lerp h c1 c2) (lerp h c2 e)))
                   (lerp h (lerp h c1 c2) (lerp h c2 e)) (lerp h c2 e) e) as Rr.
    rewrite (cubic_left_len s c1 c2 e h 0 1) in L by lra.
    rewrite (cubic_right_len s c1 c2 e h 0 1) in Rr by lra.
    replace (h * 0) with 0 in L by ring. replace (h * 1) with h in L by ring.
    replace (h + (1 - h) * 0) with h in Rr by ring. replace (h + (1 - h) * 1) with 1 in Rr by ring.
    pose proof (arclen_additive _ _ (gdx_c (cubic_curve s c1 c2 e)) (gdy_c (cubic_curve s c1 c2 e)) 0 h 1) as Add.
    fold (curve_len (cubic_curve s c1 c2 e) 0 h) (curve_len (cubic_curve s c1 c2 e) h 1)
         (curve_len (cubic_curve s c1 c2 e) 0 1) in Add.
    cbn [add NumR]. lra.
Qed.

Theorem cubic_crop_bracket k s c1 c2 e t0 t1 : 0 <= t0 <= t1 -> 0 < t1 ->
  fst (bez_bracket NumR NumTR k (bez_crop NumR [s; c1; c2; e] t0 t1))
  <= curve_len (cubic_curve s c1 c2 e) t0 t1
  <= snd (bez_bracket NumR NumTR k (bez_crop NumR [s; c1; c2; e] t0 t1)).
Proof.
  intros H0 H1. unfold bez_crop. rewrite split4. cbn [fst]. rewrite split4. cbn [snd].
  set (z := div NumR t0 t1).
  assert (Hz : 0 <= z <= 1).
  { unfold z; cbn. split.
    - apply Rmult_le_pos; [lra|]. left. apply Rinv_0_lt_compat. lra.
    - apply (Rmult_le_reg_r t1); [lra|]. field_simplify; lra. }
  assert (Ez : t1 * z = t0) by (unfold z; cbn; field; lra).
  match goal with |- fst (bez_bracket _ _ _ [?a; ?b; ?c; ?d]) <= _ <= _ =>
    pose proof (cubic_bracket k a b c d) as B;
    rewrite (cubic_right_len _ _ _ _ z 0 1) in B by lra;
    rewrite (cubic_left_len s c1 c2 e t1) in B by lra end.
  replace (t1 * (z + (1 - z) * 0)) with t0 in B by (rewrite <- Ez; ring).
  replace (t1 * (z + (1 - z) * 1)) with t1 in B by ring.
  exact B.
Qed.

(* ---------------- quadratic ---------------- *)
Section Quad.
  Variables p0 p1 p2 : Cplx R.
  Variable z : R.
  Let q1 := lerp z p0 p1. Let r1 := lerp z p1 p2. Let q2 := lerp z q1 r1.

  Lemma split3 : split_bezier NumR [p0; p1; p2] z = ([p0; q1; q2], [q2; r1; p2]).
  Proof. reflexivity. Qed.

  Lemma quad_left_len a b : 0 <= z ->
    curve_len (quad_curve p0 q1 q2) a b = curve_len (quad_curve p0 p1 p2) (z * a) (z * b).
  Proof.
    intros Z. rewrite (reparam_len (quad_curve p0 p1 p2) (quad_curve p0 q1 q2) z 0 a b Z).
    - f_equal; ring.
    - intros t. unfold q2, q1, r1, lerp. destruct p0, p1, p2. cbn. ring.
    - intros t. unfold q2, q1, r1, lerp. destruct p0, p1, p2. cbn. ring.
  Qed.
  Lemma quad_right_len a b : z <= 1 ->
    curve_len (quad_curve q2 r1 p2) a b
    = curve_len (quad_curve p0 p1 p2) (z + (1 - z) * a) (z + (1 - z) * b).
  Proof.
    intros Z.
    rewrite (reparam_len (quad_curve p0 p1 p2) (quad_curve q2 r1 p2) (1 - z) z a b); [|lra| |].
    - f_equal; ring.
    - intros t. unfold q2, q1, r1, lerp. destruct p0, p1, p2. cbn. ring.
    - intros t. unfold q2, q1, r1, lerp. destruct p0, p1, p2. cbn. ring.
  Qed.
End Quad.

Lemma quad_chord01 s c e :
  chord_len NumR NumTR [s; c; e] = chord (quad_curve s c e) 0 1.
Proof.
  unfold chord_len. rewrite cabs_R. unfold chord. fold (hyp
    (gx (quad_curve s c e) 1 - gx (quad_curve s c e) 0)
    (gy (quad_curve s c e) 1 - gy (quad_curve s c e) 0)).
  destruct s, c, e. cbn. f_equal; ring.
Qed.
Lemma quad_ctrl_len s c e : ctrl_len NumR NumTR [s; c; e] = ctrl2 s c e.
Proof. unfold ctrl2. cbn. ring. Qed.

Theorem quad_bracket k : forall s c e,
  fst (bez_bracket NumR NumTR k [s; c; e]) <= curve_len (quad_curve s c e) 0 1
  <= snd (bez_bracket NumR NumTR k [s; c; e]).
Proof.
  induction k as [|k IH]; intros s c e.
  - cbn [bez_bracket fst snd]. rewrite quad_chord01, quad_ctrl_len. split.
    + apply chord_le_arclen. lra.
    + apply quad_ctrl_polygon.
  - cbn [bez_bracket]. rewrite split3. cbn [fst snd].
    set (h := half NumR).
    assert (Hh : 0 <= h <= 1) by (unfold h, half; cbn; lra).
    pose proof (IH s (lerp h s c) (lerp h (lerp h s c) (lerp h c e))) as L.
    pose proof (IH (lerp h (lerp h s c) (lerp h c e)) (lerp h c e) e) as Rr.
    rewrite (quad_left_len s c e h 0 1) in L by lra.
    rewrite (quad_right_len s c e h 0 1) in Rr by lra.
    replace (h * 0) with 0 in L by ring. replace (h * 1) with h in L by ring.
    replace (h + (1 - h) * 0) with h in Rr by ring. replace (h + (1 - h) * 1) with 1 in Rr by ring.
    pose proof (arclen_additive _ _ (gdx_c (quad_curve s c e)) (gdy_c (quad_curve s c e)) 0 h 1) as Add.
    fold (curve_len (quad_curve s c e) 0 h) (curve_len (quad_curve s c e) h 1)
         (curve_len (quad_curve s c e) 0 1) in Add.
    cbn [add NumR]. lra.
Qed.

Theorem quad_crop_bracket k s c e t0 t1 : 0 <= t0 <= t1 -> 0 < t1 ->
  fst (bez_bracket NumR NumTR k (bez_crop NumR [s; c; e] t0 t1))
  <= curve_len (quad_curve s c e) t0 t1
  <= snd (bez_bracket NumR NumTR k (bez_crop NumR [s; c; e] t0 t1)).
Proof.
  intros H0 H1. unfold bez_crop. rewrite split3. cbn [fst]. rewrite split3. cbn [snd].
  set (z := div NumR t0 t1).
  assert (Hz : 0 <= z <= 1).
  { unfold z; cbn. split.
    - apply Rmult_le_pos; [lra|]. left. apply Rinv_0_lt_compat. lra.
    - apply (Rmult_le_reg_r t1); [lra|]. field_simplify; lra. }
  assert (Ez : t1 * z = t0) by (unfold z; cbn; field; lra).
  match goal with |- fst (bez_bracket _ _ _ [?xa; ?xb; ?xc]) <= _ <= _ =>
    pose proof (quad_bracket k xa xb xc) as B;
    rewrite (quad_right_len _ _ _ z 0 1) in B by lra;
    rewrite (quad_left_len s c e t1) in B by lra end.
  replace (t1 * (z + (1 - z) * 0)) with t0 in B by (rewrite <- Ez; ring).
  replace (t1 * (z + (1 - z) * 1)) with t1 in B by ring.
  exact B.
Qed.

(* ---------------- partitions with an antiderivative of speed^2 ---------------- *)
Section Part.
  Variable g : C1curve.
  Variable G : R -> R.
  Hypothesis G_d : forall t, is_derive G t (gdx g t ^ 2 + gdy g t ^ 2).
  Let pt (t : R) : Cplx R := (gx g t, gy g t).

  Lemma speed_sq t : speed (gdx g) (gdy g) t ^ 2 = gdx g t ^ 2 + gdy g t ^ 2.
  Proof. unfold speed. rewrite <- Rsqr_pow2, Rsqr_sqrt; [reflexivity|nra]. Qed.

  Lemma cell_upper a b : a <= b -> curve_len g a b <= sqrt ((b - a) * (G b - G a)).
  Proof.
    intros H. unfold curve_len, arclen.
    pose proof (speed_continuous (gdx g) (gdy g) (gdx_c g) (gdy_c g)) as Cs.
    eapply Rle_trans;
      [apply (RInt_cauchy_schwarz (speed (gdx g) (gdy g)) Cs (speed_nonneg _ _) a b H)|].
    right. f_equal. f_equal.
    apply (RInt_of_antideriv G (fun t => speed (gdx g) (gdy g) t ^ 2)).
    - intros t. rewrite speed_sq. apply G_d.
    - intros t. apply cf2. exact Cs.
  Qed.

  Theorem part_bracket_encloses ps : forall a, sorted_from a ps ->
    fst (part_bracket NumR NumTR pt G a ps) <= curve_len g a (last ps a)
    <= snd (part_bracket NumR NumTR pt G a ps).
  Proof.
    induction ps as [|p r IH]; intros a Hs.
    - cbn [part_bracket fst snd last zero NumR]. unfold curve_len. rewrite arclen_point. lra.
    - destruct Hs as [Hap Hr]. rewrite last_cons. cbn [part_bracket fst snd].
      specialize (IH p Hr).
      pose proof (arclen_additive _ _ (gdx_c g) (gdy_c g) a p (last r p)) as Add.
      fold (curve_len g a p) (curve_len g p (last r p)) (curve_len g a (last r p)) in Add.
      pose proof (chord_le_arclen g a p Hap) as C.
      pose proof (cell_upper a p Hap) as U.
      change (cabs NumTR (csub NumR (pt p) (pt a))) with (cabs NumTR (csub NumR (pt p) (pt a))).
      rewrite cabs_R. change (hyp _ _) with (chord g a p).
      cbn [add NumR sub NumR mul NumR sqrt_ NumTR]. lra.
  Qed.
End Part.

Lemma sorted_b_from a ps : sorted_b NumR a ps = true -> sorted_from a ps.
Proof.
  revert a; induction ps as [|p r IH]; intros a; cbn; auto.
  intros H. apply andb_prop in H as [H1 H2]. split; [now apply Rle_b_true|auto].
Qed.

Lemma part_bracket_ext pt1 pt2 G1 G2 : (forall t, pt1 t = pt2 t) -> (forall t, G1 t = G2 t) ->
  forall ps a, part_bracket NumR NumTR pt1 G1 a ps = part_bracket NumR NumTR pt2 G2 a ps.
Proof.
  intros Hp Hg. induction ps as [|p r IH]; intros a; [reflexivity|].
  cbn [part_bracket]. rewrite IH, !Hp, !Hg. reflexivity.
Qed.

Lemma part_bracket_v_eq (pt : R -> Cplx R) (G : R -> R) (ev : R -> sample (K:=R)) :
  (forall t, ev t = (t, pt t, G t)) ->
  forall ps a, part_bracket_v NumR NumTR (ev a) (map ev ps) = part_bracket NumR NumTR pt G a ps.
Proof.
  intros He. induction ps as [|p r IH]; intros a; [reflexivity|].
  cbn [map part_bracket_v part_bracket]. rewrite IH, !He. reflexivity.
Qed.

(* ---------------- the elliptical arc ---------------- *)
Section Arc.
  Variables rx ry cph sph : R.
  Variable center : Cplx R.
  Variables theta delta : R.

  Definition angR (t : R) : R := (theta + t * delta) * PI / 180.
  Definition kR : R := delta * PI / 180.
  Definition arc_x t := rx * cph * cos (angR t) - ry * sph * sin (angR t) + fst center.
  Definition arc_y t := rx * sph * cos (angR t) + ry * cph * sin (angR t) + snd center.
  Definition arc_dx t := kR * (- rx * cph * sin (angR t) - ry * sph * cos (angR t)).
  Definition arc_dy t := kR * (- rx * sph * sin (angR t) + ry * cph * cos (angR t)).
  Definition arc_GR t :=
    kR * kR * (cph * cph + sph * sph) * (rx * rx + ry * ry) / 2 * t
    + kR * (cph * cph + sph * sph) * (ry * ry - rx * rx) / 4 * (2 * sin (angR t) * cos (angR t)).

  Definition arc_curve : C1curve.
  Proof.
    refine (@mkC1 arc_x arc_y arc_dx arc_dy _ _ _ _); intros t;
      unfold arc_x, arc_y, arc_dx, arc_dy, angR, kR.
    - auto_derive; [exact I|rfield].
    - auto_derive; [exact I|rfield].
    - match goal with |- continuous ?f ?t =>
        apply (@ex_derive_continuous R_AbsRing R_NormedModule f t); auto_derive; exact I end.
    - match goal with |- continuous ?f ?t =>
        apply (@ex_derive_continuous R_AbsRing R_NormedModule f t); auto_derive; exact I end.
  Defined.

  (* the model's Arc.point / Arc.derivative / arc_G are these functions *)
  Lemma arc_pt_curve t :
    arc_pt NumR NumTR rx ry cph sph center theta delta t = (gx arc_curve t, gy arc_curve t).
  Proof.
    unfold arc_pt, arc_angle, re, im. rewrite lit_R. reflexivity.
  Qed.
  Lemma arc_d1_curve t :
    arc_d1 NumR NumTR rx ry cph sph theta delta t = (gdx arc_curve t, gdy arc_curve t).
  Proof.
    unfold arc_d1, arc_angle. rewrite lit_R. reflexivity.
  Qed.
  Lemma arc_G_R t : arc_G NumR NumTR rx ry cph sph theta delta t = arc_GR t.
  Proof.
    unfold arc_G, arc_angle. rewrite !lit_R. reflexivity.
  Qed.

  Lemma arc_GR_deriv t : is_derive arc_GR t (gdx arc_curve t ^ 2 + gdy arc_curve t ^ 2).
  Proof.
    unfold arc_GR. cbn [gdx gdy arc_curve]. unfold arc_dx, arc_dy.
    assert (D : is_derive angR t kR) by (unfold angR, kR; auto_derive; [exact I|rfield]).
    auto_derive.
    - repeat split; eexists; exact D.
    - replace (Derive (fun x : R => angR x) t) with kR
        by (symmetry; apply is_derive_unique; exact D).
      pose proof (sin2_cos2 (angR t)) as SC. unfold Rsqr in SC.
      set (S := sin (angR t)) in *. set (C := cos (angR t)) in *.
      replace (rx * rx + ry * ry) with ((rx * rx + ry * ry) * (S * S + C * C)) by (rewrite SC; ring).
      field.
  Qed.

  Theorem arc_part_bracket a ps : sorted_from a ps ->
    let b := part_bracket NumR NumTR (arc_pt NumR NumTR rx ry cph sph center theta delta)
                          (arc_G NumR NumTR rx ry cph sph theta delta) a ps in
    fst b <= curve_len arc_curve a (last ps a) <= snd b.
  Proof.
    intros Hs b. unfold b.
    rewrite (part_bracket_ext _ (fun t => (gx arc_curve t, gy arc_curve t)) _ arc_GR
                              arc_pt_curve arc_G_R).
    apply part_bracket_encloses; auto. apply arc_GR_deriv.
  Qed.

  Lemma arc_sample_eq t :
    arc_sample NumR NumTR rx ry cph sph center theta delta t
    = (t, arc_pt NumR NumTR rx ry cph sph center theta delta t,
       arc_G NumR NumTR rx ry cph sph theta delta t).
  Proof. reflexivity. Qed.
  Theorem arc_sample_bracket a ps : sorted_from a ps ->
    let ev := arc_sample NumR NumTR rx ry cph sph center theta delta in
    let b := part_bracket_v NumR NumTR (ev a) (map ev ps) in
    fst b <= curve_len arc_curve a (last ps a) <= snd b.
  Proof.
    intros Hs ev b. unfold b.
    rewrite (part_bracket_v_eq (arc_pt NumR NumTR rx ry cph sph center theta delta)
                               (arc_G NumR NumTR rx ry cph sph theta delta) ev arc_sample_eq).
    apply arc_part_bracket. exact Hs.
  Qed.
End Arc.
