(* Proofs/ParseCorollaries.v — consequences of the refinement theorem, stated
   on the model of the implementation (impl_parse): what the last command of a
   program contributes (zero-radius arc, closepath, S/T fallback and
   reflection), and the equivalences between spellings at the command level
   (moveto with further pairs = moveto + lineto; a repeated command letter =
   implicit repetition). *)
From Coq Require Import List Bool Arith Lia.
From SVP Require Import Base.Num Base.Cplx Model.Parse Proofs.ParseRefine.
Import ListNotations.

Section Corollaries.
  Context {K : Type} (N : Num K) (L : ParseLawsOK N).
  Variables none_ok coinc_ok : bool.
  Notation pt := (Cplx K).
  Notation sstate := (@sstate K).
  Notation lastctrl := (@lastctrl K).

  (* the hypotheses of the refinement theorem for the variant at hand *)
  Definition side_ok (pos0 : pt) (prog : list (command K)) : Prop :=
    grammatical prog = true
    /\ (none_ok = true \/ no_smooth_after_close prog = true)
    /\ (coinc_ok = true \/ no_coincident_arc N pos0 prog = true).

  Lemma refines_side pos0 prog :
    side_ok pos0 prog ->
    impl_parse N none_ok coinc_ok (flatten N prog) pos0 = Ok (spec_run N pos0 prog).
  Proof. intros (G & A & B). apply refines_general; assumption. Qed.

  (* ---------------------------------------------------------------- *)
  (* the specification is compositional                                *)

  Lemma spec_from_app ss p q :
    spec_from N ss (p ++ q)
    = (fst (spec_from N (fst (spec_from N ss p)) q),
       snd (spec_from N ss p) ++ snd (spec_from N (fst (spec_from N ss p)) q)).
  Proof.
    revert ss. induction p as [|c r IH]; intros ss.
    - cbn. destruct (spec_from N ss q); reflexivity.
    - rewrite <- app_comm_cons, !(spec_from_cons N), IH. cbn [fst snd].
      rewrite app_assoc. reflexivity.
  Qed.
  Lemma spec_from_one ss c : spec_from N ss [c] = spec_cmd N ss c.
  Proof. rewrite (spec_from_cons N). cbn. rewrite app_nil_r. destruct (spec_cmd N ss c); reflexivity. Qed.
  Lemma spec_run_snoc pos0 prog c :
    spec_run N pos0 (prog ++ [c])
    = spec_run N pos0 prog ++ snd (spec_cmd N (spec_state N pos0 prog) c).
  Proof. unfold spec_run, spec_state. rewrite spec_from_app, spec_from_one. reflexivity. Qed.

  Lemma impl_snoc pos0 prog c :
    side_ok pos0 (prog ++ [c]) ->
    impl_parse N none_ok coinc_ok (flatten N (prog ++ [c])) pos0
    = Ok (spec_run N pos0 prog ++ snd (spec_cmd N (spec_state N pos0 prog) c)).
  Proof. intros S. rewrite (refines_side _ _ S), spec_run_snoc. reflexivity. Qed.

  (* ---------------------------------------------------------------- *)
  (* zero-radius arc -> Line                                           *)

  Theorem zero_radius_arc_is_line pos0 prog abs a :
    side_ok pos0 (prog ++ [ArcTo abs [a]]) ->
    re (aa_r a) = zero N \/ im (aa_r a) = zero N ->
    let cur := s_cur (spec_state N pos0 prog) in
    let e := to_abs N abs cur (aa_end a) in
    cur <> e ->
    impl_parse N none_ok coinc_ok (flatten N (prog ++ [ArcTo abs [a]])) pos0
    = Ok (spec_run N pos0 prog ++ [Line cur e]).
  Proof.
    intros S Z cur e NE. rewrite (impl_snoc _ _ _ S). do 2 f_equal.
    cbn [spec_cmd spec_args]. unfold sp_arc, arc_end. cbn [fst snd]. rewrite app_nil_r.
    fold cur. fold e.
    destruct (ceqb N cur e) eqn:E.
    - apply (ceqb_true N L) in E. contradiction.
    - assert (Zb : eqb N (re (aa_r a)) (zero N) || eqb N (im (aa_r a)) (zero N) = true).
      { apply orb_true_iff. destruct Z as [Z|Z]; [left|right]; apply (pl_eqb L); exact Z. }
      rewrite Zb. reflexivity.
  Qed.

  (* a proper arc is stored with the absolute values of its radii *)
  Theorem arc_is_arc pos0 prog abs a :
    side_ok pos0 (prog ++ [ArcTo abs [a]]) ->
    re (aa_r a) <> zero N -> im (aa_r a) <> zero N ->
    let cur := s_cur (spec_state N pos0 prog) in
    let e := to_abs N abs cur (aa_end a) in
    cur <> e ->
    impl_parse N none_ok coinc_ok (flatten N (prog ++ [ArcTo abs [a]])) pos0
    = Ok (spec_run N pos0 prog ++
          [Arc cur (mkc (nabs N (re (aa_r a))) (nabs N (im (aa_r a)))) (aa_rot a)
               (aa_large a) (aa_sweep a) e]).
  Proof.
    intros S Z1 Z2 cur e NE. rewrite (impl_snoc _ _ _ S). do 2 f_equal.
    cbn [spec_cmd spec_args]. unfold sp_arc, arc_end. cbn [fst snd]. rewrite app_nil_r.
    fold cur. fold e.
    destruct (ceqb N cur e) eqn:E.
    - apply (ceqb_true N L) in E. contradiction.
    - destruct (eqb N (re (aa_r a)) (zero N)) eqn:E1.
      { apply (pl_eqb L) in E1. contradiction. }
      destruct (eqb N (im (aa_r a)) (zero N)) eqn:E2.
      { apply (pl_eqb L) in E2. contradiction. }
      reflexivity.
  Qed.

  (* ---------------------------------------------------------------- *)
  (* closepath: a closing line only when the pen is elsewhere          *)

  Theorem close_at_start_adds_nothing pos0 prog up :
    side_ok pos0 (prog ++ [Close up]) ->
    s_cur (spec_state N pos0 prog) = s_start (spec_state N pos0 prog) ->
    impl_parse N none_ok coinc_ok (flatten N (prog ++ [Close up])) pos0
    = Ok (spec_run N pos0 prog).
  Proof.
    intros S E. rewrite (impl_snoc _ _ _ S). f_equal.
    cbn [spec_cmd]. unfold sp_close. cbn [snd].
    apply (ceqb_true N L) in E. rewrite E. apply app_nil_r.
  Qed.
  Theorem close_elsewhere_adds_line pos0 prog up :
    side_ok pos0 (prog ++ [Close up]) ->
    s_cur (spec_state N pos0 prog) <> s_start (spec_state N pos0 prog) ->
    impl_parse N none_ok coinc_ok (flatten N (prog ++ [Close up])) pos0
    = Ok (spec_run N pos0 prog ++
          [Line (s_cur (spec_state N pos0 prog)) (s_start (spec_state N pos0 prog))]).
  Proof.
    intros S NE. rewrite (impl_snoc _ _ _ S). do 2 f_equal.
    cbn [spec_cmd]. unfold sp_close. cbn [snd].
    destruct (ceqb N _ _) eqn:E; [|reflexivity].
    apply (ceqb_true N L) in E. contradiction.
  Qed.
  (* after a closepath the pen is at the subpath start, which is kept *)
  Lemma close_state pos0 prog up :
    let ss := spec_state N pos0 (prog ++ [Close up]) in
    s_cur ss = s_start (spec_state N pos0 prog) /\ s_start ss = s_start (spec_state N pos0 prog).
  Proof.
    unfold spec_state. rewrite spec_from_app, spec_from_one. cbn. split; reflexivity.
  Qed.

  (* ---------------------------------------------------------------- *)
  (* S and T: reflection and its fallback                              *)

  Definition ends_with_cubic (prog : list (command K)) : bool :=
    match rev prog with
    | CurveTo _ _ :: _ | SmoothTo _ _ :: _ => true
    | _ => false
    end.
  Definition ends_with_quad (prog : list (command K)) : bool :=
    match rev prog with
    | QuadTo _ _ :: _ | TTo _ _ :: _ => true
    | _ => false
    end.

  (* kind of the last control point a command leaves behind *)
  Definition is_cubic_ctrl (c : lastctrl) : bool := match c with CubicCtrl _ => true | _ => false end.
  Definition is_quad_ctrl (c : lastctrl) : bool := match c with QuadCtrl _ => true | _ => false end.

  Lemma spec_args_last {A} (f : sstate -> A -> sstate * list (seg K)) (P : sstate -> Prop) :
    (forall ss a, P (fst (f ss a))) ->
    forall args ss, args <> [] -> P (fst (spec_args f ss args)).
  Proof.
    intros H. induction args as [|a r IH]; intros ss NE; [congruence|].
    rewrite spec_args_cons. cbn [fst].
    destruct r as [|b r'].
    - cbn. apply H.
    - apply IH. discriminate.
  Qed.
  Lemma spec_args_keep {A} (f : sstate -> A -> sstate * list (seg K)) (P : sstate -> Prop) :
    (forall ss a, P (fst (f ss a))) ->
    forall args ss, P ss -> P (fst (spec_args f ss args)).
  Proof.
    intros H. induction args as [|a r IH]; intros ss Hs; [exact Hs|].
    rewrite spec_args_cons. cbn [fst]. apply IH. apply H.
  Qed.

  Lemma nonempty_ne {A} (l : list A) : nonempty l = true -> l <> [].
  Proof. destruct l; [discriminate|discriminate]. Qed.

  Lemma cmd_ctrl_kind ss c :
    cmd_wf c = true ->
    is_cubic_ctrl (s_ctrl (fst (spec_cmd N ss c)))
    = match c with CurveTo _ _ | SmoothTo _ _ => true | _ => false end
    /\ is_quad_ctrl (s_ctrl (fst (spec_cmd N ss c)))
    = match c with QuadTo _ _ | TTo _ _ => true | _ => false end.
  Proof.
    intros W.
    destruct c as [abs ps|abs ps|abs xs|abs ys|abs cs|abs cs|abs qs|abs ps|abs l|up];
      cbn [spec_cmd cmd_wf] in *.
    - destruct ps as [|p more]; [discriminate|].
      apply (spec_args_keep (sp_line N abs)
               (fun s => is_cubic_ctrl (s_ctrl s) = false /\ is_quad_ctrl (s_ctrl s) = false)).
      + intros; cbn; split; reflexivity. + cbn; split; reflexivity.
    - apply (spec_args_last (sp_line N abs)
               (fun s => is_cubic_ctrl (s_ctrl s) = false /\ is_quad_ctrl (s_ctrl s) = false)).
      + intros; cbn; split; reflexivity. + apply nonempty_ne, W.
    - apply (spec_args_last (sp_h N abs)
               (fun s => is_cubic_ctrl (s_ctrl s) = false /\ is_quad_ctrl (s_ctrl s) = false)).
      + intros; cbn; split; reflexivity. + apply nonempty_ne, W.
    - apply (spec_args_last (sp_v N abs)
               (fun s => is_cubic_ctrl (s_ctrl s) = false /\ is_quad_ctrl (s_ctrl s) = false)).
      + intros; cbn; split; reflexivity. + apply nonempty_ne, W.
    - apply (spec_args_last (sp_curve N abs)
               (fun s => is_cubic_ctrl (s_ctrl s) = true /\ is_quad_ctrl (s_ctrl s) = false)).
      + intros s [[a b] e]; cbn; split; reflexivity. + apply nonempty_ne, W.
    - apply (spec_args_last (sp_smooth N abs)
               (fun s => is_cubic_ctrl (s_ctrl s) = true /\ is_quad_ctrl (s_ctrl s) = false)).
      + intros s [a e]; cbn; split; reflexivity. + apply nonempty_ne, W.
    - apply (spec_args_last (sp_quad N abs)
               (fun s => is_cubic_ctrl (s_ctrl s) = false /\ is_quad_ctrl (s_ctrl s) = true)).
      + intros s [a e]; cbn; split; reflexivity. + apply nonempty_ne, W.
    - apply (spec_args_last (sp_t N abs)
               (fun s => is_cubic_ctrl (s_ctrl s) = false /\ is_quad_ctrl (s_ctrl s) = true)).
      + intros; cbn; split; reflexivity. + apply nonempty_ne, W.
    - apply (spec_args_last (sp_arc N abs)
               (fun s => is_cubic_ctrl (s_ctrl s) = false /\ is_quad_ctrl (s_ctrl s) = false)).
      + intros; cbn; split; reflexivity. + apply nonempty_ne, W.
    - cbn. split; reflexivity.
  Qed.

  Lemma state_ctrl_kind pos0 prog :
    forallb (@cmd_wf K) prog = true ->
    is_cubic_ctrl (s_ctrl (spec_state N pos0 prog)) = ends_with_cubic prog
    /\ is_quad_ctrl (s_ctrl (spec_state N pos0 prog)) = ends_with_quad prog.
  Proof.
    intros W. destruct (rev prog) as [|c r] eqn:E.
    - assert (prog = []) as ->. { apply (f_equal (@rev _)) in E. rewrite rev_involutive in E. exact E. }
      cbn. split; reflexivity.
    - assert (P : prog = rev r ++ [c]).
      { apply (f_equal (@rev _)) in E. rewrite rev_involutive in E. exact E. }
      unfold ends_with_cubic, ends_with_quad. rewrite E.
      rewrite P in W |- *. rewrite forallb_app in W. apply andb_true_iff in W. destruct W as [_ W].
      cbn in W. rewrite andb_true_r in W.
      unfold spec_state. rewrite spec_from_app, spec_from_one. cbn [fst].
      destruct (cmd_ctrl_kind (fst (spec_from N (spec_init pos0) (rev r))) c W) as [A B].
      rewrite A, B. destruct c; split; reflexivity.
  Qed.

  Lemma side_wf pos0 prog : side_ok pos0 prog -> forallb (@cmd_wf K) prog = true.
  Proof. intros (G & _). unfold grammatical in G. apply andb_true_iff in G. apply G. Qed.
  Lemma side_wf_prefix pos0 prog c : side_ok pos0 (prog ++ [c]) -> forallb (@cmd_wf K) prog = true.
  Proof.
    intros S. apply side_wf in S. rewrite forallb_app in S. apply andb_true_iff in S. apply S.
  Qed.

  (* S after anything but C/S (also directly after a closepath or a moveto):
     the first control point is the current point *)
  Theorem smooth_fallback pos0 prog abs c2 e :
    side_ok pos0 (prog ++ [SmoothTo abs [(c2, e)]]) ->
    ends_with_cubic prog = false ->
    let cur := s_cur (spec_state N pos0 prog) in
    impl_parse N none_ok coinc_ok (flatten N (prog ++ [SmoothTo abs [(c2, e)]])) pos0
    = Ok (spec_run N pos0 prog ++ [Cubic cur cur (to_abs N abs cur c2) (to_abs N abs cur e)]).
  Proof.
    intros S E cur. rewrite (impl_snoc _ _ _ S). do 2 f_equal.
    destruct (state_ctrl_kind pos0 prog (side_wf_prefix _ _ _ S)) as [A _].
    rewrite E in A. cbn [spec_cmd spec_args]. unfold sp_smooth. cbn [fst snd]. rewrite app_nil_r.
    fold cur. destruct (s_ctrl (spec_state N pos0 prog)); [reflexivity|discriminate|reflexivity].
  Qed.
  (* S after C/S: reflection of the previous second control point *)
  Theorem smooth_reflects pos0 prog abs c2 e :
    side_ok pos0 (prog ++ [SmoothTo abs [(c2, e)]]) ->
    ends_with_cubic prog = true ->
    let cur := s_cur (spec_state N pos0 prog) in
    exists s c1 pc2 rest,
      rev (spec_run N pos0 prog) = Cubic s c1 pc2 cur :: rest /\
      impl_parse N none_ok coinc_ok (flatten N (prog ++ [SmoothTo abs [(c2, e)]])) pos0
      = Ok (spec_run N pos0 prog ++
            [Cubic cur (reflect N cur pc2) (to_abs N abs cur c2) (to_abs N abs cur e)]).
  Proof.
    intros S E cur. rewrite (impl_snoc _ _ _ S).
    (* the previous segment and the recorded control point *)
    assert (W := side_wf_prefix _ _ _ S).
    unfold ends_with_cubic in E.
    destruct (rev prog) as [|c r] eqn:Er; [discriminate|].
    assert (P : prog = rev r ++ [c]).
    { apply (f_equal (@rev _)) in Er. rewrite rev_involutive in Er. exact Er. }
    subst cur. rewrite P in *. clear P Er.
    rewrite forallb_app in W. apply andb_true_iff in W. destruct W as [_ W].
    cbn in W. rewrite andb_true_r in W.
    rewrite !spec_run_snoc. unfold spec_state. rewrite !spec_from_app, !spec_from_one. cbn [fst].
    set (s0 := fst (spec_from N (spec_init pos0) (rev r))).
    assert (Hlast : forall A (f : sstate -> A -> sstate * list (seg K)),
               (forall ss a, exists s c1 pc2,
                     snd (f ss a) = [Cubic s c1 pc2 (s_cur (fst (f ss a)))]
                     /\ s_ctrl (fst (f ss a)) = CubicCtrl pc2) ->
               forall args ss, args <> [] ->
                 exists s c1 pc2 pre,
                   snd (spec_args f ss args) = pre ++ [Cubic s c1 pc2 (s_cur (fst (spec_args f ss args)))]
                   /\ s_ctrl (fst (spec_args f ss args)) = CubicCtrl pc2).
    { intros A f H. induction args as [|a more IH]; intros ss NE; [congruence|].
      rewrite spec_args_cons. cbn [fst snd].
      destruct more as [|b more'].
      - cbn. destruct (H ss a) as (s & c1 & pc2 & E1 & E2).
        exists s, c1, pc2, []. rewrite E1. cbn. split; [reflexivity|exact E2].
      - destruct (IH (fst (f ss a))) as (s & c1 & pc2 & pre & E1 & E2); [discriminate|].
        exists s, c1, pc2, (snd (f ss a) ++ pre). rewrite E1, app_assoc. split; [reflexivity|exact E2]. }
    assert (Hc : exists s c1 pc2 pre,
               snd (spec_cmd N s0 c) = pre ++ [Cubic s c1 pc2 (s_cur (fst (spec_cmd N s0 c)))]
               /\ s_ctrl (fst (spec_cmd N s0 c)) = CubicCtrl pc2).
    { destruct c; try discriminate; cbn [spec_cmd cmd_wf] in *.
      - apply Hlast; [|apply nonempty_ne, W].
        intros ss [[a b] d]. cbn. do 3 eexists. split; reflexivity.
      - apply Hlast; [|apply nonempty_ne, W].
        intros ss [a d]. cbn. do 3 eexists. split; reflexivity. }
    destruct Hc as (s & c1 & pc2 & pre & E1 & E2).
    exists s, c1, pc2, (rev pre ++ rev (spec_run N pos0 (rev r))).
    split.
    - rewrite E1, app_assoc, rev_app_distr. cbn. rewrite rev_app_distr. reflexivity.
    - do 2 f_equal. cbn [spec_cmd spec_args]. unfold sp_smooth. cbn [fst snd].
      rewrite E2, app_nil_r. reflexivity.
  Qed.
  (* T after anything but Q/T *)
  Theorem t_fallback pos0 prog abs e :
    side_ok pos0 (prog ++ [TTo abs [e]]) ->
    ends_with_quad prog = false ->
    let cur := s_cur (spec_state N pos0 prog) in
    impl_parse N none_ok coinc_ok (flatten N (prog ++ [TTo abs [e]])) pos0
    = Ok (spec_run N pos0 prog ++ [Quad cur cur (to_abs N abs cur e)]).
  Proof.
    intros S E cur. rewrite (impl_snoc _ _ _ S). do 2 f_equal.
    destruct (state_ctrl_kind pos0 prog (side_wf_prefix _ _ _ S)) as [_ A].
    rewrite E in A. cbn [spec_cmd spec_args]. unfold sp_t. cbn [fst snd]. rewrite app_nil_r.
    fold cur. destruct (s_ctrl (spec_state N pos0 prog)); [reflexivity|reflexivity|discriminate].
  Qed.

  (* ---------------------------------------------------------------- *)
  (* command-level spellings                                           *)

  Lemma spec_args_app {A} (f : sstate -> A -> sstate * list (seg K)) ss l1 l2 :
    spec_args f ss (l1 ++ l2)
    = (fst (spec_args f (fst (spec_args f ss l1)) l2),
       snd (spec_args f ss l1) ++ snd (spec_args f (fst (spec_args f ss l1)) l2)).
  Proof.
    revert ss. induction l1 as [|a r IH]; intros ss.
    - cbn. destruct (spec_args f ss l2); reflexivity.
    - rewrite <- app_comm_cons, !spec_args_cons, IH. cbn [fst snd]. rewrite app_assoc. reflexivity.
  Qed.

  (* c written as one letter with all its groups = c1 then c2 (the letter
     repeated before the second batch; after a moveto the repeated letter is
     the lineto of the same case) *)
  Inductive cmd_split : command K -> command K -> command K -> Prop :=
  | split_M abs p l1 l2 : cmd_split (MoveTo abs (p :: l1 ++ l2)) (MoveTo abs (p :: l1)) (LineTo abs l2)
  | split_L abs l1 l2 : cmd_split (LineTo abs (l1 ++ l2)) (LineTo abs l1) (LineTo abs l2)
  | split_H abs l1 l2 : cmd_split (HTo abs (l1 ++ l2)) (HTo abs l1) (HTo abs l2)
  | split_V abs l1 l2 : cmd_split (VTo abs (l1 ++ l2)) (VTo abs l1) (VTo abs l2)
  | split_C abs l1 l2 : cmd_split (CurveTo abs (l1 ++ l2)) (CurveTo abs l1) (CurveTo abs l2)
  | split_S abs l1 l2 : cmd_split (SmoothTo abs (l1 ++ l2)) (SmoothTo abs l1) (SmoothTo abs l2)
  | split_Q abs l1 l2 : cmd_split (QuadTo abs (l1 ++ l2)) (QuadTo abs l1) (QuadTo abs l2)
  | split_T abs l1 l2 : cmd_split (TTo abs (l1 ++ l2)) (TTo abs l1) (TTo abs l2)
  | split_A abs l1 l2 : cmd_split (ArcTo abs (l1 ++ l2)) (ArcTo abs l1) (ArcTo abs l2).

  Lemma spec_cmd_split ss c c1 c2 :
    cmd_split c c1 c2 -> spec_from N ss [c1; c2] = spec_cmd N ss c.
  Proof.
    intros S. rewrite (spec_from_cons N), spec_from_one.
    destruct S; cbn [spec_cmd]; rewrite spec_args_app; reflexivity.
  Qed.

  Theorem spec_run_split pos0 pre post c c1 c2 :
    cmd_split c c1 c2 ->
    spec_run N pos0 (pre ++ c :: post) = spec_run N pos0 (pre ++ c1 :: c2 :: post).
  Proof.
    intros S. unfold spec_run.
    change (c :: post) with ([c] ++ post). change (c1 :: c2 :: post) with ([c1; c2] ++ post).
    rewrite !spec_from_app. cbn [fst snd].
    rewrite (spec_cmd_split _ _ _ _ S), spec_from_one. reflexivity.
  Qed.

  (* on the model of the implementation: both spellings are accepted and give
     the same path (the side conditions are needed for both programs) *)
  Theorem repeated_letter_same_path pos0 pre post c c1 c2 :
    cmd_split c c1 c2 ->
    side_ok pos0 (pre ++ c :: post) -> side_ok pos0 (pre ++ c1 :: c2 :: post) ->
    impl_parse N none_ok coinc_ok (flatten N (pre ++ c :: post)) pos0
    = impl_parse N none_ok coinc_ok (flatten N (pre ++ c1 :: c2 :: post)) pos0.
  Proof.
    intros S A B. rewrite (refines_side _ _ A), (refines_side _ _ B).
    f_equal. apply spec_run_split, S.
  Qed.

  (* moveto followed by further pairs = moveto, then lineto of the same case *)
  Theorem moveto_extra_pairs_are_lineto pos0 abs p more post :
    more <> [] ->
    side_ok pos0 (MoveTo abs (p :: more) :: post) ->
    side_ok pos0 (MoveTo abs [p] :: LineTo abs more :: post) ->
    impl_parse N none_ok coinc_ok (flatten N (MoveTo abs (p :: more) :: post)) pos0
    = impl_parse N none_ok coinc_ok (flatten N (MoveTo abs [p] :: LineTo abs more :: post)) pos0
    /\ spec_run N pos0 (MoveTo abs (p :: more) :: post)
       = spec_run N pos0 (MoveTo abs [p] :: LineTo abs more :: post).
  Proof.
    intros _ A B. split.
    - exact (repeated_letter_same_path pos0 [] post _ _ _ (split_M abs p [] more) A B).
    - exact (spec_run_split pos0 [] post _ _ _ (split_M abs p [] more)).
  Qed.

  (* relative commands add the current point, absolute ones do not *)
  Theorem lineto_rel_abs pos0 prog abs p :
    side_ok pos0 (prog ++ [LineTo abs [p]]) ->
    let cur := s_cur (spec_state N pos0 prog) in
    impl_parse N none_ok coinc_ok (flatten N (prog ++ [LineTo abs [p]])) pos0
    = Ok (spec_run N pos0 prog ++ [Line cur (if abs then p else cadd N cur p)]).
  Proof. intros S cur. rewrite (impl_snoc _ _ _ S). reflexivity. Qed.
End Corollaries.
