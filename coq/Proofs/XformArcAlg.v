(* Proofs/XformArcAlg.v — the Arc constructor (Model/Arc.v, arc_init =
   __init__ + _parameterize) is equivariant under translations and rotations,
   proved at the level of the formulas of _parameterize, over ANY carrier
   satisfying NumFieldOK and for ANY transcendental record T:

   * translating start and end leaves zp1 — hence radius check, scaled radius,
     radicand, c', u1, u2, theta, delta — unchanged and moves the centre;
   * rotating start and end by cs about origin and replacing rot_matrix by
     rot_matrix*cs (what rotation + degs does when cos/sin satisfy the addition
     formulas: hypothesis Hrot, discharged over R in XformArcR.v) again leaves
     zp1 unchanged and rotates the centre.
   point(t) then commutes by ring. *)
From Coq Require Import ZArith List Bool Field Lia.
From SVP Require Import Base.Num Base.Cplx Base.FieldTac Base.FieldTac2
     Model.Bezier Model.Arc Model.Xform.
Import ListNotations.

Section ArcAlg.
  Context {K : Type} (N : Num K) (OK : NumFieldOK N) (T : NumT K).
  Add Field KF : (Fth OK).
  Local Notation C := (Cplx K).

  Ltac destruct_c := repeat match goal with p : Cplx _ |- _ => destruct p end.

  (* ---- point(t) as a function of the derived attributes ---- *)
  Lemma arc_point_shift (P P' : ArcP K) (w : C) t :
    a_radius P' = a_radius P -> a_theta P' = a_theta P -> a_delta P' = a_delta P ->
    a_rot P' = a_rot P -> a_center P' = cadd N (a_center P) w ->
    arc_point N T P' t = cadd N (arc_point N T P t) w.
  Proof.
    intros Hr Ht Hd Hm Hc. unfold arc_point. rewrite Hr, Ht, Hd, Hm, Hc.
    generalize (cos_ T (div N (mul N (add N (a_theta P) (mul N t (a_delta P))) (pi_ T)) (d180 N))).
    generalize (sin_ T (div N (mul N (add N (a_theta P) (mul N t (a_delta P))) (pi_ T)) (d180 N))).
    intros sa ca. destruct (a_rot P), (a_radius P), (a_center P), w.
    cunfold. apply cplx_eq; cbn [fst snd]; ring.
  Qed.

  Lemma arc_point_rot (P P' : ArcP K) (cs o : C) t :
    a_radius P' = a_radius P -> a_theta P' = a_theta P -> a_delta P' = a_delta P ->
    a_rot P' = cmul N (a_rot P) cs -> a_center P' = rotate_point N cs o (a_center P) ->
    arc_point N T P' t = rotate_point N cs o (arc_point N T P t).
  Proof.
    intros Hr Ht Hd Hm Hc. unfold arc_point. rewrite Hr, Ht, Hd, Hm, Hc.
    generalize (cos_ T (div N (mul N (add N (a_theta P) (mul N t (a_delta P))) (pi_ T)) (d180 N))).
    generalize (sin_ T (div N (mul N (add N (a_theta P) (mul N t (a_delta P))) (pi_ T)) (d180 N))).
    intros sa ca. destruct (a_rot P), (a_radius P), (a_center P), cs, o.
    unfold rotate_point. cunfold. apply cplx_eq; cbn [fst snd]; ring.
  Qed.

  (* ---- everything downstream of zp1 ---- *)
  (* if two constructor calls have the same radius argument, flags, and the same
     zp1, they have the same stored radius, c', u1, u2, theta, delta *)
  Section SameZ.
    Variables (s e s' e' radius : C) (rot rot' : K) (large sweep fx : bool).
    Hypothesis Hz : arc_zp1_of N T s' rot' e' = arc_zp1_of N T s rot e.
    Let P := arc_init_v N T fx s radius rot large sweep e.
    Let P' := arc_init_v N T fx s' radius rot' large sweep e'.

    Lemma same_rc : arc_rc_of N T s' radius rot' e' = arc_rc_of N T s radius rot e.
    Proof. unfold arc_rc_of. now rewrite Hz. Qed.
    Lemma same_radius : arc_radius_of N T s' radius rot' e' = arc_radius_of N T s radius rot e.
    Proof. unfold arc_radius_of. now rewrite same_rc. Qed.
    Lemma same_radicand : arc_radicand_of N T s' radius rot' e' = arc_radicand_of N T s radius rot e.
    Proof. unfold arc_radicand_of. now rewrite same_radius, Hz. Qed.
    Lemma same_radical : arc_radical_of N T fx s' radius rot' e' = arc_radical_of N T fx s radius rot e.
    Proof. unfold arc_radical_of. now rewrite same_radicand, same_rc. Qed.
    Lemma same_cp : arc_cp_of N T fx s' radius rot' large sweep e' = arc_cp_of N T fx s radius rot large sweep e.
    Proof. unfold arc_cp_of. now rewrite same_radical, same_radius, Hz. Qed.
    Lemma same_u1 : arc_u1_of N T fx s' radius rot' large sweep e' = arc_u1_of N T fx s radius rot large sweep e.
    Proof. unfold arc_u1_of. now rewrite same_cp, same_radius, Hz. Qed.
    Lemma same_u2 : arc_u2_of N T fx s' radius rot' large sweep e' = arc_u2_of N T fx s radius rot large sweep e.
    Proof. unfold arc_u2_of. now rewrite same_cp, same_radius, Hz. Qed.

    Lemma same_fields :
      a_radius P' = a_radius P /\ a_theta P' = a_theta P /\ a_delta P' = a_delta P.
    Proof.
      unfold P, P', arc_init_v. cbn [a_radius a_theta a_delta].
      now rewrite same_radius, same_u1, same_u2.
    Qed.
  End SameZ.

  (* ---------------------------------------------------------------- *)
  (* translation                                                        *)
  (* ---------------------------------------------------------------- *)
  Lemma zp1_translate s e rot z :
    arc_zp1_of N T (cadd N s z) rot (cadd N e z) = arc_zp1_of N T s rot e.
  Proof.
    unfold arc_zp1_of, arc_zp1. f_equal. f_equal.
    destruct_c. cunfold. apply cplx_eq; cbn [fst snd]; ring.
  Qed.

  Lemma center_translate rotm cp s e z :
    arc_center N rotm cp (cadd N s z) (cadd N e z) = cadd N (arc_center N rotm cp s e) z.
  Proof.
    unfold arc_center, two. destruct_c. cunfold. cbn [lit of_pos].
    apply cplx_eq; cbn [fst snd]; field; numnz OK.
  Qed.

  Theorem arc_init_v_translate fx s radius rot large sweep e z t :
    arc_point N T (arc_init_v N T fx (cadd N s z) radius rot large sweep (cadd N e z)) t
    = cadd N (arc_point N T (arc_init_v N T fx s radius rot large sweep e) t) z.
  Proof.
    destruct (same_fields s e (cadd N s z) (cadd N e z) radius rot rot large sweep fx
                          (zp1_translate s e rot z)) as (Hr & Ht & Hd).
    apply arc_point_shift; auto.
    unfold arc_init_v. cbn [a_center].
    rewrite (same_cp s e (cadd N s z) (cadd N e z) radius rot rot large sweep fx (zp1_translate s e rot z)).
    apply center_translate.
  Qed.
  Theorem arc_init_translate s radius rot large sweep e z t :
    arc_point N T (arc_init N T (cadd N s z) radius rot large sweep (cadd N e z)) t
    = cadd N (arc_point N T (arc_init N T s radius rot large sweep e) t) z.
  Proof. apply arc_init_v_translate. Qed.

  (* ---------------------------------------------------------------- *)
  (* rotation                                                           *)
  (* ---------------------------------------------------------------- *)
  (* the two algebraic facts, for arbitrary m = rot_matrix and cs *)
  Lemma zp1_rotate_gen (m cs s e o : C) :
    cnorm2 N cs <> zero N -> cnorm2 N m <> zero N ->
    cmul N (cdiv N (c1 N) (cmul N m cs)) (csub N (rotate_point N cs o s) (rotate_point N cs o e))
    = cmul N (cdiv N (c1 N) m) (csub N s e).
  Proof.
    unfold rotate_point. destruct m as [mr mi], cs as [c s'], s as [sx sy], e as [ex ey], o as [ox oy].
    cunfold. intros Hcs Hm.
    assert (Hp : mul N (add N (mul N mr mr) (mul N mi mi)) (add N (mul N c c) (mul N s' s')) <> zero N)
      by (apply (mul_nz N OK); assumption).
    assert (Hp' : add N (mul N (sub N (mul N mr c) (mul N mi s')) (sub N (mul N mr c) (mul N mi s')))
                        (mul N (add N (mul N mr s') (mul N mi c)) (add N (mul N mr s') (mul N mi c)))
                  <> zero N).
    { intros E. apply Hp. rewrite <- E. ring. }
    do 3 cunfold. apply cplx_eq; cbn [fst snd]; field; split; assumption.
  Qed.

  Lemma center_rotate_gen (m cs cp s e o : C) :
    arc_center N (cmul N m cs) cp (rotate_point N cs o s) (rotate_point N cs o e)
    = rotate_point N cs o (arc_center N m cp s e).
  Proof.
    unfold arc_center, rotate_point, two. destruct_c. cunfold. cbn [lit of_pos].
    apply cplx_eq; cbn [fst snd]; field; numnz OK.
  Qed.

  Section Rot.
    Variables (rot degs : K) (cs : C).
    (* exp(1j*radians(rotation + degs)) = exp(1j*radians(rotation)) * exp(1j*radians(degs)) *)
    Hypothesis Hrot : arc_rotm_of T (add N rot degs) = cmul N (arc_rotm_of T rot) cs.
    Hypothesis Hcs : cnorm2 N cs <> zero N.
    Hypothesis Hrm : cnorm2 N (arc_rotm_of T rot) <> zero N.

    Lemma zp1_rotate s e o :
      arc_zp1_of N T (rotate_point N cs o s) (add N rot degs) (rotate_point N cs o e)
      = arc_zp1_of N T s rot e.
    Proof.
      unfold arc_zp1_of, arc_zp1. rewrite Hrot. f_equal.
      apply zp1_rotate_gen; assumption.
    Qed.

    Lemma center_rotate cp s e o :
      arc_center N (arc_rotm_of T (add N rot degs)) cp (rotate_point N cs o s) (rotate_point N cs o e)
      = rotate_point N cs o (arc_center N (arc_rotm_of T rot) cp s e).
    Proof. rewrite Hrot. apply center_rotate_gen. Qed.

    Theorem arc_init_v_rotate fx s radius large sweep e o t :
      arc_point N T (arc_init_v N T fx (rotate_point N cs o s) radius (add N rot degs) large sweep
                                (rotate_point N cs o e)) t
      = rotate_point N cs o (arc_point N T (arc_init_v N T fx s radius rot large sweep e) t).
    Proof.
      destruct (same_fields s e (rotate_point N cs o s) (rotate_point N cs o e) radius rot
                            (add N rot degs) large sweep fx (zp1_rotate s e o)) as (Hr & Ht & Hd).
      apply arc_point_rot; [exact Hr|exact Ht|exact Hd|exact Hrot|].
      unfold arc_init_v. cbn [a_center].
      rewrite (same_cp s e (rotate_point N cs o s) (rotate_point N cs o e) radius rot
                         (add N rot degs) large sweep fx (zp1_rotate s e o)).
      apply center_rotate.
    Qed.
    Theorem arc_init_rotate s radius large sweep e o t :
      arc_point N T (arc_init N T (rotate_point N cs o s) radius (add N rot degs) large sweep
                              (rotate_point N cs o e)) t
      = rotate_point N cs o (arc_point N T (arc_init N T s radius rot large sweep e) t).
    Proof. apply arc_init_v_rotate. Qed.
  End Rot.
End ArcAlg.
