(* Proofs/PathIdxFloatLaws.v — the two comparison laws of Proofs/PathIdxGen.v
   (Section Laws) for binary64.  PrimFloat operations are opaque kernel
   primitives; what they compute is given by the standard library's
   specification axioms (Coq.Floats.FloatAxioms: add_spec, leb_spec, eqb_spec,
   relating them to the SpecFloat reference implementation).  This is the only
   file of C05 that uses them; they appear in Print Assumptions of
   C05_T2t_total_float. *)
From Coq Require Import ZArith Bool Floats.
From SVP Require Import Base.Num Base.FloatK.

Lemma Prim2SF_zero : Prim2SF 0%float = S754_zero false.
Proof. reflexivity. Qed.

(* x == 0  means  x is +0 or -0 *)
Lemma SFeqb_zero_inv x : SFeqb x (S754_zero false) = true -> exists s, x = S754_zero s.
Proof.
  unfold SFeqb, SFcompare. destruct x as [s|s| |s m e]; try discriminate; eauto.
  - destruct s; discriminate.
  - destruct s; discriminate.
Qed.
(* a comparison with a zero does not look at its sign *)
Lemma SFcompare_zero_sign x a b : SFcompare x (S754_zero a) = SFcompare x (S754_zero b).
Proof. destruct x as [s|s| |s m e]; reflexivity. Qed.

(* x + (+-0) compares like x *)
Lemma SF64add_zero_leb T x s :
  SFleb T (SF64add x (S754_zero s)) = SFleb T x.
Proof.
  unfold SF64add, SFadd. destruct x as [sx|sx| |sx m e]; try reflexivity.
  unfold SFleb. destruct (Bool.eqb sx s).
  - reflexivity.
  - now rewrite (SFcompare_zero_sign T false sx).
Qed.

Theorem float_LawA : forall T x l, eqb NumF l (zero NumF) = true ->
  leb NumF T (add NumF x l) = leb NumF T x.
Proof.
  intros T x l H. cbn in H |- *. rewrite eqb_spec, Prim2SF_zero in H.
  destruct (SFeqb_zero_inv _ H) as [s Hs].
  rewrite !leb_spec, add_spec, Hs. apply SF64add_zero_leb.
Qed.

Theorem float_LawB : forall T, leb NumF (zero NumF) T = true -> eqb NumF T (zero NumF) = false ->
  leb NumF T (zero NumF) = false.
Proof.
  intros T H1 H2. cbn in *. rewrite leb_spec, Prim2SF_zero in *. rewrite eqb_spec, Prim2SF_zero in H2.
  unfold SFleb, SFeqb, SFcompare in *.
  destruct (Prim2SF T) as [s|s| |s m e]; try discriminate; destruct s; try discriminate; reflexivity.
Qed.

Lemma float_ltb_1_1 : ltb NumF (one NumF) (one NumF) = false.
Proof. reflexivity. Qed.
Lemma float_ltb_1_0 : ltb NumF (one NumF) (zero NumF) = false.
Proof. reflexivity. Qed.
