(* Proofs/SvgTreeShapes.v — the *2pathd converters of svg_to_paths.py followed
   by parse_path give the path SVG 1.1 §9 prescribes, for every legal
   attribute value; the two places where they do not (rounded rects handed
   over as Elements; corner radii larger than half the size) are refuted by
   witnesses in Props/C17.v. *)
From Coq Require Import ZArith QArith Qcanon Reals List Bool Field Lia Lra.
From SVP Require Import Base.Num Base.FieldTac Model.SvgTree Proofs.SvgTreeAlg Proofs.SvgTreeFlat.
Import ListNotations.

(* what the comparisons of the carrier must satisfy (true in R and in Qc) *)
Record NumCmpOK {K} (N : Num K) : Prop := {
  eqb_eq : forall x y, eqb N x y = true <-> x = y;
  ltb_irrefl : forall x, ltb N x x = false
}.
Arguments eqb_eq {K N} _ x y.
Arguments ltb_irrefl {K N} _ x.

Lemma NumR_cmp : NumCmpOK NumR.
Proof.
  split.
  - intros x y. apply Req_b_true.
  - intros x. apply Rlt_b_false. cbn. lra.
Qed.

Lemma NumQ_cmp : NumCmpOK NumQ.
Proof.
  split.
  - intros x y. cbn [eqb NumQ]. split.
    + apply Qc_eq_bool_correct.
    + intros ->. unfold Qc_eq_bool. destruct (Qc_eq_dec y y); congruence.
  - intros x. cbn [ltb NumQ]. unfold Qc_ltb.
    assert (H : (x ?= x)%Qc = Eq) by (apply Qceq_alt; reflexivity).
    rewrite H. reflexivity.
Qed.

Section Shapes.
  Context {K : Type} (N : Num K) (OK : NumFieldOK N) (CMP : NumCmpOK N).
  Add Field KF : (Fth OK).

  Notation pt := (@pt K).

  Lemma eqb_refl x : eqb N x x = true.
  Proof. apply (eqb_eq CMP). reflexivity. Qed.
  Lemma eqb_neq x y : x <> y -> eqb N x y = false.
  Proof. intros H. destruct (eqb N x y) eqn:E; auto. apply (eqb_eq CMP) in E. contradiction. Qed.
  Lemma pt_eqb_eq (p q : pt) : pt_eqb N p q = true <-> p = q.
  Proof.
    destruct p as [a b], q as [c d]. unfold pt_eqb; cbn [fst snd].
    rewrite andb_true_iff, !(eqb_eq CMP). split.
    - intros [-> ->]; reflexivity.
    - intros E; inversion E; auto.
  Qed.
  Lemma pt_eqb_refl (p : pt) : pt_eqb N p p = true.
  Proof. apply pt_eqb_eq. reflexivity. Qed.
  Lemma pt_eqb_sym (p q : pt) : pt_eqb N p q = pt_eqb N q p.
  Proof.
    destruct (pt_eqb N p q) eqn:E1, (pt_eqb N q p) eqn:E2; auto.
    - apply pt_eqb_eq in E1. subst. rewrite pt_eqb_refl in E2. discriminate.
    - apply pt_eqb_eq in E2. subst. rewrite pt_eqb_refl in E1. discriminate.
  Qed.
  Lemma pos_nz x : pos N x = true -> x <> zero N.
  Proof. unfold pos. intros H ->. rewrite (ltb_irrefl CMP) in H. discriminate. Qed.

  (* ---- path: the d attribute is handed to parse_path unchanged ---- *)
  Lemma convert_path c rt a : convert N c rt KPath a = shape_spec N KPath a.
  Proof. reflexivity. Qed.

  (* ---- line ---- *)
  Lemma convert_line_document c a : convert N c RDocument KLine a = shape_spec N KLine a.
  Proof. reflexivity. Qed.
  Lemma convert_line_svg2paths c a x1 y1 x2 y2 :
    a_x1 a = Some x1 -> a_y1 a = Some y1 -> a_x2 a = Some x2 -> a_y2 a = Some y2 ->
    convert N c RSvg2paths KLine a = shape_spec N KLine a.
  Proof.
    intros E1 E2 E3 E4. unfold convert, line2pathd, shape_spec. rewrite E1, E2, E3, E4.
    destruct (f_line_default c); reflexivity.
  Qed.
  (* repaired: on every route, whatever attributes are present *)
  Lemma convert_line_repaired c rt a :
    f_line_default c = true -> f_sax_line c = true ->
    convert N c rt KLine a = shape_spec N KLine a.
  Proof.
    intros H1 H2. unfold convert, line2pathd, shape_spec. rewrite H1, H2. destruct rt; reflexivity.
  Qed.

  (* ---- polyline / polygon ---- *)
  Lemma interp_lines (pts : list pt) : forall cur start tail,
      interp_from N cur start (map (@CL K) pts ++ tail)
      = lines_from cur pts ++ interp_from N (last_pt cur pts) start tail.
  Proof.
    induction pts as [|q r IH]; intros cur start tail; [reflexivity|].
    cbn [map app interp_from lines_from last_pt]. rewrite IH. reflexivity.
  Qed.
  Lemma lines_from_app (a : list pt) : forall p b,
      lines_from p (a ++ b) = lines_from p a ++ lines_from (last_pt p a) b.
  Proof. induction a as [|q r IH]; intros p b; [reflexivity|]. cbn. rewrite IH. reflexivity. Qed.
  Lemma last_pt_app (a : list pt) : forall p q, last_pt p (a ++ [q]) = q.
  Proof. induction a as [|x r IH]; intros p q; [reflexivity|]. cbn. apply IH. Qed.

  Lemma convert_polyline c rt a : convert N c rt KPolyline a = shape_spec N KPolyline a.
  Proof.
    unfold convert, polyline2pathd, shape_spec.
    destruct (a_pts a) as [|p0 r]; [reflexivity|].
    cbn [andb orb option_map]. f_equal.
    unfold interp. cbn [interp_from]. rewrite interp_lines.
    destruct (pt_eqb N p0 (last_pt p0 r)) eqn:E; cbn [interp_from].
    - rewrite pt_eqb_sym, E. cbn [interp_from]. apply app_nil_r.
    - apply app_nil_r.
  Qed.

  Lemma convert_polygon c rt a : convert N c rt KPolygon a = shape_spec N KPolygon a.
  Proof.
    unfold convert, polyline2pathd, shape_spec.
    destruct (a_pts a) as [|p0 r]; [reflexivity|].
    cbn [andb orb option_map]. f_equal.
    unfold interp. cbn [interp_from]. rewrite interp_lines.
    destruct (pt_eqb N p0 (last_pt p0 r)) eqn:E.
    - (* first = last: the converter appends the first point once more *)
      apply pt_eqb_eq in E.
      rewrite last_pt_app. cbn [interp_from]. rewrite pt_eqb_refl. cbn [interp_from].
      rewrite app_nil_r, lines_from_app. cbn [lines_from]. reflexivity.
    - cbn [interp_from]. rewrite pt_eqb_sym, E. reflexivity.
  Qed.

  (* ---- circle / ellipse ---- *)
  Lemma interp_ellipse cx cy rx ry :
    rx <> zero N -> ry <> zero N ->
    interp N [CM (sub N cx rx, cy);
              Ca rx ry (zero N) true false (mul N (lit N 2) rx, zero N);
              Ca rx ry (zero N) true false (mul N (lit N (-2)) rx, zero N);
              CZ]
    = ellipse_spec N cx cy rx ry.
  Proof.
    intros Hx Hy. unfold interp, ellipse_spec. cbn [interp_from].
    unfold arc_or_line. rewrite (eqb_neq _ _ Hx), (eqb_neq _ _ Hy). cbn [orb].
    unfold padd; cbn [fst snd lit of_pos].
    assert (E1 : add N (mul N (add N (one N) (one N)) rx) (sub N cx rx) = add N cx rx) by ring.
    assert (E2 : add N (zero N) cy = cy) by ring.
    rewrite E1, E2.
    assert (E3 : add N (mul N (opp N (add N (one N) (one N))) rx) (add N cx rx) = sub N cx rx) by ring.
    rewrite E3, E2, pt_eqb_refl. reflexivity.
  Qed.

  Lemma convert_circle c rt a r :
    a_r a = Some r -> pos N r = true ->
    convert N c rt KCircle a = shape_spec N KCircle a.
  Proof.
    intros Er Hp. unfold convert, ellipse2pathd, shape_spec. rewrite Er, Hp.
    cbn [option_map]. f_equal. apply interp_ellipse; apply pos_nz; assumption.
  Qed.

  Lemma convert_ellipse c rt a rx ry :
    a_r a = None -> a_rx a = Some rx -> a_ry a = Some ry ->
    pos N rx = true -> pos N ry = true ->
    convert N c rt KEllipse a = shape_spec N KEllipse a.
  Proof.
    intros Er Ex Ey Hx Hy. unfold convert, ellipse2pathd, shape_spec.
    rewrite Er, Ex, Ey, Hx, Hy. cbn [andb option_map]. f_equal.
    apply interp_ellipse; apply pos_nz; assumption.
  Qed.

  (* ---- rect ---- *)
  Lemma add_cancel_nz y h : h <> zero N -> add N y h <> y.
  Proof.
    intros Hh E. apply Hh.
    assert (E' : h = sub N (add N y h) y) by ring. rewrite E' , E. ring.
  Qed.

  (* no rx, no ry: the plain rectangle, on every route *)
  Lemma convert_rect_plain c rt a w h :
    a_w a = Some w -> a_h a = Some h -> a_rx a = None -> a_ry a = None ->
    pos N w = true -> pos N h = true -> nonneg N (zero N) = true ->
    convert N c rt KRect a = shape_spec N KRect a.
  Proof.
    intros Ew Eh Ex Ey Hw Hh H0. unfold convert, rect2pathd, rect_has_rx, shape_spec.
    rewrite Ew, Eh, Ex, Ey, Hw, Hh. cbn [odef andb]. rewrite H0. cbn [andb rect_radii].
    assert (Hf : (if via_dict rt || f_rect_attr c then false else false) = false)
      by (destruct (via_dict rt || f_rect_attr c); reflexivity).
    rewrite Hf. unfold rect_spec. rewrite eqb_refl. cbn [orb].
    f_equal. unfold interp. cbn [interp_from].
    set (x := odef (zero N) (a_x a)).
    set (y := odef (zero N) (a_y a)).
    assert (Hne : pt_eqb N (x, add N y h) (x, y) = false).
    { destruct (pt_eqb N (x, add N y h) (x, y)) eqn:E; auto.
      apply pt_eqb_eq in E. inversion E as [E'].
      exfalso. eapply add_cancel_nz; [apply (pos_nz _ Hh)|exact E']. }
    rewrite Hne. reflexivity.
  Qed.

  (* rx and/or ry given, the attributes reach rect2pathd (dict routes, or the
     repaired membership test), radii positive and not larger than half the
     size: with or without clamping *)
  Lemma convert_rect_rounded c rt a w h rx ry :
    via_dict rt || f_rect_attr c = true ->
    a_w a = Some w -> a_h a = Some h ->
    (a_rx a = Some rx /\ a_ry a = Some ry) \/
    (a_rx a = Some rx /\ a_ry a = None /\ ry = rx) \/
    (a_rx a = None /\ a_ry a = Some ry /\ rx = ry) ->
    pos N w = true -> pos N h = true -> pos N rx = true -> pos N ry = true ->
    nonneg N rx = true -> nonneg N ry = true -> nonneg N (zero N) = true ->
    ltb N (half N w) rx = false -> ltb N (half N h) ry = false ->
    convert N c rt KRect a = shape_spec N KRect a.
  Proof.
    intros Hv Ew Eh Hr Hw Hh Hrx Hry Nrx Nry N0 Cx Cy.
    unfold convert, rect2pathd, rect_has_rx, shape_spec.
    rewrite Hv, Ew, Eh, Hw, Hh. cbn [andb odef].
    assert (Hxz := eqb_neq _ _ (pos_nz _ Hrx)). assert (Hyz := eqb_neq _ _ (pos_nz _ Hry)).
    destruct Hr as [[Ex Ey]|[[Ex [Ey ->]]|[Ex [Ey ->]]]]; rewrite Ex, Ey; cbn [odef rect_radii fst snd];
      rewrite ?Nrx, ?Nry, ?N0; cbn [andb]; rewrite ?Cx, ?Cy;
      destruct (f_rect_clamp c); rewrite ?Cx, ?Cy;
      unfold rect_spec; rewrite ?Hxz, ?Hyz; cbn [orb]; f_equal;
      unfold interp; cbn [interp_from]; unfold arc_or_line; rewrite ?Hxz, ?Hyz; cbn [orb];
      rewrite pt_eqb_refl; reflexivity.
  Qed.

  (* repaired (clamping): every non-negative rx / ry, also larger than half the
     size; the only requirement is that the EFFECTIVE radii (SVG 1.1 9.2) are
     not zero (then the rectangle is a plain one, see the harness for that
     case: equal up to zero-length segments) *)
  Lemma convert_rect_clamped c rt a w h :
    via_dict rt || f_rect_attr c = true -> f_rect_clamp c = true ->
    a_w a = Some w -> a_h a = Some h ->
    (a_rx a <> None \/ a_ry a <> None) ->
    pos N w = true -> pos N h = true ->
    nonneg N (odef (zero N) (a_rx a)) = true -> nonneg N (odef (zero N) (a_ry a)) = true ->
    fst (rect_radii N w h (a_rx a) (a_ry a)) <> zero N ->
    snd (rect_radii N w h (a_rx a) (a_ry a)) <> zero N ->
    convert N c rt KRect a = shape_spec N KRect a.
  Proof.
    intros Hv Hc Ew Eh Hr Hw Hh Nrx Nry Zx Zy.
    unfold convert, rect2pathd, rect_has_rx, shape_spec.
    rewrite Hv, Hc, Ew, Eh, Hw, Hh, Nrx, Nry. cbn [andb odef].
    destruct (a_rx a) as [rx|] eqn:Ex, (a_ry a) as [ry|] eqn:Ey;
      try (destruct Hr as [Hr|Hr]; exfalso; apply Hr; reflexivity);
      cbn [rect_radii fst snd odef] in *;
      match goal with
      | |- context [rect_spec N _ _ _ _ ?RX ?RY] =>
          set (rx' := RX) in *; set (ry' := RY) in *
      end;
      assert (Hxz := eqb_neq _ _ Zx); assert (Hyz := eqb_neq _ _ Zy);
      unfold rect_spec; rewrite Hxz, Hyz; cbn [orb]; f_equal;
      unfold interp; cbn [interp_from]; unfold arc_or_line; rewrite ?Hxz, ?Hyz; cbn [orb];
      rewrite pt_eqb_refl; reflexivity.
  Qed.

  (* ---- transform(): Bezier segments get their control points mapped;
     under the identity the path is returned as is ---- *)
  Lemma mat_eqb_refl (M : @mat K) : mat_eqb N M M = true.
  Proof. unfold mat_eqb. rewrite !eqb_refl. reflexivity. Qed.
  Lemma mat_eqb_eq (A B : @mat K) : mat_eqb N A B = true <-> A = B.
  Proof.
    split; [|intros ->; apply mat_eqb_refl].
    destruct A as [a1 a2 a3 a4 a5 a6 a7 a8 a9], B as [b1 b2 b3 b4 b5 b6 b7 b8 b9].
    unfold mat_eqb; cbn [m11 m12 m13 m21 m22 m23 m31 m32 m33].
    rewrite !andb_true_iff, !(eqb_eq CMP). intuition congruence.
  Qed.

  Lemma apply_tf_identity c l : apply_tf N c (mI N) l = Some l.
  Proof. unfold apply_tf. rewrite mat_eqb_refl. reflexivity. Qed.

  Lemma pt_apply_I (p : pt) : pt_apply N (mI N) p = p.
  Proof. destruct p; unfold pt_apply, mI; cbn; f_equal; ring. Qed.

  Lemma apply_tf_bezier c M l :
    existsb (@is_arc K) l = false ->
    exists l', apply_tf N c M l = Some l' /\
               (M = mI N -> l' = l) /\ (M <> mI N -> l' = map (seg_affine N M) l).
  Proof.
    intros Ha. unfold apply_tf. destruct (mat_eqb N M (mI N)) eqn:E.
    - exists l. apply mat_eqb_eq in E. repeat split; auto. intros; contradiction.
    - rewrite Ha. cbn [andb]. eexists; repeat split; auto.
      intros ->. rewrite mat_eqb_refl in E. discriminate.
  Qed.

  Lemma apply_tf_arc_raises c M l :
    f_arc_tf c = false ->
    M <> mI N -> existsb (@is_arc K) l = true -> apply_tf N c M l = None.
  Proof.
    intros Hc HM Ha. unfold apply_tf.
    destruct (mat_eqb N M (mI N)) eqn:E; [apply mat_eqb_eq in E; contradiction|].
    rewrite Ha, Hc. reflexivity.
  Qed.

  (* repaired Arc branch: transform() never raises; every segment's points are mapped *)
  Lemma apply_tf_total c M l :
    f_arc_tf c = true ->
    exists l', apply_tf N c M l = Some l' /\
               (M = mI N -> l' = l) /\ (M <> mI N -> l' = map (seg_affine N M) l).
  Proof.
    intros Hc. unfold apply_tf. rewrite Hc, andb_false_r.
    destruct (mat_eqb N M (mI N)) eqn:E.
    - exists l. apply mat_eqb_eq in E. repeat split; auto. intros; contradiction.
    - eexists; repeat split; auto. intros ->. rewrite mat_eqb_refl in E. discriminate.
  Qed.

  (* repaired SaxDocument (order and keep): flatten_all_paths is the reference
     traversal followed by conversion and transform(), like Document.paths() *)
  Definition sax_ref_entry c (o : @out K) : option (nat * list (@seg K)) :=
    let '(k, a, M) := o in
    match convert N c RSax k a with
    | None => None
    | Some s => match apply_tf N c M s with
                | Some s' => Some (a_id a, s')
                | None => None
                end
    end.

  Theorem sax_flatten_ref c (root : @node K) :
    f_sax_order c = true -> f_sax_keep c = true ->
    sax_flatten N c root = mapM (sax_ref_entry c) (flatten_ref N root (mI N)).
  Proof.
    intros Ho Hk. unfold sax_flatten, sax_parse.
    rewrite (mapM_mapM _ (sax_flat_entry N c)).
    rewrite <- (sax_tree_ref N OK c root Ho), mapM_map.
    apply mapM_ext. intros [[k a] m]. cbn [fst snd sax_ref_entry].
    destruct (convert N c RSax k a) as [s|]; cbn [option_map]; [|reflexivity].
    unfold sax_flat_entry. destruct m as [M|]; cbn [odefm].
    - rewrite Hk. destruct (apply_tf N c M s); reflexivity.
    - rewrite apply_tf_identity. reflexivity.
  Qed.
End Shapes.
