(* Proofs/TangentExec.v — the sign defect of the singular branch observed by
   executing the model in 120-bit binary floats (Base/BigF.v): the model of
   CubicBezier(0, 0, -1+1j, -2).unit_tangent(0) evaluates to
   (+0.7071067811865476, -0.7071067811865476), which is what the implementation
   prints, whereas the curve leaves the origin towards (-1, +1). *)
From Coq Require Import ZArith List Bool.
From SVP Require Import Base.Num Base.Cplx Base.Poly Base.BigF Model.Bezier Model.Tangent.
Import ListNotations.

Definition b0 : bf := bf_of 0 0.
Definition wb_value : res (Cplx bf) :=
  cubic_unit_tangent NumB NumTB false (b0, b0) (b0, b0) (bf_of (-1) 0, bf_of 1 0) (bf_of (-2) 0, b0) b0.
(* 0x1.6a09e667f3bcdp-1 = 0.7071067811865476 *)
Definition wb_expected : Cplx bf := (bf_of 6369051672525773 (-53), bf_of (-6369051672525773) (-53)).
Definition wb_check : bool :=
  match wb_value with
  | Val z => bcclose (bf_of 1 (-50)) z wb_expected
  | _ => false
  end.
Lemma witness_B : wb_check = true.
Proof. vm_compute. reflexivity. Qed.

(* the derivative quotient just inside the interval, at t = 2^-20: (-0.707.., +0.707..) *)
Definition wb_inside : Cplx bf :=
  unit_of NumB NumTB (cubic_d NumB (b0, b0) (b0, b0) (bf_of (-1) 0, bf_of 1 0) (bf_of (-2) 0, b0)
                              (bf_of 1 (-20)) 1).
Definition wb_inside_check : bool :=
  bcclose (bf_of 1 (-18)) wb_inside (bf_of (-6369051672525773) (-53), bf_of 6369051672525773 (-53)).
Lemma witness_B_inside : wb_inside_check = true.
Proof. vm_compute. reflexivity. Qed.

(* the repaired fallback on the same input: (-0.7071067811865476, +0.7071067811865476) *)
Definition wb_value_repaired : res (Cplx bf) :=
  cubic_unit_tangent NumB NumTB true (b0, b0) (b0, b0) (bf_of (-1) 0, bf_of 1 0) (bf_of (-2) 0, b0) b0.
Definition wb_check_repaired : bool :=
  match wb_value_repaired with
  | Val z => bcclose (bf_of 1 (-50)) z (bf_of (-6369051672525773) (-53), bf_of 6369051672525773 (-53))
  | _ => false
  end.
Lemma witness_B_repaired : wb_check_repaired = true.
Proof. vm_compute. reflexivity. Qed.
