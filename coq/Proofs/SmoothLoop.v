(* Proofs/SmoothLoop.v — the joint loop of smoothed_path (Model/Smooth.v,
   sp_loop) for paths of ANY length, over an abstract segment type and ANY
   joint procedure that meets the contract JointOK.  Pure list reasoning:
   no axioms. *)
From Coq Require Import List Bool Lia.
From SVP Require Import Model.Smooth.
Import ListNotations.
Set Implicit Arguments.

(* ---------------- chains and adjacency ---------------- *)
Section Lists.
  Variable S : Type.

  Fixpoint chain (R : S -> S -> Prop) (l : list S) : Prop :=
    match l with
    | x :: r => match r with y :: _ => R x y /\ chain R r | [] => True end
    | [] => True
    end.

  Lemma chain_cons2 R x y r : chain R (x :: y :: r) <-> R x y /\ chain R (y :: r).
  Proof. simpl. tauto. Qed.

  Lemma chain_split R l1 x l2 :
    chain R (l1 ++ x :: l2) <-> chain R (l1 ++ [x]) /\ chain R (x :: l2).
  Proof.
    induction l1 as [|a l1 IH].
    - simpl. tauto.
    - destruct l1 as [|b l1].
      + simpl app. rewrite chain_cons2. simpl. tauto.
      + change ((a :: b :: l1) ++ x :: l2) with (a :: b :: (l1 ++ x :: l2)).
        change ((a :: b :: l1) ++ [x]) with (a :: b :: (l1 ++ [x])).
        rewrite !chain_cons2. simpl app in IH. rewrite IH. tauto.
  Qed.

  Lemma chain_mono (R R' : S -> S -> Prop) l :
    (forall x y, R x y -> R' x y) -> chain R l -> chain R' l.
  Proof.
    intros H. induction l as [|a l IH]; auto.
    destruct l as [|b l]; auto. rewrite !chain_cons2. intros [H1 H2]. split; auto.
  Qed.

  Lemma chain_replace_last (R : S -> S -> Prop) l c c' :
    (forall x, R x c -> R x c') -> chain R (l ++ [c]) -> chain R (l ++ [c']).
  Proof.
    intros H. induction l as [|a l IH]; auto.
    destruct l as [|b l].
    - simpl. intros [H1 _]. split; auto.
    - change ((a :: b :: l) ++ [c]) with (a :: b :: (l ++ [c])).
      change ((a :: b :: l) ++ [c']) with (a :: b :: (l ++ [c'])).
      rewrite !chain_cons2. intros [H1 H2]. split; auto.
  Qed.

  Lemma chain_replace_first (R : S -> S -> Prop) f f' l :
    (forall y, R f y -> R f' y) -> chain R (f :: l) -> chain R (f' :: l).
  Proof. destruct l as [|b l]; auto. rewrite !chain_cons2. intros H [H1 H2]; auto. Qed.

  Lemma chain_tail R x l : chain R (x :: l) -> chain R l.
  Proof. destruct l; auto. rewrite chain_cons2. tauto. Qed.

  (* x immediately followed by y somewhere in l *)
  Definition adj (l : list S) (x y : S) : Prop := exists l1 l2, l = l1 ++ x :: y :: l2.

  Lemma adj_app_l l m x y : adj l x y -> adj (l ++ m) x y.
  Proof. intros (l1 & l2 & ->). exists l1, (l2 ++ m). rewrite <- app_assoc. reflexivity. Qed.
  Lemma adj_app_r l m x y : adj m x y -> adj (l ++ m) x y.
  Proof. intros (l1 & l2 & ->). exists (l ++ l1), l2. rewrite <- app_assoc. reflexivity. Qed.
  Lemma adj_cons z l x y : adj l x y -> adj (z :: l) x y.
  Proof. apply (adj_app_r [z]). Qed.

  Lemma adj_snoc l z x y :
    adj (l ++ [z]) x y -> adj l x y \/ (exists l', l = l' ++ [x]) /\ y = z.
  Proof.
    intros (l1 & l2 & E).
    destruct l2 as [|w l2] using rev_ind.
    - right. replace (l1 ++ [x; y]) with ((l1 ++ [x]) ++ [y]) in E
        by (rewrite <- app_assoc; reflexivity).
      apply app_inj_tail in E. destruct E as [E1 E2]. split; eauto.
    - left. clear IHl2.
      replace (l1 ++ x :: y :: l2 ++ [w]) with ((l1 ++ x :: y :: l2) ++ [w]) in E
        by (rewrite <- app_assoc; reflexivity).
      apply app_inj_tail in E. destruct E as [E1 E2]. exists l1, l2. assumption.
  Qed.

  Lemma adj_cons_inv z l x y :
    adj (z :: l) x y -> (x = z /\ exists l2, l = y :: l2) \/ adj l x y.
  Proof.
    intros (l1 & l2 & E). destruct l1 as [|a l1].
    - simpl in E. injection E as E1 E2. left. split; eauto.
    - simpl in E. injection E as E1 E2. right. exists l1, l2. assumption.
  Qed.

  Lemma last_snoc (l : list S) c d : last (l ++ [c]) d = c.
  Proof. apply last_last. Qed.
  Lemma last_cons_default (l : list S) : forall a d, last (a :: l) d = last l a.
  Proof.
    induction l as [|b l IH]; intros a d; [reflexivity|].
    change (last (a :: b :: l) d) with (last (b :: l) d). rewrite !IH. reflexivity.
  Qed.
End Lists.

(* ---------------- the loop ---------------- *)
Section LoopThm.
  Variables (S P D : Type).
  Variables (sst sen : S -> P).          (* start / end point *)
  Variables (t0 t1 : S -> D).            (* what unit_tangent(0) / unit_tangent(1) evaluate to *)
  Variable cls : D -> D -> jclass.       (* the joint test on two tangents *)
  Variable joint : S -> S -> option (S * list S * S).
  Variable Valid : S -> Prop.            (* segments the joint procedure accepts *)
  Variable Sub : S -> S -> Prop.         (* x is a sub-piece of a (same point set or less) *)
  Variable Near : P -> S -> Prop.        (* every point of x is within maxjointsize of p *)
  Hypothesis Sub_refl : forall x, Sub x x.
  Hypothesis Sub_trans : forall x y z, Sub x y -> Sub y z -> Sub x z.

  Definition classify (a b : S) : jclass := cls (t1 a) (t0 b).

  (* position and tangents match exactly *)
  Definition Jexact (x y : S) : Prop := sen x = sst y /\ t1 x = t0 y.
  (* the output joint (x,y) is the untouched input joint (a,b) *)
  Definition Keeps (a b x y : S) : Prop :=
    sen x = sen a /\ sst y = sst b /\ t1 x = t1 a /\ t0 y = t0 b.
  (* an output joint is continuous and either exactly tangent-matched or an
     untouched input joint (from the set I) that the code classified smooth *)
  Definition Jin (I : S -> S -> Prop) (x y : S) : Prop :=
    sen x = sst y /\
    (t1 x = t0 y \/ exists a b, I a b /\ cls (t1 a) (t0 b) = CSmooth /\ Keeps a b x y).
  (* weaker reading: exactly matched, or passes the code's own smoothness test *)
  Definition Jok (x y : S) : Prop :=
    sen x = sst y /\ (t1 x = t0 y \/ cls (t1 x) (t0 y) = CSmooth).

  Lemma Jin_Jok I x y : Jin I x y -> Jok x y.
  Proof.
    intros [H1 [H2|(a & b & _ & Hs & (_ & _ & E1 & E2))]]; split; auto.
    right. rewrite E1, E2. assumption.
  Qed.
  Lemma Jin_mono (I I' : S -> S -> Prop) x y :
    (forall a b, I a b -> I' a b) -> Jin I x y -> Jin I' x y.
  Proof.
    intros H [H1 [H2|(a & b & Hi & Hs & Hk)]]; split; auto.
    right. exists a, b. auto.
  Qed.
  Lemma Jexact_Jin I x y : Jexact x y -> Jin I x y.
  Proof. intros [H1 H2]; split; auto. Qed.

  (* the contract of a joint procedure *)
  Definition JointOK : Prop :=
    forall seg0 seg1, Valid seg0 -> Valid seg1 -> sen seg0 = sst seg1 ->
      cls (t1 seg0) (t0 seg1) = CKink ->
      exists s0' el s1',
        joint seg0 seg1 = Some (s0', el, s1') /\
        sst s0' = sst seg0 /\ t0 s0' = t0 seg0 /\
        sen s1' = sen seg1 /\ t1 s1' = t1 seg1 /\
        chain Jexact (s0' :: el ++ [s1']) /\ Valid s0' /\ Valid s1' /\
        Sub s0' seg0 /\ Sub s1' seg1 /\ Forall (Near (sen seg0)) el.
  Hypothesis HJ : JointOK.

  Definition insmooth (a b : S) : Prop := cls (t1 a) (t0 b) = CSmooth.
  (* the joints the property quantifies over: not 180 degrees, no exception *)
  Definition inclass (a b : S) : Prop :=
    cls (t1 a) (t0 b) = CSmooth \/ cls (t1 a) (t0 b) = CKink.
  Definition incont (a b : S) : Prop := sen a = sst b.

  (* where an output segment comes from: a sub-piece of an input segment, or
     within maxjointsize of an input joint point *)
  Definition Origin (pre : list S) (x : S) : Prop :=
    exists a, In a pre /\ (Sub x a \/ Near (sen a) x).
  Lemma Origin_mono pre pre' x : (forall a, In a pre -> In a pre') -> Origin pre x -> Origin pre' x.
  Proof. intros H (a & Ha & Hx). exists a. auto. Qed.

  Lemma np_form (first : S) rmid :
    exists front,
      np_list first rmid = front ++ [np_cur first rmid] /\
      forall x more,
        np_list (fst (np_set_cur first rmid x)) (rev more ++ snd (np_set_cur first rmid x))
        = front ++ x :: more.
  Proof.
    destruct rmid as [|c r].
    - exists []. split; [reflexivity|]. intros x more. unfold np_list. simpl.
      rewrite app_nil_r, rev_involutive. reflexivity.
    - exists (first :: rev r). split; [reflexivity|]. intros x more. unfold np_list. simpl.
      rewrite rev_app_distr, rev_involutive. simpl. rewrite <- app_assoc. reflexivity.
  Qed.

  (* invariant of the loop: pre = the input segments consumed so far, pc the
     last of them; out = new_path, c = new_path[-1] *)
  Record Inv (p0 : S) (pre : list S) (pc : S) (out : list S) (c : S) : Prop := {
    inv_form : exists front, out = front ++ [c];
    inv_pre : exists l', pre = l' ++ [pc];
    inv_chain : chain (Jin (adj pre)) out;
    inv_valid : Valid c;
    inv_first : exists f tl, out = f :: tl /\ sst f = sst p0 /\ t0 f = t0 p0 /\ Valid f /\ Sub f p0;
    inv_csub : Sub c pc;
    inv_org : Forall (Origin pre) out;
    inv_cur : sen c = sen pc /\ t1 c = t1 pc;
    inv_keep : forall a b, adj pre a b -> insmooth a b ->
                           exists x y, adj out x y /\ Keeps a b x y;
    inv_len : length pre <= length out
  }.

  Lemma inv_init p0 : Valid p0 -> Inv p0 [p0] p0 [p0] p0.
  Proof.
    intros V. constructor.
    - exists []. reflexivity.
    - exists []. reflexivity.
    - simpl. exact I.
    - assumption.
    - exists p0, []. auto 6.
    - apply Sub_refl.
    - constructor; [|constructor]. exists p0. split; [left; reflexivity|left; apply Sub_refl].
    - auto.
    - intros a b (l1 & l2 & E). destruct l1 as [|? [|? ?]]; discriminate.
    - simpl. lia.
  Qed.

  Lemma Jin_replace_y I x c c' : sst c' = sst c -> t0 c' = t0 c -> Jin I x c -> Jin I x c'.
  Proof.
    intros E1 E2 [H1 [H2|(a & b & Hi & Hs & (K1 & K2 & K3 & K4))]]; split; try congruence.
    - left; congruence.
    - right. exists a, b. repeat split; auto; congruence.
  Qed.
  Lemma Jin_replace_x I f f' y : sen f' = sen f -> t1 f' = t1 f -> Jin I f y -> Jin I f' y.
  Proof.
    intros E1 E2 [H1 [H2|(a & b & Hi & Hs & (K1 & K2 & K3 & K4))]]; split; try congruence.
    - left; congruence.
    - right. exists a, b. repeat split; auto; congruence.
  Qed.

  Lemma step_mid_inv p0 pre pc idx seg1 first rmid sharp :
    Inv p0 pre pc (np_list first rmid) (np_cur first rmid) ->
    Valid seg1 -> incont pc seg1 -> inclass pc seg1 ->
    exists first' rmid',
      step_mid classify joint idx seg1 (first, rmid, sharp) = Some (first', rmid', sharp) /\
      Inv p0 (pre ++ [seg1]) seg1 (np_list first' rmid') (np_cur first' rmid').
  Proof.
    intros HI V1 Hc Hk.
    destruct HI as [Hform Hpre Hchain Hvalid Hfirst Hcsub Horg [Hcur1 Hcur2] Hkeep Hlen].
    set (c := np_cur first rmid) in *.
    destruct (np_form first rmid) as (front & Eout & Eset). fold c in Eout.
    assert (Hin : forall a, In a pre -> In a (pre ++ [seg1])) by (intros; apply in_or_app; auto).
    assert (Hpc : In pc pre) by (destruct Hpre as (l' & ->); apply in_or_app; right; left; reflexivity).
    assert (Hmono : forall a b, adj pre a b -> adj (pre ++ [seg1]) a b)
      by (intros; apply adj_app_l; assumption).
    unfold step_mid. fold c. unfold classify. rewrite Hcur2.
    destruct Hk as [Hk|Hk]; rewrite Hk.
    - (* already smooth: new_path.append(seg1) *)
      exists first, (seg1 :: rmid). split; [reflexivity|].
      assert (E' : np_list first (seg1 :: rmid) = np_list first rmid ++ [seg1]) by reflexivity.
      change (np_cur first (seg1 :: rmid)) with seg1. rewrite E'.
      constructor.
      + eexists; reflexivity.
      + exists pre. reflexivity.
      + rewrite Eout, <- app_assoc. simpl. apply chain_split. split.
        * rewrite <- Eout. eapply chain_mono; [|exact Hchain]. intros x y. apply Jin_mono, Hmono.
        * simpl. split; auto. split; [unfold incont in Hc; congruence|].
          right. exists pc, seg1. split; [|split; [exact Hk|]].
          -- destruct Hpre as (l' & ->). exists l', []. rewrite <- app_assoc. reflexivity.
          -- repeat split; auto.
      + assumption.
      + destruct Hfirst as (f & tl & E & H1 & H2 & H3 & H4). exists f, (tl ++ [seg1]). rewrite E. auto 6.
      + apply Sub_refl.
      + apply Forall_app. split.
        * eapply Forall_impl; [|exact Horg]. intros x. apply Origin_mono, Hin.
        * constructor; [|constructor]. exists seg1. split; [apply in_or_app; right; left; reflexivity|].
          left; apply Sub_refl.
      + auto.
      + intros a b Hadj Hs. apply adj_snoc in Hadj. destruct Hadj as [Hadj|[(l' & El') ->]].
        * destruct (Hkeep a b Hadj Hs) as (x & y & H1 & H2). exists x, y. split; auto.
          apply adj_app_l. assumption.
        * destruct Hpre as (l'' & E''). rewrite E'' in El'. apply app_inj_tail in El'.
          destruct El' as [_ <-].
          exists c, seg1. split.
          -- rewrite Eout. exists front, []. rewrite <- app_assoc. reflexivity.
          -- repeat split; auto.
      + rewrite !app_length. cbn [length]. lia.
    - (* a kink: smoothed_joint *)
      assert (Vc : Valid c) by exact Hvalid.
      destruct (HJ Vc V1) as (s0' & el & s1' & Ej & A1 & A2 & A3 & A4 & A5 & A6 & A7 & A8 & A9 & A10).
      { unfold incont in Hc. congruence. }
      { rewrite Hcur2. exact Hk. }
      rewrite Ej.
      specialize (Eset s0' (el ++ [s1'])).
      destruct (np_set_cur first rmid s0') as [f' r'] eqn:Esc. simpl fst in Eset; simpl snd in Eset.
      rewrite rev_unit in Eset. simpl in Eset.
      exists f', (s1' :: rev el ++ r'). split; [reflexivity|].
      change (np_cur f' (s1' :: rev el ++ r')) with s1'. rewrite Eset.
      assert (Hch' : chain (Jin (adj (pre ++ [seg1]))) (front ++ s0' :: el ++ [s1'])).
      { apply chain_split. split.
        - apply chain_replace_last with (c := c).
          + intros x. apply Jin_replace_y; assumption.
          + rewrite <- Eout. eapply chain_mono; [|exact Hchain]. intros x y. apply Jin_mono, Hmono.
        - eapply chain_mono; [|exact A5]. intros x y. apply Jexact_Jin. }
      constructor.
      + exists (front ++ s0' :: el). rewrite <- app_assoc. reflexivity.
      + exists pre. reflexivity.
      + exact Hch'.
      + assumption.
      + destruct Hfirst as (f & tl & E & H1 & H2 & H3 & H4). rewrite Eout in E.
        destruct front as [|g front].
        * simpl in E. injection E as E1 E2. subst f.
          exists s0', (el ++ [s1']). simpl. repeat split; auto; try congruence.
          eapply Sub_trans; eassumption.
        * simpl in E. injection E as E1 E2. subst g.
          exists f, (front ++ s0' :: el ++ [s1']). auto 6.
      + assumption.
      + rewrite Eout in Horg. apply Forall_app in Horg. destruct Horg as [Hof _].
        apply Forall_app. split.
        * eapply Forall_impl; [|exact Hof]. intros x. apply Origin_mono, Hin.
        * constructor.
          { exists pc. split; [apply Hin, Hpc|]. left. eapply Sub_trans; eassumption. }
          apply Forall_app. split.
          { eapply Forall_impl; [|exact A10]. intros x Hx. exists pc. split; [apply Hin, Hpc|].
            right. rewrite <- Hcur1. exact Hx. }
          constructor; [|constructor]. exists seg1.
          split; [apply in_or_app; right; left; reflexivity|]. left; assumption.
      + auto.
      + intros a b Hadj Hs. apply adj_snoc in Hadj. destruct Hadj as [Hadj|[(l' & El') ->]].
        * destruct (Hkeep a b Hadj Hs) as (x & y & H1 & K1 & K2 & K3 & K4).
          rewrite Eout in H1. apply adj_snoc in H1. destruct H1 as [H1|[(l'' & E'') ->]].
          -- exists x, y. split; [apply adj_app_l; assumption|repeat split; assumption].
          -- exists x, s0'. split.
             ++ rewrite E''. exists l'', (el ++ [s1']). rewrite <- app_assoc. reflexivity.
             ++ repeat split; congruence.
        * destruct Hpre as (l'' & E''). rewrite E'' in El'. apply app_inj_tail in El'.
          destruct El' as [_ <-]. unfold insmooth in Hs. congruence.
      + assert (L := f_equal (@length S) Eout). rewrite !app_length in *. simpl in *.
        rewrite !app_length. simpl. lia.
  Qed.

  Lemma loop_mid_inv p0 rest : forall pre pc idx first rmid sharp,
    Inv p0 pre pc (np_list first rmid) (np_cur first rmid) ->
    Forall Valid rest -> chain incont (pc :: rest) -> chain inclass (pc :: rest) ->
    exists first' rmid',
      loop_mid classify joint idx rest (first, rmid, sharp) = Some (first', rmid', sharp) /\
      Inv p0 (pre ++ rest) (last rest pc) (np_list first' rmid') (np_cur first' rmid').
  Proof.
    induction rest as [|seg1 rest IH]; intros pre pc idx first rmid sharp HI HV Hc Hk.
    - exists first, rmid. rewrite app_nil_r. auto.
    - inversion HV as [|? ? V1 V2]; subst.
      rewrite chain_cons2 in Hc, Hk. destruct Hc as [Hc1 Hc2], Hk as [Hk1 Hk2].
      destruct (step_mid_inv idx sharp HI V1 Hc1 Hk1) as (f' & r' & Est & HI').
      destruct (IH _ _ (Datatypes.S idx) _ _ sharp HI' V2 Hc2 Hk2) as (f'' & r'' & El & HI'').
      exists f'', r''. split.
      + cbn [loop_mid]. rewrite Est. exact El.
      + replace (pre ++ seg1 :: rest) with ((pre ++ [seg1]) ++ rest)
          by (rewrite <- app_assoc; reflexivity).
        rewrite last_cons_default. exact HI''.
  Qed.

  (* cyclic adjacency: the joints of a closed path *)
  Definition adjc (path : list S) (p0 : S) (a b : S) : Prop :=
    adj path a b \/ (a = last path p0 /\ b = p0).

  (* ---- the theorem for paths of two or more segments ---- *)
  Theorem sp_loop_ok p0 p1 rest closed ignore :
    let path := p0 :: p1 :: rest in
    let pl := last path p0 in
    Forall Valid path -> chain incont path -> chain inclass path ->
    (closed = true -> sst p0 = sen pl /\ inclass pl p0) ->
    exists out,
      sp_loop classify joint path true closed ignore = SPOk out /\
      (* continuous, every joint exactly tangent-matched or an untouched smooth input joint *)
      chain (Jin (if closed then adjc path p0 else adj path)) out /\
      (* open: same start and end points (and tangents there) *)
      (closed = false ->
         sst (hd p0 out) = sst p0 /\ t0 (hd p0 out) = t0 p0 /\
         sen (last out p0) = sen pl /\ t1 (last out p0) = t1 pl) /\
      (* closed: the output is closed and its closing joint is good, too *)
      (closed = true -> Jin (adjc path p0) (last out p0) (hd p0 out)) /\
      (* joints that were already smooth keep position and tangents *)
      (forall a b, adj path a b -> insmooth a b ->
                   exists x y, adj out x y /\ Keeps a b x y) /\
      (closed = true -> insmooth pl p0 -> Keeps pl p0 (last out p0) (hd p0 out)) /\
      (* every output segment is a sub-piece of an input segment or lies
         within maxjointsize of an input joint point *)
      Forall (Origin path) out.
  Proof.
    intros path pl HV Hc Hk Hcl.
    assert (Vp0 : Valid p0) by (inversion HV; assumption).
    assert (HVr : Forall Valid (p1 :: rest)) by (inversion HV; assumption).
    destruct (@loop_mid_inv p0 (p1 :: rest) [p0] p0 0 p0 [] [] (inv_init Vp0) HVr Hc Hk)
      as (first & rmid & El & HI).
    change ([p0] ++ p1 :: rest) with path in HI.
    change (last (p1 :: rest) p0) with pl in HI.
    assert (Esp : sp_loop classify joint path true closed ignore =
                  match (if closed then step_close classify joint (first, rmid, [])
                         else Some (first, rmid, [])) with
                  | None => SPError
                  | Some (first, rmid, sharp) =>
                      match sharp with
                      | [] => SPOk (np_list first rmid)
                      | _ :: _ => if ignore then SPOk (np_list first rmid) else SPSharp sharp
                      end
                  end).
    { unfold sp_loop, path. cbn [negb]. rewrite El. reflexivity. }
    rewrite Esp. clear Esp.
    destruct HI as [Hform Hpre Hchain Hvalid Hfirst Hcsub Horg [Hcur1 Hcur2] Hkeep Hlen].
    destruct (np_form first rmid) as (front & Eout & Eset).
    set (c := np_cur first rmid) in *.
    assert (Hpl : In pl path).
    { destruct Hpre as (l' & E'). rewrite E'. apply in_or_app; right; left; reflexivity. }
    destruct closed.
    - (* closed path: the iteration idx = len(path)-1 with seg1 = new_path[0] *)
      destruct (Hcl eq_refl) as [Hclosed Hkl].
      destruct Hfirst as (f & tl & Ef & Hf1 & Hf2 & Hf3 & Hf4).
      unfold np_list in Ef. injection Ef as <- Etl.
      destruct rmid as [|c' r].
      { exfalso. unfold np_list in Hlen. simpl in Hlen. lia. }
      assert (Ec : c = c') by reflexivity. clear Eset.
      unfold step_close. fold c. unfold classify at 1. rewrite Hcur2, Hf2.
      assert (Hmono : forall a b, adj path a b -> adjc path p0 a b) by (intros; left; assumption).
      assert (Eo : np_list first (c' :: r) = first :: rev r ++ [c]) by (rewrite Ec; reflexivity).
      destruct Hkl as [Hkl|Hkl]; rewrite Hkl.
      + (* closing joint already smooth: nothing changes *)
        exists (np_list first (c' :: r)). split; [reflexivity|].
        assert (Hlast : last (np_list first (c' :: r)) p0 = c).
        { rewrite Eo. change (first :: rev r ++ [c]) with ((first :: rev r) ++ [c]). apply last_last. }
        rewrite Hlast. change (hd p0 (np_list first (c' :: r))) with first.
        split; [eapply chain_mono; [|exact Hchain]; intros x y; apply Jin_mono, Hmono|].
        split; [discriminate|].
        split.
        { intros _. split; [congruence|]. right. exists pl, p0. split; [right; auto|].
          split; [exact Hkl|]. repeat split; auto. }
        split; [exact Hkeep|]. split; [intros _ _; repeat split; auto|]. exact Horg.
      + (* closing joint is a kink *)
        assert (Vc : Valid c) by exact Hvalid.
        assert (Vf : Valid first) by exact Hf3.
        destruct (HJ Vc Vf) as (s0' & el & s1' & Ej & A1 & A2 & A3 & A4 & A5 & A6 & A7 & A8 & A9 & A10).
        { congruence. }
        { rewrite Hcur2, Hf2. exact Hkl. }
        rewrite Ej. cbn [np_set_cur].
        assert (Eo' : np_list s1' (rev el ++ s0' :: r) = s1' :: rev r ++ s0' :: el).
        { unfold np_list. rewrite rev_app_distr, rev_involutive. simpl.
          rewrite <- app_assoc. reflexivity. }
        exists (np_list s1' (rev el ++ s0' :: r)). split; [reflexivity|].
        rewrite Eo'. cbn [hd].
        (* split the joint chain into  s0' :: el  and the pair (last, s1') *)
        assert (A5' : chain Jexact (s0' :: el) /\ Jexact (last (s0' :: el) p0) s1').
        { change (s0' :: el ++ [s1']) with ((s0' :: el) ++ [s1']) in A5.
          destruct (@exists_last _ (s0' :: el)) as (m & w & Em); [discriminate|].
          rewrite Em in *. rewrite <- app_assoc in A5. simpl in A5.
          apply chain_split in A5. destruct A5 as [B1 B2]. split; [assumption|].
          rewrite last_last. simpl in B2. tauto. }
        destruct A5' as [B1 B2].
        assert (Hlast : last (s1' :: rev r ++ s0' :: el) p0 = last (s0' :: el) p0).
        { change (s1' :: rev r ++ s0' :: el) with ((s1' :: rev r) ++ (s0' :: el)).
          destruct (@exists_last _ (s0' :: el)) as (m & w & Em); [discriminate|].
          rewrite Em. rewrite app_assoc, !last_last. reflexivity. }
        rewrite Hlast.
        assert (Hch0 : chain (Jin (adjc path p0)) (first :: rev r ++ [c])).
        { rewrite <- Eo. eapply chain_mono; [|exact Hchain]. intros x y; apply Jin_mono, Hmono. }
        split.
        { (* the chain *)
          apply chain_replace_first with (f := first).
          { intros y. apply Jin_replace_x; assumption. }
          change (first :: rev r ++ s0' :: el) with ((first :: rev r) ++ s0' :: el).
          apply chain_split. split.
          - apply chain_replace_last with (c := c).
            + intros x. apply Jin_replace_y; assumption.
            + exact Hch0.
          - eapply chain_mono; [|exact B1]. intros x y; apply Jexact_Jin. }
        split; [discriminate|].
        split; [intros _; apply Jexact_Jin; exact B2|].
        split.
        { intros a b Hadj Hs. destruct (Hkeep a b Hadj Hs) as (x & y & H1 & K1 & K2 & K3 & K4).
          rewrite Eo in H1. apply adj_cons_inv in H1.
          destruct H1 as [[-> (l2 & E2)]|H1].
          - (* x was new_path[0] *)
            destruct r as [|r0 r _] using rev_ind.
            + simpl in E2. injection E2 as Ey _.
              exists s1', s0'. split; [exists [], el; reflexivity|].
              repeat split; congruence.
            + rewrite rev_unit in E2. simpl in E2. injection E2 as Ey _.
              exists s1', y. split.
              * rewrite rev_unit, <- Ey. exists [], (rev r ++ s0' :: el). reflexivity.
              * repeat split; congruence.
          - apply adj_snoc in H1. destruct H1 as [H1|[(l'' & E'') ->]].
            + exists x, y. split; [|repeat split; assumption].
              apply adj_cons. apply adj_app_l. assumption.
            + exists x, s0'. split; [|repeat split; congruence].
              apply adj_cons. rewrite E''. exists l'', el. rewrite <- app_assoc. reflexivity. }
        split; [intros _ Hs; unfold insmooth in Hs; congruence|].
        rewrite Eo in Horg. inversion Horg as [|? ? _ Horg']. apply Forall_app in Horg'.
        destruct Horg' as [Hor _].
        constructor.
        { exists p0. split; [left; reflexivity|]. left. eapply Sub_trans; eassumption. }
        apply Forall_app. split; [exact Hor|].
        constructor.
        { exists pl. split; [exact Hpl|]. left. eapply Sub_trans; eassumption. }
        eapply Forall_impl; [|exact A10]. intros x0 Hx. exists pl. split; [exact Hpl|].
        right. rewrite <- Hcur1. exact Hx.
    - (* open path: the last iteration is skipped *)
      exists (np_list first rmid). split; [reflexivity|].
      split; [exact Hchain|].
      split.
      { intros _. destruct Hfirst as (f & tl & Ef & Hf1 & Hf2 & Hf3).
        rewrite Ef. cbn [hd]. rewrite <- Ef, Eout, last_last. auto. }
      split; [discriminate|]. split; [exact Hkeep|]. split; [discriminate|]. exact Horg.
  Qed.

  (* a single-segment path is returned unchanged (whatever the segment,
     the booleans and the joint procedure) *)
  Theorem sp_loop_single p cont closed ignore :
    sp_loop classify joint [p] cont closed ignore = SPOk [p].
  Proof. reflexivity. Qed.
End LoopThm.
