(* Proofs/BezierAlg.v — polynomial identities for the Bezier models, over an
   arbitrary field of characteristic 0 (axiom-free). *)
From Coq Require Import ZArith List Bool Field Lia.
From SVP Require Import Base.Num Base.Cplx Base.Poly Base.FieldTac Model.Bezier.
Import ListNotations.

Ltac destruct_cplx :=
  repeat match goal with p : Cplx _ |- _ => destruct p end.

Ltac bez_unfold :=
  unfold line_point, quad_point, cubic_point, line_poly, quad_poly, cubic_poly,
         bezier_point, bern, bern_from, bern_basis, cpeval, seg_points in *;
  cbn [length Nat.sub binom Nat.add fold_left map] in *.

Section Alg.
  Context {K : Type} (N : Num K) (OK : NumFieldOK N).
  Add Field KF : (Fth OK).

  Ltac cring :=
    intros; destruct_cplx; bez_unfold; cunfold;
    cbn [lit of_pos npow Z.of_nat Pos.of_succ_nat Pos.succ fst snd];
    apply cplx_eq; cbn [fst snd]; ring.
  Ltac cfield :=
    intros; destruct_cplx; bez_unfold; cunfold;
    cbn [lit of_pos npow Z.of_nat Pos.of_succ_nat Pos.succ fst snd];
    apply cplx_eq; cbn [fst snd]; field; numnz OK.

  (* ---- point(t) is the Bernstein curve ---- *)
  Lemma line_point_bern s e t : line_point N s e t = bern N [s; e] t.
  Proof. cring. Qed.
  Lemma quad_point_bern s c e t : quad_point N s c e t = bern N [s; c; e] t.
  Proof. cring. Qed.
  Lemma cubic_point_bern s c1 c2 e t : cubic_point N s c1 c2 e t = bern N [s; c1; c2; e] t.
  Proof. cring. Qed.

  (* ---- end points are exact ---- *)
  Lemma line_point0 s e : line_point N s e (zero N) = s. Proof. cring. Qed.
  Lemma line_point1 s e : line_point N s e (one N) = e. Proof. cring. Qed.
  Lemma quad_point0 s c e : quad_point N s c e (zero N) = s. Proof. cring. Qed.
  Lemma quad_point1 s c e : quad_point N s c e (one N) = e. Proof. cring. Qed.
  Lemma cubic_point0 s c1 c2 e : cubic_point N s c1 c2 e (zero N) = s. Proof. cring. Qed.
  Lemma cubic_point1 s c1 c2 e : cubic_point N s c1 c2 e (one N) = e. Proof. cring. Qed.

  (* ---- poly() evaluated at t is point(t) ---- *)
  Lemma line_poly_eval s e t : cpeval N (line_poly N s e) t = line_point N s e t.
  Proof. cring. Qed.
  Lemma quad_poly_eval s c e t : cpeval N (quad_poly N s c e) t = quad_point N s c e t.
  Proof. cring. Qed.
  Lemma cubic_poly_eval s c1 c2 e t :
    cpeval N (cubic_poly N s c1 c2 e) t = cubic_point N s c1 c2 e t.
  Proof. cring. Qed.

  (* ---- points(ts) ---- *)
  Lemma cubic_points s c1 c2 e ts :
    seg_points N (cubic_poly N s c1 c2 e) ts = map (cubic_point N s c1 c2 e) ts.
  Proof. unfold seg_points. apply map_ext. intros; apply cubic_poly_eval. Qed.
  Lemma quad_points s c e ts :
    seg_points N (quad_poly N s c e) ts = map (quad_point N s c e) ts.
  Proof. unfold seg_points. apply map_ext. intros; apply quad_poly_eval. Qed.
  Lemma line_points s e ts :
    seg_points N (line_poly N s e) ts = map (line_point N s e) ts.
  Proof. unfold seg_points. apply map_ext. intros; apply line_poly_eval. Qed.

  (* ---- poly2bez inverts poly(), and conversely ---- *)
  Ltac list_cfield :=
    intros; destruct_cplx; unfold poly2bez, line_poly, quad_poly, cubic_poly; cunfold;
    cbn [lit of_pos fst snd];
    repeat (f_equal; try (apply cplx_eq; cbn [fst snd]; field; numnz OK)).
  Lemma poly2bez_line_poly s e : poly2bez N (line_poly N s e) = Some [s; e].
  Proof. list_cfield. Qed.
  Lemma poly2bez_quad_poly s c e : poly2bez N (quad_poly N s c e) = Some [s; c; e].
  Proof. list_cfield. Qed.
  Lemma poly2bez_cubic_poly s c1 c2 e :
    poly2bez N (cubic_poly N s c1 c2 e) = Some [s; c1; c2; e].
  Proof. list_cfield. Qed.
  Lemma cubic_poly_poly2bez a3 a2 a1 a0 :
    match poly2bez N [a3; a2; a1; a0] with
    | Some [s; c1; c2; e] => cubic_poly N s c1 c2 e = [a3; a2; a1; a0]
    | _ => False end.
  Proof. list_cfield. Qed.
  Lemma quad_poly_poly2bez a2 a1 a0 :
    match poly2bez N [a2; a1; a0] with
    | Some [s; c; e] => quad_poly N s c e = [a2; a1; a0]
    | _ => False end.
  Proof. list_cfield. Qed.
  Lemma line_poly_poly2bez a1 a0 :
    match poly2bez N [a1; a0] with
    | Some [s; e] => line_poly N s e = [a1; a0]
    | _ => False end.
  Proof. list_cfield. Qed.
End Alg.
