(* Proofs/PathIdxFloat.v — binary64 (PrimFloat, bit-exact): the cumulative
   fractions need not reach 1, so the search loop of the current code falls
   through for T just below 1.  Witness: segment lengths 9, 12, 5, 1
   (fractions 1/3, 4/9, 5/27, 1/27 rounded; their running left-to-right sum,
   which is the loop's accumulator, ends at 1 - 2^-52 = 0x1.ffffffffffffep-1,
   below T = 1 - 2^-53). *)
From Coq Require Import ZArith List Bool PrimFloat.
From SVP Require Import Base.Num Base.FloatK Model.PathIdx Proofs.PathIdxGen.
Import ListNotations.

Definition falloff_tl : list (bool * float) :=
  [(true, 0x1.2p+3%float); (true, 0x1.8p+3%float); (true, 0x1.4p+2%float); (true, 0x1p+0%float)].
Definition falloff_T : float := 0x1.fffffffffffffp-1%float.      (* 1 - 2^-53 *)

(* every length is positive, 0 < T < 1, the total is exactly 27, and yet ... *)
Lemma falloff_domain comp :
  forallb (fun bx => ltb NumF (zero NumF) (snd bx)) falloff_tl = true
  /\ ltb NumF (zero NumF) falloff_T = true /\ ltb NumF falloff_T (one NumF) = true
  /\ in01 NumF falloff_T = true
  /\ total NumF comp falloff_tl = 0x1.bp+4%float.
Proof. destruct comp; vm_compute; repeat split. Qed.

Lemma falloff_witness comp :
  T2t NumF comp false falloff_tl falloff_T = Err EBug
  /\ point_search NumF comp false falloff_tl falloff_T = Err ERuntime
  /\ cum NumF false (fractions NumF comp falloff_tl) 4 = 0x1.ffffffffffffep-1%float.
Proof. destruct comp; vm_compute; repeat split. Qed.

(* the repaired search returns the end of the last segment there *)
Lemma falloff_fixed comp :
  T2t NumF comp true falloff_tl falloff_T = Ok (3%Z, 1%float)
  /\ point_search NumF comp true falloff_tl falloff_T = Ok (3%Z, 1%float).
Proof. destruct comp; vm_compute; repeat split. Qed.

(* hence the real-number specification C05_T2t_spec is FALSE in binary64 for
   the current code *)
Lemma T2t_total_float_refuted :
  ~ (forall comp tl T,
        forallb (fun bx => ltb NumF (zero NumF) (snd bx)) tl = true ->
        ltb NumF (zero NumF) T = true -> ltb NumF T (one NumF) = true ->
        exists kt, T2t NumF comp false tl T = Ok kt).
Proof.
  intros H. destruct (falloff_domain true) as [H1 [H2 [H3 _]]].
  destruct (H true falloff_tl falloff_T H1 H2 H3) as [kt E].
  destruct (falloff_witness true) as [W _]. rewrite W in E. discriminate.
Qed.

(* while the repaired one is total on [0,1] for all binary64 inputs *)
Lemma T2t_fixed_total_float fs T : in01 NumF T = true ->
  (exists kt, T2t_fixed NumF fs T = Ok kt) \/ T2t_fixed NumF fs T = Err EZeroDiv.
Proof. apply T2t_fixed_total. Qed.
