(* Proofs/PathIdxFloat.v — binary64 (PrimFloat, bit-exact).

   Historical witnesses against the UNREPAIRED code (model flags cl = false,
   fb = false):
   * the cumulative fractions need not reach 1, so the search loop falls
     through for T just below 1.  Lengths 9, 12, 5, 1 (fractions 1/3, 4/9, 5/27,
     1/27 rounded; their running left-to-right sum, the loop's accumulator, ends
     at 1 - 2^-52 = 0x1.ffffffffffffep-1, below T = 1 - 2^-53);
   * the quotient (T - T0)/seg_length exceeds 1 when T is a rounded cumulative
     boundary.  Lengths 1, 2, 2 at T = 0.6000000000000001 (= fl(0.2 + 0.4)).
   And the full theorems for the REPAIRED code (cl = true, fb = true), for all
   binary64 inputs. *)
From Coq Require Import ZArith List Bool PrimFloat.
From SVP Require Import Base.Num Base.FloatK Model.PathIdx Proofs.PathIdxGen Proofs.PathIdxFloatLaws.
Import ListNotations.

Definition falloff_tl : list (bool * float) :=
  [(true, 0x1.2p+3%float); (true, 0x1.8p+3%float); (true, 0x1.4p+2%float); (true, 0x1p+0%float)].
Definition falloff_T : float := 0x1.fffffffffffffp-1%float.      (* 1 - 2^-53 *)

(* every length is positive, 0 < T < 1, the total is exactly 27, and yet ... *)
Lemma falloff_domain comp :
  forallb (fun bx => ltb NumF (zero NumF) (snd bx)) falloff_tl = true
  /\ ltb NumF (zero NumF) falloff_T = true /\ ltb NumF falloff_T (one NumF) = true
  /\ in01 NumF falloff_T = true
  /\ total NumF comp falloff_tl = 0x1.bp+4%float.
Proof. destruct comp; vm_compute; repeat split. Qed.

Lemma falloff_witness comp cl :
  T2t NumF comp cl false falloff_tl falloff_T = Err EBug
  /\ point_search NumF comp false falloff_tl falloff_T = Err ERuntime
  /\ cum NumF false (fractions NumF comp falloff_tl) 4 = 0x1.ffffffffffffep-1%float.
Proof. destruct comp, cl; vm_compute; repeat split. Qed.

(* the repaired search returns the end of the last segment there *)
Lemma falloff_fixed comp cl :
  T2t NumF comp cl true falloff_tl falloff_T = Ok (3%Z, 1%float)
  /\ point_search NumF comp true falloff_tl falloff_T = Ok (3%Z, 1%float).
Proof. destruct comp, cl; vm_compute; repeat split. Qed.
(* ... of the last segment of NONZERO length: with two zero-length segments appended *)
Lemma falloff_fixed_trailing_zeros comp cl :
  T2t NumF comp cl true (falloff_tl ++ [(true, 0%float); (false, 0%float)]) falloff_T
  = Ok (3%Z, 1%float).
Proof. destruct comp, cl; vm_compute; reflexivity. Qed.

(* hence the real-number specification C05_T2t_spec is FALSE in binary64 for
   the unrepaired code *)
Lemma T2t_total_float_refuted :
  ~ (forall comp cl tl T,
        forallb (fun bx => ltb NumF (zero NumF) (snd bx)) tl = true ->
        ltb NumF (zero NumF) T = true -> ltb NumF T (one NumF) = true ->
        exists kt, T2t NumF comp cl false tl T = Ok kt).
Proof.
  intros H. destruct (falloff_domain true) as [H1 [H2 [H3 _]]].
  destruct (H true false falloff_tl falloff_T H1 H2 H3) as [kt E].
  destruct (falloff_witness true false) as [W _]. rewrite W in E. discriminate.
Qed.

(* t above 1 *)
Definition above1_tl : list (bool * float) :=
  [(true, 0x1p+0%float); (true, 0x1p+1%float); (true, 0x1p+1%float)].
Definition above1_T : float := 0x1.3333333333334p-1%float.       (* 0.6000000000000001 *)
Lemma above1_witness comp fb :
  T2t NumF comp false fb above1_tl above1_T = Ok (1%Z, 0x1.0000000000001p+0%float)
  /\ ltb NumF (one NumF) 0x1.0000000000001p+0%float = true
  /\ in01 NumF above1_T = true
  /\ point_search NumF comp fb above1_tl above1_T = Ok (1%Z, 1%float).
Proof. destruct comp, fb; vm_compute; repeat split. Qed.
Lemma above1_fixed comp fb :
  T2t NumF comp true fb above1_tl above1_T = Ok (1%Z, 1%float).
Proof. destruct comp, fb; vm_compute; reflexivity. Qed.
Lemma T2t_le_1_float_refuted :
  ~ (forall comp fb tl T k t, in01 NumF T = true ->
        T2t NumF comp false fb tl T = Ok (k, t) -> ltb NumF (one NumF) t = false).
Proof.
  intros H. destruct (above1_witness true false) as [W [Hgt [H01 _]]].
  specialize (H true false above1_tl above1_T _ _ H01 W). congruence.
Qed.

(* ---------- the repaired code, all binary64 inputs ---------- *)
(* total on [0,1]: neither BugException nor ZeroDivisionError *)
Theorem T2t_repaired_total_float cl fs T : in01 NumF T = true ->
  exists kt, T2t_fr NumF cl true fs T = Ok kt.
Proof. apply (T2t_repaired_total NumF float_LawA float_LawB). Qed.
(* the returned parameter is never above 1 *)
Theorem T2t_clamped_le_1_float fb fs T k t :
  T2t_fr NumF true fb fs T = Ok (k, t) -> PrimFloat.ltb 1%float t = false.
Proof. apply (T2t_clamped_le_1 NumF float_ltb_1_1 float_ltb_1_0). Qed.
(* the weaker, law-free form (kept: closed under the global context) *)
Lemma T2t_fb_total_float cl fs T : in01 NumF T = true ->
  (exists kt, T2t_fr NumF cl true fs T = Ok kt) \/ T2t_fr NumF cl true fs T = Err EZeroDiv.
Proof. apply T2t_fb_total. Qed.
