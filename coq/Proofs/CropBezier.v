(* Proofs/CropBezier.v — reversed / split / cropped of Line, QuadraticBezier,
   CubicBezier (and of Bezier control polygons of ANY degree) trace the same
   curve under the documented parameter map.  Generic carrier with the field
   laws (NumFieldOK); the only fact used about the comparison [eqb] is that a
   `true` answer means equality (eqb_sound), needed to know which branch of
   crop_bezier ran. *)
From Coq Require Import ZArith List Bool Field Lia Arith.
From SVP Require Import Base.Num Base.Cplx Base.FieldTac Model.Bezier Model.Crop
     Proofs.Choose Proofs.DeCasteljau.
Import ListNotations.

Definition eqb_sound {K} (N : Num K) : Prop := forall x y : K, eqb N x y = true -> x = y.

Lemma eqb_sound_R : eqb_sound NumR.
Proof. intros x y H. apply Req_b_true. exact H. Qed.
Lemma eqb_sound_Q : eqb_sound NumQ.
Proof. intros x y H. cbn [eqb NumQ] in H. apply Qcanon.Qc_eq_bool_correct. exact H. Qed.

Section CB.
  Context {K : Type} (N : Num K) (OK : NumFieldOK N).
  Add Field KF : (Fth OK).

  Local Notation "x + y" := (cadd N x y).
  Local Notation "r ** z" := (cscale N r z) (at level 40, left associativity).
  Local Notation om t := (sub N (one N) t).
  Local Notation C0 := (c0 N).

  Ltac cring := cunfold; apply cplx_eq; cbn [fst snd]; ring.

  Lemma split_nonempty p t : p <> [] ->
    fst (split_bezier N p t) <> [] /\ snd (split_bezier N p t) <> [].
  Proof.
    intros Hp. destruct (split_meet_all N OK p t Hp) as (_ & _ & _ & _ & L1 & L2).
    split; intros E; rewrite E in *; cbn [length] in *; destruct p; [congruence|discriminate|congruence|discriminate].
  Qed.

  (* ---------------- reversed ---------------- *)
  Theorem reversed_bezier p t : bern N (bez_reversed p) t = bern N p (om t).
  Proof. apply (bern_rev_all N OK). Qed.

  Lemma line_reversed_bpoints (s e : Cplx K) :
    (let '(a, b) := line_reversed s e in [a; b]) = rev [s; e].
  Proof. reflexivity. Qed.
  Lemma quad_reversed_bpoints (s c e : Cplx K) :
    (let '(a, b, d) := quad_reversed s c e in [a; b; d]) = rev [s; c; e].
  Proof. reflexivity. Qed.
  Lemma cubic_reversed_bpoints (s c1 c2 e : Cplx K) :
    (let '(a, b, d, f) := cubic_reversed s c1 c2 e in [a; b; d; f]) = rev [s; c1; c2; e].
  Proof. reflexivity. Qed.

  (* the segment classes' point() of the reversed object *)
  Theorem line_reversed_point s e t :
    line_point N e s t = line_point N s e (om t).
  Proof. unfold line_point. destruct s, e. cring. Qed.
  Theorem quad_reversed_point s c e t :
    quad_point N e c s t = quad_point N s c e (om t).
  Proof. unfold quad_point. destruct s, c, e. cbn [lit of_pos]. cring. Qed.
  Theorem cubic_reversed_point s c1 c2 e t :
    cubic_point N e c2 c1 s t = cubic_point N s c1 c2 e (om t).
  Proof. unfold cubic_point. destruct s, c1, c2, e. cbn [lit of_pos]. cbv zeta. cring. Qed.

  (* ---------------- split ---------------- *)
  Theorem split_pieces p t : p <> [] ->
    (forall u, bern N (fst (bez_split N p t)) u = bern N p (mul N u t)) /\
    (forall u, bern N (snd (bez_split N p t)) u = bern N p (add N t (mul N u (om t)))) /\
    last (fst (bez_split N p t)) C0 = bern N p t /\
    hd C0 (snd (bez_split N p t)) = bern N p t /\
    hd C0 (fst (bez_split N p t)) = hd C0 p /\
    last (snd (bez_split N p t)) C0 = last p C0 /\
    length (fst (bez_split N p t)) = length p /\
    length (snd (bez_split N p t)) = length p.
  Proof.
    intros Hp. unfold bez_split.
    split; [intros u; apply (split_left_all N OK); assumption|].
    split; [intros u; apply (split_right_all N OK); assumption|].
    apply (split_meet_all N OK). assumption.
  Qed.

  (* ---------------- crop_bezier ---------------- *)
  Theorem crop_bern (Heq : eqb_sound N) p t0 t1 t1adj u : p <> [] ->
    t0 <> one N -> t1adj = div N (sub N t1 t0) (om t0) ->
    bern N (crop_bezier N p t0 t1 t1adj) u = bern N p (add N t0 (mul N u (sub N t1 t0))).
  Proof.
    intros Hp H1 Hadj. unfold crop_bezier, bez_split.
    assert (Hom : om t0 <> zero N).
    { intros E. apply H1. transitivity (sub N (one N) (om t0)); [ring|]. rewrite E. ring. }
    destruct (eqb N t0 (zero N)) eqn:E0.
    - apply Heq in E0. subst t0. rewrite (split_left_all N OK) by assumption.
      apply (bern_param N). ring.
    - destruct (eqb N t1 (one N)) eqn:E1.
      + apply Heq in E1. subst t1. rewrite (split_right_all N OK) by assumption.
        reflexivity.
      + destruct (split_nonempty p t0 Hp) as [_ Hr].
        rewrite (split_left_all N OK) by assumption.
        rewrite (split_right_all N OK) by assumption.
        apply (bern_param N). subst t1adj. field. exact Hom.
  Qed.

  (* first and last control point of the cropped piece *)
  Theorem crop_ends (Heq : eqb_sound N) p t0 t1 t1adj : p <> [] ->
    t0 <> one N -> t1adj = div N (sub N t1 t0) (om t0) ->
    crop_bezier N p t0 t1 t1adj <> [] /\
    length (crop_bezier N p t0 t1 t1adj) = length p /\
    hd C0 (crop_bezier N p t0 t1 t1adj) = bern N p t0 /\
    last (crop_bezier N p t0 t1 t1adj) C0 = bern N p t1.
  Proof.
    intros Hp H1 Hadj.
    assert (Hne : crop_bezier N p t0 t1 t1adj <> [] /\
                  length (crop_bezier N p t0 t1 t1adj) = length p).
    { unfold crop_bezier, bez_split.
      destruct (split_nonempty p t0 Hp) as [_ Hr].
      destruct (eqb N t0 (zero N)); [|destruct (eqb N t1 (one N))].
      - split; [apply (split_nonempty p t1 Hp)|apply (split_meet_all N OK p t1 Hp)].
      - split; [exact Hr|apply (split_meet_all N OK p t0 Hp)].
      - split; [apply (split_nonempty _ t1adj Hr)|].
        destruct (split_meet_all N OK _ t1adj Hr) as (_ & _ & _ & _ & L & _).
        rewrite L. apply (split_meet_all N OK p t0 Hp). }
    destruct Hne as [Hne Hlen]. split; [exact Hne|]. split; [exact Hlen|].
    destruct (bern_ends_all N OK _ Hne) as [B0 B1].
    rewrite <- B0, <- B1, !(crop_bern Heq) by assumption.
    split; apply (bern_param N); ring.
  Qed.

  (* the repaired relocation t1_adj = (t1 - t0)/(1 - t0): NO oracle premise *)
  Theorem crop_bern_analytic (Heq : eqb_sound N) p t0 t1 o u : p <> [] -> t0 <> one N ->
    bern N (crop_bezier_v N true p t0 t1 o) u = bern N p (add N t0 (mul N u (sub N t1 t0))).
  Proof. intros Hp H1. unfold crop_bezier_v, crop_adj. apply (crop_bern Heq); auto. Qed.
  Theorem crop_ends_analytic (Heq : eqb_sound N) p t0 t1 o : p <> [] -> t0 <> one N ->
    crop_bezier_v N true p t0 t1 o <> [] /\
    length (crop_bezier_v N true p t0 t1 o) = length p /\
    hd C0 (crop_bezier_v N true p t0 t1 o) = bern N p t0 /\
    last (crop_bezier_v N true p t0 t1 o) C0 = bern N p t1.
  Proof. intros Hp H1. unfold crop_bezier_v, crop_adj. apply (crop_ends Heq); auto. Qed.
  (* the pinned variant is the oracle version *)
  Lemma crop_bezier_v_pinned p t0 t1 o : crop_bezier_v N false p t0 t1 o = crop_bezier N p t0 t1 o.
  Proof. reflexivity. Qed.

  (* the oracle premise is necessary in general: if the relocated parameter is
     t1adj, the cropped piece ends at p(t0 + t1adj (1 - t0)), whatever t1 is *)
  Theorem crop_bern_any_adj p t0 t1 t1adj u : p <> [] ->
    eqb N t0 (zero N) = false -> eqb N t1 (one N) = false ->
    bern N (crop_bezier N p t0 t1 t1adj) u
    = bern N p (add N t0 (mul N (mul N u t1adj) (om t0))).
  Proof.
    intros Hp E0 E1. unfold crop_bezier, bez_split. rewrite E0, E1.
    destruct (split_nonempty p t0 Hp) as [_ Hr].
    rewrite (split_left_all N OK) by assumption.
    rewrite (split_right_all N OK) by assumption. reflexivity.
  Qed.

  (* ---------------- Line.cropped / Line.split ---------------- *)
  Theorem line_cropped_point s e t0 t1 u :
    (let '(a, b) := line_cropped N s e t0 t1 in line_point N a b u)
    = line_point N s e (add N t0 (mul N u (sub N t1 t0))).
  Proof. unfold line_cropped, line_point. destruct s, e. cring. Qed.
  Theorem line_cropped_ends s e t0 t1 :
    fst (line_cropped N s e t0 t1) = line_point N s e t0 /\
    snd (line_cropped N s e t0 t1) = line_point N s e t1.
  Proof. split; reflexivity. Qed.
  Theorem line_split_points s e t u :
    (let '((a, b), (c, d)) := line_split N s e t in
     line_point N a b u = line_point N s e (mul N u t) /\
     line_point N c d u = line_point N s e (add N t (mul N u (om t))) /\
     b = line_point N s e t /\ c = line_point N s e t /\ a = s /\ d = e).
  Proof.
    unfold line_split, line_point. destruct s, e.
    repeat split; cring.
  Qed.
  Lemma line_point_bern s e t : line_point N s e t = bern N [s; e] t.
  Proof.
    unfold line_point, bern, bern_from, bern_basis. destruct s, e.
    cbn [length Nat.sub binom Nat.add Z.of_nat Pos.of_succ_nat Pos.succ lit of_pos npow].
    cring.
  Qed.
End CB.

(* over the reals, for the documented domain 0 <= t0 < t1 <= 1: the repaired crop_bezier
   returns (its asserts hold) and is the piece from t0 to t1 *)
From Coq Require Import Reals Lra.
Local Open Scope R_scope.
Theorem crop_analytic_R (p : list (Cplx R)) (t0 t1 o u : R) : p <> [] -> 0 <= t0 < t1 -> t1 <= 1 ->
  crop_bezier_res_v NumR true p t0 t1 o = Ok (crop_bezier_v NumR true p t0 t1 o) /\
  bern NumR (crop_bezier_v NumR true p t0 t1 o) u = bern NumR p (t0 + u * (t1 - t0)).
Proof.
  intros Hp H01 H1. split.
  - unfold crop_bezier_res_v, crop_bezier_res, crop_bezier_v, crop_bezier_pre, crop_adj.
    cbn [ltb eqb zero one NumR sub div].
    assert (A : Rlt_b t0 t1 = true) by (apply Rlt_b_true; lra). rewrite A. cbn [andb].
    destruct (Req_b t0 0) eqn:E0; [reflexivity|]. destruct (Req_b t1 1) eqn:E1; [reflexivity|].
    cbn [orb].
    assert (B : Rlt_b t0 1 = true) by (apply Rlt_b_true; lra). rewrite B. cbn [andb].
    assert (C : Rlt_b 0 ((t1 - t0) / (1 - t0)) = true).
    { apply Rlt_b_true. apply Rdiv_lt_0_compat; lra. }
    rewrite C. reflexivity.
  - apply (crop_bern_analytic NumR NumR_ok eqb_sound_R); [exact Hp|]. cbn [one NumR]. lra.
Qed.
