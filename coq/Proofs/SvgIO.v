(* Proofs/SvgIO.v — C18: the wsvg writer followed by each of the three readers
   returns the d-strings in order with the supplied attributes; histories of
   Document.add_path / add_group never change what Document.paths() sees;
   what svg2paths finds in a file saved by Document. *)
From Coq Require Import String List Bool Ascii Lia PeanoNat.
From SVP Require Import Model.SvgIO.
Import ListNotations.
Open Scope string_scope.
Open Scope list_scope.

(* ------------------------------------------------------------------ *)
(* dictionaries                                                         *)
Lemma lookup_app_some k v a b : lookup k a = Some v -> lookup k (a ++ b) = Some v.
Proof.
  induction a as [|[k' v'] a IH]; cbn; [discriminate|].
  destruct (String.eqb k k'); auto.
Qed.
Lemma lookup_app_none k a b : lookup k a = None -> lookup k (a ++ b) = lookup k b.
Proof.
  induction a as [|[k' v'] a IH]; cbn; [reflexivity|].
  destruct (String.eqb k k'); [discriminate|auto].
Qed.
Lemma lookup_filter_keep k (P : string * string -> bool) d :
  (forall v, P (k, v) = true) -> lookup k (filter P d) = lookup k d.
Proof.
  intros HP. induction d as [|[k' v'] d IH]; cbn; [reflexivity|].
  destruct (String.eqb k k') eqn:E.
  - apply String.eqb_eq in E. subst k'. rewrite HP. cbn. rewrite String.eqb_refl. reflexivity.
  - destruct (P (k', v')); cbn; rewrite ?E; exact IH.
Qed.

Lemma lookup_update_other k v d other :
  lookup k other = Some v -> lookup k (update d other) = Some v.
Proof. intros H. unfold update. apply lookup_app_some. exact H. Qed.

Lemma lookup_update_miss k d other :
  lookup k other = None -> lookup k (update d other) = lookup k d.
Proof.
  intros H. unfold update. rewrite lookup_app_none by exact H.
  apply lookup_filter_keep. intros v. cbn [fst]. rewrite H. reflexivity.
Qed.

Lemma lookup_remove_same k d : lookup k (remove_key k d) = None.
Proof.
  induction d as [|[k' v'] d IH]; cbn; [reflexivity|].
  destruct (String.eqb k' k) eqn:E; cbn; [exact IH|].
  rewrite String.eqb_sym, E. exact IH.
Qed.
Lemma lookup_remove_other k k0 d : k <> k0 -> lookup k (remove_key k0 d) = lookup k d.
Proof.
  intros Hne. unfold remove_key. apply lookup_filter_keep. intros v. cbn [fst].
  apply negb_true_iff, String.eqb_neq. exact Hne.
Qed.

(* what wsvg writes on a path element *)
Lemma path_attrs_d d a : d <> "" -> lookup "d" (path_attrs d a) = Some d.
Proof.
  intros Hd. unfold path_attrs. apply String.eqb_neq in Hd. rewrite Hd.
  rewrite lookup_update_miss by apply lookup_remove_same.
  reflexivity.
Qed.
(* get('d', ''): also right for the empty path, whose element has no d attribute *)
Lemma path_attrs_dget d a : dget (path_attrs d a) = d.
Proof.
  unfold dget, path_attrs. destruct (String.eqb d "") eqn:E.
  - apply String.eqb_eq in E. subst d. rewrite lookup_remove_same. reflexivity.
  - rewrite lookup_update_miss by apply lookup_remove_same. reflexivity.
Qed.
Lemma path_attrs_keeps d a k v :
  k <> "d" -> lookup k a = Some v -> lookup k (path_attrs d a) = Some v.
Proof.
  intros Hk Hv. unfold path_attrs. destruct (String.eqb d "").
  - rewrite lookup_remove_other by exact Hk. exact Hv.
  - apply lookup_update_other.
    rewrite lookup_remove_other by exact Hk. exact Hv.
Qed.

(* ------------------------------------------------------------------ *)
(* the written file                                                     *)
Definition written (ds : list string) (attrs : list dict) : list dict :=
  map (fun da => path_attrs (fst da) (snd da)) (combine ds attrs).

Lemma written_cons d dr a ar : written (d :: dr) (a :: ar) = path_attrs d a :: written dr ar.
Proof. reflexivity. Qed.
Lemma written_nil_l attrs : written [] attrs = [].
Proof. reflexivity. Qed.
Lemma written_nil_r ds : written ds [] = [].
Proof. destruct ds; reflexivity. Qed.

Lemma zip_paths_written ds : forall attrs,
    zip_paths ds attrs = map (fun a => FE "" SVGNS "path" a []) (written ds attrs).
Proof.
  induction ds as [|d dr IH]; intros [|a ar]; try reflexivity.
  cbn [zip_paths]. rewrite written_cons, IH. reflexivity.
Qed.

Lemma written_length ds attrs : length attrs = length ds -> length (written ds attrs) = length ds.
Proof. intros H. unfold written. rewrite map_length, combine_length, H. lia. Qed.

Definition noempty (ds : list string) : Prop := Forall (fun d => d <> "") ds.

Lemma written_d ds : forall attrs, length attrs = length ds -> noempty ds ->
    map (lookup "d") (written ds attrs) = map Some ds.
Proof.
  induction ds as [|d dr IH]; intros [|a ar] H Hn; cbn [length] in H; try reflexivity; try discriminate.
  inversion Hn; subst.
  rewrite written_cons. cbn [map]. rewrite path_attrs_d by assumption. f_equal. apply IH; [lia|assumption].
Qed.

Lemma written_dget ds : forall attrs, length attrs = length ds ->
    map dget (written ds attrs) = ds.
Proof.
  induction ds as [|d dr IH]; intros [|a ar] H; cbn [length] in H; try reflexivity; try discriminate.
  rewrite written_cons. cbn [map]. rewrite path_attrs_dget. f_equal. apply IH. lia.
Qed.

Lemma written_keeps ds : forall attrs i a w k v,
    nth_error attrs i = Some a -> nth_error (written ds attrs) i = Some w ->
    k <> "d" -> lookup k a = Some v -> lookup k w = Some v.
Proof.
  induction ds as [|d dr IH]; intros [|a0 ar] i a w k v Ha Hw Hk Hv;
    rewrite ?written_nil_l, ?written_nil_r in Hw;
    try (destruct i; discriminate).
  rewrite written_cons in Hw.
  destruct i as [|i]; cbn [nth_error] in *.
  - inversion Ha; inversion Hw; subst. apply path_attrs_keeps; assumption.
  - exact (IH ar i a w k v Ha Hw Hk Hv).
Qed.

Lemma all_some_map_Some {A} (l : list A) : all_some (map Some l) = Some l.
Proof. induction l as [|x r IH]; cbn; [reflexivity|]. rewrite IH. reflexivity. Qed.

(* ---- reader 1: svg2paths ---- *)
Lemma preorder_paths (l : list dict) :
  flat_map f_preorder (map (fun a => FE "" SVGNS "path" a []) l)
  = map (fun a => FE "" SVGNS "path" a []) l.
Proof. induction l as [|a r IH]; cbn; [reflexivity|]. rewrite IH. reflexivity. Qed.
Lemma filter_paths (l : list dict) :
  filter (fun e => String.eqb (tag_name e) "path") (map (fun a => FE "" SVGNS "path" a []) l)
  = map (fun a => FE "" SVGNS "path" a []) l.
Proof. induction l as [|a r IH]; cbn; [reflexivity|]. rewrite IH. reflexivity. Qed.

Lemma attrs_paths (l : list dict) : map f_attrs (map (fun a => FE "" SVGNS "path" a []) l) = l.
Proof. induction l as [|a r IH]; cbn; [reflexivity|]. rewrite IH. reflexivity. Qed.

Lemma wsvg_elements ds attrs sa size :
  elements_by_tag "path" (wsvg_file ds attrs sa size)
  = map (fun a => FE "" SVGNS "path" a []) (written ds attrs).
Proof.
  unfold elements_by_tag, wsvg_file. cbn [f_preorder flat_map].
  rewrite zip_paths_written, preorder_paths. cbn [filter tag_name String.eqb Ascii.eqb Bool.eqb app].
  cbn. apply filter_paths.
Qed.

(* pinned el['d'] needs every d-string non-empty (svgwrite leaves an empty d out);
   the repaired el.get('d', '') reads every list back *)
Theorem wsvg_svg2paths c ds attrs sa size :
  length attrs = length ds -> (f_nod_empty c = true \/ noempty ds) ->
  svg2paths_read c (wsvg_file ds attrs sa size) = Some (ds, written ds attrs).
Proof.
  intros H Hn. unfold svg2paths_read. rewrite wsvg_elements, attrs_paths.
  cbn zeta. destruct (f_nod_empty c) eqn:Ec.
  - rewrite written_dget by exact H. reflexivity.
  - destruct Hn as [Hn|Hn]; [discriminate|].
    rewrite written_d by assumption. rewrite all_some_map_Some. reflexivity.
Qed.

Theorem wsvg_svg2paths_svg_attributes ds attrs sa size k v :
  lookup k sa = Some v ->
  exists ra, svg2paths_svg_attributes (wsvg_file ds attrs sa size) = Some ra
             /\ lookup k ra = Some v.
Proof.
  intros H. eexists. split.
  - unfold svg2paths_svg_attributes, elements_by_tag, wsvg_file. cbn [f_preorder filter tag_name].
    cbn. reflexivity.
  - cbn [f_attrs]. apply lookup_update_other. exact H.
Qed.

(* ---- reader 2: Document ---- *)
Lemma parse_paths (l : list dict) :
  map et_parse (map (fun a => FE "" SVGNS "path" a []) l) = map (fun a => XE SVGNS "path" a []) l.
Proof. rewrite map_map. reflexivity. Qed.
Lemma filter_xpaths (l : list dict) :
  filter is_svg_path (map (fun a => XE SVGNS "path" a []) l) = map (fun a => XE SVGNS "path" a []) l.
Proof. induction l as [|a r IH]; cbn; [reflexivity|]. rewrite IH. reflexivity. Qed.
Lemma go_xpaths (l : list dict) :
  (fix go (l : list xel) : list dict :=
     match l with
     | [] => []
     | c :: r => go r ++ (if is_svg_g c then doc_visible c else [])
     end) (map (fun a => XE SVGNS "path" a []) l) = [].
Proof. induction l as [|a r IH]; cbn; [reflexivity|]. cbn in IH. rewrite IH. reflexivity. Qed.

Lemma xattrs_paths (l : list dict) : map x_attrs (map (fun a => XE SVGNS "path" a []) l) = l.
Proof. induction l as [|a r IH]; cbn; [reflexivity|]. rewrite IH. reflexivity. Qed.

Theorem wsvg_document ds attrs sa size :
  length attrs = length ds ->
  doc_read (wsvg_file ds attrs sa size) = (ds, written ds attrs).
Proof.
  intros H. unfold doc_read, wsvg_file. cbn [et_parse map].
  rewrite zip_paths_written, parse_paths. cbn [doc_visible filter is_svg_path is_tag x_ns x_local].
  cbn [String.eqb]. cbn.
  rewrite filter_xpaths, go_xpaths, app_nil_r, xattrs_paths.
  f_equal. exact (written_dget ds attrs H).
Qed.

(* ---- reader 3: SaxDocument ---- *)
Lemma update_nil_r d : update d [] = d.
Proof.
  unfold update. cbn [app]. induction d as [|kv r IH]; [reflexivity|].
  cbn [filter lookup]. f_equal. exact IH.
Qed.

Definition nostyle (a : dict) : Prop := lookup "style" a = None.

Lemma style_entries_nostyle c a : nostyle a -> style_entries c a = Some [].
Proof. unfold nostyle, style_entries. intros ->. reflexivity. Qed.

Lemma path_attrs_nostyle d a : nostyle a -> nostyle (path_attrs d a).
Proof.
  unfold nostyle, path_attrs. intros H. destruct (String.eqb d "").
  - rewrite lookup_remove_other by discriminate. exact H.
  - rewrite lookup_update_miss.
    + reflexivity.
    + rewrite lookup_remove_other by discriminate. exact H.
Qed.

Lemma written_nostyle ds : forall attrs, Forall nostyle attrs -> Forall nostyle (written ds attrs).
Proof.
  induction ds as [|d dr IH]; intros [|a ar] H.
  - rewrite written_nil_l. constructor.
  - rewrite written_nil_l. constructor.
  - rewrite written_nil_r. constructor.
  - inversion H; subst. rewrite written_cons. constructor; [apply path_attrs_nostyle; assumption|auto].
Qed.

Lemma sax_paths c inherited (l : list dict) :
  Forall nostyle l ->
  flat_map (sax_values c inherited) (map (fun a => XE SVGNS "path" a []) l)
  = map (fun w => Some (sax_path_values (update inherited w))) l.
Proof.
  induction 1 as [|a r Ha Hr IH]; [reflexivity|].
  cbn [map flat_map sax_values]. rewrite (style_entries_nostyle c a Ha), update_nil_r.
  cbn [sax_name x_ns x_local]. cbn. cbn in IH. rewrite IH. reflexivity.
Qed.

Theorem wsvg_sax c ds attrs sa size :
  length attrs = length ds -> noempty ds ->
  nostyle sa -> nostyle size -> Forall nostyle attrs ->
  exists root_values,
    sax_read c (wsvg_file ds attrs sa size)
    = Some (ds, map (fun w => sax_path_values (update root_values w)) (written ds attrs))
    /\ sax_root_values c (wsvg_file ds attrs sa size) = root_values
    /\ forall k v, lookup k sa = Some v -> lookup k root_values = Some v.
Proof.
  intros H Hne Hsa Hsz Hat.
  assert (HR : nostyle (update (update svgwrite_defaults size) sa)).
  { unfold nostyle in *. rewrite lookup_update_miss by exact Hsa.
    rewrite lookup_update_miss by exact Hsz. reflexivity. }
  exists (update [] (update (update svgwrite_defaults size) sa)). split; [|split].
  - unfold sax_read, wsvg_file. cbn [et_parse map].
    rewrite zip_paths_written, parse_paths.
    cbn [sax_values]. rewrite (style_entries_nostyle c _ HR), update_nil_r.
    cbn [sax_name x_ns x_local]. cbn [String.eqb]. cbn [flat_map].
    replace (sax_values c (update [] (update (update svgwrite_defaults size) sa)) (XE SVGNS "defs" [] []))
      with (@nil (option dict)) by reflexivity.
    cbn [app].
    match goal with |- context [if ?b then _ else _] => replace b with false by reflexivity end.
    cbn [app].
    rewrite (sax_paths c _ _ (written_nostyle ds attrs Hat)).
    rewrite <- (map_map (fun w => sax_path_values (update _ w)) Some), all_some_map_Some. f_equal. f_equal.
    assert (E : forall rv (l : list dict), map (lookup "d") l = map Some ds ->
                map (fun a => match lookup "d" a with Some d => d | None => "" end)
                    (map (fun w => sax_path_values (update rv w)) l) = ds).
    { clear. intros rv l. revert ds. induction l as [|a r IH]; intros [|d dr] E; cbn [map] in *;
        try reflexivity; try discriminate.
      inversion E as [[E1 E2]]. unfold sax_path_values at 1.
      rewrite (lookup_update_other "d" (dget (update rv a)) _ [("d", dget (update rv a))] eq_refl).
      unfold dget. rewrite (lookup_update_other _ _ _ _ E1). f_equal. apply IH. exact E2. }
    apply E, written_d; assumption.
  - unfold sax_root_values, wsvg_file. cbn [et_parse].
    rewrite (style_entries_nostyle c _ HR), update_nil_r. reflexivity.
  - intros k v Hk. apply lookup_update_other. apply lookup_update_other. exact Hk.
Qed.

(* the values SaxDocument holds for an element are COMPUTED values: a
   declaration of the element's style attribute takes precedence over the
   attribute of the same name (CSS cascade, SVG 1.1 6.4), which takes
   precedence over the value inherited from the ancestors *)
Lemma values_precedence (inh a st : dict) k :
  lookup k (update (update inh a) st)
  = match lookup k st with
    | Some v => Some v
    | None => match lookup k a with
              | Some v => Some v
              | None => lookup k inh
              end
    end.
Proof.
  destruct (lookup k st) as [v|] eqn:Es.
  - apply lookup_update_other, Es.
  - rewrite (lookup_update_miss _ _ _ Es).
    destruct (lookup k a) as [v|] eqn:Ea.
    + apply lookup_update_other, Ea.
    + apply lookup_update_miss, Ea.
Qed.

(* the d entry SaxDocument adds does not touch the other values *)
Lemma sax_path_values_keeps values k : k <> "d" -> lookup k (sax_path_values values) = lookup k values.
Proof.
  intros Hk. unfold sax_path_values. apply lookup_update_miss.
  cbn [lookup]. apply String.eqb_neq in Hk. rewrite Hk. reflexivity.
Qed.

(* ---- the style attribute ---- *)
(* repaired: splitting the style attribute never raises *)
Lemma style_assign_total c : f_style_skip c = true ->
  forall decls acc, exists r, style_assign c decls acc = Some r.
Proof.
  intros Hc. induction decls as [|e r IH]; intros acc; cbn [style_assign]; [eauto|].
  destruct (split_on ":" e) as [|k [|v t]]; rewrite ?Hc; apply IH.
Qed.
Theorem style_entries_total c a : f_style_skip c = true -> exists r, style_entries c a = Some r.
Proof.
  intros Hc. unfold style_entries. destruct (lookup "style" a); [|eauto].
  apply style_assign_total, Hc.
Qed.
