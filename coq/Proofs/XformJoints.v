(* Proofs/XformJoints.v — transform_segments_together (Model/Xform.v, Section
   Together) for paths of ANY length, over ARBITRARY segment and point types:
   no algebraic law of the carrier is used anywhere, the statements are about
   values being literally the same (bitwise, in binary64).

   sync_nth        complete description of the result of the assignment loop
   joints_synced   every joint enumerated by joints() that coincided before
                   coincides after (n-1 joints as coded, n with closing_joint)
   last_untouched  with the joints() of the code the last segment keeps the end
                   its own kernel computed
   closed_preserved_local    a closed path stays closed when the kernel computes
                   new start and new end by ONE function of the old start / end
   closed_with_closing_joint with the closing pair in joints() it stays closed for
                   every kernel *)
From Coq Require Import List Bool Arith Lia.
From SVP Require Import Base.Num Base.Cplx Model.Bezier Model.Arc Model.Xform.
Import ListNotations.

(* ---- list facts ---- *)
Lemma combine_nth_lt {A B} (l : list A) : forall (l' : list B) k a b,
  k < length l -> k < length l' -> nth k (combine l l') (a, b) = (nth k l a, nth k l' b).
Proof.
  induction l as [|x l IH]; intros l' k a b H1 H2; cbn [length] in H1; [lia|].
  destruct l' as [|y l']; cbn [length] in H2; [lia|].
  destruct k as [|k]; [reflexivity|]. cbn [combine nth]. apply IH; lia.
Qed.

Lemma nth_error_nth_lt {A} (l : list A) k d : k < length l -> nth_error l k = Some (nth k l d).
Proof.
  revert k. induction l as [|x l IH]; intros k H; cbn [length] in H; [lia|].
  destruct k; [reflexivity|]. cbn. apply IH. lia.
Qed.

Section J.
  Context {S P : Type}.
  Variables (s_start s_end : S -> P) (set_end : S -> P -> S) (peq : P -> P -> bool).
  Variable okS : S -> Prop.
  Hypothesis start_set_end : forall s p, okS s -> s_start (set_end s p) = s_start s.
  Hypothesis end_set_end : forall s p, s_end (set_end s p) = p.
  Variable closing_joint : bool.
  Variable d : S.

  Local Notation joints := (joints closing_joint).
  Local Notation upd := (@upd S).
  Local Notation sync := (sync s_start s_end set_end peq closing_joint).

  Lemma upd_length i g : forall l, length (upd i g l) = length l.
  Proof.
    revert i. fix IH 2. intros i l. destruct l as [|x r]; [destruct i; reflexivity|].
    destruct i as [|j]; cbn [Xform.upd length]; [reflexivity|]. now rewrite IH.
  Qed.
  Lemma upd_nth_same g : forall l i, i < length l -> nth i (upd i g l) d = g (nth i l d).
  Proof.
    induction l as [|x r IH]; intros i H; cbn [length] in H; [lia|].
    destruct i as [|j]; cbn [Xform.upd nth]; [reflexivity|]. apply IH. lia.
  Qed.
  Lemma upd_nth_other g : forall l i j, j <> i -> nth j (upd i g l) d = nth j l d.
  Proof.
    induction l as [|x r IH]; intros i j H; [destruct i; reflexivity|].
    destruct i as [|i']; destruct j as [|j']; cbn [Xform.upd nth]; try reflexivity; try lia.
    apply IH. lia.
  Qed.

  (* number of joints enumerated *)
  Definition njoints (n : nat) : nat := if closing_joint then n else n - 1.

  Lemma joints_length (path : list S) : length (joints path) = njoints (length path).
  Proof.
    unfold Xform.joints, njoints. rewrite combine_length, app_length.
    destruct path as [|x r]; [destruct closing_joint; reflexivity|].
    cbn [tl length firstn]. destruct closing_joint; cbn [length]; lia.
  Qed.

  Lemma joints_nth (path : list S) k : k < njoints (length path) ->
    nth k (joints path) (d, d) = (nth k path d, nth (Datatypes.S k mod length path) path d).
  Proof.
    intros Hk. unfold Xform.joints.
    destruct path as [|x r].
    { unfold njoints in Hk. cbn [length] in Hk. destruct closing_joint; lia. }
    cbn [tl firstn]. set (n := length (x :: r)) in *.
    assert (Hn : n = Datatypes.S (length r)) by reflexivity.
    assert (Hm : njoints n <= n) by (unfold njoints; destruct closing_joint; lia).
    rewrite combine_nth_lt.
    - f_equal.
      destruct (Nat.lt_ge_cases (Datatypes.S k) n) as [Hlt|Hge].
      + rewrite Nat.mod_small by exact Hlt. rewrite app_nth1 by lia. reflexivity.
      + assert (k = length r) by lia. subst k.
        replace (Datatypes.S (length r)) with n by lia. rewrite Nat.mod_same by lia.
        unfold njoints in Hk. destruct closing_joint; [|lia].
        rewrite app_nth2 by lia. rewrite Nat.sub_diag. reflexivity.
    - fold n. lia.
    - rewrite app_length. unfold njoints in Hk. fold n in Hk.
      destruct closing_joint; cbn [length]; lia.
  Qed.

  (* ---------------------------------------------------------------- *)
  Section Loop.
    Variables path new0 : list S.
    Hypothesis Hlen : length new0 = length path.
    Hypothesis Hok : forall j, j < length path -> okS (nth j new0 d).
    Let n := length path.

    Definition joined (j : nat) : bool :=
      peq (s_end (nth j path d)) (s_start (nth (Datatypes.S j mod n) path d)).
    Definition nxt_start (j : nat) : P := s_start (nth (Datatypes.S j mod n) new0 d).

    (* after k iterations *)
    Definition Inv (k : nat) (segs : list S) : Prop :=
      length segs = n /\
      (forall j, j < k -> joined j = true -> nth j segs d = set_end (nth j new0 d) (nxt_start j)) /\
      (forall j, j < k -> joined j = false -> nth j segs d = nth j new0 d) /\
      (forall j, k <= j -> nth j segs d = nth j new0 d).

    Lemma Inv_start k segs : Inv k segs -> forall j, j < n ->
      s_start (nth j segs d) = s_start (nth j new0 d).
    Proof.
      intros (Ha & Hc & Hc' & Hd) j Hj.
      destruct (Nat.lt_ge_cases j k) as [Hlt|Hge].
      - destruct (joined j) eqn:E.
        + rewrite (Hc j Hlt E). apply start_set_end. apply Hok. exact Hj.
        + now rewrite (Hc' j Hlt E).
      - now rewrite (Hd j Hge).
    Qed.

    Lemma Inv_step k segs : k < n -> Inv k segs ->
      Inv (Datatypes.S k)
          (sync_step s_start s_end set_end peq n segs
                     (k, (nth k path d, nth (Datatypes.S k mod n) path d))).
    Proof.
      intros Hk HI. pose proof (Inv_start k segs HI) as Hb.
      destruct HI as (Ha & Hc & Hc' & Hd).
      unfold sync_step. fold (joined k).
      destruct (joined k) eqn:E.
      - assert (Hmod : Datatypes.S k mod n < n) by (apply Nat.mod_upper_bound; lia).
        rewrite (nth_error_nth_lt segs _ d) by (rewrite Ha; exact Hmod).
        split; [|split; [|split]].
        + now rewrite upd_length.
        + intros j Hj Ej. destruct (Nat.eq_dec j k) as [->|Hne].
          * rewrite upd_nth_same by (rewrite Ha; exact Hk).
            rewrite (Hd k (le_n k)). unfold nxt_start. now rewrite (Hb _ Hmod).
          * rewrite upd_nth_other by exact Hne. apply Hc; [lia|exact Ej].
        + intros j Hj Ej. destruct (Nat.eq_dec j k) as [->|Hne]; [congruence|].
          rewrite upd_nth_other by exact Hne. apply Hc'; [lia|exact Ej].
        + intros j Hj. rewrite upd_nth_other by lia. apply Hd. lia.
      - split; [exact Ha|split; [|split]].
        + intros j Hj Ej. destruct (Nat.eq_dec j k) as [->|Hne]; [congruence|]. apply Hc; [lia|exact Ej].
        + intros j Hj Ej. destruct (Nat.eq_dec j k) as [->|Hne]; [apply Hd; lia|]. apply Hc'; [lia|exact Ej].
        + intros j Hj. apply Hd. lia.
    Qed.

    Lemma Inv_fold : forall (js : list (S * S)) k segs,
      k + length js <= n ->
      (forall j, j < length js ->
                 nth j js (d, d) = (nth (k + j) path d, nth (Datatypes.S (k + j) mod n) path d)) ->
      Inv k segs ->
      Inv (k + length js)
          (fold_left (sync_step s_start s_end set_end peq n) (combine (seq k (length js)) js) segs).
    Proof.
      induction js as [|[sa sb] js IH]; intros k segs Hle Hnth HI.
      - cbn [length combine seq fold_left]. now rewrite Nat.add_0_r.
      - cbn [length] in *. cbn [seq combine fold_left].
        replace (k + Datatypes.S (length js)) with (Datatypes.S k + length js) by lia.
        apply IH.
        + lia.
        + intros j Hj. specialize (Hnth (Datatypes.S j) ltac:(lia)). cbn [nth] in Hnth.
          rewrite Hnth. now replace (k + Datatypes.S j) with (Datatypes.S k + j) by lia.
        + specialize (Hnth 0 ltac:(lia)). cbn [nth] in Hnth. rewrite Nat.add_0_r in Hnth.
          rewrite Hnth. apply Inv_step; [lia|exact HI].
    Qed.

    Lemma Inv_init : Inv 0 new0.
    Proof. split; [exact Hlen|split; [|split]]; intros; try lia; reflexivity. Qed.

    Lemma njoints_le : njoints n <= n.
    Proof. unfold njoints. destruct closing_joint; lia. Qed.

    (* the complete description of what the loop returns *)
    Theorem sync_Inv : Inv (njoints n) (sync path new0).
    Proof.
      unfold Xform.sync. fold n.
      pose proof (joints_length path) as HL. fold n in HL.
      rewrite <- HL at 1.
      apply (Inv_fold (joints path) 0 new0).
      - rewrite HL. cbn. apply njoints_le.
      - intros j Hj. rewrite HL in Hj. cbn [Nat.add]. now apply joints_nth.
      - exact Inv_init.
    Qed.

    Theorem sync_length : length (sync path new0) = n.
    Proof. apply sync_Inv. Qed.

    Theorem sync_nth j :
      nth j (sync path new0) d =
      if (j <? njoints n) && joined j then set_end (nth j new0 d) (nxt_start j) else nth j new0 d.
    Proof.
      destruct sync_Inv as (Ha & Hc & Hc' & Hd).
      destruct (j <? njoints n) eqn:E; cbn [andb].
      - apply Nat.ltb_lt in E. destruct (joined j) eqn:Ej; [now apply Hc|now apply Hc'].
      - apply Nat.ltb_ge in E. now apply Hd.
    Qed.

    (* new start points are exactly those the kernel computed *)
    Theorem sync_start j : j < n -> s_start (nth j (sync path new0) d) = s_start (nth j new0 d).
    Proof. apply (Inv_start _ _ sync_Inv). Qed.

    (* C10_joints_synced *)
    Theorem joints_synced i : i < njoints n -> joined i = true ->
      s_end (nth i (sync path new0) d) = s_start (nth (Datatypes.S i mod n) (sync path new0) d).
    Proof.
      intros Hi Hj.
      assert (Hn : 0 < n) by (pose proof njoints_le; lia).
      rewrite sync_nth. apply Nat.ltb_lt in Hi. rewrite Hi, Hj. cbn [andb].
      rewrite end_set_end. unfold nxt_start.
      symmetry. apply sync_start. apply Nat.mod_upper_bound. lia.
    Qed.

    (* as coded (closing_joint = false): all joints between segment i and i+1 *)
    Corollary joints_synced_as_coded i : closing_joint = false -> Datatypes.S i < n ->
      peq (s_end (nth i path d)) (s_start (nth (Datatypes.S i) path d)) = true ->
      s_end (nth i (sync path new0) d) = s_start (nth (Datatypes.S i) (sync path new0) d).
    Proof.
      intros Hcj Hi Hj.
      pose proof (Nat.mod_small (Datatypes.S i) n Hi) as Hm.
      rewrite <- Hm at 1. apply joints_synced.
      - unfold njoints. rewrite Hcj. lia.
      - unfold joined. now rewrite Hm.
    Qed.

    (* segments that are not the left side of a coinciding enumerated joint are
       exactly what the kernel returned: the operation acts segment-wise *)
    Theorem sync_untouched j : (njoints n <= j \/ joined j = false) ->
      nth j (sync path new0) d = nth j new0 d.
    Proof.
      intros H. rewrite sync_nth. destruct H as [H|H].
      - apply Nat.ltb_ge in H. now rewrite H.
      - rewrite H. now rewrite andb_false_r.
    Qed.
  End Loop.

  (* ---------------------------------------------------------------- *)
  (* closed paths                                                       *)
  (* ---------------------------------------------------------------- *)
  Section Closed.
    Variables path new0 : list S.
    Hypothesis Hlen : length new0 = length path.
    Hypothesis Hne : path <> [].
    Hypothesis Hok : forall j, j < length path -> okS (nth j new0 d).
    Let n := length path.
    Let first (l : list S) := nth 0 l d.
    Let final (l : list S) := nth (n - 1) l d.

    Lemma n_pos : 0 < n.
    Proof. unfold n. destruct path; [contradiction|cbn; lia]. Qed.

    (* the kernel computes new start and new end by one function g of the old ones *)
    Definition endpoint_local_on (g : P -> P) : Prop :=
      forall j, j < n -> s_start (nth j new0 d) = g (s_start (nth j path d))
                      /\ s_end (nth j new0 d) = g (s_end (nth j path d)).

    (* C10_closed_preserved_local: joints() as coded *)
    Theorem closed_preserved_local g :
      closing_joint = false -> endpoint_local_on g ->
      s_end (final path) = s_start (first path) ->
      s_end (final (sync path new0)) = s_start (first (sync path new0)).
    Proof.
      intros Hcj Hg Hc. pose proof n_pos as Hn. unfold final, first.
      rewrite (sync_untouched path new0 Hlen Hok (n - 1)).
      2:{ left. unfold njoints. rewrite Hcj. fold n. lia. }
      rewrite (sync_start path new0 Hlen Hok 0) by (fold n; lia).
      destruct (Hg (n - 1) ltac:(lia)) as [_ ->]. destruct (Hg 0 Hn) as [-> _].
      unfold final, first in Hc. now rewrite Hc.
    Qed.
    (* the same with the == of the carrier instead of identity *)
    Theorem closed_preserved_local_peq g :
      closing_joint = false -> endpoint_local_on g ->
      (forall a b, peq a b = true -> peq (g a) (g b) = true) ->
      peq (s_end (final path)) (s_start (first path)) = true ->
      peq (s_end (final (sync path new0))) (s_start (first (sync path new0))) = true.
    Proof.
      intros Hcj Hg Hcompat Hc. pose proof n_pos as Hn. unfold final, first.
      rewrite (sync_untouched path new0 Hlen Hok (n - 1)).
      2:{ left. unfold njoints. rewrite Hcj. fold n. lia. }
      rewrite (sync_start path new0 Hlen Hok 0) by (fold n; lia).
      destruct (Hg (n - 1) ltac:(lia)) as [_ ->]. destruct (Hg 0 Hn) as [-> _].
      now apply Hcompat.
    Qed.

    (* with the joints() as coded the closing joint is whatever the kernels give *)
    Theorem closing_joint_unsynced :
      closing_joint = false ->
      s_end (final (sync path new0)) = s_end (final new0)
      /\ s_start (first (sync path new0)) = s_start (first new0).
    Proof.
      intros Hcj. pose proof n_pos as Hn. unfold final, first. split.
      - rewrite (sync_untouched path new0 Hlen Hok (n - 1)); [reflexivity|].
        left. unfold njoints. rewrite Hcj. fold n. lia.
      - apply (sync_start path new0 Hlen Hok). fold n. lia.
    Qed.

    (* the repaired joints(): closed stays closed for EVERY kernel *)
    Theorem closed_with_closing_joint :
      closing_joint = true ->
      peq (s_end (final path)) (s_start (first path)) = true ->
      s_end (final (sync path new0)) = s_start (first (sync path new0)).
    Proof.
      intros Hcj Hc. pose proof n_pos as Hn. unfold final, first.
      assert (E : Datatypes.S (n - 1) mod n = 0).
      { replace (Datatypes.S (n - 1)) with n by lia. apply Nat.mod_same. lia. }
      rewrite <- E at 2.
      apply (joints_synced path new0 Hlen Hok).
      - unfold njoints. rewrite Hcj. fold n. lia.
      - unfold joined. fold n. rewrite E. exact Hc.
    Qed.
  End Closed.
End J.

(* ------------------------------------------------------------------ *)
(* instantiation at the segments of Model/Xform.v                        *)
(* ------------------------------------------------------------------ *)
Section SegJ.
  Context {K : Type} (N : Num K) (T : NumT K).
  Local Notation C := (Cplx K).

  Definition okSeg (s : Seg K) : Prop :=
    match s with SBez p => 2 <= length p | SArc _ => True end.

  Lemma hd_removelast_app (p : list C) z x : 2 <= length p -> hd x (removelast p ++ [z]) = hd x p.
  Proof. destruct p as [|a [|b r]]; cbn [length]; try lia. reflexivity. Qed.

  Lemma seg_start_set_end s z : okSeg s -> seg_start N (seg_set_end s z) = seg_start N s.
  Proof. destruct s as [p|P]; cbn; [apply hd_removelast_app|reflexivity]. Qed.
  Lemma seg_end_set_end s z : seg_end N (seg_set_end s z) = z.
  Proof. destruct s as [p|P]; cbn; [apply last_last|reflexivity]. Qed.

  (* xmapM succeeded: element-wise *)
  Lemma xmapM_ok {A B} (f : A -> xres B) : forall l l', xmapM f l = XOk l' ->
    length l' = length l /\ forall j da db, j < length l -> f (nth j l da) = XOk (nth j l' db).
  Proof.
    induction l as [|a l IH]; intros l' H; cbn [xmapM] in H.
    - injection H as <-. split; [reflexivity|]. cbn. intros; lia.
    - destruct (f a) as [b| |] eqn:Ea; try discriminate.
      destruct (xmapM f l) as [bs| |] eqn:El; try discriminate.
      injection H as <-. destruct (IH bs eq_refl) as [HL Hn]. split; [cbn; now rewrite HL|].
      intros [|j] da db Hj; cbn [nth]; [exact Ea|]. apply Hn. cbn in Hj. lia.
  Qed.

  (* a kernel whose new end points are ONE function g of the old ones *)
  Definition seg_endpoint_local (f : Seg K -> xres (Seg K)) (g : C -> C) : Prop :=
    forall s s', okSeg s -> f s = XOk s' ->
      okSeg s' /\ seg_start N s' = g (seg_start N s) /\ seg_end N s' = g (seg_end N s).

  Lemma hd_map (A : C -> C) (p : list C) x : p <> [] -> hd x (map A p) = A (hd x p).
  Proof. destruct p; [contradiction|reflexivity]. Qed.
  Lemma last_map (A : C -> C) (p : list C) x : p <> [] -> last (map A p) x = A (last p x).
  Proof.
    induction p as [|a [|b r] IH]; intros H; [contradiction|reflexivity|].
    change (map A (a :: b :: r)) with (A a :: map A (b :: r)).
    change (last (A a :: map A (b :: r)) x) with (last (map A (b :: r)) x).
    rewrite IH by discriminate. reflexivity.
  Qed.

  Lemma bpoints2bezier_ok (p q : list C) : bpoints2bezier p = XOk q -> q = p /\ 2 <= length p.
  Proof.
    destruct p as [|a [|b [|c [|e [|e' r]]]]]; cbn; intros H; try discriminate;
      injection H as <-; split; try reflexivity; lia.
  Qed.

  Lemma bez_map_local (A : C -> C) p s' : 2 <= length p ->
    xmap SBez (bpoints2bezier (map A p)) = XOk s' ->
    okSeg s' /\ seg_start N s' = A (hd (c0 N) p) /\ seg_end N s' = A (last p (c0 N)).
  Proof.
    intros Hp H. destruct (bpoints2bezier (map A p)) as [q| |] eqn:E; try discriminate.
    cbn in H. injection H as <-. destruct (bpoints2bezier_ok _ _ E) as [-> Hl].
    assert (p <> []) by (intros ->; cbn in Hp; lia).
    cbn. rewrite map_length in *. repeat split; [exact Hp|now apply hd_map|now apply last_map].
  Qed.

  Lemma translate_local z0 : seg_endpoint_local (seg_translate N T z0) (fun b => cadd N b z0).
  Proof.
    intros [p|P] s' Hok H; cbn [seg_translate] in H.
    - unfold bez_translate in H. cbn [seg_start seg_end].
      now apply (bez_map_local (fun b => cadd N b z0)).
    - injection H as <-. cbn. auto.
  Qed.
  Lemma rotate_local degs cs o :
    seg_endpoint_local (seg_rotate N T degs cs (Some o)) (rotate_point N cs o).
  Proof.
    intros [p|P] s' Hok H; cbn [seg_rotate] in H.
    - unfold bez_rotate in H. cbn [seg_start seg_end].
      now apply (bez_map_local (rotate_point N cs o)).
    - injection H as <-. cbn. auto.
  Qed.
  Lemma transform_local tfx eig (M : Mat3 K) : mat_is_identity N M = false ->
    seg_endpoint_local (seg_transform N T tfx eig M) (tf_point N M).
  Proof.
    intros Hid [p|P] s' Hok H; cbn [seg_transform] in H.
    - rewrite Hid in H. cbn [seg_start seg_end].
      now apply (bez_map_local (tf_point N M)).
    - injection H as <-. unfold arc_transform_v. destruct tfx.
      + unfold arc_transform_fixed. rewrite Hid.
        destruct (_ || _); [cbn; auto|].
        destruct (eqb N _ _); cbn; auto.
      + unfold arc_transform. rewrite Hid.
        destruct (eig _) as [[ev0 ev1] [[v00 v01] [v10 v11]]].
        destruct M as [[[[m00 m01] m02] [[m10 m11] m12]] [[m20 m21] m22]].
        destruct (_ || _); cbn; auto.
  Qed.

  (* the path-level consequence: with the joints() of the code, translate / rotate
     (explicit or path-level origin) / transform keep a closed path closed, and
     every enumerated joint that coincided still coincides *)
  Section PathLevel.
    Variable closing_joint : bool.
    Variable f : Seg K -> xres (Seg K).
    Variables path res : list (Seg K).
    Hypothesis Hpath : forall j, j < length path -> okSeg (nth j path (SBez [])).
    Hypothesis Hne : path <> [].
    Hypothesis Hres : path_together N closing_joint f path = XOk res.
    Local Notation dS := (SBez (K:=K) []).
    Local Notation n := (length path).

    Lemma path_together_inv :
      exists new0, xmapM f path = XOk new0 /\ res = path_sync N closing_joint path new0 /\
                   length new0 = n /\ forall j, j < n -> f (nth j path dS) = XOk (nth j new0 dS).
    Proof.
      unfold path_together, together_x in Hres.
      destruct (xmapM f path) as [new0| |] eqn:E; try discriminate.
      cbn in Hres. injection Hres as <-. exists new0.
      destruct (xmapM_ok f path new0 E) as [HL Hn]. repeat split; auto.
    Qed.

    Theorem path_joints_synced g : seg_endpoint_local f g ->
      forall i, i < njoints closing_joint n ->
        ceqb N (seg_end N (nth i path dS)) (seg_start N (nth (S i mod n) path dS)) = true ->
        seg_end N (nth i res dS) = seg_start N (nth (S i mod n) res dS).
    Proof.
      intros Hloc i Hi Hj.
      destruct path_together_inv as (new0 & _ & -> & HL & Hn).
      apply (joints_synced (seg_start N) (seg_end N) seg_set_end (ceqb N) okSeg
                           seg_start_set_end seg_end_set_end closing_joint dS path new0 HL).
      - intros j Hjn. destruct (Hloc _ _ (Hpath j Hjn) (Hn j Hjn)) as [H _]. exact H.
      - exact Hi.
      - exact Hj.
    Qed.

    Theorem path_closed_preserved g : seg_endpoint_local f g -> closing_joint = false ->
      seg_end N (nth (n - 1) path dS) = seg_start N (nth 0 path dS) ->
      seg_end N (nth (n - 1) res dS) = seg_start N (nth 0 res dS).
    Proof.
      intros Hloc Hcj Hc.
      destruct path_together_inv as (new0 & _ & -> & HL & Hn).
      apply (closed_preserved_local (seg_start N) (seg_end N) seg_set_end (ceqb N) okSeg
                                    seg_start_set_end closing_joint dS
                                    path new0 HL Hne) with (g := g); auto.
      - intros j Hjn. destruct (Hloc _ _ (Hpath j Hjn) (Hn j Hjn)) as [H _]. exact H.
      - intros j Hjn. destruct (Hloc _ _ (Hpath j Hjn) (Hn j Hjn)) as (_ & H1 & H2). auto.
    Qed.
  End PathLevel.
End SegJ.
