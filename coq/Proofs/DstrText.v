(* Proofs/DstrText.v — the characters Path.d returns are tokenised back into
   exactly the tokens of its command list: an instance of the rendering
   theorem of C02 (Proofs/LexerRender.v, tokenize_render; separators ' ' and
   ','), for any carrier, given the contract of the formatting oracle on the
   numbers actually written:
     the text of x is a numeral of the language of FLOAT_RE, and float(text) = x. *)
From Coq Require Import Ascii String List Bool Arith Lia.
From SVP Require Import Base.Num Base.Cplx Model.Parse Model.Lexer Model.Dstr Model.DstrText
     Proofs.LexerScan Proofs.LexerRender Proofs.DstrRun.
Import ListNotations.
Local Open Scope char_scope.

Section TextProofs.
  Context {K : Type} (N : Num K).
  Variable fmt : K -> numeral.
  Variable unfmt : list ascii -> K.
  Notation pt := (Cplx K).
  Notation fmtT := (fun x => ntext (fmt x)).
  Notation part_text := (part_text fmtT).
  Notation pt_text := (pt_text fmtT).

  Hypothesis unfmt_1 : unfmt ["1"] = one N.
  Hypothesis unfmt_0 : unfmt ["0"] = zero N.

  (* the contract of the oracle on one number *)
  Definition printable (x : K) : Prop :=
    numeral_wf (fmt x) = true /\ unfmt (ntext (fmt x)) = x.
  Definition pprintable (z : pt) : Prop := printable (re z) /\ printable (im z).
  (* ... on the numbers of one command *)
  Definition cmd_printable (c : command K) : Prop :=
    match c with
    | MoveTo _ ps | LineTo _ ps | TTo _ ps => Forall pprintable ps
    | HTo _ xs | VTo _ xs => Forall printable xs
    | CurveTo _ cs => Forall (fun a => pprintable (fst (fst a)) /\ pprintable (snd (fst a)) /\ pprintable (snd a)) cs
    | SmoothTo _ cs | QuadTo _ cs => Forall (fun a => pprintable (fst a) /\ pprintable (snd a)) cs
    | ArcTo _ l => Forall (fun a => pprintable (aa_r a) /\ printable (aa_rot a) /\ pprintable (aa_end a)) l
    | Close _ => True
    end.

  Definition sp : list ascii := [" "].
  Definition cm : list ascii := [","].
  Definition nitem (s : list ascii) (x : K) : item := (s, SNum (fmt x)).
  Definition pt_items (s : list ascii) (z : pt) : list item := [nitem s (re z); nitem cm (im z)].
  Definition flag_num (b : bool) : numeral := mkNumeral None [if b then "1" else "0"] [] None.
  Definition cmd_items (s0 : list ascii) (c : command K) : list item :=
    match c with
    | MoveTo ab [p] => (s0, SCmd cM ab) :: pt_items sp p
    | LineTo ab [p] => (s0, SCmd cL ab) :: pt_items sp p
    | HTo ab [x] => [(s0, SCmd cH ab); nitem sp x]
    | VTo ab [y] => [(s0, SCmd cV ab); nitem sp y]
    | CurveTo ab [(c1, c2, e)] => (s0, SCmd cC ab) :: pt_items sp c1 ++ pt_items sp c2 ++ pt_items sp e
    | SmoothTo ab [(c2, e)] => (s0, SCmd cS ab) :: pt_items sp c2 ++ pt_items sp e
    | QuadTo ab [(c, e)] => (s0, SCmd cQ ab) :: pt_items sp c ++ pt_items sp e
    | TTo ab [e] => (s0, SCmd cT ab) :: pt_items sp e
    | ArcTo ab [a] =>
        (s0, SCmd cA ab) :: pt_items sp (aa_r a)
        ++ [nitem sp (aa_rot a); (sp, SNum (flag_num (aa_large a))); (cm, SNum (flag_num (aa_sweep a)))]
        ++ pt_items sp (aa_end a)
    | Close up => [(s0, SCmd cZ up)]
    | _ => []
    end.
  Fixpoint rest_items (prog : list (command K)) : list item :=
    match prog with [] => [] | c :: r => cmd_items sp c ++ rest_items r end.
  Definition prog_items (prog : list (command K)) : list item :=
    match prog with [] => [] | c :: r => cmd_items [] c ++ rest_items r end.

  Lemma letter_cmd_char c up : letter c up = cmd_char c up.
  Proof. destruct c, up; reflexivity. Qed.

  (* ---- the rendering is the text ---- *)
  Ltac norm_app := repeat (rewrite <- app_assoc); cbn [app]; repeat (rewrite <- app_assoc; cbn [app]).
  Lemma render_cmd_items s0 c rest :
    single c = true -> render (cmd_items s0 c ++ rest) [] = s0 ++ part_text c ++ render rest [].
  Proof.
    intros S.
    destruct c as [ab [|p [|]]|ab [|p [|]]|ab [|x [|]]|ab [|y [|]]|ab [|[[c1 c2] e] [|]]
                  |ab [|[c2 e] [|]]|ab [|[c e] [|]]|ab [|e [|]]|ab [|a [|]]|up];
      try discriminate S; clear S;
      cbn [cmd_items DstrText.part_text]; unfold pt_items, nitem; cbn [app];
      rewrite !render_cons; cbn [stext fst snd];
      unfold DstrText.pt_text, sp, cm, DstrText.flag_text;
      cbn [flag_num ntext sign_text n_sign n_int n_frac n_exp frac_text exp_text];
      norm_app; reflexivity.
  Qed.

  Lemma join_sp_cons (x : list ascii) l :
    join_sp (x :: l) = x ++ flat_map (fun y => " " :: y) l.
  Proof.
    revert x. induction l as [|y l IH]; intros x; [cbn; rewrite app_nil_r; reflexivity|].
    change (join_sp (x :: y :: l)) with (x ++ " " :: join_sp (y :: l)). rewrite IH. reflexivity.
  Qed.
  Lemma render_rest prog :
    forallb single prog = true ->
    render (rest_items prog) [] = flat_map (fun y => " " :: y) (map part_text prog).
  Proof.
    induction prog as [|c r IH]; intros S; [reflexivity|].
    cbn [forallb] in S. apply andb_true_iff in S. destruct S as [Sc Sr].
    cbn [rest_items map flat_map]. rewrite render_cmd_items by exact Sc.
    rewrite (IH Sr). unfold sp. reflexivity.
  Qed.
  Lemma render_prog prog :
    forallb single prog = true -> render (prog_items prog) [] = cmds_text fmtT prog.
  Proof.
    intros S. destruct prog as [|c r]; [reflexivity|].
    cbn [forallb] in S. apply andb_true_iff in S. destruct S as [Sc Sr].
    unfold cmds_text. cbn [prog_items map]. rewrite join_sp_cons.
    rewrite render_cmd_items by exact Sc. rewrite (render_rest r Sr). reflexivity.
  Qed.

  (* ---- the items are well separated ---- *)
  Definition item_sep_ok (it : item) : bool :=
    forallb is_sepchar (fst it) &&
    match snd it with SNum n => numeral_wf n && nonempty (fst it) | SCmd _ _ => true end.
  Lemma items_ok_sep : forall items prev, forallb item_sep_ok items = true -> items_ok prev items = true.
  Proof.
    induction items as [|[s t] more IH]; intros prev H; [reflexivity|].
    cbn [forallb] in H. apply andb_true_iff in H. destruct H as [H1 H2].
    unfold item_sep_ok in H1. cbn [fst snd] in H1. apply andb_true_iff in H1. destruct H1 as [Hs Ht].
    cbn [items_ok]. rewrite Hs, (IH _ H2). destruct t as [c up|n]; [reflexivity|].
    apply andb_true_iff in Ht. destruct Ht as [Hw Hn]. rewrite Hw.
    destruct prev; destruct s; try discriminate Hn; reflexivity.
  Qed.

  Lemma flag_num_wf b : numeral_wf (flag_num b) = true.
  Proof. destruct b; reflexivity. Qed.

  Lemma cmd_items_sep s0 c :
    forallb is_sepchar s0 = true -> single c = true -> cmd_printable c ->
    forallb item_sep_ok (cmd_items s0 c) = true.
  Proof.
    intros S0 S P.
    destruct c as [ab [|p [|]]|ab [|p [|]]|ab [|x [|]]|ab [|y [|]]|ab [|[[c1 c2] e] [|]]
                  |ab [|[c2 e] [|]]|ab [|[c e] [|]]|ab [|e [|]]|ab [|a [|]]|up];
      try discriminate S; clear S; cbn [cmd_items cmd_printable] in *;
      try (inversion P as [|? ? P1 _]; subst; clear P; cbn [fst snd] in P1);
      unfold pprintable, printable in *;
      repeat match goal with H : _ /\ _ |- _ => destruct H end;
      unfold pt_items, nitem; cbn [forallb app]; unfold item_sep_ok; cbn [fst snd];
      rewrite ?S0, ?flag_num_wf;
      repeat match goal with H : numeral_wf _ = true |- _ => rewrite H; clear H end;
      reflexivity.
  Qed.

  Lemma rest_items_sep prog :
    forallb single prog = true -> Forall cmd_printable prog ->
    forallb item_sep_ok (rest_items prog) = true.
  Proof.
    induction prog as [|c r IH]; intros S P; [reflexivity|].
    cbn [forallb] in S. apply andb_true_iff in S. destruct S as [Sc Sr].
    inversion P; subst. cbn [rest_items]. rewrite forallb_app, IH by assumption.
    rewrite cmd_items_sep; auto.
  Qed.

  (* ---- the tokens ---- *)
  Definition tokS (t : stok) : list (tok K) := tokK unfmt (ltok_of t).
  Lemma tok_num s x rest :
    printable x ->
    flat_map tokS (map snd (nitem s x :: rest)) = TNum x :: flat_map tokS (map snd rest).
  Proof.
    intros [_ H]. unfold nitem. cbn [map snd flat_map]. unfold tokS at 1.
    cbn [ltok_of tokK app]. rewrite H. reflexivity.
  Qed.
  Lemma tok_pt s z rest :
    pprintable z ->
    flat_map tokS (map snd (pt_items s z ++ rest)) = fpt z ++ flat_map tokS (map snd rest).
  Proof.
    intros [H1 H2]. unfold pt_items. cbn [app]. rewrite !tok_num by assumption. reflexivity.
  Qed.
  Lemma tok_flag s b rest :
    flat_map tokS (map snd (((s, SNum (flag_num b)) : item) :: rest)) = fflag N b :: flat_map tokS (map snd rest).
  Proof.
    cbn [map snd flat_map]. unfold tokS at 1.
    destruct b; unfold fflag; cbn; [rewrite unfmt_1|rewrite unfmt_0]; reflexivity.
  Qed.
  Lemma tok_cmd s c up rest :
    flat_map tokS (map snd (((s, SCmd c up) : item) :: rest)) = TCmd c up :: flat_map tokS (map snd rest).
  Proof.
    cbn [map snd flat_map]. unfold tokS at 1. cbn [ltok_of tokK].
    rewrite cmd_char_roundtrip. reflexivity.
  Qed.

  Lemma cmd_items_toks s0 c rest :
    single c = true -> cmd_printable c ->
    flat_map tokS (map snd (cmd_items s0 c ++ rest))
    = flatten_cmd N c ++ flat_map tokS (map snd rest).
  Proof.
    intros S P.
    destruct c as [ab [|p [|]]|ab [|p [|]]|ab [|x [|]]|ab [|y [|]]|ab [|[[c1 c2] e] [|]]
                  |ab [|[c2 e] [|]]|ab [|[c e] [|]]|ab [|e [|]]|ab [|[r rot la sw e] [|]]|up];
      try discriminate S; clear S; cbn [cmd_items cmd_printable] in *;
      try (inversion P as [|? ? P1 _]; subst; clear P;
           cbn [fst snd aa_r aa_rot aa_large aa_sweep aa_end] in P1);
      repeat match goal with H : _ /\ _ |- _ => destruct H end;
      cbn [aa_r aa_rot aa_large aa_sweep aa_end];
      norm_app;
      rewrite tok_cmd;
      repeat (first [rewrite tok_pt by assumption | rewrite tok_num by assumption | rewrite tok_flag]; cbn [app]);
      cbn [flatten_cmd flat_map]; unfold fcurve, fpair, farc, fnum;
      cbn [fst snd aa_r aa_rot aa_large aa_sweep aa_end];
      norm_app; rewrite ?app_nil_r; reflexivity.
  Qed.

  Lemma rest_items_toks prog :
    forallb single prog = true -> Forall cmd_printable prog ->
    flat_map tokS (map snd (rest_items prog)) = flatten N prog.
  Proof.
    induction prog as [|c r IH]; intros S P; [reflexivity|].
    cbn [forallb] in S. apply andb_true_iff in S. destruct S as [Sc Sr].
    inversion P; subst. cbn [rest_items]. rewrite cmd_items_toks by assumption.
    rewrite IH by assumption. reflexivity.
  Qed.

  Lemma lexK_render items :
    items_ok None items = true ->
    lexK unfmt (render items []) = flat_map tokS (map snd items).
  Proof.
    intros Ok. unfold lexK. rewrite (tokenize_render items [] Ok eq_refl).
    induction (map snd items) as [|t l IH]; [reflexivity|].
    cbn [map flat_map]. rewrite IH. reflexivity.
  Qed.

  Theorem lex_cmds_text prog :
    forallb single prog = true -> Forall cmd_printable prog ->
    lexK unfmt (cmds_text fmtT prog) = flatten N prog.
  Proof.
    intros S P. rewrite <- (render_prog prog S).
    destruct prog as [|c r]; [reflexivity|].
    cbn [forallb] in S. apply andb_true_iff in S. destruct S as [Sc Sr].
    inversion P; subst.
    rewrite lexK_render.
    - cbn [prog_items]. rewrite cmd_items_toks by assumption.
      rewrite rest_items_toks by assumption. reflexivity.
    - apply items_ok_sep. cbn [prog_items]. rewrite forallb_app.
      rewrite cmd_items_sep, rest_items_sep; auto.
  Qed.
End TextProofs.
