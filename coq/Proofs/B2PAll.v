(* Proofs/B2PAll.v — bezier2polynomial is correct in EVERY degree.

   Main result (any field of characteristic 0, axiom-free):

     b2p_eval_all : p <> [] -> cpeval N (bezier2polynomial N p) t = bern N p t

   i.e. the coefficient list returned by the model of
   svgpathtools.bezier.bezier2polynomial (explicit formulas for 1..4 control
   points, the factorial formula  fac(n)//fac(n-j) * sum_{i<=j} (-1)^(i+j) p_i/(i!(j-i)!)
   otherwise), evaluated by numpy.polyval's Horner loop, is the Bernstein curve.

   Architecture:
     1. literals: lit is multiplicative (lit_mul), lit of a positive integer is non-zero;
     2. lc f i p = sum_k f(i+k) ** p_k, the linear combinations of control points
        (bern_from is one; b2p_sum is one; they are closed under + and scaling);
     3. integer form of the coefficients (b2p_coeff_int):
          b2p_coeff n j p = sum_i (-1)^(i+j) C(n,j) C(j,i) ** p_i      (j <= n)
        (the floor division fac(n)//fac(n-j) is exact, the field division by
         i!(j-i)! cancels);  bezier2polynomial_int restates the general branch;
     4. Horner on the reversed coefficient list = sum_j t^j c_j (cpeval_rev_lc, hs_sumn);
     5. the binomial identity  sum_{j<m} t^j (-1)^(i+j) C(n,j) C(j,i) = C(n,i)(1-t)^(n-i) t^i
        for every m > n (SS_bern), by induction on n: both sides satisfy
        Pascal's recurrence  X(n+1,i+1) = t X(n,i) + (1-t) X(n,i+1). *)
From Coq Require Import ZArith List Bool Field Lia Arith.
From SVP Require Import Base.Num Base.Cplx Base.Poly Base.FieldTac Base.Agree Base.FieldTac2
  Model.Bezier Model.BezierN Proofs.Choose Proofs.DeCasteljau Proofs.BezierN.
Import ListNotations.

Section B2P.
  Context {K : Type} (N : Num K) (OK : NumFieldOK N).
  Add Field KF : (Fth OK).

  Local Notation "x + y" := (cadd N x y).
  Local Notation "r ** z" := (cscale N r z) (at level 40, left associativity).
  Local Notation om t := (sub N (one N) t).
  Local Notation C0 := (c0 N).

  Ltac cring := cunfold; apply cplx_eq; cbn [fst snd]; ring.

  (* ------------------------------------------------------------------ *)
  (* 1. literals                                                         *)
  (* ------------------------------------------------------------------ *)
  Lemma lit_nat_mul a b :
    lit N (Z.of_nat (a * b)) = mul N (lit N (Z.of_nat a)) (lit N (Z.of_nat b)).
  Proof.
    induction a as [|a IH].
    - cbn [Nat.mul Z.of_nat lit]. ring.
    - cbn [Nat.mul]. rewrite (lit_nat_add N OK), IH, (lit_nat_S N OK). ring.
  Qed.

  Lemma of_pos_mul p q : of_pos N (p * q) = mul N (of_pos N p) (of_pos N q).
  Proof.
    change (lit N (Zpos (p * q)) = mul N (lit N (Zpos p)) (lit N (Zpos q))).
    rewrite <- !positive_nat_Z, Pos2Nat.inj_mul. apply lit_nat_mul.
  Qed.

  Lemma lit_mul a b : lit N (a * b) = mul N (lit N a) (lit N b).
  Proof.
    destruct a as [|p|p], b as [|q|q]; cbn [Z.mul lit]; rewrite ?of_pos_mul; ring.
  Qed.

  Lemma lit_pos_ne z : (0 < z)%Z -> lit N z <> zero N.
  Proof.
    destruct z as [|p|p]; intros H; try lia. cbn [lit]. apply (char0 OK).
  Qed.

  Lemma lit_0 : lit N (Z.of_nat 0) = zero N.
  Proof. reflexivity. Qed.

  (* ------------------------------------------------------------------ *)
  (* 2. the integer divisions are exact                                  *)
  (* ------------------------------------------------------------------ *)
  Lemma fact_quot n j : (j <= n)%nat ->
    (fact n / fact (n - j) = Z.of_nat (binom n j) * fact j)%Z.
  Proof.
    intros H. rewrite <- (binom_fact n j H).
    apply Z.div_mul. pose proof (fact_pos (n - j)). lia.
  Qed.

  Lemma coef_int n j i : (i <= j)%nat -> (j <= n)%nat ->
    (fact n / fact (n - j) =
     Z.of_nat (binom n j) * Z.of_nat (binom j i) * (fact i * fact (j - i)))%Z.
  Proof.
    intros Hi Hj. rewrite (fact_quot n j Hj), <- (binom_fact j i Hi). ring.
  Qed.

  (* ------------------------------------------------------------------ *)
  (* 3. signs                                                            *)
  (* ------------------------------------------------------------------ *)
  Definition sg (k : nat) : K := lit N (if Nat.even k then 1 else (-1))%Z.

  Lemma sg_S k : sg (S k) = opp N (sg k).
  Proof.
    unfold sg. rewrite Nat.even_succ, <- Nat.negb_even.
    destruct (Nat.even k); cbn [negb lit of_pos]; ring.
  Qed.

  Lemma sg_0 : sg 0 = one N.
  Proof. reflexivity. Qed.

  (* ------------------------------------------------------------------ *)
  (* 4. linear combinations of the control points                        *)
  (* ------------------------------------------------------------------ *)
  Fixpoint lc (f : nat -> K) (i : nat) (p : list (Cplx K)) : Cplx K :=
    match p with
    | [] => C0
    | q :: r => f i ** q + lc f (S i) r
    end.

  Lemma lc_bern n t : forall p i,
    bern_from N n i p t = lc (fun k => bern_basis N n k t) i p.
  Proof.
    induction p as [|q r IH]; intros i; [reflexivity|].
    cbn [bern_from lc]. rewrite IH. reflexivity.
  Qed.

  Lemma lc_ext f g : (forall k, f k = g k) -> forall p i, lc f i p = lc g i p.
  Proof.
    intros E. induction p as [|q r IH]; intros i; [reflexivity|].
    cbn [lc]. rewrite IH, E. reflexivity.
  Qed.

  Lemma lc_add f g : forall p i,
    lc f i p + lc g i p = lc (fun k => add N (f k) (g k)) i p.
  Proof.
    induction p as [|q r IH]; intros i; cbn [lc]; [cring|].
    rewrite <- IH.
    generalize (lc f (S i) r) (lc g (S i) r). intros X Y. cring.
  Qed.

  Lemma lc_scale c f : forall p i,
    c ** lc f i p = lc (fun k => mul N c (f k)) i p.
  Proof.
    induction p as [|q r IH]; intros i; cbn [lc]; [cring|].
    rewrite <- IH. generalize (lc f (S i) r). intros X. cring.
  Qed.

  Lemma lc_zero_from f : forall p i,
    (forall k, (i <= k)%nat -> f k = zero N) -> lc f i p = C0.
  Proof.
    induction p as [|q r IH]; intros i H; [reflexivity|].
    cbn [lc]. rewrite IH by (intros k Hk; apply H; lia).
    rewrite H by lia. cring.
  Qed.

  (* ------------------------------------------------------------------ *)
  (* 5. b2p_sum / b2p_coeff as linear combinations; integer form         *)
  (* ------------------------------------------------------------------ *)
  Definition wt (j k : nat) : K :=
    if Nat.leb k j then div N (sg (k + j)) (lit N (fact k * fact (j - k))) else zero N.

  Lemma factprod_nz a b : lit N (fact a * fact b) <> zero N.
  Proof.
    apply lit_pos_ne. pose proof (fact_pos a). pose proof (fact_pos b). nia.
  Qed.

  Lemma b2p_sum_lc j : forall p i acc,
    b2p_sum N i j p acc = acc + lc (wt j) i p.
  Proof.
    induction p as [|q r IH]; intros i acc.
    - cbn [b2p_sum lc]. cring.
    - cbn [b2p_sum]. destruct (Nat.leb i j) eqn:E.
      + rewrite IH. cbn [lc].
        assert (H : wt j i = div N (sg (i + j)) (lit N (fact i * fact (j - i))))
          by (unfold wt; rewrite E; reflexivity).
        rewrite H. unfold b2p_term. fold (sg (i + j)).
        pose proof (factprod_nz i (j - i)) as HD.
        revert HD. generalize (lit N (fact i * fact (j - i))). intros D HD.
        generalize (sg (i + j)). intros s.
        generalize (lc (wt j) (S i) r). intros X.
        cunfold. apply cplx_eq; cbn [fst snd]; field; exact HD.
      + rewrite (lc_zero_from (wt j) (q :: r) i).
        * cring.
        * intros k Hk. unfold wt.
          apply Nat.leb_gt in E.
          assert (E' : Nat.leb k j = false) by (apply Nat.leb_gt; lia).
          rewrite E'. reflexivity.
  Qed.

  (* (-1)^(i+j) C(n,j) C(j,i) *)
  Definition acoef (n j i : nat) : K :=
    mul N (mul N (sg (i + j)) (lit N (Z.of_nat (binom n j)))) (lit N (Z.of_nat (binom j i))).

  Lemma wt_acoef n j k : (j <= n)%nat ->
    mul N (lit N (fact n / fact (n - j))) (wt j k) = acoef n j k.
  Proof.
    intros Hj. unfold wt, acoef. destruct (Nat.leb k j) eqn:E.
    - apply Nat.leb_le in E.
      rewrite (coef_int n j k E Hj).
      rewrite (lit_mul (_ * _) (fact k * fact (j - k))).
      rewrite (lit_mul (Z.of_nat _) (Z.of_nat _)).
      pose proof (factprod_nz k (j - k)) as HD.
      revert HD. generalize (lit N (fact k * fact (j - k))). intros D HD.
      field. exact HD.
    - apply Nat.leb_gt in E. rewrite (binom_gt j k E), lit_0. ring.
  Qed.

  Theorem b2p_coeff_int n j p : (j <= n)%nat ->
    b2p_coeff N n j p = lc (acoef n j) 0 p.
  Proof.
    intros Hj. unfold b2p_coeff. rewrite b2p_sum_lc.
    assert (E : C0 + lc (wt j) 0 p = lc (wt j) 0 p)
      by (generalize (lc (wt j) 0 p); intros X; cring).
    rewrite E, lc_scale. apply lc_ext. intros k. apply wt_acoef. exact Hj.
  Qed.

  (* the integer-coefficient form of the general branch *)
  Definition b2p_int (p : list (Cplx K)) : list (Cplx K) :=
    let n := (length p - 1)%nat in
    rev (map (fun j => lc (acoef n j) 0 p) (seq 0 (S n))).

  Lemma b2p_general_int p :
    rev (map (fun j => b2p_coeff N (length p - 1) j p) (seq 0 (S (length p - 1))))
    = b2p_int p.
  Proof.
    unfold b2p_int. cbv zeta. f_equal. apply map_ext_in.
    intros j Hj. apply in_seq in Hj. apply b2p_coeff_int. lia.
  Qed.

  Theorem bezier2polynomial_int p : (5 <= length p)%nat ->
    bezier2polynomial N p = b2p_int p.
  Proof.
    destruct p as [|p0 [|p1 [|p2 [|p3 [|p4 r]]]]]; cbn [length]; try lia.
    intros _. apply b2p_general_int.
  Qed.

  (* ------------------------------------------------------------------ *)
  (* 6. Horner on a reversed (lowest-first) list of linear combinations  *)
  (* ------------------------------------------------------------------ *)
  Lemma cpeval_snoc l c t : cpeval N (l ++ [c]) t = t ** cpeval N l t + c.
  Proof. unfold cpeval. rewrite fold_left_app. reflexivity. Qed.

  Fixpoint hs (f : nat -> nat -> K) (t : K) (s m : nat) (i : nat) : K :=
    match m with
    | O => zero N
    | S m' => add N (mul N t (hs f t (S s) m' i)) (f s i)
    end.

  Lemma cpeval_rev_lc f t p : forall m s,
    cpeval N (rev (map (fun j => lc (f j) 0 p) (seq s m))) t = lc (hs f t s m) 0 p.
  Proof.
    induction m as [|m IH]; intros s.
    - cbn [seq map rev]. unfold cpeval. cbn [fold_left].
      symmetry. apply lc_zero_from. intros; reflexivity.
    - cbn [seq map rev]. rewrite cpeval_snoc, IH, lc_scale, lc_add.
      apply lc_ext. intros k. reflexivity.
  Qed.

  (* ------------------------------------------------------------------ *)
  (* 7. finite sums over K                                               *)
  (* ------------------------------------------------------------------ *)
  Fixpoint sumn (f : nat -> K) (m : nat) : K :=
    match m with
    | O => zero N
    | S m' => add N (sumn f m') (f m')
    end.

  Lemma sumn_shift f m : sumn f (S m) = add N (f 0%nat) (sumn (fun j => f (S j)) m).
  Proof.
    induction m as [|m IH].
    - cbn [sumn]. ring.
    - change (sumn f (S (S m))) with (add N (sumn f (S m)) (f (S m))).
      rewrite IH. cbn [sumn]. ring.
  Qed.

  Lemma sumn_ext f g m : (forall j, f j = g j) -> sumn f m = sumn g m.
  Proof.
    intros E. induction m as [|m IH]; [reflexivity|].
    cbn [sumn]. rewrite IH, E. reflexivity.
  Qed.

  Lemma sumn_zero m : sumn (fun _ => zero N) m = zero N.
  Proof. induction m as [|m IH]; cbn [sumn]; [reflexivity|]. rewrite IH. ring. Qed.

  Lemma sumn_scale c f m : mul N c (sumn f m) = sumn (fun j => mul N c (f j)) m.
  Proof. induction m as [|m IH]; cbn [sumn]; [ring|]. rewrite <- IH. ring. Qed.

  Lemma sumn_lin3 f g h c m :
    sumn (fun j => add N (f j) (mul N c (sub N (g j) (h j)))) m =
    add N (sumn f m) (mul N c (sub N (sumn g m) (sumn h m))).
  Proof. induction m as [|m IH]; cbn [sumn]; [ring|]. rewrite IH. ring. Qed.

  Lemma sumn_lin2 f g c m :
    sumn (fun j => add N (f j) (mul N c (opp N (g j)))) m =
    add N (sumn f m) (mul N c (opp N (sumn g m))).
  Proof. induction m as [|m IH]; cbn [sumn]; [ring|]. rewrite IH. ring. Qed.

  Lemma hs_sumn f t i : forall m s,
    hs f t s m i = sumn (fun j => mul N (npow N t j) (f (s + j)%nat i)) m.
  Proof.
    induction m as [|m IH]; intros s; [reflexivity|].
    cbn [hs]. rewrite IH, sumn_shift, sumn_scale.
    rewrite Nat.add_0_r. cbn [npow].
    rewrite (sumn_ext (fun j => mul N t (mul N (npow N t j) (f (S s + j)%nat i)))
                      (fun j => mul N (npow N t (S j)) (f (s + S j)%nat i)) m).
    - cbn [npow]. ring.
    - intros j. rewrite <- plus_n_Sm. cbn [npow Nat.add]. ring.
  Qed.

  (* ------------------------------------------------------------------ *)
  (* 8. the binomial identity                                            *)
  (* ------------------------------------------------------------------ *)
  Definition term (t : K) (n i j : nat) : K := mul N (npow N t j) (acoef n j i).
  Definition SS (t : K) (m n i : nat) : K := sumn (term t n i) m.

  Lemma term_rec t n i j :
    term t (S n) (S i) (S j) =
    add N (term t n (S i) (S j)) (mul N t (sub N (term t n i j) (term t n (S i) j))).
  Proof.
    unfold term, acoef.
    replace (S i + S j)%nat with (S (S (i + j))) by lia.
    replace (S i + j)%nat with (S (i + j)) by lia.
    rewrite !sg_S. cbn [binom npow]. rewrite !(lit_nat_add N OK). ring.
  Qed.

  Lemma term_rec0 t n j :
    term t (S n) 0 (S j) =
    add N (term t n 0 (S j)) (mul N t (opp N (term t n 0 j))).
  Proof.
    unfold term, acoef. cbn [Nat.add]. rewrite !sg_S.
    rewrite !binom_n_0. cbn [binom npow]. rewrite !(lit_nat_add N OK). ring.
  Qed.

  Lemma term_S_0 t n i : term t n (S i) 0 = zero N.
  Proof. unfold term, acoef. cbn [binom]. rewrite lit_0. ring. Qed.

  Lemma term_0_0 t n : term t n 0 0 = one N.
  Proof.
    unfold term, acoef. rewrite binom_n_0. cbn [binom Nat.add npow].
    rewrite sg_0. cbn [Z.of_nat Pos.of_succ_nat lit of_pos]. ring.
  Qed.

  Lemma term_gt t n i m : (n < m)%nat -> term t n i m = zero N.
  Proof. intros H. unfold term, acoef. rewrite (binom_gt n m H), lit_0. ring. Qed.

  Lemma SS_rec t m n i :
    SS t (S m) (S n) (S i) =
    add N (SS t (S m) n (S i)) (mul N t (sub N (SS t m n i) (SS t m n (S i)))).
  Proof.
    unfold SS.
    rewrite (sumn_shift (term t (S n) (S i)) m), (sumn_shift (term t n (S i)) m).
    rewrite !term_S_0.
    rewrite (sumn_ext _ _ m (fun j => term_rec t n i j)).
    rewrite sumn_lin3. ring.
  Qed.

  Lemma SS_rec0 t m n :
    SS t (S m) (S n) 0 =
    add N (SS t (S m) n 0) (mul N t (opp N (SS t m n 0))).
  Proof.
    unfold SS.
    rewrite (sumn_shift (term t (S n) 0) m), (sumn_shift (term t n 0) m).
    rewrite !term_0_0.
    rewrite (sumn_ext _ _ m (fun j => term_rec0 t n j)).
    rewrite sumn_lin2. ring.
  Qed.

  Lemma SS_trunc t m n i : (n < m)%nat -> SS t (S m) n i = SS t m n i.
  Proof. intros H. unfold SS. cbn [sumn]. rewrite term_gt by exact H. ring. Qed.

  (* Pascal's rule for the Bernstein basis without range restriction *)
  Lemma basis_pascal_all n i t :
    bern_basis N (S n) (S i) t =
    add N (mul N t (bern_basis N n i t)) (mul N (om t) (bern_basis N n (S i) t)).
  Proof.
    destruct (le_lt_dec (S i) n) as [H|H].
    - apply (basis_pascal N OK). exact H.
    - unfold bern_basis. cbn [binom]. rewrite (lit_nat_add N OK).
      rewrite (binom_gt n (S i)) by lia. rewrite lit_0.
      change (S n - S i)%nat with (n - i)%nat. cbn [npow]. ring.
  Qed.

  Theorem SS_bern t : forall n m i, (n < m)%nat -> SS t m n i = bern_basis N n i t.
  Proof.
    induction n as [|n IH]; intros m i H.
    - destruct m as [|m]; [lia|]. unfold SS. rewrite sumn_shift.
      rewrite (sumn_ext (fun j => term t 0 i (S j)) (fun _ => zero N))
        by (intros j; apply term_gt; lia).
      rewrite sumn_zero. destruct i as [|i].
      + rewrite term_0_0, (basis_00 N OK). ring.
      + rewrite term_S_0. unfold bern_basis. cbn [binom]. rewrite lit_0. ring.
    - destruct m as [|m]; [lia|]. destruct i as [|i].
      + rewrite SS_rec0, SS_trunc by lia. rewrite !IH by lia.
        rewrite (basis_zero N OK). ring.
      + rewrite SS_rec, SS_trunc by lia. rewrite !IH by lia.
        rewrite basis_pascal_all. ring.
  Qed.

  (* ------------------------------------------------------------------ *)
  (* 9. the theorems                                                     *)
  (* ------------------------------------------------------------------ *)
  (* Horner evaluation of the integer form is the Bernstein curve, for every
     list of control points *)
  Theorem b2p_int_eval p t : cpeval N (b2p_int p) t = bern N p t.
  Proof.
    unfold b2p_int, bern. cbv zeta.
    set (n := (length p - 1)%nat).
    rewrite (cpeval_rev_lc (acoef n) t p (S n) 0).
    rewrite lc_bern. apply lc_ext. intros k.
    rewrite hs_sumn. cbn [Nat.add].
    change (SS t (S n) n k = bern_basis N n k t).
    apply SS_bern. lia.
  Qed.

  (* the general (factorial-formula) branch, for every list of control points *)
  Theorem b2p_general_eval p t :
    cpeval N (rev (map (fun j => b2p_coeff N (length p - 1) j p)
                       (seq 0 (S (length p - 1))))) t = bern N p t.
  Proof. rewrite b2p_general_int. apply b2p_int_eval. Qed.

  Theorem b2p_eval_all : forall (p : list (Cplx K)) (t : K), p <> [] ->
    cpeval N (bezier2polynomial N p) t = bern N p t.
  Proof.
    intros p t Hp.
    destruct p as [|p0 [|p1 [|p2 [|p3 [|p4 r]]]]].
    - congruence.
    - apply (b2p_eval_1 N OK).
    - apply (b2p_eval_2 N OK).
    - apply (b2p_eval_3 N OK).
    - apply (b2p_eval_4 N OK).
    - apply (b2p_general_eval (p0 :: p1 :: p2 :: p3 :: p4 :: r) t).
  Qed.

End B2P.

Print Assumptions b2p_eval_all.
