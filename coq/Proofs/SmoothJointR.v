(* Proofs/SmoothJointR.v — over R: the concrete smoothed_joint of
   Model/Smooth.v meets the joint contract JointOK of Proofs/SmoothLoop.v
   (line-line, line-curve, curve-line unconditionally for regular segments;
   curve-curve under the stated contracts of the ilength / cropped / length
   oracles), and the instantiation of the loop theorem at the concrete
   smoothed_path. *)
From Coq Require Import ZArith List Bool Reals Lra Lia Psatz Field.
From SVP Require Import Base.Num Base.Cplx Base.FieldTac Model.Bezier Model.Smooth
     Proofs.BezierAlg Proofs.SmoothLoop Proofs.SmoothElbow.
Import ListNotations.
Set Implicit Arguments.
Unset Strict Implicit.
Open Scope R_scope.

Notation CR := (Cplx R).
Notation segR := (seg R).

Lemma Req_b_refl x : Req_b x x = true.
Proof. apply Req_b_true. reflexivity. Qed.
Lemma ceqb_R_true (a b : CR) : ceqb NumR a b = true <-> a = b.
Proof.
  destruct a as [x y], b as [x' y']. unfold ceqb; simpl. rewrite andb_true_iff, !Req_b_true.
  split; [intros [-> ->]; reflexivity|intros E; injection E; auto].
Qed.
Lemma ceqb_R_false (a b : CR) : a <> b -> ceqb NumR a b = false.
Proof.
  intros H. destruct (ceqb NumR a b) eqn:E; auto. apply ceqb_R_true in E. contradiction.
Qed.

Lemma copp_nz (z : CR) : z <> (0, 0) -> copp NumR z <> (0, 0).
Proof.
  intros H E. apply H. destruct z as [x y]. unfold copp in E; simpl in E. injection E as E1 E2.
  f_equal; lra.
Qed.
Lemma cabsR_opp (z : CR) : cabsR (copp NumR z) = cabsR z.
Proof. destruct z as [x y]. rewrite !cabsR_eq. unfold copp; simpl. f_equal. ring. Qed.
Lemma cunitR_opp (z : CR) : z <> (0, 0) -> cunitR (copp NumR z) = copp NumR (cunitR z).
Proof.
  intros H. pose proof (cabsR_pos H). rewrite !cunitR_eq, cabsR_opp. destruct z as [x y].
  unfold copp; simpl. f_equal; field; lra.
Qed.
Lemma copp_invol (z : CR) : copp NumR (copp NumR z) = z.
Proof. destruct z. unfold copp; simpl. f_equal; ring. Qed.
Lemma cscale_opp k (z : CR) : copp NumR (cscale NumR k z) = cscale NumR k (copp NumR z).
Proof. destruct z. cunfold. simpl. f_equal; ring. Qed.
Lemma csub_opp (a b : CR) : copp NumR (csub NumR a b) = csub NumR b a.
Proof. destruct a, b. cunfold. simpl. f_equal; ring. Qed.

Lemma sreversed_invol (g : segR) : sreversed (sreversed g) = g.
Proof. destruct g; reflexivity. Qed.

(* x is a sub-piece of a: every point of x is a point of a *)
Definition SubR (x a : segR) : Prop :=
  forall t, 0 <= t <= 1 -> exists t', 0 <= t' <= 1 /\ spoint NumR x t = spoint NumR a t'.
(* every point of x is within r of p *)
Definition NearR (r : R) (p : CR) (x : segR) : Prop :=
  forall t, 0 <= t <= 1 -> cabsR (csub NumR (spoint NumR x t) p) <= r.

Lemma SubR_refl x : SubR x x.
Proof. intros t Ht. exists t. auto. Qed.
Lemma SubR_trans x y z : SubR x y -> SubR y z -> SubR x z.
Proof.
  intros H1 H2 t Ht. destruct (H1 t Ht) as (t' & Ht' & E1). destruct (H2 t' Ht') as (t'' & Ht'' & E2).
  exists t''. split; auto. congruence.
Qed.
Lemma spoint_rev (g : segR) t : spoint NumR (sreversed g) t = spoint NumR g (1 - t).
Proof. apply (sreversed_point NumR_ok). Qed.
Lemma SubR_rev x a : SubR x a -> SubR (sreversed x) (sreversed a).
Proof.
  intros H t Ht. destruct (H (1 - t)) as (t' & Ht' & E); [lra|].
  exists (1 - t'). split; [lra|]. rewrite !spoint_rev. replace (1 - (1 - t')) with t' by ring. exact E.
Qed.
Lemma NearR_rev r p x : NearR r p x -> NearR r p (sreversed x).
Proof. intros H t Ht. rewrite spoint_rev. apply H. lra. Qed.
Lemma NearR_mono r r' p x : r <= r' -> NearR r p x -> NearR r' p x.
Proof. intros Hr H t Ht. eapply Rle_trans; [apply H; assumption|assumption]. Qed.
Lemma NearR_sub r p x a : SubR x a -> NearR r p a -> NearR r p x.
Proof. intros Hs Hn t Ht. destruct (Hs t Ht) as (t' & Ht' & E). rewrite E. apply Hn. assumption. Qed.

(* triangle inequality *)
Lemma cabsR_triangle (z1 z2 : CR) : cabsR (cadd NumR z1 z2) <= cabsR z1 + cabsR z2.
Proof.
  destruct z1 as [x1 y1], z2 as [x2 y2].
  pose proof (cabsR_nonneg (x1, y1)) as N1. pose proof (cabsR_nonneg (x2, y2)) as N2.
  pose proof (cabsR_sq (x1, y1)) as S1. pose proof (cabsR_sq (x2, y2)) as S2. simpl in S1, S2.
  set (A := cabsR (x1, y1)) in *. set (B := cabsR (x2, y2)) in *.
  rewrite cabsR_eq. unfold cadd. simpl.
  rewrite <- (sqrt_square (A + B)) by lra. apply sqrt_le_1_alt.
  assert (Hc : 0 <= (x1 * y2 - y1 * x2) * (x1 * y2 - y1 * x2)) by apply Rle_0_sqr.
  assert (Hd : (x1 * x2 + y1 * y2) * (x1 * x2 + y1 * y2) <= (A * B) * (A * B)).
  { replace (A * B * (A * B)) with ((A * A) * (B * B)) by ring. rewrite S1, S2. nra. }
  assert (He : x1 * x2 + y1 * y2 <= A * B).
  { assert (0 <= A * B) by nra. nra. }
  nra.
Qed.
Lemma NearR_shift r d p p' x :
  NearR r p x -> cabsR (csub NumR p p') <= d -> NearR (r + d) p' x.
Proof.
  intros H Hd t Ht. specialize (H t Ht).
  replace (csub NumR (spoint NumR x t) p') with
    (cadd NumR (csub NumR (spoint NumR x t) p) (csub NumR p p')).
  - eapply Rle_trans; [apply cabsR_triangle|]. lra.
  - destruct (spoint NumR x t), p, p'. cunfold. simpl. f_equal; ring.
Qed.
(* the chord from p to q stays within |p - q| of q (and of p) *)
Lemma line_near_end (p q : CR) : NearR (cabsR (csub NumR p q)) q (SLine p q).
Proof.
  intros t Ht. simpl spoint. unfold line_point.
  replace (csub NumR (cadd NumR p (cscale NumR t (csub NumR q p))) q)
    with (cscale NumR (1 - t) (csub NumR p q))
    by (destruct p, q; cunfold; simpl; f_equal; ring).
  rewrite cabsR_scale by lra. pose proof (cabsR_nonneg (csub NumR p q)). nra.
Qed.
Lemma line_near_start (p q : CR) : NearR (cabsR (csub NumR q p)) p (SLine p q).
Proof.
  intros t Ht. simpl spoint. unfold line_point.
  replace (csub NumR (cadd NumR p (cscale NumR t (csub NumR q p))) p)
    with (cscale NumR t (csub NumR q p))
    by (destruct p, q; cunfold; simpl; f_equal; ring).
  rewrite cabsR_scale by lra. pose proof (cabsR_nonneg (csub NumR q p)). nra.
Qed.

Section Joint.
  (* the oracles of the model, arbitrary *)
  Variable sing_ut : segR -> R -> utres R.
  Variable curve_length : segR -> R.
  Variable ilength : segR -> R -> option R.
  Variable cropped : segR -> R -> R -> segR.
  Variables mj tight : R.
  Hypothesis Hmj : 0 < mj.
  Hypothesis Htight : 0 < tight < 2.

  Let T0 := tan0 NumR NumTR sing_ut.
  Let T1 := tan1 NumR NumTR sing_ut.
  Let SLEN := seg_length NumR NumTR curve_length.
  Let SIMPLE := sj_simple NumR NumTR sing_ut curve_length.

  (* derivative at the two ends; a segment is regular when both are non-zero
     (a Line: start <> end) *)
  Definition d0 (g : segR) : CR := sderiv1 NumR g 0.
  Definition d1 (g : segR) : CR := sderiv1 NumR g 1.
  Definition Regular (g : segR) : Prop := d0 g <> (0, 0) /\ d1 g <> (0, 0).
  Definition u0 (g : segR) : CR := cunitR (d0 g).
  Definition u1 (g : segR) : CR := cunitR (d1 g).

  Lemma line_d (s e : CR) : d0 (SLine s e) = csub NumR e s /\ d1 (SLine s e) = csub NumR e s.
  Proof. split; reflexivity. Qed.

  (* for regular segments unit_tangent takes the regular branch *)
  Lemma T0_regular g : d0 g <> (0, 0) -> T0 g = UTok (u0 g).
  Proof.
    intros H. unfold T0, tan0, seg_ut. destruct g as [s e|s c1 c2 e].
    - assert (Hne : e <> s).
      { intros ->. apply H. unfold d0. simpl. destruct s. cunfold. simpl. f_equal; ring. }
      rewrite (ceqb_R_false Hne). reflexivity.
    - change (cubic_d1 NumR s c1 c2 e (zero NumR)) with (d0 (SCubic s c1 c2 e)).
      assert (Hc : eqb NumR (cabs NumTR (d0 (SCubic s c1 c2 e))) (zero NumR) = false).
      { match goal with |- eqb NumR (cabs NumTR ?z) _ = false =>
          change (Req_b (cabsR z) 0 = false) end.
        destruct (Req_b _ _) eqn:E; auto. apply Req_b_true in E.
        apply cabsR_zero in E. contradiction. }
      rewrite Hc. reflexivity.
  Qed.
  Lemma T1_regular g : d1 g <> (0, 0) -> T1 g = UTok (u1 g).
  Proof.
    intros H. unfold T1, tan1, seg_ut. destruct g as [s e|s c1 c2 e].
    - assert (Hne : e <> s).
      { intros ->. apply H. unfold d1. simpl. destruct s. cunfold. simpl. f_equal; ring. }
      rewrite (ceqb_R_false Hne). reflexivity.
    - change (cubic_d1 NumR s c1 c2 e (one NumR)) with (d1 (SCubic s c1 c2 e)).
      assert (Hc : eqb NumR (cabs NumTR (d1 (SCubic s c1 c2 e))) (zero NumR) = false).
      { match goal with |- eqb NumR (cabs NumTR ?z) _ = false =>
          change (Req_b (cabsR z) 0 = false) end.
        destruct (Req_b _ _) eqn:E; auto. apply Req_b_true in E.
        apply cabsR_zero in E. contradiction. }
      rewrite Hc. reflexivity.
  Qed.

  Lemma ut_try1_regular g fb : d1 g <> (0, 0) ->
    ut_try NumR NumTR sing_ut g (one NumR) fb = Some (u1 g).
  Proof.
    intros H. unfold ut_try. change (seg_ut NumR NumTR sing_ut g (one NumR)) with (T1 g).
    rewrite (T1_regular H). reflexivity.
  Qed.
  Lemma ut_try0_regular g fb : d0 g <> (0, 0) ->
    ut_try NumR NumTR sing_ut g (zero NumR) fb = Some (u0 g).
  Proof.
    intros H. unfold ut_try. change (seg_ut NumR NumTR sing_ut g (zero NumR)) with (T0 g).
    rewrite (T0_regular H). reflexivity.
  Qed.

  Lemma sj_pre_true seg0 seg1 : send seg0 = sstart seg1 -> sj_pre NumR seg0 seg1 mj tight = true.
  Proof.
    intros E. unfold sj_pre. rewrite E.
    assert (E1 : ceqb NumR (sstart seg1) (sstart seg1) = true) by (apply ceqb_R_true; reflexivity).
    rewrite E1. simpl.
    assert (E2 : Rlt_b 0 mj = true) by (apply Rlt_b_true; lra).
    assert (E3 : Rlt_b 0 tight = true) by (apply Rlt_b_true; lra).
    assert (E4 : Rlt_b tight (1 + 1) = true) by (apply Rlt_b_true; lra).
    rewrite E2, E3, E4. reflexivity.
  Qed.
  Lemma sj_vw_regular seg0 seg1 : Regular seg0 -> Regular seg1 ->
    sj_vw NumR NumTR sing_ut seg0 seg1 = Some (u1 seg0, u0 seg1).
  Proof.
    intros [_ H0] [H1 _]. unfold sj_vw. rewrite (ut_try1_regular _ H0), (ut_try0_regular _ H1).
    reflexivity.
  Qed.

  (* reversal *)
  Lemma d0_rev g : d0 (sreversed g) = copp NumR (d1 g).
  Proof. unfold d0, d1. apply (sreversed_d0 NumR_ok). Qed.
  Lemma d1_rev g : d1 (sreversed g) = copp NumR (d0 g).
  Proof. unfold d0, d1. apply (sreversed_d1 NumR_ok). Qed.
  Lemma Regular_rev g : Regular g -> Regular (sreversed g).
  Proof. intros [H0 H1]. split; [rewrite d0_rev|rewrite d1_rev]; apply copp_nz; assumption. Qed.
  Lemma u0_rev g : Regular g -> u0 (sreversed g) = copp NumR (u1 g).
  Proof. intros [H0 H1]. unfold u0, u1. rewrite d0_rev. apply cunitR_opp. assumption. Qed.
  Lemma u1_rev g : Regular g -> u1 (sreversed g) = copp NumR (u0 g).
  Proof. intros [H0 H1]. unfold u0, u1. rewrite d1_rev. apply cunitR_opp. assumption. Qed.
  Lemma sstart_rev (g : segR) : sstart (sreversed g) = send g.
  Proof. destruct g; reflexivity. Qed.
  Lemma send_rev (g : segR) : send (sreversed g) = sstart g.
  Proof. destruct g; reflexivity. Qed.
  Lemma is_line_rev (g : segR) : is_line (sreversed g) = is_line g.
  Proof. destruct g; reflexivity. Qed.

  (* what a simple joint delivers: (s0', [e], s1') *)
  Record SJspec (seg0 seg1 s0' e s1' : segR) : Prop := {
    sj_start : sstart s0' = sstart seg0;
    sj_u0 : u0 s0' = u0 seg0;
    sj_c1 : send s0' = sstart e;
    sj_t1 : u1 s0' = u0 e;
    sj_c2 : send e = sstart s1';
    sj_t2 : u1 e = u0 s1';
    sj_end : send s1' = send seg1;
    sj_u1 : u1 s1' = u1 seg1;
    sj_v0 : Regular s0'; sj_ve : Regular e; sj_v1 : Regular s1';
    sj_k0 : is_line s0' = is_line seg0; sj_k1 : is_line s1' = is_line seg1;
    sj_ke : is_line e = false;
    sj_sub0 : SubR s0' seg0; sj_sub1 : SubR s1' seg1;
    sj_near : NearR (2 / 3 * mj) (send seg0) e
  }.

  Lemma SJspec_rev seg0 seg1 r1t relbow r0 :
    Regular seg0 -> Regular seg1 -> send seg0 = sstart seg1 ->
    SJspec (sreversed seg1) (sreversed seg0) r1t relbow r0 ->
    SJspec seg0 seg1 (sreversed r0) (sreversed relbow) (sreversed r1t).
  Proof.
    intros V0 V1 Ec [A1 A2 A3 A4 A5 A6 A7 A8 A9 A10 A11 A12 A13 A14 A15 A16 A17].
    constructor; rewrite ?sstart_rev, ?send_rev, ?is_line_rev in *;
      try (apply Regular_rev; assumption); try congruence.
    - rewrite (u0_rev A11). rewrite A8. rewrite (u1_rev V0), copp_invol. reflexivity.
    - rewrite (u1_rev A11), (u0_rev A10). congruence.
    - rewrite (u1_rev A10), (u0_rev A9). congruence.
    - rewrite (u1_rev A9). rewrite A2. rewrite (u0_rev V1), copp_invol. reflexivity.
    - rewrite <- (sreversed_invol seg0) at 1. apply SubR_rev. assumption.
    - rewrite <- (sreversed_invol seg1) at 1. apply SubR_rev. assumption.
    - apply NearR_rev. rewrite Ec. exact A17.
  Qed.

  Lemma regular_unit0 g : Regular g -> cabsR (u0 g) = 1.
  Proof. intros [H _]. apply cunitR_norm. assumption. Qed.
  Lemma regular_unit1 g : Regular g -> cabsR (u1 g) = 1.
  Proof. intros [_ H]. apply cunitR_norm. assumption. Qed.

  Lemma unit_nz (v : CR) : cabsR v = 1 -> v <> (0, 0).
  Proof. intros H E. rewrite E in H. rewrite cabsR_eq in H. simpl in H.
    replace (0 * 0 + 0 * 0) with 0 in H by ring. rewrite sqrt_0 in H. lra. Qed.

  Lemma cunitR_pos_scale_unit b (v : CR) : 0 < b -> cabsR v = 1 -> cunitR (cscale NumR b v) = v.
  Proof.
    intros Hb Hv. rewrite cunitR_scale; auto using unit_nz. apply cunitR_unit. assumption.
  Qed.

  (* ---------------- seg0 a Line: the two coded branches ---------------- *)
  Lemma sj_from_line_spec seg0 seg1 l0 l1 :
    is_line seg0 = true -> Regular seg0 -> Regular seg1 -> send seg0 = sstart seg1 ->
    l0 = cabsR (d0 seg0) -> 0 < l1 -> (is_line seg1 = true -> l1 = cabsR (d0 seg1)) ->
    exists s0' e s1',
      sj_from_line NumR NumTR sing_ut seg0 seg1 l0 l1 mj tight = Some (s0', [e], s1') /\
      SJspec seg0 seg1 s0' e s1'.
  Proof.
    intros K0 V0 V1 Ec El0 Hl1 El1.
    destruct seg0 as [s0 q|]; [|discriminate]. clear K0.
    assert (Hsq : s0 <> q).
    { destruct V0 as [H _]. intros ->. apply H. unfold d0; simpl. destruct q; cunfold; simpl.
      f_equal; ring. }
    assert (Hl0 : 0 < l0).
    { rewrite El0. apply cabsR_pos. apply V0. }
    pose proof (joint_a_props Hmj Hl0 Hl1) as Ha. cbv zeta in Ha.
    set (a := joint_a NumR mj l0 l1) in *. destruct Ha as (Ha0 & Ha1 & Ha2 & Ha3).
    set (v := u1 (SLine s0 q)). set (w := u0 seg1).
    assert (Hv : cabsR v = 1) by (apply regular_unit1; assumption).
    assert (Hw : cabsR w = 1) by (apply regular_unit0; assumption).
    assert (Ev : v = cunitR (csub NumR q s0)) by reflexivity.
    assert (EL : l0 = cabsR (csub NumR q s0)) by (rewrite El0; reflexivity).
    pose proof (@trim0_ok s0 q a Hsq) as T. cbv zeta in T. rewrite <- Ev, <- EL in T.
    destruct T as (T1' & T2 & T3 & T4); [lra|].
    unfold sj_from_line. rewrite (sj_pre_true Ec). cbn [negb].
    rewrite (sj_vw_regular V0 V1). fold v w. fold a. simpl send.
    destruct (is_line seg1) eqn:K1.
    - (* line-line *)
      destruct seg1 as [q' e1|]; [|discriminate]. simpl in Ec. subst q'.
      specialize (El1 eq_refl).
      assert (Hqe : q <> e1).
      { destruct V1 as [H _]. intros ->. apply H. unfold d0; simpl. destruct e1; cunfold; simpl.
        f_equal; ring. }
      assert (Ew : w = cunitR (csub NumR e1 q)) by reflexivity.
      assert (EL1 : l1 = cabsR (csub NumR e1 q)) by (rewrite El1; reflexivity).
      pose proof (@trim1_ok q e1 a Hqe) as T'. cbv zeta in T'. rewrite <- Ew, <- EL1 in T'.
      destruct T' as (S1 & S2 & S3 & S4); [lra|].
      set (b := b_ll NumR tight a). assert (Hb : 0 < b) by (unfold b; rewrite b_ll_R; nra).
      set (el := elbow_ll NumR q v w a b).
      eexists _, _, _. split; [reflexivity|].
      assert (D0 : d0 el = cscale NumR b v) by apply (elbow_ll_d0 NumR_ok).
      assert (D1 : d1 el = cscale NumR b w) by apply (elbow_ll_d1 NumR_ok).
      assert (Rel : Regular el).
      { split; [rewrite D0|rewrite D1]; apply cscale_nz; auto using unit_nz; lra. }
      constructor.
      + reflexivity.
      + exact T2.
      + reflexivity.
      + unfold u1, u0. rewrite D0, cunitR_pos_scale_unit by assumption. exact T2.
      + reflexivity.
      + unfold u1, u0. rewrite D1, cunitR_pos_scale_unit by assumption. symmetry. exact S2.
      + reflexivity.
      + exact S2.
      + split; unfold d0, d1; cbn [sderiv1]; apply csub_nz; intros E; apply T1'; symmetry; exact E.
      + exact Rel.
      + split; unfold d0, d1; cbn [sderiv1]; apply csub_nz; exact S1.
      + reflexivity.
      + reflexivity.
      + reflexivity.
      + intros t Ht. destruct (T4 t Ht) as [H1 H2]. eexists. split; [exact H1|exact H2].
      + intros t Ht. destruct (S4 t Ht) as [H1 H2]. eexists. split; [exact H1|exact H2].
      + apply NearR_mono with (r := a); [lra|].
        intros t Ht. apply elbow_ll_hull; auto.
    - (* line-curve *)
      set (b := b_lc NumR tight a). assert (Hb : 0 < b) by (unfold b; rewrite b_lc_R; nra).
      set (el := elbow_lc NumR q v w a b).
      eexists _, _, _. split; [reflexivity|].
      assert (D0 : d0 el = cscale NumR b v) by apply (elbow_lc_d0 NumR_ok).
      assert (D1 : d1 el = cscale NumR b w) by apply (elbow_lc_d1 NumR_ok).
      assert (Rel : Regular el).
      { split; [rewrite D0|rewrite D1]; apply cscale_nz; auto using unit_nz; lra. }
      constructor.
      + reflexivity.
      + exact T2.
      + reflexivity.
      + unfold u1, u0. rewrite D0, cunitR_pos_scale_unit by assumption. exact T2.
      + exact Ec.
      + unfold u1. rewrite D1, cunitR_pos_scale_unit by assumption. reflexivity.
      + reflexivity.
      + reflexivity.
      + split; unfold d0, d1; cbn [sderiv1]; apply csub_nz; intros E; apply T1'; symmetry; exact E.
      + exact Rel.
      + exact V1.
      + reflexivity.
      + reflexivity.
      + reflexivity.
      + intros t Ht. destruct (T4 t Ht) as [H1 H2]. eexists. split; [exact H1|exact H2].
      + apply SubR_refl.
      + apply NearR_mono with (r := 4 / 3 * a); [lra|].
        intros t Ht. apply elbow_lc_hull; auto.
  Qed.

  (* the length oracle returns a positive number on regular cubics *)
  Definition LengthPos : Prop :=
    forall g, is_line g = false -> Regular g -> 0 < curve_length g.

  Lemma SLEN_line g : is_line g = true -> SLEN g = cabsR (d0 g).
  Proof. destruct g; [reflexivity|discriminate]. Qed.
  Definition LenPos (g : segR) : Prop := is_line g = false -> 0 < curve_length g.
  Lemma LenPos_line g : is_line g = true -> LenPos g.
  Proof. intros K K'. congruence. Qed.
  Lemma SLEN_pos g : LenPos g -> Regular g -> 0 < SLEN g.
  Proof.
    intros HL V. destruct (is_line g) eqn:K.
    - rewrite (SLEN_line K). apply cabsR_pos, V.
    - destruct g; [discriminate|]. apply HL; auto.
  Qed.

  (* every call whose arguments are not both curves *)
  Lemma sj_simple_spec seg0 seg1 :
    LenPos seg0 -> LenPos seg1 ->
    is_line seg0 || is_line seg1 = true -> Regular seg0 -> Regular seg1 ->
    send seg0 = sstart seg1 ->
    exists s0' e s1', SIMPLE seg0 seg1 mj tight = Some (s0', [e], s1') /\ SJspec seg0 seg1 s0' e s1'.
  Proof.
    intros HL0 HL1 K V0 V1 Ec. unfold SIMPLE, sj_simple.
    destruct (is_line seg0) eqn:K0.
    - apply sj_from_line_spec; auto.
      + apply SLEN_line; assumption.
      + apply SLEN_pos; assumption.
      + apply SLEN_line.
    - simpl in K. rewrite K.
      unfold sj_to_line. rewrite (sj_pre_true Ec). cbn [negb].
      rewrite (sj_vw_regular V0 V1).
      destruct (@sj_from_line_spec (sreversed seg1) (sreversed seg0)
                  (seg_length NumR NumTR curve_length (sreversed seg1))
                  (seg_length NumR NumTR curve_length seg0))
        as (r1t & relbow & r0 & Er & Sp).
      + rewrite is_line_rev; assumption.
      + apply Regular_rev; assumption.
      + apply Regular_rev; assumption.
      + rewrite send_rev, sstart_rev. auto.
      + apply SLEN_line. rewrite is_line_rev; assumption.
      + apply SLEN_pos; assumption.
      + rewrite is_line_rev, K0. discriminate.
      + rewrite Er.
        assert (Er0 : r0 = sreversed seg0).
        { unfold sj_from_line in Er. rewrite sj_pre_true in Er
            by (rewrite send_rev, sstart_rev; auto).
          cbn [negb] in Er.
          rewrite (sj_vw_regular (Regular_rev V1) (Regular_rev V0)) in Er.
          rewrite is_line_rev, K0 in Er. injection Er as _ _ E. auto. }
        eexists _, _, _. split; [reflexivity|].
        replace seg0 with (sreversed r0) at 2 by (rewrite Er0; apply sreversed_invol).
        apply SJspec_rev; assumption.
  Qed.

  (* ---------------- the abstract contract, concretely ---------------- *)
  Definition clsR := cls_ut NumR NumTR.

  Lemma SJspec_chain seg0 seg1 s0' e s1' :
    SJspec seg0 seg1 s0' e s1' ->
    chain (Jexact (@sstart R) (@send R) T0 T1) [s0'; e; s1'].
  Proof.
    intros [A1 A2 A3 A4 A5 A6 A7 A8 A9 A10 A11 A12 A13 A14 A15 A16 A17]. simpl. unfold Jexact.
    rewrite (T1_regular (proj2 A9)), (T0_regular (proj1 A10)),
            (T1_regular (proj2 A10)), (T0_regular (proj1 A11)).
    repeat split; congruence.
  Qed.

  (* --- contracts of the oracles used by the curve-curve branch --- *)
  Record CCcontract : Prop := {
    cc_len : LengthPos;
    (* ilength: for a request strictly inside (0, length) the answer is a
       parameter strictly inside (0,1) *)
    cc_il : forall g s, is_line g = false -> Regular g -> 0 < s < curve_length g ->
                        exists t, ilength g s = Some t /\ 0 < t < 1;
    (* cropped(0,t) / cropped(t,1) of a regular cubic: a regular cubic, the
       sub-curve from the same start / to the same end, same tangent there,
       and its other end is not the joint itself *)
    cc_crop0 : forall g t, is_line g = false -> Regular g -> 0 < t < 1 ->
        let c := cropped g 0 t in
        is_line c = false /\ Regular c /\ sstart c = sstart g /\ u0 c = u0 g /\ send c <> send g /\
        SubR c g /\ send c = spoint NumR g t;
    cc_crop1 : forall g t, is_line g = false -> Regular g -> 0 < t < 1 ->
        let c := cropped g t 1 in
        is_line c = false /\ Regular c /\ send c = send g /\ u1 c = u1 g /\ sstart c <> sstart g /\
        SubR c g /\ sstart c = spoint NumR g t;
    (* chord <= arc: the point ilength answers with is no farther from the
       start than the requested length, nor from the end than the remaining length *)
    cc_chord : forall g s t, is_line g = false -> Regular g -> ilength g s = Some t ->
        cabsR (csub NumR (spoint NumR g t) (sstart g)) <= s /\
        cabsR (csub NumR (spoint NumR g t) (send g)) <= curve_length g - s
  }.

  Definition JOINT := fun s0 s1 => smoothed_joint NumR NumTR sing_ut curve_length ilength cropped s0 s1 mj tight.

  Lemma chainJ_cons2 x y l :
    chain (Jexact (@sstart R) (@send R) T0 T1) (x :: y :: l) <->
    Jexact (@sstart R) (@send R) T0 T1 x y /\ chain (Jexact (@sstart R) (@send R) T0 T1) (y :: l).
  Proof. apply chain_cons2. Qed.

  Lemma Jexact_regular x y :
    Regular x -> Regular y -> send x = sstart y -> u1 x = u0 y ->
    Jexact (@sstart R) (@send R) T0 T1 x y.
  Proof.
    intros [_ Hx] [Hy _] E1 E2. split; auto.
    rewrite (T1_regular Hx), (T0_regular Hy). congruence.
  Qed.

  (* the joint contract for pairs that are not both curves: no oracle contract
     beyond the positivity of the cubic length *)
  Lemma joint_simple_ok seg0 seg1 :
    LenPos seg0 -> LenPos seg1 -> is_line seg0 || is_line seg1 = true ->
    Regular seg0 -> Regular seg1 -> send seg0 = sstart seg1 ->
    exists s0' el s1',
      JOINT seg0 seg1 = Some (s0', el, s1') /\
      sstart s0' = sstart seg0 /\ T0 s0' = T0 seg0 /\
      send s1' = send seg1 /\ T1 s1' = T1 seg1 /\
      chain (Jexact (@sstart R) (@send R) T0 T1) (s0' :: el ++ [s1']) /\
      Forall Regular (s0' :: el ++ [s1']) /\
      is_line s0' = is_line seg0 /\ is_line s1' = is_line seg1 /\
      SubR s0' seg0 /\ SubR s1' seg1 /\ Forall (NearR mj (send seg0)) el.
  Proof.
    intros HL0 HL1 K V0 V1 Ec.
    destruct (sj_simple_spec HL0 HL1 K V0 V1 Ec) as (s0' & e & s1' & Es & Sp).
    exists s0', [e], s1'. unfold JOINT, smoothed_joint. rewrite K. fold SIMPLE. rewrite Es.
    pose proof (SJspec_chain Sp) as Hch.
    destruct Sp as [A1 A2 A3 A4 A5 A6 A7 A8 A9 A10 A11 A12 A13 A14 A15 A16 A17].
    split; [reflexivity|]. split; [assumption|].
    split; [rewrite (T0_regular (proj1 A9)), (T0_regular (proj1 V0)); congruence|].
    split; [assumption|].
    split; [rewrite (T1_regular (proj2 A11)), (T1_regular (proj2 V1)); congruence|].
    split; [exact Hch|].
    split; [simpl; constructor; [assumption|constructor; [assumption|constructor; [assumption|constructor]]]|].
    split; [assumption|]. split; [assumption|]. split; [assumption|]. split; [assumption|].
    constructor; [|constructor]. apply NearR_mono with (r := 2 / 3 * mj); [lra|assumption].
  Qed.

  (* curve-curve: composition of three simple joints on the cropped pieces *)
  Lemma joint_cc_ok seg0 seg1 :
    CCcontract -> is_line seg0 = false -> is_line seg1 = false ->
    Regular seg0 -> Regular seg1 -> send seg0 = sstart seg1 ->
    exists s0' el s1',
      JOINT seg0 seg1 = Some (s0', el, s1') /\
      sstart s0' = sstart seg0 /\ T0 s0' = T0 seg0 /\
      send s1' = send seg1 /\ T1 s1' = T1 seg1 /\
      chain (Jexact (@sstart R) (@send R) T0 T1) (s0' :: el ++ [s1']) /\
      Forall Regular (s0' :: el ++ [s1']) /\
      is_line s0' = is_line seg0 /\ is_line s1' = is_line seg1 /\
      SubR s0' seg0 /\ SubR s1' seg1 /\ Forall (NearR mj (send seg0)) el.
  Proof.
    intros [HL HIL HC0 HC1 HCH] K0 K1 V0 V1 Ec.
    unfold JOINT, smoothed_joint. rewrite K0, K1. cbn [orb].
    unfold sj_cc. rewrite (sj_pre_true Ec). cbn [negb]. rewrite (sj_vw_regular V0 V1).
    assert (L0 : 0 < curve_length seg0) by (apply HL; auto).
    assert (L1 : 0 < curve_length seg1) by (apply HL; auto).
    assert (E0 : seg_length NumR NumTR curve_length seg0 = curve_length seg0)
      by (destruct seg0; [discriminate|reflexivity]).
    assert (E1 : seg_length NumR NumTR curve_length seg1 = curve_length seg1)
      by (destruct seg1; [discriminate|reflexivity]).
    rewrite E0, E1.
    pose proof (joint_a_props Hmj L0 L1) as Ha. cbv zeta in Ha.
    set (a := joint_a NumR mj (curve_length seg0) (curve_length seg1)) in *.
    destruct Ha as (Ha0 & Ha1 & Ha2 & Ha3).
    change (div NumR a (lit NumR 2)) with (a / (1 + 1)).
    change (sub NumR (curve_length seg0) (a / (1 + 1))) with (curve_length seg0 - a / (1 + 1)).
    destruct (HIL seg0 (curve_length seg0 - a / (1 + 1)) K0 V0) as (t0 & Et0 & Ht0); [lra|].
    destruct (HIL seg1 (a / (1 + 1)) K1 V1) as (t1 & Et1 & Ht1); [lra|].
    rewrite Et0, Et1.
    change (zero NumR) with 0. change (one NumR) with 1.
    destruct (HC0 seg0 t0 K0 V0 Ht0) as (C1 & C2 & C3 & C4 & C5 & C6 & C7).
    destruct (HC1 seg1 t1 K1 V1 Ht1) as (D1 & D2 & D3 & D4 & D5 & D6 & D7).
    destruct (HCH seg0 _ _ K0 V0 Et0) as [_ CH0].
    destruct (HCH seg1 _ _ K1 V1 Et1) as [CH1 _].
    set (s0t := cropped seg0 0 t0) in *. set (s1t := cropped seg1 t1 1) in *.
    set (q := send seg0) in *.
    set (l0 := SLine (send s0t) q). set (l1 := SLine q (sstart s1t)).
    assert (Vl0 : Regular l0) by (split; unfold d0, d1; simpl sderiv1; apply csub_nz; auto).
    assert (Vl1 : Regular l1).
    { split; unfold d0, d1; simpl sderiv1; apply csub_nz; intros E; apply D5; rewrite <- E;
        unfold q; auto. }
    (* first sub-joint: (seg0_trimmed, seg0_line) *)
    assert (LPl : forall s e : CR, LenPos (SLine s e)) by (intros; apply LenPos_line; reflexivity).
    destruct (@sj_simple_spec s0t l0) as (a0 & e0 & b0 & Es0 & Sp0);
      [intros _; apply HL; assumption|apply LPl|rewrite C1; reflexivity|assumption|assumption|reflexivity|].
    fold SIMPLE. rewrite Es0.
    (* second: (seg1_line, seg1_trimmed) *)
    destruct (@sj_simple_spec l1 s1t) as (a1 & e1 & b1 & Es1 & Sp1);
      [apply LPl|intros _; apply HL; assumption|reflexivity|assumption|assumption|reflexivity|].
    rewrite Es1.
    (* third: the two trimmed lines *)
    assert (Kb0 : is_line b0 = true) by (rewrite (sj_k1 Sp0); reflexivity).
    assert (Ka1 : is_line a1 = true) by (rewrite (sj_k0 Sp1); reflexivity).
    destruct (@sj_simple_spec b0 a1) as (a2 & e2 & b2 & Es2 & Sp2);
      [apply LenPos_line; assumption|apply LenPos_line; assumption|rewrite Kb0; reflexivity|apply (sj_v1 Sp0)|apply (sj_v0 Sp1)|
       rewrite (sj_end Sp0), (sj_start Sp1); reflexivity|].
    rewrite Es2.
    exists s0t, ([e0] ++ [a2] ++ [e2] ++ [b2] ++ [e1]), s1t.
    split; [reflexivity|].
    split; [assumption|].
    split; [rewrite (T0_regular (proj1 C2)), (T0_regular (proj1 V0)); congruence|].
    split; [assumption|].
    split; [rewrite (T1_regular (proj2 D2)), (T1_regular (proj2 V1)); congruence|].
    assert (Ea0 : a0 = s0t).
    { unfold SIMPLE, sj_simple in Es0. rewrite C1 in Es0. simpl is_line in Es0.
      unfold sj_to_line in Es0. destruct (negb _); [discriminate|].
      destruct (sj_vw _ _ _ _ _); [|discriminate].
      destruct (sj_from_line _ _ _ _ _ _ _ _ _) as [[[? [|? ?]] ?]|]; try discriminate.
      injection Es0 as E _ _. auto. }
    assert (Eb1 : b1 = s1t).
    { unfold SIMPLE, sj_simple in Es1. simpl is_line in Es1.
      unfold sj_from_line in Es1. destruct (negb _); [discriminate|].
      destruct (sj_vw _ _ _ _ _) as [[? ?]|]; [|discriminate].
      rewrite D1 in Es1. injection Es1 as _ _ E. auto. }
    subst a0 b1.
    split.
    { simpl app. rewrite !chainJ_cons2.
      refine (conj _ (conj _ (conj _ (conj _ (conj _ (conj _ I)))))).
      - apply Jexact_regular; [apply (sj_v0 Sp0)|apply (sj_ve Sp0)|apply (sj_c1 Sp0)|apply (sj_t1 Sp0)].
      - apply Jexact_regular; [apply (sj_ve Sp0)|apply (sj_v0 Sp2)| |].
        + rewrite (sj_c2 Sp0), (sj_start Sp2). reflexivity.
        + rewrite (sj_t2 Sp0), (sj_u0 Sp2). reflexivity.
      - apply Jexact_regular; [apply (sj_v0 Sp2)|apply (sj_ve Sp2)|apply (sj_c1 Sp2)|apply (sj_t1 Sp2)].
      - apply Jexact_regular; [apply (sj_ve Sp2)|apply (sj_v1 Sp2)|apply (sj_c2 Sp2)|apply (sj_t2 Sp2)].
      - apply Jexact_regular; [apply (sj_v1 Sp2)|apply (sj_ve Sp1)| |].
        + rewrite (sj_end Sp2), <- (sj_c1 Sp1). reflexivity.
        + rewrite (sj_u1 Sp2), <- (sj_t1 Sp1). reflexivity.
      - apply Jexact_regular; [apply (sj_ve Sp1)|apply (sj_v1 Sp1)|apply (sj_c2 Sp1)|apply (sj_t2 Sp1)]. }
    split.
    { simpl app.
      constructor; [apply (sj_v0 Sp0)|]. constructor; [apply (sj_ve Sp0)|].
      constructor; [apply (sj_v0 Sp2)|]. constructor; [apply (sj_ve Sp2)|].
      constructor; [apply (sj_v1 Sp2)|]. constructor; [apply (sj_ve Sp1)|].
      constructor; [apply (sj_v1 Sp1)|]. constructor. }
    split; [congruence|]. split; [congruence|]. split; [assumption|]. split; [assumption|].
    (* everything between the two cropped curves is within maxjointsize of q *)
    assert (P0 : cabsR (csub NumR (send s0t) q) <= mj / 4).
    { rewrite C7. fold q in CH0. lra. }
    assert (P1 : cabsR (csub NumR (sstart s1t) q) <= mj / 4).
    { rewrite D7. rewrite Ec. lra. }
    assert (Nl0 : NearR (mj / 4) q l0).
    { eapply NearR_mono; [exact P0|]. apply line_near_end. }
    assert (Nl1 : NearR (mj / 4) q l1).
    { eapply NearR_mono; [exact P1|]. apply line_near_start. }
    simpl app.
    constructor.
    { apply NearR_mono with (r := 2 / 3 * mj + mj / 4); [lra|].
      eapply NearR_shift; [apply (sj_near Sp0)|]. simpl send. exact P0. }
    constructor.
    { apply NearR_mono with (r := mj / 4); [lra|]. eapply NearR_sub; [|exact Nl0].
      eapply SubR_trans; [apply (sj_sub0 Sp2)|apply (sj_sub1 Sp0)]. }
    constructor.
    { apply NearR_mono with (r := 2 / 3 * mj); [lra|].
      pose proof (sj_near Sp2) as Hn. rewrite (sj_end Sp0) in Hn. exact Hn. }
    constructor.
    { apply NearR_mono with (r := mj / 4); [lra|]. eapply NearR_sub; [|exact Nl1].
      eapply SubR_trans; [apply (sj_sub1 Sp2)|apply (sj_sub0 Sp1)]. }
    constructor; [|constructor].
    apply NearR_mono with (r := 2 / 3 * mj + mj / 4); [lra|].
    eapply NearR_shift; [apply (sj_near Sp1)|]. simpl send.
    exact P1.
  Qed.

  (* ---------- JointOK, two instantiations ---------- *)
  (* (1) polylines: every segment a non-degenerate Line.  No oracle is consulted. *)
  Definition ValidLine (g : segR) : Prop := is_line g = true /\ Regular g.
  Lemma JointOK_polyline :
    JointOK (@sstart R) (@send R) T0 T1 clsR JOINT ValidLine SubR (NearR mj).
  Proof.
    intros seg0 seg1 [K0 V0] [K1 V1] Ec _.
    destruct (@joint_simple_ok seg0 seg1)
      as (s0' & el & s1' & H1 & H2 & H3 & H4 & H5 & H6 & H7 & H8 & H9 & H10 & H11 & H12);
      auto using LenPos_line; [rewrite K0; reflexivity|].
    exists s0', el, s1'.
    split; [exact H1|]. split; [exact H2|]. split; [exact H3|]. split; [exact H4|].
    split; [exact H5|]. split; [exact H6|].
    assert (R0 : Regular s0') by (inversion H7; assumption).
    assert (R1 : Regular s1').
    { change (s0' :: el ++ [s1']) with ((s0' :: el) ++ [s1']) in H7.
      apply Forall_app in H7. destruct H7 as [_ H7]. inversion H7; assumption. }
    split; [split; auto; congruence|]. split; [split; auto; congruence|]. auto.
  Qed.

  (* (2) lines and regular cubics, under the oracle contracts *)
  Lemma JointOK_general :
    CCcontract -> JointOK (@sstart R) (@send R) T0 T1 clsR JOINT Regular SubR (NearR mj).
  Proof.
    intros CC seg0 seg1 V0 V1 Ec _.
    assert (HL : LengthPos) by apply CC.
    assert (R : exists s0' el s1',
      JOINT seg0 seg1 = Some (s0', el, s1') /\
      sstart s0' = sstart seg0 /\ T0 s0' = T0 seg0 /\
      send s1' = send seg1 /\ T1 s1' = T1 seg1 /\
      chain (Jexact (@sstart R) (@send R) T0 T1) (s0' :: el ++ [s1']) /\
      Forall Regular (s0' :: el ++ [s1']) /\
      is_line s0' = is_line seg0 /\ is_line s1' = is_line seg1 /\
      SubR s0' seg0 /\ SubR s1' seg1 /\ Forall (NearR mj (send seg0)) el).
    { destruct (is_line seg0 || is_line seg1) eqn:K.
      - apply joint_simple_ok; auto; intros K'; apply HL; auto.
      - apply orb_false_iff in K. destruct K. apply joint_cc_ok; auto. }
    destruct R as (s0' & el & s1' & H1 & H2 & H3 & H4 & H5 & H6 & H7 & H8 & H9 & H10 & H11 & H12).
    exists s0', el, s1'.
    split; [exact H1|]. split; [exact H2|]. split; [exact H3|]. split; [exact H4|].
    split; [exact H5|]. split; [exact H6|].
    assert (R0 : Regular s0') by (inversion H7; assumption).
    assert (R1 : Regular s1').
    { change (s0' :: el ++ [s1']) with ((s0' :: el) ++ [s1']) in H7.
      apply Forall_app in H7. destruct H7 as [_ H7]. inversion H7; assumption. }
    split; [assumption|]. split; [assumption|]. auto.
  Qed.

  (* ---------- interaction with the singular-point unit tangent (C15) ----------
     A cubic whose first control point coincides with its start has
     derivative 0 at t = 0 and leaves q along tau = (c2 - q)/|c2 - q|.  If the
     singular branch of unit_tangent answers -tau (what the code does when tau
     lies in the open left half plane: principal complex square root), the
     line-curve elbow is built to ARRIVE at q with derivative -b*tau, b > 0:
     the output has a 180-degree cusp at q although smoothed_path (and kinks(),
     which asks the same unit_tangent) considers the joint smooth. *)
  Lemma singular_sign_elbow (s0 q c2 e : CR) :
    s0 <> q -> c2 <> q ->
    let seg0 := SLine s0 q in
    let seg1 := SCubic q q c2 e in
    let tau := cunitR (csub NumR c2 q) in
    sing_ut seg1 0 = UTok (copp NumR tau) -> 0 < curve_length seg1 ->
    exists P0 el b,
      JOINT seg0 seg1 = Some (SLine s0 P0, [el], seg1) /\
      send el = q /\ 0 < b /\
      d1 el = cscale NumR (- b) tau /\
      cubic_deriv NumR q q c2 e 0 1 = Some (0, 0) /\
      cubic_deriv NumR q q c2 e 0 2 = Some (cscale NumR (6 * cabsR (csub NumR c2 q)) tau).
  Proof.
    intros Hsq Hc2 seg0 seg1 tau Hs HL.
    assert (V0 : Regular seg0).
    { split; unfold d0, d1; cbn [sderiv1 seg0]; apply csub_nz; assumption. }
    assert (Hz : csub NumR c2 q <> (0, 0)) by (apply csub_nz; auto).
    assert (Ht : cabsR tau = 1) by (apply cunitR_norm; assumption).
    assert (Ed : cubic_d1 NumR q q c2 e 0 = (0, 0)).
    { destruct q, c2, e. unfold cubic_d1. cunfold. simpl. f_equal; ring. }
    assert (Eu : ut_try NumR NumTR sing_ut seg1 (zero NumR) (t_fb0 NumR) = Some (copp NumR tau)).
    { unfold ut_try, seg_ut, seg1. change (zero NumR) with 0. rewrite Ed.
      assert (E0 : eqb NumR (cabs NumTR (0, 0)) 0 = true).
      { change (Req_b (cabsR (0, 0)) 0 = true). apply Req_b_true. rewrite cabsR_eq. simpl.
        replace (0 * 0 + 0 * 0) with 0 by ring. apply sqrt_0. }
      rewrite E0. unfold seg1 in Hs. rewrite Hs. reflexivity. }
    set (l0 := cabsR (d0 seg0)).
    assert (Hl0 : 0 < l0) by (apply cabsR_pos, V0).
    pose proof (joint_a_props Hmj Hl0 HL) as Ha. cbv zeta in Ha.
    set (a := joint_a NumR mj l0 (curve_length seg1)) in *. destruct Ha as (Ha0 & _).
    set (b := b_lc NumR tight a). assert (Hb : 0 < b) by (unfold b; rewrite b_lc_R; nra).
    exists (sstart (elbow_lc NumR q (u1 seg0) (copp NumR tau) a b)),
           (elbow_lc NumR q (u1 seg0) (copp NumR tau) a b), b.
    split.
    { unfold JOINT, smoothed_joint. cbn [is_line seg0 orb]. unfold sj_simple. cbn [is_line seg0].
      unfold sj_from_line. rewrite sj_pre_true by reflexivity. cbn [negb].
      unfold sj_vw. rewrite (ut_try1_regular _ (proj2 V0)), Eu. cbn [is_line seg1]. reflexivity. }
    split; [reflexivity|]. split; [assumption|].
    split.
    { change (d1 (elbow_lc NumR q (u1 seg0) (copp NumR tau) a b))
        with (sderiv1 NumR (elbow_lc NumR q (u1 seg0) (copp NumR tau) a b) (one NumR)).
      rewrite (elbow_lc_d1 NumR_ok). destruct tau. cunfold. simpl. f_equal; ring. }
    split.
    { unfold cubic_deriv. cbn [Z.eqb Pos.eqb]. f_equal.
      destruct q, c2, e. cunfold. simpl. f_equal; ring. }
    unfold cubic_deriv. cbn [Z.eqb Pos.eqb]. f_equal.
    pose proof (cunitR_decomp Hz) as Edec. fold tau in Edec.
    set (L := cabsR (csub NumR c2 q)) in *.
    destruct q as [qx qy], c2 as [cx cy], tau as [tx ty]. clear Hs Eu.
    unfold cscale, csub in Edec. simpl in Edec. injection Edec as E1 E2.
    cunfold. simpl.
    f_equal; [replace (6 * L * tx) with (6 * (L * tx)) by ring; rewrite <- E1; ring
             |replace (6 * L * ty) with (6 * (L * ty)) by ring; rewrite <- E2; ring].
  Qed.

  (* ---------- the concrete smoothed_path ---------- *)
  Definition SPATH (path : list segR) (ignore : bool) : sp_result segR :=
    smoothed_path NumR NumTR sing_ut curve_length ilength cropped path mj tight ignore.

  Lemma path_continuous_chain (path : list segR) :
    chain (incont (@sstart R) (@send R)) path -> path_continuous NumR path = true.
  Proof.
    induction path as [|a l IH]; auto. destruct l as [|b l]; auto.
    rewrite chain_cons2. intros [H1 H2]. unfold incont in H1.
    change (path_continuous NumR (a :: b :: l))
      with (ceqb NumR (send a) (sstart b) && path_continuous NumR (b :: l)).
    rewrite IH by assumption. rewrite (proj2 (ceqb_R_true _ _) H1). reflexivity.
  Qed.

  Lemma path_closed_iff (p0 : segR) l :
    path_closed NumR (p0 :: l) = true <-> sstart p0 = send (last (p0 :: l) p0).
  Proof. unfold path_closed. apply ceqb_R_true. Qed.

  (* what smoothed_path delivers on a path of two or more segments *)
  Definition PathOK (path : list segR) (p0 : segR) (res : sp_result segR) : Prop :=
    let pl := last path p0 in
    let closed := path_closed NumR path in
    exists out,
      res = SPOk out /\
      (* continuous; every joint exactly tangent-matched or an untouched smooth input joint *)
      chain (Jin (@sstart R) (@send R) T0 T1 clsR (if closed then adjc path p0 else adj path)) out /\
      (* open: same start / end point (and tangent there) *)
      (closed = false ->
         sstart (hd p0 out) = sstart p0 /\ T0 (hd p0 out) = T0 p0 /\
         send (last out p0) = send pl /\ T1 (last out p0) = T1 pl) /\
      (* closed: closed again, closing joint good *)
      (closed = true ->
         Jin (@sstart R) (@send R) T0 T1 clsR (adjc path p0) (last out p0) (hd p0 out)) /\
      (* smooth input joints keep position and tangents *)
      (forall a b, adj path a b -> insmooth T0 T1 clsR a b ->
                   exists x y, adj out x y /\ Keeps (@sstart R) (@send R) T0 T1 a b x y) /\
      (closed = true -> insmooth T0 T1 clsR pl p0 ->
         Keeps (@sstart R) (@send R) T0 T1 pl p0 (last out p0) (hd p0 out)) /\
      (* every output segment is a sub-piece of an input segment or lies within
         maxjointsize of an input joint point *)
      Forall (Origin (@send R) SubR (NearR mj) path) out.

  Section Inst.
    Variable Valid : segR -> Prop.
    Hypothesis HJ : JointOK (@sstart R) (@send R) T0 T1 clsR JOINT Valid SubR (NearR mj).

    Theorem smoothed_path_ok p0 p1 rest ignore :
      let path := p0 :: p1 :: rest in
      let pl := last path p0 in
      let closed := path_closed NumR path in
      Forall Valid path ->
      chain (incont (@sstart R) (@send R)) path ->
      chain (inclass T0 T1 clsR) path ->
      (closed = true -> inclass T0 T1 clsR pl p0) ->
      PathOK path p0 (SPATH path ignore).
    Proof.
      intros path pl closed HV Hc Hk Hcl.
      assert (Hcl' : closed = true -> sstart p0 = send pl /\ inclass T0 T1 clsR pl p0).
      { intros E. split; auto. apply (path_closed_iff p0 (p1 :: rest)). exact E. }
      destruct (@sp_loop_ok segR CR (utres R) (@sstart R) (@send R) T0 T1 clsR JOINT Valid
                  SubR (NearR mj) SubR_refl SubR_trans HJ
                  p0 p1 rest closed ignore HV Hc Hk Hcl') as (out & E & Rest).
      exists out. split; [|exact Rest].
      unfold SPATH, smoothed_path. fold path. rewrite (path_continuous_chain Hc). exact E.
    Qed.
  End Inst.
End Joint.
