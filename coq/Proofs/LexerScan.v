(* Proofs/LexerScan.v — the backtracking match of FLOAT_RE coincides with a
   deterministic scanner (so "leftmost, greedy, with backtracking" is, for
   this pattern, decided by looking at the digits run, an optional ".digits",
   and an optional exponent), and every match is a non-empty prefix; fuel-free
   unfolding equations for findall. *)
From Coq Require Import Ascii String List Bool Arith Lia.
From SVP Require Import Model.Lexer.
Import ListNotations.
Open Scope char_scope.

(* ------------------------------------------------------------------ *)
(* character classes are pairwise disjoint                             *)

Ltac all_ascii c := destruct c as [[] [] [] [] [] [] [] []]; try reflexivity; try discriminate.

Lemma digit_not_dot c : is_digit c = true -> is_dot c = false.
Proof. all_ascii c. Qed.
Lemma digit_not_sign c : is_digit c = true -> is_sign c = false.
Proof. all_ascii c. Qed.
Lemma digit_not_e c : is_digit c = true -> is_e c = false.
Proof. all_ascii c. Qed.
Lemma sign_not_digit c : is_sign c = true -> is_digit c = false.
Proof. all_ascii c. Qed.
Lemma sign_not_dot c : is_sign c = true -> is_dot c = false.
Proof. all_ascii c. Qed.
Lemma dot_not_digit c : is_dot c = true -> is_digit c = false.
Proof. all_ascii c. Qed.
Lemma dot_not_e c : is_dot c = true -> is_e c = false.
Proof. all_ascii c. Qed.
Lemma dot_not_sign c : is_dot c = true -> is_sign c = false.
Proof. all_ascii c. Qed.
Lemma e_not_digit c : is_e c = true -> is_digit c = false.
Proof. all_ascii c. Qed.
Lemma cmd_not_digit c : is_cmd c = true -> is_digit c = false.
Proof. all_ascii c. Qed.
Lemma cmd_not_dot c : is_cmd c = true -> is_dot c = false.
Proof. all_ascii c. Qed.
Lemma cmd_not_sign c : is_cmd c = true -> is_sign c = false.
Proof. all_ascii c. Qed.
Lemma cmd_not_e c : is_cmd c = true -> is_e c = false.
Proof. all_ascii c. Qed.

(* ------------------------------------------------------------------ *)
(* take_while                                                          *)

Lemma take_while_app p s : fst (take_while p s) ++ snd (take_while p s) = s.
Proof.
  induction s as [|c s IH]; [reflexivity|]. cbn. destruct (p c); [|reflexivity].
  destruct (take_while p s) as [a b]. cbn in *. f_equal. exact IH.
Qed.
Lemma take_while_all p s : forallb p (fst (take_while p s)) = true.
Proof.
  induction s as [|c s IH]; [reflexivity|]. cbn. destruct (p c) eqn:E; [|reflexivity].
  destruct (take_while p s) as [a b]. cbn in *. rewrite E. exact IH.
Qed.
Lemma take_while_stop p s :
  match snd (take_while p s) with [] => True | c :: _ => p c = false end.
Proof.
  induction s as [|c s IH]; [exact I|]. cbn. destruct (p c) eqn:E; [|exact E].
  destruct (take_while p s) as [a b]. exact IH.
Qed.
(* a run of p followed by something that does not start with p *)
Lemma take_while_run p d rest :
  forallb p d = true ->
  match rest with [] => True | c :: _ => p c = false end ->
  take_while p (d ++ rest) = (d, rest).
Proof.
  intros Hd Hr. induction d as [|c d IH]; cbn in *.
  - destruct rest as [|c r]; [reflexivity|]. cbn. rewrite Hr. reflexivity.
  - apply andb_true_iff in Hd. destruct Hd as [Hc Hd]. rewrite Hc, (IH Hd). reflexivity.
Qed.

(* ------------------------------------------------------------------ *)
(* greedy star with a continuation                                     *)

(* give characters back one at a time: [rd] = the run taken so far, reversed *)
Fixpoint backoff {A} (k : list ascii -> option A) (rd : list ascii) (rest : list ascii) : option A :=
  match k rest with
  | Some r => Some r
  | None => match rd with
            | [] => None
            | c :: rd' => backoff k rd' (c :: rest)
            end
  end.

Lemma backoff_app {A} (k : list ascii -> option A) rd1 rd2 rest :
  backoff k (rd1 ++ rd2) rest
  = match backoff k rd1 rest with
    | Some r => Some r
    | None => match rd2 with
              | [] => None
              | c :: rd2' => backoff k rd2' (c :: rev rd1 ++ rest)
              end
    end.
Proof.
  revert rest. induction rd1 as [|c rd1 IH]; intros rest; cbn.
  - destruct rd2; cbn; destruct (k rest); reflexivity.
  - destruct (k rest); [reflexivity|]. rewrite IH. rewrite <- app_assoc. reflexivity.
Qed.

Lemma star_k_backoff {A} p (k : list ascii -> option A) s :
  star_k p k s = backoff k (rev (fst (take_while p s))) (snd (take_while p s)).
Proof.
  induction s as [|c s IH]; cbn.
  - destruct (k []); reflexivity.
  - destruct (p c) eqn:E.
    + rewrite IH. pose proof (take_while_app p s) as Happ.
      destruct (take_while p s) as [d rest]. cbn [fst snd rev] in *.
      rewrite backoff_app. destruct (backoff k (rev d) rest); [reflexivity|].
      rewrite rev_involutive, Happ. cbn. destruct (k (c :: s)); reflexivity.
    + cbn. destruct (k (c :: s)); reflexivity.
Qed.

(* when the continuation cannot fail, the longest run is kept *)
Lemma star_k_total {A} p (k : list ascii -> option A) (f : list ascii -> A) s :
  (forall x, k x = Some (f x)) -> star_k p k s = Some (f (snd (take_while p s))).
Proof.
  intros H. rewrite star_k_backoff. destruct (rev (fst (take_while p s))); cbn; rewrite H; reflexivity.
Qed.

(* ------------------------------------------------------------------ *)
(* the deterministic scanner                                           *)

Definition skip_sign (s : list ascii) : list ascii :=
  match s with c :: r => if is_sign c then r else s | [] => s end.

(* (?:[eE][-+]?[0-9]+)?  — the text after it *)
Definition scan_exp (s : list ascii) : list ascii :=
  match s with
  | c :: r =>
      if is_e c then
        match fst (take_while is_digit (skip_sign r)) with
        | [] => s
        | _ :: _ => snd (take_while is_digit (skip_sign r))
        end
      else s
  | [] => s
  end.

(* [0-9]*\.?[0-9]+ — the text after it, or None *)
Definition scan_mant (s1 : list ascii) : option (list ascii) :=
  let ip := fst (take_while is_digit s1) in
  let s2 := snd (take_while is_digit s1) in
  let no_frac := match ip with [] => None | _ :: _ => Some s2 end in
  match s2 with
  | c :: r =>
      if is_dot c then
        match fst (take_while is_digit r) with
        | [] => no_frac
        | _ :: _ => Some (snd (take_while is_digit r))
        end
      else no_frac
  | [] => no_frac
  end.

Definition scan_float (s : list ascii) : option (list ascii) :=
  match scan_mant (skip_sign s) with
  | Some s3 => Some (scan_exp s3)
  | None => None
  end.

(* ---- the continuations of FLOAT_RE, innermost first ---- *)
Definition K0 : list ascii -> option (list ascii) := fun rest => Some rest.
Definition RE_EXP : regex := RSeq (RCls is_e) (RSeq (ROpt (RCls is_sign)) (RPlus is_digit)).
Definition kD (s : list ascii) : option (list ascii) := rmatch (ROpt RE_EXP) s K0.
Definition kC (s : list ascii) : option (list ascii) := rmatch (RPlus is_digit) s kD.
Definition kB (s : list ascii) : option (list ascii) := rmatch (ROpt (RCls is_dot)) s kC.
Definition kA (s : list ascii) : option (list ascii) := rmatch (RStar is_digit) s kB.

Lemma match_float_unfold s :
  match_float s = rmatch (ROpt (RCls is_sign)) s kA.
Proof. reflexivity. Qed.

Lemma plus_total s :
  rmatch (RPlus is_digit) s K0
  = match fst (take_while is_digit s) with
    | [] => None
    | _ :: _ => Some (snd (take_while is_digit s))
    end.
Proof.
  destruct s as [|c s]; [reflexivity|]. cbn.
  destruct (is_digit c); [|reflexivity].
  rewrite (star_k_total is_digit K0 (fun x => x)); [|reflexivity].
  destruct (take_while is_digit s); reflexivity.
Qed.

Lemma rm_seq {A} a b s (k : list ascii -> option A) :
  rmatch (RSeq a b) s k = rmatch a s (fun s1 => rmatch b s1 k).
Proof. reflexivity. Qed.
Lemma rm_opt {A} a s (k : list ascii -> option A) :
  rmatch (ROpt a) s k = match rmatch a s k with Some r => Some r | None => k s end.
Proof. reflexivity. Qed.
Lemma rm_cls {A} p s (k : list ascii -> option A) :
  rmatch (RCls p) s k = match s with c :: s' => if p c then k s' else None | [] => None end.
Proof. reflexivity. Qed.

(* [-+]?[0-9]+ : without the sign consumed the digits cannot start at the sign *)
Lemma opt_sign_plus r :
  rmatch (RSeq (ROpt (RCls is_sign)) (RPlus is_digit)) r K0
  = match fst (take_while is_digit (skip_sign r)) with
    | [] => None
    | _ :: _ => Some (snd (take_while is_digit (skip_sign r)))
    end.
Proof.
  rewrite rm_seq, rm_opt, rm_cls. destruct r as [|d r']; [reflexivity|].
  unfold skip_sign. destruct (is_sign d) eqn:Es.
  - rewrite (plus_total r').
    destruct (fst (take_while is_digit r')) eqn:E1; [|reflexivity].
    rewrite (plus_total (d :: r')). cbn [take_while]. rewrite (sign_not_digit _ Es). reflexivity.
  - rewrite (plus_total (d :: r')). reflexivity.
Qed.

Lemma kD_scan s : kD s = Some (scan_exp s).
Proof.
  unfold kD, RE_EXP. rewrite rm_opt, rm_seq, rm_cls. unfold scan_exp.
  destruct s as [|c r]; [reflexivity|].
  destruct (is_e c); [|reflexivity].
  rewrite opt_sign_plus.
  destruct (fst (take_while is_digit (skip_sign r))); reflexivity.
Qed.

Lemma kC_scan s :
  kC s = match fst (take_while is_digit s) with
         | [] => None
         | _ :: _ => Some (scan_exp (snd (take_while is_digit s)))
         end.
Proof.
  unfold kC. destruct s as [|c s]; [reflexivity|]. cbn [rmatch take_while].
  destruct (is_digit c); [|reflexivity].
  rewrite (star_k_total is_digit kD scan_exp); [|exact kD_scan].
  destruct (take_while is_digit s); reflexivity.
Qed.

Lemma kC_nondigit s :
  match s with [] => True | c :: _ => is_digit c = false end -> kC s = None.
Proof.
  intros H. rewrite kC_scan. destruct s as [|c r]; [reflexivity|]. cbn. rewrite H. reflexivity.
Qed.

Lemma kB_scan s :
  kB s = match s with
         | c :: r => if is_dot c then
                       match kC r with Some x => Some x | None => kC s end
                     else kC s
         | [] => kC s
         end.
Proof.
  unfold kB. cbn [rmatch]. destruct s as [|c r]; [reflexivity|].
  destruct (is_dot c); reflexivity.
Qed.

Lemma backoff_unfold {A} (k : list ascii -> option A) rd rest :
  backoff k rd rest = match k rest with
                      | Some r => Some r
                      | None => match rd with [] => None | c :: rd' => backoff k rd' (c :: rest) end
                      end.
Proof. destruct rd; reflexivity. Qed.

Lemma rev_nil_inv {A} (l : list A) : rev l = [] -> l = [].
Proof. intros E. apply (f_equal (@rev _)) in E. rewrite rev_involutive in E. exact E. Qed.

Lemma kA_scan s1 : kA s1 = match scan_mant s1 with Some s3 => Some (scan_exp s3) | None => None end.
Proof.
  unfold kA. cbn [rmatch]. rewrite star_k_backoff. unfold scan_mant.
  pose proof (take_while_stop is_digit s1) as Stop.
  pose proof (take_while_all is_digit s1) as All.
  destruct (take_while is_digit s1) as [ip s2]. cbn [fst snd] in *.
  (* right after the whole digits run, [0-9]+ cannot start *)
  assert (Hfail : kC s2 = None) by (apply kC_nondigit; exact Stop).
  (* what \.?[0-9]+... does right after the whole digits run *)
  assert (F1 : kB s2 = match s2 with
                       | c :: r => if is_dot c then
                                     match fst (take_while is_digit r) with
                                     | [] => None
                                     | _ :: _ => Some (scan_exp (snd (take_while is_digit r)))
                                     end
                                   else None
                       | [] => None
                       end).
  { rewrite kB_scan, Hfail. destruct s2 as [|c r]; [reflexivity|].
    destruct (is_dot c); [|reflexivity]. rewrite kC_scan.
    destruct (fst (take_while is_digit r)); reflexivity. }
  (* giving back one digit always works when there is one *)
  assert (Hback : forall c rd, rev ip = c :: rd ->
             backoff kB rd (c :: s2) = Some (scan_exp s2)).
  { intros c rd E.
    assert (Dc : is_digit c = true).
    { assert (In c ip) by (apply in_rev; rewrite E; left; reflexivity).
      rewrite forallb_forall in All. apply All, H. }
    rewrite backoff_unfold, kB_scan, (digit_not_dot _ Dc), kC_scan.
    cbn [take_while]. rewrite Dc.
    assert (T : take_while is_digit s2 = ([], s2)).
    { destruct s2 as [|x s2']; [reflexivity|]. cbn. rewrite Stop. reflexivity. }
    rewrite T. reflexivity. }
  rewrite backoff_unfold, F1.
  assert (Hnone : match rev ip with [] => None | c :: rd' => backoff kB rd' (c :: s2) end
                  = match match ip with [] => None | _ :: _ => Some s2 end with
                    | Some s3 => Some (scan_exp s3) | None => None end).
  { destruct (rev ip) as [|d rd] eqn:E.
    - rewrite (rev_nil_inv _ E). reflexivity.
    - rewrite (Hback d rd eq_refl). destruct ip; [discriminate|reflexivity]. }
  destruct s2 as [|c r]; [exact Hnone|].
  destruct (is_dot c); [|exact Hnone].
  destruct (fst (take_while is_digit r)); [exact Hnone|reflexivity].
Qed.

(* FLOAT_RE.match (Python's backtracking semantics) = the scanner *)
Theorem match_float_scan s : match_float s = scan_float s.
Proof.
  rewrite match_float_unfold. unfold scan_float, skip_sign. cbn [rmatch].
  destruct s as [|c r].
  - rewrite kA_scan. reflexivity.
  - destruct (is_sign c) eqn:Es.
    + rewrite kA_scan. destruct (scan_mant r); [reflexivity|].
      (* without consuming the sign nothing matches either *)
      rewrite kA_scan. unfold scan_mant. cbn [take_while].
      rewrite (sign_not_digit _ Es). cbn [fst snd]. rewrite (sign_not_dot _ Es). reflexivity.
    + rewrite kA_scan. reflexivity.
Qed.

(* ------------------------------------------------------------------ *)
(* a match is a non-empty prefix                                       *)

Lemma scan_exp_suffix s : exists pre, s = pre ++ scan_exp s.
Proof.
  unfold scan_exp. destruct s as [|c r]; [exists []; reflexivity|].
  destruct (is_e c); [|exists []; reflexivity].
  destruct (fst (take_while is_digit (skip_sign r))) eqn:E; [exists []; reflexivity|].
  pose proof (take_while_app is_digit (skip_sign r)) as H.
  unfold skip_sign in *. destruct r as [|d r']; [discriminate|].
  destruct (is_sign d).
  - exists (c :: d :: fst (take_while is_digit r')). cbn. rewrite H. reflexivity.
  - exists (c :: fst (take_while is_digit (d :: r'))). cbn [app]. rewrite H. reflexivity.
Qed.

Lemma scan_mant_suffix s s3 :
  scan_mant s = Some s3 -> exists pre, s = pre ++ s3 /\ pre <> [].
Proof.
  unfold scan_mant. pose proof (take_while_app is_digit s) as H.
  destruct (take_while is_digit s) as [ip s2]. cbn [fst snd] in *.
  assert (NF : match ip with [] => None | _ :: _ => Some s2 end = Some s3 ->
               exists pre, s = pre ++ s3 /\ pre <> []).
  { destruct ip as [|d ip']; [discriminate|]. intros E. inversion E. subst s3.
    exists (d :: ip'). split; [symmetry; exact H|discriminate]. }
  destruct s2 as [|c r]; [exact NF|].
  destruct (is_dot c); [|exact NF].
  pose proof (take_while_app is_digit r) as Hr.
  destruct (take_while is_digit r) as [fp s3']. cbn [fst snd] in *.
  destruct fp as [|f fp']; [exact NF|].
  intros E. inversion E. subst s3'.
  exists (ip ++ c :: f :: fp'). split.
  - rewrite <- app_assoc. cbn. rewrite <- H. cbn in Hr. rewrite Hr. reflexivity.
  - destruct ip; discriminate.
Qed.

Lemma scan_float_suffix s rest :
  scan_float s = Some rest -> exists pre, s = pre ++ rest /\ pre <> [].
Proof.
  unfold scan_float. destruct (scan_mant (skip_sign s)) as [s3|] eqn:E; [|discriminate].
  intros H. inversion H. subst rest.
  destruct (scan_mant_suffix _ _ E) as (pre & E1 & NE).
  destruct (scan_exp_suffix s3) as (pe & E2).
  unfold skip_sign in E1. destruct s as [|c r].
  - destruct pre; [congruence|discriminate].
  - destruct (is_sign c).
    + exists (c :: pre ++ pe). split; [|discriminate].
      cbn. rewrite <- app_assoc, <- E2, <- E1. reflexivity.
    + exists (pre ++ pe). split; [|destruct pre; [congruence|discriminate]].
      rewrite <- app_assoc, <- E2. exact E1.
Qed.

(* ------------------------------------------------------------------ *)
(* findall without fuel                                                *)

Lemma firstn_prefix (pre rest : list ascii) :
  firstn (length (pre ++ rest) - length rest) (pre ++ rest) = pre.
Proof.
  rewrite app_length. replace (length pre + length rest - length rest) with (length pre) by lia.
  rewrite firstn_app, Nat.sub_diag, firstn_all. cbn. apply app_nil_r.
Qed.

Lemma findall_fuel_enough : forall fuel s, length s <= fuel ->
  findall_fuel fuel s = findall_fuel (length s) s.
Proof.
  induction fuel as [fuel IH] using lt_wf_ind. intros s Hs.
  destruct s as [|c s']; [destruct fuel; reflexivity|].
  destruct fuel as [|f]; [cbn in Hs; lia|].
  cbn [findall_fuel length]. destruct (match_float (c :: s')) as [rest|] eqn:E.
  - rewrite match_float_scan in E. destruct (scan_float_suffix _ _ E) as (pre & E1 & NE).
    assert (Lr : length rest < length (c :: s')).
    { rewrite E1, app_length. destruct pre; [congruence|cbn; lia]. }
    cbn in Hs, Lr. f_equal.
    rewrite (IH f) by lia. rewrite (IH (length s')) by lia. reflexivity.
  - cbn in Hs. rewrite (IH f) by lia. reflexivity.
Qed.

Lemma findall_nil : findall [] = [].
Proof. reflexivity. Qed.
(* no match at this position: skip one character *)
Lemma findall_skip c s : scan_float (c :: s) = None -> findall (c :: s) = findall s.
Proof.
  intros E. unfold findall. cbn [findall_fuel length]. rewrite match_float_scan, E. reflexivity.
Qed.
(* a match: emit it, continue after it *)
Lemma findall_match pre rest :
  pre <> [] -> scan_float (pre ++ rest) = Some rest -> findall (pre ++ rest) = pre :: findall rest.
Proof.
  intros NE E. destruct pre as [|c pre']; [congruence|].
  unfold findall at 1.
  change (findall_fuel (length ((c :: pre') ++ rest)) ((c :: pre') ++ rest))
    with (match match_float ((c :: pre') ++ rest) with
          | Some r => firstn (length ((c :: pre') ++ rest) - length r) ((c :: pre') ++ rest)
                        :: findall_fuel (length (pre' ++ rest)) r
          | None => findall_fuel (length (pre' ++ rest)) (pre' ++ rest)
          end).
  rewrite match_float_scan, E, firstn_prefix. f_equal.
  apply findall_fuel_enough. rewrite app_length. lia.
Qed.
