(* Proofs/ArcApprox.v — the generator loops of Arc.as_cubic_curves /
   as_quad_curves: the pieces form a chain that starts at self.start and ends
   at self.end.  Pure data movement: holds for ANY carrier K (no algebraic
   laws are used), hence for binary64 verbatim. *)
From Coq Require Import ZArith List Bool Lia.
From SVP Require Import Base.Num Base.Cplx Model.Arc.
Import ListNotations.

Section Approx.
  Context {K : Type} (N : Num K) (T : NumT K).
  Variable P : ArcP K.
  Variable curves : nat.

  Lemma last_cons_nonempty {A} (x : A) l d : l <> [] -> last (x :: l) d = last l d.
  Proof. destruct l; [congruence|reflexivity]. Qed.

  (* [chained s l]: the first piece starts at s and every piece starts where
     the previous one ends *)
  Fixpoint cchained (s : Cplx K) (l : list (cubic4 (K:=K))) : Prop :=
    match l with
    | [] => True
    | c :: r => cubic_start c = s /\ cchained (cubic_end c) r
    end.
  Fixpoint qchained (s : Cplx K) (l : list (quad3 (K:=K))) : Prop :=
    match l with
    | [] => True
    | c :: r => quad_start c = s /\ qchained (quad_end c) r
    end.

  Lemma cubic_loop_chained todo : forall i ps ct, cchained ps (cubic_loop N T P curves todo i ps ct).
  Proof.
    induction todo as [|m IH]; intros i ps ct; cbn [cubic_loop cchained]; [exact I|].
    split; [reflexivity|]. cbn [cubic_end]. apply IH.
  Qed.
  Lemma cubic_loop_length todo : forall i ps ct, length (cubic_loop N T P curves todo i ps ct) = todo.
  Proof. induction todo as [|m IH]; intros; cbn [cubic_loop length]; [reflexivity|]. now rewrite IH. Qed.
  Lemma cubic_loop_last todo : forall i ps ct d, (1 <= todo)%nat -> (i + todo = curves)%nat ->
    cubic_end (last (cubic_loop N T P curves todo i ps ct) d) = a_end P.
  Proof.
    induction todo as [|m IH]; intros i ps ct d H1 H2; [lia|].
    cbn [cubic_loop].
    destruct (Nat.eq_dec m 0) as [->|Hm].
    - cbn [cubic_loop last]. assert (Nat.eqb i (curves - 1) = true) as -> by (apply Nat.eqb_eq; lia).
      reflexivity.
    - rewrite last_cons_nonempty.
      + apply IH; lia.
      + intros E. apply (f_equal (@length _)) in E. rewrite cubic_loop_length in E. cbn in E. lia.
  Qed.

  Lemma quad_loop_chained todo : forall i ps ct, qchained ps (quad_loop N T P curves todo i ps ct).
  Proof.
    induction todo as [|m IH]; intros i ps ct; cbn [quad_loop qchained]; [exact I|].
    split; [reflexivity|]. cbn [quad_end]. apply IH.
  Qed.
  Lemma quad_loop_length todo : forall i ps ct, length (quad_loop N T P curves todo i ps ct) = todo.
  Proof. induction todo as [|m IH]; intros; cbn [quad_loop length]; [reflexivity|]. now rewrite IH. Qed.
  Lemma quad_loop_last todo : forall i ps ct d, (1 <= todo)%nat -> (i + todo = curves)%nat ->
    quad_end (last (quad_loop N T P curves todo i ps ct) d) = a_end P.
  Proof.
    induction todo as [|m IH]; intros i ps ct d H1 H2; [lia|].
    cbn [quad_loop].
    destruct (Nat.eq_dec m 0) as [->|Hm].
    - cbn [quad_loop last]. assert (Nat.eqb i (curves - 1) = true) as -> by (apply Nat.eqb_eq; lia).
      reflexivity.
    - rewrite last_cons_nonempty.
      + apply IH; lia.
      + intros E. apply (f_equal (@length _)) in E. rewrite quad_loop_length in E. cbn in E. lia.
  Qed.

  (* ---- C04_approx_ends ---- *)
  Lemma cubic_approx_ends d : (1 <= curves)%nat ->
    let l := arc_as_cubic_curves N T P curves in
    length l = curves /\ cchained (a_start P) l /\ cubic_end (last l d) = a_end P.
  Proof.
    intros H l. unfold l, arc_as_cubic_curves. repeat split.
    - apply cubic_loop_length.
    - apply cubic_loop_chained.
    - apply cubic_loop_last; lia.
  Qed.
  Lemma quad_approx_ends d : (1 <= curves)%nat ->
    let l := arc_as_quad_curves N T P curves in
    length l = curves /\ qchained (a_start P) l /\ quad_end (last l d) = a_end P.
  Proof.
    intros H l. unfold l, arc_as_quad_curves. repeat split.
    - apply quad_loop_length.
    - apply quad_loop_chained.
    - apply quad_loop_last; lia.
  Qed.

  (* the chain predicate in index form *)
  Lemma cchained_nth l : forall s d, cchained s l ->
    (forall c r, l = c :: r -> cubic_start c = s) /\
    (forall i, (S i < length l)%nat -> cubic_end (nth i l d) = cubic_start (nth (S i) l d)).
  Proof.
    induction l as [|c r IH]; intros s d H; cbn [cchained] in H.
    - split; [intros; discriminate|]. cbn [length]; intros; lia.
    - destruct H as [Hs Hr]. split.
      + intros c' r' E. injection E as <- <-. exact Hs.
      + intros i Hi. destruct (IH (cubic_end c) d Hr) as [A B].
        destruct i as [|i'].
        * cbn [nth]. destruct r as [|c2 r2]; [cbn in Hi; lia|]. cbn [nth]. symmetry. eapply A. reflexivity.
        * cbn [nth]. apply B. cbn [length] in Hi. lia.
  Qed.
  Lemma qchained_nth l : forall s d, qchained s l ->
    (forall c r, l = c :: r -> quad_start c = s) /\
    (forall i, (S i < length l)%nat -> quad_end (nth i l d) = quad_start (nth (S i) l d)).
  Proof.
    induction l as [|c r IH]; intros s d H; cbn [qchained] in H.
    - split; [intros; discriminate|]. cbn [length]; intros; lia.
    - destruct H as [Hs Hr]. split.
      + intros c' r' E. injection E as <- <-. exact Hs.
      + intros i Hi. destruct (IH (quad_end c) d Hr) as [A B].
        destruct i as [|i'].
        * cbn [nth]. destruct r as [|c2 r2]; [cbn in Hi; lia|]. cbn [nth]. symmetry. eapply A. reflexivity.
        * cbn [nth]. apply B. cbn [length] in Hi. lia.
  Qed.
End Approx.
