(* Proofs/LengthQuad.v — QuadraticBezier.length against the arc length:
     * the speed of a quadratic is |2 a t + b| = sqrt(c2 t^2 + c1 t + c0);
     * the three `isnan` fallback formulas are the arc length when a is
       anti-parallel to b (the only case in which the closed form is NaN);
     * the closed form is the arc length when gamma > 0 (control points not
       collinear), by the fundamental theorem of calculus. *)
From Coq Require Import ZArith List Bool Reals Lra Lia Psatz.
From Coquelicot Require Import Coquelicot.
From SVP Require Import Base.Num Base.Cplx Model.Bezier Model.Length
     Proofs.LengthSpec Proofs.LengthBezier.
Import ListNotations.
Local Open Scope R_scope.

Ltac req := match goal with |- ?x = ?y => change (@eq R x y) end.

(* B'(t) = 2 a t + b *)
Lemma quad_d1_ab s c e t :
  quad_d1 s c e t = cadd NumR (cscale NumR (2 * t) (quad_a NumR s c e)) (quad_b NumR s c e).
Proof. destruct s, c, e. unfold quad_d1, quad_a, quad_b. apply cplx_eq; cbn; ring. Qed.

Definition qdx (a b : Cplx R) (t : R) : R := 2 * t * fst a + fst b.
Definition qdy (a b : Cplx R) (t : R) : R := 2 * t * snd a + snd b.

Lemma quad_curve_len_ab s c e t0 t1 :
  curve_len (quad_curve s c e) t0 t1
  = arclen (qdx (quad_a NumR s c e) (quad_b NumR s c e)) (qdy (quad_a NumR s c e) (quad_b NumR s c e)) t0 t1.
Proof.
  unfold curve_len, arclen. apply RInt_ext. intros t _. unfold speed.
  cbn [gdx gdy quad_curve]. rewrite quad_d1_ab. reflexivity.
Qed.

Lemma qd_cont a b t : continuous (qdx a b) t /\ continuous (qdy a b) t.
Proof. split; unfold qdx, qdy; poly_cont. Qed.

Lemma RInt_affine p q a b : @eq R (RInt (fun t => p + q * t) a b) (p * (b - a) + q * (b * b - a * a) / 2).
Proof.
  rewrite (RInt_of_antideriv (fun t => p * t + q * (t * t) / 2) (fun t => p + q * t)).
  - field.
  - intros t. auto_derive; [exact I|field].
  - intros t. poly_cont.
Qed.

(* ---------------- the collinear fallback ---------------- *)
Section Collinear.
  Variables bx by_ k : R.
  Hypothesis kpos : 0 < k.
  Hypothesis bnz : 0 < hyp bx by_.
  Let b : Cplx R := (bx, by_).
  Let a : Cplx R := (- k * bx, - k * by_).      (* a = -k b : anti-parallel *)
  Let B := hyp bx by_.

  Lemma cabs_b : cabs NumTR b = B.
  Proof. rewrite cabs_R. reflexivity. Qed.
  Lemma cabs_a : cabs NumTR a = k * B.
  Proof.
    rewrite cabs_R. unfold a, B. cbn [fst snd].
    replace (- k * bx) with (k * - bx) by ring. replace (- k * by_) with (k * - by_) by ring.
    rewrite hyp_scal by lra. rewrite hyp_neg. reflexivity.
  Qed.
  Lemma col_speed t : speed (qdx a b) (qdy a b) t = Rabs (1 - 2 * k * t) * B.
  Proof.
    unfold speed, qdx, qdy, a, b. cbn [fst snd].
    change (hyp (2 * t * (- k * bx) + bx) (2 * t * (- k * by_) + by_) = Rabs (1 - 2 * k * t) * B).
    replace (2 * t * (- k * bx) + bx) with ((1 - 2 * k * t) * bx) by ring.
    replace (2 * t * (- k * by_) + by_) with ((1 - 2 * k * t) * by_) by ring.
    destruct (Rle_dec 0 (1 - 2 * k * t)) as [P|P].
    - rewrite hyp_scal by assumption. rewrite Rabs_pos_eq by assumption. reflexivity.
    - apply Rnot_le_lt in P. rewrite Rabs_left by assumption.
      rewrite <- (hyp_neg ((1 - 2 * k * t) * bx)).
      replace (- ((1 - 2 * k * t) * bx)) with (- (1 - 2 * k * t) * bx) by ring.
      replace (- ((1 - 2 * k * t) * by_)) with (- (1 - 2 * k * t) * by_) by ring.
      rewrite hyp_scal by lra. reflexivity.
  Qed.
  Lemma tstar_val : quad_tstar NumR NumTR a b = / (2 * k).
  Proof.
    unfold quad_tstar. rewrite cabs_a, cabs_b. cbn. fold B. field. split; unfold B; lra.
  Qed.

  Lemma len_below t0 t1 : t0 <= t1 -> t1 <= / (2 * k) ->
    arclen (qdx a b) (qdy a b) t0 t1 = B * (t1 - t0) - k * B * (t1 * t1 - t0 * t0).
  Proof.
    intros H01 H1. unfold arclen.
    rewrite (RInt_ext _ (fun t => B + (- 2 * k * B) * t)).
    - rewrite RInt_affine. req. field.
    - intros t. rewrite Rmin_left, Rmax_right by lra. intros Ht. rewrite col_speed.
      rewrite Rabs_pos_eq; [req; ring|].
      assert (2 * k * t <= 1); [|lra].
      apply (Rmult_le_reg_r (/ (2 * k))); [apply Rinv_0_lt_compat; lra|].
      replace (2 * k * t * / (2 * k)) with t by (field; lra). lra.
  Qed.
  Lemma len_above t0 t1 : t0 <= t1 -> / (2 * k) <= t0 ->
    arclen (qdx a b) (qdy a b) t0 t1 = k * B * (t1 * t1 - t0 * t0) - B * (t1 - t0).
  Proof.
    intros H01 H0. unfold arclen.
    rewrite (RInt_ext _ (fun t => - B + (2 * k * B) * t)).
    - rewrite RInt_affine. req. field.
    - intros t. rewrite Rmin_left, Rmax_right by lra. intros Ht. rewrite col_speed.
      assert (1 <= 2 * k * t).
      { apply (Rmult_le_reg_r (/ (2 * k))); [apply Rinv_0_lt_compat; lra|].
        replace (2 * k * t * / (2 * k)) with t by (field; lra). lra. }
      rewrite Rabs_minus_sym. rewrite Rabs_pos_eq; [req; ring|lra].
  Qed.

  Theorem quad_collinear_arclen t0 t1 : t0 <= t1 ->
    quad_collinear NumR NumTR a b t0 t1 = arclen (qdx a b) (qdy a b) t0 t1.
  Proof.
    intros H01. unfold quad_collinear. rewrite tstar_val.
    pose proof (qd_cont a b) as QC.
    cbn [ltb NumR].
    destruct (Rlt_b t1 (/ (2 * k))) eqn:E1.
    - apply Rlt_b_true in E1. rewrite len_below by lra.
      unfold quad_fb_below, sq. rewrite cabs_a, cabs_b. cbn. ring.
    - apply Rlt_b_false in E1.
      destruct (Rlt_b (/ (2 * k)) t0) eqn:E0.
      + apply Rlt_b_true in E0. rewrite len_above by lra.
        unfold quad_fb_above, sq. rewrite cabs_a, cabs_b. cbn. ring.
      + apply Rlt_b_false in E0.
        rewrite <- (arclen_additive (qdx a b) (qdy a b) (fun t => proj1 (QC t)) (fun t => proj2 (QC t))
                                    t0 (/ (2 * k)) t1).
        rewrite len_below, len_above by lra.
        unfold quad_fb_across, sq. rewrite cabs_a, cabs_b. cbn. fold B. field. split; unfold B; lra.
  Qed.
End Collinear.

(* ---------------- the closed form, gamma > 0 ---------------- *)
Section Closed.
  Variables c2 c1 c0 : R.
  Hypothesis c2pos : 0 < c2.
  Let beta := c1 / (2 * c2).
  Let gamma := c0 / c2 - beta * beta.
  Hypothesis gpos : 0 < gamma.
  Let w := sqrt c2.
  Definition qq (t : R) : R := sqrt (c2 * (t * t) + c1 * t + c0).

  Lemma w_pos : 0 < w. Proof. apply sqrt_lt_R0; assumption. Qed.
  Lemma w_sq : w * w = c2. Proof. apply sqrt_sqrt; lra. Qed.
  Lemma rad_eq t : c2 * (t * t) + c1 * t + c0 = c2 * ((t + beta) * (t + beta) + gamma).
  Proof. unfold gamma, beta. field. lra. Qed.
  Lemma rad_pos t : 0 < c2 * (t * t) + c1 * t + c0.
  Proof. rewrite rad_eq. apply Rmult_lt_0_compat; [assumption|].
    pose proof (Rle_0_sqr (t + beta)) as P; unfold Rsqr in P. lra. Qed.
  Lemma qq_pos t : 0 < qq t. Proof. apply sqrt_lt_R0, rad_pos. Qed.
  Lemma qq_sq t : qq t * qq t = w * w * ((t + beta) * (t + beta) + gamma).
  Proof. unfold qq. rewrite sqrt_sqrt by (left; apply rad_pos). rewrite rad_eq, w_sq. reflexivity. Qed.
  Lemma logarg_pos t : 0 < w * (t + beta) + qq t.
  Proof.
    pose proof (qq_pos t) as Q. pose proof (qq_sq t) as S. pose proof w_pos as W.
    destruct (Rle_dec 0 (t + beta)) as [P|P].
    { assert (0 <= w * (t + beta)) by (apply Rmult_le_pos; lra). lra. }
    apply Rnot_le_lt in P.
    assert (L : w * - (t + beta) < qq t); [|lra].
    assert (P1 : 0 <= w * - (t + beta)) by (apply Rmult_le_pos; lra).
    apply Rsqr_incrst_0; [|exact P1|lra]. unfold Rsqr.
    replace (w * - (t + beta) * (w * - (t + beta))) with (w * w * ((t + beta) * (t + beta))) by ring.
    rewrite S. assert (0 < w * w) by (apply Rmult_lt_0_compat; lra).
    rewrite Rmult_plus_distr_l. assert (0 < w * w * gamma) by (apply Rmult_lt_0_compat; lra). lra.
  Qed.
  Lemma qq_deriv t : is_derive qq t (w * w * (t + beta) / qq t).
  Proof.
    unfold qq at 1. auto_derive.
    - apply rad_pos.
    - fold (qq t). rewrite w_sq. unfold beta. field. split; [lra|]. pose proof (qq_pos t); lra.
  Qed.

  Definition FF (t : R) : R :=
    ((t + beta) * qq t + gamma * w * ln (w * (t + beta) + qq t)) / 2.

  Lemma FF_deriv t : is_derive FF t (qq t).
  Proof.
    pose proof (qq_deriv t) as D. pose proof (logarg_pos t) as LP.
    pose proof (qq_pos t) as Q. pose proof (qq_sq t) as S. pose proof w_pos as W.
    unfold FF. auto_derive.
    - repeat split; try (eexists; exact D); try exact LP.
    - replace (Derive (fun x : R => qq x) t) with (w * w * (t + beta) / qq t)
        by (symmetry; apply is_derive_unique; exact D).
      set (u := t + beta) in *. set (Q' := qq t) in *. clearbody u Q'.
      replace ((w * 1 + 1 * (w * w * u / Q')) * / (w * u + Q')) with (w / Q') by (field; lra).
      replace (1 * Q' + u * (1 * (w * w * u / Q')) + gamma * w * (w / Q'))
        with ((Q' * Q' + w * w * (u * u + gamma)) / Q') by (field; lra).
      rewrite <- S. field. lra.
  Qed.
  Lemma qq_cont t : continuous qq t.
  Proof. apply (@ex_derive_continuous R_AbsRing R_NormedModule qq t). eexists; apply qq_deriv. Qed.

  (* the closed form of the code, in terms of c2 c1 c0 *)
  Definition closed_R (t0 t1 : R) : R :=
    ((t1 + beta) * qq t1 - (t0 + beta) * qq t0
     + gamma * w * ln ((w * (t1 + beta) + qq t1) / (w * (t0 + beta) + qq t0))) / 2.

  Theorem closed_form_RInt t0 t1 : @eq R (RInt qq t0 t1) (closed_R t0 t1).
  Proof.
    rewrite (RInt_of_antideriv FF qq t0 t1 FF_deriv qq_cont).
    unfold closed_R, FF. rewrite ln_div by apply logarg_pos. field.
  Qed.
End Closed.

(* the model's closed form is the arc length when c2 > 0 and gamma > 0 *)
Theorem quad_closed_arclen (a b : Cplx R) t0 t1 :
  0 < quad_c2 NumR a -> 0 < quad_gamma NumR a b ->
  quad_closed NumR NumTR a b t0 t1 = arclen (qdx a b) (qdy a b) t0 t1.
Proof.
  intros C2 G.
  transitivity (closed_R (quad_c2 NumR a) (quad_c1 NumR a b) (quad_c0 NumR b) t0 t1); [reflexivity|].
  rewrite <- (closed_form_RInt _ _ _ C2 G). unfold arclen.
  apply RInt_ext. intros t _. unfold speed, qq, qdx, qdy.
  destruct a as [ax ay], b as [bx by_]. f_equal. cbn. ring.
Qed.

(* gamma > 0  <=>  a, b linearly independent (control points not collinear) *)
Lemma quad_gamma_pos (a b : Cplx R) :
  fst a * snd b - snd a * fst b <> 0 -> 0 < quad_c2 NumR a /\ 0 < quad_gamma NumR a b.
Proof.
  destruct a as [ax ay], b as [bx by_]. cbn [fst snd]. intros H.
  assert (A : 0 < ax * ax + ay * ay).
  { destruct (Req_dec ax 0) as [->|]; destruct (Req_dec ay 0) as [->|]; try nra. }
  split.
  - unfold quad_c2, sq; cbn. lra.
  - unfold quad_gamma, quad_beta, quad_c2, quad_c1, quad_c0, sq; cbn.
    replace ((bx * bx + by_ * by_) / ((1 + 1 + (1 + 1)) * (ax * ax + ay * ay)) -
             (1 + 1 + (1 + 1)) * (ax * bx + ay * by_) / ((1 + 1) * ((1 + 1 + (1 + 1)) * (ax * ax + ay * ay))) *
             ((1 + 1 + (1 + 1)) * (ax * bx + ay * by_) / ((1 + 1) * ((1 + 1 + (1 + 1)) * (ax * ax + ay * ay)))))
      with ((ax * by_ - ay * bx) * (ax * by_ - ay * bx) / (4 * (ax * ax + ay * ay) * (ax * ax + ay * ay)))
      by (field; lra).
    apply Rdiv_lt_0_compat; [|nra].
    assert (0 <= (ax * by_ - ay * bx) * (ax * by_ - ay * bx)) by nra.
    destruct H0; [assumption|]. exfalso. apply H. nra.
Qed.

(* the `abs(a) < 1e-12` branch returns |b| (t1 - t0): exact when a = 0, and
   within |a| (t1^2 - t0^2) < 1e-12 of the arc length otherwise *)
Theorem quad_small_a_bound (a b : Cplx R) t0 t1 : 0 <= t0 <= t1 ->
  Rabs (cabs NumTR b * (t1 - t0) - arclen (qdx a b) (qdy a b) t0 t1)
  <= cabs NumTR a * (t1 * t1 - t0 * t0).
Proof.
  intros H. rewrite !cabs_R. destruct a as [ax ay], b as [bx by_]. cbn [fst snd].
  set (A := hyp ax ay). set (B := hyp bx by_).
  pose proof (qd_cont (ax, ay) (bx, by_)) as QC.
  assert (Ex : ex_RInt (speed (qdx (ax, ay) (bx, by_)) (qdy (ax, ay) (bx, by_))) t0 t1)
    by (apply speed_ex_RInt; intros; apply QC).
  assert (Pw : forall t, 0 <= t ->
             Rabs (speed (qdx (ax, ay) (bx, by_)) (qdy (ax, ay) (bx, by_)) t - B) <= 2 * A * t).
  { intros t Ht. unfold speed, qdx, qdy, B. cbn [fst snd].
    change (Rabs (hyp (2 * t * ax + bx) (2 * t * ay + by_) - hyp bx by_) <= 2 * A * t).
    eapply Rle_trans; [apply hyp_abs_diff|].
    replace (2 * t * ax + bx - bx) with ((2 * t) * ax) by ring.
    replace (2 * t * ay + by_ - by_) with ((2 * t) * ay) by ring.
    rewrite hyp_scal by lra. unfold A. lra. }
  assert (U : arclen (qdx (ax, ay) (bx, by_)) (qdy (ax, ay) (bx, by_)) t0 t1
              <= B * (t1 - t0) + A * (t1 * t1 - t0 * t0)).
  { replace (B * (t1 - t0) + A * (t1 * t1 - t0 * t0))
      with (B * (t1 - t0) + (2 * A) * (t1 * t1 - t0 * t0) / 2) by field.
    rewrite <- (RInt_affine B (2 * A) t0 t1). apply RInt_le; try lra; auto.
    - apply (ex_RInt_continuous (fun t => B + 2 * A * t)). intros; poly_cont.
    - intros t Ht. specialize (Pw t ltac:(lra)). apply Rabs_le_between in Pw. lra. }
  assert (Lw : B * (t1 - t0) - A * (t1 * t1 - t0 * t0)
               <= arclen (qdx (ax, ay) (bx, by_)) (qdy (ax, ay) (bx, by_)) t0 t1).
  { replace (B * (t1 - t0) - A * (t1 * t1 - t0 * t0))
      with (B * (t1 - t0) + (- 2 * A) * (t1 * t1 - t0 * t0) / 2) by field.
    rewrite <- (RInt_affine B (- 2 * A) t0 t1). apply RInt_le; try lra; auto.
    - apply (ex_RInt_continuous (fun t => B + - 2 * A * t)). intros; poly_cont.
    - intros t Ht. specialize (Pw t ltac:(lra)). apply Rabs_le_between in Pw. lra. }
  apply Rabs_le. lra.
Qed.

(* ---------------- the nearly straight branch of the repaired code -------------
   abs(a) < 1e-6 abs(b):  s = |b| (t1 - t0) + (a.b)/|b| (t1^2 - t0^2).
   It never exceeds the arc length and is within (4/3) |a|^2/|b| (t1^3 - t0^3)
   of it (relative error <= 4 (|a|/|b|)^2 <= 4e-12 under the code's guard,
   below the closed form's own rounding error ~1e-16 |b|/|a| there). *)
Lemma near_linear_pointwise ax ay bx by_ t :
  let A := hyp ax ay in let B := hyp bx by_ in
  0 <= t <= 1 -> 4 * A <= B -> 0 < B ->
  let p := hyp (2 * t * ax + bx) (2 * t * ay + by_) in
  let q := B + 2 * t * ((ax * bx + ay * by_) / B) in
  0 <= p - q <= 4 * A * A / B * (t * t).
Proof.
  intros A B Ht HAB HB p q.
  pose proof (hyp_sq ax ay) as SA. pose proof (hyp_sq bx by_) as SB.
  pose proof (hyp_nonneg ax ay) as PA. fold A in SA, PA. fold B in SB.
  pose proof (hyp_sq (2 * t * ax + bx) (2 * t * ay + by_)) as SP. fold p in SP.
  pose proof (hyp_nonneg (2 * t * ax + bx) (2 * t * ay + by_)) as PP. fold p in PP.
  set (D := ax * bx + ay * by_) in *. set (E := D / B) in *.
  assert (EB : E * B = D) by (unfold E; field; lra).
  assert (DD : D * D <= A * A * (B * B)).
  { rewrite SA, SB. unfold D. pose proof (pow2_ge_0 (ax * by_ - ay * bx)). nra. }
  assert (EE : E * E <= A * A).
  { apply (Rmult_le_reg_r (B * B)); [nra|].
    replace (E * E * (B * B)) with ((E * B) * (E * B)) by ring. rewrite EB. exact DD. }
  assert (Eabs : - A <= E <= A) by (split; nra).
  assert (Pq : p * p = B * B + 4 * t * D + 4 * (t * t) * (A * A)).
  { rewrite SP, SA, SB. unfold D. ring. }
  assert (Qq : q * q = B * B + 4 * t * D + 4 * (t * t) * (E * E)).
  { unfold q. rewrite <- EB. ring. }
  assert (Qlo : B / 2 <= q) by (unfold q; nra).
  assert (Diff : 0 <= p * p - q * q <= 4 * (t * t) * (A * A)).
  { rewrite Pq, Qq. assert (0 <= t * t) by nra. split; nra. }
  assert (Pge : q <= p).
  { destruct (Rle_dec q p); [assumption|]. exfalso. nra. }
  split; [lra|].
  apply (Rmult_le_reg_r B); [assumption|].
  replace (4 * A * A / B * (t * t) * B) with (4 * (t * t) * (A * A)) by (field; lra).
  assert ((p - q) * B <= (p - q) * (p + q)) by (apply Rmult_le_compat_l; lra).
  nra.
Qed.

Theorem quad_near_linear_bound (a b : Cplx R) t0 t1 :
  0 <= t0 <= t1 -> t1 <= 1 -> 4 * cabs NumTR a <= cabs NumTR b -> 0 < cabs NumTR b ->
  0 <= arclen (qdx a b) (qdy a b) t0 t1 - quad_near_linear NumR NumTR a b t0 t1
    <= 4 / 3 * (cabs NumTR a * cabs NumTR a) / cabs NumTR b * (t1 * t1 * t1 - t0 * t0 * t0).
Proof.
  intros H01 H1. unfold quad_near_linear, sq. rewrite !cabs_R.
  destruct a as [ax ay], b as [bx by_]. cbn [fst snd re im add sub mul div NumR].
  set (A := hyp ax ay). set (B := hyp bx by_). set (E := (ax * bx + ay * by_) / B).
  intros HAB HB.
  pose proof (qd_cont (ax, ay) (bx, by_)) as QC.
  assert (Ex : ex_RInt (speed (qdx (ax, ay) (bx, by_)) (qdy (ax, ay) (bx, by_))) t0 t1)
    by (apply speed_ex_RInt; intros; apply QC).
  assert (Pw : forall t, 0 <= t <= 1 ->
     0 <= speed (qdx (ax, ay) (bx, by_)) (qdy (ax, ay) (bx, by_)) t - (B + 2 * t * E) <= 4 * A * A / B * (t * t)).
  { intros t Ht. apply (near_linear_pointwise ax ay bx by_ t Ht HAB HB). }
  (* the model's value is the integral of q(t) = B + 2 E t *)
  assert (IQ : @eq R (RInt (fun t => B + (2 * E) * t) t0 t1) (B * (t1 - t0) + E * (t1 * t1 - t0 * t0))).
  { rewrite RInt_affine. field. }
  assert (IC : @eq R (RInt (fun t => B + (2 * E) * t + 4 * A * A / B * (t * t)) t0 t1)
                  (B * (t1 - t0) + E * (t1 * t1 - t0 * t0)
                   + 4 / 3 * (A * A) / B * (t1 * t1 * t1 - t0 * t0 * t0))).
  { rewrite (RInt_of_antideriv (fun t => B * t + E * (t * t) + 4 * A * A / B * (t * t * t) / 3)
                               (fun t => B + (2 * E) * t + 4 * A * A / B * (t * t))).
    - field. lra.
    - intros t. auto_derive; [exact I|field; lra].
    - intros t. poly_cont. }
  assert (Lo : B * (t1 - t0) + E * (t1 * t1 - t0 * t0)
               <= arclen (qdx (ax, ay) (bx, by_)) (qdy (ax, ay) (bx, by_)) t0 t1).
  { rewrite <- IQ. apply RInt_le; try lra; auto.
    - apply (ex_RInt_continuous (fun t => B + 2 * E * t)). intros; poly_cont.
    - intros t Ht. specialize (Pw t ltac:(lra)). lra. }
  assert (Hi : arclen (qdx (ax, ay) (bx, by_)) (qdy (ax, ay) (bx, by_)) t0 t1
               <= B * (t1 - t0) + E * (t1 * t1 - t0 * t0)
                  + 4 / 3 * (A * A) / B * (t1 * t1 * t1 - t0 * t0 * t0)).
  { rewrite <- IC. apply RInt_le; try lra; auto.
    - apply (ex_RInt_continuous (fun t => B + 2 * E * t + 4 * A * A / B * (t * t))). intros; poly_cont.
    - intros t Ht. specialize (Pw t ltac:(lra)). lra. }
  lra.
Qed.
