(* Proofs/PathIdxList.v — iscontinuous / continuous_subpaths / isclosed of
   Model/PathIdx.v, for ANY segment type and ANY boolean end-point test (no
   law assumed on it): the index loops of the code compute the structural
   recursions, the pieces concatenate back, each is continuous, adjacent
   pieces are separated by a real discontinuity. *)
From Coq Require Import List Bool Arith Lia.
From SVP Require Import Base.Num Model.PathIdx.
Import ListNotations.

Section ListThms.
  Context {S P : Type} (start_ end_ : S -> P) (peq : P -> P -> bool).
  Notation joint := (joint start_ end_ peq).
  Notation iscontinuous := (iscontinuous start_ end_ peq).
  Notation iscont_rec := (iscont_rec start_ end_ peq).
  Notation cs_loop := (cs_loop start_ end_ peq).
  Notation continuous_subpaths := (continuous_subpaths start_ end_ peq).
  Notation cs_rec := (cs_rec start_ end_ peq).
  Notation separated := (separated start_ end_ peq).
  Notation isclosed := (isclosed start_ end_ peq).

  (* ---------- indexing helpers ---------- *)
  Lemma nth_error_mid (pre : list S) a t : nth_error (pre ++ a :: t) (length pre) = Some a.
  Proof. rewrite nth_error_app2 by lia. now rewrite Nat.sub_diag. Qed.
  Lemma nth_error_mid1 (pre : list S) a b t :
    nth_error (pre ++ a :: b :: t) (length pre + 1) = Some b.
  Proof.
    rewrite nth_error_app2 by lia. replace (length pre + 1 - length pre) with 1 by lia. reflexivity.
  Qed.
  Lemma joint_mid (pre : list S) a b t :
    joint (pre ++ a :: b :: t) (length pre) (length pre + 1) = Some (peq (end_ a) (start_ b)).
  Proof. unfold PathIdx.joint. now rewrite nth_error_mid, nth_error_mid1. Qed.

  (* ---------- iscontinuous: the index loop is the adjacent-pair recursion ---------- *)
  Lemma iscontinuous_gen : forall q pre,
    forallb (fun i => jtrue (joint (pre ++ q) i (i + 1))) (seq (length pre) (length q - 1))
    = iscont_rec q.
  Proof.
    induction q as [|a q IH]; intros pre; [reflexivity|].
    destruct q as [|b r]; [reflexivity|].
    replace (length (a :: b :: r) - 1) with (Datatypes.S (length (b :: r) - 1)) by (simpl; lia).
    cbn [seq forallb]. rewrite joint_mid. cbn [jtrue].
    change (iscont_rec (a :: b :: r)) with (peq (end_ a) (start_ b) && iscont_rec (b :: r)).
    f_equal. specialize (IH (pre ++ [a])).
    rewrite <- app_assoc, app_length in IH. cbn [app length] in IH.
    replace (length pre + 1) with (Datatypes.S (length pre)) in IH by lia. exact IH.
  Qed.
  Theorem iscontinuous_rec p : iscontinuous p = iscont_rec p.
  Proof. exact (iscontinuous_gen p []). Qed.

  (* ---------- slices ---------- *)
  Lemma slice_snoc (pre : list S) a t st : st <= length pre ->
    slice (pre ++ a :: t) st (Datatypes.S (length pre)) = slice (pre ++ a :: t) st (length pre) ++ [a].
  Proof.
    intros Hst. unfold slice. rewrite skipn_app.
    replace (st - length pre) with 0 by lia. cbn [skipn].
    assert (Hl : length (skipn st pre) = length pre - st) by apply skipn_length.
    rewrite !firstn_app, Hl.
    replace (Datatypes.S (length pre) - st - (length pre - st)) with 1 by lia.
    replace (length pre - st - (length pre - st)) with 0 by lia.
    cbn [firstn]. rewrite app_nil_r.
    rewrite !firstn_all2 by lia. reflexivity.
  Qed.
  Lemma slice_empty (p : list S) a : slice p a a = [].
  Proof. unfold slice. now rewrite Nat.sub_diag. Qed.

  (* ---------- glue ---------- *)
  Lemma glue_glue (x y : list S) z : glue x (glue y z) = glue (x ++ y) z.
  Proof. destruct z; cbn [glue]; now rewrite ?app_assoc. Qed.
  Lemma glue_nil z : z <> [] -> glue (@nil S) z = z.
  Proof. destruct z; [congruence|reflexivity]. Qed.
  Lemma concat_glue (x : list S) z : concat (glue x z) = x ++ concat z.
  Proof. destruct z; cbn [glue concat]; now rewrite ?app_assoc, ?app_nil_r. Qed.
  Lemma length_glue (x : list S) z : z <> [] -> length (glue x z) = length z.
  Proof. destruct z; [congruence|reflexivity]. Qed.

  Lemma cs_rec_head b r : exists g gs, cs_rec (b :: r) = (b :: g) :: gs.
  Proof.
    revert b; induction r as [|c r IH]; intros b; [exists [], []; reflexivity|].
    cbn [PathIdx.cs_rec]. destruct (IH c) as [g [gs E]].
    destruct (peq (end_ b) (start_ c)).
    - change (match r with [] => [[c]] | b0 :: _ => _ end) with (cs_rec (c :: r)).
      rewrite E. cbn [glue app]. eauto.
    - eauto.
  Qed.
  Lemma cs_rec_nonempty p : cs_rec p <> [].
  Proof. destruct p as [|b r]; [discriminate|]. destruct (cs_rec_head b r) as [g [gs ->]]. discriminate. Qed.
  Lemma cs_rec_cons2 a b r :
    cs_rec (a :: b :: r) = if peq (end_ a) (start_ b) then glue [a] (cs_rec (b :: r))
                           else [a] :: cs_rec (b :: r).
  Proof. reflexivity. Qed.

  (* ---------- continuous_subpaths: the loop computes cs_rec ---------- *)
  Lemma cs_loop_gen : forall q pre acc st, q <> [] -> st <= length pre ->
    let p := pre ++ q in
    let r := cs_loop p (seq (length pre) (length q - 1)) acc st in
    fst r ++ [slice p (snd r) (length p)] = acc ++ glue (slice p st (length pre)) (cs_rec q).
  Proof.
    induction q as [|a q IH]; intros pre acc st Hne Hst; [congruence|].
    destruct q as [|b r].
    - cbn zeta. cbn [length Nat.sub seq PathIdx.cs_loop fst snd PathIdx.cs_rec glue].
      rewrite app_length. cbn [length]. replace (length pre + 1) with (Datatypes.S (length pre)) by lia.
      now rewrite slice_snoc.
    - cbn zeta.
      replace (length (a :: b :: r) - 1) with (Datatypes.S (length (b :: r) - 1)) by (simpl; lia).
      cbn [seq PathIdx.cs_loop].
      assert (Hmod : (length pre + 1) mod length (pre ++ a :: b :: r) = length pre + 1).
      { apply Nat.mod_small. rewrite app_length. simpl. lia. }
      rewrite Hmod, joint_mid. cbn [jtrue].
      assert (Hp : pre ++ a :: b :: r = (pre ++ [a]) ++ b :: r) by now rewrite <- app_assoc.
      assert (Hl : length (pre ++ [a]) = Datatypes.S (length pre)) by (rewrite app_length; simpl; lia).
      rewrite cs_rec_cons2.
      destruct (peq (end_ a) (start_ b)); cbn [negb].
      + specialize (IH (pre ++ [a]) acc st). cbv zeta in IH.
        rewrite <- Hp, Hl in IH. rewrite IH; [|discriminate|lia].
        rewrite glue_glue. now rewrite slice_snoc.
      + specialize (IH (pre ++ [a]) (acc ++ [slice (pre ++ a :: b :: r) st (length pre + 1)])
                       (length pre + 1)). cbv zeta in IH.
        rewrite <- Hp, Hl in IH. replace (length pre + 1) with (Datatypes.S (length pre)) in * by lia.
        rewrite IH; [|discriminate|lia].
        rewrite slice_empty, glue_nil by apply cs_rec_nonempty.
        rewrite slice_snoc by assumption. cbn [glue]. now rewrite <- app_assoc.
  Qed.
  Theorem continuous_subpaths_rec p : continuous_subpaths p = cs_rec p.
  Proof.
    unfold PathIdx.continuous_subpaths. destruct p as [|a q].
    - reflexivity.
    - pose proof (cs_loop_gen (a :: q) [] [] 0) as H. cbv zeta in H.
      cbn [app length] in H. rewrite slice_empty in H.
      rewrite glue_nil in H by apply cs_rec_nonempty. cbn [app] in H.
      cbn [length]. destruct (cs_loop (a :: q) _ [] 0) as [acc st].
      apply H; [discriminate|lia].
  Qed.

  (* ---------- the theorems, on cs_rec ---------- *)
  Lemma cs_rec_concat p : concat (cs_rec p) = p.
  Proof.
    induction p as [|a q IH]; [reflexivity|]. destruct q as [|b r]; [reflexivity|].
    rewrite cs_rec_cons2. destruct (peq (end_ a) (start_ b)).
    - rewrite concat_glue, IH. reflexivity.
    - cbn [concat]. rewrite IH. reflexivity.
  Qed.

  Lemma cs_rec_pieces_continuous p : Forall (fun g => iscont_rec g = true) (cs_rec p).
  Proof.
    induction p as [|a q IH]; [repeat constructor|].
    destruct q as [|b r]; [repeat constructor|].
    rewrite cs_rec_cons2. destruct (cs_rec_head b r) as [g [gs E]].
    destruct (peq (end_ a) (start_ b)) eqn:Ej.
    - rewrite E in *. cbn [glue app]. inversion IH as [|? ? Hg Hgs]; subst.
      constructor; [|assumption].
      change (iscont_rec (a :: b :: g)) with (peq (end_ a) (start_ b) && iscont_rec (b :: g)).
      now rewrite Ej, Hg.
    - constructor; [reflexivity|assumption].
  Qed.

  Lemma cs_rec_pieces_nonempty p : p <> [] -> Forall (fun g => g <> []) (cs_rec p).
  Proof.
    induction p as [|a q IH]; [congruence|]. intros _.
    destruct q as [|b r]; [repeat constructor; discriminate|].
    rewrite cs_rec_cons2. destruct (cs_rec_head b r) as [g [gs E]].
    specialize (IH ltac:(discriminate)).
    destruct (peq (end_ a) (start_ b)).
    - rewrite E in *. cbn [glue app]. inversion IH; subst. constructor; [discriminate|assumption].
    - constructor; [discriminate|assumption].
  Qed.

  Lemma last_default (l : list S) d d' : l <> [] -> last l d = last l d'.
  Proof.
    induction l as [|a r IH]; [congruence|]. intros _. destruct r as [|b r']; [reflexivity|].
    change (last (a :: b :: r') d) with (last (b :: r') d).
    change (last (a :: b :: r') d') with (last (b :: r') d'). apply IH. discriminate.
  Qed.

  Lemma cs_rec_separated p : separated (cs_rec p) = true.
  Proof.
    induction p as [|a q IH]; [reflexivity|]. destruct q as [|b r]; [reflexivity|].
    rewrite cs_rec_cons2. destruct (cs_rec_head b r) as [g [gs E]].
    destruct (peq (end_ a) (start_ b)) eqn:Ej.
    - rewrite E in *. cbn [glue app]. destruct gs as [|g2 gs']; [reflexivity|].
      cbn [PathIdx.separated] in IH |- *.
      destruct g2 as [|c g2']; [discriminate IH|].
      change (last (a :: b :: g) a) with (last (b :: g) a).
      rewrite (last_default (b :: g) a b) by discriminate. exact IH.
    - rewrite E in *. cbn [PathIdx.separated] in IH |- *. cbn [last]. rewrite Ej. cbn [negb andb].
      exact IH.
  Qed.

  Lemma cs_rec_length p : iscont_rec p = true <-> length (cs_rec p) <= 1.
  Proof.
    induction p as [|a q IH]; [cbn; split; auto|].
    destruct q as [|b r]; [cbn; split; auto|].
    rewrite cs_rec_cons2.
    change (iscont_rec (a :: b :: r)) with (peq (end_ a) (start_ b) && iscont_rec (b :: r)).
    pose proof (cs_rec_nonempty (b :: r)) as Hne.
    destruct (peq (end_ a) (start_ b)); cbn [andb].
    - rewrite length_glue by assumption. exact IH.
    - cbn [length]. split; [discriminate|].
      destruct (cs_rec (b :: r)); [congruence|cbn [length]; lia].
  Qed.

  (* ---------- the same, on the code's loops ---------- *)
  Theorem subpaths_concat p : concat (continuous_subpaths p) = p.
  Proof. rewrite continuous_subpaths_rec. apply cs_rec_concat. Qed.
  Theorem subpaths_continuous p : Forall (fun g => iscontinuous g = true) (continuous_subpaths p).
  Proof.
    rewrite continuous_subpaths_rec. eapply Forall_impl; [|apply cs_rec_pieces_continuous].
    intros g Hg. now rewrite iscontinuous_rec.
  Qed.
  Theorem subpaths_nonempty p : p <> [] -> Forall (fun g => g <> []) (continuous_subpaths p).
  Proof. rewrite continuous_subpaths_rec. apply cs_rec_pieces_nonempty. Qed.
  Theorem subpaths_maximal p : separated (continuous_subpaths p) = true.
  Proof. rewrite continuous_subpaths_rec. apply cs_rec_separated. Qed.
  Theorem iscontinuous_iff_one_piece p :
    iscontinuous p = true <-> length (continuous_subpaths p) <= 1.
  Proof. rewrite continuous_subpaths_rec, iscontinuous_rec. apply cs_rec_length. Qed.
  Theorem isclosed_spec a r : iscontinuous (a :: r) = true ->
    isclosed (a :: r) = Ok (peq (start_ a) (end_ (last (a :: r) a))).
  Proof. intros H. unfold PathIdx.isclosed. now rewrite H. Qed.
  Theorem isclosed_asserts p : (p = [] \/ iscontinuous p = false) -> isclosed p = Err EAssert.
  Proof.
    intros [->|H]; [reflexivity|]. destruct p; [reflexivity|]. unfold PathIdx.isclosed. now rewrite H.
  Qed.

  (* what "separated" means, spelled out: wherever the result is cut, the end
     of the left piece's last segment differs from the start of the right
     piece's first segment *)
  Theorem separated_spec : forall gs pre g1 g2 post, separated gs = true ->
    gs = pre ++ g1 :: g2 :: post ->
    exists a b g2', g2 = b :: g2' /\ g1 <> [] /\ peq (end_ (last g1 a)) (start_ b) = false.
  Proof.
    induction gs as [|g gs IH]; intros pre g1 g2 post Hs E.
    - destruct pre; discriminate.
    - destruct pre as [|g0 pre]; cbn [app] in E.
      + injection E as -> ->. cbn [PathIdx.separated] in Hs.
        destruct g1 as [|a g1']; [discriminate|]. destruct g2 as [|b g2']; [discriminate|].
        apply andb_true_iff in Hs. destruct Hs as [Hs _]. apply negb_true_iff in Hs.
        exists a, b, g2'. repeat split; [discriminate|exact Hs].
      + injection E as -> ->. cbn [PathIdx.separated] in Hs.
        destruct (pre ++ g1 :: g2 :: post) eqn:E'; [destruct pre; discriminate|].
        apply andb_true_iff in Hs. destruct Hs as [_ Hs].
        eapply IH; [exact Hs|symmetry; exact E'].
  Qed.
End ListThms.
