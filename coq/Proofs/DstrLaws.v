(* Proofs/DstrLaws.v — what the round-trip theorems of C01 ask of the carrier.

   EqbOK      : `==` is symmetric and transitive, 1 <> 0, 0 == 0.  Nothing about
                arithmetic; reflexivity is NOT asked (NaN), it is part of the
                well-formedness of the path (Model/Dstr.v, seg_fin).  Holds for
                binary64 (IEEE `==`, where -0.0 == 0.0) and for every exact
                carrier.
   SubCongOK  : a - b == x and b == b' give a - b' == x.  Only used for chains
                of T commands (the parser reflects the control point it has
                itself computed).  Holds for binary64: b == b' means b, b' are
                the same number up to the sign of zero.
   LeibnizOK  : `==` decides Leibniz equality, 1 <> 0 (no arithmetic).
   ExactOK    : LeibnizOK and (b - a) + a = b, a + (b - a) = b, 0 + a = a: the
                relative forms need them.  Holds in every abelian group with
                decidable equality; NOT in binary64.
   ReflectOK  : c1 - s = s - c2 -> (s + s) - c2 = c1: the test of is_smooth_from
                as written implies the parser's reflection.  Holds in every
                abelian group; refuted for binary64 (Props/C01.v). *)
From Coq Require Import List Bool Ring_theory Field_theory Field.
From SVP Require Import Base.Num Base.Cplx Model.Parse Proofs.ParseRefine.
Import ListNotations.

Record EqbOK {K} (N : Num K) : Prop := {
  eq_sym : forall a b, eqb N a b = true -> eqb N b a = true;
  eq_trans : forall a b c, eqb N a b = true -> eqb N b c = true -> eqb N a c = true;
  eq_one_zero : eqb N (one N) (zero N) = false;
  eq_zero_zero : eqb N (zero N) (zero N) = true }.

Definition SubCongOK {K} (N : Num K) : Prop :=
  forall a b b' x, eqb N b b' = true -> eqb N (sub N a b) x = true -> eqb N (sub N a b') x = true.

Record LeibnizOK {K} (N : Num K) : Prop := {
  lz_eqb : forall a b, eqb N a b = true <-> a = b;
  lz_one_zero : one N <> zero N }.

Record ExactOK {K} (N : Num K) : Prop := {
  ex_lz : LeibnizOK N;
  ex_sub_add : forall a b, add N (sub N b a) a = b;
  ex_add_sub : forall a b, add N a (sub N b a) = b;
  ex_add_0_l : forall a, add N (zero N) a = a }.

Definition ReflectOK {K} (N : Num K) : Prop :=
  forall c1 s c2, sub N c1 s = sub N s c2 -> sub N (add N s s) c2 = c1.

Lemma leibniz_eqb_ok {K} (N : Num K) : LeibnizOK N -> EqbOK N.
Proof.
  intros X. split.
  - intros a b H. apply (lz_eqb N X) in H. subst. apply (lz_eqb N X). reflexivity.
  - intros a b c H1 H2. apply (lz_eqb N X) in H1, H2. subst. apply (lz_eqb N X). reflexivity.
  - destruct (eqb N (one N) (zero N)) eqn:E; [|reflexivity].
    apply (lz_eqb N X) in E. destruct (lz_one_zero N X E).
  - apply (lz_eqb N X). reflexivity.
Qed.
Lemma leibniz_subcong {K} (N : Num K) : LeibnizOK N -> SubCongOK N.
Proof. intros X a b b' x H. apply (lz_eqb N X) in H. subst. auto. Qed.
Lemma exact_eqb_ok {K} (N : Num K) : ExactOK N -> EqbOK N.
Proof. intros X. apply leibniz_eqb_ok, (ex_lz N X). Qed.

(* every field with a correct equality test (NumQ, NumR) *)
Lemma field_exact {K} (N : Num K) :
  NumFieldOK N -> (forall a b, eqb N a b = true <-> a = b) -> ExactOK N.
Proof.
  intros OK E. pose proof (Fth OK) as F. assert (R := F_R F).
  split; [split; [exact E|exact (F_1_neq_0 F)]| | |]; intros.
  - rewrite (Rsub_def R). rewrite <- (Radd_assoc R).
    rewrite (Radd_comm R (opp N a) a), (Ropp_def R). rewrite (Radd_comm R). apply (Radd_0_l R).
  - rewrite (Rsub_def R). rewrite (Radd_comm R b), (Radd_assoc R), (Ropp_def R). apply (Radd_0_l R).
  - apply (Radd_0_l R).
Qed.
Lemma field_reflect {K} (N : Num K) : NumFieldOK N -> ReflectOK N.
Proof.
  intros OK c1 s c2 H. pose proof (Fth OK) as F. assert (R := F_R F).
  (* c1 = (c1 - s) + s = (s - c2) + s *)
  assert (E : c1 = add N (sub N c1 s) s).
  { rewrite (Rsub_def R), <- (Radd_assoc R), (Radd_comm R (opp N s) s), (Ropp_def R).
    rewrite (Radd_comm R). symmetry. apply (Radd_0_l R). }
  rewrite E, H. rewrite !(Rsub_def R).
  rewrite <- !(Radd_assoc R). f_equal. apply (Radd_comm R).
Qed.

Lemma exact_Q : ExactOK NumQ.
Proof. apply field_exact. exact NumQ_ok. exact (pl_eqb parse_laws_Q). Qed.
Lemma exact_R : ExactOK NumR.
Proof. apply field_exact. exact NumR_ok. exact (pl_eqb parse_laws_R). Qed.
Lemma reflect_Q : ReflectOK NumQ.  Proof. apply field_reflect, NumQ_ok. Qed.
Lemma reflect_R : ReflectOK NumR.  Proof. apply field_reflect, NumR_ok. Qed.

(* ------------------------------------------------------------------ *)
(* `==` on points                                                      *)
Section Pts.
  Context {K : Type} (N : Num K) (E : EqbOK N).
  Notation pt := (Cplx K).

  Lemma ceqb_sym (a b : pt) : ceqb N a b = true -> ceqb N b a = true.
  Proof.
    unfold ceqb. intros H. apply andb_true_iff in H. destruct H as [H1 H2].
    rewrite (eq_sym N E _ _ H1), (eq_sym N E _ _ H2). reflexivity.
  Qed.
  Lemma ceqb_trans (a b c : pt) : ceqb N a b = true -> ceqb N b c = true -> ceqb N a c = true.
  Proof.
    unfold ceqb. intros H G. apply andb_true_iff in H, G. destruct H as [H1 H2], G as [G1 G2].
    rewrite (eq_trans N E _ _ _ H1 G1), (eq_trans N E _ _ _ H2 G2). reflexivity.
  Qed.
  Lemma ceqb_cong_l (a b c : pt) : ceqb N a b = true -> ceqb N a c = ceqb N b c.
  Proof.
    intros H. destruct (ceqb N a c) eqn:A, (ceqb N b c) eqn:B; try reflexivity.
    - rewrite (ceqb_trans b a c (ceqb_sym _ _ H) A) in B. discriminate.
    - rewrite (ceqb_trans a b c H B) in A. discriminate.
  Qed.
  Lemma ceqb_cong_r (a b c : pt) : ceqb N a b = true -> ceqb N c a = ceqb N c b.
  Proof.
    intros H. destruct (ceqb N c a) eqn:A, (ceqb N c b) eqn:B; try reflexivity.
    - rewrite (ceqb_trans c a b A H) in B. discriminate.
    - rewrite (ceqb_trans c b a B (ceqb_sym _ _ H)) in A. discriminate.
  Qed.
  Lemma ceqb_refl_l (a b : pt) : ceqb N a b = true -> ceqb N a a = true.
  Proof. intros H. exact (ceqb_trans a b a H (ceqb_sym _ _ H)). Qed.
  Lemma ceqb_refl_r (a b : pt) : ceqb N a b = true -> ceqb N b b = true.
  Proof. intros H. exact (ceqb_trans b a b (ceqb_sym _ _ H) H). Qed.
  Lemma flag_roundtrip (b : bool) : flag_of N (if b then one N else zero N) = b.
  Proof.
    unfold flag_of. destruct b.
    - rewrite (eq_one_zero N E). reflexivity.
    - rewrite (eq_zero_zero N E). reflexivity.
  Qed.
End Pts.

Section PtsLeibniz.
  Context {K : Type} (N : Num K) (X : LeibnizOK N).
  Notation pt := (Cplx K).
  Lemma ceqb_eq (a b : pt) : ceqb N a b = true <-> a = b.
  Proof.
    unfold ceqb, re, im. destruct a as [a1 a2], b as [b1 b2]; cbn [fst snd].
    rewrite andb_true_iff, !(lz_eqb N X).
    split; [intros [-> ->]; reflexivity|intros H; inversion H; auto].
  Qed.
End PtsLeibniz.

Section PtsExact.
  Context {K : Type} (N : Num K) (X : ExactOK N).
  Notation pt := (Cplx K).
  Lemma csub_cadd (a b : pt) : cadd N (csub N b a) a = b.
  Proof. destruct a, b. unfold cadd, csub, re, im; cbn [fst snd]. rewrite !(ex_sub_add N X). reflexivity. Qed.
  Lemma cadd_csub (a b : pt) : cadd N a (csub N b a) = b.
  Proof. destruct a, b. unfold cadd, csub, re, im; cbn [fst snd]. rewrite !(ex_add_sub N X). reflexivity. Qed.
  Lemma cadd_c0_l (a : pt) : cadd N (c0 N) a = a.
  Proof. destruct a. unfold cadd, c0, re, im; cbn [fst snd]. rewrite !(ex_add_0_l N X). reflexivity. Qed.
End PtsExact.
