(* Proofs/SvgTreeFlat.v — the traversals of C17: the explicit stack of
   document.py flattened_paths is a depth-first traversal (shapes of a group
   grouped by kind, sibling groups in reverse order), a permutation of the
   reference recursion, with the reference's matrices; composition of the
   matrices along the ancestor chain; svg2paths' harvest; the SAX event loop. *)
From Coq Require Import ZArith List Bool Lia Permutation.
From SVP Require Import Base.Num Base.FieldTac Model.SvgTree Proofs.SvgTreeAlg.
Import ListNotations.

(* ------------------------------------------------------------------ *)
(* induction on trees (nested inductive type)                           *)
Section NodeInd.
  Context {K : Type}.
  Variable P : @node K -> Prop.
  Hypothesis Hs : forall k a tf, P (Shape k a tf).
  Hypothesis Hg : forall tf kids, Forall P kids -> P (Group tf kids).
  Fixpoint node_ind' (n : node) : P n :=
    match n with
    | Shape k a tf => Hs k a tf
    | Group tf kids =>
        Hg tf kids ((fix go (l : list node) : Forall P l :=
                  match l with
                  | [] => Forall_nil P
                  | c :: r => Forall_cons c (node_ind' c) (go r)
                  end) kids)
    end.
End NodeInd.

Lemma kind_eqb_eq a b : kind_eqb a b = true <-> a = b.
Proof. destruct a, b; cbn; split; congruence. Qed.
Lemma kind_eqb_refl a : kind_eqb a a = true.
Proof. destruct a; reflexivity. Qed.

(* inserting one element under the key it belongs to *)
Lemma flat_map_insert {A} (x : A) (k : kind) (f : kind -> list A) (ks : list kind) :
  NoDup ks ->
  Permutation (flat_map (fun key => (if kind_eqb k key then [x] else []) ++ f key) ks)
              ((if existsb (kind_eqb k) ks then [x] else []) ++ flat_map f ks).
Proof.
  induction ks as [|key ks IH]; intros ND; cbn [flat_map existsb].
  - constructor.
  - inversion ND as [|? ? Hnin ND']; subst.
    destruct (kind_eqb k key) eqn:E; cbn [orb].
    + apply kind_eqb_eq in E; subst key.
      assert (Hex : existsb (kind_eqb k) ks = false).
      { destruct (existsb (kind_eqb k) ks) eqn:E2; auto.
        apply existsb_exists in E2. destruct E2 as (y & Hy & Ey).
        apply kind_eqb_eq in Ey; subst y. contradiction. }
      specialize (IH ND'). rewrite Hex in IH. cbn [app] in *.
      constructor. apply Permutation_app_head. exact IH.
    + cbn [app]. specialize (IH ND').
      destruct (existsb (kind_eqb k) ks); cbn [app] in *.
      * eapply Permutation_trans; [apply Permutation_app_head; exact IH|].
        apply Permutation_sym, Permutation_middle.
      * apply Permutation_app_head; exact IH.
Qed.

Lemma NoDup_kinds_document : NoDup kinds_document.
Proof. unfold kinds_document. repeat constructor; cbn; intuition congruence. Qed.
Lemma NoDup_kinds_svg2paths : NoDup kinds_svg2paths.
Proof. unfold kinds_svg2paths. repeat constructor; cbn; intuition congruence. Qed.
Lemma all_kinds_document k : existsb (kind_eqb k) kinds_document = true.
Proof. destruct k; reflexivity. Qed.
Lemma all_kinds_svg2paths k : existsb (kind_eqb k) kinds_svg2paths = true.
Proof. destruct k; reflexivity. Qed.

Section Flat.
  Context {K : Type} (N : Num K) (OK : NumFieldOK N).

  Notation node := (@node K).
  Notation out := (@out K).
  Notation mat := (@mat K).

  (* ---------------------------------------------------------------- *)
  (* the stack loop is a depth-first traversal                          *)
  Section Filtered.
    Variable gfilter : position -> bool.
    Variable pfilter : position -> bool.

    Fixpoint dfs_rev (n : node) (p : position) (M : mat) : list out :=
      match n with
      | Shape _ _ _ => []
      | Group _ kids =>
          shapes_of N pfilter M p kids ++
          (fix go (i : nat) (l : list node) : list out :=
             match l with
             | [] => []
             | c :: r =>
                 go (S i) r ++
                 match c with
                 | Group tfc _ =>
                     if gfilter (p ++ [i])
                     then dfs_rev c (p ++ [i]) (mmul N M (parse_tf N tfc)) else []
                 | Shape _ _ _ => []
                 end
             end) O kids
      end.

    Definition dfs_entry (e : node * position * mat) : list out :=
      let '(g, q, Mg) := e in dfs_rev g q Mg.

    Fixpoint go_rev (p : position) (M : mat) (i : nat) (l : list node) : list out :=
      match l with
      | [] => []
      | c :: r =>
          go_rev p M (S i) r ++
          match c with
          | Group tfc _ =>
              if gfilter (p ++ [i])
              then dfs_rev c (p ++ [i]) (mmul N M (parse_tf N tfc)) else []
          | Shape _ _ _ => []
          end
      end.

    Lemma dfs_rev_group tf kids p M :
      dfs_rev (Group tf kids) p M = shapes_of N pfilter M p kids ++ go_rev p M O kids.
    Proof.
      cbn [dfs_rev]. f_equal. generalize O.
      induction kids as [|c r IH]; intros i; cbn [go_rev]; [reflexivity|].
      rewrite IH. reflexivity.
    Qed.

    Lemma go_rev_child_groups p M l : forall i,
        go_rev p M i l = flat_map dfs_entry (rev (child_groups N gfilter M p i l)).
    Proof.
      induction l as [|c r IH]; intros i; cbn [go_rev child_groups rev flat_map]; [reflexivity|].
      destruct c as [tfc ks|k a tfc].
      - rewrite rev_app_distr, flat_map_app, IH. f_equal.
        destruct (gfilter (p ++ [i])); cbn [rev app flat_map dfs_entry]; [|reflexivity].
        rewrite app_nil_r. reflexivity.
      - rewrite IH, app_nil_r. reflexivity.
    Qed.

    Lemma shapes_of_nil M p : shapes_of N pfilter M p [] = [].
    Proof. reflexivity. Qed.

    Lemma dfs_rev_unfold n p M :
      dfs_rev n p M = shapes_of N pfilter M p (kids_of n)
                      ++ flat_map dfs_entry (rev (child_groups N gfilter M p O (kids_of n))).
    Proof.
      destruct n as [tf kids|k a tf].
      - rewrite dfs_rev_group, go_rev_child_groups. reflexivity.
      - reflexivity.
    Qed.

    Definition stack_size (st : list (node * position * mat)) : nat :=
      fold_right (fun e s => nsize (fst (fst e)) + s)%nat O st.

    Lemma stack_size_cons e a : stack_size (e :: a) = (nsize (fst (fst e)) + stack_size a)%nat.
    Proof. reflexivity. Qed.
    Lemma stack_size_app a b : stack_size (a ++ b) = (stack_size a + stack_size b)%nat.
    Proof.
      induction a as [|e a IH]; [reflexivity|].
      cbn [app]. rewrite !stack_size_cons, IH. lia.
    Qed.
    Lemma stack_size_rev a : stack_size (rev a) = stack_size a.
    Proof.
      induction a as [|e a IH]; [reflexivity|].
      cbn [rev]. rewrite stack_size_app, IH, !stack_size_cons. cbn [stack_size fold_right]. lia.
    Qed.
    Lemma nsize_pos (n : node) : (1 <= nsize n)%nat.
    Proof. destruct n; cbn; lia. Qed.
    Lemma child_groups_size M p l : forall i,
        (stack_size (child_groups N gfilter M p i l)
         <= fold_right (fun c s => nsize c + s) O l)%nat.
    Proof.
      induction l as [|c r IH]; intros i; cbn [child_groups fold_right]; [cbn; lia|].
      destruct c as [tfc ks|k a tfc].
      - rewrite stack_size_app. specialize (IH (S i)).
        destruct (gfilter (p ++ [i])); cbn [stack_size fold_right fst] in *; lia.
      - specialize (IH (S i)). pose proof (nsize_pos (Shape k a tfc)). lia.
    Qed.
    Lemma kids_size (n : node) :
      (S (fold_right (fun c s => nsize c + s) O (kids_of n)) <= nsize n)%nat.
    Proof. destruct n; cbn; lia. Qed.

    (* the loop invariant: with enough fuel, the loop appends the depth-first
       traversal of every stack entry, top first *)
    Lemma stack_loop_dfs : forall fuel stack acc,
        (stack_size stack <= fuel)%nat ->
        stack_loop N gfilter pfilter fuel stack acc = acc ++ flat_map dfs_entry stack.
    Proof.
      induction fuel as [|f IH]; intros stack acc Hsz.
      - destruct stack as [|[[top p] M] rest].
        + cbn. rewrite app_nil_r. reflexivity.
        + cbn in Hsz. pose proof (nsize_pos top). lia.
      - destruct stack as [|[[top p] M] rest]; cbn [stack_loop].
        + cbn. rewrite app_nil_r. reflexivity.
        + rewrite IH.
          * cbn [flat_map dfs_entry]. rewrite dfs_rev_unfold, flat_map_app, !app_assoc. reflexivity.
          * rewrite stack_size_app, stack_size_rev.
            pose proof (child_groups_size M p (kids_of top) O).
            pose proof (kids_size top).
            cbn [stack_size fold_right fst] in Hsz. fold (stack_size rest) in Hsz. lia.
    Qed.

    Lemma flatten_stack_f_dfs root :
      flatten_stack_f N gfilter pfilter root
      = if gfilter [] then dfs_rev root [] (mmul N (mI N) (parse_tf N (tf_of root))) else [].
    Proof.
      unfold flatten_stack_f. destruct (gfilter []); [|reflexivity].
      rewrite stack_loop_dfs.
      - cbn [flat_map dfs_entry app]. apply app_nil_r.
      - cbn. lia.
    Qed.
  End Filtered.

  (* ---------------------------------------------------------------- *)
  (* unfiltered traversal = permutation of the reference                *)
  Definition tt_ (_ : position) := true.

  Fixpoint shapes_all (M : mat) (l : list node) : list out :=
    match l with
    | [] => []
    | Shape k a tf :: r => (k, a, mmul N M (parse_tf N tf)) :: shapes_all M r
    | Group _ _ :: r => shapes_all M r
    end.

  Lemma shapes_kind_cons_shape pf key M p i k a tf r :
    shapes_kind N pf key M p i (Shape k a tf :: r)
    = (if kind_eqb k key && pf (p ++ [i]) then [(k, a, mmul N M (parse_tf N tf))] else [])
      ++ shapes_kind N pf key M p (S i) r.
  Proof. reflexivity. Qed.

  Lemma shapes_of_perm M p l : forall i,
      Permutation (flat_map (fun key => shapes_kind N tt_ key M p i l) kinds_document)
                  (shapes_all M l).
  Proof.
    induction l as [|c r IH]; intros i.
    - cbn. constructor.
    - destruct c as [tfc ks|k a tf].
      + cbn [shapes_all]. exact (IH (S i)).
      + cbn [shapes_all].
        erewrite flat_map_ext.
        2:{ intros key. rewrite shapes_kind_cons_shape. unfold tt_. rewrite andb_true_r. reflexivity. }
        eapply Permutation_trans.
        * apply (flat_map_insert (k, a, mmul N M (parse_tf N tf)) k
                   (fun key => shapes_kind N tt_ key M p (S i) r)), NoDup_kinds_document.
        * rewrite all_kinds_document. cbn [app]. constructor. apply IH.
  Qed.

  Definition group_goal (n : node) : Prop :=
    match n with
    | Group tf kids => forall p M0,
        Permutation (dfs_rev tt_ tt_ (Group tf kids) p (mmul N M0 (parse_tf N tf)))
                    (flatten_ref N (Group tf kids) M0)
    | Shape _ _ _ => True
    end.

  Lemma dfs_rev_perm_ref : forall n, group_goal n.
  Proof.
    induction n as [k a tf|tf kids IHk] using node_ind'; [exact I|].
    intros p M0. rewrite dfs_rev_group. cbn [flatten_ref].
    rewrite (parse_tf_spec N OK tf).
    set (M' := mmul N M0 (tlist_spec N tf)).
    eapply Permutation_trans.
    { apply Permutation_app_tail. unfold shapes_of. apply shapes_of_perm. }
    generalize O.
    induction kids as [|c r IHr]; intros i.
    - cbn. constructor.
    - inversion IHk as [|? ? Hc Hr]; subst. specialize (IHr Hr).
      destruct c as [tfc ks|k a tfc].
      + cbn [shapes_all go_rev flat_map]. unfold tt_ at 1.
        rewrite app_assoc.
        eapply Permutation_trans; [|apply Permutation_app_comm].
        apply Permutation_app; [apply IHr|].
        apply Hc.
      + cbn [shapes_all go_rev flat_map flatten_ref]. rewrite app_nil_r.
        rewrite (parse_tf_spec N OK tfc). cbn [app]. constructor. apply IHr.
  Qed.

  Theorem stack_is_rec tf kids :
    Permutation (flatten_stack N (Group tf kids)) (flatten_ref N (Group tf kids) (mI N)).
  Proof.
    unfold flatten_stack. rewrite flatten_stack_f_dfs. cbn [tf_of].
    apply (dfs_rev_perm_ref (Group tf kids)).
  Qed.

  (* the exact order of Document.paths(): shapes of a group first, kind by
     kind in the order of the CONVERSIONS dict and in document order within
     a kind; then the child groups, LAST child first *)
  Theorem stack_order tf kids :
    flatten_stack N (Group tf kids)
    = dfs_rev tt_ tt_ (Group tf kids) [] (mmul N (mI N) (parse_tf N tf)).
  Proof. unfold flatten_stack. rewrite flatten_stack_f_dfs. reflexivity. Qed.

  (* within one group and one kind the document order is kept *)
  Lemma shapes_kind_all_filter key M p l : forall i,
      shapes_kind N tt_ key M p i l
      = filter (fun o : out => kind_eqb (fst (fst o)) key) (shapes_all M l).
  Proof.
    induction l as [|c r IH]; intros i; [reflexivity|].
    destruct c as [tfc ks|k a tf].
    - cbn [shapes_kind shapes_all]. apply IH.
    - rewrite shapes_kind_cons_shape. cbn [shapes_all filter fst]. unfold tt_ at 1.
      rewrite andb_true_r. destruct (kind_eqb k key); cbn [app]; rewrite IH; reflexivity.
  Qed.

  (* ---------------------------------------------------------------- *)
  (* composition along the ancestor chain                               *)
  Inductive occurs : node -> list (list (@titem K)) -> kind -> @attrs K -> Prop :=
  | occ_shape k a tf : occurs (Shape k a tf) [tf] k a
  | occ_group tf kids c tfs k a :
      In c kids -> occurs c tfs k a -> occurs (Group tf kids) (tf :: tfs) k a.

  Lemma ref_compose : forall n M0 k a M,
      In (k, a, M) (flatten_ref N n M0) <->
      exists tfs, occurs n tfs k a
                  /\ M = fold_left (fun A tf => mmul N A (tlist_spec N tf)) tfs M0.
  Proof.
    induction n as [k0 a0 tf|tf kids IHk] using node_ind'; intros M0 k a M.
    - cbn [flatten_ref In]. split.
      + intros [H|[]]. inversion H; subst. exists [tf]. split; [constructor|reflexivity].
      + intros (tfs & Ho & ->). inversion Ho; subst. left. reflexivity.
    - cbn [flatten_ref]. rewrite in_flat_map. split.
      + intros (c & Hin & Hc).
        rewrite Forall_forall in IHk. apply (IHk c Hin) in Hc.
        destruct Hc as (tfs & Ho & ->). exists (tf :: tfs). split.
        * econstructor; eauto.
        * reflexivity.
      + intros (tfs & Ho & ->). inversion Ho as [|? ? c tfs' ? ? Hin Hoc]; subst.
        exists c. split; [assumption|].
        rewrite Forall_forall in IHk. apply (IHk c Hin). eexists; split; eauto.
  Qed.

  (* ---------------------------------------------------------------- *)
  (* svg2paths: per-kind harvest                                        *)
  Lemma preorder_ref : forall (n : node) M,
      preorder n = map (fun o : out => (fst (fst o), snd (fst o))) (flatten_ref N n M).
  Proof.
    induction n as [k a tf|tf kids IHk] using node_ind'; intros M; [reflexivity|].
    cbn [preorder flatten_ref].
    generalize (mmul N M (tlist_spec N tf)) as M'. intros M'.
    induction kids as [|c r IHr]; [reflexivity|].
    inversion IHk; subst. cbn [flat_map]. rewrite map_app, <- IHr by assumption.
    f_equal. auto.
  Qed.

  Lemma harvest_perm_list (l : list (kind * @attrs K)) :
    Permutation (flat_map (fun key => filter (fun ka => kind_eqb (fst ka) key) l) kinds_svg2paths) l.
  Proof.
    induction l as [|[k a] r IH].
    - cbn. constructor.
    - erewrite flat_map_ext.
      2:{ intros key. cbn [filter fst].
          instantiate (1 := fun key => (if kind_eqb k key then [(k, a)] else [])
                                         ++ filter (fun ka => kind_eqb (fst ka) key) r).
          cbn beta. destruct (kind_eqb k key); reflexivity. }
      eapply Permutation_trans.
      + apply (flat_map_insert (k, a) k), NoDup_kinds_svg2paths.
      + rewrite all_kinds_svg2paths. cbn [app]. constructor. exact IH.
  Qed.

  Theorem harvest_perm (root : node) : Permutation (harvest root) (preorder root).
  Proof. apply harvest_perm_list. Qed.

  Lemma filter_filter_kind (l : list (kind * @attrs K)) k key :
    filter (fun ka => kind_eqb (fst ka) k) (filter (fun ka => kind_eqb (fst ka) key) l)
    = if kind_eqb k key then filter (fun ka => kind_eqb (fst ka) k) l else [].
  Proof.
    induction l as [|[k0 a] r IH]; cbn [filter fst].
    - destruct (kind_eqb k key); reflexivity.
    - destruct (kind_eqb k0 key) eqn:E1; cbn [filter fst].
      + destruct (kind_eqb k0 k) eqn:E2; rewrite IH.
        * destruct (kind_eqb k key) eqn:E3; [reflexivity|].
          apply kind_eqb_eq in E1, E2. subst. rewrite kind_eqb_refl in E3. discriminate.
        * destruct (kind_eqb k key); reflexivity.
      + rewrite IH. destruct (kind_eqb k key) eqn:E3; [|reflexivity].
        destruct (kind_eqb k0 k) eqn:E2; [|reflexivity].
        apply kind_eqb_eq in E2, E3. subst. rewrite kind_eqb_refl in E1. discriminate.
  Qed.

  (* per kind, svg2paths keeps the document order *)
  Theorem harvest_kind_order (root : node) k :
    filter (fun ka => kind_eqb (fst ka) k) (harvest root)
    = filter (fun ka => kind_eqb (fst ka) k) (preorder root).
  Proof.
    unfold harvest, kinds_svg2paths. cbn [flat_map].
    rewrite !filter_app, !filter_filter_kind. cbn [filter].
    destruct k; cbn [kind_eqb]; rewrite ?app_nil_r; reflexivity.
  Qed.

  (* ---------------------------------------------------------------- *)
  (* SAX: the event loop with its stack is the structural recursion      *)
  Lemma sax_loop_rec c : forall (n : node) rest stack m tree,
      sax_loop N c (sax_events n ++ rest) stack m tree
      = sax_loop N c rest stack m (tree ++ sax_rec N c n m).
  Proof.
    induction n as [k a tf|tf kids IHk] using node_ind'; intros rest stack m tree.
    - reflexivity.
    - cbn [sax_events sax_rec app sax_loop].
      set (m' := sax_matrix N c m tf).
      rewrite <- app_assoc.
      assert (Hk : forall tree0,
                 sax_loop N c (flat_map sax_events kids ++ [EEnd] ++ rest) (m :: stack) m' tree0
                 = sax_loop N c ([EEnd] ++ rest) (m :: stack) m'
                            (tree0 ++ flat_map (fun ch => sax_rec N c ch m') kids)).
      { induction kids as [|ch r IHr]; intros tree0.
        - cbn [flat_map app]. rewrite app_nil_r. reflexivity.
        - inversion IHk as [|? ? Hch Hr]; subst. cbn [flat_map]. rewrite <- app_assoc.
          rewrite Hch, IHr by assumption. rewrite app_assoc. reflexivity. }
      rewrite Hk. reflexivity.
  Qed.

  Theorem sax_tree_rec c (root : node) : sax_tree N c root = sax_rec N c root None.
  Proof.
    unfold sax_tree. rewrite <- (app_nil_r (sax_events root)), sax_loop_rec. reflexivity.
  Qed.

  (* SAX order is the document order *)
  Lemma sax_rec_preorder c : forall (n : node) m,
      map (fun o : @saxout K => (fst (fst o), snd (fst o))) (sax_rec N c n m) = preorder n.
  Proof.
    induction n as [k a tf|tf kids IHk] using node_ind'; intros m; [reflexivity|].
    cbn [sax_rec preorder]. generalize (sax_matrix N c m tf). intros m'.
    induction kids as [|ch r IHr]; [reflexivity|].
    inversion IHk; subst. cbn [flat_map]. rewrite map_app, IHr by assumption.
    f_equal. auto.
  Qed.

  (* repaired order (parent.dot(child)): the recorded matrices are the
     reference's, element by element, in the reference's order; an absent
     matrix stands for the identity *)
  Lemma sax_matrix_ref c m tf :
    f_sax_order c = true ->
    odefm N (sax_matrix N c m tf) = mmul N (odefm N m) (tlist_spec N tf).
  Proof.
    intros Hc. unfold sax_matrix. destruct tf as [|t tf'].
    - cbn [tlist_spec]. symmetry. apply (mmul_I_r N OK).
    - rewrite Hc. cbn [odefm]. rewrite (parse_tf_spec N OK). reflexivity.
  Qed.

  Lemma sax_rec_ref c : f_sax_order c = true -> forall (n : node) m,
      map (fun o : @saxout K => (fst (fst o), snd (fst o), odefm N (snd o))) (sax_rec N c n m)
      = flatten_ref N n (odefm N m).
  Proof.
    intros Hc.
    induction n as [k a tf|tf kids IHk] using node_ind'; intros m.
    - cbn [sax_rec flatten_ref map fst snd]. rewrite (sax_matrix_ref c m tf Hc). reflexivity.
    - cbn [sax_rec flatten_ref]. rewrite <- (sax_matrix_ref c m tf Hc).
      generalize (sax_matrix N c m tf). intros m'.
      induction kids as [|ch r IHr]; [reflexivity|].
      inversion IHk; subst. cbn [flat_map]. rewrite map_app, IHr by assumption.
      f_equal. auto.
  Qed.

  Theorem sax_tree_ref c (root : node) :
    f_sax_order c = true ->
    map (fun o : @saxout K => (fst (fst o), snd (fst o), odefm N (snd o))) (sax_tree N c root)
    = flatten_ref N root (mI N).
  Proof. intros Hc. rewrite sax_tree_rec. apply (sax_rec_ref c Hc root None). Qed.

  (* pinned line2pathd: a line element anywhere makes the SaxDocument constructor raise *)
  Lemma mapM_none_in {A B} (f : A -> option B) l x : In x l -> f x = None -> mapM f l = None.
  Proof.
    induction l as [|y r IH]; intros Hin Hx; [contradiction|].
    destruct Hin as [->|Hin]; cbn [mapM].
    - rewrite Hx. reflexivity.
    - rewrite (IH Hin Hx). destruct (f y); reflexivity.
  Qed.

  Theorem sax_line_raises c (root : node) a :
    f_sax_line c = false ->
    In (KLine, a) (preorder root) -> sax_parse N c root = None.
  Proof.
    intros Hc Hin. unfold sax_parse. rewrite sax_tree_rec.
    rewrite <- (sax_rec_preorder c root None) in Hin.
    apply in_map_iff in Hin. destruct Hin as ([[k a'] m] & E & Hin).
    cbn [fst snd] in E. inversion E; subst.
    eapply mapM_none_in; [exact Hin|]. cbn. unfold line2pathd. rewrite Hc. reflexivity.
  Qed.

  (* mapM after mapM *)
  Lemma mapM_mapM {A B C} (g : A -> option B) (f : B -> option C) l :
    match mapM g l with Some l' => mapM f l' | None => None end
    = mapM (fun x => match g x with Some y => f y | None => None end) l.
  Proof.
    induction l as [|x r IH]; [reflexivity|].
    cbn [mapM]. destruct (g x) as [y|].
    - destruct (mapM g r) as [ys|].
      + cbn [mapM]. rewrite IH. reflexivity.
      + rewrite <- IH. destruct (f y); reflexivity.
    - reflexivity.
  Qed.
  Lemma mapM_map {A B C} (h : B -> option C) (phi : A -> B) l :
    mapM h (map phi l) = mapM (fun x => h (phi x)) l.
  Proof. induction l as [|x r IH]; [reflexivity|]. cbn [map mapM]. rewrite IH. reflexivity. Qed.
  Lemma mapM_ext {A B} (f g : A -> option B) l : (forall x, f x = g x) -> mapM f l = mapM g l.
  Proof. intros H. induction l as [|x r IH]; [reflexivity|]. cbn [mapM]. rewrite H, IH. reflexivity. Qed.
End Flat.
