(* Proofs/LengthPath.v — Path.length is the sum of the segments' lengths. *)
From Coq Require Import ZArith List Bool Reals Lra Lia.
From Coquelicot Require Import Coquelicot.
From SVP Require Import Base.Num Base.Cplx Model.Length Proofs.LengthSpec.
Import ListNotations.
Local Open Scope R_scope.

Fixpoint Rsum (l : list R) : R := match l with [] => 0 | x :: r => x + Rsum r end.

Lemma fold_add_R l : forall acc, fold_left (add NumR) l acc = acc + Rsum l.
Proof. induction l as [|x r IH]; intros acc; cbn; [ring|]. rewrite IH. ring. Qed.
Lemma nsum_R l : nsum NumR l = Rsum l.
Proof. unfold nsum. rewrite fold_add_R. cbn. ring. Qed.

(* _calc_lengths: if every segment's length() is its arc length over [0,1],
   the path's length is the sum of the arc lengths *)
Theorem path_length_full_sum (gs : list C1curve) (lens : list R) :
  lens = map (fun g => curve_len g 0 1) gs ->
  path_length_full NumR lens = Rsum (map (fun g => curve_len g 0 1) gs).
Proof. intros ->. unfold path_length_full. apply nsum_R. Qed.

(* the T0,T1 branch (more than one segment): rest of segment i0, the whole
   segments in between, the beginning of segment i1 *)
Theorem path_length_sub_sum (seglen : nat -> R -> R -> R) (g : nat -> C1curve) nseg T0 T1 i0 t0 i1 t1 :
  (forall i a b, seglen i a b = curve_len (g i) a b) -> nseg <> 1%nat ->
  path_length_sub NumR seglen nseg T0 T1 i0 t0 i1 t1 =
  if Nat.eqb i0 i1 then curve_len (g i0) t0 t1
  else curve_len (g i0) t0 1
       + Rsum (map (fun i => curve_len (g i) 0 1) (seq (S i0) (i1 - S i0)))
       + curve_len (g i1) 0 t1.
Proof.
  intros Hs Hn. unfold path_length_sub.
  destruct (Nat.eqb_spec nseg 1); [contradiction|].
  destruct (Nat.eqb i0 i1); [apply Hs|].
  rewrite nsum_R, !Hs. cbn [add NumR one zero]. f_equal. f_equal. f_equal.
  apply map_ext. intros i. apply Hs.
Qed.
Theorem path_length_single (seglen : nat -> R -> R -> R) T0 T1 i0 t0 i1 t1 :
  path_length_sub NumR seglen 1 T0 T1 i0 t0 i1 t1 = seglen 0%nat T0 T1.
Proof. reflexivity. Qed.
