(* Proofs/SmoothProps.v — the statements of property C20 assembled from
   SmoothElbow / SmoothLoop / SmoothJointR in the form Props/C20.v cites,
   and a worked instance (a right-angle polyline corner) showing that the
   hypotheses of the path theorem are satisfiable. *)
From Coq Require Import ZArith List Bool Reals Lra Lia Psatz Field.
From SVP Require Import Base.Num Base.Cplx Base.FieldTac Model.Bezier Model.Smooth
     Proofs.BezierAlg Proofs.SmoothLoop Proofs.SmoothElbow Proofs.SmoothJointR.
Import ListNotations.
Open Scope R_scope.

(* ---------- elbows ---------- *)
Lemma elbow_ll_R q v w a tight :
  0 < a -> 0 < tight < 2 ->
  let b := b_ll NumR tight a in
  let E := elbow_ll NumR q v w a b in
  0 < b /\
  spoint NumR E 0 = csub NumR q (cscale NumR a v) /\
  spoint NumR E 1 = cadd NumR q (cscale NumR a w) /\
  sderiv1 NumR E 0 = cscale NumR b v /\
  sderiv1 NumR E 1 = cscale NumR b w.
Proof.
  intros Ha Ht b E. split; [unfold b; rewrite b_ll_R; nra|].
  split; [apply (elbow_ll_p0 NumR_ok)|]. split; [apply (elbow_ll_p1 NumR_ok)|].
  split; [apply (elbow_ll_d0 NumR_ok)|apply (elbow_ll_d1 NumR_ok)].
Qed.

Lemma elbow_lc_R q v w a tight :
  0 < a -> 0 < tight < 2 ->
  let b := b_lc NumR tight a in
  let E := elbow_lc NumR q v w a b in
  0 < b /\
  spoint NumR E 0 = csub NumR q (cscale NumR a v) /\
  spoint NumR E 1 = q /\
  sderiv1 NumR E 0 = cscale NumR b v /\
  sderiv1 NumR E 1 = cscale NumR b w.
Proof.
  intros Ha Ht b E. split; [unfold b; rewrite b_lc_R; nra|].
  split; [apply (elbow_lc_p0 NumR_ok)|]. split; [apply (elbow_lc_p1 NumR_ok)|].
  split; [apply (elbow_lc_d0 NumR_ok)|apply (elbow_lc_d1 NumR_ok)].
Qed.

(* spoint / sderiv1 of a cubic ARE Model/Bezier.v's point and derivative *)
Lemma seg_is_bezier {K} (N : Num K) s c1 c2 e t :
  spoint N (SCubic s c1 c2 e) t = cubic_point N s c1 c2 e t /\
  cubic_deriv N s c1 c2 e t 1 = Some (sderiv1 N (SCubic s c1 c2 e) t) /\
  spoint N (SLine s e) t = line_point N s e t /\
  line_deriv N s e t 1 = Some (sderiv1 N (SLine s e) t).
Proof. repeat split. Qed.

(* ---------- hull ---------- *)
Lemma hull_R q v w a mj tight t :
  cabsR v = 1 -> cabsR w = 1 -> 0 < a <= mj / 2 -> 0 < tight < 2 -> 0 <= t <= 1 ->
  cabsR (csub NumR (spoint NumR (elbow_ll NumR q v w a (b_ll NumR tight a)) t) q) <= a /\
  cabsR (csub NumR (spoint NumR (elbow_lc NumR q v w a (b_lc NumR tight a)) t) q) <= 4 / 3 * a /\
  4 / 3 * a <= 2 / 3 * mj /\ 2 / 3 * mj <= mj.
Proof.
  intros Hv Hw Ha Ht Htt.
  split; [apply elbow_ll_hull; auto; lra|]. split; [apply elbow_lc_hull; auto; lra|]. lra.
Qed.

(* ---------- trimmed lines ---------- *)
Lemma trim_ok_R s q e a :
  s <> q -> q <> e ->
  let L0 := cabsR (csub NumR q s) in let v := cunitR (csub NumR q s) in
  let L1 := cabsR (csub NumR e q) in let w := cunitR (csub NumR e q) in
  0 <= a -> a <= L0 / 20 -> a <= L1 / 20 ->
  let P := csub NumR q (cscale NumR a v) in
  let P' := cadd NumR q (cscale NumR a w) in
  (* non-degenerate, same direction, length L - a >= 19/20 L *)
  P <> s /\ cunitR (csub NumR P s) = v /\ cabsR (csub NumR P s) = L0 - a /\
  P' <> e /\ cunitR (csub NumR e P') = w /\ cabsR (csub NumR e P') = L1 - a /\
  (* sub-segments of the original lines *)
  (forall t, 0 <= t <= 1 ->
     0 <= t * (1 - a / L0) <= 1 /\ line_point NumR s P t = line_point NumR s q (t * (1 - a / L0))) /\
  (forall t, 0 <= t <= 1 ->
     0 <= a / L1 + t * (1 - a / L1) <= 1 /\
     line_point NumR P' e t = line_point NumR q e (a / L1 + t * (1 - a / L1))).
Proof.
  intros Hsq Hqe L0 v L1 w Ha H0 H1 P P'.
  destruct (@trim0_ok s q a Hsq) as (A1 & A2 & A3 & A4); [fold L0; lra|].
  destruct (@trim1_ok q e a Hqe) as (B1 & B2 & B3 & B4); [fold L1; lra|].
  repeat split; auto; try (apply A4; assumption); try (apply B4; assumption).
Qed.

(* ---------- single segment: returned unchanged, in every instance ---------- *)
Lemma smoothed_path_single {K} (N : Num K) (T : NumT K) sing_ut curve_length ilength cropped
      (p : seg K) mj tight ignore :
  smoothed_path N T sing_ut curve_length ilength cropped [p] mj tight ignore = SPOk [p].
Proof. reflexivity. Qed.

(* ---------- the two concrete path theorems ---------- *)
Section Paths.
  Variable sing_ut : segR -> R -> utres R.
  Variable curve_length : segR -> R.
  Variable ilength : segR -> R -> option R.
  Variable cropped : segR -> R -> R -> segR.
  Variables mj tight : R.
  Hypothesis Hmj : 0 < mj.
  Hypothesis Htight : 0 < tight < 2.
  Let T0 := tan0 NumR NumTR sing_ut.
  Let T1 := tan1 NumR NumTR sing_ut.

  (* polylines: unconditional (whatever the oracles) *)
  Theorem polyline_ok p0 p1 rest ignore :
    let path := p0 :: p1 :: rest in
    let pl := last path p0 in
    Forall ValidLine path ->
    chain (incont (@sstart R) (@send R)) path ->
    chain (inclass T0 T1 clsR) path ->
    (path_closed NumR path = true -> inclass T0 T1 clsR pl p0) ->
    PathOK sing_ut mj path p0 (SPATH sing_ut curve_length ilength cropped mj tight path ignore).
  Proof.
    apply smoothed_path_ok. apply JointOK_polyline; assumption.
  Qed.

  (* lines and regular cubics: under the contracts of the length / ilength /
     cropped oracles *)
  Theorem path_ok_under_contracts p0 p1 rest ignore :
    CCcontract curve_length ilength cropped ->
    let path := p0 :: p1 :: rest in
    let pl := last path p0 in
    Forall Regular path ->
    chain (incont (@sstart R) (@send R)) path ->
    chain (inclass T0 T1 clsR) path ->
    (path_closed NumR path = true -> inclass T0 T1 clsR pl p0) ->
    PathOK sing_ut mj path p0 (SPATH sing_ut curve_length ilength cropped mj tight path ignore).
  Proof.
    intros CC. apply smoothed_path_ok. apply JointOK_general; assumption.
  Qed.
End Paths.

(* ---------- a worked instance: the corner (0,0) -> (1,0) -> (1,1) ---------- *)
Lemma npow_two_R n : npow NumR (lit NumR 2) n = IZR (2 ^ Z.of_nat n).
Proof.
  induction n as [|n IH].
  - reflexivity.
  - cbn [npow]. rewrite IH, lit_R. cbn [mul NumR]. rewrite <- mult_IZR. f_equal.
    rewrite Nat2Z.inj_succ, Z.pow_succ_r by lia. reflexivity.
Qed.
Lemma dyadic_neg_R m p :
  dyadic NumR m (Zneg p) = IZR m / IZR (2 ^ Zpos p).
Proof.
  unfold dyadic. rewrite lit_R, npow_two_R. cbn [div NumR]. rewrite positive_nat_Z. reflexivity.
Qed.
Lemma dyadic_small m p :
  (0 < m)%Z -> (4 * m < 2 ^ Zpos p)%Z -> 0 < dyadic NumR m (Zneg p) < 1 / 4.
Proof.
  intros Hm H. rewrite dyadic_neg_R.
  assert (Hk : 0 < IZR (2 ^ Z.pos p)) by (apply IZR_lt; lia).
  assert (Hm' : 0 < IZR m) by (apply IZR_lt; lia).
  assert (H4 : 4 * IZR m < IZR (2 ^ Z.pos p)).
  { change 4 with (IZR 4). rewrite <- mult_IZR. apply IZR_lt. assumption. }
  split.
  - apply Rdiv_lt_0_compat; assumption.
  - apply Rmult_lt_reg_r with (IZR (2 ^ Z.pos p)); [assumption|].
    unfold Rdiv. rewrite Rmult_assoc, Rinv_l by lra. lra.
Qed.

Lemma tols_small :
  0 < rtol_default NumR < 1 / 4 /\ 0 < atol_default NumR < 1 / 4.
Proof.
  split; apply dyadic_small; vm_compute; reflexivity.
Qed.

(* two unit vectors at distance >= 1 are neither "close" nor "opposite-close" *)
Lemma isclose_far (u v : CR) :
  cabsR v = 1 -> 1 <= cabsR (csub NumR u v) -> isclose NumR NumTR u v = false.
Proof.
  intros Hv Hd. unfold isclose, isclose_gen.
  change (Rlt_b (cabsR (csub NumR u v)) (atol_default NumR + rtol_default NumR * cabsR v) = false).
  apply Rlt_b_false. rewrite Hv. destruct tols_small as [[_ H1] [_ H2]]. lra.
Qed.

Definition cornerA : segR := SLine (0, 0) (1, 0).
Definition cornerB : segR := SLine (1, 0) (1, 1).

Lemma sqrt_1' x : x = 1 -> sqrt x = 1.
Proof. intros ->. apply sqrt_1. Qed.

Lemma corner_regular : ValidLine cornerA /\ ValidLine cornerB.
Proof.
  split; split; try reflexivity; split; unfold d0, d1, cornerA, cornerB; cbn [sderiv1];
    unfold csub; simpl; intros E; injection E; lra.
Qed.

Lemma corner_cls_kink sing_ut :
  clsR (tan1 NumR NumTR sing_ut cornerA) (tan0 NumR NumTR sing_ut cornerB) = CKink.
Proof.
  destruct corner_regular as [[_ RA] [_ RB]].
  rewrite (@T1_regular sing_ut cornerA (proj2 RA)), (@T0_regular sing_ut cornerB (proj1 RB)).
  assert (EA : u1 cornerA = (1, 0)).
  { unfold u1, d1, cornerA. cbn [sderiv1]. rewrite cunitR_eq, cabsR_eq. unfold csub; simpl.
    rewrite (sqrt_1' ((1 - 0) * (1 - 0) + (0 - 0) * (0 - 0))) by ring. f_equal; field. }
  assert (EB : u0 cornerB = (0, 1)).
  { unfold u0, d0, cornerB. cbn [sderiv1]. rewrite cunitR_eq, cabsR_eq. unfold csub; simpl.
    rewrite (sqrt_1' ((1 - 1) * (1 - 1) + (1 - 0) * (1 - 0))) by ring. f_equal; field. }
  rewrite EA, EB. unfold clsR, cls_ut.
  assert (Hv : cabsR (0, 1) = 1) by (rewrite cabsR_eq; simpl; apply sqrt_1'; ring).
  assert (H2 : forall x, 1 <= x -> 1 <= sqrt x).
  { intros x Hx. rewrite <- sqrt_1. apply sqrt_le_1_alt. assumption. }
  rewrite isclose_far; auto.
  - rewrite isclose_far; auto.
    rewrite cabsR_eq. unfold csub, copp; simpl. apply H2. lra.
  - rewrite cabsR_eq. unfold csub; simpl. apply H2. lra.
Qed.

Lemma corner_is_kink sing_ut :
  inclass (tan0 NumR NumTR sing_ut) (tan1 NumR NumTR sing_ut) clsR cornerA cornerB.
Proof. right. apply corner_cls_kink. Qed.

Lemma corner_path_ok sing_ut curve_length ilength cropped :
  PathOK sing_ut 3 [cornerA; cornerB] cornerA
         (SPATH sing_ut curve_length ilength cropped 3 (199 / 100) [cornerA; cornerB] false).
Proof.
  apply polyline_ok; try lra.
  - destruct corner_regular. constructor; [assumption|constructor; [assumption|constructor]].
  - simpl. split; auto. reflexivity.
  - simpl. split; auto. apply corner_is_kink.
  - intros E. exfalso. unfold path_closed in E. simpl in E.
    unfold ceqb in E. simpl in E.
    assert (F : Req_b 0 1 = false) by (apply not_true_is_false; rewrite Req_b_true; lra).
    rewrite F in E. discriminate.
Qed.
