(* Proofs/CropArc.v — Arc.cropped / Arc.reversed / Arc.split over the reals:
   re-running _parameterize (arc_init) on (point(t0), stored radius, rotation,
   new large_arc flag, sweep, point(t1)) recovers the same ellipse (radii,
   centre) and the expected angles (delta exactly, theta modulo 360), hence
   the same curve under the affine parameter map. *)
From Coq Require Import ZArith List Bool Reals Lra Lia Psatz.
Set Warnings "-ambiguous-paths".
From SVP Require Import Base.Num Base.Cplx Model.Arc Proofs.ArcR Proofs.ArcDeriv Model.Crop Model.CropArc.
Import ListNotations.
Local Open Scope R_scope.

(* ------------------------------------------------------------------ *)
(* the point of eccentric angle [a] (DEGREES) on the ellipse with centre C,
   radii rx, ry and rotation [rotation] (degrees): exactly the expression of
   Arc.point *)
Definition ell_pt (C : Cplx R) (rx ry rotation a : R) : Cplx R :=
  (rx * cos (arc_phi NumTR rotation) * cos (a * PI / 180)
     - ry * sin (arc_phi NumTR rotation) * sin (a * PI / 180) + fst C,
   rx * sin (arc_phi NumTR rotation) * cos (a * PI / 180)
     + ry * cos (arc_phi NumTR rotation) * sin (a * PI / 180) + snd C).

Lemma ell_pt_ext C rx ry rotation a b : a = b -> ell_pt C rx ry rotation a = ell_pt C rx ry rotation b.
Proof. intros ->. reflexivity. Qed.

(* ------------------------------------------------------------------ *)
(* trigonometry in degrees *)
Lemma deg_split a d : (a + d) * PI / 180 = a * PI / 180 + d * PI / 180.
Proof. field. Qed.

Lemma deg_pos D : 0 < D -> 0 < D * PI / 180.
Proof. intros H. pose proof PI_RGT_0. nra. Qed.
Lemma deg_lt D E : D < E -> D * PI / 180 < E * PI / 180.
Proof. intros H. pose proof PI_RGT_0. nra. Qed.
Lemma deg_lt_PI D : D < 180 -> D * PI / 180 < PI.
Proof. intros H. pose proof PI_RGT_0. nra. Qed.
Lemma deg_gt_PI D : 180 < D -> PI < D * PI / 180.
Proof. intros H. pose proof PI_RGT_0. nra. Qed.
Lemma deg_lt_2PI D : D < 360 -> D * PI / 180 < 2 * PI.
Proof. intros H. pose proof PI_RGT_0. nra. Qed.
Lemma deg_neg D : (- D) * PI / 180 = - (D * PI / 180).  Proof. field. Qed.

Lemma cos_lt_1 x : 0 < x < 2 * PI -> cos x < 1.
Proof.
  intros H. replace x with (2 * (x / 2)) by field. rewrite cos_2a_sin.
  assert (0 < sin (x / 2)) by (apply sin_gt_0; lra). nra.
Qed.
Lemma cos_lt_1_abs x : 0 < Rabs x < 2 * PI -> cos x < 1.
Proof.
  intros H. unfold Rabs in H. destruct (Rcase_abs x).
  - rewrite <- cos_neg. apply cos_lt_1. lra.
  - apply cos_lt_1. lra.
Qed.
Lemma cos_deg_lt_1 D : 0 < Rabs D < 360 -> cos (D * PI / 180) < 1.
Proof.
  intros H. apply cos_lt_1_abs. pose proof PI_RGT_0.
  replace (D * PI / 180) with (D * (PI / 180)) by field.
  rewrite Rabs_mult, (Rabs_right (PI / 180)) by lra. nra.
Qed.

Lemma sin_shift_2PI x : sin (x + 2 * PI) = sin x.
Proof. rewrite sin_plus, cos_2PI, sin_2PI. ring. Qed.
Lemma cos_shift_2PI x : cos (x + 2 * PI) = cos x.
Proof. rewrite cos_plus, cos_2PI, sin_2PI. ring. Qed.
Lemma cos_2PI_minus x : cos (2 * PI - x) = cos x.
Proof. rewrite cos_minus, cos_2PI, sin_2PI. ring. Qed.

(* equal cosine and sine: equal up to a multiple of 360 degrees *)
Lemma cos_sin_eq_mod x y : cos x = cos y -> sin x = sin y -> exists k : Z, x = y + 2 * IZR k * PI.
Proof.
  intros Hc Hs.
  assert (H : cos (x - y) = 1).
  { rewrite cos_minus, Hc, Hs. pose proof (sin2_cos2 y) as E. unfold Rsqr in E. lra. }
  replace (x - y) with (2 * ((x - y) / 2)) in H by field. rewrite cos_2a_sin in H.
  assert (H0 : sin ((x - y) / 2) = 0) by nra.
  destruct (sin_eq_0_0 _ H0) as [k Hk]. exists k. lra.
Qed.

(* ------------------------------------------------------------------ *)
(* the algebra behind the recovered unit vectors: (c0,s0) the start direction,
   (cd,sd) = (cos D, sin D), (c1,s1) the end direction *)
Lemma crop_alg c0 s0 cd sd :
  c0 * c0 + s0 * s0 = 1 -> cd * cd + sd * sd = 1 -> cd <> 1 ->
  let c1 := c0 * cd - s0 * sd in let s1 := s0 * cd + c0 * sd in
  let a := (c0 - c1) / 2 in let b := (s0 - s1) / 2 in
  let w := sd / (1 - cd) in
  w * b = - ((c0 + c1) / 2) /\ w * a = (s0 + s1) / 2 /\ a * a + b * b = (1 - cd) / 2.
Proof.
  intros H0 Hd Hne c1 s1 a b w. unfold w, a, b, c1, s1. repeat split.
  - transitivity (- ((c0 + (c0 * cd - s0 * sd)) / 2) + c0 * (1 - (cd * cd + sd * sd)) / (2 * (1 - cd)));
      [field; lra|]. rewrite Hd. field. lra.
  - transitivity ((s0 + (s0 * cd + c0 * sd)) / 2 - s0 * (1 - (cd * cd + sd * sd)) / (2 * (1 - cd)));
      [field; lra|]. rewrite Hd. field. lra.
  - transitivity ((c0 * c0 + s0 * s0) * (1 + (cd * cd + sd * sd) - 2 * cd) / 4); [field|].
    rewrite H0, Hd. field.
Qed.

(* sg*radical is determined by its square and its sign *)
Lemma sg_radical m cd sd :
  cd * cd + sd * sd = 1 -> cd < 1 -> m * m = (1 + cd) / (1 - cd) ->
  (m <= 0 /\ sd <= 0) \/ (0 <= m /\ 0 <= sd) -> m = sd / (1 - cd).
Proof.
  intros Hd Hlt Hm Hs.
  set (w := sd / (1 - cd)).
  assert (Hw : w * w = (1 + cd) / (1 - cd)).
  { unfold w. transitivity ((1 - cd * cd) / ((1 - cd) * (1 - cd))).
    - replace (1 - cd * cd) with (sd * sd) by lra. field. lra.
    - field. lra. }
  assert (Hi : 0 < / (1 - cd)) by (apply Rinv_0_lt_compat; lra).
  assert (Hws : (w <= 0 /\ sd <= 0) \/ (0 <= w /\ 0 <= sd)).
  { unfold w, Rdiv. destruct (Rle_dec sd 0); [left|right]; split; nra. }
  assert (E : (m - w) * (m + w) = 0) by (ring_simplify; lra).
  apply Rmult_integral in E. destruct E as [E|E]; [lra|].
  destruct Hs as [[A B]|[A B]], Hws as [[A' B']|[A' B']]; try lra.
  - assert (sd = 0) by lra. assert (w = 0) by (unfold w; subst sd; field; lra). lra.
  - assert (sd = 0) by lra. assert (w = 0) by (unfold w; subst sd; field; lra). lra.
Qed.

(* ------------------------------------------------------------------ *)
(* delta: the code's  sign(det)*acos(dot)  followed by the +-360 adjustment
   recovers D when (dot, det) = (cos D, sin D) and the flags agree with D *)
Lemma acos_cos_deg D : 0 <= D <= 180 -> acos (cos (D * PI / 180)) * 180 / PI = D.
Proof.
  intros H. pose proof PI_RGT_0.
  rewrite acos_cos by (split; [nra|]; replace PI with (180 * PI / 180) at 2 by field; nra).
  field. lra.
Qed.

Lemma delta_recover (u1 u2 : Cplx R) D large sweep :
  arc_det NumR u1 u2 = sin (D * PI / 180) -> arc_dot NumR u1 u2 = cos (D * PI / 180) ->
  0 < Rabs D < 360 -> (sweep = true <-> 0 < D) ->
  (180 < Rabs D -> large = true) -> (Rabs D < 180 -> large = false) ->
  arc_adjust NumR large sweep (arc_delta0 NumR NumTR u1 u2) = D.
Proof.
  intros Hdet Hdot HD Hsw Hl1 Hl2. pose proof PI_RGT_0 as Hpi.
  unfold arc_delta0. rewrite Hdet, Hdot. change (zero NumR) with 0.
  rewrite clip1_R_0, clip1_R_id by (pose proof (COS_bound (D * PI / 180)); lra).
  cbn [add NumR]. rewrite Rplus_0_r.
  set (d := D * PI / 180).
  unfold arc_adjust. rsimp.
  destruct (Rlt_dec 0 D) as [Hpos|Hneg].
  - (* sweep *)
    assert (sweep = true) as -> by (apply Hsw; exact Hpos). cbn [negb andb].
    rewrite Rabs_right in HD, Hl1, Hl2 by lra.
    destruct (Rtotal_order D 180) as [Hlt|[Heq|Hgt]].
    + (* 0 < D < 180 *)
      rewrite (Hl2 Hlt). cbn [andb].
      assert (0 < sin d).
      { apply sin_gt_0; unfold d; [apply deg_pos; lra|apply deg_lt_PI; lra]. }
      rewrite Rlt_b_t by assumption. unfold d. apply acos_cos_deg. lra.
    + (* D = 180 *)
      assert (d = PI) as -> by (unfold d; rewrite Heq; field).
      rewrite sin_PI, cos_PI. rewrite !(Rlt_b_f 0 0), (Rlt_b_f 0 (-1)) by lra.
      rewrite (Rle_b_f 180 0) by lra. rewrite andb_false_r. lra.
    + (* 180 < D < 360 *)
      rewrite (Hl1 Hgt). cbn [andb].
      assert (sin d < 0).
      { apply sin_lt_0; unfold d; [apply deg_gt_PI; lra|apply deg_lt_2PI; lra]. }
      rewrite (Rlt_b_f 0 (sin d)) by lra. rewrite Rlt_b_t by assumption.
      assert (E : acos (cos d) * 180 / PI = 360 - D).
      { rewrite <- (cos_2PI_minus d).
        replace (2 * PI - d) with ((360 - D) * PI / 180) by (unfold d; field).
        apply acos_cos_deg. lra. }
      rewrite E. rewrite Rle_b_t by lra. lra.
  - (* not sweep *)
    assert (sweep = false) as ->.
    { destruct sweep; [|reflexivity]. exfalso. apply Hneg. apply Hsw. reflexivity. }
    cbn [negb andb].
    assert (HD0 : D < 0).
    { destruct (Req_dec D 0) as [->|]; [rewrite Rabs_R0 in HD; lra|lra]. }
    rewrite Rabs_left in HD, Hl1, Hl2 by lra.
    destruct (Rtotal_order (-180) D) as [Hlt|[Heq|Hgt]].
    + (* -180 < D < 0 *)
      assert (Hl : large = false) by (apply Hl2; lra). rewrite Hl. cbn [andb].
      assert (0 < sin (- d)).
      { unfold d. rewrite <- deg_neg. apply sin_gt_0; [apply deg_pos; lra|apply deg_lt_PI; lra]. }
      rewrite sin_neg in H.
      rewrite (Rlt_b_f 0 (sin d)) by lra. rewrite Rlt_b_t by lra.
      assert (E : acos (cos d) * 180 / PI = - D).
      { rewrite <- (cos_neg d). unfold d. rewrite <- deg_neg. apply acos_cos_deg. lra. }
      rewrite E. rewrite Rle_b_f by lra. lra.
    + (* D = -180 *)
      assert (d = - PI) as -> by (unfold d; rewrite <- Heq; field).
      rewrite sin_neg, cos_neg, sin_PI, cos_PI. rewrite Ropp_0.
      rewrite !(Rlt_b_f 0 0), (Rlt_b_f 0 (-1)) by lra.
      rewrite (Rle_b_t 0 180) by lra. lra.
    + (* -360 < D < -180 *)
      assert (0 < sin d).
      { rewrite <- sin_shift_2PI.
        replace (d + 2 * PI) with ((D + 360) * PI / 180) by (unfold d; field).
        apply sin_gt_0; [apply deg_pos; lra|apply deg_lt_PI; lra]. }
      rewrite Rlt_b_t by assumption.
      assert (E : acos (cos d) * 180 / PI = D + 360).
      { rewrite <- (cos_shift_2PI d).
        replace (d + 2 * PI) with ((D + 360) * PI / 180) by (unfold d; field).
        apply acos_cos_deg. lra. }
      rewrite E. rewrite Rle_b_t by lra. lra.
Qed.

(* ------------------------------------------------------------------ *)
(* Req_b / ceqb facts for the constructor's asserts *)
Lemma ceqb_R_false (a b : Cplx R) : a <> b -> ceqb NumR a b = false.
Proof.
  intros H. destruct a as [a1 a2], b as [b1 b2]. unfold ceqb. cunfold. cbn [eqb NumR].
  unfold Req_b. destruct (Req_EM_T a1 b1) as [E1|E1]; [|reflexivity].
  destruct (Req_EM_T a2 b2) as [E2|E2]; [|reflexivity].
  exfalso. apply H. subst. reflexivity.
Qed.
Lemma Req_b_f x y : x <> y -> Req_b x y = false.
Proof. intros H. unfold Req_b. destruct (Req_EM_T x y); [contradiction|reflexivity]. Qed.
Lemma arc_admissible_R s r e : s <> e -> fst r <> 0 -> snd r <> 0 -> arc_admissible NumR s r e = true.
Proof.
  intros H Hx Hy. unfold arc_admissible. rewrite ceqb_R_false by assumption.
  cunfold. cbn [eqb NumR zero]. rewrite !Req_b_f by assumption. reflexivity.
Qed.

(* ------------------------------------------------------------------ *)
(* THE CORE LEMMA: _parameterize applied to two points of a known ellipse *)
Section CropCore.
  Variable C : Cplx R.
  Variables rx ry rotation A0 D : R.
  Variables large' sweep' : bool.
  (* variant of the radical rule (Model/Arc.v): false = pinned code with the
     np.isclose snap (arc_init), true = repaired rule (snap_inactive is True) *)
  Variable fx : bool.
  Hypothesis Hrx : 0 < rx.
  Hypothesis Hry : 0 < ry.
  Hypothesis H1 : 0 < Rabs D < 360.
  Hypothesis H2 : sweep' = true <-> 0 < D.
  Hypothesis H3 : (180 < Rabs D -> large' = true) /\ (Rabs D < 180 -> large' = false).

  Let phi := arc_phi NumTR rotation.
  Let s := ell_pt C rx ry rotation A0.
  Let e := ell_pt C rx ry rotation (A0 + D).
  Let Q := arc_init_v NumR NumTR fx s (rx, ry) rotation large' sweep' e.

  Let c0 := cos (A0 * PI / 180).
  Let s0 := sin (A0 * PI / 180).
  Let cd := cos (D * PI / 180).
  Let sd := sin (D * PI / 180).
  Let c1 := c0 * cd - s0 * sd.
  Let s1 := s0 * cd + c0 * sd.
  Let a := (c0 - c1) / 2.
  Let b := (s0 - s1) / 2.

  Lemma cc_unit0 : c0 * c0 + s0 * s0 = 1.
  Proof. pose proof (sin2_cos2 (A0 * PI / 180)) as H. unfold Rsqr in H. unfold c0, s0. lra. Qed.
  Lemma cc_unitd : cd * cd + sd * sd = 1.
  Proof. pose proof (sin2_cos2 (D * PI / 180)) as H. unfold Rsqr in H. unfold cd, sd. lra. Qed.
  Lemma cc_cd_lt1 : cd < 1.
  Proof. apply cos_deg_lt_1. exact H1. Qed.
  Lemma cc_cd_ge : -1 <= cd.
  Proof. apply COS_bound. Qed.
  Lemma cc_c1 : cos ((A0 + D) * PI / 180) = c1.
  Proof. rewrite deg_split, cos_plus. reflexivity. Qed.
  Lemma cc_s1 : sin ((A0 + D) * PI / 180) = s1.
  Proof. rewrite deg_split, sin_plus. unfold s1, s0, c0, cd, sd. ring. Qed.
  Lemma cc_unit1 : c1 * c1 + s1 * s1 = 1.
  Proof. rewrite <- cc_c1, <- cc_s1. pose proof (sin2_cos2 ((A0 + D) * PI / 180)) as H. unfold Rsqr in H. lra. Qed.

  Lemma cc_s_eq : s = (rx * cos phi * c0 - ry * sin phi * s0 + fst C,
                       rx * sin phi * c0 + ry * cos phi * s0 + snd C).
  Proof. reflexivity. Qed.
  Lemma cc_e_eq : e = (rx * cos phi * c1 - ry * sin phi * s1 + fst C,
                       rx * sin phi * c1 + ry * cos phi * s1 + snd C).
  Proof. unfold e, ell_pt. rewrite cc_c1, cc_s1. reflexivity. Qed.

  Lemma cc_alg : (sd / (1 - cd)) * b = - ((c0 + c1) / 2) /\ (sd / (1 - cd)) * a = (s0 + s1) / 2
                 /\ a * a + b * b = (1 - cd) / 2.
  Proof.
    pose proof cc_cd_lt1.
    apply (crop_alg c0 s0 cd sd cc_unit0 cc_unitd). lra.
  Qed.

  (* zp1 = (rx*(c0-c1)/2, ry*(s0-s1)/2) *)
  Lemma cc_z : arc_zp1_of NumR NumTR s rotation e = (rx * a, ry * b).
  Proof.
    rewrite z_eq. rewrite cc_e_eq, cc_s_eq. cbn [fst snd]. fold phi.
    pose proof (rotm_unit rotation) as Hu. fold phi in Hu.
    apply cplx_eq; cbn [fst snd]; unfold a, b.
    - transitivity ((cos phi * cos phi + sin phi * sin phi) * rx * (c0 - c1) / 2); [field|].
      rewrite Hu. field.
    - transitivity ((cos phi * cos phi + sin phi * sin phi) * ry * (s0 - s1) / 2); [field|].
      rewrite Hu. field.
  Qed.

  Lemma cc_ab_pos : 0 < a * a + b * b.
  Proof. destruct cc_alg as [_ [_ ->]]. pose proof cc_cd_lt1. lra. Qed.

  (* conclusion 1: the two points differ *)
  Lemma cc_s_ne_e : s <> e.
  Proof.
    intros E. pose proof (z_eq s e rotation) as Hz. rewrite cc_z in Hz.
    rewrite E in Hz. injection Hz as Ha Hb.
    assert (a = 0) by nra. assert (b = 0) by nra.
    pose proof cc_ab_pos. nra.
  Qed.

  Lemma cc_rx0 : fst (rx, ry) <> 0.  Proof. cbn. lra. Qed.
  Lemma cc_ry0 : snd (rx, ry) <> 0.  Proof. cbn. lra. Qed.

  Lemma cc_abs : abs_radius NumR (rx, ry) = (rx, ry).
  Proof. rewrite r0_eq. cbn [fst snd]. rewrite !Rabs_right by lra. reflexivity. Qed.

  (* radius_check = (1 - cos D)/2 <= 1 : no rescaling *)
  Lemma cc_rc : arc_rc_of NumR NumTR s (rx, ry) rotation e = (1 - cd) / 2.
  Proof.
    unfold arc_rc_of. rewrite cc_abs, cc_z. unfold arc_rc. rsimp.
    destruct cc_alg as [_ [_ <-]]. field. lra.
  Qed.
  Lemma cc_rS : arc_radius_of NumR NumTR s (rx, ry) rotation e = (rx, ry).
  Proof.
    unfold arc_radius_of, arc_scaled_radius. rewrite cc_rc, cc_abs.
    cbn [ltb NumR one]. rewrite Rlt_b_f by (pose proof cc_cd_ge; lra). reflexivity.
  Qed.

  (* the radicand depends on D only *)
  Lemma cc_radicand : arc_radicand_of NumR NumTR s (rx, ry) rotation e = (1 + cd) / (1 - cd).
  Proof.
    unfold arc_radicand_of. rewrite cc_rS, cc_z. unfold arc_radicand. rsimp.
    pose proof cc_ab_pos as Hp. pose proof cc_cd_lt1.
    replace (rx * rx * (ry * b * (ry * b)) + ry * ry * (rx * a * (rx * a)))
      with (rx * rx * (ry * ry) * (a * a + b * b)) by ring.
    destruct cc_alg as [_ [_ E]]. rewrite E in *. field. repeat split; lra.
  Qed.

  (* the sign of sin D against the flags *)
  Lemma cc_sd_sign : if Bool.eqb large' sweep' then sd <= 0 else 0 <= sd.
  Proof.
    destruct H3 as [Hl1 Hl2]. unfold sd.
    destruct (Rlt_dec 0 D) as [Hpos|Hneg].
    - assert (sweep' = true) as -> by (apply H2; exact Hpos).
      rewrite Rabs_right in H1, Hl1, Hl2 by lra.
      destruct (Rtotal_order D 180) as [Hlt|[Heq|Hgt]].
      + rewrite (Hl2 Hlt). cbn. apply Rlt_le, sin_gt_0; [apply deg_pos; lra|apply deg_lt_PI; lra].
      + replace (D * PI / 180) with PI by (rewrite Heq; field). rewrite sin_PI.
        destruct (Bool.eqb large' true); lra.
      + rewrite (Hl1 Hgt). cbn. apply Rlt_le, sin_lt_0; [apply deg_gt_PI; lra|apply deg_lt_2PI; lra].
    - assert (sweep' = false) as ->.
      { destruct sweep'; [|reflexivity]. exfalso. apply Hneg. apply H2. reflexivity. }
      assert (HD0 : D < 0).
      { destruct (Req_dec D 0) as [E|]; [rewrite E, Rabs_R0 in H1; lra|lra]. }
      rewrite Rabs_left in H1, Hl1, Hl2 by lra.
      destruct (Rtotal_order (-180) D) as [Hlt|[Heq|Hgt]].
      + assert (Hl : large' = false) by (apply Hl2; lra). rewrite Hl. cbn.
        assert (0 < sin (- (D * PI / 180))).
        { rewrite <- deg_neg. apply sin_gt_0; [apply deg_pos; lra|apply deg_lt_PI; lra]. }
        rewrite sin_neg in H. lra.
      + replace (D * PI / 180) with (- PI) by (rewrite <- Heq; field). rewrite sin_neg, sin_PI.
        destruct (Bool.eqb large' false); lra.
      + assert (Hl : large' = true) by (apply Hl1; lra). rewrite Hl. cbn.
        rewrite <- sin_shift_2PI.
        replace (D * PI / 180 + 2 * PI) with ((D + 360) * PI / 180) by field.
        apply Rlt_le, sin_gt_0; [apply deg_pos; lra|apply deg_lt_PI; lra].
  Qed.

  (* ---- from here on: the np.isclose snap does not act ---- *)
  Hypothesis Hsnap : snap_inactive s (rx, ry) e rotation fx.

  Let k := arc_radical_of NumR NumTR fx s (rx, ry) rotation e.
  Let m := (if Bool.eqb large' sweep' then -1 else 1) * k.

  Lemma cc_m : m = sd / (1 - cd).
  Proof.
    pose proof (radical_sq s (rx, ry) e rotation fx cc_s_ne_e cc_rx0 cc_ry0 Hsnap) as Hk.
    pose proof (radical_ge0 s (rx, ry) e rotation fx cc_s_ne_e cc_rx0 cc_ry0) as Hk0.
    fold k in Hk, Hk0. rewrite cc_radicand in Hk.
    pose proof cc_sd_sign as Hs.
    apply sg_radical; [apply cc_unitd|apply cc_cd_lt1| |]; unfold m;
      destruct (Bool.eqb large' sweep').
    - rewrite <- Hk. ring.
    - rewrite <- Hk. ring.
    - left. split; lra.
    - right. split; lra.
  Qed.

  Lemma cc_cp : arc_cp_of NumR NumTR fx s (rx, ry) rotation large' sweep' e
                = (- (rx * ((c0 + c1) / 2)), - (ry * ((s0 + s1) / 2))).
  Proof.
    assert (E : arc_cp_of NumR NumTR fx s (rx, ry) rotation large' sweep' e = (rx * (m * b), - (ry * (m * a)))).
    { unfold arc_cp_of. rewrite cc_rS, cc_z. fold k. unfold arc_cp, m.
      destruct (Bool.eqb large' sweep'); rsimp; apply cplx_eq; cbn [fst snd]; field; lra. }
    rewrite E, cc_m. destruct cc_alg as [-> [-> _]]. apply cplx_eq; cbn [fst snd]; ring.
  Qed.

  Lemma cc_u1 : arc_u1_of NumR NumTR fx s (rx, ry) rotation large' sweep' e = (c0, s0).
  Proof.
    rewrite (u1_noclip s (rx, ry) e rotation large' sweep' fx cc_s_ne_e cc_rx0 cc_ry0).
    rewrite cc_rS, cc_z, cc_cp. unfold arc_u1_raw. rsimp.
    apply cplx_eq; cbn [fst snd]; unfold a, b; field; lra.
  Qed.
  Lemma cc_u2 : arc_u2_of NumR NumTR fx s (rx, ry) rotation large' sweep' e = (c1, s1).
  Proof.
    rewrite (u2_noclip s (rx, ry) e rotation large' sweep' fx cc_s_ne_e cc_rx0 cc_ry0).
    rewrite cc_rS, cc_z, cc_cp. unfold arc_u2_raw. rsimp.
    apply cplx_eq; cbn [fst snd]; unfold a, b; field; lra.
  Qed.

  (* conclusion 2: stored radius unchanged *)
  Lemma cc_radius : a_radius Q = (rx, ry).
  Proof. exact cc_rS. Qed.

  (* conclusion 3: same centre *)
  Lemma cc_center : a_center Q = C.
  Proof.
    change (a_center Q) with
      (arc_center NumR (arc_rotm_of NumTR rotation)
         (arc_cp_of NumR NumTR fx s (rx, ry) rotation large' sweep' e) s e).
    rewrite center_eq, cc_cp. rewrite cc_e_eq, cc_s_eq. fold phi. cbn [fst snd].
    apply cplx_eq; cbn [fst snd]; field.
  Qed.

  (* conclusion 4: delta = D *)
  Lemma cc_delta : a_delta Q = D.
  Proof.
    change (a_delta Q) with
      (arc_adjust NumR large' sweep'
         (arc_delta0 NumR NumTR (arc_u1_of NumR NumTR fx s (rx, ry) rotation large' sweep' e)
                                (arc_u2_of NumR NumTR fx s (rx, ry) rotation large' sweep' e))).
    rewrite cc_u1, cc_u2. destruct H3 as [Hl1 Hl2].
    apply delta_recover; auto.
    - unfold arc_det. rsimp. fold sd. unfold c1, s1.
      transitivity ((c0 * c0 + s0 * s0) * sd); [ring|]. rewrite cc_unit0. ring.
    - unfold arc_dot. rsimp. fold cd. unfold c1, s1.
      transitivity ((c0 * c0 + s0 * s0) * cd); [ring|]. rewrite cc_unit0. ring.
  Qed.

  (* conclusion 5: theta = A0 modulo 360 *)
  Lemma cc_theta : cos (a_theta Q * PI / 180) = cos (A0 * PI / 180)
                /\ sin (a_theta Q * PI / 180) = sin (A0 * PI / 180).
  Proof.
    change (a_theta Q) with
      (arc_theta NumR NumTR (arc_u1_of NumR NumTR fx s (rx, ry) rotation large' sweep' e)).
    rewrite theta_ang, cc_u1. cbn [fst snd]. apply ang_cos_sin. apply cc_unit0.
  Qed.
  Lemma cc_theta_mod : exists j : Z, a_theta Q = A0 + 360 * IZR j.
  Proof.
    destruct cc_theta as [Hc Hs]. destruct (cos_sin_eq_mod _ _ Hc Hs) as [j Hj].
    exists j. pose proof PI_RGT_0 as Hpi.
    apply Rmult_eq_reg_r with (PI / 180); [|lra].
    transitivity (a_theta Q * PI / 180); [field|]. rewrite Hj. field.
  Qed.

  (* conclusion 6: the same curve, re-parameterised *)
  Lemma cc_point u : arc_point NumR NumTR Q u = ell_pt C rx ry rotation (A0 + u * D).
  Proof.
    unfold Q. rewrite arc_point_eq. fold Q.
    change (arc_center NumR (arc_rotm_of NumTR rotation)
              (arc_cp_of NumR NumTR fx s (rx, ry) rotation large' sweep' e) s e) with (a_center Q).
    rewrite cc_rS, cc_center, cc_delta. cbn [fst snd].
    destruct cc_theta as [Hc Hs].
    assert (Ec : cos ((a_theta Q + u * D) * PI / 180) = cos ((A0 + u * D) * PI / 180)).
    { rewrite !deg_split, !cos_plus, Hc, Hs. reflexivity. }
    assert (Es : sin ((a_theta Q + u * D) * PI / 180) = sin ((A0 + u * D) * PI / 180)).
    { rewrite !deg_split, !sin_plus, Hc, Hs. reflexivity. }
    rewrite Ec, Es. reflexivity.
  Qed.
End CropCore.

(* the core lemma in one statement, for either variant of the radical rule *)
Theorem arc_reinit_v fx C rx ry rotation A0 D large' sweep' :
  0 < rx -> 0 < ry -> 0 < Rabs D < 360 -> (sweep' = true <-> 0 < D) ->
  (180 < Rabs D -> large' = true) /\ (Rabs D < 180 -> large' = false) ->
  let s := ell_pt C rx ry rotation A0 in
  let e := ell_pt C rx ry rotation (A0 + D) in
  snap_inactive s (rx, ry) e rotation fx ->
  let Q := arc_init_v NumR NumTR fx s (rx, ry) rotation large' sweep' e in
  s <> e /\ a_radius Q = (rx, ry) /\ a_center Q = C /\ a_delta Q = D /\
  (cos (a_theta Q * PI / 180) = cos (A0 * PI / 180) /\
   sin (a_theta Q * PI / 180) = sin (A0 * PI / 180)) /\
  (exists j : Z, a_theta Q = A0 + 360 * IZR j) /\
  (forall u, arc_point NumR NumTR Q u = ell_pt C rx ry rotation (A0 + u * D)).
Proof.
  intros Hrx Hry H1 H2 H3 s e Hsnap Q. unfold Q, s, e in *.
  split; [apply cc_s_ne_e; assumption|].
  split; [apply cc_radius; assumption|].
  split; [apply cc_center; assumption|].
  split; [apply cc_delta; assumption|].
  split; [apply cc_theta; assumption|].
  split; [apply cc_theta_mod; assumption|].
  intros u. apply cc_point; assumption.
Qed.

(* ... and for the code as pinned: arc_init = arc_init_v false *)
Theorem arc_reinit C rx ry rotation A0 D large' sweep' :
  0 < rx -> 0 < ry -> 0 < Rabs D < 360 -> (sweep' = true <-> 0 < D) ->
  (180 < Rabs D -> large' = true) /\ (Rabs D < 180 -> large' = false) ->
  let s := ell_pt C rx ry rotation A0 in
  let e := ell_pt C rx ry rotation (A0 + D) in
  snap_inactive s (rx, ry) e rotation false ->
  let Q := arc_init NumR NumTR s (rx, ry) rotation large' sweep' e in
  s <> e /\ a_radius Q = (rx, ry) /\ a_center Q = C /\ a_delta Q = D /\
  (cos (a_theta Q * PI / 180) = cos (A0 * PI / 180) /\
   sin (a_theta Q * PI / 180) = sin (A0 * PI / 180)) /\
  (exists j : Z, a_theta Q = A0 + 360 * IZR j) /\
  (forall u, arc_point NumR NumTR Q u = ell_pt C rx ry rotation (A0 + u * D)).
Proof. exact (arc_reinit_v false C rx ry rotation A0 D large' sweep'). Qed.

(* the radicand _parameterize sees depends on the angular extent only; a
   sufficient (and over R exact) criterion for the snap to be inactive *)
Lemma crop_radicand C rx ry rotation A0 D : 0 < rx -> 0 < ry -> 0 < Rabs D < 360 ->
  arc_radicand_of NumR NumTR (ell_pt C rx ry rotation A0) (rx, ry) rotation (ell_pt C rx ry rotation (A0 + D))
  = (1 + cos (D * PI / 180)) / (1 - cos (D * PI / 180)).
Proof. apply cc_radicand. Qed.

Lemma crop_snap_inactive C rx ry rotation A0 D : 0 < rx -> 0 < ry -> 0 < Rabs D < 360 ->
  (cos (D * PI / 180) = -1 \/
   atol8 NumR < (1 + cos (D * PI / 180)) / (1 - cos (D * PI / 180))) ->
  snap_inactive (ell_pt C rx ry rotation A0) (rx, ry) (ell_pt C rx ry rotation (A0 + D)) rotation false.
Proof.
  intros Hrx Hry H1 H. unfold snap_inactive. rewrite crop_radicand by assumption.
  destruct H as [->|H]; intros Hc.
  - field.
  - exfalso. apply isclose0_R in Hc. pose proof atol8_R_pos.
    rewrite Rabs_right in Hc by lra. lra.
Qed.

(* ------------------------------------------------------------------ *)
(* well-formed Arc objects: what __init__/_parameterize guarantees *)
Definition arc_wf (P : ArcP R) : Prop :=
  a_rot P = arc_rotm_of NumTR (a_rotation P) /\ a_phi P = arc_phi NumTR (a_rotation P) /\
  0 < fst (a_radius P) /\ 0 < snd (a_radius P) /\ a_delta P <> 0 /\
  (0 < a_delta P <-> a_sweep P = true) /\ Rabs (a_delta P) <= 360.

Lemma arc_init_wf start radius rotation large sweep end_ :
  start <> end_ -> fst radius <> 0 -> snd radius <> 0 ->
  arc_wf (arc_init NumR NumTR start radius rotation large sweep end_).
Proof.
  intros Hse Hx Hy. unfold arc_wf, arc_init.
  destruct (rS_pos start radius end_ rotation Hx Hy) as [A B].
  destruct (arc_sweep_sign start radius end_ rotation large sweep false Hse Hx Hy) as [S1 S2].
  pose proof (arc_delta_range start radius end_ rotation large sweep false Hse Hx Hy) as Hr.
  repeat split; try assumption; try reflexivity; apply S2.
Qed.

Lemma arc_point_wf (P : ArcP R) t : arc_wf P ->
  arc_point NumR NumTR P t
  = ell_pt (a_center P) (fst (a_radius P)) (snd (a_radius P)) (a_rotation P) (a_theta P + t * a_delta P).
Proof.
  intros (Hrot & _). unfold arc_point. rewrite Hrot. unfold arc_rotm_of, arc_rotm, ell_pt.
  rsimp. reflexivity.
Qed.

Lemma crop_large_R (P : ArcP R) t0 t1 :
  arc_crop_large NumR P t0 t1 = negb (Rle_b (Rabs ((t1 - t0) * a_delta P)) 180).
Proof.
  unfold arc_crop_large. rewrite nabs_R, d180_R. cbn [leb mul sub NumR].
  replace (a_delta P * (t1 - t0)) with ((t1 - t0) * a_delta P) by ring. reflexivity.
Qed.

(* the snap is inactive for a crop as soon as the extent D = (t1-t0)*delta is
   exactly a half turn or its radicand exceeds 1e-8 *)
Lemma arc_crop_snap_ok (P : ArcP R) t0 t1 :
  arc_wf P -> t0 < t1 -> Rabs ((t1 - t0) * a_delta P) < 360 ->
  (cos ((t1 - t0) * a_delta P * PI / 180) = -1 \/
   atol8 NumR < (1 + cos ((t1 - t0) * a_delta P * PI / 180)) / (1 - cos ((t1 - t0) * a_delta P * PI / 180))) ->
  snap_inactive (arc_point NumR NumTR P t0) (a_radius P) (arc_point NumR NumTR P t1) (a_rotation P) false.
Proof.
  intros Hwf Ht HD Hc. rewrite !arc_point_wf by assumption.
  destruct Hwf as (_ & _ & Hrx & Hry & Hd0 & _ & _).
  rewrite (surjective_pairing (a_radius P)) at 2.
  replace (a_theta P + t1 * a_delta P) with (a_theta P + t0 * a_delta P + (t1 - t0) * a_delta P) by ring.
  apply crop_snap_inactive; auto. split; [|assumption].
  apply Rabs_pos_lt. intros E. apply Rmult_integral in E. destruct E; lra.
Qed.

(* ------------------------------------------------------------------ *)
(* (1) Arc.cropped *)
Theorem arc_cropped_reparam (P : ArcP R) t0 t1 :
  arc_wf P -> t0 < t1 -> Rabs ((t1 - t0) * a_delta P) < 360 ->
  snap_inactive (arc_point NumR NumTR P t0) (a_radius P) (arc_point NumR NumTR P t1) (a_rotation P) false ->
  let Q := arc_of_args NumR NumTR false (arc_cropped_args NumR NumTR P t0 t1) in
  arc_cropped NumR NumTR false P t0 t1 = Ok Q /\
  a_center Q = a_center P /\ a_radius Q = a_radius P /\
  a_delta Q = (t1 - t0) * a_delta P /\
  (cos (a_theta Q * PI / 180) = cos ((a_theta P + t0 * a_delta P) * PI / 180) /\
   sin (a_theta Q * PI / 180) = sin ((a_theta P + t0 * a_delta P) * PI / 180)) /\
  (exists j : Z, a_theta Q = a_theta P + t0 * a_delta P + 360 * IZR j) /\
  (forall u, arc_point NumR NumTR Q u = arc_point NumR NumTR P (t0 + u * (t1 - t0))).
Proof.
  intros Hwf Ht HD Hsnap Q.
  pose proof (fun t => arc_point_wf P t Hwf) as Hpt.
  pose proof (crop_large_R P t0 t1) as Hla.
  destruct Hwf as (Hrot & Hphi & Hrx & Hry & Hd0 & Hsw & Hrange).
  unfold Q, arc_cropped, arc_cropped_args, arc_of_args, arc_args_ok.
  set (la' := arc_crop_large NumR P t0 t1) in *.
  destruct P as [st [rx ry] rot la sw en ce th de ph rm].
  cbn [a_start a_radius a_rotation a_large a_sweep a_end a_center a_theta a_delta a_phi a_rot fst snd] in *.
  rewrite !Hpt in *.
  set (A0 := th + t0 * de) in *. set (D := (t1 - t0) * de) in *.
  replace (th + t1 * de) with (A0 + D) in * by (unfold A0, D; ring).
  assert (H1 : 0 < Rabs D < 360).
  { split; [|assumption]. apply Rabs_pos_lt. unfold D. intros E.
    apply Rmult_integral in E. destruct E; lra. }
  assert (H2 : sw = true <-> 0 < D).
  { unfold D. split; intros H.
    - apply Hsw in H. apply Rmult_lt_0_compat; lra.
    - apply Hsw. destruct (Rlt_dec 0 de); [assumption|]. exfalso. nra. }
  assert (H3 : (180 < Rabs D -> la' = true) /\ (Rabs D < 180 -> la' = false)).
  { rewrite Hla. split; intros H; [rewrite Rle_b_f by lra|rewrite Rle_b_t by lra]; reflexivity. }
  destruct (arc_reinit ce rx ry rot A0 D la' sw Hrx Hry H1 H2 H3 Hsnap)
    as (Hne & Hrad & Hcen & Hdel & Hth & Hmod & Hp).
  split.
  { rewrite arc_admissible_R; [reflexivity|assumption|cbn; lra|cbn; lra]. }
  split; [exact Hcen|]. split; [exact Hrad|]. split; [exact Hdel|].
  split; [exact Hth|]. split; [exact Hmod|].
  intros u. rewrite Hp, Hpt. apply ell_pt_ext. unfold A0, D. ring.
Qed.

(* (2) Arc.reversed *)
Theorem arc_reversed_reparam (P : ArcP R) :
  arc_wf P -> a_start P = arc_point NumR NumTR P 0 -> a_end P = arc_point NumR NumTR P 1 ->
  Rabs (a_delta P) < 360 ->
  (180 < Rabs (a_delta P) -> a_large P = true) -> (Rabs (a_delta P) < 180 -> a_large P = false) ->
  snap_inactive (a_end P) (a_radius P) (a_start P) (a_rotation P) false ->
  let Q := arc_of_args NumR NumTR false (arc_reversed_args P) in
  arc_reversed NumR NumTR false P = Ok Q /\
  a_center Q = a_center P /\ a_radius Q = a_radius P /\
  a_delta Q = - a_delta P /\
  (cos (a_theta Q * PI / 180) = cos ((a_theta P + a_delta P) * PI / 180) /\
   sin (a_theta Q * PI / 180) = sin ((a_theta P + a_delta P) * PI / 180)) /\
  (exists j : Z, a_theta Q = a_theta P + a_delta P + 360 * IZR j) /\
  (forall u, arc_point NumR NumTR Q u = arc_point NumR NumTR P (1 - u)).
Proof.
  intros Hwf Hs He HD Hl1 Hl2 Hsnap Q.
  pose proof (fun t => arc_point_wf P t Hwf) as Hpt.
  destruct Hwf as (Hrot & Hphi & Hrx & Hry & Hd0 & Hsw & Hrange).
  unfold Q, arc_reversed, arc_reversed_args, arc_of_args, arc_args_ok.
  rewrite Hs, He in *. clear Hs He.
  destruct P as [st [rx ry] rot la sw en ce th de ph rm].
  cbn [a_start a_radius a_rotation a_large a_sweep a_end a_center a_theta a_delta a_phi a_rot fst snd] in *.
  rewrite !Hpt in *.
  set (A0 := th + de) in *. set (D := - de) in *.
  replace (th + 1 * de) with A0 in * by (unfold A0; ring).
  replace (th + 0 * de) with (A0 + D) in * by (unfold A0, D; ring).
  assert (H1 : 0 < Rabs D < 360).
  { unfold D. rewrite Rabs_Ropp. split; [apply Rabs_pos_lt|]; assumption. }
  assert (H2 : negb sw = true <-> 0 < D).
  { unfold D. split; intros H.
    - destruct sw; [discriminate|]. destruct (Rlt_dec 0 de) as [Hp|Hn]; [|lra].
      apply Hsw in Hp. discriminate.
    - destruct sw; [|reflexivity]. exfalso. assert (0 < de) by (apply Hsw; reflexivity). lra. }
  assert (H3 : (180 < Rabs D -> la = true) /\ (Rabs D < 180 -> la = false)).
  { unfold D. rewrite Rabs_Ropp. split; assumption. }
  destruct (arc_reinit ce rx ry rot A0 D la (negb sw) Hrx Hry H1 H2 H3 Hsnap)
    as (Hne & Hrad & Hcen & Hdel & Hth & Hmod & Hp).
  split.
  { rewrite arc_admissible_R; [reflexivity|assumption|cbn; lra|cbn; lra]. }
  split; [exact Hcen|]. split; [exact Hrad|]. split; [exact Hdel|].
  split; [exact Hth|]. split; [exact Hmod|].
  intros u. rewrite Hp, Hpt. apply ell_pt_ext. unfold A0, D. ring.
Qed.

(* the snap criterion for reversed(): the extent is -delta *)
Lemma arc_reversed_snap_ok (P : ArcP R) :
  arc_wf P -> a_start P = arc_point NumR NumTR P 0 -> a_end P = arc_point NumR NumTR P 1 ->
  Rabs (a_delta P) < 360 ->
  (cos (a_delta P * PI / 180) = -1 \/
   atol8 NumR < (1 + cos (a_delta P * PI / 180)) / (1 - cos (a_delta P * PI / 180))) ->
  snap_inactive (a_end P) (a_radius P) (a_start P) (a_rotation P) false.
Proof.
  intros Hwf Hs He HD Hc. rewrite Hs, He. rewrite !arc_point_wf by assumption.
  destruct Hwf as (_ & _ & Hrx & Hry & Hd0 & _ & _).
  rewrite (surjective_pairing (a_radius P)) at 2.
  replace (a_theta P + 0 * a_delta P) with (a_theta P + 1 * a_delta P + - a_delta P) by ring.
  apply crop_snap_inactive; auto.
  - rewrite Rabs_Ropp. split; [apply Rabs_pos_lt|]; assumption.
  - rewrite deg_neg, cos_neg. exact Hc.
Qed.

(* (3) Arc.split = (cropped(0,t), cropped(t,1)) *)
Theorem arc_split_reparam (P : ArcP R) t :
  arc_wf P -> 0 < t < 1 -> Rabs (a_delta P) < 360 ->
  snap_inactive (arc_point NumR NumTR P 0) (a_radius P) (arc_point NumR NumTR P t) (a_rotation P) false ->
  snap_inactive (arc_point NumR NumTR P t) (a_radius P) (arc_point NumR NumTR P 1) (a_rotation P) false ->
  let A := arc_of_args NumR NumTR false (arc_cropped_args NumR NumTR P 0 t) in
  let B := arc_of_args NumR NumTR false (arc_cropped_args NumR NumTR P t 1) in
  arc_split NumR NumTR false P t = Ok (A, B) /\
  (a_center A = a_center P /\ a_radius A = a_radius P /\ a_delta A = t * a_delta P) /\
  (a_center B = a_center P /\ a_radius B = a_radius P /\ a_delta B = (1 - t) * a_delta P) /\
  (forall u, arc_point NumR NumTR A u = arc_point NumR NumTR P (u * t)) /\
  (forall u, arc_point NumR NumTR B u = arc_point NumR NumTR P (t + u * (1 - t))) /\
  arc_point NumR NumTR A 1 = arc_point NumR NumTR P t /\
  arc_point NumR NumTR B 0 = arc_point NumR NumTR P t.
Proof.
  intros Hwf Ht HD HsA HsB A B.
  assert (HDA : Rabs ((t - 0) * a_delta P) < 360).
  { rewrite Rabs_mult, (Rabs_right (t - 0)) by lra. pose proof (Rabs_pos (a_delta P)). nra. }
  assert (HDB : Rabs ((1 - t) * a_delta P) < 360).
  { rewrite Rabs_mult, (Rabs_right (1 - t)) by lra. pose proof (Rabs_pos (a_delta P)). nra. }
  destruct (arc_cropped_reparam P 0 t Hwf (proj1 Ht) HDA HsA) as (OA & CA & RA & DA & _ & _ & PA).
  destruct (arc_cropped_reparam P t 1 Hwf (proj2 Ht) HDB HsB) as (OB & CB & RB & DB & _ & _ & PB).
  fold A in OA, CA, RA, DA, PA. fold B in OB, CB, RB, DB, PB.
  split.
  { unfold arc_split. change (zero NumR) with 0. change (one NumR) with 1.
    rewrite OA. cbn [rbind]. rewrite OB. reflexivity. }
  split; [repeat split; try assumption; rewrite DA; ring|].
  split; [repeat split; assumption|].
  split; [intros u; rewrite PA; f_equal; ring|].
  split; [intros u; rewrite PB; reflexivity|].
  split; [rewrite PA|rewrite PB]; f_equal; ring.
Qed.

(* ------------------------------------------------------------------ *)
(* objects built by the constructor: |delta| < 360 strictly, the large flag
   agrees with |delta| off the half turn, and start/end are point(0)/point(1) *)
Lemma arc_init_delta_lt start radius rotation large sweep end_ :
  start <> end_ -> fst radius <> 0 -> snd radius <> 0 ->
  Rabs (a_delta (arc_init NumR NumTR start radius rotation large sweep end_)) < 360.
Proof.
  intros Hse Hx Hy. unfold arc_init.
  destruct (arc_delta_cases start radius end_ rotation large sweep false Hse Hx Hy)
    as [[_ ->]|[_ [H|[H|[H|H]]]]].
  - destruct sweep; [rewrite Rabs_right|rewrite Rabs_left]; lra.
  - destruct H as [_ [_ H]]. rewrite Rabs_right; lra.
  - destruct H as [_ [_ H]]. rewrite Rabs_left; lra.
  - destruct H as [_ [_ H]]. rewrite Rabs_right; lra.
  - destruct H as [_ [_ H]]. rewrite Rabs_left; lra.
Qed.

Lemma arc_init_large_flag start radius rotation large sweep end_ :
  start <> end_ -> fst radius <> 0 -> snd radius <> 0 ->
  let P := arc_init NumR NumTR start radius rotation large sweep end_ in
  (180 < Rabs (a_delta P) -> a_large P = true) /\ (Rabs (a_delta P) < 180 -> a_large P = false).
Proof.
  intros Hse Hx Hy P.
  pose proof (arc_large_flag start radius end_ rotation large sweep false Hse Hx Hy) as H.
  change (arc_init_v NumR NumTR false start radius rotation large sweep end_) with P in H. change (a_large P) with large. split; intros HD.
  - apply H; lra.
  - destruct large; [|reflexivity]. exfalso.
    assert (180 < Rabs (a_delta P)); [|lra]. apply H; [lra|reflexivity].
Qed.

(* reversed() of a constructed arc whose own snap is inactive *)
Corollary arc_init_reversed_reparam start radius rotation large sweep end_ :
  start <> end_ -> fst radius <> 0 -> snd radius <> 0 ->
  snap_inactive start radius end_ rotation false ->
  let P := arc_init NumR NumTR start radius rotation large sweep end_ in
  snap_inactive (a_end P) (a_radius P) (a_start P) (a_rotation P) false ->
  let Q := arc_of_args NumR NumTR false (arc_reversed_args P) in
  arc_reversed NumR NumTR false P = Ok Q /\
  a_center Q = a_center P /\ a_radius Q = a_radius P /\ a_delta Q = - a_delta P /\
  (forall u, arc_point NumR NumTR Q u = arc_point NumR NumTR P (1 - u)).
Proof.
  intros Hse Hx Hy Hs P Hs' Q.
  destruct (arc_init_large_flag start radius rotation large sweep end_ Hse Hx Hy) as [L1 L2].
  fold P in L1, L2.
  assert (Hwf : arc_wf P) by (apply arc_init_wf; assumption).
  assert (H0 : a_start P = arc_point NumR NumTR P 0) by (symmetry; apply (arc_point0 start radius end_ rotation large sweep false); assumption).
  assert (H1 : a_end P = arc_point NumR NumTR P 1) by (symmetry; apply (arc_point1 start radius end_ rotation large sweep false); assumption).
  assert (HD : Rabs (a_delta P) < 360) by (apply arc_init_delta_lt; assumption).
  destruct (arc_reversed_reparam P Hwf H0 H1 HD L1 L2 Hs') as (O & Ce & Ra & De & _ & _ & Pt).
  repeat split; assumption.
Qed.

(* ------------------------------------------------------------------ *)
(* non-vacuity: the unit upper half circle W = Arc(1, 1+1j, 0, 0, 1, -1)
   (Proofs/ArcDeriv.v), cropped to its first half [0, 1/2]: all hypotheses of
   arc_cropped_reparam hold (the extent is 90 degrees, radicand = 1 > 1e-8) *)
Example crop_W_hyps :
  arc_wf W /\ 0 < 1 / 2 /\ Rabs ((1 / 2 - 0) * a_delta W) < 360 /\
  snap_inactive (arc_point NumR NumTR W 0) (a_radius W) (arc_point NumR NumTR W (1 / 2)) (a_rotation W) false.
Proof.
  destruct W_adm as [A [B C]].
  assert (Hwf : arc_wf W) by exact (arc_init_wf Wstart Wrad 0 false true Wend A B C).
  assert (HD : Rabs ((1 / 2 - 0) * a_delta W) < 360).
  { rewrite W_delta, Rabs_right; lra. }
  split; [exact Hwf|]. split; [lra|]. split; [exact HD|].
  apply arc_crop_snap_ok; try assumption; try lra.
  right. rewrite W_delta.
  replace ((1 / 2 - 0) * 180 * PI / 180) with (PI / 2) by field.
  rewrite cos_PI2, atol8_R_val.
  replace ((1 + 0) / (1 - 0)) with 1 by field. lra.
Qed.

Example crop_W :
  let Q := arc_of_args NumR NumTR false (arc_cropped_args NumR NumTR W 0 (1 / 2)) in
  arc_cropped NumR NumTR false W 0 (1 / 2) = Ok Q /\ a_center Q = a_center W /\ a_radius Q = (1, 1) /\
  a_delta Q = 90 /\ forall u, arc_point NumR NumTR Q u = arc_point NumR NumTR W (u / 2).
Proof.
  destruct crop_W_hyps as (Hwf & Ht & HD & Hs).
  destruct (arc_cropped_reparam W 0 (1 / 2) Hwf Ht HD Hs) as (O & Ce & Ra & De & _ & _ & Pt).
  intros Q. split; [exact O|]. split; [exact Ce|].
  split; [rewrite <- W_radius; exact Ra|].
  split; [unfold Q; rewrite De, W_delta; lra|].
  intros u. unfold Q. rewrite Pt. f_equal. lra.
Qed.
