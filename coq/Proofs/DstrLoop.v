(* Proofs/DstrLoop.v — parse_path(p.d(...)) for paths of any length: induction
   over the segment list with the serialiser's loop variables (current_pos,
   previous_segment) and the parser's state generalised; then the final 'Z',
   the dropped closing segment, and the top-level statement. *)
From Coq Require Import List Bool Arith Lia.
From SVP Require Import Base.Num Base.Cplx Model.Parse Model.Dstr
     Proofs.ParseRefine Proofs.DstrRun Proofs.DstrLaws Proofs.DstrSim.
Import ListNotations.

Lemma last_cons {A} (a d : A) (l : list A) : last (a :: l) d = last l a.
Proof.
  revert a d. induction l as [|b l IH]; intros a d; [reflexivity|].
  change (last (a :: b :: l) d) with (last (b :: l) d). rewrite !IH. reflexivity.
Qed.

Section Loop.
  Context {K : Type} (N : Num K) (E : EqbOK N).
  Variables none_ok coinc_ok : bool.
  Variables sfix mfix useST rel : bool.
  Notation pt := (Cplx K).
  Notation pstate := (@pstate K).
  Notation exec_cmd := (exec_cmd N none_ok coinc_ok).
  Notation run_cmds := (run_cmds N none_ok coinc_ok).
  Notation eqv a b := (ceqb N a b = true).
  Notation seg_sim := (seg_sim N).
  Notation Follows := (Follows N).

  Hypothesis HR : rel = false \/ ExactOK N.
  Hypothesis HS : useST = false \/ (sfix = true /\ SubCongOK N) \/ (LeibnizOK N /\ ReflectOK N).

  Section Body.
  Variables (sc : bool) (endp : pt).
  Notation d_loop := (d_loop N sfix mfix useST rel sc endp).
  Notation need_move := (need_move N sc endp).

  (* serialiser's (current_pos, previous_segment) against the parser's state *)
  Inductive Inv : option pt -> option (seg K) -> pstate -> Prop :=
  | InvInit st : p_cur st = c0 N -> Inv None None st
  | InvGo g sp st :
      Follows g st -> p_start st = Some sp -> (sc = true -> eqv sp endp) ->
      Inv (Some (seg_end g)) (Some g) st.

  (* the joins of a continuous closed path, as the loop meets them *)
  Definition joined (pos : option pt) (g : seg K) : Prop :=
    match pos with None => eqv (seg_start g) endp | Some cp => eqv cp (seg_start g) end.
  Fixpoint chain (pos : option pt) (segs : list (seg K)) : Prop :=
    match segs with
    | [] => True
    | g :: r => joined pos g /\ chain (Some (seg_end g)) r
    end.

  (* a shorthand written directly after an 'M' must also be one for the parser,
     which then knows no previous segment *)
  Definition reemit_head (pos : option pt) (prev : option (seg K)) (g : seg K) : bool :=
    if need_move pos (seg_start g)
    then implb (shorthand N useST sfix prev g) (shorthand N useST sfix None g)
    else true.
  Fixpoint reemit_ok (pos : option pt) (prev : option (seg K)) (segs : list (seg K)) : bool :=
    match segs with
    | [] => true
    | g :: r => reemit_head pos prev g && reemit_ok (Some (seg_end g)) (Some g) r
    end.

  Lemma move_step pos prev st ss :
    Inv pos prev st -> need_move pos ss = true -> pfin N ss = true ->
    (sc = true -> match pos with None => eqv ss endp | Some cp => eqv cp ss end) ->
    exists st1,
      exec_cmd (MoveTo (negb rel) [move_arg N rel pos ss]) st = Ok st1
      /\ p_cur st1 = ss /\ p_start st1 = Some ss /\ p_cmd st1 = Some cL
      /\ p_segs st1 = p_segs st /\ (sc = true -> eqv ss endp).
  Proof.
    intros I Mv Fs J. rewrite exec_move. cbn zeta.
    assert (C : (if negb rel then move_arg N rel pos ss
                 else cadd N (p_cur st) (move_arg N rel pos ss)) = ss).
    { destruct HR as [->|X]; [destruct pos; reflexivity|].
      destruct rel; [|destruct pos; reflexivity]. cbn [negb].
      inversion I as [st0 Hc|g sp st0 [Hc _ _] _ _]; subst; cbn [move_arg].
      - rewrite Hc. apply (cadd_c0_l N X).
      - rewrite Hc. apply (cadd_csub N X). }
    rewrite C. eexists. split; [reflexivity|]. cbn [p_cur p_start p_cmd p_segs].
    repeat split.
    intros S. specialize (J S). destruct pos as [cp|]; [|exact J].
    unfold Dstr.need_move in Mv. rewrite J, S in Mv. cbn in Mv. exact Mv.
  Qed.

  (* one pass through the body of the serialiser's loop *)
  Lemma loop_step g pos prev st :
    Inv pos prev st -> seg_wf N g = true ->
    (sc = true -> joined pos g) ->
    (mfix = true \/ reemit_head pos prev g = true) ->
    forall more,
    exists st' g',
      run_cmds (d_loop pos prev (g :: more)) st
      = run_cmds (d_loop (Some (seg_end g)) (Some g) more) st'
      /\ p_segs st' = g' :: p_segs st /\ seg_sim g' g
      /\ Inv (Some (seg_end g)) (Some g) st'.
  Proof.
    intros I W J HM more.
    assert (Fs : pfin N (seg_start g) = true).
    { unfold seg_wf in W. apply andb_true_iff in W. destruct W as [W _].
      destruct g; cbn [seg_fin seg_start] in *.
      - apply andb_true_iff in W; apply W.
      - apply andb_true_iff in W; destruct W as [W _]; apply andb_true_iff in W; apply W.
      - apply andb_true_iff in W; destruct W as [W _]; apply andb_true_iff in W; destruct W as [W _];
          apply andb_true_iff in W; apply W.
      - apply andb_true_iff in W; destruct W as [W _]; apply andb_true_iff in W; destruct W as [W _];
          apply andb_true_iff in W; apply W. }
    cbn [Dstr.d_loop]. destruct (need_move pos (seg_start g)) eqn:Mv.
    - (* an 'M' is written *)
      destruct (move_step pos prev st (seg_start g) I Mv Fs) as (st1 & E1 & C1 & S1 & L1 & G1 & Z1).
      { intros S. specialize (J S). destruct pos; exact J. }
      set (prev' := if true && mfix then None else prev).
      assert (Ctl : ctl_ok N none_ok sfix useST prev' g st1).
      { apply (ctl_after_move N E); try assumption.
        subst prev'. cbn [andb]. destruct mfix; [auto|].
        destruct HM as [HM|HM]; [discriminate HM|].
        unfold reemit_head in HM. rewrite Mv in HM.
        destruct (shorthand N useST sfix prev g), (shorthand N useST sfix None g);
          cbn in HM; auto; discriminate. }
      destruct (seg_exec N E none_ok coinc_ok sfix useST rel HR prev' g st1 W) as (st' & g' & E2 & S2 & Sim & St2 & F2);
        [rewrite C1; exact Fs|exact Ctl|].
      exists st', g'. split; [|split; [rewrite S2, G1; reflexivity|split; [exact Sim|]]].
      + cbn [app DstrRun.run_cmds]. rewrite E1. fold prev'. rewrite E2. reflexivity.
      + apply (InvGo g (seg_start g)); [exact F2|rewrite St2; exact S1|exact Z1].
    - (* no 'M': the segment continues the previous one *)
      destruct pos as [cp|]; [|discriminate Mv].
      unfold Dstr.need_move in Mv. apply orb_false_iff in Mv. destruct Mv as [Mv _].
      apply negb_false_iff in Mv.
      inversion I as [|g0 sp st0 F0 S0 Z0]; subst.
      assert (Hss : eqv (p_cur st) (seg_start g)) by (rewrite (fo_cur _ _ _ F0); exact Mv).
      cbn [andb].
      destruct (seg_exec N E none_ok coinc_ok sfix useST rel HR (Some g0) g st W Hss) as (st' & g' & E2 & S2 & Sim & St2 & F2).
      { apply (ctl_follows N E none_ok sfix useST HS); assumption. }
      exists st', g'. split; [|split; [exact S2|split; [exact Sim|]]].
      + cbn [app DstrRun.run_cmds]. rewrite E2. reflexivity.
      + apply (InvGo g sp); [exact F2|rewrite St2; exact S0|exact Z0].
  Qed.

  Lemma loop_sim : forall more g pos prev st,
    Inv pos prev st -> forallb (seg_wf N) (g :: more) = true ->
    (sc = true -> chain pos (g :: more)) ->
    (mfix = true \/ reemit_ok pos prev (g :: more) = true) ->
    exists st' q,
      run_cmds (d_loop pos prev (g :: more)) st = Ok st'
      /\ p_segs st' = rev q ++ p_segs st /\ Forall2 seg_sim q (g :: more)
      /\ Inv (Some (seg_end (last more g))) (Some (last more g)) st'.
  Proof.
    induction more as [|g2 r IH]; intros g pos prev st I W C HM.
    - cbn [forallb] in W. apply andb_true_iff in W. destruct W as [W _].
      destruct (loop_step g pos prev st I W) with (more := @nil (seg K)) as (st' & g' & R & S & Sim & I').
      { intros S. apply (C S). }
      { destruct HM as [HM|HM]; [left; exact HM|right].
        cbn [reemit_ok] in HM. apply andb_true_iff in HM. apply HM. }
      exists st', [g']. split; [exact R|]. split; [rewrite S; reflexivity|].
      split; [constructor; [exact Sim|constructor]|exact I'].
    - cbn [forallb] in W. apply andb_true_iff in W. destruct W as [W Wr].
      destruct (loop_step g pos prev st I W) with (more := g2 :: r) as (st1 & g' & R & S & Sim & I1).
      { intros S. apply (C S). }
      { destruct HM as [HM|HM]; [left; exact HM|right].
        cbn [reemit_ok] in HM. apply andb_true_iff in HM. apply HM. }
      destruct (IH g2 (Some (seg_end g)) (Some g) st1 I1 Wr) as (st' & q & R2 & S2 & Sim2 & I2).
      { intros Sc. apply (C Sc). }
      { destruct HM as [HM|HM]; [left; exact HM|right].
        cbn [reemit_ok] in HM. apply andb_true_iff in HM. apply HM. }
      exists st', (g' :: q). split; [rewrite R; exact R2|].
      split; [rewrite S2, S; cbn [rev]; rewrite <- app_assoc; reflexivity|].
      split; [constructor; assumption|]. rewrite last_cons. exact I2.
  Qed.

  Lemma chain_app pos l1 l2 :
    chain pos (l1 ++ l2) ->
    chain pos l1 /\ chain (match l1 with [] => pos | g :: r => Some (seg_end (last r g)) end) l2.
  Proof.
    revert pos. induction l1 as [|g r IH]; intros pos H; [split; [exact I|exact H]|].
    cbn [app chain] in H. destruct H as [J H]. destruct (IH _ H) as [H1 H2].
    split; [split; assumption|]. destruct r as [|g2 r2]; [exact H2|].
    rewrite last_cons. exact H2.
  Qed.
  End Body.

  (* ---------------------------------------------------------------- *)
  (* the whole of Path.d                                               *)

  Lemma emit_single prev g : single (emit_seg N useST sfix rel prev g) = true.
  Proof.
    destruct g; cbn [emit_seg]; try reflexivity.
    - destruct (useST && quad_smooth N sfix prev s c); reflexivity.
    - destruct (useST && cubic_smooth N sfix prev s c1); reflexivity.
  Qed.
  Lemma d_loop_single sc endp : forall segs pos prev,
    forallb single (d_loop N sfix mfix useST rel sc endp pos prev segs) = true.
  Proof.
    induction segs as [|g r IH]; intros pos prev; [reflexivity|].
    cbn [Dstr.d_loop]. rewrite forallb_app. cbn [forallb]. rewrite emit_single, IH.
    destruct (need_move N sc endp pos (seg_start g)); reflexivity.
  Qed.

  Lemma continuous_chain endp : forall r a,
    iscontinuous N (a :: r) = true -> chain endp (Some (seg_end a)) r.
  Proof.
    induction r as [|b r IH]; intros a H; [exact I|].
    cbn [iscontinuous] in H. apply andb_true_iff in H. destruct H as [H1 H2].
    split; [exact H1|apply IH; exact H2].
  Qed.

  Variables zfix closeZ : bool.

  (* the hypothesis under which the code as written keeps the closing segment:
     it is a Line *)
  Definition closing_ok (p : list (seg K)) : Prop :=
    match p with
    | [] => True
    | a :: r => zfix = true \/ (self_closed_of N closeZ a r = true -> is_line (last_seg a r) = true)
    end.
  (* ... and does not write S/T directly after a re-emitted 'M' *)
  Definition restart_ok (p : list (seg K)) : Prop :=
    match p with
    | [] => True
    | a :: r => mfix = true \/
                reemit_ok (self_closed_of N closeZ a r) (seg_end (last_seg a r)) None None
                          (d_segments N zfix closeZ p) = true
    end.

  Theorem roundtrip_sim p :
    path_wf N p = true -> closing_ok p -> restart_ok p ->
    exists q, roundtrip N none_ok coinc_ok zfix sfix mfix useST closeZ rel p = Ok q
              /\ Forall2 seg_sim q p.
  Proof.
    intros W HZ HM. unfold path_wf in W. apply andb_true_iff in W. destruct W as [NE W].
    destruct p as [|a r]; [discriminate|]. clear NE.
    cbn [closing_ok restart_ok d_segments] in HZ, HM.
    unfold roundtrip, d_tokens. cbn [d_cmds d_segments].
    set (sc := self_closed_of N closeZ a r) in *.
    set (endp := seg_end (last_seg a r)) in *.
    assert (I0 : Inv sc endp None None (init_state (c0 N))) by (constructor; reflexivity).
    assert (SG : forall l, forallb single (d_loop N sfix mfix useST rel sc endp None None l
                                           ++ (if sc then [Close (negb rel)] else [])) = true).
    { intros l. rewrite forallb_app, d_loop_single. destruct sc; reflexivity. }
    destruct sc eqn:Sc.
    - (* continuous and closed, use_closed_attrib: a 'Z' is written *)
      unfold self_closed_of in Sc. apply andb_true_iff in Sc. destruct Sc as [Sc Cl].
      apply andb_true_iff in Sc. destruct Sc as [_ Ct].
      assert (Ch : chain endp None (a :: r)).
      { split; [exact Cl|apply continuous_chain; exact Ct]. }
      destruct (drops_last N zfix closeZ a r) eqn:Dr.
      + (* the last segment is left out: it is a Line, and not the only segment *)
        assert (IL : is_line (last_seg a r) = true).
        { unfold drops_last in Dr. apply andb_true_iff in Dr. destruct Dr as [Dr1 Dr2].
          destruct HZ as [->|HZ]; [apply andb_true_iff in Dr2; apply Dr2|apply HZ; reflexivity]. }
        assert (Wl : seg_wf N (last_seg a r) = true).
        { unfold last_seg. rewrite <- last_cons with (d := a).
          assert (In (last (a :: r) a) (a :: r)).
          { destruct (@exists_last _ (a :: r)) as (f & l & El); [discriminate|].
            rewrite El, last_last. apply in_or_app. right. left. reflexivity. }
          rewrite forallb_forall in W. apply W. assumption. }
        assert (Sp : a :: r = removelast (a :: r) ++ [last_seg a r]).
        { unfold last_seg. rewrite <- last_cons with (d := a).
          apply app_removelast_last. discriminate. }
        destruct (last_seg a r) as [ls le| | |] eqn:EL; try discriminate IL.
        destruct (removelast (a :: r)) as [|g0 front] eqn:Fr.
        { (* a single closed Line would have zero length *)
          cbn [app] in Sp. inversion Sp; subst.
          unfold isclosed in Cl. rewrite EL in Cl. cbn [seg_start seg_end] in Cl.
          unfold seg_wf in Wl. apply andb_true_iff in Wl. destruct Wl as [_ Wl].
          rewrite Cl in Wl. discriminate. }
        rewrite Sp in W, Ch. rewrite forallb_app in W. apply andb_true_iff in W. destruct W as [Wf _].
        apply chain_app in Ch. destruct Ch as [Ch1 Ch2].
        destruct (loop_sim true endp front g0 None None (init_state (c0 N)) I0 Wf) as (st' & q & R & S & Sim & I').
        { intros _. exact Ch1. }
        { try rewrite Fr in HM. exact HM. }
        inversion I' as [|gl sp st0 F0 S0 Z0]; subst.
        cbn [chain joined] in Ch2. destruct Ch2 as [J _]. cbn [seg_start] in J.
        assert (Zsp : eqv sp le) by (apply Z0; reflexivity).
        assert (NC : ceqb N (p_cur st') sp = false).
        { rewrite (fo_cur _ _ _ F0). rewrite (ceqb_cong_l N E _ _ sp J).
          rewrite (ceqb_cong_r N E _ _ ls Zsp).
          unfold seg_wf in Wl. apply andb_true_iff in Wl. destruct Wl as [_ Wl].
          apply negb_true_iff in Wl. exact Wl. }
        exists (q ++ [Line (p_cur st') sp]). split.
        * rewrite (impl_parse_run_cmds N none_ok coinc_ok _ (c0 N)
                     (mkP None (negb rel) sp (Some sp) (Line (p_cur st') sp :: p_segs st')) (SG _)).
          -- cbn [p_segs]. rewrite S. cbn [init_state p_segs rev]. rewrite app_nil_r, rev_involutive.
             reflexivity.
          -- rewrite run_cmds_app, R. cbn [DstrRun.run_cmds]. rewrite exec_close, S0, NC. reflexivity.
        * rewrite Sp. apply Forall2_app; [exact Sim|].
          constructor; [|constructor]. split; [|exact Zsp].
          rewrite (fo_cur _ _ _ F0). exact J.
      + (* every segment is written, then 'Z': the pen is at the subpath's start *)
        destruct (loop_sim true endp r a None None (init_state (c0 N)) I0 W) as (st' & q & R & S & Sim & I').
        { intros _. exact Ch. }
        { exact HM. }
        inversion I' as [|gl sp st0 F0 S0 Z0]; subst.
        assert (Zsp : eqv sp endp) by (apply Z0; reflexivity).
        exists q. split; [|exact Sim].
        rewrite (impl_parse_run_cmds N none_ok coinc_ok _ (c0 N)
                   (mkP None (negb rel) sp (Some sp) (p_segs st')) (SG _)).
        * cbn [p_segs]. rewrite S. cbn [init_state p_segs]. rewrite app_nil_r, rev_involutive.
          reflexivity.
        * rewrite run_cmds_app, R. cbn [DstrRun.run_cmds]. rewrite exec_close, S0.
          rewrite (fo_cur _ _ _ F0). fold (last_seg a r). fold endp.
          rewrite (ceqb_sym N E _ _ Zsp). reflexivity.
    - (* no 'Z' *)
      assert (Dr : drops_last N zfix closeZ a r = false).
      { unfold drops_last. fold sc. rewrite Sc. reflexivity. }
      rewrite Dr.
      destruct (loop_sim false endp r a None None (init_state (c0 N)) I0 W) as (st' & q & R & S & Sim & I').
      { intros H. discriminate H. }
      { try rewrite Dr in HM. exact HM. }
      exists q. split; [|exact Sim].
      rewrite (impl_parse_run_cmds N none_ok coinc_ok _ (c0 N) st' (SG _)).
      + rewrite S. cbn [init_state p_segs]. rewrite app_nil_r, rev_involutive. reflexivity.
      + rewrite app_nil_r. exact R.
  Qed.
End Loop.
