(* Proofs/TangentThm.v — the statements of property C15 assembled from
   TangentAlg.v (regular branch) and TangentSing.v (singular branch). *)
From Coq Require Import ZArith List Bool Reals Lra Lia Field QArith Qcanon.
From Coquelicot Require Import Coquelicot.
From SVP Require Import Base.Num Base.Cplx Base.Poly Base.FieldTac Model.Bezier
     Proofs.BezierAlg Proofs.BezierDeriv Model.Tangent Proofs.TangentAlg Proofs.TangentSing.
Import ListNotations.
Local Open Scope R_scope.
Set Implicit Arguments.

(* ---------- the model derivatives are the derivatives of the coordinate functions ---------- *)
Lemma cubic_true_derivs s c1 c2 e t :
  let x := fun u => fst (cubic_point NR s c1 c2 e u) in
  let y := fun u => snd (cubic_point NR s c1 c2 e u) in
  cubic_d NR s c1 c2 e t 1 = (Derive x t, Derive y t) /\
  cubic_d NR s c1 c2 e t 2 = (Derive_n x 2 t, Derive_n y 2 t).
Proof.
  intros x y.
  assert (D1 : forall u, Derive x u = fst (cubic_d NR s c1 c2 e u 1)).
  { intros u. apply is_derive_unique. apply (cubic_point_is_derive s c1 c2 e u). }
  assert (D2 : forall u, Derive y u = snd (cubic_d NR s c1 c2 e u 1)).
  { intros u. apply is_derive_unique. apply (cubic_point_is_derive s c1 c2 e u). }
  split.
  - rewrite D1, D2. destruct (cubic_d NR s c1 c2 e t 1); reflexivity.
  - destruct (cubic_point_is_derive s c1 c2 e t) as (_ & _ & A & B).
    assert (X2 : Derive_n x 2 t = fst (cubic_d NR s c1 c2 e t 2)).
    { cbn [Derive_n]. apply is_derive_unique.
      apply (is_derive_ext (fun u => fst (cubic_d NR s c1 c2 e u 1))); [intros; symmetry; apply D1|exact A]. }
    assert (Y2 : Derive_n y 2 t = snd (cubic_d NR s c1 c2 e t 2)).
    { cbn [Derive_n]. apply is_derive_unique.
      apply (is_derive_ext (fun u => snd (cubic_d NR s c1 c2 e u 1))); [intros; symmetry; apply D2|exact B]. }
    rewrite X2, Y2. destruct (cubic_d NR s c1 c2 e t 2); reflexivity.
Qed.
Lemma quad_true_derivs s c e t :
  let x := fun u => fst (quad_point NR s c e u) in
  let y := fun u => snd (quad_point NR s c e u) in
  quad_d NR s c e t 1 = (Derive x t, Derive y t) /\
  quad_d NR s c e t 2 = (Derive_n x 2 t, Derive_n y 2 t).
Proof.
  intros x y.
  assert (D1 : forall u, Derive x u = fst (quad_d NR s c e u 1)).
  { intros u. apply is_derive_unique. apply (quad_point_is_derive s c e u). }
  assert (D2 : forall u, Derive y u = snd (quad_d NR s c e u 1)).
  { intros u. apply is_derive_unique. apply (quad_point_is_derive s c e u). }
  split.
  - rewrite D1, D2. destruct (quad_d NR s c e t 1); reflexivity.
  - destruct (quad_point_is_derive s c e t) as (_ & _ & A & B).
    assert (X2 : Derive_n x 2 t = fst (quad_d NR s c e t 2)).
    { cbn [Derive_n]. apply is_derive_unique.
      apply (is_derive_ext (fun u => fst (quad_d NR s c e u 1))); [intros; symmetry; apply D1|exact A]. }
    assert (Y2 : Derive_n y 2 t = snd (quad_d NR s c e t 2)).
    { cbn [Derive_n]. apply is_derive_unique.
      apply (is_derive_ext (fun u => snd (quad_d NR s c e u 1))); [intros; symmetry; apply D2|exact B]. }
    rewrite X2, Y2. destruct (quad_d NR s c e t 2); reflexivity.
Qed.

(* ---------- unit tangent at regular points ---------- *)
Definition is_unit_of (u d : Cplx R) : Prop :=
  nrm u = 1 /\ u = (fst d / nrm d, snd d / nrm d).

Lemma is_unit_of_unit_of d : d <> (0, 0) -> is_unit_of (unit_of NR TR d) d.
Proof. intros H. split; [apply unit_of_norm; exact H|apply unit_of_R]. Qed.

Lemma unit_cubic rp s c1 c2 e t : cubic_d NR s c1 c2 e t 1 <> (0, 0) ->
  exists u, cubic_unit_tangent NR TR rp s c1 c2 e t = Val u /\ is_unit_of u (cubic_d NR s c1 c2 e t 1).
Proof.
  intros H. eexists. split; [apply bezier_unit_tangent_regular; exact H|apply is_unit_of_unit_of, H].
Qed.
Lemma unit_quad rp s c e t : quad_d NR s c e t 1 <> (0, 0) ->
  exists u, quad_unit_tangent NR TR rp s c e t = Val u /\ is_unit_of u (quad_d NR s c e t 1).
Proof.
  intros H. eexists. split; [apply bezier_unit_tangent_regular; exact H|apply is_unit_of_unit_of, H].
Qed.
Lemma unit_line (s e : Cplx R) t : e <> s ->
  is_unit_of (line_unit_tangent NR TR s e t) (csub NR e s).
Proof.
  intros H. apply is_unit_of_unit_of. intros E. apply H. destruct s, e. unfold csub in E; cbn in E.
  inversion E. f_equal; lra.
Qed.
Lemma unit_arc rx ry rot th de t : arc_d1 NR TR rx ry rot th de t <> (0, 0) ->
  is_unit_of (arc_unit_tangent NR TR rx ry rot th de t) (arc_d1 NR TR rx ry rot th de t).
Proof. apply is_unit_of_unit_of. Qed.

(* ---------- normal ---------- *)
Definition is_normal_of (n u : Cplx R) : Prop :=
  n = cmul NR (0, -1) u /\ nrm n = nrm u /\
  fst u * fst n + snd u * snd n = 0 /\ fst u * snd n - snd u * fst n = - (nrm u * nrm u).
Lemma mul_neg_i_normal u : is_normal_of (mul_neg_i NR u) u.
Proof.
  rewrite mul_neg_i_rot. repeat split.
  - apply rot_m90_cmul. - apply rot_m90_norm. - apply rot_m90_perp. - apply rot_m90_cross.
Qed.
Definition res_rel {A B} (P : A -> B -> Prop) (ra : res A) (rb : res B) : Prop :=
  match ra, rb with
  | Val a, Val b => P a b
  | ErrValue, ErrValue => True
  | ErrAssert, ErrAssert => True
  | _, _ => False
  end.
Lemma res_rel_map {A} (f : A -> A) (P : A -> A -> Prop) r :
  (forall a, P (f a) a) -> res_rel P (res_map f r) r.
Proof. intros H. destruct r; cbn; auto. Qed.

Lemma normal_all rp s c1 c2 e rx ry rot th de t :
  is_normal_of (line_normal NR TR s e t) (line_unit_tangent NR TR s e t) /\
  res_rel is_normal_of (quad_normal NR TR rp s c1 e t) (quad_unit_tangent NR TR rp s c1 e t) /\
  res_rel is_normal_of (cubic_normal NR TR rp s c1 c2 e t) (cubic_unit_tangent NR TR rp s c1 c2 e t) /\
  is_normal_of (arc_normal NR TR rx ry rot th de t) (arc_unit_tangent NR TR rx ry rot th de t).
Proof.
  split; [apply mul_neg_i_normal|]. split; [apply res_rel_map, mul_neg_i_normal|].
  split; [apply res_rel_map, mul_neg_i_normal|apply mul_neg_i_normal].
Qed.

(* ---------- curvature ---------- *)
Definition kappa (d dd : Cplx R) : R :=
  Rabs (fst d * snd dd - snd d * fst dd) / (sqrt (fst d * fst d + snd d * snd d)) ^ 3.
Lemma curv_formula_kappa d dd : curv_formula NR TR d dd = kappa d dd.
Proof. apply curv_formula_R. Qed.

Lemma curvature_cubic s c1 c2 e t : cubic_d NR s c1 c2 e t 1 <> (0, 0) ->
  cubic_curvature NR TR s c1 c2 e t = Val (kappa (cubic_d NR s c1 c2 e t 1) (cubic_d NR s c1 c2 e t 2)).
Proof. intros H. unfold cubic_curvature. rewrite segment_curvature_regular by exact H. rewrite curv_formula_kappa. reflexivity. Qed.
Lemma curvature_quad s c e t : quad_d NR s c e t 1 <> (0, 0) ->
  quad_curvature NR TR s c e t = Val (kappa (quad_d NR s c e t 1) (quad_d NR s c e t 2)).
Proof. intros H. unfold quad_curvature. rewrite segment_curvature_regular by exact H. rewrite curv_formula_kappa. reflexivity. Qed.
(* with the true derivatives of the coordinate functions *)
Lemma curvature_cubic_true s c1 c2 e t :
  let x := fun u => fst (cubic_point NR s c1 c2 e u) in
  let y := fun u => snd (cubic_point NR s c1 c2 e u) in
  (Derive x t, Derive y t) <> (0, 0) ->
  cubic_curvature NR TR s c1 c2 e t =
  Val (Rabs (Derive x t * Derive_n y 2 t - Derive y t * Derive_n x 2 t)
       / (sqrt (Derive x t * Derive x t + Derive y t * Derive y t)) ^ 3).
Proof.
  intros x y H. destruct (cubic_true_derivs s c1 c2 e t) as [E1 E2]. fold x y in E1, E2.
  rewrite <- E1 in H. rewrite (curvature_cubic H), E1, E2. reflexivity.
Qed.
Lemma curvature_quad_true s c e t :
  let x := fun u => fst (quad_point NR s c e u) in
  let y := fun u => snd (quad_point NR s c e u) in
  (Derive x t, Derive y t) <> (0, 0) ->
  quad_curvature NR TR s c e t =
  Val (Rabs (Derive x t * Derive_n y 2 t - Derive y t * Derive_n x 2 t)
       / (sqrt (Derive x t * Derive x t + Derive y t * Derive y t)) ^ 3).
Proof.
  intros x y H. destruct (quad_true_derivs s c e t) as [E1 E2]. fold x y in E1, E2.
  rewrite <- E1 in H. rewrite (curvature_quad H), E1, E2. reflexivity.
Qed.

Lemma line_zero (s e : Cplx R) t :
  line_curvature NR s e t = 0 /\
  (forall d, line_deriv NR s e t 2 = Some (0, 0) /\ kappa d (0, 0) = 0) /\
  (forall d c, kappa d (cscale NR c d) = 0).
Proof.
  split; [reflexivity|]. split.
  - intros d. split; [reflexivity|]. rewrite <- curv_formula_kappa. apply curv_formula_line.
  - intros d c. rewrite <- curv_formula_kappa. apply curv_formula_parallel.
Qed.

(* ---------- similarity transforms z |-> w z + z0 (w = lambda e^{i theta} <> 0) ---------- *)
Lemma tangent_similarity_cubic rp w z s c1 c2 e t :
  w <> (0, 0) -> cubic_d NR s c1 c2 e t 1 <> (0, 0) ->
  cubic_unit_tangent NR TR rp (aff w z s) (aff w z c1) (aff w z c2) (aff w z e) t
  = res_map (cmul NR (unit_of NR TR w)) (cubic_unit_tangent NR TR rp s c1 c2 e t).
Proof.
  intros Hw Hd. unfold cubic_unit_tangent. rewrite cubic_d1_affine.
  rewrite !bezier_unit_tangent_regular; [|exact Hd|apply cmul_nz; assumption].
  cbn [res_map]. f_equal. apply unit_of_cmul; assumption.
Qed.
Lemma tangent_similarity_quad rp w z s c e t :
  w <> (0, 0) -> quad_d NR s c e t 1 <> (0, 0) ->
  quad_unit_tangent NR TR rp (aff w z s) (aff w z c) (aff w z e) t
  = res_map (cmul NR (unit_of NR TR w)) (quad_unit_tangent NR TR rp s c e t).
Proof.
  intros Hw Hd. unfold quad_unit_tangent. rewrite quad_d1_affine.
  rewrite !bezier_unit_tangent_regular; [|exact Hd|apply cmul_nz; assumption].
  cbn [res_map]. f_equal. apply unit_of_cmul; assumption.
Qed.
Lemma tangent_similarity_line w z (s e : Cplx R) t : w <> (0, 0) -> e <> s ->
  line_unit_tangent NR TR (aff w z s) (aff w z e) t
  = cmul NR (unit_of NR TR w) (line_unit_tangent NR TR s e t).
Proof.
  intros Hw He. unfold line_unit_tangent. rewrite line_d_affine. apply unit_of_cmul; [exact Hw|].
  intros E. apply He. destruct s, e. unfold csub in E; cbn in E. inversion E. f_equal; lra.
Qed.

Lemma unit_of_one : unit_of NR TR (1, 0) = (1, 0).
Proof.
  rewrite unit_of_R. unfold nrm; cbn [fst snd].
  replace (1 * 1 + 0 * 0) with 1 by ring. rewrite sqrt_1. f_equal; field.
Qed.
Lemma unit_of_rot th : unit_of NR TR (cos th, sin th) = (cos th, sin th).
Proof.
  rewrite unit_of_R. unfold nrm; cbn [fst snd].
  pose proof (sin2_cos2 th) as H. unfold Rsqr in H.
  replace (cos th * cos th + sin th * sin th) with 1 by lra. rewrite sqrt_1. f_equal; field.
Qed.
Lemma unit_of_pos_real (l : R) : 0 < l -> unit_of NR TR (l, 0) = (1, 0).
Proof.
  intros H. rewrite unit_of_R. unfold nrm; cbn [fst snd].
  replace (l * l + 0 * 0) with (l * l) by ring. rewrite sqrt_square by lra. f_equal; field; lra.
Qed.
Lemma cmul_one z : cmul NR (1, 0) z = z.
Proof. destruct z. unfold cmul; cbn. f_equal; ring. Qed.
Lemma res_map_id {A} (f : A -> A) r : (forall a, f a = a) -> res_map f r = r.
Proof. intros H. destruct r; cbn; rewrite ?H; reflexivity. Qed.
Lemma one_nz_c : ((1, 0) : Cplx R) <> (0, 0).
Proof. intros E; inversion E; lra. Qed.

Lemma tangent_translate rp s c1 c2 e t z : cubic_d NR s c1 c2 e t 1 <> (0, 0) ->
  cubic_unit_tangent NR TR rp (aff (1, 0) z s) (aff (1, 0) z c1) (aff (1, 0) z c2) (aff (1, 0) z e) t
  = cubic_unit_tangent NR TR rp s c1 c2 e t.
Proof.
  intros H. rewrite (tangent_similarity_cubic rp z one_nz_c H).
  rewrite unit_of_one. apply res_map_id, cmul_one.
Qed.
Lemma rot_nz th : (cos th, sin th) <> ((0, 0) : Cplx R).
Proof.
  intros E. assert (Hc : cos th = 0) by (apply (f_equal fst) in E; exact E).
  assert (Hs : sin th = 0) by (apply (f_equal snd) in E; exact E).
  pose proof (sin2_cos2 th) as H. unfold Rsqr in H. rewrite Hc, Hs in H. lra.
Qed.
Lemma tangent_rotate rp s c1 c2 e t th z : cubic_d NR s c1 c2 e t 1 <> (0, 0) ->
  cubic_unit_tangent NR TR rp (aff (cos th, sin th) z s) (aff (cos th, sin th) z c1)
                           (aff (cos th, sin th) z c2) (aff (cos th, sin th) z e) t
  = res_map (cmul NR (cos th, sin th)) (cubic_unit_tangent NR TR rp s c1 c2 e t).
Proof.
  intros H. rewrite (tangent_similarity_cubic rp z (@rot_nz th) H).
  rewrite unit_of_rot. reflexivity.
Qed.
Lemma tangent_scale rp s c1 c2 e t (l : R) z : 0 < l -> cubic_d NR s c1 c2 e t 1 <> (0, 0) ->
  cubic_unit_tangent NR TR rp (aff (l, 0) z s) (aff (l, 0) z c1) (aff (l, 0) z c2) (aff (l, 0) z e) t
  = cubic_unit_tangent NR TR rp s c1 c2 e t.
Proof.
  intros Hl H. assert (Hw : ((l, 0) : Cplx R) <> (0, 0)) by (intros E; inversion E; lra).
  rewrite (tangent_similarity_cubic rp z Hw H).
  rewrite unit_of_pos_real by exact Hl. apply res_map_id, cmul_one.
Qed.
Lemma tangent_reversed_cubic rp s c1 c2 e t : cubic_d NR s c1 c2 e t 1 <> (0, 0) ->
  cubic_unit_tangent NR TR rp e c2 c1 s (1 - t)
  = res_map (copp NR) (cubic_unit_tangent NR TR rp s c1 c2 e t).
Proof.
  intros H. unfold cubic_unit_tangent. rewrite cubic_d1_reversed.
  rewrite !bezier_unit_tangent_regular; [|exact H|apply copp_nz; exact H].
  cbn [res_map]. f_equal. apply unit_of_copp.
Qed.
Lemma tangent_reversed_quad rp s c e t : quad_d NR s c e t 1 <> (0, 0) ->
  quad_unit_tangent NR TR rp e c s (1 - t) = res_map (copp NR) (quad_unit_tangent NR TR rp s c e t).
Proof.
  intros Hq. unfold quad_unit_tangent. rewrite quad_d1_reversed.
  rewrite !bezier_unit_tangent_regular; [|exact Hq|apply copp_nz; exact Hq].
  cbn [res_map]. f_equal. apply unit_of_copp.
Qed.
Lemma tangent_reversed_line (s e : Cplx R) t :
  line_unit_tangent NR TR e s (1 - t) = copp NR (line_unit_tangent NR TR s e t).
Proof. unfold line_unit_tangent. rewrite line_d_reversed. apply unit_of_copp. Qed.

(* ---------- curvature under similarity transforms and reversal ---------- *)
Lemma curvature_similarity_cubic w z s c1 c2 e t :
  w <> (0, 0) -> cubic_d NR s c1 c2 e t 1 <> (0, 0) ->
  cubic_curvature NR TR (aff w z s) (aff w z c1) (aff w z c2) (aff w z e) t
  = res_map (fun k => k / nrm w) (cubic_curvature NR TR s c1 c2 e t).
Proof.
  intros Hw Hd. unfold cubic_curvature. rewrite cubic_d1_affine, cubic_d2_affine.
  rewrite !segment_curvature_regular; [|exact Hd|apply cmul_nz; assumption].
  cbn [res_map]. f_equal. apply curv_formula_similarity; assumption.
Qed.
Lemma curvature_similarity_quad w z s c e t :
  w <> (0, 0) -> quad_d NR s c e t 1 <> (0, 0) ->
  quad_curvature NR TR (aff w z s) (aff w z c) (aff w z e) t
  = res_map (fun k => k / nrm w) (quad_curvature NR TR s c e t).
Proof.
  intros Hw Hd. unfold quad_curvature. rewrite quad_d1_affine, quad_d2_affine.
  rewrite !segment_curvature_regular; [|exact Hd|apply cmul_nz; assumption].
  cbn [res_map]. f_equal. apply curv_formula_similarity; assumption.
Qed.
Lemma curvature_reversed_cubic s c1 c2 e t : cubic_d NR s c1 c2 e t 1 <> (0, 0) ->
  cubic_curvature NR TR e c2 c1 s (1 - t) = cubic_curvature NR TR s c1 c2 e t.
Proof.
  intros H. unfold cubic_curvature. rewrite cubic_d1_reversed, cubic_d2_reversed.
  rewrite !segment_curvature_regular; [|exact H|apply copp_nz; exact H].
  f_equal. apply curv_formula_reversed.
Qed.
Lemma curvature_reversed_quad s c e t : quad_d NR s c e t 1 <> (0, 0) ->
  quad_curvature NR TR e c s (1 - t) = quad_curvature NR TR s c e t.
Proof.
  intros H. unfold quad_curvature. rewrite quad_d1_reversed, quad_d2_reversed.
  rewrite !segment_curvature_regular; [|exact H|apply copp_nz; exact H].
  f_equal. apply curv_formula_reversed.
Qed.
(* the arc derivatives transform the same way at the level of vectors *)
Lemma curvature_similarity_vec w d dd : w <> (0, 0) -> d <> (0, 0) ->
  kappa (cmul NR w d) (cmul NR w dd) = kappa d dd / nrm w /\
  kappa (copp NR d) dd = kappa d dd /\
  kappa (cconj NR d) (cconj NR dd) = kappa d dd.
Proof.
  intros Hw Hd. rewrite <- !curv_formula_kappa. split; [apply curv_formula_similarity; assumption|].
  split; [apply curv_formula_reversed|apply curv_formula_conj].
Qed.
Lemma path_curvature d dd (len : R) : 0 < len -> d <> (0, 0) ->
  path_curvature_core NR TR d dd len = kappa d dd.
Proof. intros. rewrite <- curv_formula_kappa. apply path_curvature_core_eq; assumption. Qed.

(* ---------- singular points ---------- *)
Definition quot_cubic s c1 c2 e (tau : R) : Cplx R := unit_of NR TR (cubic_d NR s c1 c2 e tau 1).
Definition quot_quad s c e (tau : R) : Cplx R := unit_of NR TR (quad_d NR s c e tau 1).

Lemma quot_cubic_eq s c1 c2 e tau :
  tangent_quot (cubic_poly NR s c1 c2 e) tau = quot_cubic s c1 c2 e tau.
Proof. unfold tangent_quot, quot_cubic. rewrite cubic_d_Dk by lia. reflexivity. Qed.
Lemma quot_quad_eq s c e tau :
  tangent_quot (quad_poly NR s c e) tau = quot_quad s c e tau.
Proof. unfold tangent_quot, quot_quad. rewrite quad_d_Dk by lia. reflexivity. Qed.

(* the limit of derivative/|derivative| from either side at a zero of the derivative:
   the direction of the first non-vanishing higher derivative, with sign (-1)^k from
   the left at a zero of order k *)
Lemma limit_direction_cubic s c1 c2 e t0 : cubic_d NR s c1 c2 e t0 1 = (0, 0) ->
  (cubic_d NR s c1 c2 e t0 2 <> (0, 0) ->
     lim_right (quot_cubic s c1 c2 e) t0 (unit_of NR TR (cubic_d NR s c1 c2 e t0 2)) /\
     lim_left (quot_cubic s c1 c2 e) t0 (copp NR (unit_of NR TR (cubic_d NR s c1 c2 e t0 2)))) /\
  (cubic_d NR s c1 c2 e t0 2 = (0, 0) ->
     lim_right (quot_cubic s c1 c2 e) t0 (unit_of NR TR (cubic_d NR s c1 c2 e t0 3)) /\
     lim_left (quot_cubic s c1 c2 e) t0 (unit_of NR TR (cubic_d NR s c1 c2 e t0 3))).
Proof.
  intros H1. rewrite !cubic_d_Dk in * by lia. unfold cubic_poly in *.
  split; intros H2.
  - destruct (cubic_limit_k1 H1 H2) as [A B]. split.
    + eapply lim_right_ext; [|exact A]. intros tau. apply (quot_cubic_eq s c1 c2 e tau).
    + eapply lim_left_ext; [|exact B]. intros tau. apply (quot_cubic_eq s c1 c2 e tau).
  - destruct (cubic_limit_k2 H1 H2) as [A B]. split.
    + eapply lim_right_ext; [|exact A]. intros tau. apply (quot_cubic_eq s c1 c2 e tau).
    + eapply lim_left_ext; [|exact B]. intros tau. apply (quot_cubic_eq s c1 c2 e tau).
Qed.
Lemma limit_direction_quad s c e t0 :
  quad_d NR s c e t0 1 = (0, 0) -> quad_d NR s c e t0 2 <> (0, 0) ->
  lim_right (quot_quad s c e) t0 (unit_of NR TR (quad_d NR s c e t0 2)) /\
  lim_left (quot_quad s c e) t0 (copp NR (unit_of NR TR (quad_d NR s c e t0 2))).
Proof.
  intros H1 H2. rewrite !quad_d_Dk in * by lia. unfold quad_poly in *.
  destruct (quad_limit_k1 H1 H2) as [A B]. split.
  - eapply lim_right_ext; [|exact A]. intros tau. apply (quot_quad_eq s c e tau).
  - eapply lim_left_ext; [|exact B]. intros tau. apply (quot_quad_eq s c e tau).
Qed.

(* what the code returns there: the principal square root of the squared direction *)
Lemma singular_value s c1 c2 e t0 :
  (cubic_d NR s c1 c2 e t0 1 = (0, 0) -> cubic_d NR s c1 c2 e t0 2 <> (0, 0) ->
   cubic_unit_tangent NR TR false s c1 c2 e t0 = Val (principal_dir (cubic_d NR s c1 c2 e t0 2))) /\
  (cubic_d NR s c1 c2 e t0 1 = (0, 0) -> cubic_d NR s c1 c2 e t0 2 = (0, 0) ->
   cubic_d NR s c1 c2 e t0 3 <> (0, 0) ->
   cubic_unit_tangent NR TR false s c1 c2 e t0 = Val (principal_dir (cubic_d NR s c1 c2 e t0 3))) /\
  (quad_d NR s c1 e t0 1 = (0, 0) -> quad_d NR s c1 e t0 2 <> (0, 0) ->
   quad_unit_tangent NR TR false s c1 e t0 = Val (principal_dir (quad_d NR s c1 e t0 2))) /\
  (forall w, w <> (0, 0) ->
     (right_half w -> principal_dir w = unit_of NR TR w) /\
     (left_half w -> principal_dir w = copp NR (unit_of NR TR w)) /\
     0 <= fst (principal_dir w)).
Proof.
  split; [apply cubic_singular_k1|]. split; [apply cubic_singular_k2|]. split; [apply quad_singular_k1|].
  intros w Hw. split; [apply principal_dir_right; exact Hw|].
  split; [apply principal_dir_left; exact Hw|apply csqrt_right_half].
Qed.

(* positive result: the returned value is the limit from the right when the
   heading is in the closed right half plane (from the left: left half plane) *)
Lemma singular_limit_partial s c1 c2 e t0 :
  cubic_d NR s c1 c2 e t0 1 = (0, 0) -> cubic_d NR s c1 c2 e t0 2 <> (0, 0) ->
  (right_half (cubic_d NR s c1 c2 e t0 2) ->
     exists u, lim_right (quot_cubic s c1 c2 e) t0 u /\ cubic_unit_tangent NR TR false s c1 c2 e t0 = Val u) /\
  (left_half (cubic_d NR s c1 c2 e t0 2) ->
     exists u, lim_left (quot_cubic s c1 c2 e) t0 u /\ cubic_unit_tangent NR TR false s c1 c2 e t0 = Val u).
Proof.
  intros H1 H2. destruct (limit_direction_cubic H1) as [L _]. destruct (L H2) as [A B].
  split; intros Hh; eexists; (split; [eassumption|]).
  - rewrite (cubic_singular_k1 H1 H2). f_equal. apply principal_dir_right; assumption.
  - rewrite (cubic_singular_k1 H1 H2). f_equal. apply principal_dir_left; assumption.
Qed.

Lemma copp_unit_ne u : nrm u = 1 -> copp NR u <> u.
Proof.
  intros Hn E. assert (Z : u = (0, 0)).
  { destruct u as [x y]. unfold copp in E; cbn in E. inversion E. f_equal; lra. }
  apply nrm_zero_iff in Z. lra.
Qed.

(* negative result: every heading in the open left half plane (approach from the
   right, e.g. t0 = 0 with P0 = P1) returns the NEGATIVE of the limit *)
Lemma singular_sign_general s c1 c2 e t0 :
  cubic_d NR s c1 c2 e t0 1 = (0, 0) -> cubic_d NR s c1 c2 e t0 2 <> (0, 0) ->
  left_half (cubic_d NR s c1 c2 e t0 2) ->
  exists u, lim_right (quot_cubic s c1 c2 e) t0 u /\
            cubic_unit_tangent NR TR false s c1 c2 e t0 = Val (copp NR u) /\ copp NR u <> u.
Proof.
  intros H1 H2 Hh. destruct (limit_direction_cubic H1) as [L _]. destruct (L H2) as [A _].
  eexists. split; [exact A|]. split.
  - rewrite (cubic_singular_k1 H1 H2). f_equal. apply principal_dir_left; assumption.
  - apply copp_unit_ne, unit_of_norm, H2.
Qed.
(* ... and from the left (t0 = 1 with P2 = P3) every second derivative in the
   closed right half plane does *)
Lemma singular_sign_general_left s c1 c2 e t0 :
  cubic_d NR s c1 c2 e t0 1 = (0, 0) -> cubic_d NR s c1 c2 e t0 2 <> (0, 0) ->
  right_half (cubic_d NR s c1 c2 e t0 2) ->
  exists u, lim_left (quot_cubic s c1 c2 e) t0 u /\
            cubic_unit_tangent NR TR false s c1 c2 e t0 = Val (copp NR u) /\ copp NR u <> u.
Proof.
  intros H1 H2 Hh. destruct (limit_direction_cubic H1) as [L _]. destruct (L H2) as [_ B].
  eexists. split; [exact B|]. split.
  - rewrite (cubic_singular_k1 H1 H2). f_equal.
    rewrite principal_dir_right by assumption.
    destruct (unit_of NR TR (cubic_d NR s c1 c2 e t0 2)) as [x y]. unfold copp; cbn. f_equal; ring.
  - apply copp_unit_ne. rewrite nrm_copp. apply unit_of_norm, H2.
Qed.

(* the concrete witness CubicBezier(0, 0, -1+1j, -2) at t = 0 *)
Definition w_s : Cplx R := (0, 0).
Definition w_c1 : Cplx R := (0, 0).
Definition w_c2 : Cplx R := (-1, 1).
Definition w_e : Cplx R := (-2, 0).
Lemma witness_d1 : cubic_d NR w_s w_c1 w_c2 w_e 0 1 = (0, 0).
Proof.
  unfold cubic_d, cubic_deriv, oget, w_s, w_c1, w_c2, w_e; cbn [Z.eqb Pos.eqb].
  cunfold. cbn [lit of_pos]. cbn [NumR add sub mul opp one zero]. f_equal; ring.
Qed.
Lemma witness_d2 : cubic_d NR w_s w_c1 w_c2 w_e 0 2 = (-6, 6).
Proof.
  unfold cubic_d, cubic_deriv, oget, w_s, w_c1, w_c2, w_e; cbn [Z.eqb Pos.eqb].
  cunfold. cbn [lit of_pos]. cbn [NumR add sub mul opp one zero]. f_equal; ring.
Qed.
Lemma singular_sign_witness :
  exists u, cubic_d NR w_s w_c1 w_c2 w_e 0 1 = (0, 0) /\
            lim_right (quot_cubic w_s w_c1 w_c2 w_e) 0 u /\ fst u < 0 /\
            cubic_unit_tangent NR TR false w_s w_c1 w_c2 w_e 0 = Val (copp NR u) /\ copp NR u <> u.
Proof.
  assert (H2 : cubic_d NR w_s w_c1 w_c2 w_e 0 2 <> (0, 0)).
  { rewrite witness_d2. intros E; inversion E; lra. }
  assert (Hh : left_half (cubic_d NR w_s w_c1 w_c2 w_e 0 2)).
  { rewrite witness_d2. left; cbn; lra. }
  destruct (limit_direction_cubic witness_d1) as [L _]. destruct (L H2) as [A _].
  eexists. split; [exact witness_d1|]. split; [exact A|]. split; [|split].
  - pose proof (unit_of_half_left H2 Hh) as [Q|[Q1 Q2]]; [exact Q|].
    exfalso. revert Q1. rewrite witness_d2, unit_of_R. cbn [fst snd].
    assert (P : 0 < nrm (-6, 6)) by (apply nrm_pos; intros E; inversion E; lra).
    intros Q1. assert (-6 = 0 * nrm (-6, 6)).
    { rewrite <- Q1. field. lra. } lra.
  - rewrite (cubic_singular_k1 witness_d1 H2). f_equal. apply principal_dir_left; assumption.
  - apply copp_unit_ne, unit_of_norm, H2.
Qed.

(* ---------- the repaired fallback returns the limit from inside [0,1] ---------- *)
Lemma Req_b_false x y : x <> y -> Req_b x y = false.
Proof. intros H. unfold Req_b. destruct (Req_EM_T x y); congruence. Qed.

Lemma singular_limit_repaired_cubic s c1 c2 e t0 : cubic_d NR s c1 c2 e t0 1 = (0, 0) ->
  (cubic_d NR s c1 c2 e t0 2 <> (0, 0) -> t0 <> 1 ->
     exists u, lim_right (quot_cubic s c1 c2 e) t0 u /\ cubic_unit_tangent NR TR true s c1 c2 e t0 = Val u) /\
  (cubic_d NR s c1 c2 e t0 2 <> (0, 0) -> t0 = 1 ->
     exists u, lim_left (quot_cubic s c1 c2 e) t0 u /\ cubic_unit_tangent NR TR true s c1 c2 e t0 = Val u) /\
  (cubic_d NR s c1 c2 e t0 2 = (0, 0) -> cubic_d NR s c1 c2 e t0 3 <> (0, 0) ->
     exists u, lim_right (quot_cubic s c1 c2 e) t0 u /\ lim_left (quot_cubic s c1 c2 e) t0 u /\
  cubic_unit_tangent NR TR true s c1 c2 e t0 = Val u).
Proof.
  intros H1. destruct (limit_direction_cubic H1) as [L1 L2]. split; [|split].
  - intros H2 Ht. destruct (L1 H2) as [A _]. eexists. split; [exact A|].
    rewrite (cubic_repaired_k1 H1 H2). unfold travel_dir. rewrite (Req_b_false Ht). reflexivity.
  - intros H2 Ht. destruct (L1 H2) as [_ B]. eexists. split; [exact B|].
    rewrite (cubic_repaired_k1 H1 H2). unfold travel_dir. subst t0.
    rewrite (proj2 (Req_b_true 1 1) eq_refl). reflexivity.
  - intros H2 H3. destruct (L2 H2) as [A B]. eexists. split; [exact A|]. split; [exact B|].
    apply (cubic_repaired_k2 H1 H2 H3).
Qed.
Lemma singular_limit_repaired_quad s c e t0 :
  quad_d NR s c e t0 1 = (0, 0) -> quad_d NR s c e t0 2 <> (0, 0) ->
  (t0 <> 1 -> exists u, lim_right (quot_quad s c e) t0 u /\ quad_unit_tangent NR TR true s c e t0 = Val u) /\
  (t0 = 1 -> exists u, lim_left (quot_quad s c e) t0 u /\ quad_unit_tangent NR TR true s c e t0 = Val u).
Proof.
  intros H1 H2. destruct (limit_direction_quad H1 H2) as [A B]. split; intros Ht.
  - eexists. split; [exact A|].
    rewrite (quad_repaired_k1 H1 H2). unfold travel_dir. rewrite (Req_b_false Ht). reflexivity.
  - eexists. split; [exact B|].
    rewrite (quad_repaired_k1 H1 H2). unfold travel_dir. subst t0.
    rewrite (proj2 (Req_b_true 1 1) eq_refl). reflexivity.
Qed.
(* the witness of the defect, on the repaired variant *)
Lemma singular_witness_repaired :
  exists u, lim_right (quot_cubic w_s w_c1 w_c2 w_e) 0 u /\ fst u < 0 /\
  cubic_unit_tangent NR TR true w_s w_c1 w_c2 w_e 0 = Val u.
Proof.
  destruct singular_sign_witness as (u & H1 & L & Hneg & _).
  assert (H2 : cubic_d NR w_s w_c1 w_c2 w_e 0 2 <> (0, 0)).
  { rewrite witness_d2. intros E; inversion E; lra. }
  destruct (singular_limit_repaired_cubic H1) as [P _].
  destruct (P H2) as (u' & L' & V); [lra|].
  destruct (limit_direction_cubic H1) as [Q _]. destruct (Q H2) as [A _].
  exists (unit_of NR TR (cubic_d NR w_s w_c1 w_c2 w_e 0 2)). split; [exact A|]. split.
  - assert (Hh : left_half (cubic_d NR w_s w_c1 w_c2 w_e 0 2)) by (rewrite witness_d2; left; cbn; lra).
    pose proof (unit_of_half_left H2 Hh) as [G|[G1 G2]]; [exact G|].
    exfalso. revert G1. rewrite witness_d2, unit_of_R. cbn [fst snd].
    assert (Pn : 0 < nrm (-6, 6)) by (apply nrm_pos; intros E; inversion E; lra).
    intros G1. assert (-6 = 0 * nrm (-6, 6)) by (rewrite <- G1; field; lra). lra.
  - rewrite (cubic_repaired_k1 H1 H2). unfold travel_dir.
    rewrite Req_b_false by lra. reflexivity.
Qed.

(* ---------- covariance of the repaired unit tangent at EVERY point, singular ones included ---- *)
Lemma cplx_zero_dec (d : Cplx R) : {d = (0, 0)} + {d <> (0, 0)}.
Proof.
  destruct d as [x y]. destruct (Req_EM_T x 0) as [->|Hx]; [destruct (Req_EM_T y 0) as [->|Hy]|].
  - left; reflexivity.
  - right; intros E; inversion E; contradiction.
  - right; intros E; inversion E; contradiction.
Qed.
Lemma cubic_d3_affine w z s c1 c2 e t :
  cubic_d NR (aff w z s) (aff w z c1) (aff w z c2) (aff w z e) t 3 = cmul NR w (cubic_d NR s c1 c2 e t 3).
Proof. cp_ring. Qed.
Lemma cubic_d3_reversed s c1 c2 e t :
  cubic_d NR e c2 c1 s (1 - t) 3 = copp NR (cubic_d NR s c1 c2 e t 3).
Proof. cp_ring. Qed.
Lemma copp_cmul w d : copp NR (cmul NR w d) = cmul NR w (copp NR d).
Proof. destruct w, d. unfold copp, cmul; cbn. f_equal; ring. Qed.

(* the direction search of the repaired fallback commutes with d |-> w d *)
Lemma first_dir_cmul w (Hw : w <> (0, 0)) hi : forall n b,
  first_dir NR TR n (map (cmul NR w) hi) b = res_map (cmul NR (unit_of NR TR w)) (first_dir NR TR n hi b).
Proof.
  induction hi as [|d r IH]; intros n b; [reflexivity|]. cbn [map first_dir].
  destruct (cplx_zero_dec d) as [->|Hd].
  - rewrite cmul0r, (ceqb_R_true (eq_refl _)). apply IH.
  - rewrite (ceqb_R_false Hd), (ceqb_R_false (cmul_nz Hw Hd)). cbn [res_map]. f_equal.
    destruct (b && Nat.even n).
    + rewrite copp_cmul. apply unit_of_cmul; [exact Hw|apply copp_nz, Hd].
    + apply unit_of_cmul; assumption.
Qed.

Lemma bezier_unit_tangent_rep_cmul w (Hw : w <> (0, 0)) poly poly' d hi t :
  bezier_unit_tangent NR TR true poly' (cmul NR w d) (map (cmul NR w) hi) t
  = res_map (cmul NR (unit_of NR TR w)) (bezier_unit_tangent NR TR true poly d hi t).
Proof.
  destruct (cplx_zero_dec d) as [->|Hd].
  - rewrite cmul0r, !bezier_unit_tangent_singular_rep. apply first_dir_cmul; exact Hw.
  - rewrite !bezier_unit_tangent_regular; [|exact Hd|apply cmul_nz; assumption].
    cbn [res_map]. f_equal. apply unit_of_cmul; assumption.
Qed.

(* similarity p |-> w p + z applied to the control points: at every t, whether the derivative
   vanishes or not (and when no direction exists both sides are the same error) *)
Lemma tangent_similarity_all_cubic w z s c1 c2 e t : w <> (0, 0) ->
  cubic_unit_tangent NR TR true (aff w z s) (aff w z c1) (aff w z c2) (aff w z e) t
  = res_map (cmul NR (unit_of NR TR w)) (cubic_unit_tangent NR TR true s c1 c2 e t).
Proof.
  intros Hw. unfold cubic_unit_tangent.
  rewrite cubic_d1_affine, cubic_d2_affine, cubic_d3_affine.
  apply (bezier_unit_tangent_rep_cmul Hw _ _ _ [cubic_d NR s c1 c2 e t 2; cubic_d NR s c1 c2 e t 3]).
Qed.
Lemma tangent_similarity_all_quad w z s c e t : w <> (0, 0) ->
  quad_unit_tangent NR TR true (aff w z s) (aff w z c) (aff w z e) t
  = res_map (cmul NR (unit_of NR TR w)) (quad_unit_tangent NR TR true s c e t).
Proof.
  intros Hw. unfold quad_unit_tangent. rewrite quad_d1_affine, quad_d2_affine.
  apply (bezier_unit_tangent_rep_cmul Hw _ _ _ [quad_d NR s c e t 2]).
Qed.

(* reversal at the end points (t = 0 <-> 1 - t = 1), singular or not: the tangent is negated *)
Lemma res_map_ext {A B} (f g : A -> B) r : (forall a, f a = g a) -> res_map f r = res_map g r.
Proof. intros H. destruct r; cbn; rewrite ?H; reflexivity. Qed.
Lemma copp_copp d : copp NR (copp NR d) = d.
Proof. destruct d. unfold copp; cbn. f_equal; ring. Qed.
Lemma copp_zero_iff d : copp NR d = (0, 0) <-> d = (0, 0).
Proof.
  split; intros H.
  - rewrite <- (copp_copp d), H. unfold copp; cbn. f_equal; ring.
  - subst. unfold copp; cbn. f_equal; ring.
Qed.

Lemma tangent_reversed_ends_cubic s c1 c2 e t : t = 0 \/ t = 1 ->
  cubic_unit_tangent NR TR true e c2 c1 s (1 - t)
  = res_map (copp NR) (cubic_unit_tangent NR TR true s c1 c2 e t).
Proof.
  intros Ht. destruct (cplx_zero_dec (cubic_d NR s c1 c2 e t 1)) as [H1|H1];
    [|apply tangent_reversed_cubic; exact H1].
  unfold cubic_unit_tangent. rewrite cubic_d1_reversed, cubic_d2_reversed, cubic_d3_reversed, H1.
  replace (copp NR (0, 0)) with ((0, 0) : Cplx R) by (unfold copp; cbn; f_equal; ring).
  rewrite !bezier_unit_tangent_singular_rep. unfold unit_tangent_fallback_repaired.
  set (d2 := cubic_d NR s c1 c2 e t 2). set (d3 := cubic_d NR s c1 c2 e t 3).
  assert (B : eqb NR (1 - t) (one NR) = negb (eqb NR t (one NR))).
  { cbn [eqb NumR one]. destruct Ht as [->| ->].
    - replace (1 - 0) with 1 by ring. rewrite (proj2 (Req_b_true 1 1) eq_refl), (Req_b_false (x:=0) (y:=1)) by lra.
      reflexivity.
    - replace (1 - 1) with 0 by ring. rewrite (proj2 (Req_b_true 1 1) eq_refl), (Req_b_false (x:=0) (y:=1)) by lra.
      reflexivity. }
  rewrite B. cbn [first_dir Nat.even].
  destruct (cplx_zero_dec d2) as [E2|N2].
  - rewrite E2, (ceqb_R_true (eq_refl _)).
    destruct (cplx_zero_dec d3) as [E3|N3].
    + rewrite E3. replace (copp NR (0, 0)) with ((0, 0) : Cplx R) by (unfold copp; cbn; f_equal; ring).
      rewrite (ceqb_R_true (eq_refl _)). reflexivity.
    + rewrite (ceqb_R_false N3), (ceqb_R_false (copp_nz N3)). rewrite !andb_false_r.
      cbn [res_map]. f_equal. apply unit_of_copp.
  - rewrite (ceqb_R_false N2). cbn [res_map]. f_equal. rewrite !andb_true_r.
    destruct (eqb NR t (one NR)); cbn [negb].
    + rewrite unit_of_copp, copp_copp. reflexivity.
    + apply unit_of_copp.
Qed.
Lemma tangent_reversed_ends_quad s c e t : t = 0 \/ t = 1 ->
  quad_unit_tangent NR TR true e c s (1 - t)
  = res_map (copp NR) (quad_unit_tangent NR TR true s c e t).
Proof.
  intros Ht. destruct (cplx_zero_dec (quad_d NR s c e t 1)) as [H1|H1];
    [|apply tangent_reversed_quad; exact H1].
  unfold quad_unit_tangent. rewrite quad_d1_reversed, quad_d2_reversed, H1.
  replace (copp NR (0, 0)) with ((0, 0) : Cplx R) by (unfold copp; cbn; f_equal; ring).
  rewrite !bezier_unit_tangent_singular_rep. unfold unit_tangent_fallback_repaired.
  set (d2 := quad_d NR s c e t 2).
  assert (B : eqb NR (1 - t) (one NR) = negb (eqb NR t (one NR))).
  { cbn [eqb NumR one]. destruct Ht as [->| ->].
    - replace (1 - 0) with 1 by ring. rewrite (proj2 (Req_b_true 1 1) eq_refl), (Req_b_false (x:=0) (y:=1)) by lra.
      reflexivity.
    - replace (1 - 1) with 0 by ring. rewrite (proj2 (Req_b_true 1 1) eq_refl), (Req_b_false (x:=0) (y:=1)) by lra.
      reflexivity. }
  rewrite B. cbn [first_dir Nat.even].
  destruct (cplx_zero_dec d2) as [E2|N2].
  - rewrite E2, (ceqb_R_true (eq_refl _)). reflexivity.
  - rewrite (ceqb_R_false N2). cbn [res_map]. f_equal. rewrite !andb_true_r.
    destruct (eqb NR t (one NR)); cbn [negb].
    + rewrite unit_of_copp, copp_copp. reflexivity.
    + apply unit_of_copp.
Qed.

(* ---------- executable witnesses of the same defect ---------- *)
(* exact rationals: rational_limit(d^2, |d|^2, 0) = -i = ((-1+i)/sqrt 2)^2, computed exactly *)
Definition wq_poly : list (Cplx Qc) :=
  cubic_poly NumQ (Q2Qc 0, Q2Qc 0) (Q2Qc 0, Q2Qc 0) (Q2Qc (-1), Q2Qc 1) (Q2Qc (-2), Q2Qc 0).
Definition wq_limit_is_minus_i : bool :=
  match crational_limit NumQ 6 (dseg_sq_poly NumQ wq_poly) (dseg_abs2_poly NumQ wq_poly) (Q2Qc 0) with
  | Val z => ceqb NumQ z (Q2Qc 0, Q2Qc (-1))
  | _ => false
  end.
Lemma witness_Q : wq_limit_is_minus_i = true.
Proof. vm_compute. reflexivity. Qed.
