(* Proofs/InvLength.v — inv_arclength (ilength): the bisection over R for an
   abstract length function, the early exits, the Path branch; and the
   structural stall lemma that holds for ANY carrier (in particular binary64). *)
From Coq Require Import ZArith List Bool Reals Lra Lia Psatz.
From SVP Require Import Base.Num Base.Cplx Model.Length.
Import ListNotations.

(* ================= any carrier: the stall ================= *)
Section Stall.
  Context {K : Type} (N : Num K).
  Variables (len : K -> K) (s s_tol : K).

  Definition midpt (lo hi : K) : K := div N (add N lo hi) (lit N 2).
  (* the tolerance test fails at the midpoint, the midpoint is one of the two
     bounds, and the branch taken re-assigns that bound to itself *)
  Definition stalled (lo hi : K) : Prop :=
    ltb N (nabs N (sub N (len (midpt lo hi)) s)) s_tol = false /\
    eqb N hi lo = false /\
    ((midpt lo hi = lo /\ ltb N (len lo) s = true) \/
     (midpt lo hi = hi /\ ltb N (len hi) s = false)).

  (* the code as it is: the state is a fixed point of the loop body and the
     exit test `t_upper == t_lower` never fires *)
  Theorem stall_maxits lo hi : stalled lo hi ->
    forall fuel, bisect N false s s_tol len fuel lo hi = EMaxIts.
  Proof.
    intros (Htol & Hne & Hmid) fuel. induction fuel as [|f IH]; [reflexivity|].
    cbn [bisect andb negb]. fold (midpt lo hi). rewrite Htol.
    destruct Hmid as [[Em Hl]|[Em Hl]]; rewrite Em, Hl, Hne; exact IH.
  Qed.
  (* the repaired exit test returns at once *)
  Theorem stall_repaired_returns lo hi : stalled lo hi ->
    (forall x, eqb N x x = true) ->
    forall fuel, bisect N true s s_tol len (S fuel) lo hi = IStall (midpt lo hi).
  Proof.
    intros (Htol & Hne & Hmid) Hrefl fuel.
    cbn [bisect andb]. fold (midpt lo hi). rewrite Htol.
    destruct Hmid as [[Em Hl]|[Em Hl]]; rewrite Em, !Hrefl; [reflexivity|].
    rewrite orb_true_r. reflexivity.
  Qed.

  (* repaired variant: with a measure that decreases whenever the midpoint is
     strictly inside, the loop returns within (measure + 1) iterations *)
  Variable mu : K -> K -> nat.
  Hypothesis eqb_refl : forall x, eqb N x x = true.
  Hypothesis mu_lo : forall lo hi, midpt lo hi <> lo -> midpt lo hi <> hi ->
                                   (mu (midpt lo hi) hi < mu lo hi)%nat.
  Hypothesis mu_hi : forall lo hi, midpt lo hi <> lo -> midpt lo hi <> hi ->
                                   (mu lo (midpt lo hi) < mu lo hi)%nat.

  Theorem repaired_returns fuel : forall lo hi, (mu lo hi < fuel)%nat ->
    bisect N true s s_tol len fuel lo hi <> EMaxIts.
  Proof.
    induction fuel as [|f IH]; intros lo hi Hmu; [lia|].
    cbn [bisect andb negb]. fold (midpt lo hi).
    destruct (ltb N (nabs N (sub N (len (midpt lo hi)) s)) s_tol); [discriminate|].
    destruct (eqb N (midpt lo hi) lo) eqn:E1; cbn [orb]; [discriminate|].
    destruct (eqb N (midpt lo hi) hi) eqn:E2; [discriminate|].
    assert (N1 : midpt lo hi <> lo) by (intros X; rewrite X, eqb_refl in E1; discriminate).
    assert (N2 : midpt lo hi <> hi) by (intros X; rewrite X, eqb_refl in E2; discriminate).
    destruct (ltb N (len (midpt lo hi)) s); apply IH.
    - specialize (mu_lo lo hi N1 N2). lia.
    - specialize (mu_hi lo hi N1 N2). lia.
  Qed.
End Stall.

(* ================= over R ================= *)
Local Open Scope R_scope.

Section BisectR.
  Variable rep : bool.
  Variable len : R -> R.
  Variables s s_tol : R.
  Hypothesis tolpos : 0 < s_tol.

  Notation bis := (bisect NumR rep s s_tol len).

  Lemma Rabs_b x : nabs NumR x = Rabs x.
  Proof.
    unfold nabs; cbn. destruct (Rlt_b x 0) eqn:E.
    - apply Rlt_b_true in E. rewrite Rabs_left; auto.
    - apply Rlt_b_false in E. rewrite Rabs_pos_eq; auto.
  Qed.
  Lemma mid_R lo hi : div NumR (add NumR lo hi) (lit NumR 2) = (lo + hi) / 2.
  Proof. reflexivity. Qed.

  Lemma Req_b_ne x y : x <> y -> Req_b x y = false.
  Proof. intros H. unfold Req_b. destruct (Req_EM_T x y); [contradiction|reflexivity]. Qed.

  (* over R both variants take the same step: no exit test can fire while lo < hi *)
  Lemma bis_step f lo hi : lo < hi ->
    bis (S f) lo hi =
    let t := (lo + hi) / 2 in
    if Rlt_b (Rabs (len t - s)) s_tol then IRet t
    else if Rlt_b (len t) s then bis f t hi else bis f lo t.
  Proof.
    intros Hlh. cbn [bisect]. rewrite mid_R. cbv zeta. set (t := (lo + hi) / 2).
    assert (Ht : lo < t < hi) by (unfold t; lra).
    rewrite Rabs_b. cbn [ltb sub eqb NumR].
    destruct (Rlt_b (Rabs (len t - s)) s_tol); [reflexivity|].
    rewrite (Req_b_ne t lo), (Req_b_ne t hi) by lra. cbn [orb]. rewrite andb_false_r.
    destruct (Rlt_b (len t) s).
    - rewrite (Req_b_ne hi t) by lra. rewrite andb_false_r. reflexivity.
    - rewrite (Req_b_ne t lo) by lra. rewrite andb_false_r. reflexivity.
  Qed.

  (* any len: what a returned value satisfies *)
  Theorem bisect_result fuel : forall lo hi, lo < hi ->
    match bis fuel lo hi with
    | IRet t => Rabs (len t - s) < s_tol /\ lo < t < hi
    | IStall t => False                       (* cannot happen over R *)
    | EMaxIts => True
    | _ => False
    end.
  Proof.
    induction fuel as [|f IH]; intros lo hi Hlh; [exact I|].
    rewrite bis_step by assumption. cbv zeta. set (t := (lo + hi) / 2).
    assert (Ht : lo < t < hi) by (unfold t; lra).
    destruct (Rlt_b (Rabs (len t - s)) s_tol) eqn:E.
    - apply Rlt_b_true in E. auto.
    - destruct (Rlt_b (len t) s).
      + specialize (IH t hi (proj2 Ht)). destruct (bis f t hi); auto. destruct IH; split; auto; lra.
      + specialize (IH lo t (proj1 Ht)). destruct (bis f lo t); auto. destruct IH; split; auto; lra.
  Qed.

  (* monotone len: the invariant, and termination under a Lipschitz bound *)
  Hypothesis len_mono : forall a b, a <= b -> len a <= len b.

  (* state after i non-exiting steps *)
  Fixpoint bis_state (i : nat) (lo hi : R) : R * R :=
    match i with
    | O => (lo, hi)
    | S j => let t := (lo + hi) / 2 in
             if Rlt_b (len t) s then bis_state j t hi else bis_state j lo t
    end.
  Theorem bisect_invariant i : forall lo hi, len lo <= s <= len hi -> lo <= hi ->
    let st := bis_state i lo hi in
    len (fst st) <= s <= len (snd st) /\ snd st - fst st = (hi - lo) / 2 ^ i /\ lo <= fst st /\ snd st <= hi.
  Proof.
    induction i as [|j IH]; intros lo hi Hs Hlh; cbv zeta; cbn [bis_state].
    - cbn [fst snd pow]. repeat split; try lra.
    - set (t := (lo + hi) / 2). assert (lo <= t <= hi) by (unfold t; lra).
      destruct (Rlt_b (len t) s) eqn:E.
      + apply Rlt_b_true in E. cbv zeta in IH. destruct (IH t hi) as (A & B & C & D); [lra|lra|].
        repeat split; try lra. rewrite B. unfold t. cbn [pow]. field. apply pow_nonzero; lra.
      + apply Rlt_b_false in E. cbv zeta in IH. destruct (IH lo t) as (A & B & C & D); [lra|lra|].
        repeat split; try lra. rewrite B. unfold t. cbn [pow]. field. apply pow_nonzero; lra.
  Qed.

  Variable Lam : R.
  Hypothesis len_lip : forall a b, a <= b -> len b - len a <= Lam * (b - a).

  Theorem bisect_terminates n : forall fuel lo hi, len lo <= s <= len hi -> lo < hi ->
    Lam * (hi - lo) / 2 ^ n < s_tol -> (n < fuel)%nat ->
    exists t, bis fuel lo hi = IRet t.
  Proof.
    induction n as [|n IH]; intros fuel lo hi Hs Hlh Hn Hf;
      (destruct fuel as [|f]; [lia|]); rewrite bis_step by assumption; cbv zeta;
      set (t := (lo + hi) / 2); assert (Ht : lo < t < hi) by (unfold t; lra).
    - (* the very first midpoint already meets the tolerance *)
      assert (B : Rabs (len t - s) < s_tol).
      { pose proof (len_mono lo t (Rlt_le _ _ (proj1 Ht))). pose proof (len_mono t hi (Rlt_le _ _ (proj2 Ht))).
        pose proof (len_lip lo hi (Rlt_le _ _ Hlh)). cbn [pow] in Hn.
        apply Rabs_def1; lra. }
      apply Rlt_b_true in B. rewrite B. eauto.
    - destruct (Rlt_b (Rabs (len t - s)) s_tol) eqn:E; [eauto|].
      assert (Hn' : Lam * (hi - t) / 2 ^ n < s_tol /\ Lam * (t - lo) / 2 ^ n < s_tol).
      { cbn [pow] in Hn. unfold t.
        replace (Lam * (hi - (lo + hi) / 2) / 2 ^ n) with (Lam * (hi - lo) / (2 * 2 ^ n))
          by (field; apply pow_nonzero; lra).
        replace (Lam * ((lo + hi) / 2 - lo) / 2 ^ n) with (Lam * (hi - lo) / (2 * 2 ^ n))
          by (field; apply pow_nonzero; lra). auto. }
      destruct (Rlt_b (len t) s) eqn:E2.
      + apply Rlt_b_true in E2. apply IH; try lra; try lia.
      + apply Rlt_b_false in E2. apply IH; try lra; try lia.
  Qed.
End BisectR.

(* ---------------- the whole function on a segment ---------------- *)
Section InvSeg.
  Variable rep is_line : bool.
  Variable len : R -> R.
  Variables L s_tol : R.
  Variable maxits : nat.
  Hypothesis Lpos : 0 < L.
  Notation inv := (fun s => inv_arclength_seg NumR rep is_line len L s s_tol maxits).

  Lemma Lpos_b : negb (ltb NumR (zero NumR) L) = false.
  Proof. cbn. assert (Rlt_b 0 L = true) as -> by now apply Rlt_b_true. reflexivity. Qed.

  Theorem inv_range s : s < 0 \/ L < s -> inv s = EValueError.
  Proof.
    intros H. unfold inv_arclength_seg. rewrite Lpos_b. cbn [leb NumR zero].
    destruct H as [H|H].
    - assert (Rle_b 0 s = false) as -> by (apply Rle_b_false; lra). reflexivity.
    - assert (Rle_b s L = false) as -> by (apply Rle_b_false; lra). rewrite andb_false_r. reflexivity.
  Qed.
  Theorem inv_ends : inv 0 = IRet 0 /\ inv L = IRet 1.
  Proof.
    unfold inv_arclength_seg. rewrite Lpos_b. cbn [leb eqb NumR zero one].
    assert (Rle_b 0 0 = true) as -> by (apply Rle_b_true; lra).
    assert (Rle_b 0 L = true) as -> by (apply Rle_b_true; lra).
    assert (Rle_b L L = true) as -> by (apply Rle_b_true; lra).
    assert (Req_b 0 0 = true) as -> by now apply Req_b_true.
    assert (Req_b L L = true) as -> by now apply Req_b_true.
    assert (Req_b L 0 = false) as -> by (unfold Req_b; destruct (Req_EM_T L 0); [lra|reflexivity]).
    cbn. auto.
  Qed.
  Lemma inv_inside s : 0 < s < L ->
    inv s = if is_line then IRet (s / L) else bisect NumR rep s s_tol len maxits 0 1.
  Proof.
    intros H. unfold inv_arclength_seg. rewrite Lpos_b. cbn [leb eqb NumR zero one].
    assert (Rle_b 0 s = true) as -> by (apply Rle_b_true; lra).
    assert (Rle_b s L = true) as -> by (apply Rle_b_true; lra).
    assert (Req_b s 0 = false) as -> by (unfold Req_b; destruct (Req_EM_T s 0); [lra|reflexivity]).
    assert (Req_b s L = false) as -> by (unfold Req_b; destruct (Req_EM_T s L); [lra|reflexivity]).
    reflexivity.
  Qed.

  Hypothesis tolpos : 0 < s_tol.
  (* whatever is returned is in [0,1]; on the bisection branch it meets the
     tolerance; the Line branch is exact when len t = L t *)
  Theorem inv_result s t : 0 <= s <= L -> inv s = IRet t ->
    0 <= t <= 1 /\
    (is_line = false -> 0 < s < L -> Rabs (len t - s) < s_tol) /\
    (is_line = true -> (forall u, len u = L * u) -> len t = s).
  Proof.
    intros Hs. destruct (Req_dec s 0) as [->|S0].
    { rewrite (proj1 inv_ends). intros H; injection H as <-.
      repeat split; try lra. intros _ Hl. rewrite Hl. ring. }
    destruct (Req_dec s L) as [->|SL].
    { rewrite (proj2 inv_ends). intros H; injection H as <-.
      repeat split; try lra. intros _ Hl. rewrite Hl. ring. }
    rewrite inv_inside by lra. destruct is_line.
    - intros H; injection H as <-. split; [|split; [discriminate|]].
      + split; [apply Rmult_le_pos; [lra|left; apply Rinv_0_lt_compat; lra]|].
        apply (Rmult_le_reg_r L); [lra|]. unfold Rdiv. rewrite Rmult_assoc, Rinv_l by lra. lra.
      + intros _ Hl. rewrite Hl. field. lra.
    - intros H. pose proof (bisect_result rep len s s_tol maxits 0 1 ltac:(lra)) as B.
      rewrite H in B. destruct B as [B1 B2]. repeat split; try lra; auto; try discriminate.
  Qed.
  Theorem inv_no_stall s t : inv s <> IStall t.
  Proof.
    unfold inv_arclength_seg. rewrite Lpos_b.
    destruct (negb _); [discriminate|]. destruct (eqb _ _ _); [discriminate|].
    destruct (eqb _ _ _); [discriminate|]. destruct is_line; [discriminate|].
    pose proof (bisect_result rep len s s_tol maxits 0 1 ltac:(lra)) as B.
    cbn [zero one NumR]. intros H. rewrite H in B. exact B.
  Qed.

  (* termination: len monotone, Lipschitz, len 0 = 0, len 1 = L *)
  Theorem inv_terminates Lam n s : (forall a b, a <= b -> len a <= len b) ->
    (forall a b, a <= b -> len b - len a <= Lam * (b - a)) -> len 0 = 0 -> len 1 = L ->
    Lam / 2 ^ n < s_tol -> (n < maxits)%nat -> 0 <= s <= L -> exists t, inv s = IRet t.
  Proof.
    intros Hm Hl H0 H1 Hn Hf Hs.
    destruct (Req_dec s 0) as [->|S0]; [rewrite (proj1 inv_ends); eauto|].
    destruct (Req_dec s L) as [->|SL]; [rewrite (proj2 inv_ends); eauto|].
    rewrite inv_inside by lra. destruct is_line; [eauto|].
    apply (bisect_terminates rep len s s_tol Hm Lam Hl n); try lra; auto.
  Qed.

  (* monotone up to the resolution 2 s_tol / m, m a lower bound of the speed *)
  Theorem inv_monotone m s s' t t' : 0 < m ->
    (forall a b, a <= b -> m * (b - a) <= len b - len a) -> is_line = false ->
    0 < s -> s <= s' -> s' < L -> inv s = IRet t -> inv s' = IRet t' ->
    t <= t' + 2 * s_tol / m.
  Proof.
    intros Hm Hlen Hl H0 Hss HL E E'.
    destruct (inv_result s t ltac:(lra) E) as (_ & A & _).
    destruct (inv_result s' t' ltac:(lra) E') as (_ & A' & _).
    specialize (A Hl ltac:(lra)). specialize (A' Hl ltac:(lra)).
    apply Rabs_def2 in A. apply Rabs_def2 in A'.
    destruct (Rle_dec t t') as [Le|Gt].
    - assert (0 < 2 * s_tol / m) by (apply Rdiv_lt_0_compat; lra). lra.
    - apply Rnot_le_lt in Gt. pose proof (Hlen t' t (Rlt_le _ _ Gt)) as P.
      assert (m * (t - t') < 2 * s_tol) by lra.
      assert (t - t' < 2 * s_tol / m); [|lra].
      apply (Rmult_lt_reg_l m); [lra|]. replace (m * (2 * s_tol / m)) with (2 * s_tol) by (field; lra). lra.
  Qed.
  Theorem inv_line_monotone s s' : is_line = true -> 0 < s -> s <= s' -> s' < L ->
    exists t t', inv s = IRet t /\ inv s' = IRet t' /\ t <= t'.
  Proof.
    intros Hl H0 Hss HL. cbv beta. rewrite !inv_inside by lra. rewrite Hl.
    eexists; eexists; repeat split.
    apply Rmult_le_compat_r; [left; apply Rinv_0_lt_compat; lra|lra].
  Qed.
End InvSeg.

(* ---------------- the Path branch ---------------- *)
Section InvPath.
  Variable rep prep : bool.
  Variable t2T : nat -> R -> R.
  Variables s s_tol : R.
  Variable maxits : nat.

  Definition seg_L (p : @pseg R) : R := snd p.
  Fixpoint cumL (segs : list (@pseg R)) (lsum : R) (k : nat) : R :=
    match k, segs with
    | S j, p :: r => cumL r (lsum + seg_L p) j
    | _, _ => lsum
    end.

  (* over R the clamp min(s - lsum, len_k) of the repaired code is the identity *)
  Lemma clamp_R lsum Lk : lsum <= s <= lsum + Lk ->
    (if prep then nmin NumR (sub NumR s lsum) Lk else sub NumR s lsum) = s - lsum.
  Proof.
    intros H. destruct prep; [|reflexivity]. unfold nmin. cbn [ltb sub NumR].
    assert (Rlt_b Lk (s - lsum) = false) as -> by (apply Rlt_b_false; lra). reflexivity.
  Qed.

  (* the value returned by the search is t2T k (result on segment k at s - cum_k),
     k the first segment whose cumulative interval contains s; falling through
     returns 1 *)
  Theorem path_search_spec segs : forall k0 lsum,
    let r := path_search NumR rep prep t2T segs k0 lsum s s_tol maxits in
    (exists j p, nth_error segs j = Some p /\
       let c := cumL segs lsum j in
       c <= s <= c + seg_L p /\
       (forall i q, (i < j)%nat -> nth_error segs i = Some q ->
                    ~ (cumL segs lsum i <= s <= cumL segs lsum i + seg_L q)) /\
       r = match inv_arclength_seg NumR rep (fst (fst p)) (snd (fst p)) (seg_L p) (s - c) s_tol maxits with
           | IRet t => IRet (t2T (k0 + j)%nat t)
           | IStall t => IStall (t2T (k0 + j)%nat t)
           | e => e
           end)
    \/ ((forall i q, nth_error segs i = Some q ->
                     ~ (cumL segs lsum i <= s <= cumL segs lsum i + seg_L q)) /\ r = IRet 1).
  Proof.
    induction segs as [|[[il ln] Lk] r IH]; intros k0 lsum; cbn [path_search].
    - right. split; [|reflexivity]. intros [|i] q H; discriminate.
    - cbn [leb add NumR].
      destruct (Rle_b lsum s && Rle_b s (lsum + Lk)) eqn:E.
      + apply andb_prop in E as [E1 E2]. apply Rle_b_true in E1, E2.
        left. exists 0%nat, (il, ln, Lk). cbn [nth_error cumL seg_L snd fst].
        repeat split; auto. { intros i q Hi; lia. }
        rewrite Nat.add_0_r. rewrite clamp_R by lra. reflexivity.
      + assert (NE : ~ (lsum <= s <= lsum + Lk)).
        { intros [A B]. apply Rle_b_true in A, B. rewrite A, B in E. discriminate. }
        destruct (IH (S k0) (lsum + Lk)) as [(j & p & Hn & Hc & Hf & Hr)|[Hf Hr]].
        * left. exists (S j), p. cbn [nth_error cumL seg_L snd]. repeat split; try apply Hc; auto.
          { intros [|i] q Hi Hq; cbn [nth_error cumL] in *.
            - injection Hq as <-. exact NE.
            - apply (Hf i q); [lia|exact Hq]. }
          rewrite Hr. replace (S k0 + j)%nat with (k0 + S j)%nat by lia. reflexivity.
        * right. split; [|exact Hr].
          intros [|i] q Hq; cbn [nth_error cumL] in *.
          -- injection Hq as <-. exact NE.
          -- apply (Hf i q Hq).
  Qed.
End InvPath.

(* ================= any ordered carrier: the repaired Path branch is total ======
   With the clamp min(s - lsum, len_k) the segment never sees an s outside
   [0, len_k]: no ValueError, no AssertionError, for every s — under the order
   facts below, which hold in R and for the non-NaN binary64 numbers. *)
Section PathTotal.
  Context {K : Type} (N : Num K).
  Hypothesis leb_refl : forall x, leb N x x = true.
  Hypothesis leb_total : forall x y, ltb N y x = false -> leb N x y = true.
  Hypothesis ltb_leb : forall x y, ltb N x y = true -> leb N x y = true.
  Hypothesis sub_nonneg : forall a b, leb N a b = true -> leb N (zero N) (sub N b a) = true.
  Variables (rep : bool) (t2T : nat -> K -> K) (s s_tol : K) (maxits : nat).

  Lemma seg_in_range il len Lk s' :
    ltb N (zero N) Lk = true -> leb N (zero N) s' = true -> leb N s' Lk = true ->
    inv_arclength_seg N rep il len Lk s' s_tol maxits <> EValueError /\
    inv_arclength_seg N rep il len Lk s' s_tol maxits <> EAssert.
  Proof.
    intros HL H0 H1. unfold inv_arclength_seg. rewrite HL, H0, H1. cbn [negb andb].
    destruct (eqb N s' (zero N)); [split; discriminate|].
    destruct (eqb N s' Lk); [split; discriminate|].
    destruct il; [split; discriminate|].
    generalize (zero N) (one N). induction maxits as [|f IH]; intros lo hi; cbn [bisect];
      [split; discriminate|].
    destruct (ltb N _ s_tol); [split; discriminate|].
    destruct (rep && _); [split; discriminate|].
    destruct (negb rep && _); [split; discriminate|]. apply IH.
  Qed.

  Theorem path_repaired_total segs : forall k lsum,
    Forall (fun p : @pseg K => ltb N (zero N) (snd p) = true) segs ->
    path_search N rep true t2T segs k lsum s s_tol maxits <> EValueError /\
    path_search N rep true t2T segs k lsum s s_tol maxits <> EAssert.
  Proof.
    induction segs as [|[[il ln] Lk] r IH]; intros k lsum HF; cbn [path_search];
      [split; discriminate|].
    inversion HF as [|? ? HL HF']; subst. cbn [snd] in HL.
    destruct (leb N lsum s && leb N s (add N lsum Lk)) eqn:E; [|apply IH; assumption].
    apply andb_prop in E as [E1 E2].
    set (s' := nmin N (sub N s lsum) Lk).
    assert (R0 : leb N (zero N) s' = true /\ leb N s' Lk = true).
    { unfold s', nmin. destruct (ltb N Lk (sub N s lsum)) eqn:C.
      - split; [apply ltb_leb; exact HL|apply leb_refl].
      - split; [apply sub_nonneg; exact E1|apply leb_total; exact C]. }
    destruct (seg_in_range il ln Lk s' HL (proj1 R0) (proj2 R0)) as [A B].
    destruct (inv_arclength_seg N rep il ln Lk s' s_tol maxits); split; try discriminate; auto.
  Qed.
End PathTotal.

(* the order facts hold over R: the theorem is not vacuous *)
Theorem path_repaired_total_R rep t2T s s_tol maxits segs k lsum :
  Forall (fun p : @pseg R => 0 < snd p) segs ->
  path_search NumR rep true t2T segs k lsum s s_tol maxits <> EValueError /\
  path_search NumR rep true t2T segs k lsum s s_tol maxits <> EAssert.
Proof.
  intros HF. apply path_repaired_total.
  - intros x. apply Rle_b_true. lra.
  - intros x y H. apply Rlt_b_false in H. apply Rle_b_true. lra.
  - intros x y H. apply Rlt_b_true in H. apply Rle_b_true. lra.
  - intros a b H. apply Rle_b_true in H. apply Rle_b_true. cbn. lra.
  - eapply Forall_impl; [|exact HF]. intros p Hp. apply Rlt_b_true. exact Hp.
Qed.
