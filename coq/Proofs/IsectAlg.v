(* Proofs/IsectAlg.v — algebra of the intersection routines over an arbitrary
   field of characteristic 0 (axiom-free): Cramer soundness of Line–Line, the
   change of frame of bezier_by_line_intersections, de Casteljau halving as a
   re-parameterisation (what the sub-curves of the worklist machine are). *)
From Coq Require Import ZArith List Bool Field Lia.
From SVP Require Import Base.Num Base.Cplx Base.Poly Base.FieldTac Model.Bezier Model.Isect
     Proofs.BezierAlg.
Import ListNotations.

Section Alg.
  Context {K : Type} (N : Num K) (OK : NumFieldOK N).
  Add Field KF : (Fth OK).

  Ltac lits := cbn [lit of_pos npow Z.of_nat Pos.of_succ_nat Pos.succ fst snd].

  Lemma mul_nz a b : a <> zero N -> b <> zero N -> mul N a b <> zero N.
  Proof.
    intros Ha Hb H. apply Hb.
    transitivity (mul N (inv N a) (mul N a b)); [field; exact Ha | rewrite H; ring].
  Qed.
  (* side conditions of [field]: products of small literals *)
  Ltac nz :=
    repeat split;
    repeat first [ exact (char0 OK 1%positive) | exact (char0 OK 2%positive)
                 | exact (char0 OK 3%positive) | exact (char0 OK 4%positive)
                 | exact (char0 OK 8%positive) | assumption | apply mul_nz ].

  (* ------------------------------------------------------------- *)
  (** ** Line–Line *)

  (* field identity behind Cramer's rule *)
  Lemma line_line_cramer p0 p1 q0 q1 :
    line_line_denom N p0 p1 q0 q1 <> zero N ->
    line_point N p0 p1 (line_line_t1 N p0 p1 q0 q1) = line_point N q0 q1 (line_line_t2 N p0 p1 q0 q1).
  Proof.
    intros H. destruct p0, p1, q0, q1.
    unfold line_point, line_line_t1, line_line_t2, line_line_denom in *. cunfold.
    apply cplx_eq; cbn [fst snd]; field; exact H.
  Qed.

  Lemma sub0_eq a b : sub N a b = zero N -> b = a.
  Proof. intros H. transitivity (sub N a (sub N a b)); [ring | rewrite H; ring]. Qed.

  (* the crossing is unique: any (t1,t2) with P(t1) = Q(t2) is the Cramer solution *)
  Lemma line_line_unique p0 p1 q0 q1 t1 t2 :
    line_line_denom N p0 p1 q0 q1 <> zero N ->
    line_point N p0 p1 t1 = line_point N q0 q1 t2 ->
    t1 = line_line_t1 N p0 p1 q0 q1 /\ t2 = line_line_t2 N p0 p1 q0 q1.
  Proof.
    intros H E. destruct p0 as [a0 b0], p1 as [a1 b1], q0 as [c0 d0], q1 as [c1 d1].
    unfold line_point, line_line_t1, line_line_t2, line_line_denom in *. cunfold.
    injection E as Ex Ey.
    set (Px := add N a0 (mul N t1 (sub N a1 a0))) in *.
    set (Qx := add N c0 (mul N t2 (sub N c1 c0))) in *.
    set (Py := add N b0 (mul N t1 (sub N b1 b0))) in *.
    set (Qy := add N d0 (mul N t2 (sub N d1 d0))) in *.
    split.
    - match goal with |- t1 = div N ?n ?d => assert (E1 : mul N t1 d = n) end.
      { apply sub0_eq.
        match goal with |- sub N ?n ?m = _ =>
          replace (sub N n m) with (sub N (mul N (sub N Px Qx) (sub N d1 d0)) (mul N (sub N Py Qy) (sub N c1 c0)))
            by (unfold Px, Qx, Py, Qy; ring) end.
        rewrite Ex, Ey. ring. }
      rewrite <- E1. field. exact H.
    - match goal with |- t2 = div N ?n ?d => assert (E2 : mul N t2 d = n) end.
      { apply sub0_eq.
        match goal with |- sub N ?n ?m = _ =>
          replace (sub N n m) with (sub N (mul N (sub N Px Qx) (sub N b1 b0)) (mul N (sub N Py Qy) (sub N a1 a0)))
            by (unfold Px, Qx, Py, Qy; ring) end.
        rewrite Ex, Ey. ring. }
      rewrite <- E2. field. exact H.
  Qed.

  (* what the code returns is sound — [Hsnap]: a zero denominator is snapped
     (true for every ordered field and atol >= 0) *)
  Lemma line_line_sound atol p0 p1 q0 q1 t1 t2 :
    leb N (nabs N (zero N)) atol = true ->
    line_line N atol p0 p1 q0 q1 = IOk [(t1, t2)] ->
    in01 N t1 = true /\ in01 N t2 = true /\ line_point N p0 p1 t1 = line_point N q0 q1 t2.
  Proof.
    intros Hs. unfold line_line. cbv zeta.
    destruct (ceqb N q1 q0 || ceqb N p1 p0); [discriminate|].
    destruct (ceqb N p0 q0 && ceqb N p1 q1); [discriminate|].
    destruct (leb N (nabs N (line_line_denom N p0 p1 q0 q1)) atol) eqn:Hd; [discriminate|].
    destruct (in01 N (line_line_t1 N p0 p1 q0 q1) && in01 N (line_line_t2 N p0 p1 q0 q1)) eqn:Hr;
      [|discriminate].
    intros E; injection E as <- <-. apply andb_prop in Hr. destruct Hr as [H1 H2].
    split; [exact H1|split; [exact H2|]].
    apply line_line_cramer. intros Z. rewrite Z in Hd. congruence.
  Qed.
  Lemma line_line_at_most_one atol p0 p1 q0 q1 l :
    line_line N atol p0 p1 q0 q1 = IOk l -> (length l <= 1)%nat.
  Proof.
    unfold line_line. cbv zeta.
    repeat match goal with |- context [if ?c then _ else _] => destruct c end;
      intros E; try discriminate; injection E as <-; cbn; lia.
  Qed.

  (* exchanging the operands: the denominator changes sign, t1 and t2 trade places *)
  Lemma line_line_denom_swap p0 p1 q0 q1 :
    line_line_denom N q0 q1 p0 p1 = opp N (line_line_denom N p0 p1 q0 q1).
  Proof. destruct p0, p1, q0, q1. unfold line_line_denom. cunfold. ring. Qed.
  Lemma line_line_t_swap p0 p1 q0 q1 :
    line_line_denom N p0 p1 q0 q1 <> zero N ->
    line_line_t1 N q0 q1 p0 p1 = line_line_t2 N p0 p1 q0 q1 /\
    line_line_t2 N q0 q1 p0 p1 = line_line_t1 N p0 p1 q0 q1.
  Proof.
    intros H. destruct p0, p1, q0, q1.
    unfold line_line_t1, line_line_t2, line_line_denom in *. cunfold.
    assert (H' : sub N (mul N (sub N k5 k3) (sub N k0 k2)) (mul N (sub N k6 k4) (sub N k k1)) <> zero N).
    { intros Z. apply H.
      match goal with |- ?l = _ => transitivity (opp N (sub N (mul N (sub N k5 k3) (sub N k0 k2)) (mul N (sub N k6 k4) (sub N k k1)))) end;
        [ring | rewrite Z; ring]. }
    split; field; auto.
  Qed.

  (* ------------------------------------------------------------- *)
  (** ** Bezier–Line: the change of frame *)

  (* w = rot (z - l0) with rot = len/(l1-l0).  The offset of z from the line
     point of parameter Re w / len is Im w / len times the normal (-ey, ex):
     no property of [len] other than len <> 0 is used. *)
  Lemma frame_offset len l0 l1 z :
    len <> zero N -> cnorm2 N (csub N l1 l0) <> zero N ->
    let w := cmul N (bl_rot N len l0 l1) (csub N z l0) in
    csub N z (line_point N l0 l1 (div N (re w) len)) =
    cscale N (div N (im w) len) (opp N (im (csub N l1 l0)), re (csub N l1 l0)).
  Proof.
    intros Hl Hn w. subst w. destruct l0 as [x0 y0], l1 as [x1 y1], z as [zx zy].
    unfold bl_rot, line_point in *. cunfold. cunfold.
    apply cplx_eq; cbn [fst snd]; field; split; assumption.
  Qed.

  Lemma frame_sound len l0 l1 z :
    len <> zero N -> cnorm2 N (csub N l1 l0) <> zero N ->
    let w := cmul N (bl_rot N len l0 l1) (csub N z l0) in
    im w = zero N -> z = line_point N l0 l1 (div N (re w) len).
  Proof.
    intros Hl Hn w Hw. pose proof (frame_offset len l0 l1 z Hl Hn) as E.
    cbv zeta in E. fold w in E. rewrite Hw in E.
    destruct z as [zx zy]. destruct (line_point N l0 l1 (div N (re w) len)) as [px py].
    unfold csub, cscale in E. cbn [re im fst snd] in E. injection E as Ex Ey.
    apply cplx_eq; cbn [fst snd]; symmetry; apply sub0_eq.
    - rewrite Ex. field. exact Hl.
    - rewrite Ey. field. exact Hl.
  Qed.

  (* with len^2 = |l1-l0|^2 the change of frame is an isometry: the squared
     distance between B(t) and the reported line point is (Im w)^2, i.e. the
     square of the y-polynomial at the reported root *)
  Lemma frame_residual len l0 l1 z :
    len <> zero N -> mul N len len = cnorm2 N (csub N l1 l0) ->
    let w := cmul N (bl_rot N len l0 l1) (csub N z l0) in
    cnorm2 N (csub N z (line_point N l0 l1 (div N (re w) len))) = mul N (im w) (im w).
  Proof.
    intros Hl Hlen w.
    assert (Hn : cnorm2 N (csub N l1 l0) <> zero N).
    { rewrite <- Hlen. intros Z. apply Hl.
      transitivity (mul N (inv N len) (mul N len len)); [field; exact Hl | rewrite Z; ring]. }
    pose proof (frame_offset len l0 l1 z Hl Hn) as E. cbv zeta in E. fold w in E. rewrite E.
    generalize (im w). intros iw.
    unfold cnorm2, cscale in *. cbn [re im fst snd] in *.
    transitivity (mul N (mul N (div N iw len) (div N iw len))
                        (add N (mul N (re (csub N l1 l0)) (re (csub N l1 l0)))
                               (mul N (im (csub N l1 l0)) (im (csub N l1 l0))))).
    - unfold re, im. ring.
    - unfold re, im in *. rewrite <- Hlen. field. exact Hl.
  Qed.

  (* the y-polynomial and the x-value are the imaginary and real parts of the
     transformed curve (any constant [rot]; degrees 1, 2, 3) *)
  Definition xform (rot l0 : Cplx K) (bez : list (Cplx K)) : list (Cplx K) :=
    map (fun z => cmul N rot (csub N z l0)) bez.
  Definition deg123 (bez : list (Cplx K)) : Prop :=
    length bez = 2%nat \/ length bez = 3%nat \/ length bez = 4%nat.

  Lemma xform_ypoly rot l0 bez t : deg123 bez ->
    peval N (bez2poly_real N (map snd (xform rot l0 bez))) t
    = im (cmul N rot (csub N (bezier_point N bez t) l0)).
  Proof.
    intros [H|[H|H]];
      repeat (destruct bez as [|? bez]; try discriminate H); clear H;
      destruct rot, l0; destruct_cplx;
      unfold xform, bez2poly_real, bezier_point, peval; cbn [map fold_left]; cunfold; lits; ring.
  Qed.
  Lemma xform_xval rot l0 bez t : deg123 bez ->
    bezier_point_real N (map fst (xform rot l0 bez)) t
    = re (cmul N rot (csub N (bezier_point N bez t) l0)).
  Proof.
    intros [H|[H|H]];
      repeat (destruct bez as [|? bez]; try discriminate H); clear H;
      destruct rot, l0; destruct_cplx;
      unfold xform, bezier_point_real, bezier_point; cbn [map]; cunfold; lits; ring.
  Qed.

  Lemma nodupb_incl l x : In x (nodupb N l) -> In x l.
  Proof.
    induction l as [|a l IH]; cbn; auto.
    destruct (existsb (eqb N a) l); cbn; intuition.
  Qed.

  Lemma bl_select_in len bez l0 l1 roots t lt :
    In (t, lt) (bl_select N len bez l0 l1 roots) ->
    In t roots /\ lt = div N (bl_xval N len bez l0 l1 t) len
    /\ leb N (zero N) (bl_xval N len bez l0 l1 t) = true
    /\ leb N (bl_xval N len bez l0 l1 t) len = true.
  Proof.
    unfold bl_select. rewrite in_flat_map. intros [r [Hr Hin]]. cbv zeta in Hin.
    destruct (leb N (zero N) (bl_xval N len bez l0 l1 r)) eqn:H0; cbn in Hin; [|contradiction].
    destruct (leb N (bl_xval N len bez l0 l1 r) len) eqn:H1; cbn in Hin; [|contradiction].
    destruct Hin as [E|[]]. injection E as <- <-.
    repeat split; auto. apply nodupb_incl; exact Hr.
  Qed.

  (* C11: an exact root of the y-polynomial that passes the x-range test is a
     genuine common point *)
  Theorem bezier_line_sound len bez l0 l1 roots t lt :
    deg123 bez -> len <> zero N -> cnorm2 N (csub N l1 l0) <> zero N ->
    In (t, lt) (bl_select N len bez l0 l1 roots) ->
    peval N (bl_coeffs_y N len bez l0 l1) t = zero N ->
    bezier_point N bez t = line_point N l0 l1 lt.
  Proof.
    intros Hd Hl Hn Hin Hroot.
    destruct (bl_select_in _ _ _ _ _ _ _ Hin) as (_ & -> & _ & _).
    unfold bl_coeffs_y, bl_xval, bl_transformed in *.
    fold (xform (bl_rot N len l0 l1) l0 bez) in *.
    rewrite xform_ypoly in Hroot by exact Hd. rewrite xform_xval by exact Hd.
    apply (frame_sound len l0 l1 (bezier_point N bez t) Hl Hn). exact Hroot.
  Qed.

  (* ... and for ANY reported pair (exact root or not) the squared distance
     between the two reported points is the squared value of the y-polynomial *)
  Theorem bezier_line_residual len bez l0 l1 roots t lt :
    deg123 bez -> len <> zero N -> mul N len len = cnorm2 N (csub N l1 l0) ->
    In (t, lt) (bl_select N len bez l0 l1 roots) ->
    cnorm2 N (csub N (bezier_point N bez t) (line_point N l0 l1 lt))
    = mul N (peval N (bl_coeffs_y N len bez l0 l1) t) (peval N (bl_coeffs_y N len bez l0 l1) t).
  Proof.
    intros Hd Hl Hlen Hin.
    destruct (bl_select_in _ _ _ _ _ _ _ Hin) as (_ & -> & _ & _).
    unfold bl_coeffs_y, bl_xval, bl_transformed in *.
    fold (xform (bl_rot N len l0 l1) l0 bez) in *.
    rewrite xform_ypoly by exact Hd. rewrite xform_xval by exact Hd.
    apply (frame_residual len l0 l1 (bezier_point N bez t) Hl Hlen).
  Qed.

  (* C12: conversely every common point is a root of the y-polynomial whose
     x-value is len * (line parameter) *)
  Theorem crossing_is_root len bez l0 l1 t s :
    deg123 bez -> len <> zero N -> cnorm2 N (csub N l1 l0) <> zero N ->
    bezier_point N bez t = line_point N l0 l1 s ->
    peval N (bl_coeffs_y N len bez l0 l1) t = zero N
    /\ bl_xval N len bez l0 l1 t = mul N s len.
  Proof.
    intros Hd Hl Hn E.
    unfold bl_coeffs_y, bl_xval, bl_transformed.
    fold (xform (bl_rot N len l0 l1) l0 bez).
    rewrite xform_ypoly by exact Hd. rewrite xform_xval by exact Hd. rewrite E.
    destruct l0 as [x0 y0], l1 as [x1 y1].
    unfold bl_rot, line_point in *. cunfold. cunfold. split; field; repeat split; assumption.
  Qed.

  (* ------------------------------------------------------------- *)
  (** ** halve_bezier is a re-parameterisation; the sub-curves of the worklist *)
  Definition deg23 (b : list (Cplx K)) : Prop := length b = 3%nat \/ length b = 4%nat.

  Lemma halve_length b : deg23 b ->
    length (fst (halve_bezier N b)) = length b /\ length (snd (halve_bezier N b)) = length b.
  Proof.
    intros [H|H]; repeat (destruct b as [|? b]; try discriminate H); cbn; auto.
  Qed.

  Lemma halve_left b s : deg23 b ->
    bezier_point N (fst (halve_bezier N b)) s = bezier_point N b (div N s (lit N 2)).
  Proof.
    intros [H|H]; repeat (destruct b as [|? b]; try discriminate H); clear H; destruct_cplx;
      unfold halve_bezier, split_bezier, bezier_point;
      cbn [length dc_levels dc_step map hd last rev app fst snd]; cunfold; lits;
      apply cplx_eq; cbn [fst snd]; field; nz.
  Qed.
  Lemma halve_right b s : deg23 b ->
    bezier_point N (snd (halve_bezier N b)) s
    = bezier_point N b (div N (add N (one N) s) (lit N 2)).
  Proof.
    intros [H|H]; repeat (destruct b as [|? b]; try discriminate H); clear H; destruct_cplx;
      unfold halve_bezier, split_bezier, bezier_point;
      cbn [length dc_levels dc_step map hd last rev app fst snd]; cunfold; lits;
      apply cplx_eq; cbn [fst snd]; field; nz.
  Qed.

  (* (b, t, k): b is a sub-curve produced by k halvings of bez, t its centre *)
  Inductive sub_of (bez : list (Cplx K)) : list (Cplx K) -> K -> nat -> Prop :=
  | sub_root : sub_of bez bez (half N) 0
  | sub_left b t k : sub_of bez b t k ->
      sub_of bez (fst (halve_bezier N b)) (sub N t (npow N (half N) (k + 2))) (S k)
  | sub_right b t k : sub_of bez b t k ->
      sub_of bez (snd (halve_bezier N b)) (add N t (npow N (half N) (k + 2))) (S k).

  Lemma npow_S x n : npow N x (S n) = mul N x (npow N x n).
  Proof. reflexivity. Qed.

  (* b(s) = bez(t + (2s-1) 2^-(k+1)): the sub-curve is the restriction of bez
     to the dyadic interval of half-width 2^-(k+1) around t; in particular
     bez(t) is the point of parameter 1/2 of b *)
  Theorem sub_of_param bez b t k : deg23 bez -> sub_of bez b t k ->
    deg23 b /\ forall s, bezier_point N b s
      = bezier_point N bez (add N t (mul N (sub N (mul N (lit N 2) s) (one N)) (npow N (half N) (k + 1)))).
  Proof.
    intros Hd H. induction H as [|b t k H [IHd IH]|b t k H [IHd IH]].
    - split; [exact Hd|]. intros s. f_equal. unfold half. cbn [Nat.add npow]. lits. field. nz.
    - destruct (halve_length b IHd) as [L1 L2].
      split; [unfold deg23 in *; rewrite L1; exact IHd|].
      intros s. rewrite halve_left by exact IHd. rewrite IH. f_equal.
      replace (k + 2)%nat with (S (k + 1)) by lia. replace (S k + 1)%nat with (S (k + 1)) by lia.
      rewrite !npow_S. generalize (npow N (half N) (k + 1)). intros h.
      unfold half. lits. field. nz.
    - destruct (halve_length b IHd) as [L1 L2].
      split; [unfold deg23 in *; rewrite L2; exact IHd|].
      intros s. rewrite halve_right by exact IHd. rewrite IH. f_equal.
      replace (k + 2)%nat with (S (k + 1)) by lia. replace (S k + 1)%nat with (S (k + 1)) by lia.
      rewrite !npow_S. generalize (npow N (half N) (k + 1)). intros h.
      unfold half. lits. field. nz.
  Qed.
  Corollary sub_of_centre bez b t k : deg23 bez -> sub_of bez b t k ->
    bezier_point N b (half N) = bezier_point N bez t.
  Proof.
    intros Hd H. destruct (sub_of_param _ _ _ _ Hd H) as [_ E]. rewrite E. f_equal.
    generalize (npow N (half N) (k + 1)). intros h. unfold half. lits. field. nz.
  Qed.

  (* ------------------------------------------------------------- *)
  (** ** Line–Line completeness (C12) *)
  Theorem line_line_complete atol p0 p1 q0 q1 s1 s2 :
    leb N (nabs N (zero N)) atol = true ->
    ceqb N q1 q0 || ceqb N p1 p0 = false ->
    ceqb N p0 q0 && ceqb N p1 q1 = false ->
    leb N (nabs N (line_line_denom N p0 p1 q0 q1)) atol = false ->    (* denominator not snapped to 0 *)
    in01 N s1 = true -> in01 N s2 = true ->
    line_point N p0 p1 s1 = line_point N q0 q1 s2 ->
    line_line N atol p0 p1 q0 q1 = IOk [(s1, s2)].
  Proof.
    intros Hs Hnd Hne Hd H1 H2 E.
    assert (Hz : line_line_denom N p0 p1 q0 q1 <> zero N).
    { intros Z. rewrite Z in Hd. congruence. }
    destruct (line_line_unique p0 p1 q0 q1 s1 s2 Hz E) as [-> ->].
    unfold line_line. cbv zeta. rewrite Hnd, Hne, Hd, H1, H2. reflexivity.
  Qed.
End Alg.
