(* Proofs/Choose.v — n_choose_k (fac(n)//fac(k)//fac(n-k)) is the binomial
   coefficient of Pascal's triangle, for all k <= n. *)
From Coq Require Import ZArith List Lia.
From SVP Require Import Model.Bezier.
Open Scope Z_scope.

Lemma fact_pos n : 0 < fact n.
Proof. induction n as [|n IH]; cbn [fact]; lia. Qed.

Lemma fact_S n : fact (S n) = Z.of_nat (S n) * fact n.
Proof. reflexivity. Qed.

Lemma binom_n_0 n : binom n 0 = 1%nat.
Proof. destruct n; reflexivity. Qed.

Lemma binom_gt n : forall k, (n < k)%nat -> binom n k = 0%nat.
Proof.
  induction n as [|n IH]; intros k H.
  - destruct k; [lia|reflexivity].
  - destruct k; [lia|]. cbn [binom]. rewrite !IH by lia. reflexivity.
Qed.

Lemma binom_n_n n : binom n n = 1%nat.
Proof.
  induction n as [|n IH]; [reflexivity|].
  cbn [binom]. rewrite IH, binom_gt by lia. reflexivity.
Qed.

(* C(n,k) * k! * (n-k)! = n! *)
Lemma binom_fact n : forall k, (k <= n)%nat ->
  Z.of_nat (binom n k) * fact k * fact (n - k) = fact n.
Proof.
  induction n as [|n IH]; intros k Hk.
  - assert (k = 0%nat) by lia; subst. reflexivity.
  - destruct k as [|k].
    + rewrite binom_n_0. cbn [fact Nat.sub]. lia.
    + destruct (Nat.eq_dec k n) as [->|Hne].
      * rewrite binom_n_n, Nat.sub_diag. cbn [fact]. lia.
      * cbn [binom]. rewrite Nat2Z.inj_add.
        assert (H1 := IH k ltac:(lia)).
        assert (H2 := IH (S k) ltac:(lia)).
        replace (S n - S k)%nat with (n - k)%nat by lia.
        replace (n - k)%nat with (S (n - S k)) in * by lia.
        rewrite !fact_S in *.
        replace (Z.of_nat (S n)) with (Z.of_nat (S k) + Z.of_nat (S (n - S k))) by lia.
        nia.
Qed.

Theorem n_choose_k_binom n k : (k <= n)%nat -> n_choose_k n k = Z.of_nat (binom n k).
Proof.
  intros Hk. unfold n_choose_k.
  pose proof (binom_fact n k Hk) as H.
  pose proof (fact_pos k). pose proof (fact_pos (n - k)%nat).
  rewrite <- H.
  replace (Z.of_nat (binom n k) * fact k * fact (n - k))
    with (Z.of_nat (binom n k) * fact (n - k) * fact k) by ring.
  rewrite Z.div_mul by lia. rewrite Z.div_mul by lia. reflexivity.
Qed.
